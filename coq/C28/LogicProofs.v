(* C28 -- the truth-value theorems: logical_xor, and_or (flattening, constants, complementary
   literals, the Contains(sym, FiniteSet) domain simplification), the subs visitor on boolean
   trees, nand / nor / xnor, piecewise.  All statements are for ALL formulas of the fragment, ALL
   assignments, every argument order (no sortedness of the argument containers is assumed) and
   every fuel value. *)
From SE Require Export C28.LogicAtoms.
From Coq Require Import Lia ZifyBool.
Local Open Scope N_scope.

(* ================================================================== logical_xor *)
Definition st_val (rho : env) (st : list expr * N) : bool :=
  xorb (N.odd (snd st)) (xor_all (map (evalB rho) (fst st))).
Definition st_ok (st : list expr * N) : Prop := forallb formula (fst st) = true.

Lemma N_odd_add1 : forall n, N.odd (n + 1) = negb (N.odd n).
Proof. intros. rewrite N.add_1_r, N.odd_succ, <- N.negb_odd. reflexivity. Qed.

Lemma xor_step_sound : forall st a, st_ok st -> formula a = true ->
  st_ok (xor_step st a) /\
  forall rho, st_val rho (xor_step st a) = xorb (st_val rho st) (evalB rho a).
Proof.
  intros [args nots] a Hs Ha. unfold st_ok in *. cbn [fst] in Hs. unfold xor_step.
  pose proof (forallb_formula_frag _ Hs) as Hf. pose proof (formula_frag _ Ha) as Fa.
  destruct (lnot_sound a Ha) as [Hn En]. pose proof (formula_frag _ Hn) as Fn.
  destruct (set_mem a args) eqn:M1.
  - split; [cbn [fst]; apply forallb_set_erase; auto|].
    intros rho. unfold st_val. cbn [fst snd]. rewrite xor_set_erase by auto.
    destruct (N.odd nots), (evalB rho a), (xor_all (map (evalB rho) args)); reflexivity.
  - destruct (set_mem (lnot a) args) eqn:M2.
    + split; [cbn [fst]; apply forallb_set_erase; auto|].
      intros rho. unfold st_val. cbn [fst snd]. rewrite xor_set_erase by auto.
      rewrite N_odd_add1, En.
      destruct (N.odd nots), (evalB rho a), (xor_all (map (evalB rho) args)); reflexivity.
    + split; [cbn [fst]; rewrite forallb_set_insert by auto; rewrite Ha, Hs; reflexivity|].
      intros rho. unfold st_val. cbn [fst snd]. rewrite xor_set_insert_new by auto.
      destruct (N.odd nots), (evalB rho a), (xor_all (map (evalB rho) args)); reflexivity.
Qed.

Lemma xor_steps_sound : forall l st, st_ok st -> forallb formula l = true ->
  st_ok (fold_left xor_step l st) /\
  forall rho, st_val rho (fold_left xor_step l st) =
              xorb (st_val rho st) (xor_all (map (evalB rho) l)).
Proof.
  induction l as [|a l IH]; intros st Hs Hl; cbn [fold_left map].
  - split; auto. intros. unfold xor_all. cbn. rewrite xorb_false_r. reflexivity.
  - cbn [forallb] in Hl. rewrite andb_true_iff in Hl. destruct Hl as [Ha Hl].
    destruct (xor_step_sound st a Hs Ha) as [S1 E1]. destruct (IH _ S1 Hl) as [S2 E2].
    split; auto. intros rho. rewrite E2, E1. unfold xor_all. cbn [fold_right].
    destruct (st_val rho st), (evalB rho a), (fold_right xorb false (map (evalB rho) l)); reflexivity.
Qed.

Lemma evalB_Xor : forall rho l, evalB rho (EFN TC_Xor l) = xor_all (map (evalB rho) l).
Proof. reflexivity. Qed.
Lemma evalB_And : forall rho l, evalB rho (EFN TC_And l) = forallb (evalB rho) l.
Proof. reflexivity. Qed.
Lemma evalB_Or : forall rho l, evalB rho (EFN TC_Or l) = existsb (evalB rho) l.
Proof. reflexivity. Qed.

Lemma xor_arg_sound : forall st a, st_ok st -> formula a = true ->
  st_ok (xor_arg st a) /\
  forall rho, st_val rho (xor_arg st a) = xorb (st_val rho st) (evalB rho a).
Proof.
  intros st a Hs Ha. destruct a; try discriminate Ha; try (apply xor_step_sound; auto).
  - (* EFN *)
    cbn [xor_arg]. destruct (code =? TC_Xor) eqn:E.
    + apply N.eqb_eq in E. subst code. apply xor_steps_sound; [exact Hs|exact (formula_children _ _ Ha)].
    + apply xor_step_sound; auto.
  - (* EBool *)
    cbn [xor_arg]. split; [exact Hs|]. intros rho. unfold st_val. cbn [fst snd evalB].
    destruct b.
    + rewrite N_odd_add1. destruct (N.odd (snd st)), (xor_all (map (evalB rho) (fst st))); reflexivity.
    + rewrite xorb_false_r. reflexivity.
Qed.

Lemma xor_args_sound : forall s st, st_ok st -> forallb formula s = true ->
  st_ok (fold_left xor_arg s st) /\
  forall rho, st_val rho (fold_left xor_arg s st) =
              xorb (st_val rho st) (xor_all (map (evalB rho) s)).
Proof.
  induction s as [|a l IH]; intros st Hs Hl; cbn [fold_left map].
  - split; auto. intros. unfold xor_all. cbn. rewrite xorb_false_r. reflexivity.
  - cbn [forallb] in Hl. rewrite andb_true_iff in Hl. destruct Hl as [Ha Hl].
    destruct (xor_arg_sound st a Hs Ha) as [S1 E1]. destruct (IH _ S1 Hl) as [S2 E2].
    split; auto. intros rho. rewrite E2, E1. unfold xor_all. cbn [fold_right].
    destruct (st_val rho st), (evalB rho a), (fold_right xorb false (map (evalB rho) l)); reflexivity.
Qed.

Lemma formula_Xor : forall l, forallb formula l = true -> formula (EFN TC_Xor l) = true.
Proof. intros. cbn [formula]. rewrite H. reflexivity. Qed.
Lemma formula_And : forall l, forallb formula l = true -> formula (EFN TC_And l) = true.
Proof. intros. cbn [formula]. rewrite H. reflexivity. Qed.
Lemma formula_Or : forall l, forallb formula l = true -> formula (EFN TC_Or l) = true.
Proof. intros. cbn [formula]. rewrite H. reflexivity. Qed.
Lemma formula_Not : forall a, formula a = true -> formula (EF1 TC_Not a) = true.
Proof. intros. cbn [formula]. rewrite H. reflexivity. Qed.

Lemma xor_finish_sound : forall st, st_ok st ->
  formula (xor_finish st) = true /\ forall rho, evalB rho (xor_finish st) = st_val rho st.
Proof.
  intros [args nots] Hs. unfold st_ok in Hs. cbn [fst] in Hs. unfold xor_finish, st_val. cbn [fst snd].
  rewrite <- N.negb_odd. destruct (N.odd nots); cbn [negb].
  - destruct args as [|a [|b r]].
    + split; reflexivity.
    + cbn [forallb] in Hs. rewrite andb_true_r in Hs. destruct (lnot_sound a Hs) as [F E].
      split; auto. intros rho. rewrite E. unfold xor_all. cbn [map fold_right].
      destruct (evalB rho a); reflexivity.
    + split; [apply formula_Not, formula_Xor; auto|]. intros rho. cbn [evalB].
      change (evalB rho (EFN TC_Xor (a :: b :: r))) with (xor_all (map (evalB rho) (a :: b :: r))).
      destruct (xor_all (map (evalB rho) (a :: b :: r))); reflexivity.
  - destruct args as [|a [|b r]].
    + split; reflexivity.
    + cbn [forallb] in Hs. rewrite andb_true_r in Hs. split; auto. intros rho.
      unfold xor_all. cbn [map fold_right]. destruct (evalB rho a); reflexivity.
    + split; [apply formula_Xor; auto|]. intros rho.
      change (evalB rho (EFN TC_Xor (a :: b :: r))) with (xor_all (map (evalB rho) (a :: b :: r))).
      destruct (xor_all (map (evalB rho) (a :: b :: r))); reflexivity.
Qed.

Theorem logical_xor_sound : forall s, forallb formula s = true ->
  formula (logical_xor s) = true /\
  forall rho, evalB rho (logical_xor s) = xor_all (map (evalB rho) s).
Proof.
  intros s Hs. unfold logical_xor.
  assert (H0 : st_ok ([], 0)) by reflexivity.
  destruct (xor_args_sound s _ H0 Hs) as [S E]. destruct (xor_finish_sound _ S) as [F V].
  split; auto. intros rho. rewrite V, E. unfold st_val. cbn [fst snd map].
  destruct (xor_all (map (evalB rho) s)); reflexivity.
Qed.

Theorem logical_xnor_sound : forall s, forallb formula s = true ->
  formula (logical_xnor s) = true /\
  forall rho, evalB rho (logical_xnor s) = negb (xor_all (map (evalB rho) s)).
Proof.
  intros s Hs. unfold logical_xnor. destruct (logical_xor_sound s Hs) as [F E].
  destruct (lnot_sound _ F) as [F' E']. split; auto. intros rho. rewrite E', E. reflexivity.
Qed.

(* ================================================================== environments *)
Definition upd (rho : env) (nm : list N) (q : Q) : env :=
  fun s => if bytes_eqb s nm then q else rho s.

Definition env_eq (r1 r2 : env) : Prop := forall s, r1 s == r2 s.

Lemma evalT_ext : forall r1 r2 e, env_eq r1 r2 -> evalT r1 e == evalT r2 e.
Proof. intros r1 r2 e H. destruct e; cbn [evalT]; try reflexivity. apply H. Qed.

Lemma existsb_ext : forall (A : Type) (p q : A -> bool) l, (forall x, p x = q x) -> existsb p l = existsb q l.
Proof. intros. apply existsb_ext_in. auto. Qed.

Lemma evalS_ext : forall r1 r2 s v1 v2, env_eq r1 r2 -> v1 == v2 -> evalS r1 s v1 = evalS r2 s v2.
Proof.
  intros r1 r2 s v1 v2 H Hv. destruct s; cbn [evalS]; try reflexivity.
  - apply existsb_ext. intros x. apply Qeqb_comp; auto using evalT_ext.
  - unfold Qltb.
    rewrite (Qleb_comp _ _ Hv _ _ (evalT_ext r1 r2 s1 H)), (Qleb_comp _ _ (evalT_ext r1 r2 s1 H) _ _ Hv),
            (Qleb_comp _ _ Hv _ _ (evalT_ext r1 r2 s2 H)), (Qleb_comp _ _ (evalT_ext r1 r2 s2 H) _ _ Hv).
    reflexivity.
Qed.

Lemma evalB_ext : forall r1 r2 e, env_eq r1 r2 -> evalB r1 e = evalB r2 e.
Proof.
  intros r1 r2 e H. induction e using expr_size_ind. destruct e; cbn [evalB]; try reflexivity.
  - f_equal. apply H0. cbn [size]. lia.
  - unfold eval_rel, Qltb.
    rewrite (Qeqb_comp _ _ (evalT_ext r1 r2 e1 H) _ _ (evalT_ext r1 r2 e2 H)),
            (Qleb_comp _ _ (evalT_ext r1 r2 e1 H) _ _ (evalT_ext r1 r2 e2 H)),
            (Qleb_comp _ _ (evalT_ext r1 r2 e2 H) _ _ (evalT_ext r1 r2 e1 H)).
    reflexivity.
  - assert (E : forall x, In x args -> evalB r1 x = evalB r2 x).
    { intros x Hx. apply H0. apply in_list_size in Hx. cbn [size]. lia. }
    destruct (code =? TC_And); [apply forallb_ext_in; auto|].
    destruct (code =? TC_Or); [apply existsb_ext_in; auto|].
    f_equal. apply map_ext_in. auto.
  - apply evalS_ext; auto using evalT_ext.
Qed.

Lemma upd_same : forall rho nm q, upd rho nm q nm = q.
Proof. intros. unfold upd. rewrite bytes_eqb_refl. reflexivity. Qed.

Lemma upd_other : forall rho nm q s, s <> nm -> upd rho nm q s = rho s.
Proof.
  intros. unfold upd. destruct (bytes_eqb s nm) eqn:E; auto. apply bytes_eqb_true in E. contradiction.
Qed.

(* overwriting a symbol with (something equal to) its own value changes nothing *)
Lemma upd_self : forall rho nm q, q == rho nm -> env_eq (upd rho nm q) rho.
Proof.
  intros rho nm q H s. unfold upd. destruct (bytes_eqb s nm) eqn:E; [|reflexivity].
  apply bytes_eqb_true in E. subst. assumption.
Qed.

(* ================================================================== and_or *)
Definition agg (is_or : bool) (rho : env) (l : list expr) : bool :=
  if is_or then existsb (evalB rho) l else forallb (evalB rho) l.
Definition comb (is_or : bool) (x y : bool) : bool := if is_or then x || y else x && y.

Lemma agg_set_insert : forall is_or rho k s, frag k = true -> forallb frag s = true ->
  agg is_or rho (set_insert k s) = comb is_or (evalB rho k) (agg is_or rho s).
Proof.
  intros [] rho k s Hk Hs; unfold agg, comb.
  - apply existsb_set_insert; auto.
  - apply forallb_set_insert; auto.
Qed.

Lemma agg_set_insert_all : forall is_or rho l s, forallb frag l = true -> forallb frag s = true ->
  agg is_or rho (set_insert_all l s) = comb is_or (agg is_or rho l) (agg is_or rho s).
Proof.
  intros [] rho l s Hl Hs; unfold agg, comb.
  - apply existsb_set_insert_all; auto.
  - apply forallb_set_insert_all; auto.
Qed.

Lemma agg_cons : forall is_or rho a l, agg is_or rho (a :: l) = comb is_or (evalB rho a) (agg is_or rho l).
Proof. intros []; reflexivity. Qed.

Lemma ao_collect_sound : forall is_or s args0,
  forallb formula s = true -> forallb formula args0 = true ->
  match ao_collect is_or s args0 with
  | None => forall rho, agg is_or rho s = is_or
  | Some args => forallb formula args = true /\
                 forall rho, agg is_or rho args = comb is_or (agg is_or rho s) (agg is_or rho args0)
  end.
Proof.
  intros is_or. induction s as [|a r IH]; intros args0 Hs H0; cbn [ao_collect].
  - split; auto. intros rho. destruct is_or; cbn; [reflexivity|]. reflexivity.
  - cbn [forallb] in Hs. rewrite andb_true_iff in Hs. destruct Hs as [Ha Hr].
    pose proof (forallb_formula_frag _ H0) as F0. pose proof (formula_frag _ Ha) as Fa.
    assert (Generic :
      match ao_collect is_or r (set_insert a args0) with
      | None => forall rho, agg is_or rho (a :: r) = is_or
      | Some args => forallb formula args = true /\
                     forall rho, agg is_or rho args =
                                 comb is_or (agg is_or rho (a :: r)) (agg is_or rho args0)
      end).
    { assert (H1 : forallb formula (set_insert a args0) = true)
        by (rewrite forallb_set_insert by auto; rewrite Ha, H0; reflexivity).
      specialize (IH (set_insert a args0) Hr H1).
      destruct (ao_collect is_or r (set_insert a args0)).
      - destruct IH as [I1 I2]. split; auto. intros rho. rewrite I2, agg_set_insert, agg_cons by auto.
        destruct is_or; cbn [comb];
          destruct (agg _ rho r), (evalB rho a), (agg _ rho args0); reflexivity.
      - intros rho. rewrite agg_cons, IH. destruct is_or; cbn [comb];
          destruct (evalB rho a); reflexivity. }
    destruct a; try discriminate Ha; try exact Generic.
    + (* EFN *)
      destruct (code =? (if is_or then TC_Or else TC_And)) eqn:E; [|exact Generic].
      apply N.eqb_eq in E. pose proof (formula_children _ _ Ha) as Hc.
      pose proof (forallb_formula_frag _ Hc) as Fc.
      assert (H1 : forallb formula (set_insert_all args args0) = true)
        by (rewrite forallb_set_insert_all by auto; rewrite Hc, H0; reflexivity).
      specialize (IH (set_insert_all args args0) Hr H1).
      assert (Ev : forall rho, evalB rho (EFN code args) = agg is_or rho args)
        by (intros rho; subst code; destruct is_or; reflexivity).
      destruct (ao_collect is_or r (set_insert_all args args0)).
      * destruct IH as [I1 I2]. split; auto. intros rho.
        rewrite I2, agg_set_insert_all, agg_cons, Ev by auto.
        destruct is_or; cbn [comb];
          destruct (agg _ rho r), (agg _ rho args), (agg _ rho args0); reflexivity.
      * intros rho. rewrite agg_cons, IH. destruct is_or; cbn [comb];
          destruct (evalB rho (EFN code args)); reflexivity.
    + (* EBool *)
      destruct (Bool.eqb b is_or) eqn:E.
      * apply Bool.eqb_prop in E. subst b. intros rho. rewrite agg_cons. cbn [evalB].
        destruct is_or; reflexivity.
      * specialize (IH args0 Hr H0). destruct (ao_collect is_or r args0).
        -- destruct IH as [I1 I2]. split; auto. intros rho. rewrite I2, agg_cons. cbn [evalB].
           destruct is_or, b; try discriminate E; cbn [comb]; reflexivity.
        -- intros rho. rewrite agg_cons, IH. cbn [evalB].
           destruct is_or, b; try discriminate E; reflexivity.
Qed.

Lemma has_compl_sound : forall is_or args, forallb formula args = true -> has_compl args = true ->
  forall rho, agg is_or rho args = is_or.
Proof.
  intros is_or args Hf H rho. unfold has_compl in H. apply existsb_exists in H.
  destruct H as [a [Ha Hm]]. pose proof (forallb_In _ _ _ _ Hf Ha) as Fa.
  destruct (lnot_sound a Fa) as [Fn En].
  apply set_mem_In in Hm; auto using formula_frag, forallb_formula_frag.
  unfold agg. destruct is_or.
  - apply existsb_exists. destruct (evalB rho a) eqn:E.
    + exists a. auto.
    + exists (lnot a). split; auto. rewrite En, E. reflexivity.
  - apply not_true_is_false. intros H. rewrite forallb_forall in H.
    pose proof (H a Ha) as H1. pose proof (H _ Hm) as H2. rewrite En, H1 in H2. discriminate.
Qed.

Lemma ao_finish_sound : forall is_or args, forallb formula args = true ->
  formula (ao_finish is_or args) = true /\
  forall rho, evalB rho (ao_finish is_or args) = agg is_or rho args.
Proof.
  intros is_or args H. unfold ao_finish. destruct args as [|a [|b r]].
  - split; [reflexivity|]. intros rho. destruct is_or; reflexivity.
  - cbn [forallb] in H. rewrite andb_true_r in H. split; auto. intros rho.
    destruct is_or; cbn; [rewrite orb_false_r|rewrite andb_true_r]; reflexivity.
  - destruct is_or.
    + split; [apply formula_Or; auto|]. intros; reflexivity.
    + split; [apply formula_And; auto|]. intros; reflexivity.
Qed.

(* ---------- specifications of the recursive entry points ---------- *)
Definition AND_spec (AND : list expr -> res expr) : Prop :=
  forall s r, forallb formula s = true -> AND s = Ok r ->
    formula r = true /\ forall rho, evalB rho r = forallb (evalB rho) s.

Definition OR_spec (OR : list expr -> res expr) : Prop :=
  forall s r, forallb formula s = true -> OR s = Ok r ->
    formula r = true /\ forall rho, evalB rho r = existsb (evalB rho) s.

(* e[sym := v] = r : the three syntactic classes *)
Definition P3 (nm : list N) (v e r : expr) : Prop :=
  (term_ok e = true -> term_ok r = true /\
     forall rho, evalT rho r = evalT (upd rho nm (evalT rho v)) e) /\
  (set_ok e = true -> set_ok r = true /\
     forall rho q, evalS rho r q = evalS (upd rho nm (evalT rho v)) e q) /\
  (formula e = true -> formula r = true /\
     forall rho, evalB rho r = evalB (upd rho nm (evalT rho v)) e).

Definition SUBS_spec (SUBS : expr -> expr -> expr -> res expr) : Prop :=
  forall nm v e r, term_ok v = true -> SUBS (ESym nm) v e = Ok r -> P3 nm v e r.

(* ---------- the domain simplification ---------- *)
Lemma In_set_insert_inv : forall x k s, In x (set_insert k s) -> x = k \/ In x s.
Proof.
  induction s as [|k' r IH]; cbn [set_insert].
  - cbn [In]. intros [H|[]]. left. congruence.
  - destruct (expr_keyless k' k).
    + cbn [In]. intros [H|H]; auto. apply IH in H. tauto.
    + destruct (expr_keyless k k'); cbn [In]; intros H; intuition congruence.
Qed.

Lemma In_set_insert_old : forall x k s, In x s -> In x (set_insert k s).
Proof.
  induction s as [|k' r IH]; cbn [set_insert]; [cbn [In]; tauto|].
  destruct (expr_keyless k' k).
  - cbn [In]. intros [H|H]; auto.
  - destruct (expr_keyless k k'); cbn [In]; tauto.
Qed.

Lemma In_set_insert_new : forall k s, frag k = true -> forallb frag s = true -> In k (set_insert k s).
Proof.
  induction s as [|k' r IH]; cbn [set_insert forallb]; [cbn; auto|].
  intros Hk Hs. rewrite andb_true_iff in Hs. destruct Hs as [Hk' Hr].
  destruct (expr_keyless k' k) eqn:E1.
  - right. auto.
  - destruct (expr_keyless k k') eqn:E2; [left; reflexivity|].
    left. symmetry. apply keyless_equiv_eq; auto.
Qed.

Lemma forallb_terms_frag : forall l, forallb term_ok l = true -> forallb frag l = true.
Proof. intros l H. eapply forallb_impl; [|exact H]. intros; apply term_frag; auto. Qed.

Lemma present_contains_sound : forall present nm, forallb term_ok present = true ->
  formula (present_contains present (ESym nm)) = true /\
  forall rho, evalB rho (present_contains present (ESym nm)) = val_in rho (rho nm) present.
Proof.
  intros present nm H. destruct present as [|x l].
  - split; reflexivity.
  - unfold present_contains. destruct (fset_contains_sound (x :: l) (ESym nm) H eq_refl) as [F E].
    split; auto.
Qed.

(* substituting a value the symbol already has changes nothing *)
Lemma upd_hit : forall rho nm e f, Qeq_bool (evalT rho e) (rho nm) = true ->
  evalB (upd rho nm (evalT rho e)) f = evalB rho f.
Proof. intros. apply evalB_ext. apply upd_self. apply Qeq_bool_eq. assumption. Qed.

Section Dom.
  Variable AND : list expr -> res expr.
  Variable SUBS : expr -> expr -> expr -> res expr.
  Hypothesis HAND : AND_spec AND.
  Hypothesis HSUBS : SUBS_spec SUBS.

  Lemma dom_elems_sound : forall nm restCond fset present0 se0 present se,
    formula restCond = true -> forallb term_ok fset = true -> forallb term_ok present0 = true ->
    dom_elems SUBS (ESym nm) restCond fset present0 se0 = Ok (present, se) ->
    forallb term_ok present = true /\
    (forall x, In x present -> In x present0 \/ In x fset) /\
    (forall x, In x present0 -> In x present) /\
    (forall e, In e fset ->
       (forall rho, evalB (upd rho nm (evalT rho e)) restCond = false) \/ In e present) /\
    (se = false -> se0 = false /\
       forall e, In e present -> In e present0 \/
         forall rho, evalB (upd rho nm (evalT rho e)) restCond = true).
  Proof.
    intros nm restCond. induction fset as [|e r IH]; intros present0 se0 present se Hrc Hf Hp; cbn [dom_elems].
    - intros H. injection H as <- <-. repeat split; auto. intros e [].
    - cbn [forallb] in Hf. rewrite andb_true_iff in Hf. destruct Hf as [He Hr].
      destruct (SUBS (ESym nm) e restCond) as [c| | |] eqn:Sc; cbn [bind]; try discriminate.
      destruct (HSUBS nm e restCond c He Sc) as [_ [_ Hc]]. destruct (Hc Hrc) as [Fc Ec]. clear Hc.
      assert (Hp' : forallb term_ok (set_insert e present0) = true).
      { rewrite forallb_set_insert; auto using term_frag, forallb_terms_frag. rewrite He, Hp. reflexivity. }
      assert (Ins : forall se1,
        (se1 = se0 /\ forall rho, evalB (upd rho nm (evalT rho e)) restCond = true) \/ se1 = true ->
        dom_elems SUBS (ESym nm) restCond r (set_insert e present0) se1 = Ok (present, se) ->
        forallb term_ok present = true /\
        (forall x, In x present -> In x present0 \/ In x (e :: r)) /\
        (forall x, In x present0 -> In x present) /\
        (forall e0, In e0 (e :: r) ->
           (forall rho, evalB (upd rho nm (evalT rho e0)) restCond = false) \/ In e0 present) /\
        (se = false -> se0 = false /\
           forall e0, In e0 present -> In e0 present0 \/
             forall rho, evalB (upd rho nm (evalT rho e0)) restCond = true)).
      { intros se1 Hse1 H. destruct (IH _ _ _ _ Hrc Hr Hp' H) as [I1 [I2 [I3 [I4 I5]]]].
        split; auto. split.
        { intros x Hx. destruct (I2 x Hx) as [Hx'|Hx']; [|right; right; auto].
          apply In_set_insert_inv in Hx'. destruct Hx' as [->|Hx']; [right; left; auto|left; auto]. }
        split.
        { intros x Hx. apply I3. apply In_set_insert_old. auto. }
        split.
        { intros e0 [<-|He0]; [right|apply I4; auto].
          apply I3. apply In_set_insert_new; auto using term_frag, forallb_terms_frag. }
        intros Hse. destruct (I5 Hse) as [Hs1 I6].
        destruct Hse1 as [[-> Ht]|Ht]; [|congruence].
        split; auto. intros e0 He0. destruct (I6 e0 He0) as [Hi|Hi]; auto.
        apply In_set_insert_inv in Hi. destruct Hi as [->|Hi]; auto. }
      destruct c; try (apply Ins; [right; reflexivity]).
      destruct b.
      + apply Ins. left. split; auto. intros rho. rewrite <- Ec. reflexivity.
      + intros H. destruct (IH _ _ _ _ Hrc Hr Hp H) as [I1 [I2 [I3 [I4 I5]]]].
        split; auto. split.
        { intros x Hx. destruct (I2 x Hx); auto. right; right; auto. }
        split; auto. split; auto.
        intros e0 [<-|He0]; [left|apply I4; auto]. intros rho. rewrite <- Ec. reflexivity.
  Qed.

  Lemma dom_loop_sound : forall args its e,
    forallb formula args = true -> (forall x, In x its -> In x args) ->
    dom_loop AND SUBS args its = Ok (Some e) ->
    formula e = true /\ forall rho, evalB rho e = forallb (evalB rho) args.
  Proof.
    intros args. induction its as [|it r IH]; intros e Hf Hsub; cbn [dom_loop]; [discriminate|].
    assert (Hr : forall x, In x r -> In x args) by (intros; apply Hsub; right; auto).
    assert (Hin : In it args) by (apply Hsub; left; auto).
    destruct it; try (apply IH; auto; fail).
    destruct it1; try (apply IH; auto; fail).
    destruct it2; try (apply IH; auto; fail).
    destruct ((code =? TC_Contains) && (code0 =? TC_FiniteSet)) eqn:Ec; [|apply IH; auto].
    rewrite andb_true_iff, !N.eqb_eq in Ec. destruct Ec as [-> ->].
    set (it := ELex TC_Contains (ESym name) (EFN TC_FiniteSet args0)) in *.
    pose proof (forallb_In _ _ _ _ Hf Hin) as Fit.
    assert (Hfs : forallb term_ok args0 = true).
    { unfold it in Fit. cbn [formula set_ok] in Fit. rewrite !andb_true_iff in Fit. tauto. }
    destruct (negb (existsb is_numconst args0)); [discriminate|].
    pose proof (forallb_formula_frag _ Hf) as Ffr.
    destruct (AND (set_erase it args)) as [restCond| | |] eqn:Ea; cbn [bind]; try discriminate.
    destruct (HAND _ _ (forallb_set_erase formula it args Hf) Ea) as [Frc Erc].
    destruct (dom_elems SUBS (ESym name) restCond args0 [] false) as [[present se]| | |] eqn:Ed;
      cbn [bind]; try discriminate.
    destruct (dom_elems_sound name restCond args0 [] false present se Frc Hfs eq_refl Ed) as [J1 [J2 [_ [J4 J5]]]].
    assert (S1 : forall rho, forallb (evalB rho) args = evalB rho it && evalB rho restCond).
    { intros rho. rewrite Erc. apply forallb_set_erase_member; auto using formula_frag. }
    assert (S2 : forall rho, evalB rho it = val_in rho (rho name) args0) by reflexivity.
    assert (S3 : forall rho, evalB rho restCond = true ->
                             val_in rho (rho name) args0 = val_in rho (rho name) present).
    { intros rho Hrc. apply eq_true_iff_eq. unfold val_in. rewrite !existsb_exists. split.
      - intros [x [Hx Hq]]. destruct (J4 x Hx) as [Hfl|Hp].
        + specialize (Hfl rho). rewrite (upd_hit _ _ _ _ Hq) in Hfl. congruence.
        + exists x. auto.
      - intros [x [Hx Hq]]. destruct (J2 x Hx) as [[]|Hx']. exists x. auto. }
    assert (S4 : se = false -> forall rho, val_in rho (rho name) present = true -> evalB rho restCond = true).
    { intros Hse rho Hv. destruct (J5 Hse) as [_ J6]. unfold val_in in Hv. rewrite existsb_exists in Hv.
      destruct Hv as [x [Hx Hq]]. destruct (J6 x Hx) as [[]|Ht]. rewrite <- (upd_hit _ _ _ _ Hq). apply Ht. }
    destruct (present_contains_sound present name J1) as [Fpc Epc].
    destruct se; cbn [negb].
    - destruct (negb (length present =? length args0)%nat); [|discriminate].
      destruct (AND (set_of_list [present_contains present (ESym name); restCond])) as [r2| | |] eqn:Ea2;
        cbn [bind]; try discriminate.
      intros H. injection H as <-.
      assert (F2 : forallb formula [present_contains present (ESym name); restCond] = true)
        by (cbn [forallb]; rewrite Fpc, Frc; reflexivity).
      assert (F2' : forallb formula (set_of_list [present_contains present (ESym name); restCond]) = true)
        by (rewrite forallb_set_of_list; auto using forallb_formula_frag).
      destruct (HAND _ _ F2' Ea2) as [Fr2 Er2]. split; auto. intros rho.
      rewrite Er2, forallb_set_of_list by auto using forallb_formula_frag. cbn [forallb].
      rewrite andb_true_r, Epc, S1, S2.
      destruct (evalB rho restCond) eqn:Hrc; [rewrite (S3 rho Hrc); reflexivity|rewrite !andb_false_r; reflexivity].
    - intros H. injection H as <-. split; auto. intros rho. rewrite Epc, S1, S2.
      destruct (evalB rho restCond) eqn:Hrc.
      + rewrite (S3 rho Hrc), andb_true_r. reflexivity.
      + rewrite andb_false_r. apply not_true_is_false. intros Hv. rewrite (S4 eq_refl rho Hv) in Hrc. discriminate.
  Qed.
End Dom.
