(* C28 -- the truth-value theorems: logical_xor, and_or (flattening, constants, complementary
   literals, the Contains(sym, FiniteSet) domain simplification), the subs visitor on boolean
   trees, nand / nor / xnor, piecewise.  All statements are for ALL formulas of the fragment, ALL
   assignments, every argument order (no sortedness of the argument containers is assumed) and
   every fuel value. *)
From SE Require Export C28.LogicAtoms.
From Coq Require Import Lia ZifyBool.
Local Open Scope N_scope.

(* ================================================================== logical_xor *)
Definition st_val (rho : env) (st : list expr * N) : bool :=
  xorb (N.odd (snd st)) (xor_all (map (evalB rho) (fst st))).
Definition st_ok (st : list expr * N) : Prop := forallb formula (fst st) = true.

Lemma N_odd_add1 : forall n, N.odd (n + 1) = negb (N.odd n).
Proof. intros. rewrite N.add_1_r, N.odd_succ, <- N.negb_odd. reflexivity. Qed.

Lemma xor_step_sound : forall st a, st_ok st -> formula a = true ->
  st_ok (xor_step st a) /\
  forall rho, st_val rho (xor_step st a) = xorb (st_val rho st) (evalB rho a).
Proof.
  intros [args nots] a Hs Ha. unfold st_ok in *. cbn [fst] in Hs. unfold xor_step.
  pose proof (forallb_formula_frag _ Hs) as Hf. pose proof (formula_frag _ Ha) as Fa.
  destruct (lnot_sound a Ha) as [Hn En]. pose proof (formula_frag _ Hn) as Fn.
  destruct (set_mem a args) eqn:M1.
  - split; [cbn [fst]; apply forallb_set_erase; auto|].
    intros rho. unfold st_val. cbn [fst snd]. rewrite xor_set_erase by auto.
    destruct (N.odd nots), (evalB rho a), (xor_all (map (evalB rho) args)); reflexivity.
  - destruct (set_mem (lnot a) args) eqn:M2.
    + split; [cbn [fst]; apply forallb_set_erase; auto|].
      intros rho. unfold st_val. cbn [fst snd]. rewrite xor_set_erase by auto.
      rewrite N_odd_add1, En.
      destruct (N.odd nots), (evalB rho a), (xor_all (map (evalB rho) args)); reflexivity.
    + split; [cbn [fst]; rewrite forallb_set_insert by auto; rewrite Ha, Hs; reflexivity|].
      intros rho. unfold st_val. cbn [fst snd]. rewrite xor_set_insert_new by auto.
      destruct (N.odd nots), (evalB rho a), (xor_all (map (evalB rho) args)); reflexivity.
Qed.

Lemma xor_steps_sound : forall l st, st_ok st -> forallb formula l = true ->
  st_ok (fold_left xor_step l st) /\
  forall rho, st_val rho (fold_left xor_step l st) =
              xorb (st_val rho st) (xor_all (map (evalB rho) l)).
Proof.
  induction l as [|a l IH]; intros st Hs Hl; cbn [fold_left map].
  - split; auto. intros. unfold xor_all. cbn. rewrite xorb_false_r. reflexivity.
  - cbn [forallb] in Hl. rewrite andb_true_iff in Hl. destruct Hl as [Ha Hl].
    destruct (xor_step_sound st a Hs Ha) as [S1 E1]. destruct (IH _ S1 Hl) as [S2 E2].
    split; auto. intros rho. rewrite E2, E1. unfold xor_all. cbn [fold_right].
    destruct (st_val rho st), (evalB rho a), (fold_right xorb false (map (evalB rho) l)); reflexivity.
Qed.

Lemma evalB_Xor : forall rho l, evalB rho (EFN TC_Xor l) = xor_all (map (evalB rho) l).
Proof. reflexivity. Qed.
Lemma evalB_And : forall rho l, evalB rho (EFN TC_And l) = forallb (evalB rho) l.
Proof. reflexivity. Qed.
Lemma evalB_Or : forall rho l, evalB rho (EFN TC_Or l) = existsb (evalB rho) l.
Proof. reflexivity. Qed.

Lemma xor_arg_sound : forall st a, st_ok st -> formula a = true ->
  st_ok (xor_arg st a) /\
  forall rho, st_val rho (xor_arg st a) = xorb (st_val rho st) (evalB rho a).
Proof.
  intros st a Hs Ha. destruct a; try discriminate Ha; try (apply xor_step_sound; auto).
  - (* EFN *)
    cbn [xor_arg]. destruct (code =? TC_Xor) eqn:E.
    + apply N.eqb_eq in E. subst code. apply xor_steps_sound; [exact Hs|exact (formula_children _ _ Ha)].
    + apply xor_step_sound; auto.
  - (* EBool *)
    cbn [xor_arg]. split; [exact Hs|]. intros rho. unfold st_val. cbn [fst snd evalB].
    destruct b.
    + rewrite N_odd_add1. destruct (N.odd (snd st)), (xor_all (map (evalB rho) (fst st))); reflexivity.
    + rewrite xorb_false_r. reflexivity.
Qed.

Lemma xor_args_sound : forall s st, st_ok st -> forallb formula s = true ->
  st_ok (fold_left xor_arg s st) /\
  forall rho, st_val rho (fold_left xor_arg s st) =
              xorb (st_val rho st) (xor_all (map (evalB rho) s)).
Proof.
  induction s as [|a l IH]; intros st Hs Hl; cbn [fold_left map].
  - split; auto. intros. unfold xor_all. cbn. rewrite xorb_false_r. reflexivity.
  - cbn [forallb] in Hl. rewrite andb_true_iff in Hl. destruct Hl as [Ha Hl].
    destruct (xor_arg_sound st a Hs Ha) as [S1 E1]. destruct (IH _ S1 Hl) as [S2 E2].
    split; auto. intros rho. rewrite E2, E1. unfold xor_all. cbn [fold_right].
    destruct (st_val rho st), (evalB rho a), (fold_right xorb false (map (evalB rho) l)); reflexivity.
Qed.

Lemma formula_Xor : forall l, forallb formula l = true -> formula (EFN TC_Xor l) = true.
Proof. intros. cbn [formula]. rewrite H. reflexivity. Qed.
Lemma formula_And : forall l, forallb formula l = true -> formula (EFN TC_And l) = true.
Proof. intros. cbn [formula]. rewrite H. reflexivity. Qed.
Lemma formula_Or : forall l, forallb formula l = true -> formula (EFN TC_Or l) = true.
Proof. intros. cbn [formula]. rewrite H. reflexivity. Qed.
Lemma formula_Not : forall a, formula a = true -> formula (EF1 TC_Not a) = true.
Proof. intros. cbn [formula]. rewrite H. reflexivity. Qed.

Lemma xor_finish_sound : forall st, st_ok st ->
  formula (xor_finish st) = true /\ forall rho, evalB rho (xor_finish st) = st_val rho st.
Proof.
  intros [args nots] Hs. unfold st_ok in Hs. cbn [fst] in Hs. unfold xor_finish, st_val. cbn [fst snd].
  rewrite <- N.negb_odd. destruct (N.odd nots); cbn [negb].
  - destruct args as [|a [|b r]].
    + split; reflexivity.
    + cbn [forallb] in Hs. rewrite andb_true_r in Hs. destruct (lnot_sound a Hs) as [F E].
      split; auto. intros rho. rewrite E. unfold xor_all. cbn [map fold_right].
      destruct (evalB rho a); reflexivity.
    + split; [apply formula_Not, formula_Xor; auto|]. intros rho. cbn [evalB].
      change (evalB rho (EFN TC_Xor (a :: b :: r))) with (xor_all (map (evalB rho) (a :: b :: r))).
      destruct (xor_all (map (evalB rho) (a :: b :: r))); reflexivity.
  - destruct args as [|a [|b r]].
    + split; reflexivity.
    + cbn [forallb] in Hs. rewrite andb_true_r in Hs. split; auto. intros rho.
      unfold xor_all. cbn [map fold_right]. destruct (evalB rho a); reflexivity.
    + split; [apply formula_Xor; auto|]. intros rho.
      change (evalB rho (EFN TC_Xor (a :: b :: r))) with (xor_all (map (evalB rho) (a :: b :: r))).
      destruct (xor_all (map (evalB rho) (a :: b :: r))); reflexivity.
Qed.

Theorem logical_xor_sound : forall s, forallb formula s = true ->
  formula (logical_xor s) = true /\
  forall rho, evalB rho (logical_xor s) = xor_all (map (evalB rho) s).
Proof.
  intros s Hs. unfold logical_xor.
  assert (H0 : st_ok ([], 0)) by reflexivity.
  destruct (xor_args_sound s _ H0 Hs) as [S E]. destruct (xor_finish_sound _ S) as [F V].
  split; auto. intros rho. rewrite V, E. unfold st_val. cbn [fst snd map].
  destruct (xor_all (map (evalB rho) s)); reflexivity.
Qed.

Theorem logical_xnor_sound : forall s, forallb formula s = true ->
  formula (logical_xnor s) = true /\
  forall rho, evalB rho (logical_xnor s) = negb (xor_all (map (evalB rho) s)).
Proof.
  intros s Hs. unfold logical_xnor. destruct (logical_xor_sound s Hs) as [F E].
  destruct (lnot_sound _ F) as [F' E']. split; auto. intros rho. rewrite E', E. reflexivity.
Qed.

(* ================================================================== environments *)
Definition upd (rho : env) (nm : list N) (q : Q) : env :=
  fun s => if bytes_eqb s nm then q else rho s.

Definition env_eq (r1 r2 : env) : Prop := forall s, r1 s == r2 s.

Lemma evalT_ext : forall r1 r2 e, env_eq r1 r2 -> evalT r1 e == evalT r2 e.
Proof. intros r1 r2 e H. destruct e; cbn [evalT]; try reflexivity. apply H. Qed.

Lemma existsb_ext : forall (A : Type) (p q : A -> bool) l, (forall x, p x = q x) -> existsb p l = existsb q l.
Proof. intros. apply existsb_ext_in. auto. Qed.

Lemma evalS_ext : forall r1 r2 s v1 v2, env_eq r1 r2 -> v1 == v2 -> evalS r1 s v1 = evalS r2 s v2.
Proof.
  intros r1 r2 s v1 v2 H Hv. destruct s; cbn [evalS]; try reflexivity.
  - apply existsb_ext. intros x. apply Qeqb_comp; auto using evalT_ext.
  - unfold Qltb.
    rewrite (Qleb_comp _ _ Hv _ _ (evalT_ext r1 r2 s1 H)), (Qleb_comp _ _ (evalT_ext r1 r2 s1 H) _ _ Hv),
            (Qleb_comp _ _ Hv _ _ (evalT_ext r1 r2 s2 H)), (Qleb_comp _ _ (evalT_ext r1 r2 s2 H) _ _ Hv).
    reflexivity.
Qed.

Lemma evalB_ext : forall r1 r2 e, env_eq r1 r2 -> evalB r1 e = evalB r2 e.
Proof.
  intros r1 r2 e H. induction e using expr_size_ind. destruct e; cbn [evalB]; try reflexivity.
  - f_equal. apply H0. cbn [size]. lia.
  - unfold eval_rel, Qltb.
    rewrite (Qeqb_comp _ _ (evalT_ext r1 r2 e1 H) _ _ (evalT_ext r1 r2 e2 H)),
            (Qleb_comp _ _ (evalT_ext r1 r2 e1 H) _ _ (evalT_ext r1 r2 e2 H)),
            (Qleb_comp _ _ (evalT_ext r1 r2 e2 H) _ _ (evalT_ext r1 r2 e1 H)).
    reflexivity.
  - assert (E : forall x, In x args -> evalB r1 x = evalB r2 x).
    { intros x Hx. apply H0. apply in_list_size in Hx. cbn [size]. lia. }
    destruct (code =? TC_And); [apply forallb_ext_in; auto|].
    destruct (code =? TC_Or); [apply existsb_ext_in; auto|].
    f_equal. apply map_ext_in. auto.
  - apply evalS_ext; auto using evalT_ext.
Qed.

Lemma upd_same : forall rho nm q, upd rho nm q nm = q.
Proof. intros. unfold upd. rewrite bytes_eqb_refl. reflexivity. Qed.

Lemma upd_other : forall rho nm q s, s <> nm -> upd rho nm q s = rho s.
Proof.
  intros. unfold upd. destruct (bytes_eqb s nm) eqn:E; auto. apply bytes_eqb_true in E. contradiction.
Qed.

(* overwriting a symbol with (something equal to) its own value changes nothing *)
Lemma upd_self : forall rho nm q, q == rho nm -> env_eq (upd rho nm q) rho.
Proof.
  intros rho nm q H s. unfold upd. destruct (bytes_eqb s nm) eqn:E; [|reflexivity].
  apply bytes_eqb_true in E. subst. assumption.
Qed.

(* ================================================================== and_or *)
Definition agg (is_or : bool) (rho : env) (l : list expr) : bool :=
  if is_or then existsb (evalB rho) l else forallb (evalB rho) l.
Definition comb (is_or : bool) (x y : bool) : bool := if is_or then x || y else x && y.

Lemma agg_set_insert : forall is_or rho k s, frag k = true -> forallb frag s = true ->
  agg is_or rho (set_insert k s) = comb is_or (evalB rho k) (agg is_or rho s).
Proof.
  intros [] rho k s Hk Hs; unfold agg, comb.
  - apply existsb_set_insert; auto.
  - apply forallb_set_insert; auto.
Qed.

Lemma agg_set_insert_all : forall is_or rho l s, forallb frag l = true -> forallb frag s = true ->
  agg is_or rho (set_insert_all l s) = comb is_or (agg is_or rho l) (agg is_or rho s).
Proof.
  intros [] rho l s Hl Hs; unfold agg, comb.
  - apply existsb_set_insert_all; auto.
  - apply forallb_set_insert_all; auto.
Qed.

Lemma agg_cons : forall is_or rho a l, agg is_or rho (a :: l) = comb is_or (evalB rho a) (agg is_or rho l).
Proof. intros []; reflexivity. Qed.

Lemma ao_collect_sound : forall is_or s args0,
  forallb formula s = true -> forallb formula args0 = true ->
  match ao_collect is_or s args0 with
  | None => forall rho, agg is_or rho s = is_or
  | Some args => forallb formula args = true /\
                 forall rho, agg is_or rho args = comb is_or (agg is_or rho s) (agg is_or rho args0)
  end.
Proof.
  intros is_or. induction s as [|a r IH]; intros args0 Hs H0; cbn [ao_collect].
  - split; auto. intros rho. destruct is_or; cbn; [reflexivity|]. reflexivity.
  - cbn [forallb] in Hs. rewrite andb_true_iff in Hs. destruct Hs as [Ha Hr].
    pose proof (forallb_formula_frag _ H0) as F0. pose proof (formula_frag _ Ha) as Fa.
    assert (Generic :
      match ao_collect is_or r (set_insert a args0) with
      | None => forall rho, agg is_or rho (a :: r) = is_or
      | Some args => forallb formula args = true /\
                     forall rho, agg is_or rho args =
                                 comb is_or (agg is_or rho (a :: r)) (agg is_or rho args0)
      end).
    { assert (H1 : forallb formula (set_insert a args0) = true)
        by (rewrite forallb_set_insert by auto; rewrite Ha, H0; reflexivity).
      specialize (IH (set_insert a args0) Hr H1).
      destruct (ao_collect is_or r (set_insert a args0)).
      - destruct IH as [I1 I2]. split; auto. intros rho. rewrite I2, agg_set_insert, agg_cons by auto.
        destruct is_or; cbn [comb];
          destruct (agg _ rho r), (evalB rho a), (agg _ rho args0); reflexivity.
      - intros rho. rewrite agg_cons, IH. destruct is_or; cbn [comb];
          destruct (evalB rho a); reflexivity. }
    destruct a; try discriminate Ha; try exact Generic.
    + (* EFN *)
      destruct (code =? (if is_or then TC_Or else TC_And)) eqn:E; [|exact Generic].
      apply N.eqb_eq in E. pose proof (formula_children _ _ Ha) as Hc.
      pose proof (forallb_formula_frag _ Hc) as Fc.
      assert (H1 : forallb formula (set_insert_all args args0) = true)
        by (rewrite forallb_set_insert_all by auto; rewrite Hc, H0; reflexivity).
      specialize (IH (set_insert_all args args0) Hr H1).
      assert (Ev : forall rho, evalB rho (EFN code args) = agg is_or rho args)
        by (intros rho; subst code; destruct is_or; reflexivity).
      destruct (ao_collect is_or r (set_insert_all args args0)).
      * destruct IH as [I1 I2]. split; auto. intros rho.
        rewrite I2, agg_set_insert_all, agg_cons, Ev by auto.
        destruct is_or; cbn [comb];
          destruct (agg _ rho r), (agg _ rho args), (agg _ rho args0); reflexivity.
      * intros rho. rewrite agg_cons, IH. destruct is_or; cbn [comb];
          destruct (evalB rho (EFN code args)); reflexivity.
    + (* EBool *)
      destruct (Bool.eqb b is_or) eqn:E.
      * apply Bool.eqb_prop in E. subst b. intros rho. rewrite agg_cons. cbn [evalB].
        destruct is_or; reflexivity.
      * specialize (IH args0 Hr H0). destruct (ao_collect is_or r args0).
        -- destruct IH as [I1 I2]. split; auto. intros rho. rewrite I2, agg_cons. cbn [evalB].
           destruct is_or, b; try discriminate E; cbn [comb]; reflexivity.
        -- intros rho. rewrite agg_cons, IH. cbn [evalB].
           destruct is_or, b; try discriminate E; reflexivity.
Qed.

Lemma has_compl_sound : forall is_or args, forallb formula args = true -> has_compl args = true ->
  forall rho, agg is_or rho args = is_or.
Proof.
  intros is_or args Hf H rho. unfold has_compl in H. apply existsb_exists in H.
  destruct H as [a [Ha Hm]]. pose proof (forallb_In _ _ _ _ Hf Ha) as Fa.
  destruct (lnot_sound a Fa) as [Fn En].
  apply set_mem_In in Hm; auto using formula_frag, forallb_formula_frag.
  unfold agg. destruct is_or.
  - apply existsb_exists. destruct (evalB rho a) eqn:E.
    + exists a. auto.
    + exists (lnot a). split; auto. rewrite En, E. reflexivity.
  - apply not_true_is_false. intros H. rewrite forallb_forall in H.
    pose proof (H a Ha) as H1. pose proof (H _ Hm) as H2. rewrite En, H1 in H2. discriminate.
Qed.

Lemma ao_finish_sound : forall is_or args, forallb formula args = true ->
  formula (ao_finish is_or args) = true /\
  forall rho, evalB rho (ao_finish is_or args) = agg is_or rho args.
Proof.
  intros is_or args H. unfold ao_finish. destruct args as [|a [|b r]].
  - split; [reflexivity|]. intros rho. destruct is_or; reflexivity.
  - cbn [forallb] in H. rewrite andb_true_r in H. split; auto. intros rho.
    destruct is_or; cbn; [rewrite orb_false_r|rewrite andb_true_r]; reflexivity.
  - destruct is_or.
    + split; [apply formula_Or; auto|]. intros; reflexivity.
    + split; [apply formula_And; auto|]. intros; reflexivity.
Qed.

(* ---------- specifications of the recursive entry points ---------- *)
Definition AND_spec (AND : list expr -> res expr) : Prop :=
  forall s r, forallb formula s = true -> AND s = Ok r ->
    formula r = true /\ forall rho, evalB rho r = forallb (evalB rho) s.

Definition OR_spec (OR : list expr -> res expr) : Prop :=
  forall s r, forallb formula s = true -> OR s = Ok r ->
    formula r = true /\ forall rho, evalB rho r = existsb (evalB rho) s.

(* e[sym := v] = r : the three syntactic classes *)
Definition P3 (nm : list N) (v e r : expr) : Prop :=
  (term_ok e = true -> term_ok r = true /\
     forall rho, evalT rho r = evalT (upd rho nm (evalT rho v)) e) /\
  (set_ok e = true -> set_ok r = true /\
     forall rho q, evalS rho r q = evalS (upd rho nm (evalT rho v)) e q) /\
  (formula e = true -> formula r = true /\
     forall rho, evalB rho r = evalB (upd rho nm (evalT rho v)) e).

Definition SUBS_spec (SUBS : expr -> expr -> expr -> res expr) : Prop :=
  forall nm v e r, term_ok v = true -> SUBS (ESym nm) v e = Ok r -> P3 nm v e r.

(* ---------- the domain simplification ---------- *)
Lemma In_set_insert_inv : forall x k s, In x (set_insert k s) -> x = k \/ In x s.
Proof.
  induction s as [|k' r IH]; cbn [set_insert].
  - cbn [In]. intros [H|[]]. left. congruence.
  - destruct (expr_keyless k' k).
    + cbn [In]. intros [H|H]; auto. apply IH in H. tauto.
    + destruct (expr_keyless k k'); cbn [In]; intros H; intuition congruence.
Qed.

Lemma In_set_insert_old : forall x k s, In x s -> In x (set_insert k s).
Proof.
  induction s as [|k' r IH]; cbn [set_insert]; [cbn [In]; tauto|].
  destruct (expr_keyless k' k).
  - cbn [In]. intros [H|H]; auto.
  - destruct (expr_keyless k k'); cbn [In]; tauto.
Qed.

Lemma In_set_insert_new : forall k s, frag k = true -> forallb frag s = true -> In k (set_insert k s).
Proof.
  induction s as [|k' r IH]; cbn [set_insert forallb]; [cbn; auto|].
  intros Hk Hs. rewrite andb_true_iff in Hs. destruct Hs as [Hk' Hr].
  destruct (expr_keyless k' k) eqn:E1.
  - right. auto.
  - destruct (expr_keyless k k') eqn:E2; [left; reflexivity|].
    left. symmetry. apply keyless_equiv_eq; auto.
Qed.

Lemma forallb_terms_frag : forall l, forallb term_ok l = true -> forallb frag l = true.
Proof. intros l H. eapply forallb_impl; [|exact H]. intros; apply term_frag; auto. Qed.

Lemma present_contains_sound : forall present nm, forallb term_ok present = true ->
  formula (present_contains present (ESym nm)) = true /\
  forall rho, evalB rho (present_contains present (ESym nm)) = val_in rho (rho nm) present.
Proof.
  intros present nm H. destruct present as [|x l].
  - split; reflexivity.
  - unfold present_contains. destruct (fset_contains_sound (x :: l) (ESym nm) H eq_refl) as [F E].
    split; auto.
Qed.

(* substituting a value the symbol already has changes nothing *)
Lemma upd_hit : forall rho nm e f, Qeq_bool (evalT rho e) (rho nm) = true ->
  evalB (upd rho nm (evalT rho e)) f = evalB rho f.
Proof. intros. apply evalB_ext. apply upd_self. apply Qeq_bool_eq. assumption. Qed.

Section Dom.
  Variable AND : list expr -> res expr.
  Variable SUBS : expr -> expr -> expr -> res expr.
  Hypothesis HAND : AND_spec AND.
  Hypothesis HSUBS : SUBS_spec SUBS.

  Lemma dom_elems_sound : forall nm restCond fset present0 se0 present se,
    formula restCond = true -> forallb term_ok fset = true -> forallb term_ok present0 = true ->
    dom_elems SUBS (ESym nm) restCond fset present0 se0 = Ok (present, se) ->
    forallb term_ok present = true /\
    (forall x, In x present -> In x present0 \/ In x fset) /\
    (forall x, In x present0 -> In x present) /\
    (forall e, In e fset ->
       (forall rho, evalB (upd rho nm (evalT rho e)) restCond = false) \/ In e present) /\
    (se = false -> se0 = false /\
       forall e, In e present -> In e present0 \/
         forall rho, evalB (upd rho nm (evalT rho e)) restCond = true).
  Proof.
    intros nm restCond. induction fset as [|e r IH]; intros present0 se0 present se Hrc Hf Hp; cbn [dom_elems].
    - intros H. injection H as <- <-. repeat split; auto. intros e [].
    - cbn [forallb] in Hf. rewrite andb_true_iff in Hf. destruct Hf as [He Hr].
      destruct (SUBS (ESym nm) e restCond) as [c| | |] eqn:Sc; cbn [bind]; try discriminate.
      destruct (HSUBS nm e restCond c He Sc) as [_ [_ Hc]]. destruct (Hc Hrc) as [Fc Ec]. clear Hc.
      assert (Hp' : forallb term_ok (set_insert e present0) = true).
      { rewrite forallb_set_insert; auto using term_frag, forallb_terms_frag. rewrite He, Hp. reflexivity. }
      assert (Ins : forall se1,
        (se1 = se0 /\ forall rho, evalB (upd rho nm (evalT rho e)) restCond = true) \/ se1 = true ->
        dom_elems SUBS (ESym nm) restCond r (set_insert e present0) se1 = Ok (present, se) ->
        forallb term_ok present = true /\
        (forall x, In x present -> In x present0 \/ In x (e :: r)) /\
        (forall x, In x present0 -> In x present) /\
        (forall e0, In e0 (e :: r) ->
           (forall rho, evalB (upd rho nm (evalT rho e0)) restCond = false) \/ In e0 present) /\
        (se = false -> se0 = false /\
           forall e0, In e0 present -> In e0 present0 \/
             forall rho, evalB (upd rho nm (evalT rho e0)) restCond = true)).
      { intros se1 Hse1 H. destruct (IH _ _ _ _ Hrc Hr Hp' H) as [I1 [I2 [I3 [I4 I5]]]].
        split; auto. split.
        { intros x Hx. destruct (I2 x Hx) as [Hx'|Hx']; [|right; right; auto].
          apply In_set_insert_inv in Hx'. destruct Hx' as [->|Hx']; [right; left; auto|left; auto]. }
        split.
        { intros x Hx. apply I3. apply In_set_insert_old. auto. }
        split.
        { intros e0 [<-|He0]; [right|apply I4; auto].
          apply I3. apply In_set_insert_new; auto using term_frag, forallb_terms_frag. }
        intros Hse. destruct (I5 Hse) as [Hs1 I6].
        destruct Hse1 as [[-> Ht]|Ht]; [|congruence].
        split; auto. intros e0 He0. destruct (I6 e0 He0) as [Hi|Hi]; auto.
        apply In_set_insert_inv in Hi. destruct Hi as [->|Hi]; auto. }
      destruct c; try (apply Ins; [right; reflexivity]).
      destruct b.
      + apply Ins. left. split; auto. intros rho. rewrite <- Ec. reflexivity.
      + intros H. destruct (IH _ _ _ _ Hrc Hr Hp H) as [I1 [I2 [I3 [I4 I5]]]].
        split; auto. split.
        { intros x Hx. destruct (I2 x Hx); auto. right; right; auto. }
        split; auto. split; auto.
        intros e0 [<-|He0]; [left|apply I4; auto]. intros rho. rewrite <- Ec. reflexivity.
  Qed.

  Lemma dom_loop_sound : forall args its e,
    forallb formula args = true -> (forall x, In x its -> In x args) ->
    dom_loop AND SUBS args its = Ok (Some e) ->
    formula e = true /\ forall rho, evalB rho e = forallb (evalB rho) args.
  Proof.
    intros args. induction its as [|it r IH]; intros e Hf Hsub; cbn [dom_loop]; [discriminate|].
    assert (Hr : forall x, In x r -> In x args) by (intros; apply Hsub; right; auto).
    assert (Hin : In it args) by (apply Hsub; left; auto).
    destruct it; try (apply IH; auto; fail).
    destruct it1; try (apply IH; auto; fail).
    destruct it2; try (apply IH; auto; fail).
    destruct ((code =? TC_Contains) && (code0 =? TC_FiniteSet)) eqn:Ec; [|apply IH; auto].
    rewrite andb_true_iff, !N.eqb_eq in Ec. destruct Ec as [-> ->].
    set (it := ELex TC_Contains (ESym name) (EFN TC_FiniteSet args0)) in *.
    pose proof (forallb_In _ _ _ _ Hf Hin) as Fit.
    assert (Hfs : forallb term_ok args0 = true).
    { unfold it in Fit. cbn [formula set_ok] in Fit. rewrite !andb_true_iff in Fit. tauto. }
    destruct (negb (existsb is_numconst args0)); [discriminate|].
    pose proof (forallb_formula_frag _ Hf) as Ffr.
    destruct (AND (set_erase it args)) as [restCond| | |] eqn:Ea; cbn [bind]; try discriminate.
    destruct (HAND _ _ (forallb_set_erase formula it args Hf) Ea) as [Frc Erc].
    destruct (dom_elems SUBS (ESym name) restCond args0 [] false) as [[present se]| | |] eqn:Ed;
      cbn [bind]; try discriminate.
    destruct (dom_elems_sound name restCond args0 [] false present se Frc Hfs eq_refl Ed) as [J1 [J2 [_ [J4 J5]]]].
    assert (S1 : forall rho, forallb (evalB rho) args = evalB rho it && evalB rho restCond).
    { intros rho. rewrite Erc. apply forallb_set_erase_member; auto using formula_frag. }
    assert (S2 : forall rho, evalB rho it = val_in rho (rho name) args0) by reflexivity.
    assert (S3 : forall rho, evalB rho restCond = true ->
                             val_in rho (rho name) args0 = val_in rho (rho name) present).
    { intros rho Hrc. apply eq_true_iff_eq. unfold val_in. rewrite !existsb_exists. split.
      - intros [x [Hx Hq]]. destruct (J4 x Hx) as [Hfl|Hp].
        + specialize (Hfl rho). rewrite (upd_hit _ _ _ _ Hq) in Hfl. congruence.
        + exists x. auto.
      - intros [x [Hx Hq]]. destruct (J2 x Hx) as [[]|Hx']. exists x. auto. }
    assert (S4 : se = false -> forall rho, val_in rho (rho name) present = true -> evalB rho restCond = true).
    { intros Hse rho Hv. destruct (J5 Hse) as [_ J6]. unfold val_in in Hv. rewrite existsb_exists in Hv.
      destruct Hv as [x [Hx Hq]]. destruct (J6 x Hx) as [[]|Ht]. rewrite <- (upd_hit _ _ _ _ Hq). apply Ht. }
    destruct (present_contains_sound present name J1) as [Fpc Epc].
    destruct se; cbn [negb].
    - destruct (negb (length present =? length args0)%nat); [|discriminate].
      destruct (AND (set_of_list [present_contains present (ESym name); restCond])) as [r2| | |] eqn:Ea2;
        cbn [bind]; try discriminate.
      intros H. injection H as <-.
      assert (F2 : forallb formula [present_contains present (ESym name); restCond] = true)
        by (cbn [forallb]; rewrite Fpc, Frc; reflexivity).
      assert (F2' : forallb formula (set_of_list [present_contains present (ESym name); restCond]) = true)
        by (rewrite forallb_set_of_list; auto using forallb_formula_frag).
      destruct (HAND _ _ F2' Ea2) as [Fr2 Er2]. split; auto. intros rho.
      rewrite Er2, forallb_set_of_list by auto using forallb_formula_frag. cbn [forallb].
      rewrite andb_true_r, Epc, S1, S2.
      destruct (evalB rho restCond) eqn:Hrc; [rewrite (S3 rho Hrc); reflexivity|rewrite !andb_false_r; reflexivity].
    - intros H. injection H as <-. split; auto. intros rho. rewrite Epc, S1, S2.
      destruct (evalB rho restCond) eqn:Hrc.
      + rewrite (S3 rho Hrc), andb_true_r. reflexivity.
      + rewrite andb_false_r. apply not_true_is_false. intros Hv. rewrite (S4 eq_refl rho Hv) in Hrc. discriminate.
  Qed.
End Dom.

(* ================================================================== the subs visitor *)
Lemma mapM_rel : forall (V : Type) (f : expr -> res expr) (ok : expr -> bool)
    (ev : env -> expr -> V) (U : env -> env) l l',
  (forall x y, In x l -> f x = Ok y -> ok y = true /\ forall rho, ev rho y = ev (U rho) x) ->
  mapM f l = Ok l' ->
  forallb ok l' = true /\ forall rho, map (ev rho) l' = map (ev (U rho)) l.
Proof.
  intros V f ok ev U. induction l as [|x l IH]; intros l' H; cbn [mapM].
  - intros E. injection E as <-. split; reflexivity.
  - destruct (f x) as [y| | |] eqn:Fx; cbn [bind]; try discriminate.
    destruct (mapM f l) as [ys| | |] eqn:Fl; cbn [bind]; try discriminate.
    intros E. injection E as <-.
    destruct (H x y (or_introl eq_refl) Fx) as [O1 E1].
    destruct (IH ys (fun a b Ha => H a b (or_intror Ha)) eq_refl) as [O2 E2].
    split; [cbn [forallb]; rewrite O1, O2; reflexivity|].
    intros rho. cbn [map]. rewrite E1, E2. reflexivity.
Qed.

Lemma forallb_of_map : forall (A : Type) (p : A -> bool) l, forallb p l = forallb (fun b => b) (map p l).
Proof. induction l; cbn; auto. rewrite IHl. reflexivity. Qed.
Lemma existsb_of_map : forall (A : Type) (p : A -> bool) l, existsb p l = existsb (fun b => b) (map p l).
Proof. induction l; cbn; auto. rewrite IHl. reflexivity. Qed.

Lemma formula_is_boolean : forall e, formula e = true -> is_boolean e = true.
Proof.
  destruct e; try discriminate; cbn [formula]; rewrite ?andb_true_iff; intros H.
  - destruct H as [H _]. apply N.eqb_eq in H. subst. reflexivity.
  - destruct H as [[H _] _]. apply mem_rel_codes in H. destruct H as [->|[->|[->| ->]]]; reflexivity.
  - destruct H as [H _]. rewrite !orb_true_iff, !N.eqb_eq in H. destruct H as [[->| ->]| ->]; reflexivity.
  - destruct H as [[H _] _]. apply N.eqb_eq in H. subst. reflexivity.
  - reflexivity.
Qed.

Lemma set_ok_is_set : forall e, set_ok e = true -> is_set e = true.
Proof.
  destruct e; try discriminate; cbn [set_ok]; rewrite ?andb_true_iff; intros H.
  - destruct H as [H _]. apply N.eqb_eq in H. subst. reflexivity.
  - reflexivity.
  - rewrite orb_true_iff, !N.eqb_eq in H. destruct H as [->| ->]; reflexivity.
Qed.

Section Node.
  Variables AND OR : list expr -> res expr.
  Hypothesis HAND : AND_spec AND.
  Hypothesis HOR : OR_spec OR.
  Variable nm : list N.
  Variable v : expr.
  Hypothesis Hv : term_ok v = true.
  Variable REC : expr -> res expr.
  Hypothesis HREC : forall e r, REC e = Ok r -> P3 nm v e r.

  Let U (rho : env) : env := upd rho nm (evalT rho v).

  Lemma rec_formulas : forall l l', forallb formula l = true -> mapM REC l = Ok l' ->
    forallb formula l' = true /\ forall rho, map (evalB rho) l' = map (evalB (U rho)) l.
  Proof.
    intros l l' Hl. apply mapM_rel. intros x y Hx Hy.
    destruct (HREC x y Hy) as [_ [_ H]]. apply H. eapply forallb_In; eauto.
  Qed.

  Lemma rec_terms : forall l l', forallb term_ok l = true -> mapM REC l = Ok l' ->
    forallb term_ok l' = true /\ forall rho, map (evalT rho) l' = map (evalT (U rho)) l.
  Proof.
    intros l l' Hl. apply mapM_rel. intros x y Hx Hy.
    destruct (HREC x y Hy) as [H _]. apply H. eapply forallb_In; eauto.
  Qed.

  Lemma subs_node_sound : forall e r, e <> ESym nm ->
    subs_node AND OR REC e = Ok r -> P3 nm v e r.
  Proof.
    intros e r Hne H. unfold P3. destruct e; cbn [subs_node] in H; try discriminate H.
    - (* ENum *)
      assert (r = ENum n) by (destruct n; try discriminate H; injection H as <-; reflexivity). subst r.
      split; [|split]; try discriminate. intros Ht. split; auto.
    - (* ESym *)
      injection H as <-. split; [|split]; try discriminate. intros _. split; auto.
      intros rho. cbn [evalT]. unfold U. rewrite upd_other; auto. intros ->. apply Hne. reflexivity.
    - (* EDummy *) split; [|split]; discriminate.
    - (* EConst *) split; [|split]; discriminate.
    - (* EF1 *)
      split; [|split]; try discriminate. intros He. cbn [formula] in He. rewrite andb_true_iff in He.
      destruct He as [Hc Ha]. rewrite Hc in H.
      destruct (REC e) as [a'| | |] eqn:Ra; cbn [bind] in H; try discriminate H.
      destruct (HREC e a' Ra) as [_ [_ Hf]]. destruct (Hf Ha) as [Fa' Ea'].
      rewrite (formula_is_boolean _ Fa') in H. injection H as <-.
      destruct (lnot_sound a' Fa') as [Fn En]. split; auto. intros rho. rewrite En, Ea'. reflexivity.
    - (* EF2 *)
      split; [|split]; try discriminate. intros He. cbn [formula] in He. rewrite !andb_true_iff in He.
      destruct He as [[Hc Ha] Hb]. rewrite Hc in H.
      destruct (REC e1) as [a'| | |] eqn:Ra; cbn [bind] in H; try discriminate H.
      destruct (REC e2) as [b'| | |] eqn:Rb; cbn [bind] in H; try discriminate H.
      destruct (HREC e1 a' Ra) as [Ta _]. destruct (Ta Ha) as [Fa' Ea'].
      destruct (HREC e2 b' Rb) as [Tb _]. destruct (Tb Hb) as [Fb' Eb'].
      destruct (expr_eqb a' e1 && expr_eqb b' e2) eqn:Eq.
      + injection H as <-. rewrite andb_true_iff in Eq. destruct Eq as [Q1 Q2].
        apply expr_eqb_term in Q1; auto. apply expr_eqb_term in Q2; auto. subst a' b'.
        split; [apply formula_rel; auto|]. intros rho. cbn [evalB]. rewrite <- Ea', <- Eb'. reflexivity.
      + destruct (rel_create_sound code a' b' r Hc Fa' Fb' H) as [F E]. split; auto.
        intros rho. rewrite E, Ea', Eb'. reflexivity.
    - (* EFN *)
      destruct (code =? TC_And) eqn:C1; [|destruct (code =? TC_Or) eqn:C2;
        [|destruct (code =? TC_Xor) eqn:C3; [|destruct (code =? TC_FiniteSet) eqn:C4; [|discriminate H]]]].
      + apply N.eqb_eq in C1. subst code. split; [|split]; try discriminate. intros He.
        pose proof (formula_children _ _ He) as Hl.
        destruct (mapM REC args) as [l'| | |] eqn:Rl; cbn [bind] in H; try discriminate H.
        destruct (rec_formulas args l' Hl Rl) as [Fl' El'].
        destruct (forallb is_boolean l'); [|discriminate H].
        assert (Fs : forallb formula (set_of_list l') = true)
          by (rewrite forallb_set_of_list; auto using forallb_formula_frag).
        destruct (HAND _ _ Fs H) as [F E]. split; auto. intros rho.
        rewrite E, forallb_set_of_list by auto using forallb_formula_frag.
        rewrite evalB_And, (forallb_of_map _ (evalB rho)), (forallb_of_map _ (evalB (U rho))), El'. reflexivity.
      + apply N.eqb_eq in C2. subst code. split; [|split]; try discriminate. intros He.
        pose proof (formula_children _ _ He) as Hl.
        destruct (mapM REC args) as [l'| | |] eqn:Rl; cbn [bind] in H; try discriminate H.
        destruct (rec_formulas args l' Hl Rl) as [Fl' El'].
        destruct (forallb is_boolean l'); [|discriminate H].
        assert (Fs : forallb formula (set_of_list l') = true)
          by (rewrite forallb_set_of_list; auto using forallb_formula_frag).
        destruct (HOR _ _ Fs H) as [F E]. split; auto. intros rho.
        rewrite E, existsb_set_of_list by auto using forallb_formula_frag.
        rewrite evalB_Or, (existsb_of_map _ (evalB rho)), (existsb_of_map _ (evalB (U rho))), El'. reflexivity.
      + apply N.eqb_eq in C3. subst code. split; [|split]; try discriminate. intros He.
        pose proof (formula_children _ _ He) as Hl.
        destruct (mapM REC args) as [l'| | |] eqn:Rl; cbn [bind] in H; try discriminate H.
        destruct (rec_formulas args l' Hl Rl) as [Fl' El'].
        destruct (forallb is_boolean l'); [|discriminate H]. injection H as <-.
        destruct (logical_xor_sound l' Fl') as [F E]. split; auto. intros rho.
        rewrite E, evalB_Xor, El'. reflexivity.
      + apply N.eqb_eq in C4. subst code. split; [|split]; try discriminate. intros He.
        cbn [set_ok] in He. rewrite andb_true_iff in He. destruct He as [_ Hl].
        destruct (mapM REC args) as [l'| | |] eqn:Rl; cbn [bind] in H; try discriminate H.
        destruct (rec_terms args l' Hl Rl) as [Fl' El']. injection H as <-.
        assert (Fs : forallb term_ok (set_of_list l') = true)
          by (rewrite forallb_set_of_list; auto using forallb_terms_frag).
        split; [apply set_ok_finiteset; auto|]. intros rho q.
        rewrite evalS_finiteset. unfold val_in. rewrite existsb_set_of_list by auto using forallb_terms_frag.
        cbn [evalS].
        rewrite <- (existsb_map _ _ (evalT rho) (fun t => Qeq_bool t q)),
                <- (existsb_map _ _ (evalT (U rho)) (fun t => Qeq_bool t q)), El'. reflexivity.
    - (* ELex *)
      split; [|split]; try discriminate. intros He. cbn [formula] in He. rewrite !andb_true_iff in He.
      destruct He as [[Hc Ha] Hs]. rewrite Hc in H.
      destruct (REC e1) as [a'| | |] eqn:Ra; cbn [bind] in H; try discriminate H.
      destruct (REC e2) as [s'| | |] eqn:Rs; cbn [bind] in H; try discriminate H.
      destruct (HREC e1 a' Ra) as [Ta _]. destruct (Ta Ha) as [Fa' Ea'].
      destruct (HREC e2 s' Rs) as [_ [Ts _]]. destruct (Ts Hs) as [Fs' Es'].
      rewrite (set_ok_is_set _ Fs') in H. cbn [negb] in H.
      apply N.eqb_eq in Hc. subst code.
      destruct (expr_eqb a' e1 && expr_eqb s' e2) eqn:Eq.
      + injection H as <-. rewrite andb_true_iff in Eq. destruct Eq as [Q1 Q2].
        apply expr_eqb_term in Q1; auto. apply expr_eqb_true in Q2; auto using set_frag. subst a' s'.
        split; [apply formula_contains; auto|]. intros rho. cbn [evalB]. rewrite <- Es', <- Ea'. reflexivity.
      + destruct (contains_sound a' s' r Fa' Fs' H) as [F E]. split; auto.
        intros rho. rewrite E, Es', Ea'. reflexivity.
    - (* EBool *)
      injection H as <-. split; [|split]; try discriminate. intros _. split; auto.
    - (* EInterval *)
      injection H as <-. split; [|split]; try discriminate. intros Hs. split; auto.
      intros rho q. cbn [set_ok] in Hs. rewrite !andb_true_iff in Hs. destruct Hs as [[H1 H2] _].
      destruct e1; try discriminate H1. destruct e2; try discriminate H2. reflexivity.
    - (* EAtom *)
      injection H as <-. split; [|split]; try discriminate. intros Hs. split; auto.
  Qed.
End Node.

(* ================================================================== the knot *)
Lemma agg_nil_r : forall is_or x, comb is_or x (if is_or then false else true) = x.
Proof. intros [] []; reflexivity. Qed.

Theorem and_or_subs_sound : forall fuel,
  AND_spec (and_or fuel false) /\ OR_spec (and_or fuel true) /\ SUBS_spec (subs fuel).
Proof.
  induction fuel as [|f [IA [IO IS]]].
  - unfold AND_spec, OR_spec, SUBS_spec. repeat split; intros; discriminate.
  - assert (Step : forall is_or s r, forallb formula s = true -> and_or (S f) is_or s = Ok r ->
                   formula r = true /\ forall rho, evalB rho r = agg is_or rho s).
    { intros is_or s r Hs. cbn [and_or].
      pose proof (ao_collect_sound is_or s [] Hs eq_refl) as Hc.
      destruct (ao_collect is_or s []) as [args|].
      - destruct Hc as [Fa Ea].
        assert (Ea' : forall rho, agg is_or rho args = agg is_or rho s).
        { intros rho. rewrite Ea. destruct is_or; cbn [agg comb existsb forallb].
          - apply orb_false_r.
          - apply andb_true_r. }
        destruct (has_compl args) eqn:Hh.
        + intros H. injection H as <-. split; [reflexivity|]. intros rho. cbn [evalB].
          rewrite <- Ea'. symmetry. apply has_compl_sound; auto.
        + destruct is_or.
          * intros H. injection H as <-. destruct (ao_finish_sound true args Fa) as [F E].
            split; auto. intros rho. rewrite E. apply Ea'.
          * destruct (dom_loop (and_or f false) (subs f) args args) as [o| | |] eqn:Ed;
              cbn [bind]; try discriminate.
            destruct o as [e|]; intros H; injection H as <-.
            -- destruct (dom_loop_sound _ _ IA IS args args e Fa (fun x Hx => Hx) Ed) as [F E].
               split; auto. intros rho. rewrite E. apply (Ea' rho).
            -- destruct (ao_finish_sound false args Fa) as [F E].
               split; auto. intros rho. rewrite E. apply Ea'.
      - intros H. injection H as <-. split; [reflexivity|]. intros rho. cbn [evalB]. symmetry. apply Hc. }
    split; [|split].
    + intros s r Hs H. apply (Step false); auto.
    + intros s r Hs H. apply (Step true); auto.
    + intros nm v e r Hv. cbn [subs]. destruct (keyless_equiv e (ESym nm)) eqn:Ek.
      * intros H. injection H as <-. unfold P3. split; [|split]; intros He.
        -- apply keyless_equiv_true in Ek; auto using term_frag. subst e. split; auto.
           intros rho. cbn [evalT]. rewrite upd_same. reflexivity.
        -- apply keyless_equiv_true in Ek; auto using set_frag. subst e. discriminate He.
        -- apply keyless_equiv_true in Ek; auto using formula_frag. subst e. discriminate He.
      * intros H. eapply subs_node_sound; eauto.
        intros ->. rewrite keyless_equiv_refl in Ek by reflexivity. discriminate.
Qed.

(* ---------- the entry points ---------- *)
Theorem logical_and_sound : forall s r, forallb formula s = true -> logical_and s = Ok r ->
  formula r = true /\ forall rho, evalB rho r = forallb (evalB rho) s.
Proof. intros s r. apply (and_or_subs_sound (fuel_of s)). Qed.

Theorem logical_or_sound : forall s r, forallb formula s = true -> logical_or s = Ok r ->
  formula r = true /\ forall rho, evalB rho r = existsb (evalB rho) s.
Proof. intros s r. apply (and_or_subs_sound (fuel_of s)). Qed.

Theorem logical_nand_sound : forall s r, forallb formula s = true -> logical_nand s = Ok r ->
  formula r = true /\ forall rho, evalB rho r = negb (forallb (evalB rho) s).
Proof.
  intros s r Hs. unfold logical_nand. destruct (logical_and s) as [a| | |] eqn:E; cbn [bind]; try discriminate.
  intros H. injection H as <-. destruct (logical_and_sound s a Hs E) as [F V].
  destruct (lnot_sound a F) as [F' V']. split; auto. intros rho. rewrite V', V. reflexivity.
Qed.

Theorem logical_nor_sound : forall s r, forallb formula s = true -> logical_nor s = Ok r ->
  formula r = true /\ forall rho, evalB rho r = negb (existsb (evalB rho) s).
Proof.
  intros s r Hs. unfold logical_nor. destruct (logical_or s) as [a| | |] eqn:E; cbn [bind]; try discriminate.
  intros H. injection H as <-. destruct (logical_or_sound s a Hs E) as [F V].
  destruct (lnot_sound a F) as [F' V']. split; auto. intros rho. rewrite V', V. reflexivity.
Qed.

Theorem subs_sound : forall fuel nm v e r, formula e = true -> term_ok v = true ->
  subs fuel (ESym nm) v e = Ok r ->
  formula r = true /\ forall rho, evalB rho r = evalB (upd rho nm (evalT rho v)) e.
Proof.
  intros fuel nm v e r He Hv H. destruct (and_or_subs_sound fuel) as [_ [_ IS]].
  destruct (IS nm v e r Hv H) as [_ [_ Hf]]. auto.
Qed.

(* ================================================================== piecewise *)
Lemma evalPw_app : forall rho l1 l2,
  evalPw rho (l1 ++ l2) = match evalPw rho l1 with Some q => Some q | None => evalPw rho l2 end.
Proof.
  induction l1 as [|[e c] l1 IH]; intros l2; cbn [app evalPw]; auto.
  destruct (evalB rho c); auto.
Qed.

Lemma evalPw_none : forall rho l c, evalPw rho l = None -> In c (map snd l) -> evalB rho c = false.
Proof.
  induction l as [|[e c'] l IH]; intros c H Hc; cbn [map In evalPw snd] in *; [tauto|].
  destruct (evalB rho c') eqn:E; [discriminate|]. destruct Hc as [<-|Hc]; auto.
Qed.

Lemma pw_ok_app : forall l1 l2, pw_ok (l1 ++ l2) = pw_ok l1 && pw_ok l2.
Proof. intros. unfold pw_ok. apply forallb_app. Qed.

Lemma pw_loop_sound : forall vec nv conds,
  pw_ok vec = true -> pw_ok nv = true -> forallb formula conds = true ->
  (forall c, In c conds -> In c (map snd nv)) ->
  pw_ok (pw_loop vec nv conds) = true /\
  forall rho, evalPw rho (pw_loop vec nv conds) = evalPw rho (nv ++ vec).
Proof.
  induction vec as [|[e c] r IH]; intros nv conds Hv Hn Hc Hsub; cbn [pw_loop].
  - split; auto. intros rho. rewrite app_nil_r. reflexivity.
  - unfold pw_ok in Hv. cbn [forallb fst snd] in Hv. rewrite !andb_true_iff in Hv.
    destruct Hv as [[He Hfc] Hr]. fold (pw_ok r) in Hr.
    assert (Skip : (forall rho, evalPw rho (nv ++ (e, c) :: r) = evalPw rho (nv ++ r)) ->
                   pw_ok (pw_loop r nv conds) = true /\
                   forall rho, evalPw rho (pw_loop r nv conds) = evalPw rho (nv ++ (e, c) :: r)).
    { intros Hs. destruct (IH nv conds Hr Hn Hc Hsub) as [I1 I2]. split; auto.
      intros rho. rewrite I2, Hs. reflexivity. }
    assert (Keep : negb (set_mem c conds) = true ->
                   pw_ok (pw_loop r (nv ++ [(e, c)]) (set_insert c conds)) = true /\
                   forall rho, evalPw rho (pw_loop r (nv ++ [(e, c)]) (set_insert c conds)) =
                               evalPw rho (nv ++ (e, c) :: r)).
    { intros _.
      assert (Hn' : pw_ok (nv ++ [(e, c)]) = true).
      { rewrite pw_ok_app, Hn. unfold pw_ok. cbn [forallb fst snd]. rewrite He, Hfc. reflexivity. }
      assert (Hc' : forallb formula (set_insert c conds) = true).
      { rewrite forallb_set_insert; auto using formula_frag, forallb_formula_frag. rewrite Hfc, Hc. reflexivity. }
      assert (Hsub' : forall c0, In c0 (set_insert c conds) -> In c0 (map snd (nv ++ [(e, c)]))).
      { intros c0 H0. rewrite map_app, in_app_iff. apply In_set_insert_inv in H0.
        destruct H0 as [->|H0]; [right; left; reflexivity|left; auto]. }
      destruct (IH _ _ Hr Hn' Hc' Hsub') as [I1 I2]. split; auto.
      intros rho. rewrite I2, <- app_assoc. reflexivity. }
    assert (Dup : negb (set_mem c conds) = false ->
                  forall rho, evalPw rho (nv ++ (e, c) :: r) = evalPw rho (nv ++ r)).
    { rewrite negb_false_iff. intros Hm rho.
      apply set_mem_In in Hm; auto using formula_frag, forallb_formula_frag.
      apply Hsub in Hm. rewrite !evalPw_app. destruct (evalPw rho nv) eqn:En; auto.
      cbn [evalPw]. rewrite (evalPw_none rho nv c En Hm). reflexivity. }
    destruct c; try discriminate Hfc;
      try (destruct (negb (set_mem _ conds)) eqn:Em; [apply Keep; auto|apply Skip; apply Dup; auto]).
    destruct b.
    + split.
      * rewrite pw_ok_app, Hn. unfold pw_ok. cbn [forallb fst snd]. rewrite He. reflexivity.
      * intros rho. rewrite !evalPw_app. destruct (evalPw rho nv); reflexivity.
    + apply Skip. intros rho. rewrite !evalPw_app. destruct (evalPw rho nv); reflexivity.
Qed.

Theorem piecewise_sound : forall vec, pw_ok vec = true ->
  match piecewise vec with
  | Ok r => forall rho, evalV rho r = evalPw rho vec
  | ErrExn c => c = EXN_DOMAIN /\ forall rho, evalPw rho vec = None
  | _ => False
  end.
Proof.
  intros vec Hv. unfold piecewise.
  destruct (pw_loop_sound vec [] [] Hv eq_refl eq_refl (fun c H => H)) as [Hok Hev].
  cbn [app] in Hev.
  destruct (pw_loop vec [] []) as [|[e c] tl].
  - split; auto. intros rho. rewrite <- Hev. reflexivity.
  - assert (Gen : forall rho, evalV rho (EPw ((e, c) :: tl)) = evalPw rho vec)
      by (intros rho; rewrite <- Hev; reflexivity).
    destruct c; try exact Gen. destruct b; [|exact Gen]. destruct tl; [|exact Gen].
    intros rho. rewrite <- Hev. unfold pw_ok in Hok. cbn [forallb fst snd] in Hok.
    rewrite !andb_true_iff in Hok. destruct Hok as [[He _] _].
    destruct e; try discriminate He; reflexivity.
Qed.
