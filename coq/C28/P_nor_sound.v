(* C28 obligation: logical_nor denotes the negated disjunction. *)
From SE Require Import C28.LogicTheorems.
Local Open Scope N_scope.
Theorem C28_nor_sound :
  forall s r rho, forallb formula s = true -> logical_nor s = Ok r ->
    denoteB rho r = Some (negb (existsb (evalB rho) s)).
Proof. exact nor_sound. Qed.
Print Assumptions C28_nor_sound.
