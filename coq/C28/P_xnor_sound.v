(* C28 obligation: logical_xnor denotes the negated parity. *)
From SE Require Import C28.LogicTheorems.
Local Open Scope N_scope.
Theorem C28_xnor_sound :
  forall s rho, forallb formula s = true ->
    denoteB rho (logical_xnor s) = Some (negb (xor_all (map (evalB rho) s))).
Proof. exact xnor_sound. Qed.
Print Assumptions C28_xnor_sound.
