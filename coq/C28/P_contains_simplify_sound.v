(* C28 obligation: contains(e, S) for Interval / FiniteSet / EmptySet / UniversalSet denotes membership of the value of e. *)
From SE Require Import C28.LogicTheorems.
Local Open Scope N_scope.
Theorem C28_contains_simplify_sound :
  forall e s r rho, term_ok e = true -> set_ok s = true -> contains e s = Ok r ->
    denoteB rho r = Some (evalS rho s (evalT rho e)).
Proof. exact contains_simplify_sound. Qed.
Print Assumptions C28_contains_simplify_sound.
