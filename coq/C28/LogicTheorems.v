(* C28 -- the property theorems in their final form: the partial reading [denoteB] (defined exactly
   on the fragment) of every simplifier output is the schoolbook combination of the inputs' truth
   values, for all formulas, all assignments, all argument orders, all fuel values. *)
From SE Require Export C28.LogicProofs.
From Coq Require Import Lia.
Local Open Scope N_scope.

Lemma denoteB_of : forall rho r b, formula r = true -> evalB rho r = b -> denoteB rho r = Some b.
Proof. intros rho r b F E. unfold denoteB. rewrite F, E. reflexivity. Qed.

Lemma denoteB_formula : forall rho a, formula a = true -> denoteB rho a = Some (evalB rho a).
Proof. intros. apply denoteB_of; auto. Qed.

Theorem not_sound : forall a rho, formula a = true ->
  denoteB rho (lnot a) = Some (negb (evalB rho a)).
Proof. intros a rho H. destruct (lnot_sound a H). apply denoteB_of; auto. Qed.

Theorem and_or_sound_any_fuel : forall fuel is_or s r rho, forallb formula s = true ->
  and_or fuel is_or s = Ok r ->
  denoteB rho r = Some (if is_or then existsb (evalB rho) s else forallb (evalB rho) s).
Proof.
  intros fuel is_or s r rho Hs H. destruct (and_or_subs_sound fuel) as [IA [IO _]].
  destruct is_or.
  - destruct (IO s r Hs H). apply denoteB_of; auto.
  - destruct (IA s r Hs H). apply denoteB_of; auto.
Qed.

Theorem and_sound : forall s r rho, forallb formula s = true -> logical_and s = Ok r ->
  denoteB rho r = Some (forallb (evalB rho) s).
Proof. intros s r rho Hs H. destruct (logical_and_sound s r Hs H). apply denoteB_of; auto. Qed.

Theorem or_sound : forall s r rho, forallb formula s = true -> logical_or s = Ok r ->
  denoteB rho r = Some (existsb (evalB rho) s).
Proof. intros s r rho Hs H. destruct (logical_or_sound s r Hs H). apply denoteB_of; auto. Qed.

Theorem nand_sound : forall s r rho, forallb formula s = true -> logical_nand s = Ok r ->
  denoteB rho r = Some (negb (forallb (evalB rho) s)).
Proof. intros s r rho Hs H. destruct (logical_nand_sound s r Hs H). apply denoteB_of; auto. Qed.

Theorem nor_sound : forall s r rho, forallb formula s = true -> logical_nor s = Ok r ->
  denoteB rho r = Some (negb (existsb (evalB rho) s)).
Proof. intros s r rho Hs H. destruct (logical_nor_sound s r Hs H). apply denoteB_of; auto. Qed.

Theorem xor_sound : forall s rho, forallb formula s = true ->
  denoteB rho (logical_xor s) = Some (xor_all (map (evalB rho) s)).
Proof. intros s rho Hs. destruct (logical_xor_sound s Hs). apply denoteB_of; auto. Qed.

Theorem xnor_sound : forall s rho, forallb formula s = true ->
  denoteB rho (logical_xnor s) = Some (negb (xor_all (map (evalB rho) s))).
Proof. intros s rho Hs. destruct (logical_xnor_sound s Hs). apply denoteB_of; auto. Qed.

(* Basic::subs({x: v}) on a formula is evaluation under the updated assignment *)
Theorem subs_formula_sound : forall fuel nm v e r rho, formula e = true -> term_ok v = true ->
  subs fuel (ESym nm) v e = Ok r ->
  denoteB rho r = Some (evalB (upd rho nm (evalT rho v)) e).
Proof.
  intros fuel nm v e r rho He Hv H. destruct (subs_sound fuel nm v e r He Hv H). apply denoteB_of; auto.
Qed.

Theorem contains_simplify_sound : forall e s r rho, term_ok e = true -> set_ok s = true ->
  contains e s = Ok r -> denoteB rho r = Some (evalS rho s (evalT rho e)).
Proof. intros e s r rho He Hs H. destruct (contains_sound e s r He Hs H). apply denoteB_of; auto. Qed.

(* Eq / Ne / Lt / Le / Gt / Ge on terms *)
Theorem relational_sound : forall a b rho, term_ok a = true -> term_ok b = true ->
  denoteB rho (mk_Eq a b) = Some (Qeq_bool (evalT rho a) (evalT rho b)) /\
  denoteB rho (mk_Ne a b) = Some (negb (Qeq_bool (evalT rho a) (evalT rho b))) /\
  (forall r, mk_Lt a b = Ok r -> denoteB rho r = Some (Qltb (evalT rho a) (evalT rho b))) /\
  (forall r, mk_Le a b = Ok r -> denoteB rho r = Some (Qle_bool (evalT rho a) (evalT rho b))) /\
  (forall r, mk_Gt a b = Ok r -> denoteB rho r = Some (Qltb (evalT rho b) (evalT rho a))) /\
  (forall r, mk_Ge a b = Ok r -> denoteB rho r = Some (Qle_bool (evalT rho b) (evalT rho a))).
Proof.
  intros a b rho Ha Hb. repeat split.
  - destruct (mk_Eq_sound a b Ha Hb). apply denoteB_of; auto.
  - destruct (mk_Ne_sound a b Ha Hb). apply denoteB_of; auto.
  - intros r H. destruct (mk_Lt_sound a b r Ha Hb H). apply denoteB_of; auto.
  - intros r H. destruct (mk_Le_sound a b r Ha Hb H). apply denoteB_of; auto.
  - intros r H. destruct (mk_Lt_sound b a r Hb Ha H). apply denoteB_of; auto.
  - intros r H. destruct (mk_Le_sound b a r Hb Ha H). apply denoteB_of; auto.
Qed.

(* the order comparisons never throw on terms *)
Theorem relational_total : forall a b, term_ok a = true -> term_ok b = true ->
  is_ok (mk_Lt a b) = true /\ is_ok (mk_Le a b) = true.
Proof.
  intros a b Ha Hb. unfold mk_Lt, mk_Le. rewrite ineq_guard_term by assumption. cbn [bind].
  destruct (expr_eqb a b); [split; reflexivity|].
  destruct (is_num a && is_num b) eqn:Nn; [|split; reflexivity].
  destruct a; try discriminate Nn; destruct b; try discriminate Nn.
  rewrite expr_num_lt_spec by assumption. split; reflexivity.
Qed.

(* logical_or and logical_xor need no recursion budget *)
Theorem or_total : forall s, exists r, logical_or s = Ok r.
Proof.
  intros s. unfold logical_or, fuel_of.
  replace (4 * list_size s + 16)%nat with (S (4 * list_size s + 15)) by lia. cbn [and_or].
  destruct (ao_collect true s []); [|eauto]. destruct (has_compl l); eauto.
Qed.
