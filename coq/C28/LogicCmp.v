(* C28 -- the comparator on the fragment.  [frag] is the class of well-coded trees over the node
   kinds of the fragment (exact numbers, symbols, BooleanAtom, the four relational classes,
   Contains, Not, And/Or/Xor, FiniteSet, Interval, EmptySet/UniversalSet).  On it
     - the library's eq ([expr_eqb]) is structural identity,
     - compare ([expr_cmp]) is a total order: 0 exactly on identical trees, antisymmetric,
     - hence two keys that RCPBasicKeyLess cannot tell apart are identical  ([keyless_equiv_eq]).
   This is what makes std::set<.., RCPBasicKeyLess>::find / insert / erase meaningful for the
   truth-value theorems (a found key IS the key looked up).  Self-contained: proved here directly
   for the fragment (it does not depend on the general C01/C02 development). *)
From SE Require Export C28.LogicSpec.
From Coq Require Import Lia ZifyBool ZifyNat ZifyN Znumtheory Qcanon.
Local Open Scope N_scope.

Definition conn_codes : list N := [TC_And; TC_Or; TC_Xor; TC_FiniteSet].

Fixpoint frag (e : expr) : bool :=
  match e with
  | ENum n => num_ok n
  | ESym _ => true
  | EBool _ => true
  | EAtom c => (c =? TC_EmptySet) || (c =? TC_UniversalSet)
  | EInterval s x _ _ => numlit_ok s && numlit_ok x
  | EF1 c a => (c =? TC_Not) && frag a
  | EF2 c a b => mem_code c rel_codes && frag a && frag b
  | ELex c a s => (c =? TC_Contains) && frag a && frag s
  | EFN c l => mem_code c conn_codes && forallb frag l
  | _ => false
  end.

(* ---------- the fragment's classes are inside [frag] ---------- *)
Lemma numlit_frag : forall e, numlit_ok e = true -> frag e = true.
Proof. destruct e; cbn; auto; discriminate. Qed.

Lemma term_frag : forall e, term_ok e = true -> frag e = true.
Proof. destruct e; cbn; auto; discriminate. Qed.

Lemma forallb_impl : forall (A : Type) (p q : A -> bool) l,
  (forall x, In x l -> p x = true -> q x = true) -> forallb p l = true -> forallb q l = true.
Proof.
  induction l; cbn; auto. intros H. rewrite !andb_true_iff. intros [H1 H2]. split.
  - apply H; auto.
  - apply IHl; auto.
Qed.

Lemma set_frag : forall e, set_ok e = true -> frag e = true.
Proof.
  destruct e; cbn [set_ok frag]; try discriminate; auto.
  - rewrite !andb_true_iff. intros [Hc Hl]. split.
    + apply N.eqb_eq in Hc. subst. reflexivity.
    + eapply forallb_impl; [|exact Hl]. intros; apply term_frag; assumption.
  - rewrite !andb_true_iff. tauto.
Qed.

Lemma mem_rel_codes : forall c, mem_code c rel_codes = true ->
  c = TC_Equality \/ c = TC_Unequality \/ c = TC_LessThan \/ c = TC_StrictLessThan.
Proof.
  unfold mem_code, rel_codes. cbn [existsb]. intros c. rewrite !orb_true_iff, !N.eqb_eq. intuition discriminate.
Qed.

Lemma mem_conn_codes : forall c, mem_code c conn_codes = true ->
  c = TC_And \/ c = TC_Or \/ c = TC_Xor \/ c = TC_FiniteSet.
Proof.
  unfold mem_code, conn_codes. cbn [existsb]. intros c. rewrite !orb_true_iff, !N.eqb_eq. intuition discriminate.
Qed.

Section SizeInd.
  Variable P : expr -> Prop.
  Hypothesis step : forall e, (forall e', (size e' < size e)%nat -> P e') -> P e.
  Lemma expr_size_ind : forall e, P e.
  Proof.
    assert (H : forall n e, (size e < n)%nat -> P e).
    { induction n; intros e He; [lia|]. apply step. intros e' He'. apply IHn. lia. }
    intros e. apply (H (S (size e))). lia.
  Qed.
End SizeInd.

Lemma in_list_size : forall x l, In x l -> (size x <= fold_right (fun x acc => size x + acc) 0 l)%nat.
Proof.
  induction l; cbn [In fold_right]; [tauto|]. intros [->|H]; [lia|]. apply IHl in H. lia.
Qed.

Lemma formula_frag : forall e, formula e = true -> frag e = true.
Proof.
  induction e using expr_size_ind. destruct e; cbn [formula frag]; try discriminate; auto.
  - rewrite !andb_true_iff. intros [Hc Ha]. split; [exact Hc|]. apply H; [cbn [size]; lia|exact Ha].
  - rewrite !andb_true_iff. intros [[Hc Ha] Hb]. repeat split; auto using term_frag.
  - rewrite !andb_true_iff. intros [Hc Hl]. split.
    + rewrite !orb_true_iff, !N.eqb_eq in Hc. destruct Hc as [[->| ->]| ->]; reflexivity.
    + eapply forallb_impl; [|exact Hl]. intros x Hx. apply H. apply in_list_size in Hx. cbn [size]. lia.
  - rewrite !andb_true_iff. intros [[Hc Ha] Hb]. repeat split; auto using term_frag, set_frag.
Qed.

(* ---------- strings ---------- *)
Lemma bytes_cmp_refl : forall a, bytes_cmp a a = 0%Z.
Proof. induction a; cbn; auto. rewrite N.eqb_refl. assumption. Qed.

Lemma bytes_cmp_tri : forall a b,
  (a = b /\ bytes_cmp a b = 0%Z /\ bytes_cmp b a = 0%Z) \/
  (a <> b /\ bytes_cmp a b = (-1)%Z /\ bytes_cmp b a = 1%Z) \/
  (a <> b /\ bytes_cmp a b = 1%Z /\ bytes_cmp b a = (-1)%Z).
Proof.
  induction a as [|x a IH]; destruct b as [|y b]; cbn [bytes_cmp].
  - left; auto.
  - right; left; repeat split; congruence.
  - right; right; repeat split; congruence.
  - destruct (x =? y) eqn:E.
    + apply N.eqb_eq in E. subst y. rewrite N.eqb_refl.
      destruct (IH b) as [[-> [H1 H2]]|[[Hn [H1 H2]]|[Hn [H1 H2]]]].
      * left; auto.
      * right; left; repeat split; auto; congruence.
      * right; right; repeat split; auto; congruence.
    + assert (y =? x = false) by (rewrite N.eqb_sym; assumption).
      rewrite H. apply N.eqb_neq in E.
      destruct (x <? y) eqn:L.
      * assert (y <? x = false) by lia. rewrite H0. right; left; repeat split; congruence.
      * assert (y <? x = true) by lia. rewrite H0. right; right; repeat split; congruence.
Qed.

Lemma bytes_eqb_true : forall a b, bytes_eqb a b = true -> a = b.
Proof.
  unfold bytes_eqb. intros a b H. apply Z.eqb_eq in H.
  destruct (bytes_cmp_tri a b) as [[E _]|[[_ [H1 _]]|[_ [H1 _]]]]; auto; congruence.
Qed.

Lemma bytes_eqb_refl : forall a, bytes_eqb a a = true.
Proof. intros. unfold bytes_eqb. rewrite bytes_cmp_refl. reflexivity. Qed.

(* ---------- numbers ---------- *)
Lemma rat_canon : forall n1 d1 n2 d2,
  Z.gcd n1 (Zpos d1) = 1%Z -> Z.gcd n2 (Zpos d2) = 1%Z ->
  (n1 * Zpos d2 = n2 * Zpos d1)%Z -> n1 = n2 /\ d1 = d2.
Proof.
  intros n1 d1 n2 d2 G1 G2 E.
  assert (Q1 : Qred (n1 # d1) = n1 # d1) by (apply Qred_iff; exact G1).
  assert (Q2 : Qred (n2 # d2) = n2 # d2) by (apply Qred_iff; exact G2).
  assert (QE : (n1 # d1) == (n2 # d2)) by (unfold Qeq; cbn; exact E).
  apply Qred_complete in QE. rewrite Q1, Q2 in QE. inversion QE. auto.
Qed.

Lemma Zcmp_cases : forall a b : Z,
  (a = b /\ Zcmp a b = 0%Z /\ Zcmp b a = 0%Z) \/
  (a <> b /\ Zcmp a b = (-1)%Z /\ Zcmp b a = 1%Z) \/
  (a <> b /\ Zcmp a b = 1%Z /\ Zcmp b a = (-1)%Z).
Proof.
  intros a b. unfold Zcmp.
  destruct (a =? b)%Z eqn:E1, (b =? a)%Z eqn:E2, (a <? b)%Z eqn:E3, (b <? a)%Z eqn:E4; lia.
Qed.

Definition num_tri (x y : number) : Prop :=
  (x = y /\ num_cmp_same x y = 0%Z /\ num_cmp_same y x = 0%Z) \/
  (x <> y /\ num_cmp_same x y = (-1)%Z /\ num_cmp_same y x = 1%Z) \/
  (x <> y /\ num_cmp_same x y = 1%Z /\ num_cmp_same y x = (-1)%Z).

Lemma num_cmp_tri : forall x y, num_ok x = true -> num_ok y = true ->
  num_type_code x = num_type_code y -> num_tri x y.
Proof.
  intros x y Hx Hy Hc. unfold num_tri.
  destruct x; try discriminate Hx; destruct y; try discriminate Hy; try discriminate Hc; cbn [num_cmp_same].
  - destruct (Zcmp_cases z z0) as [[-> H]|[[Hn H]|[Hn H]]]; [left|right; left|right; right];
      (split; [congruence|exact H]).
  - cbn [num_ok] in Hx, Hy. rewrite andb_true_iff in Hx, Hy. destruct Hx as [G1 _], Hy as [G2 _].
    apply Z.eqb_eq in G1, G2. unfold Qcmp_pair.
    destruct (Zcmp_cases (n * Zpos d0) (n0 * Zpos d)) as [[E H]|[[Hn H]|[Hn H]]].
    + left. destruct (rat_canon _ _ _ _ G1 G2 E) as [-> ->]. split; [reflexivity|exact H].
    + right; left. split; [|exact H]. intros E. inversion E. subst. apply Hn. reflexivity.
    + right; right. split; [|exact H]. intros E. inversion E. subst. apply Hn. reflexivity.
Qed.

Lemma num_eqb_true : forall x y, num_ok x = true -> num_ok y = true -> num_eqb x y = true -> x = y.
Proof.
  intros x y Hx Hy H.
  destruct x; try discriminate Hx; destruct y; try discriminate Hy; try discriminate H; cbn [num_eqb] in H.
  - apply Z.eqb_eq in H. congruence.
  - cbn [num_ok] in Hx, Hy. rewrite andb_true_iff in Hx, Hy. destruct Hx as [G1 _], Hy as [G2 _].
    apply Z.eqb_eq in G1, G2. unfold Qeq_pair in H. apply Z.eqb_eq in H.
    destruct (rat_canon _ _ _ _ G1 G2 H) as [-> ->]. reflexivity.
Qed.

Lemma num_eqb_refl : forall x, num_ok x = true -> num_eqb x x = true.
Proof.
  destruct x; try discriminate; intros _; cbn [num_eqb].
  - apply Z.eqb_refl.
  - unfold Qeq_pair. apply Z.eqb_refl.
Qed.

(* ---------- children of fragment nodes ---------- *)
Lemma frag_EFN : forall c l, frag (EFN c l) = true ->
  (c = TC_And \/ c = TC_Or \/ c = TC_Xor \/ c = TC_FiniteSet) /\ forallb frag l = true.
Proof. cbn [frag]. intros c l. rewrite andb_true_iff. intros [H1 H2]. split; auto using mem_conn_codes. Qed.

Lemma forallb_In : forall (A : Type) (p : A -> bool) l x, forallb p l = true -> In x l -> p x = true.
Proof. intros A p l x H Hx. rewrite forallb_forall in H. auto. Qed.

(* ---------- eq is identity on the fragment ---------- *)
Lemma list_eqb_true : forall (r : expr -> expr -> bool) l1 l2,
  (forall x y, In x l1 -> In y l2 -> r x y = true -> x = y) -> list_eqb r l1 l2 = true -> l1 = l2.
Proof.
  induction l1 as [|x l1 IH]; destruct l2 as [|y l2]; cbn [list_eqb]; try discriminate; auto.
  intros H. rewrite andb_true_iff. intros [H1 H2]. f_equal.
  - apply H; cbn; auto.
  - apply IH; auto. intros; apply H; cbn; auto.
Qed.

Lemma eqb_true : forall f a b, frag a = true -> frag b = true -> Cmp.eqb f a b = true -> a = b.
Proof.
  induction f as [|f IH]; intros a b Ha Hb H; [discriminate|].
  destruct a; try discriminate Ha; destruct b; try discriminate H; cbn [Cmp.eqb] in H.
  - f_equal. apply num_eqb_true; auto.
  - f_equal. apply bytes_eqb_true; auto.
  - cbn [frag] in Ha, Hb. rewrite !andb_true_iff in *. destruct H as [Hc H], Ha as [_ Ha], Hb as [_ Hb].
    apply N.eqb_eq in Hc. subst. f_equal. eauto.
  - cbn [frag] in Ha, Hb. rewrite !andb_true_iff in *.
    destruct H as [[Hc H1] H2], Ha as [[_ Ha1] Ha2], Hb as [[_ Hb1] Hb2].
    apply N.eqb_eq in Hc. subst. f_equal; eauto.
  - apply frag_EFN in Ha, Hb. destruct Ha as [_ Ha], Hb as [_ Hb]. rewrite andb_true_iff in H.
    destruct H as [Hc H]. apply N.eqb_eq in Hc. subst. f_equal.
    apply (list_eqb_true (Cmp.eqb f)); auto. intros x y Hx Hy. apply IH; [exact (forallb_In _ _ _ _ Ha Hx)|exact (forallb_In _ _ _ _ Hb Hy)].
  - cbn [frag] in Ha, Hb. rewrite !andb_true_iff in *.
    destruct H as [[Hc H1] H2], Ha as [[_ Ha1] Ha2], Hb as [[_ Hb1] Hb2].
    apply N.eqb_eq in Hc. subst. f_equal; eauto.
  - apply Bool.eqb_prop in H. congruence.
  - cbn [frag] in Ha, Hb. rewrite !andb_true_iff in *.
    destruct H as [[[Hl Hr] H1] H2], Ha as [Ha1 Ha2], Hb as [Hb1 Hb2].
    apply Bool.eqb_prop in Hl, Hr. subst. f_equal; apply IH; auto using numlit_frag.
  - apply N.eqb_eq in H. congruence.
Qed.

Lemma expr_eqb_true : forall a b, frag a = true -> frag b = true -> expr_eqb a b = true -> a = b.
Proof. unfold expr_eqb. intros. eapply eqb_true; eauto. Qed.

Lemma list_eqb_refl : forall (r : expr -> expr -> bool) l,
  (forall x, In x l -> r x x = true) -> list_eqb r l l = true.
Proof.
  induction l as [|x l IH]; cbn [list_eqb]; auto. intros H. rewrite H by (cbn; auto).
  apply IH. intros; apply H; cbn; auto.
Qed.

Lemma eqb_refl : forall f a, frag a = true -> (size a + size a <= f)%nat -> Cmp.eqb f a a = true.
Proof.
  induction f as [|f IH]; intros a Ha Hs; [destruct a; cbn [size] in Hs; lia|].
  destruct a; try discriminate Ha; cbn [Cmp.eqb]; cbn [size] in Hs.
  - apply num_eqb_refl; auto.
  - apply bytes_eqb_refl.
  - cbn [frag] in Ha. rewrite andb_true_iff in Ha. destruct Ha as [_ Ha].
    rewrite N.eqb_refl. cbn [andb]. apply IH; auto. lia.
  - cbn [frag] in Ha. rewrite !andb_true_iff in Ha. destruct Ha as [[_ Ha1] Ha2].
    rewrite N.eqb_refl, !IH by (auto; lia). reflexivity.
  - apply frag_EFN in Ha. destruct Ha as [_ Ha]. rewrite N.eqb_refl. cbn [andb].
    apply list_eqb_refl. intros x Hx. apply IH; [eapply forallb_In; eauto|].
    apply in_list_size in Hx. lia.
  - cbn [frag] in Ha. rewrite !andb_true_iff in Ha. destruct Ha as [[_ Ha1] Ha2].
    rewrite N.eqb_refl, !IH by (auto; lia). reflexivity.
  - apply Bool.eqb_reflx.
  - cbn [frag] in Ha. rewrite andb_true_iff in Ha. destruct Ha as [Ha1 Ha2].
    rewrite !Bool.eqb_reflx, !IH by (auto using numlit_frag; lia). reflexivity.
  - apply N.eqb_refl.
Qed.

Lemma eqb_iff : forall f a b, frag a = true -> frag b = true -> (size a + size b <= f)%nat ->
  (Cmp.eqb f a b = true <-> a = b).
Proof.
  intros f a b Ha Hb Hs. split.
  - apply eqb_true; auto.
  - intros ->. apply eqb_refl; auto.
Qed.

(* ---------- compare is a total order on the fragment ---------- *)
Definition Tri (x y : Z) (P : Prop) : Prop :=
  (P /\ x = 0%Z /\ y = 0%Z) \/ (~ P /\ x = (-1)%Z /\ y = 1%Z) \/ (~ P /\ x = 1%Z /\ y = (-1)%Z).

Lemma Tri_iff : forall x y P Q, (P <-> Q) -> Tri x y P -> Tri x y Q.
Proof. unfold Tri. intros. tauto. Qed.

(* constructor index of fragment nodes, determined by the type code *)
Definition ctor (e : expr) : N :=
  match e with
  | ENum _ => 0 | ESym _ => 1 | EBool _ => 2 | EAtom _ => 3 | EInterval _ _ _ _ => 4
  | EF1 _ _ => 5 | EF2 _ _ _ => 6 | ELex _ _ _ => 7 | EFN _ _ => 8 | _ => 9
  end.

Definition ctor_of_code (c : N) : N :=
  if (c =? TC_Integer) || (c =? TC_Rational) then 0
  else if c =? TC_Symbol then 1
  else if c =? TC_BooleanAtom then 2
  else if (c =? TC_EmptySet) || (c =? TC_UniversalSet) then 3
  else if c =? TC_Interval then 4
  else if c =? TC_Not then 5
  else if mem_code c rel_codes then 6
  else if c =? TC_Contains then 7
  else if mem_code c conn_codes then 8
  else 9.

Lemma frag_ctor : forall e, frag e = true -> ctor e = ctor_of_code (type_code e).
Proof.
  destruct e; try discriminate; cbn [frag ctor type_code].
  - destruct n; try discriminate; reflexivity.
  - reflexivity.
  - rewrite andb_true_iff. intros [H _]. apply N.eqb_eq in H. subst. reflexivity.
  - rewrite !andb_true_iff. intros [[H _] _]. apply mem_rel_codes in H.
    destruct H as [->|[->|[->| ->]]]; reflexivity.
  - rewrite andb_true_iff. intros [H _]. apply mem_conn_codes in H.
    destruct H as [->|[->|[->| ->]]]; reflexivity.
  - rewrite !andb_true_iff. intros [[H _] _]. apply N.eqb_eq in H. subst. reflexivity.
  - reflexivity.
  - reflexivity.
  - rewrite orb_true_iff, !N.eqb_eq. intros [->| ->]; reflexivity.
Qed.

Lemma cmp_S_diff : forall f a b, (type_code a =? type_code b) = false ->
  cmp (S f) a b = if type_code a <? type_code b then (-1)%Z else 1%Z.
Proof. intros f a b H. cbn [cmp]. rewrite H. reflexivity. Qed.

Lemma cmp_S_same : forall f a b, (type_code a =? type_code b) = true ->
  cmp (S f) a b =
  match a, b with
  | ENum x, ENum y => num_cmp_same x y
  | ESym x, ESym y => bytes_cmp x y
  | EF1 _ a1, EF1 _ a2 => cmp f a1 a2
  | EF2 _ a1 b1, EF2 _ a2 b2 =>
      if negb (Cmp.eqb (size a + size b) a1 a2) then cmp f a1 a2 else cmp f b1 b2
  | EFN _ l1, EFN _ l2 => sized_cmp (cmp f) l1 l2
  | ELex _ a1 b1, ELex _ a2 b2 =>
      let t := cmp f a1 a2 in if (t =? 0)%Z then cmp f b1 b2 else t
  | EBool x, EBool y =>
      if x then (if y then 0%Z else 1%Z) else (if y then (-1)%Z else 0%Z)
  | EInterval s1 e1 lo1 ro1, EInterval s2 e2 lo2 ro2 =>
      if lo1 && negb lo2 then (-1)%Z
      else if negb lo1 && lo2 then 1%Z
      else if ro1 && negb ro2 then 1%Z
      else if negb ro1 && ro2 then (-1)%Z
      else let t := cmp f s1 s2 in if (t =? 0)%Z then cmp f e1 e2 else t
  | EAtom _, EAtom _ => 0%Z
  | _, _ => cmp (S f) a b
  end.
Proof.
  intros f a b H. destruct a; destruct b; try reflexivity; cbn [cmp]; rewrite H; reflexivity.
Qed.

Lemma lex_cmp_tri : forall (c : expr -> expr -> Z) l1 l2, length l1 = length l2 ->
  (forall x y, In x l1 -> In y l2 -> Tri (c x y) (c y x) (x = y)) ->
  Tri (lex_cmp c l1 l2) (lex_cmp c l2 l1) (l1 = l2).
Proof.
  induction l1 as [|x l1 IH]; destruct l2 as [|y l2]; cbn [length lex_cmp]; try discriminate.
  - intros _ _. left. auto.
  - intros Hl H. injection Hl as Hl.
    destruct (H x y) as [[E [H1 H2]]|[[E [H1 H2]]|[E [H1 H2]]]]; cbn; auto; rewrite H1, H2; cbn [Z.eqb].
    + subst y. eapply Tri_iff; [|apply IH; auto].
      * split; [intros ->; reflexivity|intros E; inversion E; reflexivity].
      * intros; apply H; cbn; auto.
    + right; left. repeat split; auto. intros E'; inversion E'; auto.
    + right; right. repeat split; auto. intros E'; inversion E'; auto.
Qed.

Lemma sized_cmp_tri : forall (c : expr -> expr -> Z) l1 l2,
  (forall x y, In x l1 -> In y l2 -> Tri (c x y) (c y x) (x = y)) ->
  Tri (sized_cmp c l1 l2) (sized_cmp c l2 l1) (l1 = l2).
Proof.
  intros c l1 l2 H. unfold sized_cmp.
  destruct (length l1 =? length l2)%nat eqn:E.
  - apply Nat.eqb_eq in E. rewrite E, Nat.eqb_refl. apply lex_cmp_tri; auto.
  - assert ((length l2 =? length l1)%nat = false) by (rewrite Nat.eqb_sym; assumption). rewrite H0.
    apply Nat.eqb_neq in E.
    destruct (length l1 <? length l2)%nat eqn:L.
    + assert ((length l2 <? length l1)%nat = false) by lia. rewrite H1.
      right; left. repeat split; auto. intros ->. auto.
    + assert ((length l2 <? length l1)%nat = true) by lia. rewrite H1.
      right; right. repeat split; auto. intros ->. auto.
Qed.

Lemma cmp_tri : forall f a b, frag a = true -> frag b = true -> (size a + size b <= f)%nat ->
  Tri (cmp f a b) (cmp f b a) (a = b).
Proof.
  induction f as [|f IH]; intros a b Ha Hb Hs; [destruct a; cbn [size] in Hs; lia|].
  destruct (type_code a =? type_code b) eqn:Hc.
  2:{ assert (Hc' : (type_code b =? type_code a) = false) by (rewrite N.eqb_sym; assumption).
      rewrite (cmp_S_diff f a b Hc), (cmp_S_diff f b a Hc').
      assert (Hne : a <> b) by (intros ->; rewrite N.eqb_refl in Hc; discriminate).
      apply N.eqb_neq in Hc.
      destruct (type_code a <? type_code b) eqn:L.
      - assert ((type_code b <? type_code a) = false) by lia. rewrite H. right; left. auto.
      - assert ((type_code b <? type_code a) = true) by lia. rewrite H. right; right. auto. }
  assert (Hc' : (type_code b =? type_code a) = true) by (rewrite N.eqb_sym; assumption).
  rewrite (cmp_S_same f a b Hc), (cmp_S_same f b a Hc').
  assert (Hk : ctor a = ctor b).
  { rewrite (frag_ctor a Ha), (frag_ctor b Hb). apply N.eqb_eq in Hc. rewrite Hc. reflexivity. }
  destruct a; try discriminate Ha; destruct b; try discriminate Hk; clear Hk; cbn [type_code] in Hc;
    cbn [size] in Hs.
  - (* numbers *)
    apply N.eqb_eq in Hc.
    destruct (num_cmp_tri n n0 Ha Hb Hc) as [[E H]|[[E H]|[E H]]]; [left|right; left|right; right];
      (split; [congruence|exact H]).
  - (* symbols *)
    destruct (bytes_cmp_tri name name0) as [[E H]|[[E H]|[E H]]]; [left|right; left|right; right];
      (split; [congruence|exact H]).
  - (* EF1 *)
    apply N.eqb_eq in Hc. subst code0. cbn [frag] in Ha, Hb. rewrite andb_true_iff in Ha, Hb.
    eapply Tri_iff; [|apply IH; [apply Ha|apply Hb|lia]].
    split; [intros ->; reflexivity|intros E; inversion E; reflexivity].
  - (* EF2 *)
    apply N.eqb_eq in Hc. subst code0. cbn [frag] in Ha, Hb. rewrite !andb_true_iff in Ha, Hb.
    destruct Ha as [[_ Ha1] Ha2], Hb as [[_ Hb1] Hb2].
    destruct (Cmp.eqb (size (EF2 code a1 a2) + size (EF2 code b1 b2)) a1 b1) eqn:Q1.
    + apply eqb_true in Q1; auto. subst b1.
      rewrite (eqb_refl _ a1 Ha1) by (cbn [size]; lia). cbn [negb].
      eapply Tri_iff; [|apply IH; [apply Ha2|apply Hb2|lia]].
      split; [intros ->; reflexivity|intros E; inversion E; reflexivity].
    + destruct (Cmp.eqb (size (EF2 code b1 b2) + size (EF2 code a1 a2)) b1 a1) eqn:Q2.
      * apply eqb_true in Q2; auto. subst b1.
        rewrite (eqb_refl _ a1 Ha1) in Q1 by (cbn [size]; lia). discriminate.
      * cbn [negb].
        destruct (IH a1 b1 Ha1 Hb1) as [[E H]|[[E H]|[E H]]]; [lia| | |].
        -- subst b1. rewrite (eqb_refl _ a1 Ha1) in Q1 by (cbn [size]; lia). discriminate.
        -- right; left. split; [intros E'; inversion E'; auto|exact H].
        -- right; right. split; [intros E'; inversion E'; auto|exact H].
  - (* EFN *)
    apply N.eqb_eq in Hc. subst code0. apply frag_EFN in Ha, Hb. destruct Ha as [_ Ha], Hb as [_ Hb].
    eapply Tri_iff; [|apply sized_cmp_tri].
    + split; [intros ->; reflexivity|intros E; inversion E; reflexivity].
    + intros x y Hx Hy. apply IH; [exact (forallb_In _ _ _ _ Ha Hx)|exact (forallb_In _ _ _ _ Hb Hy)|].
      apply in_list_size in Hx, Hy. lia.
  - (* ELex *)
    apply N.eqb_eq in Hc. subst code0. cbn [frag] in Ha, Hb. rewrite !andb_true_iff in Ha, Hb.
    destruct Ha as [[_ Ha1] Ha2], Hb as [[_ Hb1] Hb2]. cbv zeta.
    destruct (IH a1 b1 Ha1 Hb1) as [[E [H1 H2]]|[[E [H1 H2]]|[E [H1 H2]]]]; [lia| | |];
      rewrite H1, H2; cbn [Z.eqb].
    + subst b1. eapply Tri_iff; [|apply IH; [apply Ha2|apply Hb2|lia]].
      split; [intros ->; reflexivity|intros E; inversion E; reflexivity].
    + right; left. repeat split; auto. intros E'; inversion E'; auto.
    + right; right. repeat split; auto. intros E'; inversion E'; auto.
  - (* EBool *)
    destruct b, b0; [left|right; left|right; right|left]; repeat split; try reflexivity;
      intros E; discriminate E.
  - (* EInterval *)
    cbn [frag] in Ha, Hb. rewrite andb_true_iff in Ha, Hb. destruct Ha as [Ha1 Ha2], Hb as [Hb1 Hb2].
    apply numlit_frag in Ha1, Ha2, Hb1, Hb2. cbv zeta.
    destruct lo, lo0, ro, ro0; cbn [andb negb];
      try (right; left; repeat split; auto; intros E'; inversion E'; fail);
      try (right; right; repeat split; auto; intros E'; inversion E'; fail);
      (destruct (IH a1 b1 Ha1 Hb1) as [[E [H1 H2]]|[[E [H1 H2]]|[E [H1 H2]]]]; [lia| | |];
       rewrite H1, H2; cbn [Z.eqb];
       [ subst b1; eapply Tri_iff; [|apply IH; [apply Ha2|apply Hb2|lia]];
         split; [intros ->; reflexivity|intros E; inversion E; reflexivity]
       | right; left; repeat split; auto; intros E'; inversion E'; auto
       | right; right; repeat split; auto; intros E'; inversion E'; auto ]).
  - (* EAtom *)
    apply N.eqb_eq in Hc. subst code0. left. auto.
Qed.

(* ---------- RCPBasicKeyLess ---------- *)
Theorem keyless_irrefl : forall a, frag a = true -> expr_keyless a a = false.
Proof.
  intros a Ha. unfold expr_keyless, keyless. rewrite N.eqb_refl. cbn [negb].
  unfold expr_eqb. rewrite eqb_refl; auto.
Qed.

Theorem keyless_equiv_eq : forall a b, frag a = true -> frag b = true ->
  expr_keyless a b = false -> expr_keyless b a = false -> a = b.
Proof.
  intros a b Ha Hb H1 H2. unfold expr_keyless, keyless in H1, H2.
  destruct (hash a =? hash b) eqn:Hh.
  2:{ assert ((hash b =? hash a) = false) by (rewrite N.eqb_sym; assumption).
      rewrite H in H2. cbn [negb] in H1, H2. apply N.eqb_neq in Hh. lia. }
  assert (Hh' : (hash b =? hash a) = true) by (rewrite N.eqb_sym; assumption).
  rewrite Hh' in H2. cbn [negb] in H1, H2.
  destruct (expr_eqb a b) eqn:E1; [apply expr_eqb_true; auto|].
  destruct (expr_eqb b a) eqn:E2; [symmetry; apply expr_eqb_true; auto|].
  unfold expr_cmp in H1, H2. rewrite (Nat.add_comm (size b) (size a)) in H2.
  destruct (cmp_tri (size a + size b) a b Ha Hb) as [[E _]|[[_ [H _]]|[_ [_ H]]]]; [lia|auto| |].
  - rewrite H in H1. discriminate.
  - rewrite H in H2. discriminate.
Qed.

Lemma keyless_equiv_true : forall a b, frag a = true -> frag b = true ->
  keyless_equiv a b = true -> a = b.
Proof.
  unfold keyless_equiv. intros a b Ha Hb H. rewrite andb_true_iff, !negb_true_iff in H.
  destruct H. apply keyless_equiv_eq; auto.
Qed.

Lemma keyless_equiv_refl : forall a, frag a = true -> keyless_equiv a a = true.
Proof. intros. unfold keyless_equiv. rewrite keyless_irrefl; auto. Qed.
