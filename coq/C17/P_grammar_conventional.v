(* C17 obligation: every tree the reference parser (precedence climbing over the left/right
   precedence table read from parser.yy) returns for an accepted token list is the derivation of
   those tokens from the start symbol E_0 of the stratified conventional grammar of
   Parse/ParseSpec.v (expr, term, factor, power, atom: plus, minus, times, divide left-associative;
   power right-associative with an atom as base; unary signs between times/divide and power). *)
From SE Require Import Parse.ParseSpec Parse.ParseSound.
Theorem C17_grammar_conventional : forall ts t,
  parse_tokens ts = TopOk t -> exists pre, ts = pre ++ [TEnd] /\ G 0 pre t.
Proof. exact grammar_conventional. Qed.
Print Assumptions C17_grammar_conventional.
