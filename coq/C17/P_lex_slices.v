(* C17 obligation: every token is a slice of the input starting at the cursor, non-empty unless it
   is END_OF_FILE: the lexer skips nothing but white space. *)
From SE Require Import Parse.Lexer Parse.LexProofs.
Theorem C17_lex_slices : forall bs t r,
  lex_one bs = (t, r) -> exists txt, bs = txt ++ r /\ (t <> TEnd -> txt <> []).
Proof. exact lex_one_split. Qed.
Print Assumptions C17_lex_slices.
