(* C17 obligation: the conventional grammar is unambiguous (the tree is a function of the token
   list), and it is a sub-grammar of the one the soundness theorem speaks about. *)
From SE Require Import Parse.ParseSpec Parse.ParseComplete.
Theorem C17_grammar_unambiguous :
  (forall pre t1 t2, Gp 0 pre t1 -> Gp 0 pre t2 -> t1 = t2) /\
  (forall k ts t, Gp k ts t -> G k ts t).
Proof. split; [exact grammar_unambiguous|exact (proj1 Gp_sub)]. Qed.
Print Assumptions C17_grammar_unambiguous.
