(* C17 obligation: every other literal (decimal point, exponent) is read as a float. *)
From SE Require Import Parse.ParseModel Parse.NumericProofs.
Theorem C17_parse_numeric_float : forall s,
  forallb is_dig s = false -> parse_numeric s = NumFloat s.
Proof. exact parse_numeric_float. Qed.
Print Assumptions C17_parse_numeric_float.
