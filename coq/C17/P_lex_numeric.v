(* C17 obligation: what the lexer model takes as a numeric token is a non-empty prefix of the input
   matching (dig* "."? dig+ ([eE][-+]?dig+)?) | (dig+ "."). *)
From SE Require Import Parse.Lexer Parse.LexProofs.
Theorem C17_lex_numeric : forall bs n r,
  scan_numeric bs = Some (n, r) -> bs = n ++ r /\ n <> [] /\ is_numeric n.
Proof. exact scan_numeric_sound. Qed.
Print Assumptions C17_lex_numeric.
