(* C17 obligation: completeness.  Every token list derived from the start symbol of the
   conventional grammar (ParseComplete.Gp: the grammar of ParseSpec.v without the prefix operator
   for logical negation) and followed by END_OF_FILE is accepted by the reference parser, with
   exactly the tree of the derivation. *)
From SE Require Import Parse.ParseSpec Parse.ParseComplete.
Theorem C17_grammar_complete : forall pre t,
  Gp 0 pre t -> parse_tokens (pre ++ [TEnd]) = TopOk t.
Proof. exact grammar_complete. Qed.
Print Assumptions C17_grammar_complete.
