(* C17 obligation: a literal consisting of decimal digits denotes its base-10 value, whatever its
   leading zeros and its size (strtol's base is read from parser.cpp: fails for base 0). *)
From SE Require Import Parse.ParseModel Parse.NumericProofs.
Theorem C17_parse_numeric_decimal : forall ds,
  ds <> [] -> forallb is_dig ds = true -> parse_numeric ds = NumInt (decimal_value ds).
Proof. exact parse_numeric_decimal. Qed.
Print Assumptions C17_parse_numeric_decimal.
