(* C17: the theorems apply to non-trivial inputs. *)
From SE Require Import Parse.ParseSpec Parse.NumericProofs.
Local Open Scope N_scope.
(* -a**b*2x**3 + c/d/e  parses to  ((-(a**b)) * (2x**3)) + ((c/d)/e) *)
Example C17_nonvacuous_tree :
  parse_syntax (b "-a**b*2x**3 + c/d/e") true =
  TopOk (PBin BAdd (PBin BMul (PNeg (PBin BPow (PIdent (b "a")) (PIdent (b "b"))))
                              (PImplPow (b "2x") (PNum (b "3"))))
                   (PBin BDiv (PBin BDiv (PIdent (b "c")) (PIdent (b "d"))) (PIdent (b "e")))).
Proof. vm_compute. reflexivity. Qed.
Example C17_nonvacuous_right_assoc :
  parse_syntax (b "a^b^c") true =
  TopOk (PBin BPow (PIdent (b "a")) (PBin BPow (PIdent (b "b")) (PIdent (b "c")))).
Proof. vm_compute. reflexivity. Qed.
Example C17_nonvacuous_numeric :
  parse_numeric (b "010") = NumInt 10 /\ parse_numeric (b "08") = NumInt 8 /\
  parse_numeric (b "0777777777777777777777777") = NumInt 777777777777777777777777 /\
  parse_numeric (b "1e3") = NumFloat (b "1e3") /\ parse_numeric (b "5.") = NumFloat (b "5.").
Proof. vm_compute. repeat split; reflexivity. Qed.
Example C17_nonvacuous_lex :
  lex (b "1e5 1e5x 1.e5 2e x**y") =
  Some [TNum (b "1e5"); TImpl (b "1e5x"); TImpl (b "1.e5"); TImpl (b "2e"); TIdent (b "x"); TPow;
        TIdent (b "y"); TEnd].
Proof. vm_compute. reflexivity. Qed.
