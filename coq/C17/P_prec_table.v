(* C17 obligation: the precedence declarations read from parser.yy (Gen_Prec.prec_table) are the
   conventional ones written down by hand in Parse/ParseSpec.v: levels and associativity of the
   binary operators, and the levels of the three prefix operators. *)
From SE Require Import Parse.ParseSpec Parse.ParseProofs.
Local Open Scope N_scope.
Theorem C17_prec_table :
  (forall op, prec_of (tk_of_binop op) = Some (conv_level op, conv_assoc op)) /\
  lvl K_UMINUS = 11 /\ lvl K_UPLUS = 12 /\ lvl K_POW = 13 /\ lvl K_NOT = 14.
Proof.
  split; [exact prec_conv|].
  split; [exact lvl_uminus|]. split; [exact lvl_uplus|]. split; [exact lvl_pow|exact lvl_not].
Qed.
Print Assumptions C17_prec_table.
