(* C17 obligation: a sub-expression parsed at minimal precedence p is a derivation of the consumed
   tokens at level p (E_p for p <= 10, factor for 11..13, a prefix-or-atom form above), and the
   parser stops only in front of a token that is not a binary operator of precedence >= p. *)
From SE Require Import Parse.ParseSpec Parse.ParseSound.
Local Open Scope N_scope.
Theorem C17_maximal_munch : forall fuel p ts t r,
  pexpr fuel p ts = Ok (t, r) ->
  (exists pre, ts = pre ++ r /\ GL p pre t) /\ next_binop p r = None.
Proof. exact pexpr_sound. Qed.
Print Assumptions C17_maximal_munch.
