(* C21 obligation: rational coefficients: from_vec yields canonical dictionaries (strictly increasing keys, no zero value) whose coefficients are the list's; every canonical dictionary is from_vec of its dense coefficient list; dictionaries are determined by their coefficients (so equality of dictionaries is equality of polynomials) *)
From SE Require Import Base.Prelude C21.PolyModel C21.PolySpec C21.PolyProofs.
From Coq Require Import QArith Qcanon.
Theorem C21_repr_rat :
  (forall p, qwf (qfrom_vec p)) /\
  (forall p k, qcoeff (qfrom_vec p) k = qscoeff p k) /\
  (forall d, qwf d -> qfrom_vec (qdense d) = d) /\
  (forall p q, qpeq p q -> qfrom_vec p = qfrom_vec q) /\
  (forall a b, qwf a -> qwf b -> (forall k, qcoeff a k = qcoeff b k) -> a = b).
Proof. exact q_repr. Qed.
Print Assumptions C21_repr_rat.
