(* C21: the hypotheses of the theorems are met by concrete non-trivial inputs, and the model
   computes the expected results on them (evaluated by the kernel). *)
From SE Require Import Base.Prelude C21.PolyModel C21.PolySpec C21.PolyProofs C21.PolyFitsZ C21.PolyFitsZ2.
From Coq Require Import QArith Qcanon.
Local Open Scope Z_scope.
(* the polynomial on which the unrepaired bit budget failed: (7 + 7x + ... + 7x^6)^2 *)
Example C21_kronecker_example :
  let p := [7;7;7;7;7;7;7] in
  fits_u32 (zfrom_vec p) (zfrom_vec p) = true /\
  kmul (zfrom_vec p) (zfrom_vec p) = Ok (zfrom_vec [49;98;147;196;245;294;343;294;245;196;147;98;49]) /\
  zsmul p p = [49;98;147;196;245;294;343;294;245;196;147;98;49].
Proof. vm_compute. repeat split. Qed.
(* negative value, carries through the digits, gaps *)
Example C21_kronecker_example2 :
  let p := [255;-255;0;255] in let q := [-255;255] in
  fits_u32 (zfrom_vec p) (zfrom_vec q) = true /\
  kmul (zfrom_vec p) (zfrom_vec q) = Ok (zfrom_vec (zsmul p q)) /\ zfrom_vec (zsmul p q) <> [].
Proof. vm_compute. repeat split; discriminate. Qed.
Example C21_pow_example :
  zpow_fits (zfrom_vec [1;-1]) 5 = true /\ zpow (zfrom_vec [1;-1]) 5 = Ok (zfrom_vec [1;-5;10;-10;5;-1]) /\
  zpow_fits (zfrom_vec [1;1]) 0 = true /\ zpow (zfrom_vec []) 3 = Ok [] /\ zpow_fits (zfrom_vec []) 3 = true.
Proof. vm_compute. repeat split. Qed.
(* the division on which the unrepaired loop condition failed: x^2+x+1 divides x^3-1 *)
Example C21_divides_example :
  zdivides_fits (zfrom_vec [1;1;1]) (zfrom_vec [-1;0;0;1]) = true /\
  zdivides (zfrom_vec [1;1;1]) (zfrom_vec [-1;0;0;1]) = Ok (Some (zfrom_vec [-1;1])) /\
  zdivides_fits (zfrom_vec [0;0;0;0;0;1]) (zfrom_vec [0;1]) = true /\
  zdivides (zfrom_vec [0;0;0;0;0;1]) (zfrom_vec [0;1]) = Ok None /\
  zdivides (zfrom_vec [2]) (zfrom_vec [0;1]) = Ok None.
Proof. vm_compute. repeat split. Qed.
Example C21_rat_example :
  let h := Q2Qc (1 # 2) in
  qpow_fits (qfrom_vec [h; q1]) 2 = true /\
  qpow (qfrom_vec [h; q1]) 2 = Ok (qfrom_vec [Q2Qc (1 # 4); q1; q1]) /\
  qdivides_fits (qfrom_vec [h; q1]) (qfrom_vec [Q2Qc (1 # 4); q1; q1]) = true /\
  qdivides (qfrom_vec [h; q1]) (qfrom_vec [Q2Qc (1 # 4); q1; q1]) = Ok (Some (qfrom_vec [h; q1])).
Proof. vm_compute. repeat split. Qed.
(* the simple conditions of P_pow_int_simple / P_divides_int_simple hold on ordinary inputs *)
Example C21_simple_conditions_example :
  let p := [3;-5;0;1000000007] in let b := [-1;0;0;1] in
  max_abs_coef (zfrom_vec p) = Ok 1000000007 /\
  ((1000 * degree (zfrom_vec p) <? W32) &&
   (1000 * (N.size (degree (zfrom_vec p) + 1) + N.size (Z.to_N 1000000007)) + 36 <? W32))%N = true /\
  max_abs_coef (zfrom_vec [1;1;1]) = Ok 1 /\ max_abs_coef (zfrom_vec b) = Ok 1 /\
  ((degree (zfrom_vec b) <? W32) &&
   ((degree (zfrom_vec b) + 1) * N.size (Z.to_N (1 + 1)) + N.size (Z.to_N 1) + N.size (Z.to_N 1) + 36 <? W32))%N = true.
Proof. vm_compute. repeat split. Qed.
Print Assumptions C21_kronecker_example.
