(* C21 obligation: the `while (p != 1)` loop of ODictWrapper::pow (after the p == 0 exit) and the division loop of divides_upoly never exhaust their fuel, whatever the multiplier answers *)
From SE Require Import Base.Prelude C21.PolyModel C21.PolySpec C21.PolyProofs.
Local Open Scope Z_scope.
Theorem C21_loops_terminate :
  (forall m, (forall x y, m x y <> ErrFuel) -> forall a n, pow Z 1 m a n <> ErrFuel) /\
  (forall pa pb, zfrom_vec pa <> [] -> (degree (zfrom_vec pb) < W32)%N ->
     divides Z 0 Z.sub Z.opp Z.eqb zdivx zgmul_chk (zfrom_vec pa) (zfrom_vec pb) <> ErrFuel).
Proof. exact z_loops_terminate. Qed.
Print Assumptions C21_loops_terminate.
