(* C21 obligation: integer coefficients: degree() is the largest exponent with a non-zero coefficient (0 for the zero polynomial) and get_lc() is that coefficient *)
From SE Require Import Base.Prelude C21.PolyModel C21.PolySpec C21.PolyProofs.
Local Open Scope Z_scope.
Theorem C21_degree_lc_int :
  forall p, is_degree Z 0 p (degree (zfrom_vec p)) /\
            zlc (zfrom_vec p) = zscoeff p (degree (zfrom_vec p)).
Proof. exact z_degree_lc. Qed.
Print Assumptions C21_degree_lc_int.
