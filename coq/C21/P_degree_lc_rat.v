(* C21 obligation: rational coefficients: degree() is the largest exponent with a non-zero coefficient (0 for the zero polynomial) and get_lc() is that coefficient *)
From SE Require Import Base.Prelude C21.PolyModel C21.PolySpec C21.PolyProofs.
From Coq Require Import QArith Qcanon.
Theorem C21_degree_lc_rat :
  forall p, is_degree Qc q0 p (degree (qfrom_vec p)) /\
            qlc (qfrom_vec p) = qscoeff p (degree (qfrom_vec p)).
Proof. exact q_degree_lc. Qed.
Print Assumptions C21_degree_lc_rat.
