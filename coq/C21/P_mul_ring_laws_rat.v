(* C21 obligation: mul_upoly on URatPoly is commutative and associative AS REPRESENTATIONS: for
   all canonical dictionaries whose degrees stay within the 32-bit exponent type, a*b and b*a,
   and (a*b)*c and a*(b*c), are the same dictionary. *)
From SE Require Import Base.Prelude C21.PolyModel C21.PolySpec C21.PolyProofs C21.PolyRingQ.
From Coq Require Import QArith Qcanon.
Local Open Scope N_scope.
Theorem C21_mul_comm_structural_rat : forall a b,
  qwf a -> qwf b -> degree a + degree b < W32 -> qimul a b = qimul b a.
Proof. exact q_mul_comm_structural. Qed.
Print Assumptions C21_mul_comm_structural_rat.
Theorem C21_mul_assoc_structural_rat : forall a b c ab bc,
  qwf a -> qwf b -> qwf c ->
  degree a + degree b < W32 -> degree b + degree c < W32 ->
  qimul a b = Ok ab -> qimul b c = Ok bc ->
  degree ab + degree c < W32 -> degree a + degree bc < W32 ->
  qimul ab c = qimul a bc.
Proof. exact q_mul_assoc_structural. Qed.
Print Assumptions C21_mul_assoc_structural_rat.
