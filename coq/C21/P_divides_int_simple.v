(* C21 obligation: integer coefficients: divides_upoly(a, b) (long division over UIntDict::mul) terminates, answers true with quotient d exactly when b = a * d and false exactly when no such integer polynomial exists, and returns exactly Q when b = a * Q -- for ALL non-zero a, b with deg b < 2^32 and (deg b + 1) * bit_length(max|a_i| + 1) + bit_length(max|a_i|) + bit_length(max|b_i|) + 36 < 2^32 (then every Kronecker product formed respects the unsigned-int limits); for b = 0 the answer is true with quotient 0 unless a = 0 *)
From SE Require Import Base.Prelude C21.PolyModel C21.PolySpec C21.PolyFitsZ2.
Local Open Scope Z_scope.
Theorem C21_divides_int_simple :
  (forall (pa pb : list Z) A B,
    max_abs_coef (zfrom_vec pa) = Ok A -> max_abs_coef (zfrom_vec pb) = Ok B ->
    (degree (zfrom_vec pb) < W32)%N ->
    ((degree (zfrom_vec pb) + 1) * N.size (Z.to_N (A + 1)) + N.size (Z.to_N A) + N.size (Z.to_N B) + 36 < W32)%N ->
    exists r, zdivides (zfrom_vec pa) (zfrom_vec pb) = Ok r /\
      match r with
      | Some d => exists D, d = zfrom_vec D /\ zpeq pb (zsmul pa D)
      | None => ~ exists D, zpeq pb (zsmul pa D)
      end) /\
  (forall (pa pb Q : list Z) A B,
    max_abs_coef (zfrom_vec pa) = Ok A -> max_abs_coef (zfrom_vec pb) = Ok B ->
    (degree (zfrom_vec pb) < W32)%N ->
    ((degree (zfrom_vec pb) + 1) * N.size (Z.to_N (A + 1)) + N.size (Z.to_N A) + N.size (Z.to_N B) + 36 < W32)%N ->
    zpeq pb (zsmul pa Q) ->
    zdivides (zfrom_vec pa) (zfrom_vec pb) = Ok (Some (zfrom_vec Q))) /\
  (forall pa pb : list Z, zfrom_vec pb = [] ->
    zdivides (zfrom_vec pa) (zfrom_vec pb) = Ok (if is_empty (zfrom_vec pa) then None else Some [])).
Proof. split; [|split]. exact z_divides_simple. exact z_divides_complete_simple. exact z_divides_zero. Qed.
Print Assumptions C21_divides_int_simple.
