(* C21 obligation: integer coefficients: pow_upoly(a, n) (square-and-multiply over UIntDict::mul) is the n-fold schoolbook product for the zero polynomial with ANY exponent, and for ALL non-zero coefficient lists and ALL exponents (including 0) with n * deg a < 2^32 and n * (bit_length(deg a + 1) + bit_length(max|a_i|)) + 36 < 2^32 (then every Kronecker product formed respects the unsigned-int limits) *)
From SE Require Import Base.Prelude C21.PolyModel C21.PolySpec C21.PolyFitsZ.
Local Open Scope Z_scope.
Theorem C21_pow_int_simple :
  (forall (p : list Z) (n : N), zfrom_vec p = [] ->
     zpow (zfrom_vec p) n = Ok (zfrom_vec (zspow p n))) /\
  (forall (p : list Z) (n : N) A,
    max_abs_coef (zfrom_vec p) = Ok A ->
    (n * degree (zfrom_vec p) < W32)%N ->
    (n * (N.size (degree (zfrom_vec p) + 1) + N.size (Z.to_N A)) + 36 < W32)%N ->
    zpow (zfrom_vec p) n = Ok (zfrom_vec (zspow p n))).
Proof. split. exact z_pow_zero_poly. exact z_pow_simple. Qed.
Print Assumptions C21_pow_int_simple.
