(* C21 -- when the exponents are the only representation limit (ODictWrapper::mul, e.g. rational
   coefficients), the runs of pow and divides_upoly stay inside it under simple conditions:
   n * deg a < 2^32 for pow(a, n), deg b < 2^32 for divides(a, b). *)
From SE Require Import Base.Prelude C21.PolyModel C21.PolySpec C21.PolyList C21.PolyDict.
From Coq Require Import Ring Lia ZifyBool ZifyNat ZifyN.
Local Open Scope N_scope.

Section Fits.
  Variable C : Type.
  Variables (c0 c1 : C) (cadd cmul csub : C -> C -> C) (copp : C -> C).
  Variable ceqb : C -> C -> bool.
  Variable cofN : N -> C.
  Variable cdivx : C -> C -> option C.
  Hypothesis Crt : ring_theory c0 c1 cadd cmul csub copp eq.
  Hypothesis ceqb_spec : forall x y, ceqb x y = true <-> x = y.
  Hypothesis Cintegral : forall x y, cmul x y = c0 -> x = c0 \/ y = c0.
  Hypothesis c1_nz : c1 <> c0.
  Hypothesis cdivx_spec : forall x y q, y <> c0 -> (cdivx x y = Some q <-> x = cmul q y).

  Local Notation dict := (list (N * C)).
  Local Notation fv := (from_vec C c0 ceqb).
  Local Notation smul := (smul C c0 cadd cmul).
  Local Notation spow_nat := (spow_nat C c0 c1 cadd cmul).
  Local Notation gmul := (gmul C c0 cadd cmul ceqb).
  Local Notation peq := (@peq C c0).

  Ltac gi := try exact Crt; try exact ceqb_spec; try exact Cintegral; try exact c1_nz;
             try exact cdivx_spec; try exact cofN; try exact cdivx.

  (* ODictWrapper::mul with the exponent check made observable *)
  Definition gchk (a b : dict) : res dict :=
    if degree a + degree b <? W32 then Ok (gmul a b) else ErrExn EXN_LIMIT.

  Lemma gchk_sound : mul_sound C c0 cadd cmul ceqb gchk.
  Proof.
    intros p q r H. unfold gchk in H. destruct (degree (fv p) + degree (fv q) <? W32) eqn:F; [|discriminate H].
    inversion H; subst r. eapply gmul_correct; gi. lia.
  Qed.

  Lemma gchk_ok : forall p q, degree (fv p) + degree (fv q) < W32 -> gchk (fv p) (fv q) = Ok (fv (smul p q)).
  Proof.
    intros p q H. unfold gchk. replace (degree (fv p) + degree (fv q) <? W32) with true by lia.
    f_equal. eapply gmul_correct; gi. exact H.
  Qed.

  Lemma sc_above : forall p k, degree (fv p) < k -> scoeff C c0 p k = c0.
  Proof. intros. eapply degree_above_zero; gi. assumption. Qed.

  Lemma degree_smul_le : forall p q, degree (fv (smul p q)) <= degree (fv p) + degree (fv q).
  Proof.
    intros p q. destruct (fv (smul p q)) as [|kv d] eqn:E. cbn. lia. rewrite <- E.
    destruct (N.le_gt_cases (degree (fv (smul p q))) (degree (fv p) + degree (fv q))) as [L|L]. exact L.
    exfalso.
    assert (Hne : fv (smul p q) <> []) by (rewrite E; discriminate).
    eapply (degree_top_nonzero C c0 c1 cadd cmul csub copp ceqb); gi. exact Hne.
    unfold scoeff.
    apply (smul_support C c0 c1 cadd cmul csub copp Crt p q
             (S (N.to_nat (degree (fv p)))) (S (N.to_nat (degree (fv q))))).
    - intros k Hk. pose proof (sc_above p (N.of_nat k)) as H. unfold scoeff in H.
      rewrite Nat2N.id in H. apply H. lia.
    - intros k Hk. pose proof (sc_above q (N.of_nat k)) as H. unfold scoeff in H.
      rewrite Nat2N.id in H. apply H. lia.
    - lia.
  Qed.

  Lemma fv_one : fv [c1] = [(0, c1)].
  Proof. symmetry. eapply one_dict_from_vec; gi. Qed.

  Lemma degree_spow_le : forall p t, degree (fv (spow_nat p t)) <= N.of_nat t * degree (fv p).
  Proof.
    intros p t. induction t as [|t IH]; cbn [PolySpec.spow_nat].
    - rewrite fv_one. cbn. lia.
    - pose proof (degree_smul_le p (spow_nat p t)). lia.
  Qed.

  Lemma fv_spow_add : forall p a b, fv (smul (spow_nat p a) (spow_nat p b)) = fv (spow_nat p (a + b)).
  Proof.
    intros. eapply from_vec_peq; gi. apply (peq_sym C c0).
    apply (spow_nat_add C c0 c1 cadd cmul csub copp Crt).
  Qed.

  Lemma pow_loop_ok : forall fuel p (t r : nat) pc,
    1 <= pc -> pc < 2 ^ N.of_nat fuel ->
    (N.of_nat t * pc + N.of_nat r) * degree (fv p) < W32 ->
    exists out, pow_loop C gchk fuel (fv (spow_nat p t)) (fv (spow_nat p r)) pc = Ok out.
  Proof.
    induction fuel as [|f IH]; intros p t r pc H1 H2 Hd; cbn [pow_loop].
    - cbn in H2. replace (pc =? 1) with true by lia. eauto.
    - destruct (pc =? 1) eqn:E1. eauto.
      assert (Hhalf : 1 <= pc / 2 /\ pc / 2 < 2 ^ N.of_nat f).
      { rewrite Nat2N.inj_succ, N.pow_succ_r' in H2. split.
        - apply N.div_le_lower_bound; lia.
        - apply N.div_lt_upper_bound; lia. }
      pose proof (degree_spow_le p t) as Dt. pose proof (degree_spow_le p r) as Dr.
      set (d := degree (fv p)) in *.
      assert (Hsq : gchk (fv (spow_nat p t)) (fv (spow_nat p t)) = Ok (fv (spow_nat p (t + t)))).
      { rewrite gchk_ok. rewrite fv_spow_add. reflexivity. nia. }
      destruct (N.even pc) eqn:Ev.
      + rewrite Hsq. cbn [bind]. apply IH; try apply Hhalf.
        apply N.even_spec in Ev. destruct Ev as [h Eh].
        assert (Hdiv : pc / 2 = h).
        { subst pc. rewrite (N.mul_comm 2 h). apply N.div_mul. lia. }
        rewrite Hdiv. nia.
      + assert (Hodd : N.odd pc = true) by (rewrite <- N.negb_even, Ev; reflexivity).
        apply N.odd_spec in Hodd. destruct Hodd as [h Eh].
        assert (Hdiv : pc / 2 = h).
        { subst pc. rewrite N.add_comm, N.mul_comm. rewrite N.div_add by lia. cbn. lia. }
        assert (Hrt : gchk (fv (spow_nat p r)) (fv (spow_nat p t)) = Ok (fv (spow_nat p (r + t)))).
        { rewrite gchk_ok. rewrite fv_spow_add. reflexivity. nia. }
        rewrite Hrt. cbn [bind]. rewrite Hsq. cbn [bind]. apply IH; try apply Hhalf.
        rewrite Hdiv. nia.
  Qed.

  (* THEOREM: pow(a, n) stays inside the exponent range when n * deg a < 2^32 *)
  Theorem pow_ok : forall p n, n * degree (fv p) < W32 ->
    pow C c1 gchk (fv p) n = Ok (fv (spow C c0 c1 cadd cmul p n)).
  Proof.
    intros p n H.
    assert (Hex : exists out, pow C c1 gchk (fv p) n = Ok out).
    { unfold pow. destruct (n =? 0) eqn:E0. eauto.
      assert (E1 : fv p = fv (spow_nat p 1)).
      { eapply from_vec_peq; gi. apply (peq_sym C c0). eapply spow_nat_1; gi. }
      assert (E0' : one_dict C c1 = fv (spow_nat p 0)) by (symmetry; apply fv_one).
      rewrite E1, E0'.
      destruct (pow_loop_ok (S (N.to_nat (N.size n))) p 1 0 n) as [tr Htr].
      lia. rewrite Nat2N.inj_succ, N2Nat.id, N.pow_succ_r'. pose proof (N.size_gt n). lia.
      change (N.of_nat 1) with 1. change (N.of_nat 0) with 0. nia.
      rewrite Htr. cbn [bind].
      assert (Hc : exists t' r', fst tr = fv (spow_nat p t') /\ snd tr = fv (spow_nat p r')
                                 /\ (t' + r' = 1 * N.to_nat n + 0)%nat).
      { eapply pow_loop_correct; gi. apply gchk_sound. 2: exact Htr. lia. }
      destruct Hc as [t' [r' [H1 [H2 H3]]]].
      rewrite H1, H2. rewrite gchk_ok. eauto.
      pose proof (degree_spow_le p t'). pose proof (degree_spow_le p r'). nia. }
    destruct Hex as [out Hout]. rewrite Hout. f_equal.
    eapply pow_sound; gi. apply gchk_sound. exact Hout.
  Qed.

  (* divides_upoly: every product formed has the degree of the current remainder *)
  Section Div.
    Variable pa : list C.
    Hypothesis pa_ne : fv pa <> [].

    Lemma div_loop_ok : forall fuel pc (rq : dict), degree (fv pc) < W32 ->
      (fv pc <> [] -> (N.to_nat (degree (fv pc)) < fuel)%nat) ->
      exists out, div_loop C c0 csub copp ceqb cdivx gchk fuel (fv pa) (fv pc) rq = Ok out.
    Proof.
      induction fuel as [|f IH]; intros pc rq Hw Hf; cbn [PolyModel.div_loop];
        destruct (div_continue C (fv pa) (fv pc)) eqn:Ec; cbn [negb]; eauto.
      - exfalso. eapply div_continue_true in Ec; gi. destruct Ec as [Hne _]. specialize (Hf Hne). lia.
      - pose proof Ec as Ec'. eapply div_continue_true in Ec'; gi. destruct Ec' as [Hne Hd].
        destruct (cdivx (get_lc C c0 (fv pc)) (get_lc C c0 (fv pa))) as [q|] eqn:Eq; eauto.
        destruct (div_step C c0 c1 cadd cmul csub copp ceqb cofN Crt ceqb_spec Cintegral cdivx cdivx_spec
                    pa pa_ne pc q Hne Hd Hw Eq) as [Ek [Hqn [Ecl Hdec]]].
        rewrite Ecl.
        set (k := usub (degree (fv pc)) (degree (fv pa))) in *.
        assert (Hdk : degree (fv (mono C c0 (N.to_nat k) q)) = k).
        { erewrite from_vec_mono; gi. rewrite N2Nat.id. reflexivity. exact Hqn. }
        rewrite gchk_ok by (rewrite Hdk; lia). cbn [bind].
        erewrite dict_sub_correct; gi. apply IH.
        + destruct Hdec as [E|L]. rewrite E. cbn. unfold W32. lia. lia.
        + intro Hne1. destruct Hdec as [E|L]. congruence. specialize (Hf Hne). lia.
    Qed.

    Theorem divides_ok : forall pb, degree (fv pb) < W32 ->
      exists r, divides C c0 csub copp ceqb cdivx gchk (fv pa) (fv pb) = Ok r.
    Proof.
      intros pb Hw. unfold divides. destruct (is_empty (fv pa)). eauto.
      destruct (div_loop_ok (S (S (N.to_nat (degree (fv pb))))) pb [] Hw ltac:(intros _; lia)) as [o Ho].
      rewrite Ho. cbn [bind]. destruct o as [[b' rq']|]; eauto. destruct (is_empty b'); eauto.
    Qed.
  End Div.
End Fits.
