(* C21 obligation: mul_upoly on UIntPoly (operator*= : empty operands, a constant second operand, else UIntDict::mul) is the schoolbook product *)
From SE Require Import Base.Prelude C21.PolyModel C21.PolySpec C21.PolyProofs.
Local Open Scope Z_scope.
Theorem C21_mul_upoly_int :
  forall p q : list Z,
    fits_u32 (zfrom_vec p) (zfrom_vec q) = true ->
    zimul (zfrom_vec p) (zfrom_vec q) = Ok (zfrom_vec (zsmul p q)).
Proof. exact z_mul_upoly. Qed.
Print Assumptions C21_mul_upoly_int.
