(* C21 obligation: rational coefficients: ODictWrapper::mul is the schoolbook product for ALL coefficient lists whose degrees sum below 2^32 (the exponent type is unsigned int) *)
From SE Require Import Base.Prelude C21.PolyModel C21.PolySpec C21.PolyProofs.
From Coq Require Import QArith Qcanon.
Theorem C21_mul_generic_rat :
  forall p q, (degree (qfrom_vec p) + degree (qfrom_vec q) < W32)%N ->
    qgmul (qfrom_vec p) (qfrom_vec q) = qfrom_vec (qsmul p q).
Proof. exact q_gmul. Qed.
Print Assumptions C21_mul_generic_rat.
