(* C21 obligation: rational coefficients: pow_upoly(a, n) is the n-fold schoolbook product for every exponent n including 0 and every polynomial including 0, whenever no product formed on the way leaves the unsigned-int limits (qpow_fits: the same run with a multiplication that checks them succeeds) *)
From SE Require Import Base.Prelude C21.PolyModel C21.PolySpec C21.PolyProofs.
From Coq Require Import QArith Qcanon.
Theorem C21_pow_rat :
  forall p n, qpow_fits (qfrom_vec p) n = true ->
    qpow (qfrom_vec p) n = Ok (qfrom_vec (qspow p n)).
Proof. exact q_pow. Qed.
Print Assumptions C21_pow_rat.
