(* C21 obligation: integer coefficients: eval is the value of the polynomial (Horner) and diff_upoly its derivative, for ALL coefficient lists *)
From SE Require Import Base.Prelude C21.PolyModel C21.PolySpec C21.PolyProofs.
Local Open Scope Z_scope.
Theorem C21_eval_diff_int :
  forall p x, zeval (zfrom_vec p) x = zseval p x /\
              zdiff (zfrom_vec p) = zfrom_vec (zsdiff p).
Proof. exact z_eval_diff. Qed.
Print Assumptions C21_eval_diff_int.
