(* C21 obligation: rational coefficients: divides_upoly(a, b) terminates and answers true with quotient d exactly when b = a * d for a polynomial d (never for a = 0), false exactly when there is none *)
From SE Require Import Base.Prelude C21.PolyModel C21.PolySpec C21.PolyProofs.
From Coq Require Import QArith Qcanon.
Theorem C21_divides_rat :
  forall pa pb,
    qdivides_fits (qfrom_vec pa) (qfrom_vec pb) = true -> (degree (qfrom_vec pb) < W32)%N ->
    exists r, qdivides (qfrom_vec pa) (qfrom_vec pb) = Ok r /\
      match r with
      | Some d => qfrom_vec pa <> [] /\ exists D, d = qfrom_vec D /\ qpeq pb (qsmul pa D)
      | None => qfrom_vec pa = [] \/ ~ exists D, qpeq pb (qsmul pa D)
      end.
Proof. exact q_divides. Qed.
Print Assumptions C21_divides_rat.
