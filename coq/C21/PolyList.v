(* C21 -- algebra of coefficient lists: the schoolbook operations of PolySpec.v form a
   commutative ring up to [peq]; evaluation is a ring homomorphism. *)
From SE Require Import Base.Prelude C21.PolyModel C21.PolySpec.
From Coq Require Import Ring Lia.

Section ListAlg.
  Variable C : Type.
  Variables (c0 c1 : C) (cadd cmul csub : C -> C -> C) (copp : C -> C).
  Hypothesis Crt : ring_theory c0 c1 cadd cmul csub copp eq.
  Add Ring CRing : Crt.

  Local Notation "a ⊕ b" := (cadd a b) (at level 50, left associativity).
  Local Notation "a ⊗ b" := (cmul a b) (at level 40, left associativity).
  Local Notation sadd := (sadd C cadd).
  Local Notation sneg := (sneg C copp).
  Local Notation sscale := (sscale C cmul).
  Local Notation smul := (smul C c0 cadd cmul).
  Local Notation seval := (seval C c0 cadd cmul).
  Local Notation spow_nat := (spow_nat C c0 c1 cadd cmul).
  Local Notation peq := (@peq C c0).
  Local Notation cf p k := (nth k p c0).

  Lemma nth_nil : forall k : nat, cf (@nil C) k = c0.
  Proof. destruct k; reflexivity. Qed.

  Lemma nth_sadd : forall p q k, cf (sadd p q) k = cf p k ⊕ cf q k.
  Proof.
    induction p as [|a p IH]; intros q k.
    - cbn [PolySpec.sadd]. rewrite nth_nil. ring.
    - destruct q as [|b q].
      + cbn [PolySpec.sadd]. rewrite nth_nil. ring.
      + cbn [PolySpec.sadd]. destruct k; cbn [nth]. reflexivity. apply IH.
  Qed.

  Lemma nth_sscale : forall a p k, cf (sscale a p) k = a ⊗ cf p k.
  Proof.
    intros a p. induction p as [|b p IH]; intros k.
    - cbn [PolySpec.sscale map]. rewrite nth_nil. ring.
    - destruct k; cbn [PolySpec.sscale map nth]. reflexivity. apply IH.
  Qed.

  Lemma nth_sneg : forall p k, cf (sneg p) k = copp (cf p k).
  Proof.
    induction p as [|b p IH]; intros k.
    - cbn [PolySpec.sneg map]. rewrite nth_nil. ring.
    - destruct k; cbn [PolySpec.sneg map nth]. reflexivity. apply IH.
  Qed.

  Definition shiftc (l : list C) (k : nat) : C := match k with O => c0 | S k' => cf l k' end.

  Lemma nth_smul_cons : forall a p q k,
    cf (smul (a :: p) q) k = a ⊗ cf q k ⊕ shiftc (smul p q) k.
  Proof.
    intros. cbn [PolySpec.smul]. rewrite nth_sadd, nth_sscale.
    destruct k; reflexivity.
  Qed.

  Lemma nth_smul_nil_r : forall p k, cf (smul p []) k = c0.
  Proof.
    induction p as [|a p IH]; intros k.
    - apply nth_nil.
    - rewrite nth_smul_cons, nth_nil. destruct k; cbn [shiftc]; [|rewrite IH]; ring.
  Qed.

  Lemma nth_smul_zero_l : forall p q, (forall k, cf p k = c0) -> forall k, cf (smul p q) k = c0.
  Proof.
    induction p as [|a p IH]; intros q Hz k.
    - apply nth_nil.
    - rewrite nth_smul_cons.
      assert (a = c0) by (apply (Hz O)). subst a.
      assert (Hz' : forall k, cf p k = c0) by (intro j; apply (Hz (S j))).
      destruct k; cbn [shiftc]; [|rewrite (IH q Hz')]; ring.
  Qed.

  Lemma smul_peq_l : forall p p' q, peq p p' -> peq (smul p q) (smul p' q).
  Proof.
    induction p as [|a p IH]; intros p' q H k.
    - rewrite nth_nil. symmetry. apply nth_smul_zero_l.
      intro j. rewrite <- (H j). apply nth_nil.
    - destruct p' as [|a' p'].
      + rewrite nth_nil. apply nth_smul_zero_l. intro j. rewrite (H j). apply nth_nil.
      + rewrite !nth_smul_cons.
        assert (a = a') by (apply (H O)). subst a'.
        assert (H' : peq p p') by (intro j; apply (H (S j))).
        destruct k; cbn [shiftc]. reflexivity. rewrite (IH p' q H'). reflexivity.
  Qed.

  Lemma nth_smul_cons_r : forall p b q k,
    cf (smul p (b :: q)) k = b ⊗ cf p k ⊕ shiftc (smul p q) k.
  Proof.
    induction p as [|a p IH]; intros b q k.
    - rewrite !nth_nil. destruct k; cbn [shiftc]; rewrite ?nth_nil; ring.
    - rewrite !nth_smul_cons. destruct k; cbn [shiftc nth].
      + ring.
      + rewrite IH. rewrite nth_smul_cons. destruct k; cbn [shiftc]; ring.
  Qed.

  Lemma smul_comm : forall p q k, cf (smul p q) k = cf (smul q p) k.
  Proof.
    induction p as [|a p IH]; intros q k.
    - rewrite nth_nil, nth_smul_nil_r. reflexivity.
    - rewrite nth_smul_cons, nth_smul_cons_r.
      destruct k; cbn [shiftc]. reflexivity. rewrite IH. reflexivity.
  Qed.

  Lemma smul_peq_r : forall p q q', peq q q' -> peq (smul p q) (smul p q').
  Proof.
    intros p q q' H k. rewrite smul_comm, (smul_comm p q'). apply smul_peq_l. exact H.
  Qed.

  Lemma nth_smul_sadd_l : forall p q r k,
    cf (smul (sadd p q) r) k = cf (smul p r) k ⊕ cf (smul q r) k.
  Proof.
    induction p as [|a p IH]; intros q r k.
    - cbn [PolySpec.sadd]. change (smul [] r) with (@nil C). rewrite (nth_nil k). ring.
    - destruct q as [|b q].
      + cbn [PolySpec.sadd]. change (smul [] r) with (@nil C). rewrite (nth_nil k). ring.
      + cbn [PolySpec.sadd]. rewrite !nth_smul_cons.
        destruct k; cbn [shiftc]. ring. rewrite IH. ring.
  Qed.

  Lemma nth_smul_sscale_l : forall a p q k,
    cf (smul (sscale a p) q) k = a ⊗ cf (smul p q) k.
  Proof.
    intros a p. induction p as [|b p IH]; intros q k.
    - cbn [PolySpec.sscale map]. rewrite !nth_nil. ring.
    - cbn [PolySpec.sscale map]. fold (sscale a p). rewrite !nth_smul_cons.
      destruct k; cbn [shiftc]. ring. rewrite IH. ring.
  Qed.

  Lemma nth_smul_shift_l : forall p q k,
    cf (smul (c0 :: p) q) k = shiftc (smul p q) k.
  Proof. intros. rewrite nth_smul_cons. ring. Qed.

  Lemma smul_assoc : forall p q r k,
    cf (smul (smul p q) r) k = cf (smul p (smul q r)) k.
  Proof.
    induction p as [|a p IH]; intros q r k.
    - cbn [PolySpec.smul]. reflexivity.
    - rewrite nth_smul_cons. cbn [PolySpec.smul].
      rewrite nth_smul_sadd_l, nth_smul_sscale_l, nth_smul_shift_l.
      destruct k; cbn [shiftc]. reflexivity. rewrite IH. reflexivity.
  Qed.

  Lemma nth_smul_one_l : forall q k, cf (smul [c1] q) k = cf q k.
  Proof.
    intros. rewrite nth_smul_cons. cbn [PolySpec.smul].
    destruct k; cbn [shiftc]; rewrite ?nth_nil; ring.
  Qed.

  Lemma peq_refl : forall p, peq p p.
  Proof. intros p k. reflexivity. Qed.
  Lemma peq_sym : forall p q, peq p q -> peq q p.
  Proof. intros p q H k. symmetry. apply H. Qed.
  Lemma peq_trans : forall p q r, peq p q -> peq q r -> peq p r.
  Proof. intros p q r H1 H2 k. rewrite H1. apply H2. Qed.

  Lemma spow_nat_add : forall p a b,
    peq (spow_nat p (a + b)) (smul (spow_nat p a) (spow_nat p b)).
  Proof.
    intros p a b. induction a as [|a IH].
    - intro k. cbn [Nat.add PolySpec.spow_nat]. rewrite nth_smul_one_l. reflexivity.
    - cbn [Nat.add PolySpec.spow_nat].
      eapply peq_trans. apply smul_peq_r. exact IH.
      intro k. rewrite smul_assoc. reflexivity.
  Qed.

  (* ---- evaluation ---- *)
  Lemma seval_sadd : forall p q x, seval (sadd p q) x = seval p x ⊕ seval q x.
  Proof.
    induction p as [|a p IH]; intros q x.
    - cbn. ring.
    - destruct q as [|b q]; cbn [PolySpec.sadd PolySpec.seval]. ring. rewrite IH. ring.
  Qed.

  Lemma seval_sscale : forall a p x, seval (sscale a p) x = a ⊗ seval p x.
  Proof.
    intros a p x. induction p as [|b p IH]; cbn [PolySpec.sscale map PolySpec.seval].
    - ring.
    - fold (sscale a p). rewrite IH. ring.
  Qed.

  Lemma seval_smul : forall p q x, seval (smul p q) x = seval p x ⊗ seval q x.
  Proof.
    induction p as [|a p IH]; intros q x; cbn [PolySpec.smul PolySpec.seval].
    - ring.
    - rewrite seval_sadd, seval_sscale. cbn [PolySpec.seval]. rewrite IH. ring.
  Qed.

  Lemma seval_sneg : forall p x, seval (sneg p) x = copp (seval p x).
  Proof.
    induction p as [|a p IH]; intros x; cbn [PolySpec.sneg map PolySpec.seval].
    - ring.
    - fold (sneg p). rewrite IH. ring.
  Qed.

  Lemma seval_zero : forall p x, (forall k, cf p k = c0) -> seval p x = c0.
  Proof.
    induction p as [|a p IH]; intros x H; cbn [PolySpec.seval].
    - reflexivity.
    - rewrite (IH x (fun j => H (S j))). rewrite (H O : a = c0). ring.
  Qed.

  Lemma seval_peq : forall p q x, peq p q -> seval p x = seval q x.
  Proof.
    induction p as [|a p IH]; intros q x H.
    - cbn [PolySpec.seval]. symmetry. apply seval_zero. intro k. rewrite <- H. apply nth_nil.
    - destruct q as [|b q].
      + apply seval_zero. intro k. rewrite H. apply nth_nil.
      + cbn [PolySpec.seval]. rewrite (H O : a = b).
        rewrite (IH q x (fun j => H (S j))). reflexivity.
  Qed.

  (* ---- supports, top coefficient, monomials ---- *)
  Lemma smul_support : forall p q (m n : nat),
    (forall k, (m <= k)%nat -> cf p k = c0) -> (forall k, (n <= k)%nat -> cf q k = c0) ->
    forall k, (m + n <= S k)%nat -> cf (smul p q) k = c0.
  Proof.
    induction p as [|a p IH]; intros q m n Hm Hn k Hk.
    - apply nth_nil.
    - destruct m as [|m].
      + apply nth_smul_zero_l. intro j. apply Hm. lia.
      + rewrite nth_smul_cons. rewrite (Hn k) by lia.
        destruct k; cbn [shiftc]. ring.
        rewrite (IH q m n); try assumption. ring. intros j Hj. apply (Hm (S j)). lia. lia.
  Qed.

  Lemma smul_top : forall p q (m n : nat),
    (forall k, (m < k)%nat -> cf p k = c0) -> (forall k, (n < k)%nat -> cf q k = c0) ->
    cf (smul p q) (m + n) = cf p m ⊗ cf q n.
  Proof.
    induction p as [|a p IH]; intros q m n Hm Hn.
    - rewrite !nth_nil. ring.
    - rewrite nth_smul_cons. destruct m as [|m].
      + cbn [Nat.add nth]. destruct n as [|n]; cbn [shiftc]. ring.
        rewrite (nth_smul_zero_l p q). ring. intro j. apply (Hm (S j)). lia.
      + rewrite (Hn (S m + n)%nat) by lia. cbn [Nat.add shiftc nth].
        rewrite (IH q m n). ring. intros j Hj. apply (Hm (S j)). lia. exact Hn.
  Qed.

  Definition mono (k : nat) (q : C) : list C := repeat c0 k ++ [q].

  Lemma nth_mono : forall k q j, cf (mono k q) j = if Nat.eqb j k then q else c0.
  Proof.
    intros k q j. unfold mono. destruct (Nat.eqb j k) eqn:E.
    - apply Nat.eqb_eq in E. subst j. rewrite app_nth2; rewrite repeat_length. 2: lia.
      rewrite Nat.sub_diag. reflexivity.
    - apply Nat.eqb_neq in E. destruct (Nat.lt_ge_cases j k) as [L|L].
      + rewrite app_nth1 by (rewrite repeat_length; exact L). apply nth_repeat.
      + rewrite app_nth2 by (rewrite repeat_length; exact L). rewrite repeat_length.
        destruct (j - k)%nat as [|[|d]] eqn:Ed. lia. reflexivity. reflexivity.
  Qed.

  Lemma nth_smul_sadd_r : forall p q r k,
    cf (smul p (sadd q r)) k = cf (smul p q) k ⊕ cf (smul p r) k.
  Proof.
    intros. rewrite smul_comm, nth_smul_sadd_l, (smul_comm q p), (smul_comm r p). reflexivity.
  Qed.

  Lemma nth_smul_sneg_r : forall p q k, cf (smul p (sneg q)) k = copp (cf (smul p q) k).
  Proof.
    intros p q k. rewrite smul_comm. revert k. induction q as [|b q IH]; intro k.
    - cbn [PolySpec.sneg map PolySpec.smul]. rewrite nth_smul_nil_r, nth_nil. ring.
    - cbn [PolySpec.sneg map]. fold (sneg q). rewrite nth_smul_cons, nth_smul_cons_r.
      destruct k; cbn [shiftc]. ring. rewrite IH. rewrite (smul_comm p q). ring.
  Qed.
End ListAlg.
