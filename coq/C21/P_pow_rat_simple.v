(* C21 obligation: rational coefficients: pow_upoly(a, n) is the n-fold schoolbook product for ALL coefficient lists and ALL exponents n (including 0 and the zero polynomial) with n * deg a < 2^32 (the exponent type is unsigned int) *)
From SE Require Import Base.Prelude C21.PolyModel C21.PolySpec C21.PolyProofs2.
From Coq Require Import QArith Qcanon.
Theorem C21_pow_rat_simple :
  forall p n, (n * degree (qfrom_vec p) < W32)%N ->
    qpow (qfrom_vec p) n = Ok (qfrom_vec (qspow p n)).
Proof. exact q_pow_simple. Qed.
Print Assumptions C21_pow_rat_simple.
