(* C21 -- UIntDict::mul (Kronecker substitution) is the schoolbook product. *)
From SE Require Import Base.Prelude C21.PolyModel C21.PolySpec C21.PolyList C21.PolyDict.
From Coq Require Import Ring ZArithRing Lia ZifyBool ZifyNat ZifyN.
Local Open Scope Z_scope.

Lemma Zeqb_spec : forall x y : Z, Z.eqb x y = true <-> x = y.
Proof. intros. apply Z.eqb_eq. Qed.

Local Notation zfv := (from_vec Z 0 Z.eqb).
Local Notation zfva := (from_vec_aux Z 0 Z.eqb).
Local Notation zcf := (get_coeff Z 0).

(* ---------------------------------------------------------------- signed digits *)
Lemma mul_small_zero : forall f d, 0 < f -> Z.abs (f * d) < f -> d = 0.
Proof. intros f d Hf H. nia. Qed.

(* a list of digits of absolute value below half of the base that evaluates to 0 is all zeros *)
Lemma seval_zero_digits : forall (c : list Z) full half,
  0 < half -> full = 2 * half -> Forall (fun x => Z.abs x < half) c ->
  seval Z 0 Z.add Z.mul c full = 0 -> Forall (fun x => x = 0) c.
Proof.
  induction c as [|x c IH]; intros full half Hh Hf F E. constructor.
  inversion F as [|? ? Fx Fc]; subst. cbn [seval] in E.
  assert (x = 0).
  { assert (Z.abs (2 * half * (- seval Z 0 Z.add Z.mul c (2 * half))) < 2 * half)
      by (replace (2 * half * (- seval Z 0 Z.add Z.mul c (2 * half))) with x by lia; lia).
    apply mul_small_zero in H; lia. }
  subst x. constructor. reflexivity. eapply IH; eauto. nia.
Qed.

Lemma from_vec_aux_zeros : forall (c : list Z) i, Forall (fun x => x = 0) c -> zfva i c = [].
Proof.
  induction c as [|x c IH]; intros i F; cbn [from_vec_aux]. reflexivity.
  inversion F; subst. cbn. apply IH. assumption.
Qed.

Lemma set_term_append : forall (r : zdict) k v,
  Forall (fun kv => (fst kv < k)%N) r -> set_term r k v = r ++ [(k, v)].
Proof.
  induction r as [|[k' v'] r IH]; intros k v F; cbn [set_term app]. reflexivity.
  inversion F; subst. cbn [fst] in *. replace (k' <? k)%N with true by lia.
  rewrite IH by assumption. reflexivity.
Qed.

Definition fuel_ok (fuel : nat) (s carry : Z) : Prop :=
  s < 2 ^ (Z.of_nat fuel - 2) \/ (s = 0 /\ (carry = 0 \/ (1 <= fuel)%nat)).

Lemma decode_correct : forall (c : list Z) fuel (n : N) sgn s carry deg (r : zdict),
  (0 < n)%N ->
  let full := 2 ^ Z.of_N n in
  let half := 2 ^ (Z.of_N n - 1) in
  Forall (fun x => Z.abs x < half) c ->
  0 <= s -> (carry = 0 \/ carry = 1) ->
  s + carry = seval Z 0 Z.add Z.mul c full ->
  fuel_ok fuel s carry ->
  (deg + N.of_nat (length c) <= W32)%N ->
  Forall (fun kv => (fst kv < deg)%N) r ->
  decode fuel n full half (full - 1) sgn s carry deg r
  = Ok (r ++ zfva deg (map (Z.mul sgn) c)).
Proof.
  induction c as [|x c IH]; intros fuel n sgn s carry deg r Hn full half F Hs Hc E Hfuel Hdeg Hr.
  - cbn [seval] in E. assert (s = 0) by lia. assert (carry = 0) by lia. subst.
    destruct fuel; cbn [decode map from_vec_aux]; rewrite app_nil_r; reflexivity.
  - assert (Hfull : full = 2 * half).
    { unfold full, half. replace (Z.of_N n) with (Z.of_N n - 1 + 1) at 1 by lia.
      rewrite Z.pow_add_r by lia. lia. }
    assert (Hhalf : 0 < half) by (unfold half; apply Z.pow_pos_nonneg; lia).
    destruct ((s =? 0) && (carry =? 0)) eqn:Ez.
    + (* value 0: all remaining digits are zero *)
      assert (s = 0) by lia. assert (carry = 0) by lia. subst s carry.
      assert (Hz : Forall (fun y => y = 0) (x :: c)).
      { eapply seval_zero_digits; eauto. }
      assert (Hz' : Forall (fun y => y = 0) (map (Z.mul sgn) (x :: c))).
      { apply Forall_forall. intros y Hy. apply in_map_iff in Hy. destruct Hy as [z [Ezy Hz0]].
        rewrite Forall_forall in Hz. rewrite (Hz z Hz0) in Ezy. lia. }
      rewrite from_vec_aux_zeros by exact Hz'. rewrite app_nil_r.
      destruct fuel; cbn [decode]; reflexivity.
    + destruct fuel as [|f].
      { exfalso. unfold fuel_ok in Hfuel. cbn in Hfuel. destruct Hfuel as [H|[H1 [H2|H2]]]; lia. }
      cbn [decode]. rewrite Ez.
      inversion F as [|? ? Fx Fc]; subst. cbn [seval] in E.
      set (W := seval Z 0 Z.add Z.mul c full) in *.
      assert (Hmask : Z.land s (full - 1) = s mod full).
      { unfold full. replace (2 ^ Z.of_N n - 1) with (Z.ones (Z.of_N n)) by (rewrite Z.ones_equiv; lia).
        apply Z.land_ones. lia. }
      assert (Hshift : Z.shiftr s (Z.of_N n) = s / full).
      { unfold full. apply Z.shiftr_div_pow2. lia. }
      rewrite Hmask, Hshift.
      assert (Hfp : 0 < full) by lia.
      pose proof (Z.mod_pos_bound s full Hfp) as Hmod.
      pose proof (Z.div_mod s full ltac:(lia)) as Hdm.
      assert (Hs' : 0 <= s / full) by (apply Z.div_pos; lia).
      (* fuel for the rest *)
      assert (Hfuel' : forall carry', (s = 0 -> carry' = 0) -> fuel_ok f (s / full) carry').
      { intros carry' Hc0. unfold fuel_ok in *. destruct (Z.eq_dec s 0) as [Es|Es].
        - subst s. right. rewrite Z.div_0_l by lia. split. reflexivity.
          destruct Hfuel as [H|[_ [H|H]]]; [| lia |].
          + destruct f. rewrite Z.pow_neg_r in H by lia. lia. right. lia.
          + left. apply Hc0. reflexivity.
        - destruct Hfuel as [H|[H _]]; [|lia]. left.
          replace (Z.of_nat (S f) - 2) with (Z.of_nat f - 1) in H by lia.
          destruct f as [|f]. rewrite Z.pow_neg_r in H by lia. lia.
          destruct f as [|f]. change (Z.of_nat 1 - 1) with 0 in H. rewrite Z.pow_0_r in H. lia.
          replace (Z.of_nat (S (S f)) - 1) with (Z.of_nat f + 1) in H by lia.
          replace (Z.of_nat (S (S f)) - 2) with (Z.of_nat f) by lia.
          rewrite Z.pow_add_r in H by lia.
          apply Z.div_lt_upper_bound. lia.
          assert (0 < 2 ^ Z.of_nat f) by (apply Z.pow_pos_nonneg; lia). nia. }
      (* the recursive call, whatever the digit *)
      assert (Hrec : forall out carry',
                (carry' = 0 \/ carry' = 1) -> (s = 0 -> carry' = 0) ->
                out = x -> s / full + carry' = W ->
                decode f n full half (full - 1) sgn (s / full) carry' (uadd deg 1)
                       (if sgn * out =? 0 then r else set_term r deg (sgn * out))
                = Ok (r ++ zfva deg (map (Z.mul sgn) (x :: c)))).
      { intros out carry' Hc' Hc0 Hout EW. subst out.
        cbn [map from_vec_aux]. unfold cnz.
        assert (Hr' : (if sgn * x =? 0 then r else set_term r deg (sgn * x))
                      = r ++ (if negb (sgn * x =? 0) then [(deg, sgn * x)] else [])).
        { destruct (sgn * x =? 0); cbn [negb]. rewrite app_nil_r. reflexivity.
          apply set_term_append. exact Hr. }
        rewrite Hr'.
        destruct c as [|y c'].
        - (* no digit left: the loop stops *)
          cbn [seval] in W. subst W. assert (s / full = 0) by lia. assert (carry' = 0) by lia.
          rewrite H, H0. cbn [map from_vec_aux].
          destruct f; cbn [decode]; destruct (negb (sgn * x =? 0)); reflexivity.
        - cbn [length] in Hdeg.
          assert (Hu : uadd deg 1 = (deg + 1)%N).
          { unfold uadd. apply N.mod_small. unfold W32 in *. lia. }
          rewrite Hu.
          rewrite (IH f n sgn (s / full) carry' (deg + 1)%N); try assumption.
          + destruct (negb (sgn * x =? 0)); cbn [app]; rewrite <- ?app_assoc; reflexivity.
          + apply Hfuel'. exact Hc0.
          + cbn [length]. lia.
          + apply Forall_app. split.
            * eapply Forall_impl; [|exact Hr]. cbn. intros. lia.
            * destruct (negb (sgn * x =? 0)); constructor. cbn. lia. constructor. }
      destruct (s mod full <? half) eqn:Et.
      * (* low digit *)
        assert (Hd : W - s / full = 0).
        { assert (Z.abs (full * (W - s / full)) < full)
            by (replace (full * (W - s / full)) with (s mod full + carry - x) by lia; lia).
          apply mul_small_zero in H; lia. }
        apply Hrec. left; reflexivity. reflexivity. nia. lia.
      * (* high digit: borrow *)
        assert (Hd : W - s / full - 1 = 0).
        { assert (Z.abs (full * (W - s / full - 1)) < full)
            by (replace (full * (W - s / full - 1)) with (s mod full - full + carry - x) by lia; lia).
          apply mul_small_zero in H; lia. }
        apply Hrec. right; reflexivity.
        intro Hs0; subst s; rewrite Z.mod_0_l in Et by lia; lia. nia. lia.
Qed.

