(* C21 -- UIntDict::mul (Kronecker substitution) is the schoolbook product. *)
From SE Require Import Base.Prelude C21.PolyModel C21.PolySpec C21.PolyList C21.PolyDict.
From Coq Require Import Ring ZArithRing Lia ZifyBool ZifyNat ZifyN.
Local Open Scope Z_scope.

Lemma Zeqb_spec : forall x y : Z, Z.eqb x y = true <-> x = y.
Proof. intros. apply Z.eqb_eq. Qed.

Local Notation zfv := (from_vec Z 0 Z.eqb).
Local Notation zfva := (from_vec_aux Z 0 Z.eqb).
Local Notation zcf := (get_coeff Z 0).

(* ---------------------------------------------------------------- signed digits *)
Lemma mul_small_zero : forall f d, 0 < f -> Z.abs (f * d) < f -> d = 0.
Proof. intros f d Hf H. nia. Qed.

(* a list of digits of absolute value below half of the base that evaluates to 0 is all zeros *)
Lemma seval_zero_digits : forall (c : list Z) full half,
  0 < half -> full = 2 * half -> Forall (fun x => Z.abs x < half) c ->
  seval Z 0 Z.add Z.mul c full = 0 -> Forall (fun x => x = 0) c.
Proof.
  induction c as [|x c IH]; intros full half Hh Hf F E. constructor.
  inversion F as [|? ? Fx Fc]; subst. cbn [seval] in E.
  assert (x = 0).
  { assert (Z.abs (2 * half * (- seval Z 0 Z.add Z.mul c (2 * half))) < 2 * half)
      by (replace (2 * half * (- seval Z 0 Z.add Z.mul c (2 * half))) with x by lia; lia).
    apply mul_small_zero in H; lia. }
  subst x. constructor. reflexivity. eapply IH; eauto. nia.
Qed.

Lemma from_vec_aux_zeros : forall (c : list Z) i, Forall (fun x => x = 0) c -> zfva i c = [].
Proof.
  induction c as [|x c IH]; intros i F; cbn [from_vec_aux]. reflexivity.
  inversion F; subst. cbn. apply IH. assumption.
Qed.

Lemma set_term_append : forall (r : zdict) k v,
  Forall (fun kv => (fst kv < k)%N) r -> set_term r k v = r ++ [(k, v)].
Proof.
  induction r as [|[k' v'] r IH]; intros k v F; cbn [set_term app]. reflexivity.
  inversion F; subst. cbn [fst] in *. replace (k' <? k)%N with true by lia.
  rewrite IH by assumption. reflexivity.
Qed.

Definition fuel_ok (fuel : nat) (s carry : Z) : Prop :=
  s < 2 ^ (Z.of_nat fuel - 2) \/ (s = 0 /\ (carry = 0 \/ (1 <= fuel)%nat)).

Lemma decode_correct : forall (c : list Z) fuel (n : N) sgn s carry deg (r : zdict),
  (0 < n)%N ->
  let full := 2 ^ Z.of_N n in
  let half := 2 ^ (Z.of_N n - 1) in
  Forall (fun x => Z.abs x < half) c ->
  0 <= s -> (carry = 0 \/ carry = 1) ->
  s + carry = seval Z 0 Z.add Z.mul c full ->
  fuel_ok fuel s carry ->
  (deg + N.of_nat (length c) <= W32)%N ->
  Forall (fun kv => (fst kv < deg)%N) r ->
  decode fuel n full half (full - 1) sgn s carry deg r
  = Ok (r ++ zfva deg (map (Z.mul sgn) c)).
Proof.
  induction c as [|x c IH]; intros fuel n sgn s carry deg r Hn full half F Hs Hc E Hfuel Hdeg Hr.
  - cbn [seval] in E. assert (s = 0) by lia. assert (carry = 0) by lia. subst.
    destruct fuel; cbn [decode map from_vec_aux]; rewrite app_nil_r; reflexivity.
  - assert (Hfull : full = 2 * half).
    { unfold full, half. replace (Z.of_N n) with (Z.of_N n - 1 + 1) at 1 by lia.
      rewrite Z.pow_add_r by lia. lia. }
    assert (Hhalf : 0 < half) by (unfold half; apply Z.pow_pos_nonneg; lia).
    destruct ((s =? 0) && (carry =? 0)) eqn:Ez.
    + (* value 0: all remaining digits are zero *)
      assert (s = 0) by lia. assert (carry = 0) by lia. subst s carry.
      assert (Hz : Forall (fun y => y = 0) (x :: c)).
      { eapply seval_zero_digits; eauto. }
      assert (Hz' : Forall (fun y => y = 0) (map (Z.mul sgn) (x :: c))).
      { apply Forall_forall. intros y Hy. apply in_map_iff in Hy. destruct Hy as [z [Ezy Hz0]].
        rewrite Forall_forall in Hz. rewrite (Hz z Hz0) in Ezy. lia. }
      rewrite from_vec_aux_zeros by exact Hz'. rewrite app_nil_r.
      destruct fuel; cbn [decode]; reflexivity.
    + destruct fuel as [|f].
      { exfalso. unfold fuel_ok in Hfuel. cbn in Hfuel. destruct Hfuel as [H|[H1 [H2|H2]]]; lia. }
      cbn [decode]. rewrite Ez.
      inversion F as [|? ? Fx Fc]; subst. cbn [seval] in E.
      set (W := seval Z 0 Z.add Z.mul c full) in *.
      assert (Hmask : Z.land s (full - 1) = s mod full).
      { unfold full. replace (2 ^ Z.of_N n - 1) with (Z.ones (Z.of_N n)) by (rewrite Z.ones_equiv; lia).
        apply Z.land_ones. lia. }
      assert (Hshift : Z.shiftr s (Z.of_N n) = s / full).
      { unfold full. apply Z.shiftr_div_pow2. lia. }
      rewrite Hmask, Hshift.
      assert (Hfp : 0 < full) by lia.
      pose proof (Z.mod_pos_bound s full Hfp) as Hmod.
      pose proof (Z.div_mod s full ltac:(lia)) as Hdm.
      assert (Hs' : 0 <= s / full) by (apply Z.div_pos; lia).
      (* fuel for the rest *)
      assert (Hfuel' : forall carry', (s = 0 -> carry' = 0) -> fuel_ok f (s / full) carry').
      { intros carry' Hc0. unfold fuel_ok in *. destruct (Z.eq_dec s 0) as [Es|Es].
        - subst s. right. rewrite Z.div_0_l by lia. split. reflexivity.
          destruct Hfuel as [H|[_ [H|H]]]; [| lia |].
          + destruct f. rewrite Z.pow_neg_r in H by lia. lia. right. lia.
          + left. apply Hc0. reflexivity.
        - destruct Hfuel as [H|[H _]]; [|lia]. left.
          replace (Z.of_nat (S f) - 2) with (Z.of_nat f - 1) in H by lia.
          destruct f as [|f]. rewrite Z.pow_neg_r in H by lia. lia.
          destruct f as [|f]. change (Z.of_nat 1 - 1) with 0 in H. rewrite Z.pow_0_r in H. lia.
          replace (Z.of_nat (S (S f)) - 1) with (Z.of_nat f + 1) in H by lia.
          replace (Z.of_nat (S (S f)) - 2) with (Z.of_nat f) by lia.
          rewrite Z.pow_add_r in H by lia.
          apply Z.div_lt_upper_bound. lia.
          assert (0 < 2 ^ Z.of_nat f) by (apply Z.pow_pos_nonneg; lia). nia. }
      (* the recursive call, whatever the digit *)
      assert (Hrec : forall out carry',
                (carry' = 0 \/ carry' = 1) -> (s = 0 -> carry' = 0) ->
                out = x -> s / full + carry' = W ->
                decode f n full half (full - 1) sgn (s / full) carry' (uadd deg 1)
                       (if sgn * out =? 0 then r else set_term r deg (sgn * out))
                = Ok (r ++ zfva deg (map (Z.mul sgn) (x :: c)))).
      { intros out carry' Hc' Hc0 Hout EW. subst out.
        cbn [map from_vec_aux]. unfold cnz.
        assert (Hr' : (if sgn * x =? 0 then r else set_term r deg (sgn * x))
                      = r ++ (if negb (sgn * x =? 0) then [(deg, sgn * x)] else [])).
        { destruct (sgn * x =? 0); cbn [negb]. rewrite app_nil_r. reflexivity.
          apply set_term_append. exact Hr. }
        rewrite Hr'.
        destruct c as [|y c'].
        - (* no digit left: the loop stops *)
          cbn [seval] in W. subst W. assert (s / full = 0) by lia. assert (carry' = 0) by lia.
          rewrite H, H0. cbn [map from_vec_aux].
          destruct f; cbn [decode]; destruct (negb (sgn * x =? 0)); reflexivity.
        - cbn [length] in Hdeg.
          assert (Hu : uadd deg 1 = (deg + 1)%N).
          { unfold uadd. apply N.mod_small. unfold W32 in *. lia. }
          rewrite Hu.
          rewrite (IH f n sgn (s / full) carry' (deg + 1)%N); try assumption.
          + destruct (negb (sgn * x =? 0)); cbn [app]; rewrite <- ?app_assoc; reflexivity.
          + apply Hfuel'. exact Hc0.
          + cbn [length]. lia.
          + apply Forall_app. split.
            * eapply Forall_impl; [|exact Hr]. cbn. intros. lia.
            * destruct (negb (sgn * x =? 0)); constructor. cbn. lia. constructor. }
      destruct (s mod full <? half) eqn:Et.
      * (* low digit *)
        assert (Hd : W - s / full = 0).
        { assert (Z.abs (full * (W - s / full)) < full)
            by (replace (full * (W - s / full)) with (s mod full + carry - x) by lia; lia).
          apply mul_small_zero in H; lia. }
        apply Hrec. left; reflexivity. reflexivity. nia. lia.
      * (* high digit: borrow *)
        assert (Hd : W - s / full - 1 = 0).
        { assert (Z.abs (full * (W - s / full - 1)) < full)
            by (replace (full * (W - s / full - 1)) with (s mod full - full + carry - x) by lia; lia).
          apply mul_small_zero in H; lia. }
        apply Hrec. right; reflexivity.
        intro Hs0; subst s; rewrite Z.mod_0_l in Et by lia; lia. nia. lia.
Qed.

(* ---------------------------------------------------------------- instances at Z *)
Local Notation zsmul := (smul Z 0 Z.add Z.mul).
Local Notation zseval := (seval Z 0 Z.add Z.mul).
Local Notation zpeq := (@peq Z 0).

Ltac zinst := eauto using Zth, Zeqb_spec;
  try exact Z.of_N; try exact 1; try exact Z.add; try exact Z.opp.

Lemma z_from_vec_wf : forall p, wf Z 0 (zfv p).
Proof. intros; eapply from_vec_wf; zinst. Qed.
Lemma z_coeff_from_vec : forall p k, zcf (zfv p) k = nth (N.to_nat k) p 0.
Proof. intros; eapply coeff_from_vec; zinst. Qed.
Lemma z_from_vec_peq : forall p q, zpeq p q -> zfv p = zfv q.
Proof. intros; eapply from_vec_peq; zinst. Qed.
Lemma z_from_vec_dense : forall d, wf Z 0 d -> zfv (dense Z 0 d) = d.
Proof. intros; eapply from_vec_dense; zinst. Qed.
Lemma z_nth_dense : forall d k, sorted d -> nth k (dense Z 0 d) 0 = zcf d (N.of_nat k).
Proof. intros; eapply nth_dense; zinst. Qed.
Lemma z_keys_le_degree : forall d : zdict, sorted d -> Forall (fun kv => (fst kv <= degree d)%N) d.
Proof. intros; eapply keys_le_degree; zinst. Qed.
Lemma z_coeff_gt_degree : forall (d : zdict) j, sorted d -> (degree d < j)%N -> zcf d j = 0.
Proof. intros; eapply coeff_gt_degree; zinst. Qed.
Lemma z_from_vec_zero : forall p, (forall k, nth k p 0 = 0) -> zfv p = [].
Proof. intros; eapply from_vec_zero; zinst. Qed.
Lemma z_from_vec_nil_zero : forall p, zfv p = [] -> forall k, nth k p 0 = 0.
Proof. intros; eapply from_vec_nil_zero; zinst. Qed.
Lemma z_poly_eval_correct : forall p x, poly_eval Z 0 1 Z.add Z.mul (zfv p) x = zseval p x.
Proof. intros; eapply poly_eval_correct; zinst. Qed.
Lemma z_gmul_correct : forall p q, (degree (zfv p) + degree (zfv q) < W32)%N ->
  zgmul (zfv p) (zfv q) = zfv (zsmul p q).
Proof. intros; eapply gmul_correct; zinst. Qed.
Lemma z_seval_smul : forall p q x, zseval (zsmul p q) x = zseval p x * zseval q x.
Proof. intros; eapply seval_smul; zinst. Qed.
Lemma z_seval_peq : forall p q x, zpeq p q -> zseval p x = zseval q x.
Proof. intros; eapply seval_peq; zinst. Qed.
Lemma z_smul_comm : forall p q k, nth k (zsmul p q) 0 = nth k (zsmul q p) 0.
Proof. intros; eapply smul_comm; zinst. Qed.
Lemma z_nth_smul_cons : forall a p q k,
  nth k (zsmul (a :: p) q) 0 = a * nth k q 0 + shiftc Z 0 (zsmul p q) k.
Proof. intros; eapply nth_smul_cons; zinst. Qed.
Lemma z_nth_smul_zero_l : forall p q, (forall k, nth k p 0 = 0) -> forall k, nth k (zsmul p q) 0 = 0.
Proof. intros; eapply nth_smul_zero_l; zinst. Qed.
Lemma z_smul_zero_r : forall p q, (forall k, nth k q 0 = 0) -> forall k, nth k (zsmul p q) 0 = 0.
Proof. intros p q H k. rewrite z_smul_comm. apply z_nth_smul_zero_l. exact H. Qed.
Lemma z_seval_sneg : forall p x, zseval (sneg Z Z.opp p) x = - zseval p x.
Proof. intros; eapply seval_sneg; zinst. Qed.
Lemma z_cpow_succ : forall x n, cpow Z 1 Z.mul x (N.succ n) = x * cpow Z 1 Z.mul x n.
Proof. intros; eapply cpow_succ; zinst. Qed.

Lemma z_cpow : forall x n, cpow Z 1 Z.mul x n = x ^ Z.of_N n.
Proof.
  intros x n. induction n as [|n IH] using N.peano_ind. reflexivity.
  rewrite z_cpow_succ, IH, N2Z.inj_succ, Z.pow_succ_r by lia. reflexivity.
Qed.

(* ---------------------------------------------------------------- eval_bit *)
Lemma evb_step_eq : forall n st kv, (n < W32)%N -> (snd st < W32)%N ->
  evb_step n st kv = eval_step Z 1 Z.add Z.mul (2 ^ Z.of_N n) st kv.
Proof.
  intros n [r last] [k v] Hn Hl. unfold evb_step, eval_step. cbn [fst snd] in *.
  f_equal. set (g := (last - k)%N).
  assert (Hu : umul64 n g = (n * g)%N).
  { unfold umul64. apply N.mod_small. unfold W32, W64 in *. nia. }
  rewrite Hu, z_cpow, Z.shiftl_mul_pow2 by lia.
  rewrite N2Z.inj_mul, Z.pow_mul_r by lia. ring.
Qed.

Lemma evb_fold_eq : forall n l st, (n < W32)%N -> (snd st < W32)%N ->
  Forall (fun kv : N * Z => (fst kv < W32)%N) l ->
  fold_left (evb_step n) l st = fold_left (eval_step Z 1 Z.add Z.mul (2 ^ Z.of_N n)) l st
  /\ (snd (fold_left (evb_step n) l st) < W32)%N.
Proof.
  intros n. induction l as [|kv l IH]; intros st Hn Hl F; cbn [fold_left].
  - split. reflexivity. exact Hl.
  - inversion F; subst. rewrite evb_step_eq by assumption.
    apply IH. assumption. unfold eval_step. cbn [snd]. assumption. assumption.
Qed.

Lemma eval_bit_correct : forall p n, zfv p <> [] -> (n < W32)%N -> (degree (zfv p) < W32)%N ->
  eval_bit (zfv p) n = Ok (zseval p (2 ^ Z.of_N n)).
Proof.
  intros p n Hne Hn Hd. rewrite <- z_poly_eval_correct.
  destruct (z_from_vec_wf p) as [Sp _]. pose proof (z_keys_le_degree _ Sp) as K.
  unfold eval_bit, poly_eval. set (d := zfv p) in *.
  destruct (rev d) as [|[k0 v0] l] eqn:E.
  { exfalso. apply Hne. rewrite <- (rev_involutive d), E. reflexivity. }
  rewrite <- E.
  assert (Hk0 : (k0 < W32)%N).
  { assert (degree d = k0) by (unfold degree; rewrite E; reflexivity). lia. }
  assert (F : Forall (fun kv : N * Z => (fst kv < W32)%N) (rev d)).
  { apply Forall_forall. intros kv Hin. apply in_rev in Hin. rewrite Forall_forall in K.
    specialize (K kv Hin). cbn in K. lia. }
  destruct (evb_fold_eq n (rev d) (0, k0) Hn Hk0 F) as [Efold Hlast].
  rewrite Efold in *. f_equal.
  set (st := fold_left (eval_step Z 1 Z.add Z.mul (2 ^ Z.of_N n)) (rev d) (0, k0)) in *.
  assert (Hu : umul64 n (snd st) = (n * snd st)%N).
  { unfold umul64. apply N.mod_small. unfold W32, W64 in *. nia. }
  rewrite Hu, z_cpow, Z.shiftl_mul_pow2 by lia.
  rewrite N2Z.inj_mul, Z.pow_mul_r by lia. reflexivity.
Qed.

(* ---------------------------------------------------------------- max_abs_coef *)
Lemma fold_max_spec : forall (d : zdict) cur,
  let r := fold_left (fun cur kv => if cur <? Z.abs (snd kv) then Z.abs (snd kv) else cur) d cur in
  cur <= r /\ Forall (fun kv => Z.abs (snd kv) <= r) d.
Proof.
  induction d as [|[k v] d IH]; intros cur; cbn [fold_left snd].
  - split. lia. constructor.
  - destruct (IH (if cur <? Z.abs v then Z.abs v else cur)) as [H1 H2].
    split. destruct (cur <? Z.abs v) eqn:E; lia.
    constructor; [|exact H2]. cbn [snd]. destruct (cur <? Z.abs v) eqn:E; lia.
Qed.

Lemma max_abs_spec : forall d : zdict, d <> [] ->
  exists A, max_abs_coef d = Ok A /\ 0 <= A /\ Forall (fun kv => Z.abs (snd kv) <= A) d.
Proof.
  intros [|[k v] d] H. congruence. unfold max_abs_coef.
  destruct (fold_max_spec ((k, v) :: d) (Z.abs v)) as [H1 H2].
  eexists. split. reflexivity. split. lia. exact H2.
Qed.

(* ---------------------------------------------------------------- coefficient bounds *)
Lemma smul_bound_l : forall p q A B (m : nat),
  0 <= A -> 0 <= B ->
  (forall k, Z.abs (nth k p 0) <= A) -> (forall k, Z.abs (nth k q 0) <= B) ->
  (forall k, (m <= k)%nat -> nth k p 0 = 0) ->
  forall k, Z.abs (nth k (zsmul p q) 0) <= Z.of_nat m * A * B.
Proof.
  induction p as [|a p IH]; intros q A B m HA HB Hp Hq Hm k.
  - cbn [smul]. destruct k; cbn [nth]; nia.
  - destruct m as [|m].
    + rewrite z_nth_smul_zero_l. cbn. lia. intro j. apply Hm. lia.
    + rewrite z_nth_smul_cons.
      assert (Ha : Z.abs a <= A) by (apply (Hp O)).
      assert (Hqk : Z.abs (nth k q 0) <= B) by apply Hq.
      assert (Hsh : Z.abs (shiftc Z 0 (zsmul p q) k) <= Z.of_nat m * A * B).
      { destruct k; cbn [shiftc]. cbn. nia.
        apply IH; try assumption. intro j. apply (Hp (S j)). intros j Hj. apply (Hm (S j)). lia. }
      assert (Z.abs (a * nth k q 0) <= A * B) by (rewrite Z.abs_mul; nia).
      rewrite Nat2Z.inj_succ. lia.
Qed.

Lemma smul_support : forall p q (m n : nat),
  (forall k, (m <= k)%nat -> nth k p 0 = 0) -> (forall k, (n <= k)%nat -> nth k q 0 = 0) ->
  forall k, (m + n <= S k)%nat -> nth k (zsmul p q) 0 = 0.
Proof.
  induction p as [|a p IH]; intros q m n Hm Hn k Hk.
  - destruct k; reflexivity.
  - destruct m as [|m].
    + apply z_nth_smul_zero_l. intro j. apply Hm. lia.
    + rewrite z_nth_smul_cons. rewrite (Hn k) by lia.
      destruct k; cbn [shiftc]. lia.
      rewrite (IH q m n); try assumption. lia. intros j Hj. apply (Hm (S j)). lia. lia.
Qed.

(* coefficients of from_vec p are bounded by max_abs_coef and vanish above the degree *)
Lemma coeffs_bounded : forall p A, Forall (fun kv => Z.abs (snd kv) <= A) (zfv p) -> 0 <= A ->
  forall k, Z.abs (nth k p 0) <= A.
Proof.
  intros p A F HA k. pose proof (z_coeff_from_vec p (N.of_nat k)) as E. rewrite Nat2N.id in E.
  rewrite <- E. clear E. induction (zfv p) as [|[k' v'] d IH]; cbn [get_coeff]. cbn. lia.
  inversion F; subst. destruct (k' =? N.of_nat k)%N. assumption. apply IH. assumption.
Qed.

Lemma coeffs_vanish : forall p k, (S (N.to_nat (degree (zfv p))) <= k)%nat -> nth k p 0 = 0.
Proof.
  intros p k H. pose proof (z_coeff_from_vec p (N.of_nat k)) as E. rewrite Nat2N.id in E.
  rewrite <- E. apply z_coeff_gt_degree. apply z_from_vec_wf. lia.
Qed.

Lemma degree_nonzero_coeff : forall d : zdict, wf Z 0 d -> d <> [] -> zcf d (degree d) <> 0.
Proof.
  intros d [Sd Nd] Hne. erewrite coeff_degree_lc; zinst. eapply get_lc_nonzero; zinst.
Qed.

Lemma degree_smul_le : forall p q,
  (degree (zfv (zsmul p q)) <= degree (zfv p) + degree (zfv q))%N.
Proof.
  intros p q. destruct (zfv (zsmul p q)) as [|kv d] eqn:E. cbn. lia.
  rewrite <- E. destruct (N.le_gt_cases (degree (zfv (zsmul p q))) (degree (zfv p) + degree (zfv q))) as [L|L].
  exact L. exfalso.
  apply (degree_nonzero_coeff (zfv (zsmul p q))). apply z_from_vec_wf. rewrite E. discriminate.
  rewrite z_coeff_from_vec.
  apply (smul_support p q (S (N.to_nat (degree (zfv p)))) (S (N.to_nat (degree (zfv q))))).
  intros k Hk. apply coeffs_vanish. exact Hk.
  intros k Hk. apply coeffs_vanish. exact Hk. lia.
Qed.

Lemma length_dense : forall d : zdict, (N.of_nat (length (dense Z 0%Z d)) <= degree d + 1)%N.
Proof.
  intros [|kv d]. cbn. lia. unfold dense. rewrite map_length, seq_length. lia.
Qed.

(* ---------------------------------------------------------------- the bit budget *)
Lemma size_pow_Z : forall a : Z, 0 <= a -> a < 2 ^ Z.of_N (N.size (Z.to_N a)).
Proof.
  intros a Ha. pose proof (N.size_gt (Z.to_N a)) as H. apply N2Z.inj_lt in H.
  rewrite N2Z.inj_pow, Z2N.id in H by lia. exact H.
Qed.

Lemma uadd_small : forall x y, (x + y < W32)%N -> uadd x y = (x + y)%N.
Proof. intros. unfold uadd. apply N.mod_small. assumption. Qed.

Lemma kron_bits_spec : forall (a b : zdict) A B,
  (degree a + degree b < W32)%N ->
  (N.size (N.min (degree a + 1) (degree b + 1)) + N.size (Z.to_N A) + N.size (Z.to_N B) + 1 < W32)%N ->
  exists sm : N,
    kron_bits a b A B = (sm + N.size (Z.to_N A) + N.size (Z.to_N B) + 1)%N /\
    Z.of_N (N.min (degree a + 1) (degree b + 1)) <= 2 ^ Z.of_N sm /\
    (sm + N.size (Z.to_N A) + N.size (Z.to_N B) + 1 < W32)%N.
Proof.
  intros a b A B Hd Hs. unfold kron_bits, bit_length.
  set (da := degree a) in *. set (db := degree b) in *.
  set (sA := N.size (Z.to_N A)) in *. set (sB := N.size (Z.to_N B)) in *.
  exists (N.size (N.min (uadd da 1) (uadd db 1))).
  assert (Hcase : (N.size (N.min (uadd da 1) (uadd db 1)) <= N.size (N.min (da + 1) (db + 1)))%N
                  /\ Z.of_N (N.min (da + 1) (db + 1)) <= 2 ^ Z.of_N (N.size (N.min (uadd da 1) (uadd db 1)))).
  { destruct (N.lt_ge_cases (da + 1) W32) as [La|La]; destruct (N.lt_ge_cases (db + 1) W32) as [Lb|Lb].
    - rewrite !uadd_small by assumption. split. lia.
      pose proof (N.size_gt (N.min (da + 1) (db + 1))) as H. apply N2Z.inj_lt in H.
      rewrite N2Z.inj_pow in H. change (Z.of_N 2) with 2 in H. lia.
    - assert (db + 1 = W32)%N by lia. assert (da = 0)%N by lia.
      unfold uadd at 2. rewrite H, N.mod_same by (unfold W32; lia).
      rewrite N.min_0_r. cbn [N.size Z.of_N]. split. lia.
      rewrite H0. change (0 + 1)%N with 1%N. rewrite N.min_l by lia. cbn. lia.
    - assert (da + 1 = W32)%N by lia. assert (db = 0)%N by lia.
      unfold uadd at 1. rewrite H, N.mod_same by (unfold W32; lia).
      rewrite N.min_0_l. cbn [N.size Z.of_N]. split. lia.
      rewrite H0. change (0 + 1)%N with 1%N. rewrite N.min_r by lia. cbn. lia.
    - exfalso. lia. }
  destruct Hcase as [H1 H2].
  set (sm := N.size (N.min (uadd da 1) (uadd db 1))) in *.
  split; [|split; [exact H2 | lia]].
  rewrite (uadd_small sm sA) by lia. rewrite (uadd_small (sm + sA) sB) by lia.
  rewrite uadd_small by lia. reflexivity.
Qed.

(* ---------------------------------------------------------------- THEOREM *)
Lemma zfv_nonempty_cases : forall p, zfv p = [] \/ zfv p <> [].
Proof. intro p. destruct (zfv p). left; reflexivity. right; discriminate. Qed.

Theorem kmul_correct : forall p q : list Z,
  fits_u32 (zfv p) (zfv q) = true ->
  kmul (zfv p) (zfv q) = Ok (zfv (zsmul p q)).
Proof.
  intros p q Hfits. unfold kmul.
  destruct (zfv_nonempty_cases p) as [Ea|Na].
  { rewrite Ea. cbn [is_empty]. apply f_equal. symmetry. apply z_from_vec_zero.
    apply z_nth_smul_zero_l. apply z_from_vec_nil_zero. exact Ea. }
  destruct (zfv_nonempty_cases q) as [Eb|Nb].
  { replace (is_empty (zfv p)) with false by (destruct (zfv p); [congruence|reflexivity]).
    rewrite Eb. cbn [is_empty]. apply f_equal. symmetry. apply z_from_vec_zero.
    apply z_smul_zero_r. apply z_from_vec_nil_zero. exact Eb. }
  replace (is_empty (zfv p)) with false by (destruct (zfv p); [congruence|reflexivity]).
  replace (is_empty (zfv q)) with false by (destruct (zfv q); [congruence|reflexivity]).
  destruct (max_abs_spec _ Na) as [A [EA [HA FA]]].
  destruct (max_abs_spec _ Nb) as [B [EB [HB FB]]].
  unfold fits_u32 in Hfits. rewrite EA, EB in Hfits. rewrite EA, EB. cbn [bind].
  apply andb_prop in Hfits. destruct Hfits as [Hd Hs].
  apply N.ltb_lt in Hd. apply N.ltb_lt in Hs.
  destruct (kron_bits_spec (zfv p) (zfv q) A B Hd Hs) as [sm [En [HM Hnw]]].
  set (n := kron_bits (zfv p) (zfv q) A B) in *.
  set (sA := N.size (Z.to_N A)) in *. set (sB := N.size (Z.to_N B)) in *.
  assert (Hn0 : (0 < n)%N) by lia.
  assert (HnW : (n < W32)%N) by lia.
  rewrite eval_bit_correct by (try assumption; lia).
  rewrite eval_bit_correct by (try assumption; lia). cbn [bind].
  rewrite <- z_seval_smul.
  set (X := 2 ^ Z.of_N n).
  (* a coefficient list of the product without trailing zeros *)
  set (c := dense Z 0 (zfv (zsmul p q))).
  assert (Hc : zpeq c (zsmul p q)).
  { intro k. unfold c. rewrite z_nth_dense by apply z_from_vec_wf.
    rewrite z_coeff_from_vec, Nat2N.id. reflexivity. }
  assert (Hlen : (0 + N.of_nat (length c) <= W32)%N).
  { pose proof (length_dense (zfv (zsmul p q))). pose proof (degree_smul_le p q). fold c in H. lia. }
  rewrite <- (z_seval_peq c (zsmul p q) X Hc).
  rewrite <- (z_from_vec_peq c (zsmul p q) Hc).
  (* every coefficient is below 2^(n-1) *)
  assert (Hbound : forall k, Z.abs (nth k c 0) < 2 ^ (Z.of_N n - 1)).
  { intro k. rewrite (Hc k).
    pose proof (smul_bound_l p q A B (S (N.to_nat (degree (zfv p)))) HA HB
                  (coeffs_bounded p A FA HA) (coeffs_bounded q B FB HB) (coeffs_vanish p) k) as B1.
    pose proof (smul_bound_l q p B A (S (N.to_nat (degree (zfv q)))) HB HA
                  (coeffs_bounded q B FB HB) (coeffs_bounded p A FA HA) (coeffs_vanish q) k) as B2.
    rewrite <- z_smul_comm in B2.
    set (v := Z.abs (nth k (zsmul p q) 0)) in *.
    assert (Hv : v <= Z.of_N (N.min (degree (zfv p) + 1) (degree (zfv q) + 1)) * A * B).
    { destruct (N.le_ge_cases (degree (zfv p) + 1) (degree (zfv q) + 1)) as [L|L].
      - rewrite N.min_l by exact L.
        replace (Z.of_N (degree (zfv p) + 1)) with (Z.of_nat (S (N.to_nat (degree (zfv p))))) by lia. exact B1.
      - rewrite N.min_r by exact L.
        replace (Z.of_N (degree (zfv q) + 1)) with (Z.of_nat (S (N.to_nat (degree (zfv q))))) by lia.
        replace (Z.of_nat (S (N.to_nat (degree (zfv q)))) * A * B)
          with (Z.of_nat (S (N.to_nat (degree (zfv q)))) * B * A) by ring. exact B2. }
    set (M := Z.of_N (N.min (degree (zfv p) + 1) (degree (zfv q) + 1))) in *.
    pose proof (size_pow_Z A HA) as PA. pose proof (size_pow_Z B HB) as PB. fold sA in PA. fold sB in PB.
    replace (Z.of_N n - 1) with (Z.of_N sm + Z.of_N sA + Z.of_N sB) by lia.
    rewrite !Z.pow_add_r by lia.
    assert (0 <= M) by (unfold M; lia).
    assert (0 < 2 ^ Z.of_N sm) by (apply Z.pow_pos_nonneg; lia).
    assert (A * B < 2 ^ Z.of_N sA * 2 ^ Z.of_N sB) by nia.
    assert (M * A * B <= 2 ^ Z.of_N sm * (A * B)) by nia.
    nia. }
  assert (Hfull : Z.shiftl 1 (Z.of_N n) = X) by apply Z.shiftl_1_l.
  rewrite Hfull.
  assert (Hthresh : X / 2 = 2 ^ (Z.of_N n - 1)).
  { unfold X. replace (Z.of_N n) with (Z.of_N n - 1 + 1) at 1 by lia.
    rewrite Z.pow_add_r by lia. change (2 ^ 1) with 2. apply Z.div_mul. lia. }
  rewrite Hthresh.
  set (S0 := zseval c X).
  assert (Hfuel : forall sa, sa = Z.abs S0 ->
            fuel_ok (S (S (N.to_nat (N.size (Z.to_N sa))))) sa 0).
  { intros sa Esa. left. pose proof (size_pow_Z sa ltac:(lia)).
    replace (Z.of_nat (S (S (N.to_nat (N.size (Z.to_N sa))))) - 2) with (Z.of_N (N.size (Z.to_N sa))) by lia.
    exact H. }
  destruct (S0 <? 0) eqn:Esgn.
  - (* negative value: the digits of -S0 are the negated coefficients *)
    assert (Hneg : Z.abs S0 = zseval (sneg Z Z.opp c) X) by (rewrite z_seval_sneg; fold S0; lia).
    rewrite (decode_correct (sneg Z Z.opp c) _ n (-1) (Z.abs S0) 0 0%N [] Hn0).
    + cbn [app]. f_equal. unfold sneg. rewrite map_map.
      replace (map (fun x => -1 * - x) c) with c. reflexivity.
      symmetry. rewrite <- (map_id c) at 2. apply map_ext. intro x. lia.
    + apply Forall_forall. intros x Hx. unfold sneg in Hx. apply in_map_iff in Hx.
      destruct Hx as [y [Ey Hy]]. subst x. destruct (In_nth c y 0 Hy) as [k [_ Ek]].
      rewrite <- Ek. rewrite Z.abs_opp. apply Hbound.
    + lia.
    + left; reflexivity.
    + fold X. lia.
    + apply Hfuel. reflexivity.
    + unfold sneg. rewrite map_length. exact Hlen.
    + constructor.
  - rewrite (decode_correct c _ n 1 (Z.abs S0) 0 0%N [] Hn0).
    + cbn [app]. f_equal.
      replace (map (Z.mul 1) c) with c. reflexivity.
      symmetry. rewrite <- (map_id c) at 2. apply map_ext. intro x. lia.
    + apply Forall_forall. intros x Hx. destruct (In_nth c x 0 Hx) as [k [_ Ek]].
      rewrite <- Ek. apply Hbound.
    + lia.
    + left; reflexivity.
    + fold X. fold S0. lia.
    + apply Hfuel. reflexivity.
    + exact Hlen.
    + constructor.
Qed.
