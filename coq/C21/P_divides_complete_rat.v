(* C21 obligation: rational coefficients: if b = a * Q with a <> 0 then divides_upoly(a, b) returns true with exactly the quotient Q *)
From SE Require Import Base.Prelude C21.PolyModel C21.PolySpec C21.PolyProofs.
From Coq Require Import QArith Qcanon.
Theorem C21_divides_complete_rat :
  forall pa pb Q,
    qdivides_fits (qfrom_vec pa) (qfrom_vec pb) = true -> (degree (qfrom_vec pb) < W32)%N ->
    qfrom_vec pa <> [] -> qpeq pb (qsmul pa Q) ->
    qdivides (qfrom_vec pa) (qfrom_vec pb) = Ok (Some (qfrom_vec Q)).
Proof. exact q_divides_complete. Qed.
Print Assumptions C21_divides_complete_rat.
