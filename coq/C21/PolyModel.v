(* C21 -- executable model of symengine's sparse univariate polynomial dictionaries.

   Transcribed from
     symengine/polys/upolybase.h      ODictWrapper: constructors, from_vec, +=, -=, unary minus,
                                      mul, pow, *=, degree, get_coeff, get_lc
     symengine/polys/uintpoly.h       bit_length, UIntDict::eval_bit, UIntDict::mul (Kronecker
                                      substitution), UIntDict::max_abs_coef
     symengine/polys/uintpoly.cpp     divides_upoly (integers)
     symengine/polys/uratpoly.cpp     divides_upoly (rationals)
     symengine/polys/usymenginepoly.h USymEnginePoly::eval, pow_upoly
     symengine/derivative.cpp         diff_upoly

   A std::map<unsigned int, Value> is a list of (key, value) pairs with strictly increasing
   keys; lower_bound / insert / erase / operator[] are functions on such lists.  Keys and
   bit counts are `unsigned int`: every addition / subtraction the C++ code performs in that
   type carries its wrap (Prelude: uadd, usub); the shift counts of eval_bit are `unsigned
   long` products (mod 2^64).  Dereferencing begin()/rbegin() of an empty map would be
   ErrOOB 0 0 (max_abs_coef, eval_bit: guarded by their only caller); loops whose termination
   is not structural are fuelled (ErrFuel).

   History: the code as first found had five defects (Kronecker bit budget one bit short for
   the signed digits, pow(a,0) not terminating, begin()/rbegin() of an empty map in
   UIntDict::mul and eval, 32-bit wrap of the eval_bit shift count, divides_upoly looping on
   the number of terms instead of the degree); they were repaired in /repo (commits 5045961,
   1c2174f, 9eb81d6, 5a3140b, 840a560; see known_findings.txt) and this model follows the
   repaired code. *)
From SE Require Import Base.Prelude.
From Coq Require Import QArith Qcanon.
Local Open Scope N_scope.
Local Open Scope res_scope.

(* ------------------------------------------------------------------------------------ *)
Section Generic.
  Variable C : Type.
  Variables (c0 c1 : C) (cadd cmul csub : C -> C -> C) (copp : C -> C).
  Variable ceqb : C -> C -> bool.
  Variable cofN : N -> C.                  (* Value(unsigned) *)
  Variable cdivx : C -> C -> option C.     (* exact quotient of leading coefficients *)

  Definition dict := list (N * C).

  Definition cnz (v : C) : bool := negb (ceqb v c0).
  Definition is_empty (d : dict) : bool := match d with [] => true | _ => false end.

  (* ODictWrapper(const std::map<Key, Value> &p): copies the entries whose value is not 0 *)
  Definition clean (d : dict) : dict := filter (fun kv => cnz (snd kv)) d.

  (* ODictWrapper::from_vec *)
  Fixpoint from_vec_aux (i : N) (v : list C) : dict :=
    match v with
    | [] => []
    | c :: r => if cnz c then (i, c) :: from_vec_aux (i + 1) r else from_vec_aux (i + 1) r
    end.
  Definition from_vec (v : list C) : dict := from_vec_aux 0 v.

  (* get_coeff: dict_.find(x) *)
  Fixpoint get_coeff (d : dict) (x : N) : C :=
    match d with
    | [] => c0
    | (k, v) :: r => if k =? x then v else get_coeff r x
    end.

  (* degree(): 0 for the empty dictionary, else rbegin()->first *)
  Definition degree (d : dict) : N := match rev d with [] => 0 | (k, _) :: _ => k end.
  (* get_lc(): 0 for the empty dictionary, else rbegin()->second *)
  Definition get_lc (d : dict) : C := match rev d with [] => c0 | (_, v) :: _ => v end.

  (* one iteration of operator+= : t = lower_bound(key); equal key: add, erase a zero sum;
     else insert {key, value} before t *)
  Fixpoint add_term (d : dict) (k : N) (v : C) : dict :=
    match d with
    | [] => [(k, v)]
    | (k', v') :: r =>
        if k' <? k then (k', v') :: add_term r k v
        else if k' =? k then
          let s := cadd v' v in if ceqb s c0 then r else (k', s) :: r
        else (k, v) :: d
    end.
  Definition dict_add (a b : dict) : dict :=
    fold_left (fun acc kv => add_term acc (fst kv) (snd kv)) b a.

  (* one iteration of operator-= : a missing key is inserted with the negated value *)
  Fixpoint sub_term (d : dict) (k : N) (v : C) : dict :=
    match d with
    | [] => [(k, copp v)]
    | (k', v') :: r =>
        if k' <? k then (k', v') :: sub_term r k v
        else if k' =? k then
          let s := csub v' v in if ceqb s c0 then r else (k', s) :: r
        else (k, copp v) :: d
    end.
  Definition dict_sub (a b : dict) : dict :=
    fold_left (fun acc kv => sub_term acc (fst kv) (snd kv)) b a.

  (* unary minus: every value *= -1 *)
  Definition dict_neg (a : dict) : dict :=
    map (fun kv => (fst kv, cmul (snd kv) (copp c1))) a.

  (* p.dict_[k] += v  (operator[] default-constructs a missing entry) *)
  Fixpoint upd_term (d : dict) (k : N) (v : C) : dict :=
    match d with
    | [] => [(k, cadd c0 v)]
    | (k', v') :: r =>
        if k' <? k then (k', v') :: upd_term r k v
        else if k' =? k then (k', cadd v' v) :: r
        else (k, cadd c0 v) :: d
    end.

  (* r.dict_[k] = v *)
  Fixpoint set_term (d : dict) (k : N) (v : C) : dict :=
    match d with
    | [] => [(k, v)]
    | (k', v') :: r =>
        if k' <? k then (k', v') :: set_term r k v
        else if k' =? k then (k', v) :: r
        else (k, v) :: d
    end.

  (* ODictWrapper::mul: the exponent sum is computed in `unsigned int` *)
  Definition mul_row (i1 : N * C) (b p : dict) : dict :=
    fold_left (fun p i2 => upd_term p (uadd (fst i1) (fst i2)) (cmul (snd i1) (snd i2))) b p.
  Definition mul_acc (a b : dict) : dict :=
    fold_left (fun p i1 => mul_row i1 b p) a [].
  Definition gmul (a b : dict) : dict :=
    if is_empty a then a else if is_empty b then b else clean (mul_acc a b).

  (* operator*= with Wrapper::mul = mulf: empty cases, then `other` a single constant term
     (every value *= that constant), else the container's mul *)
  Definition has_key0 (d : dict) : bool := existsb (fun kv => fst kv =? 0) d.
  Definition imul (mulf : dict -> dict -> res dict) (a b : dict) : res dict :=
    match a, b with
    | [], _ => Ok a
    | _, [] => Ok []
    | _, (_, t) :: rb =>
        if is_empty rb && has_key0 b
        then Ok (map (fun kv => (fst kv, cmul (snd kv) t)) a)
        else mulf a b
    end.

  (* ODictWrapper::pow: p == 0 returns 1; then `while (p != 1)`; the fuel is the bit length
     of p plus one *)
  Fixpoint pow_loop (mulf : dict -> dict -> res dict) (fuel : nat) (tmp rs : dict) (p : N)
    : res (dict * dict) :=
    if p =? 1 then Ok (tmp, rs) else
    match fuel with
    | O => ErrFuel
    | S f =>
        if N.even p then
          do t <- mulf tmp tmp; pow_loop mulf f t rs (p / 2)
        else
          do r <- mulf rs tmp; do t <- mulf tmp tmp; pow_loop mulf f t r (p / 2)
    end.
  Definition one_dict : dict := [(0, c1)].          (* Wrapper res(1) *)
  Definition pow (mulf : dict -> dict -> res dict) (a : dict) (p : N) : res dict :=
    if p =? 0 then Ok one_dict else
    do tr <- pow_loop mulf (S (N.to_nat (N.size p))) a one_dict p;
    mulf (snd tr) (fst tr).

  (* mp_pow_ui *)
  Definition cpow (x : C) (n : N) : C :=
    match n with N0 => c1 | Npos p => Pos.iter_op cmul p x end.

  (* USymEnginePoly::eval: 0 for the empty dictionary, else Horner from the highest key *)
  Definition eval_step (x : C) (st : C * N) (kv : N * C) : C * N :=
    (cadd (snd kv) (cmul (cpow x (snd st - fst kv)) (fst st)), fst kv).
  Definition poly_eval (d : dict) (x : C) : C :=
    match rev d with
    | [] => c0
    | (k0, _) :: _ =>
        let st := fold_left (eval_step x) (rev d) (c0, k0) in
        cmul (fst st) (cpow x (snd st))
    end.

  (* diff_upoly (variable equal to the generator): d[k - 1] = v * k for k != 0, then the
     map constructor drops zero values *)
  Definition dict_diff (d : dict) : dict :=
    clean (map (fun kv => (fst kv - 1, cmul (snd kv) (cofN (fst kv))))
               (filter (fun kv => negb (fst kv =? 0)) d)).

  (* divides_upoly(a, b): does a divide b; mulf = operator* of the container *)
  Definition div_continue (a b : dict) : bool := negb (is_empty b) && (degree a <=? degree b).
  Fixpoint div_loop (mulf : dict -> dict -> res dict) (fuel : nat) (a b rq : dict)
    : res (option (dict * dict)) :=
    if negb (div_continue a b) then Ok (Some (b, rq)) else
    match fuel with
    | O => ErrFuel
    | S f =>
        match cdivx (get_lc b) (get_lc a) with
        | None => Ok None
        | Some q =>
            let k := usub (degree b) (degree a) in
            do prod <- mulf a (clean [(k, q)]);
            div_loop mulf f a (dict_sub b prod) (set_term rq k q)
        end
    end.
  Definition divides (mulf : dict -> dict -> res dict) (a b : dict) : res (option dict) :=
    if is_empty a then Ok None else
    do r <- div_loop mulf (S (S (N.to_nat (degree b)))) a b [];
    match r with
    | None => Ok None
    | Some (b', rq) => if is_empty b' then Ok (Some (clean rq)) else Ok None
    end.
End Generic.

Arguments is_empty {C} d.
Arguments degree {C} d.
Arguments set_term {C} d k v.

(* ------------------------------------------------------------------------------------ *)
(* UIntDict: integer coefficients *)
Local Open Scope Z_scope.

Definition zdict := list (N * Z).

Definition zdivx (x y : Z) : option Z :=      (* mp_tdiv_qr; `if (r != 0) return false` *)
  let qr := Z.quotrem x y in if snd qr =? 0 then Some (fst qr) else None.

(* bit_length: number of iterations of `while (t > 0) { count++; t = t >> 1; }` *)
Definition bit_length (n : N) : N := N.size n.

(* UIntDict::max_abs_coef: starts from begin()->second *)
Definition max_abs_coef (d : zdict) : res Z :=
  match d with
  | [] => ErrOOB 0 0
  | (_, v) :: _ =>
      Ok (fold_left (fun cur kv => if cur <? Z.abs (snd kv) then Z.abs (snd kv) else cur) d (Z.abs v))
  end.

(* the shift count static_cast<unsigned long>(x) * (last_deg - key) *)
Definition umul64 (a b : N) : N := ((a * b) mod W64)%N.

(* UIntDict::eval_bit: value at 2^x, from the highest key down *)
Definition evb_step (x : N) (st : Z * N) (kv : N * Z) : Z * N :=
  (Z.shiftl (fst st) (Z.of_N (umul64 x (snd st - fst kv)%N)) + snd kv, fst kv).
Definition eval_bit (d : zdict) (x : N) : res Z :=
  match rev d with
  | [] => ErrOOB 0 0
  | (k0, _) :: _ =>
      let st := fold_left (evb_step x) (rev d) (0, k0) in
      Ok (Z.shiftl (fst st) (Z.of_N (umul64 x (snd st))))
  end.

(* the digit loop of UIntDict::mul *)
Fixpoint decode (fuel : nat) (n : N) (full thresh mask sgn : Z) (s carry : Z) (deg : N) (r : zdict)
  : res zdict :=
  if (s =? 0) && (carry =? 0) then Ok r else
  match fuel with
  | O => ErrFuel
  | S f =>
      let temp := Z.land s mask in
      if temp <? thresh then
        let rs := sgn * (temp + carry) in
        decode f n full thresh mask sgn (Z.shiftr s (Z.of_N n)) 0 (uadd deg 1)
               (if rs =? 0 then r else set_term r deg rs)
      else
        let rs := sgn * (temp - full + carry) in
        decode f n full thresh mask sgn (Z.shiftr s (Z.of_N n)) 1 (uadd deg 1)
               (if rs =? 0 then r else set_term r deg rs)
  end.

(* the bit budget N of UIntDict::mul (unsigned int sums) *)
Definition kron_bits (a b : zdict) (ma mb : Z) : N :=
  uadd (uadd (uadd (bit_length (N.min (uadd (degree a) 1) (uadd (degree b) 1)))
                   (bit_length (Z.to_N ma))) (bit_length (Z.to_N mb))) 1.

Definition kmul (a b : zdict) : res zdict :=
  if is_empty a then Ok a else
  if is_empty b then Ok b else
  do ma <- max_abs_coef a;
  do mb <- max_abs_coef b;
  let n := kron_bits a b ma mb in
  let full := Z.shiftl 1 (Z.of_N n) in
  let thresh := full / 2 in
  let mask := full - 1 in
  do ea <- eval_bit a n;
  do eb <- eval_bit b n;
  let s := ea * eb in
  let sgn := if s <? 0 then -1 else 1 in
  let sa := Z.abs s in
  decode (S (S (N.to_nat (N.size (Z.to_N sa))))) n full thresh mask sgn sa 0 0%N [].

(* instances of the generic container for Z *)
Definition zofN (k : N) : Z := Z.of_N k.
Definition zclean := clean Z 0 Z.eqb.
Definition zfrom_vec := from_vec Z 0 Z.eqb.
Definition zcoeff := get_coeff Z 0.
Definition zlc := get_lc Z 0.
Definition zadd := dict_add Z 0 Z.add Z.eqb.
Definition zsub := dict_sub Z 0 Z.sub Z.opp Z.eqb.
Definition zneg := dict_neg Z 1 Z.mul Z.opp.
Definition zgmul := gmul Z 0 Z.add Z.mul Z.eqb.       (* ODictWrapper::mul at Value = integer *)
Definition zimul := imul Z Z.mul kmul.                (* mul_upoly *)
Definition zpow := pow Z 1 kmul.                      (* pow_upoly *)
Definition zeval := poly_eval Z 0 1 Z.add Z.mul.
Definition zdiff := dict_diff Z 0 Z.mul Z.eqb zofN.
Definition zdivides := divides Z 0 Z.sub Z.opp Z.eqb zdivx kmul.

(* Representation limits of `unsigned int` in UIntDict::mul: the exponents of the product and
   the bit budget must be representable. *)
Definition fits_u32 (a b : zdict) : bool :=
  match max_abs_coef a, max_abs_coef b with
  | Ok ma, Ok mb =>
      ((degree a + degree b <? W32)
       && (N.size (N.min (degree a + 1) (degree b + 1)) + N.size (Z.to_N ma) + N.size (Z.to_N mb) + 1 <? W32))%N
  | _, _ => true       (* an empty operand: the product is returned without any arithmetic *)
  end.
(* ODictWrapper::mul with that check made observable; used to state the limits of runs that
   multiply repeatedly (pow, divides) *)
Definition EXN_LIMIT : N := 9%N.
Definition zgmul_chk (a b : zdict) : res zdict :=
  if fits_u32 a b then Ok (zgmul a b) else ErrExn EXN_LIMIT.
Definition zpow_fits (a : zdict) (p : N) : bool := is_ok (pow Z 1 zgmul_chk a p).
Definition zdivides_fits (a b : zdict) : bool :=
  is_ok (divides Z 0 Z.sub Z.opp Z.eqb zdivx zgmul_chk a b).

(* ------------------------------------------------------------------------------------ *)
(* URatDict: rational coefficients, canonical fractions (Qc) *)
Definition qdict := list (N * Qc).
Definition q0 : Qc := Q2Qc 0.
Definition q1 : Qc := Q2Qc 1.
Definition qeqb (x y : Qc) : bool := Qeq_bool x y.
Definition qofN (k : N) : Qc := Q2Qc (inject_Z (Z.of_N k)).
Definition qdivx (x y : Qc) : option Qc := Some (Qcdiv x y).
Definition qclean := clean Qc q0 qeqb.
Definition qfrom_vec := from_vec Qc q0 qeqb.
Definition qcoeff := get_coeff Qc q0.
Definition qlc := get_lc Qc q0.
Definition qadd := dict_add Qc q0 Qcplus qeqb.
Definition qsub := dict_sub Qc q0 Qcminus Qcopp qeqb.
Definition qneg := dict_neg Qc q1 Qcmult Qcopp.
Definition qgmul := gmul Qc q0 Qcplus Qcmult qeqb.
Definition qgmul_res (a b : qdict) : res qdict := Ok (qgmul a b).
Definition qimul := imul Qc Qcmult qgmul_res.
Definition qpow := pow Qc q1 qgmul_res.
Definition qeval := poly_eval Qc q0 q1 Qcplus Qcmult.
Definition qdiff := dict_diff Qc q0 Qcmult qeqb qofN.
Definition qdivides := divides Qc q0 Qcminus Qcopp qeqb qdivx qgmul_res.
(* the representation limit of ODictWrapper::mul (exponents) made observable, as above *)
Definition qgmul_chk (a b : qdict) : res qdict :=
  if (degree a + degree b <? W32)%N then Ok (qgmul a b) else ErrExn EXN_LIMIT.
Definition qpow_fits (a : qdict) (p : N) : bool := is_ok (pow Qc q1 qgmul_chk a p).
Definition qdivides_fits (a b : qdict) : bool :=
  is_ok (divides Qc q0 Qcminus Qcopp qeqb qdivx qgmul_chk a b).
