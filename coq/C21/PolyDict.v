(* C21 -- the dictionary operations of the model (ODictWrapper) against schoolbook arithmetic
   on coefficient lists, for any coefficient ring with decidable equality. *)
From SE Require Import Base.Prelude C21.PolyModel C21.PolySpec C21.PolyList.
From Coq Require Import Ring Lia ZifyBool ZifyNat ZifyN.
Local Open Scope N_scope.

Section DictProofs.
  Variable C : Type.
  Variables (c0 c1 : C) (cadd cmul csub : C -> C -> C) (copp : C -> C).
  Variable ceqb : C -> C -> bool.
  Variable cofN : N -> C.
  Hypothesis Crt : ring_theory c0 c1 cadd cmul csub copp eq.
  Hypothesis ceqb_spec : forall x y, ceqb x y = true <-> x = y.
  Add Ring CRing2 : Crt.

  Local Notation "a ⊕ b" := (cadd a b) (at level 50, left associativity).
  Local Notation "a ⊗ b" := (cmul a b) (at level 40, left associativity).
  Local Notation dict := (list (N * C)).
  Local Notation coeff := (get_coeff C c0).
  Local Notation from_vec := (from_vec C c0 ceqb).
  Local Notation from_vec_aux := (from_vec_aux C c0 ceqb).
  Local Notation clean := (clean C c0 ceqb).
  Local Notation cnz := (cnz C c0 ceqb).
  Local Notation wf := (wf C c0).
  Local Notation nonzero := (nonzero C c0).
  Local Notation sadd := (sadd C cadd).
  Local Notation sneg := (sneg C copp).
  Local Notation ssub := (ssub C cadd copp).
  Local Notation smul := (smul C c0 cadd cmul).
  Local Notation seval := (seval C c0 cadd cmul).
  Local Notation peq := (@peq C c0).
  Local Notation cf p k := (nth k p c0).
  Local Notation above k d := (Forall (fun kv : N * C => k < fst kv) d).

  Lemma cnz_true : forall v, cnz v = true <-> v <> c0.
  Proof.
    intro v. unfold PolyModel.cnz. destruct (ceqb v c0) eqn:E; cbn.
    - apply ceqb_spec in E. split; [discriminate | intro H; contradiction].
    - split; [|reflexivity]. intros _ H. apply ceqb_spec in H. congruence.
  Qed.
  Lemma cnz_false : forall v, cnz v = false <-> v = c0.
  Proof.
    intro v. unfold PolyModel.cnz. destruct (ceqb v c0) eqn:E; cbn.
    - apply ceqb_spec in E. split; [intros _; exact E | reflexivity].
    - split; [discriminate|]. intro H. apply ceqb_spec in H. congruence.
  Qed.
  Lemma ceqb_false : forall x y, ceqb x y = false <-> x <> y.
  Proof.
    intros. destruct (ceqb x y) eqn:E.
    - apply ceqb_spec in E. split; [discriminate | contradiction].
    - split; [|reflexivity]. intros _ H. apply ceqb_spec in H. congruence.
  Qed.

  (* ---------------------------------------------------------------- basic facts *)
  Lemma above_weaken : forall (d : dict) j k, j <= k -> above k d -> above j d.
  Proof.
    intros d j k Hjk H. eapply Forall_impl; [|exact H]. cbn. intros a Ha. lia.
  Qed.

  Lemma coeff_above : forall (d : dict) k j, above k d -> j <= k -> coeff d j = c0.
  Proof.
    induction d as [|[k' v'] d IH]; intros k j H Hj; cbn [get_coeff]. reflexivity.
    inversion H as [|? ? Hk Hd]; subst. cbn [fst] in Hk.
    destruct (k' =? j) eqn:E. lia. eapply IH; eauto.
  Qed.

  Lemma sorted_tail : forall kv (d : dict), sorted (kv :: d) -> sorted d.
  Proof. intros [k v] d H. apply H. Qed.

  (* dictionaries are determined by their coefficients *)
  Lemma dict_ext : forall a b : dict, wf a -> wf b -> (forall k, coeff a k = coeff b k) -> a = b.
  Proof.
    induction a as [|[k v] a IH]; intros b [Sa Na] [Sb Nb] H.
    - destruct b as [|[k' v'] b]. reflexivity.
      exfalso. specialize (H k'). cbn [get_coeff] in H. rewrite N.eqb_refl in H.
      inversion Nb; subst. cbn in *. congruence.
    - destruct b as [|[k' v'] b].
      + exfalso. specialize (H k). cbn [get_coeff] in H. rewrite N.eqb_refl in H.
        inversion Na; subst. cbn in *. congruence.
      + cbn [sorted] in Sa, Sb. destruct Sa as [Aa Sa]. destruct Sb as [Ab Sb].
        inversion Na as [|? ? Hv Na']; subst. inversion Nb as [|? ? Hv' Nb']; subst.
        cbn [snd] in Hv, Hv'.
        assert (k = k').
        { destruct (N.lt_trichotomy k k') as [L|[E|L]]; [|exact E|]; exfalso.
          - specialize (H k). cbn [get_coeff] in H. rewrite N.eqb_refl in H.
            replace (k' =? k) with false in H by lia.
            rewrite (coeff_above b k' k Ab) in H by lia. congruence.
          - specialize (H k'). cbn [get_coeff] in H. rewrite N.eqb_refl in H.
            replace (k =? k') with false in H by lia.
            rewrite (coeff_above a k k' Aa) in H by lia. congruence. }
        subst k'.
        assert (v = v').
        { specialize (H k). cbn [get_coeff] in H. rewrite N.eqb_refl in H. exact H. }
        subst v'. f_equal. apply IH; [split; assumption | split; assumption |].
        intro j. destruct (N.le_gt_cases j k) as [L|L].
        * rewrite (coeff_above a k j Aa L), (coeff_above b k j Ab L). reflexivity.
        * specialize (H j). cbn [get_coeff] in H.
          replace (k =? j) with false in H by lia. exact H.
  Qed.

  (* ---------------------------------------------------------------- from_vec *)
  Lemma from_vec_aux_above : forall p i j, j < i -> above j (from_vec_aux i p).
  Proof.
    induction p as [|a p IH]; intros i j H; cbn [PolyModel.from_vec_aux]. constructor.
    destruct (cnz a).
    - constructor. cbn. exact H. apply IH. lia.
    - apply IH. lia.
  Qed.

  Lemma from_vec_aux_wf : forall p i, wf (from_vec_aux i p).
  Proof.
    induction p as [|a p IH]; intros i; cbn [PolyModel.from_vec_aux].
    - split; [exact I | constructor].
    - destruct (cnz a) eqn:E.
      + destruct (IH (i + 1)) as [S Nz]. split.
        * cbn [sorted]. split; [apply from_vec_aux_above; lia | exact S].
        * constructor; [cbn; apply cnz_true; exact E | exact Nz].
      + apply IH.
  Qed.

  Lemma from_vec_wf : forall p, wf (from_vec p).
  Proof. intro p. apply from_vec_aux_wf. Qed.

  Lemma coeff_from_vec_aux : forall p i k,
    coeff (from_vec_aux i p) k = if k <? i then c0 else cf p (N.to_nat (k - i)).
  Proof.
    induction p as [|a p IH]; intros i k; cbn [PolyModel.from_vec_aux].
    - cbn [get_coeff]. destruct (k <? i); [reflexivity|]. destruct (N.to_nat (k - i)); reflexivity.
    - assert (Hrest : coeff (from_vec_aux (i + 1) p) k
                      = if k <? i + 1 then c0 else cf p (N.to_nat (k - (i + 1)))) by apply IH.
      destruct (cnz a) eqn:E.
      + cbn [get_coeff]. destruct (i =? k) eqn:Eik.
        * assert (i = k) by lia. subst k. replace (i <? i) with false by lia.
          replace (N.to_nat (i - i)) with O by lia. reflexivity.
        * rewrite Hrest. destruct (k <? i) eqn:E1.
          -- replace (k <? i + 1) with true by lia. reflexivity.
          -- replace (k <? i + 1) with false by lia.
             replace (N.to_nat (k - i)) with (S (N.to_nat (k - (i + 1)))) by lia. reflexivity.
      + apply cnz_false in E. subst a. rewrite Hrest.
        destruct (k <? i) eqn:E1.
        * replace (k <? i + 1) with true by lia. reflexivity.
        * destruct (k =? i) eqn:E2.
          -- assert (k = i) by lia. subst k. replace (i <? i + 1) with true by lia.
             replace (N.to_nat (i - i)) with O by lia. reflexivity.
          -- replace (k <? i + 1) with false by lia.
             replace (N.to_nat (k - i)) with (S (N.to_nat (k - (i + 1)))) by lia. reflexivity.
  Qed.

  Lemma coeff_from_vec : forall p k, coeff (from_vec p) k = scoeff C c0 p k.
  Proof.
    intros. unfold PolyModel.from_vec, scoeff. rewrite coeff_from_vec_aux.
    replace (k <? 0) with false by lia. rewrite N.sub_0_r. reflexivity.
  Qed.

  Lemma from_vec_peq : forall p q, peq p q -> from_vec p = from_vec q.
  Proof.
    intros p q H. apply dict_ext; try apply from_vec_wf.
    intro k. rewrite !coeff_from_vec. unfold scoeff. apply H.
  Qed.

  Lemma from_vec_ext : forall (d : dict) p, wf d -> (forall k, coeff d k = scoeff C c0 p k) -> d = from_vec p.
  Proof.
    intros d p Hd H. apply dict_ext; [exact Hd | apply from_vec_wf |].
    intro k. rewrite coeff_from_vec. apply H.
  Qed.

  (* ---------------------------------------------------------------- degree, lc *)
  Lemma degree_cons : forall k v (d : dict),
    degree ((k, v) :: d) = match d with [] => k | _ => degree d end.
  Proof.
    intros. unfold degree. cbn [rev]. destruct d as [|kv d]. reflexivity.
    destruct (rev (kv :: d)) as [|[k2 v2] l] eqn:E.
    - exfalso. apply (f_equal (@length _)) in E. rewrite rev_length in E. discriminate.
    - reflexivity.
  Qed.

  Lemma get_lc_cons : forall k v (d : dict),
    get_lc C c0 ((k, v) :: d) = match d with [] => v | _ => get_lc C c0 d end.
  Proof.
    intros. unfold get_lc. cbn [rev]. destruct d as [|kv d]. reflexivity.
    destruct (rev (kv :: d)) as [|[k2 v2] l] eqn:E.
    - exfalso. apply (f_equal (@length _)) in E. rewrite rev_length in E. discriminate.
    - reflexivity.
  Qed.

  Lemma keys_le_degree : forall d : dict, sorted d -> Forall (fun kv => fst kv <= degree d) d.
  Proof.
    induction d as [|[k v] d IH]; intros S. constructor.
    cbn [sorted] in S. destruct S as [A S]. rewrite degree_cons.
    destruct d as [|kv d].
    - constructor. cbn. lia. constructor.
    - specialize (IH S). constructor.
      + cbn [fst]. inversion A; subst. inversion IH; subst. lia.
      + exact IH.
  Qed.

  Lemma coeff_gt_degree : forall (d : dict) j, sorted d -> degree d < j -> coeff d j = c0.
  Proof.
    intros d j S H. pose proof (keys_le_degree d S) as K.
    induction d as [|[k v] d IH]. reflexivity.
    cbn [get_coeff]. inversion K; subst. cbn [fst] in *.
    destruct (k =? j) eqn:E. lia.
    destruct d as [|kv d]. reflexivity.
    rewrite degree_cons in *. apply IH; auto. eapply sorted_tail; eauto.
  Qed.

  Lemma coeff_degree_lc : forall d : dict, sorted d -> coeff d (degree d) = get_lc C c0 d.
  Proof.
    induction d as [|[k v] d IH]; intros S. reflexivity.
    rewrite degree_cons, get_lc_cons. cbn [get_coeff].
    destruct d as [|[k2 v2] d]. rewrite N.eqb_refl. reflexivity.
    destruct S as [A S].
    pose proof (keys_le_degree _ S) as K. inversion A; subst. inversion K; subst.
    cbn [fst] in *.
    replace (k =? degree ((k2, v2) :: d)) with false by lia. apply IH. exact S.
  Qed.

  Lemma get_lc_nonzero : forall d : dict, nonzero d -> d <> [] -> get_lc C c0 d <> c0.
  Proof.
    induction d as [|[k v] d IH]; intros Nz Hne. congruence.
    rewrite get_lc_cons. inversion Nz; subst. destruct d as [|kv d]. assumption.
    apply IH. assumption. discriminate.
  Qed.

  (* the degree of from_vec p is the degree of the polynomial p denotes *)
  Lemma degree_from_vec : forall p, is_degree C c0 p (degree (from_vec p)).
  Proof.
    intro p. destruct (from_vec_wf p) as [S Nz]. split.
    - intros k Hk. rewrite <- coeff_from_vec. apply coeff_gt_degree; assumption.
    - destruct (from_vec p) as [|kv d] eqn:E.
      + right. split. reflexivity. intro k. rewrite <- coeff_from_vec, E. reflexivity.
      + left. rewrite <- coeff_from_vec, E. rewrite coeff_degree_lc by exact S.
        apply get_lc_nonzero. exact Nz. discriminate.
  Qed.

  Lemma get_lc_from_vec : forall p, get_lc C c0 (from_vec p) = scoeff C c0 p (degree (from_vec p)).
  Proof.
    intro p. rewrite <- coeff_from_vec. symmetry. apply coeff_degree_lc. apply from_vec_wf.
  Qed.

  (* every well-formed dictionary is from_vec of its coefficient list *)
  Lemma nth_dense : forall (d : dict) k, sorted d ->
    cf (dense C c0 d) k = coeff d (N.of_nat k).
  Proof.
    intros d k S. unfold dense. destruct d as [|kv d]. destruct k; reflexivity.
    set (dd := kv :: d) in *.
    destruct (Nat.lt_ge_cases k (S (N.to_nat (degree dd)))) as [L|L].
    - rewrite (nth_indep _ c0 (coeff dd (N.of_nat O))) by (rewrite map_length, seq_length; exact L).
      rewrite (map_nth (fun i => coeff dd (N.of_nat i))). rewrite seq_nth by exact L. reflexivity.
    - rewrite nth_overflow by (rewrite map_length, seq_length; exact L).
      symmetry. apply coeff_gt_degree. exact S. lia.
  Qed.

  Lemma from_vec_dense : forall d : dict, wf d -> from_vec (dense C c0 d) = d.
  Proof.
    intros d W. symmetry. apply from_vec_ext. exact W.
    intro k. unfold scoeff. rewrite nth_dense by apply W. rewrite N2Nat.id. reflexivity.
  Qed.

  (* ---------------------------------------------------------------- clean *)
  Lemma clean_above : forall (d : dict) k, above k d -> above k (clean d).
  Proof.
    intros d k H. unfold PolyModel.clean. apply Forall_forall. intros x Hx.
    apply filter_In in Hx. rewrite Forall_forall in H. apply H. apply Hx.
  Qed.

  Lemma clean_sorted : forall d : dict, sorted d -> sorted (clean d).
  Proof.
    induction d as [|[k v] d IH]; intros S. exact I.
    cbn [sorted] in S. destruct S as [A S]. unfold PolyModel.clean. cbn [filter snd].
    fold (clean d). destruct (cnz v).
    - cbn [sorted]. split. apply clean_above. exact A. apply IH. exact S.
    - apply IH. exact S.
  Qed.

  Lemma clean_nonzero : forall d : dict, nonzero (clean d).
  Proof.
    intro d. unfold PolySpec.nonzero. apply Forall_forall. intros x Hx.
    apply filter_In in Hx. apply cnz_true. apply Hx.
  Qed.

  Lemma coeff_clean : forall (d : dict) j, sorted d -> coeff (clean d) j = coeff d j.
  Proof.
    induction d as [|[k v] d IH]; intros j S. reflexivity.
    cbn [sorted] in S. destruct S as [A S]. unfold PolyModel.clean. cbn [filter snd].
    fold (clean d). destruct (cnz v) eqn:E; cbn [get_coeff].
    - rewrite IH by exact S. reflexivity.
    - apply cnz_false in E. subst v. rewrite IH by exact S.
      destruct (k =? j) eqn:Ek; [|reflexivity].
      apply (coeff_above d k j A). lia.
  Qed.

  Lemma clean_wf_id : forall d : dict, nonzero d -> clean d = d.
  Proof.
    induction d as [|[k v] d IH]; intros Nz. reflexivity.
    inversion Nz; subst. unfold PolyModel.clean. cbn [filter snd]. fold (clean d).
    cbn [snd] in *. replace (cnz v) with true by (symmetry; apply cnz_true; assumption).
    rewrite IH by assumption. reflexivity.
  Qed.

  (* ---------------------------------------------------------------- += and -= *)
  Section TermOps.
    (* add_term and sub_term share their shape: combine an existing value with [g],
       insert [h v] for a missing key *)
    Variable g : C -> C -> C.
    Variable h : C -> C.
    Fixpoint gen_term (d : dict) (k : N) (v : C) : dict :=
      match d with
      | [] => [(k, h v)]
      | (k', v') :: r =>
          if k' <? k then (k', v') :: gen_term r k v
          else if k' =? k then
            let s := g v' v in if ceqb s c0 then r else (k', s) :: r
          else (k, h v) :: d
      end.
    Hypothesis g_zero : forall v, g c0 v = h v.

    Lemma gen_term_above : forall d k v m, above m d -> m < k -> above m (gen_term d k v).
    Proof.
      induction d as [|[k' v'] d IH]; intros k v m A Hm; cbn [gen_term].
      - constructor. exact Hm. constructor.
      - inversion A; subst. cbn [fst] in *.
        destruct (k' <? k). constructor. assumption. apply IH; assumption.
        destruct (k' =? k). destruct (ceqb (g v' v) c0). assumption. constructor; assumption.
        constructor. exact Hm. exact A.
    Qed.

    Lemma gen_term_sorted : forall d k v, sorted d -> sorted (gen_term d k v).
    Proof.
      induction d as [|[k' v'] d IH]; intros k v S; cbn [gen_term]. cbn. auto.
      cbn [sorted] in S. destruct S as [A S].
      destruct (k' <? k) eqn:E1.
      - cbn [sorted]. split. apply gen_term_above. exact A. lia. apply IH. exact S.
      - destruct (k' =? k) eqn:E2.
        + destruct (ceqb (g v' v) c0). exact S. cbn [sorted]. split; assumption.
        + cbn [sorted]. split; [|split; assumption].
          constructor. cbn. lia. eapply above_weaken; [|exact A]. lia.
    Qed.

    Lemma coeff_gen_term : forall d k v j, sorted d ->
      coeff (gen_term d k v) j = if j =? k then g (coeff d k) v else coeff d j.
    Proof.
      induction d as [|[k' v'] d IH]; intros k v j S; cbn [gen_term get_coeff].
      - rewrite g_zero. rewrite (N.eqb_sym k j). destruct (j =? k); reflexivity.
      - cbn [sorted] in S. destruct S as [A S].
        destruct (k' <? k) eqn:E1.
        + cbn [get_coeff]. rewrite IH by exact S.
          replace (k' =? k) with false by lia.
          destruct (k' =? j) eqn:E3; [|reflexivity]. replace (j =? k) with false by lia. reflexivity.
        + destruct (k' =? k) eqn:E2.
          * assert (k' = k) by lia. subst k'.
            destruct (ceqb (g v' v) c0) eqn:E3.
            -- apply ceqb_spec in E3. destruct (j =? k) eqn:E4.
               ++ assert (j = k) by lia. subst j. rewrite E3. apply (coeff_above d k k A). lia.
               ++ replace (k =? j) with false by lia. reflexivity.
            -- cbn [get_coeff]. destruct (j =? k) eqn:E4.
               ++ replace (k =? j) with true by lia. reflexivity.
               ++ replace (k =? j) with false by lia. reflexivity.
          * cbn [get_coeff]. rewrite (N.eqb_sym k j). destruct (j =? k) eqn:E4.
            -- assert (j = k) by lia. subst j.
               rewrite (coeff_above d k' k A) by lia. symmetry. apply g_zero.
            -- reflexivity.
    Qed.

    Lemma gen_term_nonzero : forall d k v, nonzero d -> h v <> c0 -> nonzero (gen_term d k v).
    Proof.
      induction d as [|[k' v'] d IH]; intros k v Nz Hv; cbn [gen_term].
      - constructor. exact Hv. constructor.
      - inversion Nz; subst.
        destruct (k' <? k). constructor. assumption. apply IH; assumption.
        destruct (k' =? k).
        + destruct (ceqb (g v' v) c0) eqn:E. assumption.
          constructor. cbn. apply ceqb_false. exact E. assumption.
        + constructor. exact Hv. exact Nz.
    Qed.

    Hypothesis g_zero_r : forall x, g x c0 = x.

    Lemma gen_fold_spec : forall (b a : dict), sorted a -> sorted b ->
      let r := fold_left (fun acc kv => gen_term acc (fst kv) (snd kv)) b a in
      sorted r /\ forall j, coeff r j = g (coeff a j) (coeff b j).
    Proof.
      induction b as [|[k v] b IH]; intros a Sa Sb; cbn [fold_left fst snd].
      - split. exact Sa. intro j. cbn [get_coeff]. symmetry. apply g_zero_r.
      - cbn [sorted] in Sb. destruct Sb as [Ab Sb].
        destruct (IH (gen_term a k v) (gen_term_sorted a k v Sa) Sb) as [Sr Hr].
        split. exact Sr. intro j. cbn [get_coeff].
        rewrite (Hr j). rewrite coeff_gen_term by exact Sa.
        destruct (k =? j) eqn:E.
        + assert (k = j) by lia. subst j. rewrite N.eqb_refl.
          rewrite (coeff_above b k k Ab) by lia. apply g_zero_r.
        + replace (j =? k) with false by lia. reflexivity.
    Qed.

    Lemma gen_fold_nonzero : forall (b a : dict), nonzero a -> Forall (fun kv => h (snd kv) <> c0) b ->
      nonzero (fold_left (fun acc kv => gen_term acc (fst kv) (snd kv)) b a).
    Proof.
      induction b as [|[k v] b IH]; intros a Na Nb; cbn [fold_left fst snd]. exact Na.
      inversion Nb; subst. apply IH; [|assumption]. apply gen_term_nonzero; assumption.
    Qed.
  End TermOps.

  Lemma add_term_gen : forall d k v, add_term C c0 cadd ceqb d k v = gen_term cadd (fun x => x) d k v.
  Proof. induction d as [|[k' v'] d IH]; intros; cbn [add_term gen_term]. reflexivity. rewrite IH. reflexivity. Qed.
  Lemma sub_term_gen : forall d k v, sub_term C c0 csub copp ceqb d k v = gen_term csub copp d k v.
  Proof. induction d as [|[k' v'] d IH]; intros; cbn [sub_term gen_term]. reflexivity. rewrite IH. reflexivity. Qed.

  Lemma dict_add_gen : forall b a, dict_add C c0 cadd ceqb a b
    = fold_left (fun acc kv => gen_term cadd (fun x => x) acc (fst kv) (snd kv)) b a.
  Proof.
    unfold dict_add. induction b as [|kv b IH]; intro a; cbn [fold_left]. reflexivity.
    rewrite add_term_gen. apply IH.
  Qed.
  Lemma dict_sub_gen : forall b a, dict_sub C c0 csub copp ceqb a b
    = fold_left (fun acc kv => gen_term csub copp acc (fst kv) (snd kv)) b a.
  Proof.
    unfold dict_sub. induction b as [|kv b IH]; intro a; cbn [fold_left]. reflexivity.
    rewrite sub_term_gen. apply IH.
  Qed.

  Lemma copp_nonzero : forall v, v <> c0 -> copp v <> c0.
  Proof. intros v H E. apply H. replace v with (copp (copp v)) by ring. rewrite E. ring. Qed.

  Lemma dict_add_spec : forall a b : dict, wf a -> wf b ->
    wf (dict_add C c0 cadd ceqb a b) /\
    forall j, coeff (dict_add C c0 cadd ceqb a b) j = coeff a j ⊕ coeff b j.
  Proof.
    intros a b [Sa Na] [Sb Nb]. rewrite dict_add_gen.
    destruct (gen_fold_spec cadd (fun x => x) (fun v => ltac:(ring) : c0 ⊕ v = v)
                (fun x => ltac:(ring) : x ⊕ c0 = x) b a Sa Sb) as [Sr Hr].
    split; [split|]. exact Sr. apply gen_fold_nonzero; assumption. exact Hr.
  Qed.

  Lemma dict_sub_spec : forall a b : dict, wf a -> wf b ->
    wf (dict_sub C c0 csub copp ceqb a b) /\
    forall j, coeff (dict_sub C c0 csub copp ceqb a b) j = csub (coeff a j) (coeff b j).
  Proof.
    intros a b [Sa Na] [Sb Nb]. rewrite dict_sub_gen.
    destruct (gen_fold_spec csub copp (fun v => ltac:(ring) : csub c0 v = copp v)
                (fun x => ltac:(ring) : csub x c0 = x) b a Sa Sb) as [Sr Hr].
    split; [split|]. exact Sr.
    apply gen_fold_nonzero. assumption.
    eapply Forall_impl; [|exact Nb]. intros kv H. apply copp_nonzero. exact H.
    exact Hr.
  Qed.

  (* THEOREM (addition, subtraction): on all coefficient lists *)
  Theorem dict_add_correct : forall p q,
    dict_add C c0 cadd ceqb (from_vec p) (from_vec q) = from_vec (sadd p q).
  Proof.
    intros p q. destruct (dict_add_spec _ _ (from_vec_wf p) (from_vec_wf q)) as [W H].
    apply from_vec_ext. exact W. intro k. rewrite H, !coeff_from_vec.
    unfold scoeff. rewrite (nth_sadd C c0 c1 cadd cmul csub copp Crt). reflexivity.
  Qed.

  Theorem dict_sub_correct : forall p q,
    dict_sub C c0 csub copp ceqb (from_vec p) (from_vec q) = from_vec (ssub p q).
  Proof.
    intros p q. destruct (dict_sub_spec _ _ (from_vec_wf p) (from_vec_wf q)) as [W H].
    apply from_vec_ext. exact W. intro k. rewrite H, !coeff_from_vec.
    unfold scoeff, PolySpec.ssub. rewrite (nth_sadd C c0 c1 cadd cmul csub copp Crt).
    rewrite (nth_sneg C c0 c1 cadd cmul csub copp Crt). ring.
  Qed.

  (* ---------------------------------------------------------------- unary minus *)
  Lemma dict_neg_spec : forall a : dict, wf a ->
    wf (dict_neg C c1 cmul copp a) /\ forall j, coeff (dict_neg C c1 cmul copp a) j = copp (coeff a j).
  Proof.
    induction a as [|[k v] a IH]; intros [S Nz].
    - split. split; [exact I | constructor]. intro j. cbn. ring.
    - cbn [sorted] in S. destruct S as [A S]. inversion Nz; subst.
      destruct (IH (conj S ltac:(assumption))) as [[S' N'] H'].
      unfold dict_neg in *. cbn [map fst snd]. split; [split|].
      + cbn [sorted]. split; [|exact S'].
        apply Forall_forall. intros x Hx. apply in_map_iff in Hx. destruct Hx as [y [Ey Hy]].
        subst x. cbn [fst]. rewrite Forall_forall in A. apply A. exact Hy.
      + constructor; [|exact N']. cbn [snd] in *. intro E.
        match goal with Hv : v <> c0 |- _ => apply Hv end.
        replace v with (copp (v ⊗ copp c1)) by ring. rewrite E. ring.
      + intro j. cbn [get_coeff]. destruct (k =? j). ring. apply H'.
  Qed.

  Theorem dict_neg_correct : forall p, dict_neg C c1 cmul copp (from_vec p) = from_vec (sneg p).
  Proof.
    intro p. destruct (dict_neg_spec _ (from_vec_wf p)) as [W H].
    apply from_vec_ext. exact W. intro k. rewrite H, coeff_from_vec.
    unfold scoeff. rewrite (nth_sneg C c0 c1 cadd cmul csub copp Crt). reflexivity.
  Qed.
End DictProofs.
