(* C21 -- the dictionary operations of the model (ODictWrapper) against schoolbook arithmetic
   on coefficient lists, for any coefficient ring with decidable equality. *)
From SE Require Import Base.Prelude C21.PolyModel C21.PolySpec C21.PolyList.
From Coq Require Import Ring Lia ZifyBool ZifyNat ZifyN.
Local Open Scope N_scope.

Section DictProofs.
  Variable C : Type.
  Variables (c0 c1 : C) (cadd cmul csub : C -> C -> C) (copp : C -> C).
  Variable ceqb : C -> C -> bool.
  Variable cofN : N -> C.
  Hypothesis Crt : ring_theory c0 c1 cadd cmul csub copp eq.
  Hypothesis ceqb_spec : forall x y, ceqb x y = true <-> x = y.
  Add Ring CRing2 : Crt.

  Local Notation "a ⊕ b" := (cadd a b) (at level 50, left associativity).
  Local Notation "a ⊗ b" := (cmul a b) (at level 40, left associativity).
  Local Notation dict := (list (N * C)).
  Local Notation coeff := (get_coeff C c0).
  Local Notation from_vec := (from_vec C c0 ceqb).
  Local Notation from_vec_aux := (from_vec_aux C c0 ceqb).
  Local Notation clean := (clean C c0 ceqb).
  Local Notation cnz := (cnz C c0 ceqb).
  Local Notation wf := (wf C c0).
  Local Notation nonzero := (nonzero C c0).
  Local Notation sadd := (sadd C cadd).
  Local Notation sneg := (sneg C copp).
  Local Notation ssub := (ssub C cadd copp).
  Local Notation smul := (smul C c0 cadd cmul).
  Local Notation seval := (seval C c0 cadd cmul).
  Local Notation peq := (@peq C c0).
  Local Notation cf p k := (nth k p c0).
  Local Notation above k d := (Forall (fun kv : N * C => k < fst kv) d).

  Lemma cnz_true : forall v, cnz v = true <-> v <> c0.
  Proof.
    intro v. unfold PolyModel.cnz. destruct (ceqb v c0) eqn:E; cbn.
    - apply ceqb_spec in E. split; [discriminate | intro H; contradiction].
    - split; [|reflexivity]. intros _ H. apply ceqb_spec in H. congruence.
  Qed.
  Lemma cnz_false : forall v, cnz v = false <-> v = c0.
  Proof.
    intro v. unfold PolyModel.cnz. destruct (ceqb v c0) eqn:E; cbn.
    - apply ceqb_spec in E. split; [intros _; exact E | reflexivity].
    - split; [discriminate|]. intro H. apply ceqb_spec in H. congruence.
  Qed.
  Lemma ceqb_false : forall x y, ceqb x y = false <-> x <> y.
  Proof.
    intros. destruct (ceqb x y) eqn:E.
    - apply ceqb_spec in E. split; [discriminate | contradiction].
    - split; [|reflexivity]. intros _ H. apply ceqb_spec in H. congruence.
  Qed.

  (* ---------------------------------------------------------------- basic facts *)
  Lemma above_weaken : forall (d : dict) j k, j <= k -> above k d -> above j d.
  Proof.
    intros d j k Hjk H. eapply Forall_impl; [|exact H]. cbn. intros a Ha. lia.
  Qed.

  Lemma coeff_above : forall (d : dict) k j, above k d -> j <= k -> coeff d j = c0.
  Proof.
    induction d as [|[k' v'] d IH]; intros k j H Hj; cbn [get_coeff]. reflexivity.
    inversion H as [|? ? Hk Hd]; subst. cbn [fst] in Hk.
    destruct (k' =? j) eqn:E. lia. eapply IH; eauto.
  Qed.

  Lemma sorted_tail : forall kv (d : dict), sorted (kv :: d) -> sorted d.
  Proof. intros [k v] d H. apply H. Qed.

  (* dictionaries are determined by their coefficients *)
  Lemma dict_ext : forall a b : dict, wf a -> wf b -> (forall k, coeff a k = coeff b k) -> a = b.
  Proof.
    induction a as [|[k v] a IH]; intros b [Sa Na] [Sb Nb] H.
    - destruct b as [|[k' v'] b]. reflexivity.
      exfalso. specialize (H k'). cbn [get_coeff] in H. rewrite N.eqb_refl in H.
      inversion Nb; subst. cbn in *. congruence.
    - destruct b as [|[k' v'] b].
      + exfalso. specialize (H k). cbn [get_coeff] in H. rewrite N.eqb_refl in H.
        inversion Na; subst. cbn in *. congruence.
      + cbn [sorted] in Sa, Sb. destruct Sa as [Aa Sa]. destruct Sb as [Ab Sb].
        inversion Na as [|? ? Hv Na']; subst. inversion Nb as [|? ? Hv' Nb']; subst.
        cbn [snd] in Hv, Hv'.
        assert (k = k').
        { destruct (N.lt_trichotomy k k') as [L|[E|L]]; [|exact E|]; exfalso.
          - specialize (H k). cbn [get_coeff] in H. rewrite N.eqb_refl in H.
            replace (k' =? k) with false in H by lia.
            rewrite (coeff_above b k' k Ab) in H by lia. congruence.
          - specialize (H k'). cbn [get_coeff] in H. rewrite N.eqb_refl in H.
            replace (k =? k') with false in H by lia.
            rewrite (coeff_above a k k' Aa) in H by lia. congruence. }
        subst k'.
        assert (v = v').
        { specialize (H k). cbn [get_coeff] in H. rewrite N.eqb_refl in H. exact H. }
        subst v'. f_equal. apply IH; [split; assumption | split; assumption |].
        intro j. destruct (N.le_gt_cases j k) as [L|L].
        * rewrite (coeff_above a k j Aa L), (coeff_above b k j Ab L). reflexivity.
        * specialize (H j). cbn [get_coeff] in H.
          replace (k =? j) with false in H by lia. exact H.
  Qed.

  (* ---------------------------------------------------------------- from_vec *)
  Lemma from_vec_aux_above : forall p i j, j < i -> above j (from_vec_aux i p).
  Proof.
    induction p as [|a p IH]; intros i j H; cbn [PolyModel.from_vec_aux]. constructor.
    destruct (cnz a).
    - constructor. cbn. exact H. apply IH. lia.
    - apply IH. lia.
  Qed.

  Lemma from_vec_aux_wf : forall p i, wf (from_vec_aux i p).
  Proof.
    induction p as [|a p IH]; intros i; cbn [PolyModel.from_vec_aux].
    - split; [exact I | constructor].
    - destruct (cnz a) eqn:E.
      + destruct (IH (i + 1)) as [S Nz]. split.
        * cbn [sorted]. split; [apply from_vec_aux_above; lia | exact S].
        * constructor; [cbn; apply cnz_true; exact E | exact Nz].
      + apply IH.
  Qed.

  Lemma from_vec_wf : forall p, wf (from_vec p).
  Proof. intro p. apply from_vec_aux_wf. Qed.

  Lemma coeff_from_vec_aux : forall p i k,
    coeff (from_vec_aux i p) k = if k <? i then c0 else cf p (N.to_nat (k - i)).
  Proof.
    induction p as [|a p IH]; intros i k; cbn [PolyModel.from_vec_aux].
    - cbn [get_coeff]. destruct (k <? i); [reflexivity|]. destruct (N.to_nat (k - i)); reflexivity.
    - assert (Hrest : coeff (from_vec_aux (i + 1) p) k
                      = if k <? i + 1 then c0 else cf p (N.to_nat (k - (i + 1)))) by apply IH.
      destruct (cnz a) eqn:E.
      + cbn [get_coeff]. destruct (i =? k) eqn:Eik.
        * assert (i = k) by lia. subst k. replace (i <? i) with false by lia.
          replace (N.to_nat (i - i)) with O by lia. reflexivity.
        * rewrite Hrest. destruct (k <? i) eqn:E1.
          -- replace (k <? i + 1) with true by lia. reflexivity.
          -- replace (k <? i + 1) with false by lia.
             replace (N.to_nat (k - i)) with (S (N.to_nat (k - (i + 1)))) by lia. reflexivity.
      + apply cnz_false in E. subst a. rewrite Hrest.
        destruct (k <? i) eqn:E1.
        * replace (k <? i + 1) with true by lia. reflexivity.
        * destruct (k =? i) eqn:E2.
          -- assert (k = i) by lia. subst k. replace (i <? i + 1) with true by lia.
             replace (N.to_nat (i - i)) with O by lia. reflexivity.
          -- replace (k <? i + 1) with false by lia.
             replace (N.to_nat (k - i)) with (S (N.to_nat (k - (i + 1)))) by lia. reflexivity.
  Qed.

  Lemma coeff_from_vec : forall p k, coeff (from_vec p) k = scoeff C c0 p k.
  Proof.
    intros. unfold PolyModel.from_vec, scoeff. rewrite coeff_from_vec_aux.
    replace (k <? 0) with false by lia. rewrite N.sub_0_r. reflexivity.
  Qed.

  Lemma from_vec_peq : forall p q, peq p q -> from_vec p = from_vec q.
  Proof.
    intros p q H. apply dict_ext; try apply from_vec_wf.
    intro k. rewrite !coeff_from_vec. unfold scoeff. apply H.
  Qed.

  Lemma from_vec_ext : forall (d : dict) p, wf d -> (forall k, coeff d k = scoeff C c0 p k) -> d = from_vec p.
  Proof.
    intros d p Hd H. apply dict_ext; [exact Hd | apply from_vec_wf |].
    intro k. rewrite coeff_from_vec. apply H.
  Qed.

  (* ---------------------------------------------------------------- degree, lc *)
  Lemma degree_cons : forall k v (d : dict),
    degree ((k, v) :: d) = match d with [] => k | _ => degree d end.
  Proof.
    intros. unfold degree. cbn [rev]. destruct d as [|kv d]. reflexivity.
    destruct (rev (kv :: d)) as [|[k2 v2] l] eqn:E.
    - exfalso. apply (f_equal (@length _)) in E. rewrite rev_length in E. discriminate.
    - reflexivity.
  Qed.

  Lemma get_lc_cons : forall k v (d : dict),
    get_lc C c0 ((k, v) :: d) = match d with [] => v | _ => get_lc C c0 d end.
  Proof.
    intros. unfold get_lc. cbn [rev]. destruct d as [|kv d]. reflexivity.
    destruct (rev (kv :: d)) as [|[k2 v2] l] eqn:E.
    - exfalso. apply (f_equal (@length _)) in E. rewrite rev_length in E. discriminate.
    - reflexivity.
  Qed.

  Lemma keys_le_degree : forall d : dict, sorted d -> Forall (fun kv => fst kv <= degree d) d.
  Proof.
    induction d as [|[k v] d IH]; intros S. constructor.
    cbn [sorted] in S. destruct S as [A S]. rewrite degree_cons.
    destruct d as [|kv d].
    - constructor. cbn. lia. constructor.
    - specialize (IH S). constructor.
      + cbn [fst]. inversion A; subst. inversion IH; subst. lia.
      + exact IH.
  Qed.

  Lemma coeff_gt_degree : forall (d : dict) j, sorted d -> degree d < j -> coeff d j = c0.
  Proof.
    intros d j S H. pose proof (keys_le_degree d S) as K.
    induction d as [|[k v] d IH]. reflexivity.
    cbn [get_coeff]. inversion K; subst. cbn [fst] in *.
    destruct (k =? j) eqn:E. lia.
    destruct d as [|kv d]. reflexivity.
    rewrite degree_cons in *. apply IH; auto. eapply sorted_tail; eauto.
  Qed.

  Lemma coeff_degree_lc : forall d : dict, sorted d -> coeff d (degree d) = get_lc C c0 d.
  Proof.
    induction d as [|[k v] d IH]; intros S. reflexivity.
    rewrite degree_cons, get_lc_cons. cbn [get_coeff].
    destruct d as [|[k2 v2] d]. rewrite N.eqb_refl. reflexivity.
    destruct S as [A S].
    pose proof (keys_le_degree _ S) as K. inversion A; subst. inversion K; subst.
    cbn [fst] in *.
    replace (k =? degree ((k2, v2) :: d)) with false by lia. apply IH. exact S.
  Qed.

  Lemma get_lc_nonzero : forall d : dict, nonzero d -> d <> [] -> get_lc C c0 d <> c0.
  Proof.
    induction d as [|[k v] d IH]; intros Nz Hne. congruence.
    rewrite get_lc_cons. inversion Nz; subst. destruct d as [|kv d]. assumption.
    apply IH. assumption. discriminate.
  Qed.

  (* the degree of from_vec p is the degree of the polynomial p denotes *)
  Lemma degree_from_vec : forall p, is_degree C c0 p (degree (from_vec p)).
  Proof.
    intro p. destruct (from_vec_wf p) as [S Nz]. split.
    - intros k Hk. rewrite <- coeff_from_vec. apply coeff_gt_degree; assumption.
    - destruct (from_vec p) as [|kv d] eqn:E.
      + right. split. reflexivity. intro k. rewrite <- coeff_from_vec, E. reflexivity.
      + left. rewrite <- coeff_from_vec, E. rewrite coeff_degree_lc by exact S.
        apply get_lc_nonzero. exact Nz. discriminate.
  Qed.

  Lemma get_lc_from_vec : forall p, get_lc C c0 (from_vec p) = scoeff C c0 p (degree (from_vec p)).
  Proof.
    intro p. rewrite <- coeff_from_vec. symmetry. apply coeff_degree_lc. apply from_vec_wf.
  Qed.

  (* every well-formed dictionary is from_vec of its coefficient list *)
  Lemma nth_dense : forall (d : dict) k, sorted d ->
    cf (dense C c0 d) k = coeff d (N.of_nat k).
  Proof.
    intros d k Sd. unfold dense. destruct d as [|kv d]. destruct k; reflexivity.
    set (dd := kv :: d) in *.
    destruct (Nat.lt_ge_cases k (S (N.to_nat (degree dd)))) as [L|L].
    - rewrite (nth_indep _ c0 (coeff dd (N.of_nat O))) by (rewrite map_length, seq_length; exact L).
      rewrite (map_nth (fun i => coeff dd (N.of_nat i))). rewrite seq_nth by exact L. reflexivity.
    - rewrite nth_overflow by (rewrite map_length, seq_length; exact L).
      symmetry. apply coeff_gt_degree. exact Sd. lia.
  Qed.

  Lemma from_vec_dense : forall d : dict, wf d -> from_vec (dense C c0 d) = d.
  Proof.
    intros d W. symmetry. apply from_vec_ext. exact W.
    intro k. unfold scoeff. rewrite nth_dense by apply W. rewrite N2Nat.id. reflexivity.
  Qed.

  (* ---------------------------------------------------------------- clean *)
  Lemma clean_above : forall (d : dict) k, above k d -> above k (clean d).
  Proof.
    intros d k H. unfold PolyModel.clean. apply Forall_forall. intros x Hx.
    apply filter_In in Hx. rewrite Forall_forall in H. apply H. apply Hx.
  Qed.

  Lemma clean_sorted : forall d : dict, sorted d -> sorted (clean d).
  Proof.
    induction d as [|[k v] d IH]; intros S. exact I.
    cbn [sorted] in S. destruct S as [A S]. unfold PolyModel.clean. cbn [filter snd].
    fold (clean d). destruct (cnz v).
    - cbn [sorted]. split. apply clean_above. exact A. apply IH. exact S.
    - apply IH. exact S.
  Qed.

  Lemma clean_nonzero : forall d : dict, nonzero (clean d).
  Proof.
    intro d. unfold PolySpec.nonzero. apply Forall_forall. intros x Hx.
    apply filter_In in Hx. apply cnz_true. apply Hx.
  Qed.

  Lemma coeff_clean : forall (d : dict) j, sorted d -> coeff (clean d) j = coeff d j.
  Proof.
    induction d as [|[k v] d IH]; intros j S. reflexivity.
    cbn [sorted] in S. destruct S as [A S]. unfold PolyModel.clean. cbn [filter snd].
    fold (clean d). destruct (cnz v) eqn:E; cbn [get_coeff].
    - rewrite IH by exact S. reflexivity.
    - apply cnz_false in E. subst v. rewrite IH by exact S.
      destruct (k =? j) eqn:Ek; [|reflexivity].
      apply (coeff_above d k j A). lia.
  Qed.

  Lemma clean_wf_id : forall d : dict, nonzero d -> clean d = d.
  Proof.
    induction d as [|[k v] d IH]; intros Nz. reflexivity.
    inversion Nz; subst. unfold PolyModel.clean. cbn [filter snd]. fold (clean d).
    cbn [snd] in *. replace (cnz v) with true by (symmetry; apply cnz_true; assumption).
    rewrite IH by assumption. reflexivity.
  Qed.

  (* ---------------------------------------------------------------- += and -= *)
  Section TermOps.
    (* add_term and sub_term share their shape: combine an existing value with [g],
       insert [h v] for a missing key *)
    Variable g : C -> C -> C.
    Variable h : C -> C.
    Fixpoint gen_term (d : dict) (k : N) (v : C) : dict :=
      match d with
      | [] => [(k, h v)]
      | (k', v') :: r =>
          if k' <? k then (k', v') :: gen_term r k v
          else if k' =? k then
            let s := g v' v in if ceqb s c0 then r else (k', s) :: r
          else (k, h v) :: d
      end.
    Hypothesis g_zero : forall v, g c0 v = h v.

    Lemma gen_term_above : forall d k v m, above m d -> m < k -> above m (gen_term d k v).
    Proof.
      induction d as [|[k' v'] d IH]; intros k v m A Hm; cbn [gen_term].
      - constructor. exact Hm. constructor.
      - inversion A; subst. cbn [fst] in *.
        destruct (k' <? k). constructor. assumption. apply IH; assumption.
        destruct (k' =? k). destruct (ceqb (g v' v) c0). assumption. constructor; assumption.
        constructor. exact Hm. exact A.
    Qed.

    Lemma gen_term_sorted : forall d k v, sorted d -> sorted (gen_term d k v).
    Proof.
      induction d as [|[k' v'] d IH]; intros k v S; cbn [gen_term]. cbn. auto.
      cbn [sorted] in S. destruct S as [A S].
      destruct (k' <? k) eqn:E1.
      - cbn [sorted]. split. apply gen_term_above. exact A. lia. apply IH. exact S.
      - destruct (k' =? k) eqn:E2.
        + destruct (ceqb (g v' v) c0). exact S. cbn [sorted]. split; assumption.
        + cbn [sorted]. split; [|split; assumption].
          constructor. cbn. lia. eapply above_weaken; [|exact A]. lia.
    Qed.

    Lemma coeff_gen_term : forall d k v j, sorted d ->
      coeff (gen_term d k v) j = if j =? k then g (coeff d k) v else coeff d j.
    Proof.
      induction d as [|[k' v'] d IH]; intros k v j S; cbn [gen_term get_coeff].
      - rewrite g_zero. rewrite (N.eqb_sym k j). destruct (j =? k); reflexivity.
      - cbn [sorted] in S. destruct S as [A S].
        destruct (k' <? k) eqn:E1.
        + cbn [get_coeff]. rewrite IH by exact S.
          replace (k' =? k) with false by lia.
          destruct (k' =? j) eqn:E3; [|reflexivity]. replace (j =? k) with false by lia. reflexivity.
        + destruct (k' =? k) eqn:E2.
          * assert (k' = k) by lia. subst k'.
            destruct (ceqb (g v' v) c0) eqn:E3.
            -- apply ceqb_spec in E3. destruct (j =? k) eqn:E4.
               ++ assert (j = k) by lia. subst j. rewrite E3. apply (coeff_above d k k A). lia.
               ++ replace (k =? j) with false by lia. reflexivity.
            -- cbn [get_coeff]. destruct (j =? k) eqn:E4.
               ++ replace (k =? j) with true by lia. reflexivity.
               ++ replace (k =? j) with false by lia. reflexivity.
          * cbn [get_coeff]. rewrite (N.eqb_sym k j). destruct (j =? k) eqn:E4.
            -- assert (j = k) by lia. subst j.
               rewrite (coeff_above d k' k A) by lia. symmetry. apply g_zero.
            -- reflexivity.
    Qed.

    Lemma gen_term_nonzero : forall d k v, nonzero d -> h v <> c0 -> nonzero (gen_term d k v).
    Proof.
      induction d as [|[k' v'] d IH]; intros k v Nz Hv; cbn [gen_term].
      - constructor. exact Hv. constructor.
      - inversion Nz; subst.
        destruct (k' <? k). constructor. assumption. apply IH; assumption.
        destruct (k' =? k).
        + destruct (ceqb (g v' v) c0) eqn:E. assumption.
          constructor. cbn. apply ceqb_false. exact E. assumption.
        + constructor. exact Hv. exact Nz.
    Qed.

    Hypothesis g_zero_r : forall x, g x c0 = x.

    Lemma gen_fold_spec : forall (b a : dict), sorted a -> sorted b ->
      let r := fold_left (fun acc kv => gen_term acc (fst kv) (snd kv)) b a in
      sorted r /\ forall j, coeff r j = g (coeff a j) (coeff b j).
    Proof.
      induction b as [|[k v] b IH]; intros a Sa Sb; cbn [fold_left fst snd].
      - split. exact Sa. intro j. cbn [get_coeff]. symmetry. apply g_zero_r.
      - cbn [sorted] in Sb. destruct Sb as [Ab Sb].
        destruct (IH (gen_term a k v) (gen_term_sorted a k v Sa) Sb) as [Sr Hr].
        split. exact Sr. intro j. cbn [get_coeff].
        rewrite (Hr j). rewrite coeff_gen_term by exact Sa.
        destruct (k =? j) eqn:E.
        + assert (k = j) by lia. subst j. rewrite N.eqb_refl.
          rewrite (coeff_above b k k Ab) by lia. apply g_zero_r.
        + replace (j =? k) with false by lia. reflexivity.
    Qed.

    Lemma gen_fold_nonzero : forall (b a : dict), nonzero a -> Forall (fun kv => h (snd kv) <> c0) b ->
      nonzero (fold_left (fun acc kv => gen_term acc (fst kv) (snd kv)) b a).
    Proof.
      induction b as [|[k v] b IH]; intros a Na Nb; cbn [fold_left fst snd]. exact Na.
      inversion Nb; subst. apply IH; [|assumption]. apply gen_term_nonzero; assumption.
    Qed.
  End TermOps.

  Lemma add_term_gen : forall d k v, add_term C c0 cadd ceqb d k v = gen_term cadd (fun x => x) d k v.
  Proof. induction d as [|[k' v'] d IH]; intros; cbn [add_term gen_term]. reflexivity. rewrite IH. reflexivity. Qed.
  Lemma sub_term_gen : forall d k v, sub_term C c0 csub copp ceqb d k v = gen_term csub copp d k v.
  Proof. induction d as [|[k' v'] d IH]; intros; cbn [sub_term gen_term]. reflexivity. rewrite IH. reflexivity. Qed.

  Lemma dict_add_gen : forall b a, dict_add C c0 cadd ceqb a b
    = fold_left (fun acc kv => gen_term cadd (fun x => x) acc (fst kv) (snd kv)) b a.
  Proof.
    unfold dict_add. induction b as [|kv b IH]; intro a; cbn [fold_left]. reflexivity.
    rewrite add_term_gen. apply IH.
  Qed.
  Lemma dict_sub_gen : forall b a, dict_sub C c0 csub copp ceqb a b
    = fold_left (fun acc kv => gen_term csub copp acc (fst kv) (snd kv)) b a.
  Proof.
    unfold dict_sub. induction b as [|kv b IH]; intro a; cbn [fold_left]. reflexivity.
    rewrite sub_term_gen. apply IH.
  Qed.

  Lemma copp_nonzero : forall v, v <> c0 -> copp v <> c0.
  Proof. intros v H E. apply H. replace v with (copp (copp v)) by ring. rewrite E. ring. Qed.

  Lemma dict_add_spec : forall a b : dict, wf a -> wf b ->
    wf (dict_add C c0 cadd ceqb a b) /\
    forall j, coeff (dict_add C c0 cadd ceqb a b) j = coeff a j ⊕ coeff b j.
  Proof.
    intros a b [Sa Na] [Sb Nb]. rewrite dict_add_gen.
    destruct (gen_fold_spec cadd (fun x => x) (fun v => ltac:(ring) : c0 ⊕ v = v)
                (fun x => ltac:(ring) : x ⊕ c0 = x) b a Sa Sb) as [Sr Hr].
    split; [split|]. exact Sr. apply gen_fold_nonzero; assumption. exact Hr.
  Qed.

  Lemma dict_sub_spec : forall a b : dict, wf a -> wf b ->
    wf (dict_sub C c0 csub copp ceqb a b) /\
    forall j, coeff (dict_sub C c0 csub copp ceqb a b) j = csub (coeff a j) (coeff b j).
  Proof.
    intros a b [Sa Na] [Sb Nb]. rewrite dict_sub_gen.
    destruct (gen_fold_spec csub copp (fun v => ltac:(ring) : csub c0 v = copp v)
                (fun x => ltac:(ring) : csub x c0 = x) b a Sa Sb) as [Sr Hr].
    split; [split|]. exact Sr.
    apply gen_fold_nonzero. assumption.
    eapply Forall_impl; [|exact Nb]. intros kv H. apply copp_nonzero. exact H.
    exact Hr.
  Qed.

  (* THEOREM (addition, subtraction): on all coefficient lists *)
  Theorem dict_add_correct : forall p q,
    dict_add C c0 cadd ceqb (from_vec p) (from_vec q) = from_vec (sadd p q).
  Proof.
    intros p q. destruct (dict_add_spec _ _ (from_vec_wf p) (from_vec_wf q)) as [W H].
    apply from_vec_ext. exact W. intro k. rewrite H, !coeff_from_vec.
    unfold scoeff. rewrite (nth_sadd C c0 c1 cadd cmul csub copp Crt). reflexivity.
  Qed.

  Theorem dict_sub_correct : forall p q,
    dict_sub C c0 csub copp ceqb (from_vec p) (from_vec q) = from_vec (ssub p q).
  Proof.
    intros p q. destruct (dict_sub_spec _ _ (from_vec_wf p) (from_vec_wf q)) as [W H].
    apply from_vec_ext. exact W. intro k. rewrite H, !coeff_from_vec.
    unfold scoeff, PolySpec.ssub. rewrite (nth_sadd C c0 c1 cadd cmul csub copp Crt).
    rewrite (nth_sneg C c0 c1 cadd cmul csub copp Crt). ring.
  Qed.

  (* ---------------------------------------------------------------- unary minus *)
  Lemma dict_neg_spec : forall a : dict, wf a ->
    wf (dict_neg C c1 cmul copp a) /\ forall j, coeff (dict_neg C c1 cmul copp a) j = copp (coeff a j).
  Proof.
    induction a as [|[k v] a IH]; intros [S Nz].
    - split. split; [exact I | constructor]. intro j. cbn. ring.
    - cbn [sorted] in S. destruct S as [A S]. inversion Nz as [|? ? Hv Nz']; subst.
      assert (Wa : wf a) by (split; assumption).
      destruct (IH Wa) as [[S' N'] H'].
      unfold dict_neg in *. cbn [map fst snd]. split; [split|].
      + cbn [sorted]. split; [|exact S'].
        apply Forall_forall. intros x Hx. apply in_map_iff in Hx. destruct Hx as [y [Ey Hy]].
        subst x. cbn [fst]. rewrite Forall_forall in A. apply A. exact Hy.
      + constructor; [|exact N']. cbn [snd] in *. intro E.
        apply Hv.
        replace v with (copp (v ⊗ copp c1)) by ring. rewrite E. ring.
      + intro j. cbn [get_coeff]. destruct (k =? j). ring. apply H'.
  Qed.

  Theorem dict_neg_correct : forall p, dict_neg C c1 cmul copp (from_vec p) = from_vec (sneg p).
  Proof.
    intro p. destruct (dict_neg_spec _ (from_vec_wf p)) as [W H].
    apply from_vec_ext. exact W. intro k. rewrite H, coeff_from_vec.
    unfold scoeff. rewrite (nth_sneg C c0 c1 cadd cmul csub copp Crt). reflexivity.
  Qed.

  (* ---------------------------------------------------------------- ODictWrapper::mul *)
  Local Notation upd_term := (upd_term C c0 cadd).

  Lemma upd_term_above : forall (d : dict) k v m, above m d -> m < k -> above m (upd_term d k v).
  Proof.
    induction d as [|[k' v'] d IH]; intros k v m A Hm; cbn [PolyModel.upd_term].
    - constructor. exact Hm. constructor.
    - inversion A; subst. cbn [fst] in *.
      destruct (k' <? k). constructor. assumption. apply IH; assumption.
      destruct (k' =? k). constructor; assumption.
      constructor. exact Hm. exact A.
  Qed.

  Lemma upd_term_sorted : forall (d : dict) k v, sorted d -> sorted (upd_term d k v).
  Proof.
    induction d as [|[k' v'] d IH]; intros k v Sd; cbn [PolyModel.upd_term]. cbn. auto.
    cbn [sorted] in Sd. destruct Sd as [A Sd].
    destruct (k' <? k) eqn:E1.
    - cbn [sorted]. split. apply upd_term_above. exact A. lia. apply IH. exact Sd.
    - destruct (k' =? k) eqn:E2.
      + cbn [sorted]. split; assumption.
      + cbn [sorted]. split; [|split; assumption].
        constructor. cbn. lia. eapply above_weaken; [|exact A]. lia.
  Qed.

  Lemma coeff_upd_term : forall (d : dict) k v j, sorted d ->
    coeff (upd_term d k v) j = if j =? k then coeff d k ⊕ v else coeff d j.
  Proof.
    induction d as [|[k' v'] d IH]; intros k v j Sd; cbn [PolyModel.upd_term get_coeff].
    - rewrite (N.eqb_sym k j). destruct (j =? k); reflexivity.
    - cbn [sorted] in Sd. destruct Sd as [A Sd].
      destruct (k' <? k) eqn:E1.
      + cbn [get_coeff]. rewrite IH by exact Sd.
        replace (k' =? k) with false by lia.
        destruct (k' =? j) eqn:E3; [|reflexivity]. replace (j =? k) with false by lia. reflexivity.
      + destruct (k' =? k) eqn:E2.
        * assert (k' = k) by lia. subst k'. cbn [get_coeff]. destruct (j =? k) eqn:E4.
          -- replace (k =? j) with true by lia. reflexivity.
          -- replace (k =? j) with false by lia. reflexivity.
        * cbn [get_coeff]. rewrite (N.eqb_sym k j). destruct (j =? k) eqn:E4.
          -- assert (j = k) by lia. subst j.
             rewrite (coeff_above d k' k A) by lia. reflexivity.
          -- reflexivity.
  Qed.

  (* the contribution of one term of a, and of all of a, to the coefficient of x^j *)
  Definition rowc (k1 : N) (v1 : C) (b : dict) (j : N) : C :=
    fold_right (fun i2 s => (if j =? k1 + fst i2 then v1 ⊗ snd i2 else c0) ⊕ s) c0 b.
  Definition convc (a b : dict) (j : N) : C :=
    fold_right (fun i1 s => rowc (fst i1) (snd i1) b j ⊕ s) c0 a.

  Lemma mul_row_spec : forall (b p : dict) k1 v1, sorted p ->
    Forall (fun i2 => k1 + fst i2 < W32) b ->
    sorted (mul_row C c0 cadd cmul (k1, v1) b p) /\
    forall j, coeff (mul_row C c0 cadd cmul (k1, v1) b p) j = coeff p j ⊕ rowc k1 v1 b j.
  Proof.
    unfold mul_row. induction b as [|[k2 v2] b IH]; intros p k1 v1 Sp F; cbn [fold_left fst snd].
    - split. exact Sp. intro j. cbn. ring.
    - inversion F; subst. cbn [fst] in *.
      assert (E : uadd k1 k2 = k1 + k2) by (unfold uadd; apply N.mod_small; assumption).
      rewrite E.
      destruct (IH (upd_term p (k1 + k2) (v1 ⊗ v2)) k1 v1) as [Sr Hr].
      apply upd_term_sorted; exact Sp. assumption.
      split. exact Sr. intro j. rewrite Hr. rewrite coeff_upd_term by exact Sp.
      cbn [rowc fold_right fst snd]. fold (rowc k1 v1 b j).
      destruct (j =? k1 + k2) eqn:E2.
      + assert (j = k1 + k2) by lia. subst j. ring.
      + ring.
  Qed.

  Lemma mul_acc_spec : forall (a b acc : dict), sorted acc ->
    Forall (fun i1 => Forall (fun i2 => fst i1 + fst i2 < W32) b) a ->
    let r := fold_left (fun p i1 => mul_row C c0 cadd cmul i1 b p) a acc in
    sorted r /\ forall j, coeff r j = coeff acc j ⊕ convc a b j.
  Proof.
    induction a as [|[k1 v1] a IH]; intros b acc Sacc F; cbn [fold_left].
    - split. exact Sacc. intro j. cbn. ring.
    - inversion F; subst. cbn [fst] in *.
      destruct (mul_row_spec b acc k1 v1 Sacc) as [Srow Hrow]. assumption.
      destruct (IH b _ Srow) as [Sr Hr]. assumption.
      split. exact Sr. intro j. rewrite Hr, Hrow. cbn [convc fold_right fst snd].
      fold (convc a b j). ring.
  Qed.

  Lemma rowc_from_vec : forall q i a m j,
    rowc i a (from_vec_aux m q) j = if j <? i + m then c0 else a ⊗ cf q (N.to_nat (j - (i + m))).
  Proof.
    induction q as [|b q IH]; intros i a m j; cbn [PolyModel.from_vec_aux].
    - cbn [rowc fold_right]. destruct (j <? i + m). reflexivity.
      destruct (N.to_nat (j - (i + m))); cbn [nth]; ring.
    - assert (Hrest : rowc i a (from_vec_aux (m + 1) q) j
                      = if j <? i + (m + 1) then c0 else a ⊗ cf q (N.to_nat (j - (i + (m + 1))))) by apply IH.
      assert (Hgoal : (if j =? i + m then a ⊗ b else c0) ⊕ rowc i a (from_vec_aux (m + 1) q) j
                      = if j <? i + m then c0 else a ⊗ cf (b :: q) (N.to_nat (j - (i + m)))).
      { rewrite Hrest. destruct (j <? i + m) eqn:E1.
        - replace (j =? i + m) with false by lia. replace (j <? i + (m + 1)) with true by lia. ring.
        - destruct (j =? i + m) eqn:E2.
          + replace (j <? i + (m + 1)) with true by lia.
            replace (N.to_nat (j - (i + m))) with O by lia. cbn [nth]. ring.
          + replace (j <? i + (m + 1)) with false by lia.
            replace (N.to_nat (j - (i + m))) with (S (N.to_nat (j - (i + (m + 1))))) by lia.
            cbn [nth]. ring. }
      destruct (cnz b) eqn:E.
      + cbn [rowc fold_right fst snd]. fold (rowc i a (from_vec_aux (m + 1) q) j). exact Hgoal.
      + apply cnz_false in E. subst b. rewrite <- Hgoal.
        destruct (j =? i + m); ring.
  Qed.

  Lemma convc_from_vec : forall p q i j,
    convc (from_vec_aux i p) (from_vec q) j
    = if j <? i then c0 else cf (smul p q) (N.to_nat (j - i)).
  Proof.
    induction p as [|a p IH]; intros q i j; cbn [PolyModel.from_vec_aux].
    - cbn [convc fold_right PolySpec.smul]. destruct (j <? i). reflexivity.
      destruct (N.to_nat (j - i)); reflexivity.
    - assert (Hrest : convc (from_vec_aux (i + 1) p) (from_vec q) j
                      = if j <? i + 1 then c0 else cf (smul p q) (N.to_nat (j - (i + 1)))) by apply IH.
      assert (Hrow : rowc i a (from_vec q) j = if j <? i then c0 else a ⊗ cf q (N.to_nat (j - i))).
      { unfold PolyModel.from_vec. rewrite rowc_from_vec. rewrite N.add_0_r. reflexivity. }
      assert (Hgoal : rowc i a (from_vec q) j ⊕ convc (from_vec_aux (i + 1) p) (from_vec q) j
                      = if j <? i then c0 else cf (smul (a :: p) q) (N.to_nat (j - i))).
      { rewrite Hrest, Hrow. rewrite (nth_smul_cons C c0 c1 cadd cmul csub copp Crt).
        destruct (j <? i) eqn:E1.
        - replace (j <? i + 1) with true by lia. ring.
        - destruct (j =? i) eqn:E2.
          + replace (j <? i + 1) with true by lia.
            replace (N.to_nat (j - i)) with O by lia. cbn [shiftc]. ring.
          + replace (j <? i + 1) with false by lia.
            replace (N.to_nat (j - i)) with (S (N.to_nat (j - (i + 1)))) by lia.
            cbn [shiftc]. ring. }
      destruct (cnz a) eqn:E.
      + cbn [convc fold_right fst snd]. fold (convc (from_vec_aux (i + 1) p) (from_vec q) j). exact Hgoal.
      + apply cnz_false in E. subst a. rewrite <- Hgoal.
        rewrite Hrow. destruct (j <? i); ring.
  Qed.

  Lemma keys_sum_fit : forall a b : dict, sorted a -> sorted b -> degree a + degree b < W32 ->
    Forall (fun i1 => Forall (fun i2 => fst i1 + fst i2 < W32) b) a.
  Proof.
    intros a b Sa Sb H. pose proof (keys_le_degree a Sa) as Ka. pose proof (keys_le_degree b Sb) as Kb.
    eapply Forall_impl; [|exact Ka]. intros i1 H1. cbn in H1.
    eapply Forall_impl; [|exact Kb]. intros i2 H2. cbn in H2. lia.
  Qed.

  Lemma from_vec_nil_zero : forall p, from_vec p = [] -> forall k, cf p k = c0.
  Proof.
    intros p H k. pose proof (coeff_from_vec p (N.of_nat k)) as E. rewrite H in E.
    unfold scoeff in E. rewrite Nat2N.id in E. symmetry. exact E.
  Qed.

  Lemma convc_nil_r : forall (a : dict) j, convc a [] j = c0.
  Proof.
    intros a j. unfold convc. induction a as [|i1 l IHl]; cbn [fold_right]. reflexivity.
    rewrite IHl. cbn [rowc fold_right]. ring.
  Qed.

  Lemma gmul_spec : forall a b : dict, wf a -> wf b -> degree a + degree b < W32 ->
    wf (gmul C c0 cadd cmul ceqb a b) /\
    forall j, coeff (gmul C c0 cadd cmul ceqb a b) j = convc a b j.
  Proof.
    intros a b Wa Wb H. unfold gmul.
    destruct a as [|ka a']. { cbn. split. exact Wa. reflexivity. }
    destruct b as [|kb b'].
    { cbn [is_empty]. split. exact Wb. intro j. rewrite convc_nil_r. reflexivity. }
    cbn [is_empty]. set (a := ka :: a') in *. set (b := kb :: b') in *.
    destruct (mul_acc_spec a b [] I (keys_sum_fit a b (proj1 Wa) (proj1 Wb) H)) as [Sr Hr].
    fold (mul_acc C c0 cadd cmul a b) in Sr, Hr.
    split. split. apply clean_sorted. exact Sr. apply clean_nonzero.
    intro j. rewrite coeff_clean by exact Sr. rewrite Hr. cbn [get_coeff]. ring.
  Qed.

  (* THEOREM (generic product, ODictWrapper::mul) *)
  Theorem gmul_correct : forall p q,
    degree (from_vec p) + degree (from_vec q) < W32 ->
    gmul C c0 cadd cmul ceqb (from_vec p) (from_vec q) = from_vec (smul p q).
  Proof.
    intros p q H. destruct (gmul_spec _ _ (from_vec_wf p) (from_vec_wf q) H) as [W Hc].
    apply from_vec_ext. exact W. intro j. rewrite Hc.
    unfold PolyModel.from_vec at 1. rewrite convc_from_vec.
    replace (j <? 0) with false by lia. rewrite N.sub_0_r. reflexivity.
  Qed.

  (* ---------------------------------------------------------------- evaluation *)
  Local Notation cpow := (cpow C c1 cmul).

  Lemma cpow_succ : forall x n, cpow x (N.succ n) = x ⊗ cpow x n.
  Proof.
    intros x [|p]; cbn [N.succ PolyModel.cpow].
    - cbn. ring.
    - apply Pos.iter_op_succ. intros a b c. ring.
  Qed.

  Lemma cpow_add : forall x a b, cpow x (a + b) = cpow x a ⊗ cpow x b.
  Proof.
    intros x a b. induction a as [|a IH] using N.peano_ind.
    - rewrite N.add_0_l. cbn [PolyModel.cpow]. ring.
    - rewrite N.add_succ_l, !cpow_succ, IH. ring.
  Qed.

  Definition dval (d : dict) (x : C) : C :=
    fold_right (fun kv s => snd kv ⊗ cpow x (fst kv) ⊕ s) c0 d.
  Definition hd_key (d : dict) (dflt : N) : N := match d with [] => dflt | (k, _) :: _ => k end.

  Lemma eval_loop : forall x (d : dict) r0 l0, sorted d -> Forall (fun kv => fst kv <= l0) d ->
    let st := fold_right (fun kv st => eval_step C c1 cadd cmul x st kv) (r0, l0) d in
    snd st = hd_key d l0 /\ fst st ⊗ cpow x (snd st) = r0 ⊗ cpow x l0 ⊕ dval d x.
  Proof.
    intros x. induction d as [|[k v] d IH]; intros r0 l0 Sd F; cbn [fold_right].
    - cbn. split. reflexivity. ring.
    - cbn [sorted] in Sd. destruct Sd as [A Sd]. inversion F as [|? ? Fk Fd]; subst. cbn [fst] in Fk.
      destruct (IH r0 l0 Sd Fd) as [H1 H2].
      set (st := fold_right (fun kv st => eval_step C c1 cadd cmul x st kv) (r0, l0) d) in *.
      unfold eval_step. cbn [fst snd hd_key]. split. reflexivity.
      assert (Hk : k <= snd st).
      { rewrite H1. destruct d as [|[k2 v2] d]; cbn [hd_key]. exact Fk.
        inversion A; subst. cbn [fst] in *. lia. }
      cbn [dval fold_right fst snd]. fold (dval d x).
      assert (Hp : cpow x (snd st) = cpow x (snd st - k) ⊗ cpow x k).
      { rewrite <- cpow_add. f_equal. lia. }
      rewrite Hp in H2.
      transitivity (v ⊗ cpow x k ⊕ fst st ⊗ (cpow x (snd st - k) ⊗ cpow x k)). ring.
      rewrite H2. ring.
  Qed.

  Lemma dval_from_vec_aux : forall p i x, dval (from_vec_aux i p) x = cpow x i ⊗ seval p x.
  Proof.
    induction p as [|a p IH]; intros i x; cbn [PolyModel.from_vec_aux PolySpec.seval].
    - cbn. ring.
    - assert (Hrest : dval (from_vec_aux (i + 1) p) x = x ⊗ cpow x i ⊗ seval p x).
      { rewrite IH. rewrite N.add_1_r, cpow_succ. reflexivity. }
      destruct (cnz a) eqn:E.
      + cbn [dval fold_right fst snd]. fold (dval (from_vec_aux (i + 1) p) x). rewrite Hrest. ring.
      + apply cnz_false in E. subst a. rewrite Hrest. ring.
  Qed.

  Lemma poly_eval_dval : forall (d : dict) x, sorted d ->
    poly_eval C c0 c1 cadd cmul d x = dval d x.
  Proof.
    intros d x Sd. unfold poly_eval. destruct (rev d) as [|[k0 v0] l] eqn:E.
    - assert (d = []). { rewrite <- (rev_involutive d), E. reflexivity. } subst d. reflexivity.
    - rewrite <- E.
      replace (fold_left (eval_step C c1 cadd cmul x) (rev d) (c0, k0))
        with (fold_right (fun kv st => eval_step C c1 cadd cmul x st kv) (c0, k0) d).
      2:{ rewrite <- (rev_involutive d) at 1. rewrite fold_left_rev_right. reflexivity. }
      assert (Hdeg : degree d = k0) by (unfold degree; rewrite E; reflexivity).
      destruct (eval_loop x d c0 k0 Sd) as [_ H2].
      { rewrite <- Hdeg. apply keys_le_degree. exact Sd. }
      rewrite H2. ring.
  Qed.

  (* THEOREM (evaluation) *)
  Theorem poly_eval_correct : forall p x,
    poly_eval C c0 c1 cadd cmul (from_vec p) x = seval p x.
  Proof.
    intros p x. rewrite poly_eval_dval by apply from_vec_wf.
    unfold PolyModel.from_vec. rewrite dval_from_vec_aux. cbn [PolyModel.cpow]. ring.
  Qed.

  (* ---------------------------------------------------------------- differentiation *)
  Local Notation dmap d := (map (fun kv : N * C => (fst kv - 1, snd kv ⊗ cofN (fst kv)))
                                (filter (fun kv : N * C => negb (fst kv =? 0)) d)).

  Lemma coeff_dmap : forall (d : dict) j, coeff (dmap d) j = coeff d (j + 1) ⊗ cofN (j + 1).
  Proof.
    induction d as [|[k v] d IH]; intro j; cbn [filter map fst snd get_coeff].
    - ring.
    - destruct (k =? 0) eqn:E0; cbn [negb map fst snd get_coeff].
      + replace (k =? j + 1) with false by lia. apply IH.
      + destruct (k - 1 =? j) eqn:E1.
        * replace (k =? j + 1) with true by lia. replace (j + 1) with k by lia. reflexivity.
        * replace (k =? j + 1) with false by lia. apply IH.
  Qed.

  Lemma dmap_above : forall (d : dict) m, 1 <= m -> above m d -> above (m - 1) (dmap d).
  Proof.
    induction d as [|[k v] d IH]; intros m Hm A; cbn [filter map fst snd]. constructor.
    inversion A; subst. cbn [fst] in *.
    replace (k =? 0) with false by lia. cbn [negb map fst snd].
    constructor. cbn [fst]. lia. apply IH; assumption.
  Qed.

  Lemma dmap_sorted : forall d : dict, sorted d -> sorted (dmap d).
  Proof.
    induction d as [|[k v] d IH]; intro Sd; cbn [filter map fst snd]. exact I.
    cbn [sorted] in Sd. destruct Sd as [A Sd].
    destruct (k =? 0) eqn:E0; cbn [negb map fst snd].
    - apply IH. exact Sd.
    - cbn [sorted]. split. apply dmap_above. lia. exact A. apply IH. exact Sd.
  Qed.

  Lemma nth_sdiff_aux : forall p i k,
    cf (sdiff_aux C cmul cofN i p) k = cf p k ⊗ cofN (i + N.of_nat k).
  Proof.
    induction p as [|a p IH]; intros i k; cbn [sdiff_aux].
    - destruct k; cbn [nth]; ring.
    - destruct k; cbn [nth].
      + rewrite N.add_0_r. reflexivity.
      + rewrite IH. replace (i + 1 + N.of_nat k) with (i + N.of_nat (S k)) by lia. reflexivity.
  Qed.

  Lemma nth_sdiff : forall p k, cf (sdiff C cmul cofN p) k = cf p (S k) ⊗ cofN (N.of_nat k + 1).
  Proof.
    intros [|a p] k; cbn [sdiff].
    - destruct k; cbn [nth]; ring.
    - rewrite nth_sdiff_aux. cbn [nth]. rewrite N.add_comm. reflexivity.
  Qed.

  (* THEOREM (differentiation) *)
  Theorem dict_diff_correct : forall p,
    dict_diff C c0 cmul ceqb cofN (from_vec p) = from_vec (sdiff C cmul cofN p).
  Proof.
    intro p. unfold dict_diff. destruct (from_vec_wf p) as [Sp _].
    apply from_vec_ext.
    - split. apply clean_sorted. apply dmap_sorted. exact Sp. apply clean_nonzero.
    - intro j. rewrite coeff_clean by (apply dmap_sorted; exact Sp).
      rewrite coeff_dmap, coeff_from_vec. unfold scoeff. rewrite nth_sdiff.
      replace (N.to_nat (j + 1)) with (S (N.to_nat j)) by lia. rewrite N2Nat.id. reflexivity.
  Qed.

  (* ---------------------------------------------------------------- operator*= *)
  Hypothesis Cintegral : forall x y, x ⊗ y = c0 -> x = c0 \/ y = c0.

  Lemma from_vec_zero : forall p, (forall k, cf p k = c0) -> from_vec p = [].
  Proof.
    intros p H. symmetry. apply from_vec_ext. split; [exact I | constructor].
    intro k. unfold scoeff. rewrite H. reflexivity.
  Qed.

  Lemma smul_zero_r : forall p q, (forall k, cf q k = c0) -> forall k, cf (smul p q) k = c0.
  Proof.
    intros p q H k. rewrite (smul_comm C c0 c1 cadd cmul csub copp Crt).
    apply (nth_smul_zero_l C c0 c1 cadd cmul csub copp Crt). exact H.
  Qed.

  Lemma scale_spec : forall (a : dict) t, wf a -> t <> c0 ->
    let r := map (fun kv : N * C => (fst kv, snd kv ⊗ t)) a in
    wf r /\ forall j, coeff r j = coeff a j ⊗ t.
  Proof.
    induction a as [|[k v] a IH]; intros t [Sa Na] Ht; cbn [map fst snd].
    - split. split; [exact I | constructor]. intro j. cbn. ring.
    - cbn [sorted] in Sa. destruct Sa as [A Sa]. inversion Na as [|? ? Hv Na']; subst.
      cbn [snd] in Hv.
      destruct (IH t (conj Sa Na') Ht) as [[S' N'] H']. split; [split|].
      + cbn [sorted]. split; [|exact S'].
        apply Forall_forall. intros y Hy. apply in_map_iff in Hy. destruct Hy as [z [Ez Hz]].
        subst y. cbn [fst]. rewrite Forall_forall in A. apply A. exact Hz.
      + constructor; [|exact N']. cbn [snd]. intro E. destruct (Cintegral _ _ E); contradiction.
      + intro j. cbn [get_coeff]. destruct (k =? j). reflexivity. apply H'.
  Qed.

  (* THEOREM (mul_upoly = operator*= over a container product mulf) *)
  Theorem imul_correct : forall (mulf : dict -> dict -> res dict) p q,
    mulf (from_vec p) (from_vec q) = Ok (from_vec (smul p q)) ->
    imul C cmul mulf (from_vec p) (from_vec q) = Ok (from_vec (smul p q)).
  Proof.
    intros mulf p q Hm. unfold imul.
    destruct (from_vec p) as [|ka a'] eqn:Ea.
    { f_equal. symmetry. apply from_vec_zero.
      apply (nth_smul_zero_l C c0 c1 cadd cmul csub copp Crt). apply from_vec_nil_zero. exact Ea. }
    destruct (from_vec q) as [|[kb t] b'] eqn:Eb.
    { f_equal. symmetry. apply from_vec_zero. apply smul_zero_r. apply from_vec_nil_zero. exact Eb. }
    destruct (is_empty b' && has_key0 C ((kb, t) :: b')) eqn:Econst; [|exact Hm].
    apply andb_prop in Econst. destruct Econst as [E1 E2].
    destruct b' as [|? ?]; [|discriminate E1].
    unfold has_key0 in E2. cbn [existsb fst] in E2. rewrite orb_false_r in E2.
    assert (kb = 0) by lia. subst kb.
    pose proof (from_vec_wf p) as Wa. rewrite Ea in Wa.
    pose proof (from_vec_wf q) as Wb. rewrite Eb in Wb.
    assert (Ht : t <> c0). { destruct Wb as [_ Nb]. inversion Nb; subst. assumption. }
    destruct (scale_spec (ka :: a') t Wa Ht) as [Wr Hr].
    f_equal. apply from_vec_ext. exact Wr.
    intro j. rewrite Hr. rewrite <- Ea, coeff_from_vec. unfold scoeff.
    assert (Hq : peq q [t]).
    { intro k. pose proof (coeff_from_vec q (N.of_nat k)) as Hc. rewrite Eb in Hc.
      unfold scoeff in Hc. rewrite Nat2N.id in Hc. rewrite <- Hc. cbn [get_coeff].
      destruct k; cbn [nth]. reflexivity. replace (0 =? N.of_nat (S k)) with false by lia.
      destruct k; reflexivity. }
    rewrite (smul_peq_r C c0 c1 cadd cmul csub copp Crt p q [t] Hq).
    rewrite (smul_comm C c0 c1 cadd cmul csub copp Crt).
    rewrite (nth_smul_cons C c0 c1 cadd cmul csub copp Crt). cbn [PolySpec.smul].
    destruct (N.to_nat j); cbn [shiftc]; [|rewrite (nth_nil C c0)]; ring.
  Qed.

  (* ---------------------------------------------------------------- pow *)
  Local Notation spow_nat := (spow_nat C c0 c1 cadd cmul).
  Hypothesis c1_nz : c1 <> c0.

  Lemma one_dict_from_vec : one_dict C c1 = from_vec [c1].
  Proof.
    unfold one_dict, PolyModel.from_vec. cbn [PolyModel.from_vec_aux].
    replace (cnz c1) with true by (symmetry; apply cnz_true; exact c1_nz). reflexivity.
  Qed.

  Lemma spow_nat_1 : forall p, peq (spow_nat p 1) p.
  Proof.
    intros p k. cbn [PolySpec.spow_nat]. rewrite (smul_comm C c0 c1 cadd cmul csub copp Crt).
    apply (nth_smul_one_l C c0 c1 cadd cmul csub copp Crt).
  Qed.

  (* a multiplier that, when it answers, answers with the product *)
  Definition mul_sound (m : dict -> dict -> res dict) : Prop :=
    forall p q r, m (from_vec p) (from_vec q) = Ok r -> r = from_vec (smul p q).

  Lemma pow_loop_correct : forall m, mul_sound m ->
    forall fuel p (t r : nat) pc out, (1 <= pc) ->
    pow_loop C m fuel (from_vec (spow_nat p t)) (from_vec (spow_nat p r)) pc = Ok out ->
    exists t' r', fst out = from_vec (spow_nat p t') /\ snd out = from_vec (spow_nat p r')
                  /\ (t' + r' = t * N.to_nat pc + r)%nat.
  Proof.
    intros m Hm. induction fuel as [|f IH]; intros p t r pc out Hpc H; cbn [pow_loop] in H.
    - destruct (pc =? 1) eqn:E1; [|discriminate H].
      inversion H; subst. exists t, r. cbn [fst snd]. repeat split. lia.
    - destruct (pc =? 1) eqn:E1.
      { inversion H; subst. exists t, r. cbn [fst snd]. repeat split. lia. }
      assert (Hsq : forall t2, m (from_vec (spow_nat p t)) (from_vec (spow_nat p t)) = Ok t2 ->
                      t2 = from_vec (spow_nat p (t + t))).
      { intros t2 E. rewrite (Hm _ _ _ E). apply from_vec_peq.
        apply (peq_sym C c0). apply (spow_nat_add C c0 c1 cadd cmul csub copp Crt). }
      destruct (N.even pc) eqn:Ev.
      + destruct (m (from_vec (spow_nat p t)) (from_vec (spow_nat p t))) as [t2| | |] eqn:E; cbn [bind] in H; try discriminate H.
        rewrite (Hsq t2 eq_refl) in H.
        destruct (IH p (t + t)%nat r (pc / 2) out) as [t' [r' [H1 [H2 H3]]]]; [| exact H |].
        { apply N.even_spec in Ev. destruct Ev as [h Eh]. subst pc.
          rewrite N.mul_comm, N.div_mul by lia. lia. }
        exists t', r'. repeat split; try assumption.
        apply N.even_spec in Ev. destruct Ev as [h Eh]. subst pc.
        rewrite N.mul_comm, N.div_mul in H3 by lia. lia.
      + destruct (m (from_vec (spow_nat p r)) (from_vec (spow_nat p t))) as [r2| | |] eqn:Er; cbn [bind] in H; try discriminate H.
        destruct (m (from_vec (spow_nat p t)) (from_vec (spow_nat p t))) as [t2| | |] eqn:E; cbn [bind] in H; try discriminate H.
        rewrite (Hsq t2 eq_refl) in H.
        assert (Er2 : r2 = from_vec (spow_nat p (r + t))).
        { rewrite (Hm _ _ _ Er). apply from_vec_peq.
          apply (peq_sym C c0). apply (spow_nat_add C c0 c1 cadd cmul csub copp Crt). }
        rewrite Er2 in H.
        assert (Hodd : N.odd pc = true) by (rewrite <- N.negb_even, Ev; reflexivity).
        apply N.odd_spec in Hodd. destruct Hodd as [h Eh].
        assert (Hdiv : pc / 2 = h).
        { subst pc. rewrite N.add_comm, N.mul_comm. rewrite N.div_add by lia. cbn. lia. }
        destruct (IH p (t + t)%nat (r + t)%nat (pc / 2) out) as [t' [r' [H1 [H2 H3]]]]; [| exact H |].
        { rewrite Hdiv. lia. }
        exists t', r'. repeat split; try assumption. rewrite Hdiv in H3. nia.
  Qed.

  (* THEOREM (powers, partial correctness for any sound multiplier) *)
  Theorem pow_sound : forall m, mul_sound m -> forall p n out,
    pow C c1 m (from_vec p) n = Ok out -> out = from_vec (spow C c0 c1 cadd cmul p n).
  Proof.
    intros m Hm p n out H. unfold pow in H. unfold spow.
    destruct (n =? 0) eqn:E0.
    - inversion H; subst. assert (n = 0) by lia. subst n. cbn [N.to_nat PolySpec.spow_nat].
      apply one_dict_from_vec.
    - rewrite one_dict_from_vec in H.
      rewrite (from_vec_peq p (spow_nat p 1)) in H by (apply (peq_sym C c0); apply spow_nat_1).
      change [c1] with (spow_nat p 0) in H.
      destruct (pow_loop C m (S (N.to_nat (N.size n))) (from_vec (spow_nat p 1)) (from_vec (spow_nat p 0)) n)
        as [tr| | |] eqn:El; cbn [bind] in H; try discriminate H.
      destruct (pow_loop_correct m Hm _ p 1%nat 0%nat n tr ltac:(lia) El) as [t' [r' [H1 [H2 H3]]]].
      rewrite H1, H2 in H. rewrite (Hm _ _ _ H). apply from_vec_peq.
      replace (N.to_nat n) with (r' + t')%nat by lia.
      apply (peq_sym C c0). apply (spow_nat_add C c0 c1 cadd cmul csub copp Crt).
  Qed.

  (* the run with a weaker sound multiplier is reproduced by any multiplier that extends it
     on well-formed dictionaries *)
  Definition extends_on_wf (m1 m2 : dict -> dict -> res dict) : Prop :=
    forall p q r, m2 (from_vec p) (from_vec q) = Ok r -> m1 (from_vec p) (from_vec q) = Ok r.

  Lemma pow_loop_mono : forall (m1 m2 : dict -> dict -> res dict),
    mul_sound m2 -> extends_on_wf m1 m2 ->
    forall fuel pt pr pc out,
      pow_loop C m2 fuel (from_vec pt) (from_vec pr) pc = Ok out ->
      pow_loop C m1 fuel (from_vec pt) (from_vec pr) pc = Ok out
      /\ exists pt' pr', out = (from_vec pt', from_vec pr').
  Proof.
    intros m1 m2 Hs Hext. induction fuel as [|f IH]; intros pt pr pc out H; cbn [pow_loop] in *.
    - destruct (pc =? 1); [|discriminate H]. split. exact H. inversion H. eauto.
    - destruct (pc =? 1). split. exact H. inversion H. eauto.
      destruct (N.even pc).
      + destruct (m2 (from_vec pt) (from_vec pt)) as [t2| | |] eqn:E; cbn [bind] in H; try discriminate H.
        rewrite (Hext _ _ _ E). cbn [bind]. rewrite (Hs _ _ _ E) in *. apply IH. exact H.
      + destruct (m2 (from_vec pr) (from_vec pt)) as [r2| | |] eqn:Er; cbn [bind] in H; try discriminate H.
        destruct (m2 (from_vec pt) (from_vec pt)) as [t2| | |] eqn:E; cbn [bind] in H; try discriminate H.
        rewrite (Hext _ _ _ Er), (Hext _ _ _ E). cbn [bind].
        rewrite (Hs _ _ _ E), (Hs _ _ _ Er) in *. apply IH. exact H.
  Qed.

  Lemma pow_mono : forall (m1 m2 : dict -> dict -> res dict),
    mul_sound m2 -> extends_on_wf m1 m2 ->
    forall p n out, pow C c1 m2 (from_vec p) n = Ok out -> pow C c1 m1 (from_vec p) n = Ok out.
  Proof.
    intros m1 m2 Hs Hext p n out H. unfold pow in *. destruct (n =? 0). exact H.
    rewrite one_dict_from_vec in *.
    destruct (pow_loop C m2 (S (N.to_nat (N.size n))) (from_vec p) (from_vec [c1]) n) as [tr| | |] eqn:El;
      cbn [bind] in H; try discriminate H.
    destruct (pow_loop_mono m1 m2 Hs Hext _ _ _ _ _ El) as [El1 [pt' [pr' Etr]]].
    rewrite El1. cbn [bind]. subst tr. cbn [fst snd] in *. apply Hext. exact H.
  Qed.

  (* termination: the loop `while (p != 1)` never exhausts its fuel (p >= 1) *)
  Lemma pow_loop_fuel : forall m, (forall x y, m x y <> ErrFuel) ->
    forall fuel tmp rs pc, 1 <= pc -> pc < 2 ^ N.of_nat fuel -> pow_loop C m fuel tmp rs pc <> ErrFuel.
  Proof.
    intros m Hm. induction fuel as [|f IH]; intros tmp rs pc H1 H2; cbn [pow_loop].
    - cbn in H2. replace (pc =? 1) with true by lia. discriminate.
    - destruct (pc =? 1) eqn:E1. discriminate.
      assert (Hhalf : 1 <= pc / 2 /\ pc / 2 < 2 ^ N.of_nat f).
      { rewrite Nat2N.inj_succ, N.pow_succ_r' in H2. split.
        - apply N.div_le_lower_bound; lia.
        - apply N.div_lt_upper_bound; lia. }
      destruct (N.even pc).
      + destruct (m tmp tmp) as [t2| | |] eqn:E; cbn [bind]; try discriminate.
        apply IH; apply Hhalf. exfalso. eapply Hm; eauto.
      + destruct (m rs tmp) as [r2| | |] eqn:Er; cbn [bind]; try discriminate.
        destruct (m tmp tmp) as [t2| | |] eqn:E; cbn [bind]; try discriminate.
        apply IH; apply Hhalf. exfalso. eapply Hm; eauto. exfalso. eapply Hm; eauto.
  Qed.

  Theorem pow_terminates : forall m, (forall x y, m x y <> ErrFuel) ->
    forall a n, pow C c1 m a n <> ErrFuel.
  Proof.
    intros m Hm a n. unfold pow. destruct (n =? 0) eqn:E0. discriminate.
    destruct (pow_loop C m (S (N.to_nat (N.size n))) a (one_dict C c1) n) as [tr| | |] eqn:El;
      cbn [bind]; try discriminate.
    - apply Hm.
    - exfalso. revert El. apply pow_loop_fuel. exact Hm. lia.
      rewrite Nat2N.inj_succ, N2Nat.id, N.pow_succ_r'. pose proof (N.size_gt n). lia.
  Qed.

  (* ---------------------------------------------------------------- divides_upoly *)
  Variable cdivx : C -> C -> option C.
  Hypothesis cdivx_spec : forall x y q, y <> c0 -> (cdivx x y = Some q <-> x = q ⊗ y).

  Local Notation mono := (mono C c0).
  Local Notation sc p k := (scoeff C c0 p k).

  Lemma usub_small : forall x y, y <= x -> x < W32 -> usub x y = x - y.
  Proof.
    intros x y H1 H2. unfold usub. rewrite (N.mod_small y) by lia.
    replace (x + W32 - y) with ((x - y) + 1 * W32) by lia.
    rewrite N.mod_add by (unfold W32; lia). apply N.mod_small. lia.
  Qed.

  Lemma from_vec_mono : forall k q, q <> c0 -> from_vec (mono k q) = [(N.of_nat k, q)].
  Proof.
    intros k q Hq. symmetry. apply from_vec_ext.
    - split. cbn. split; [constructor | exact I]. constructor. exact Hq. constructor.
    - intro j. cbn [get_coeff]. unfold scoeff. rewrite (nth_mono C c0).
      destruct (N.of_nat k =? j) eqn:E.
      + replace (Nat.eqb (N.to_nat j) k) with true by (symmetry; apply Nat.eqb_eq; lia). reflexivity.
      + replace (Nat.eqb (N.to_nat j) k) with false by (symmetry; apply Nat.eqb_neq; lia). reflexivity.
  Qed.

  Lemma set_term_prepend : forall (rq : dict) k q, above k rq -> set_term rq k q = (k, q) :: rq.
  Proof.
    intros [|[k' v'] rq] k q A; cbn [set_term]. reflexivity.
    inversion A; subst. cbn [fst] in *.
    replace (k' <? k) with false by lia. replace (k' =? k) with false by lia. reflexivity.
  Qed.

  Lemma degree_top_nonzero : forall p, from_vec p <> [] -> sc p (degree (from_vec p)) <> c0.
  Proof.
    intros p Hne. destruct (degree_from_vec p) as [_ [H|[_ H]]]. exact H.
    exfalso. apply Hne. apply from_vec_zero. intro k. specialize (H (N.of_nat k)).
    unfold scoeff in H. rewrite Nat2N.id in H. exact H.
  Qed.

  Lemma degree_above_zero : forall p k, degree (from_vec p) < k -> sc p k = c0.
  Proof. intros p k H. rewrite <- coeff_from_vec. apply coeff_gt_degree. apply from_vec_wf. exact H. Qed.

  Lemma nonzero_le_degree : forall p k, sc p k <> c0 -> from_vec p <> [] /\ k <= degree (from_vec p).
  Proof.
    intros p k H. split.
    - intro E. apply H. rewrite <- coeff_from_vec, E. reflexivity.
    - destruct (N.le_gt_cases k (degree (from_vec p))) as [L|L]. exact L.
      exfalso. apply H. apply degree_above_zero. exact L.
  Qed.

  Lemma degree_lt_of_vanish : forall p n, from_vec p <> [] -> (forall j, n <= j -> sc p j = c0) ->
    degree (from_vec p) < n.
  Proof.
    intros p n Hne Hv. destruct (N.lt_ge_cases (degree (from_vec p)) n) as [L|L]. exact L.
    exfalso. apply (degree_top_nonzero p Hne). apply Hv. exact L.
  Qed.

  (* the leading term of a product in an integral domain *)
  Lemma smul_lead : forall p r, from_vec p <> [] -> from_vec r <> [] ->
    sc (smul p r) (degree (from_vec p) + degree (from_vec r))
      = sc p (degree (from_vec p)) ⊗ sc r (degree (from_vec r))
    /\ sc (smul p r) (degree (from_vec p) + degree (from_vec r)) <> c0.
  Proof.
    intros p r Hp Hr.
    assert (E : sc (smul p r) (degree (from_vec p) + degree (from_vec r))
                = sc p (degree (from_vec p)) ⊗ sc r (degree (from_vec r))).
    { unfold scoeff. rewrite N2Nat.inj_add.
      apply (smul_top C c0 c1 cadd cmul csub copp Crt).
      - intros k Hk. pose proof (degree_above_zero p (N.of_nat k)) as H. unfold scoeff in H.
        rewrite Nat2N.id in H. apply H. lia.
      - intros k Hk. pose proof (degree_above_zero r (N.of_nat k)) as H. unfold scoeff in H.
        rewrite Nat2N.id in H. apply H. lia. }
    split. exact E. rewrite E. intro Z.
    destruct (Cintegral _ _ Z) as [Z1|Z1]; [apply (degree_top_nonzero p Hp) | apply (degree_top_nonzero r Hr)]; exact Z1.
  Qed.

  Definition multiple (pa pc : list C) : Prop := exists R, peq pc (smul pa R).

  Lemma peq_sc : forall p q, peq p q -> forall k, sc p k = sc q k.
  Proof. intros p q H k. unfold scoeff. apply H. Qed.

  (* a non-zero multiple of pa has at least the degree of pa, and its leading coefficient is a
     multiple of pa's *)
  Lemma multiple_lead : forall pa pc R, from_vec pa <> [] -> from_vec pc <> [] -> peq pc (smul pa R) ->
    from_vec R <> [] /\
    degree (from_vec pc) = degree (from_vec pa) + degree (from_vec R) /\
    sc pc (degree (from_vec pc)) = sc R (degree (from_vec R)) ⊗ sc pa (degree (from_vec pa)).
  Proof.
    intros pa pc R Ha Hc HR.
    assert (HRne : from_vec R <> []).
    { intro E. apply Hc. apply from_vec_zero. intro k. rewrite (HR k).
      apply smul_zero_r. apply from_vec_nil_zero. exact E. }
    destruct (smul_lead pa R Ha HRne) as [E1 E2].
    assert (Hdeg : degree (from_vec pc) = degree (from_vec pa) + degree (from_vec R)).
    { apply N.le_antisymm.
      - destruct (N.le_gt_cases (degree (from_vec pc)) (degree (from_vec pa) + degree (from_vec R))) as [L|L].
        exact L. exfalso. apply (degree_top_nonzero pc Hc). rewrite (peq_sc _ _ HR). unfold scoeff.
        apply (smul_support C c0 c1 cadd cmul csub copp Crt pa R
                 (S (N.to_nat (degree (from_vec pa)))) (S (N.to_nat (degree (from_vec R))))).
        + intros k Hk. pose proof (degree_above_zero pa (N.of_nat k)) as H. unfold scoeff in H.
          rewrite Nat2N.id in H. apply H. lia.
        + intros k Hk. pose proof (degree_above_zero R (N.of_nat k)) as H. unfold scoeff in H.
          rewrite Nat2N.id in H. apply H. lia.
        + lia.
      - apply (nonzero_le_degree pc). rewrite (peq_sc _ _ HR). exact E2. }
    split. exact HRne. split. exact Hdeg.
    rewrite Hdeg, (peq_sc _ _ HR), E1. ring.
  Qed.

  Lemma smul_cancel : forall pa R, from_vec pa <> [] -> (forall k, cf (smul pa R) k = c0) -> from_vec R = [].
  Proof.
    intros pa R Ha H. destruct (from_vec R) eqn:E. reflexivity.
    exfalso. assert (HRne : from_vec R <> []) by (rewrite E; discriminate).
    destruct (smul_lead pa R Ha HRne) as [_ E2]. apply E2. unfold scoeff. apply H.
  Qed.

  Section Divides.
    Variable m : dict -> dict -> res dict.
    Hypothesis m_sound : mul_sound m.
    Variable pa : list C.
    Hypothesis pa_ne : from_vec pa <> [].
    Local Notation a := (from_vec pa).
    Local Notation da := (degree (from_vec pa)).
    Local Notation div_loop := (div_loop C c0 csub copp ceqb cdivx m).

    Lemma lc_a_nonzero : get_lc C c0 a <> c0.
    Proof. rewrite get_lc_from_vec. apply degree_top_nonzero. exact pa_ne. Qed.

    (* one step of the loop, on coefficient lists *)
    Lemma div_step : forall pc q,
      from_vec pc <> [] -> da <= degree (from_vec pc) -> degree (from_vec pc) < W32 ->
      cdivx (get_lc C c0 (from_vec pc)) (get_lc C c0 a) = Some q ->
      let k := usub (degree (from_vec pc)) da in
      let pc1 := ssub pc (smul pa (mono (N.to_nat k) q)) in
      k = degree (from_vec pc) - da /\ q <> c0 /\
      clean [(k, q)] = from_vec (mono (N.to_nat k) q) /\
      (from_vec pc1 = [] \/ degree (from_vec pc1) < degree (from_vec pc)).
    Proof.
      intros pc q Hc Hd Hw Hq k pc1.
      assert (Ek : k = degree (from_vec pc) - da) by (apply usub_small; assumption).
      apply cdivx_spec in Hq; [|apply lc_a_nonzero].
      rewrite !get_lc_from_vec in Hq.
      assert (Hqn : q <> c0).
      { intro Z. apply (degree_top_nonzero pc Hc). rewrite Hq, Z. ring. }
      split. exact Ek. split. exact Hqn. split.
      { rewrite from_vec_mono by exact Hqn. rewrite N2Nat.id.
        unfold PolyModel.clean. cbn [filter snd].
        replace (cnz q) with true by (symmetry; apply cnz_true; exact Hqn). reflexivity. }
      destruct (from_vec pc1) eqn:E1. left; reflexivity. right. rewrite <- E1.
      apply degree_lt_of_vanish. rewrite E1; discriminate.
      intros j Hj. unfold pc1, scoeff, PolySpec.ssub.
      rewrite (nth_sadd C c0 c1 cadd cmul csub copp Crt), (nth_sneg C c0 c1 cadd cmul csub copp Crt).
      destruct (N.eq_dec j (degree (from_vec pc))) as [Ej|Ej].
      - subst j. replace (N.to_nat (degree (from_vec pc))) with (N.to_nat da + N.to_nat k)%nat by lia.
        rewrite (smul_top C c0 c1 cadd cmul csub copp Crt).
        + rewrite (nth_mono C c0), Nat.eqb_refl.
          replace (N.to_nat da + N.to_nat k)%nat with (N.to_nat (degree (from_vec pc))) by lia.
          fold (scoeff C c0 pc (degree (from_vec pc))). fold (scoeff C c0 pa da). rewrite Hq. ring.
        + intros i Hi. pose proof (degree_above_zero pa (N.of_nat i)) as H. unfold scoeff in H.
          rewrite Nat2N.id in H. apply H. lia.
        + intros i Hi. rewrite (nth_mono C c0).
          replace (Nat.eqb i (N.to_nat k)) with false by (symmetry; apply Nat.eqb_neq; lia). reflexivity.
      - assert (Hz : cf pc (N.to_nat j) = c0).
        { apply (degree_above_zero pc j). lia. }
        rewrite Hz.
        rewrite (smul_support C c0 c1 cadd cmul csub copp Crt pa (mono (N.to_nat k) q)
                   (S (N.to_nat da)) (S (N.to_nat k))).
        + ring.
        + intros i Hi. pose proof (degree_above_zero pa (N.of_nat i)) as H. unfold scoeff in H.
          rewrite Nat2N.id in H. apply H. lia.
        + intros i Hi. rewrite (nth_mono C c0).
          replace (Nat.eqb i (N.to_nat k)) with false by (symmetry; apply Nat.eqb_neq; lia). reflexivity.
        + lia.
    Qed.

    Lemma multiple_step : forall pc M, multiple pa (ssub pc (smul pa M)) <-> multiple pa pc.
    Proof.
      intros pc M. split; intros [R HR].
      - exists (sadd R M). intro j. specialize (HR j). unfold PolySpec.ssub in HR.
        rewrite (nth_sadd C c0 c1 cadd cmul csub copp Crt), (nth_sneg C c0 c1 cadd cmul csub copp Crt) in HR.
        rewrite (nth_smul_sadd_r C c0 c1 cadd cmul csub copp Crt). rewrite <- HR. ring.
      - exists (sadd R (sneg M)). intro j. specialize (HR j). unfold PolySpec.ssub.
        rewrite (nth_sadd C c0 c1 cadd cmul csub copp Crt), (nth_sneg C c0 c1 cadd cmul csub copp Crt).
        rewrite (nth_smul_sadd_r C c0 c1 cadd cmul csub copp Crt), (nth_smul_sneg_r C c0 c1 cadd cmul csub copp Crt).
        rewrite HR. ring.
    Qed.

    Lemma div_continue_true : forall b : dict, div_continue C a b = true <-> b <> [] /\ da <= degree b.
    Proof.
      intros b. unfold div_continue. destruct b as [|kv b]; cbn [is_empty negb andb].
      - split. discriminate. intros [H _]. congruence.
      - rewrite N.leb_le. split. intro H. split. discriminate. exact H. intros [_ H]. exact H.
    Qed.

    Lemma div_loop_spec : forall fuel pc (rq : dict) out,
      degree (from_vec pc) < W32 -> wf rq ->
      (from_vec pc <> [] -> Forall (fun kv => degree (from_vec pc) < fst kv + da) rq) ->
      div_loop fuel a (from_vec pc) rq = Ok out ->
      match out with
      | None => ~ multiple pa pc
      | Some (b', rq') =>
          exists D pr, wf rq' /\ (forall j, coeff rq' j = coeff rq j ⊕ sc D j) /\
                       b' = from_vec pr /\ peq pc (sadd (smul pa D) pr) /\
                       (b' = [] \/ degree b' < da)
      end.
    Proof.
      induction fuel as [|f IH]; intros pc rq out Hw Wrq Hab H; cbn [PolyModel.div_loop] in H;
        destruct (div_continue C a (from_vec pc)) eqn:Ec; cbn [negb] in H.
      - discriminate H.
      - inversion H; subst. exists [], pc. split. exact Wrq. split.
        { intro j. unfold scoeff. rewrite (nth_nil C c0). ring. }
        split. reflexivity. split.
        { intro j. rewrite (nth_sadd C c0 c1 cadd cmul csub copp Crt), (nth_smul_nil_r C c0 c1 cadd cmul csub copp Crt). ring. }
        destruct (from_vec pc) as [|kv b] eqn:E. left; reflexivity. right.
        rewrite <- E in *.
        destruct (N.lt_ge_cases (degree (from_vec pc)) da) as [L|L]. exact L.
        exfalso. assert (div_continue C a (from_vec pc) = true).
        { apply div_continue_true. split. rewrite E. discriminate. exact L. } congruence.
      - apply div_continue_true in Ec. destruct Ec as [Hne Hd].
        destruct (cdivx (get_lc C c0 (from_vec pc)) (get_lc C c0 a)) as [q|] eqn:Eq.
        + destruct (div_step pc q Hne Hd Hw Eq) as [Ek [Hqn [Ecl Hdec]]].
          set (k := usub (degree (from_vec pc)) da) in *.
          set (M := mono (N.to_nat k) q) in *.
          rewrite Ecl in H.
          destruct (m a (from_vec M)) as [prod| | |] eqn:Em; cbn [bind] in H; try discriminate H.
          rewrite (m_sound _ _ _ Em) in H.
          rewrite dict_sub_correct in H.
          assert (Hab' : Forall (fun kv => degree (from_vec pc) < fst kv + da) rq) by (apply Hab; exact Hne).
          assert (Habove : above k rq).
          { eapply Forall_impl; [|exact Hab']. cbn. intros kv Hkv. lia. }
          rewrite set_term_prepend in H by exact Habove.
          set (pc1 := ssub pc (smul pa M)) in *.
          assert (Wrq1 : wf ((k, q) :: rq)).
          { destruct Wrq as [Sq Nq]. split. cbn [sorted]. split; assumption. constructor; assumption. }
          assert (Hw1 : degree (from_vec pc1) < W32).
          { destruct Hdec as [E|L]. rewrite E. cbn. unfold W32. lia. lia. }
          assert (Hab1 : from_vec pc1 <> [] ->
                         Forall (fun kv => degree (from_vec pc1) < fst kv + da) ((k, q) :: rq)).
          { intro Hne1. destruct Hdec as [E|L]. congruence.
            constructor. cbn [fst]. lia. eapply Forall_impl; [|exact Hab']. cbn. intros kv Hkv. lia. }
          specialize (IH pc1 ((k, q) :: rq) out Hw1 Wrq1 Hab1 H).
          destruct out as [[b' rq']|].
          * destruct IH as [D1 [pr [W' [Hco [Eb [Hpq Hfin]]]]]].
            exists (sadd D1 M), pr. split. exact W'. split.
            { intro j. rewrite Hco. cbn [get_coeff]. unfold scoeff.
              rewrite (nth_sadd C c0 c1 cadd cmul csub copp Crt). unfold M. rewrite (nth_mono C c0).
              destruct (k =? j) eqn:Ekj.
              - assert (k = j) by lia. subst j. rewrite Nat.eqb_refl.
                rewrite (coeff_above rq k k Habove) by lia. ring.
              - replace (Nat.eqb (N.to_nat j) (N.to_nat k)) with false by (symmetry; apply Nat.eqb_neq; lia).
                ring. }
            split. exact Eb. split; [|exact Hfin].
            intro j. specialize (Hpq j). unfold pc1, PolySpec.ssub in Hpq.
            rewrite !(nth_sadd C c0 c1 cadd cmul csub copp Crt) in *.
            rewrite (nth_sneg C c0 c1 cadd cmul csub copp Crt) in Hpq.
            rewrite (nth_smul_sadd_r C c0 c1 cadd cmul csub copp Crt).
            transitivity ((cf pc j ⊕ copp (cf (smul pa M) j)) ⊕ cf (smul pa M) j). ring.
            rewrite Hpq. ring.
          * intro Hm. apply IH. apply multiple_step. exact Hm.
        + inversion H; subst. intros [R HR].
          destruct (multiple_lead pa pc R pa_ne Hne HR) as [_ [_ Hlc]].
          assert (cdivx (get_lc C c0 (from_vec pc)) (get_lc C c0 a) = Some (sc R (degree (from_vec R)))).
          { apply cdivx_spec. apply lc_a_nonzero. rewrite !get_lc_from_vec. exact Hlc. }
          congruence.
      - (* same exit as with no fuel *)
        inversion H; subst. exists [], pc. split. exact Wrq. split.
        { intro j. unfold scoeff. rewrite (nth_nil C c0). ring. }
        split. reflexivity. split.
        { intro j. rewrite (nth_sadd C c0 c1 cadd cmul csub copp Crt), (nth_smul_nil_r C c0 c1 cadd cmul csub copp Crt). ring. }
        destruct (from_vec pc) as [|kv b] eqn:E. left; reflexivity. right.
        rewrite <- E in *.
        destruct (N.lt_ge_cases (degree (from_vec pc)) da) as [L|L]. exact L.
        exfalso. assert (div_continue C a (from_vec pc) = true).
        { apply div_continue_true. split. rewrite E. discriminate. exact L. } congruence.
    Qed.

    Lemma div_loop_fuel : (forall x y, m x y <> ErrFuel) ->
      forall fuel pc (rq : dict), degree (from_vec pc) < W32 ->
      (from_vec pc <> [] -> (N.to_nat (degree (from_vec pc)) < fuel)%nat) ->
      div_loop fuel a (from_vec pc) rq <> ErrFuel.
    Proof.
      intros Hm. induction fuel as [|f IH]; intros pc rq Hw Hf; cbn [PolyModel.div_loop];
        destruct (div_continue C a (from_vec pc)) eqn:Ec; cbn [negb]; try discriminate.
      - apply div_continue_true in Ec. destruct Ec as [Hne _]. specialize (Hf Hne). lia.
      - apply div_continue_true in Ec. destruct Ec as [Hne Hd].
        destruct (cdivx (get_lc C c0 (from_vec pc)) (get_lc C c0 a)) as [q|] eqn:Eq; [|discriminate].
        destruct (div_step pc q Hne Hd Hw Eq) as [Ek [Hqn [Ecl Hdec]]].
        rewrite Ecl.
        destruct (m a (from_vec (mono (N.to_nat (usub (degree (from_vec pc)) da)) q))) as [prod| | |] eqn:Em;
          cbn [bind]; try discriminate.
        + rewrite (m_sound _ _ _ Em). rewrite dict_sub_correct. apply IH.
          * destruct Hdec as [E|L]. rewrite E. cbn. unfold W32. lia. lia.
          * intro Hne1. destruct Hdec as [E|L]. congruence. specialize (Hf Hne). lia.
        + exfalso. eapply Hm; eauto.
    Qed.

    (* THEOREM (exact division): whenever the run answers, the answer is right *)
    Theorem divides_sound_complete : forall pb r,
      degree (from_vec pb) < W32 ->
      divides C c0 csub copp ceqb cdivx m a (from_vec pb) = Ok r ->
      match r with
      | Some d => exists D, d = from_vec D /\ peq pb (smul pa D)
      | None => ~ multiple pa pb
      end.
    Proof.
      intros pb r Hw H. unfold divides in H.
      replace (is_empty a) with false in H by (destruct a; [exfalso; apply pa_ne; reflexivity | reflexivity]).
      destruct (div_loop (S (S (N.to_nat (degree (from_vec pb))))) a (from_vec pb) []) as [o| | |] eqn:El;
        cbn [bind] in H; try discriminate H.
      pose proof (div_loop_spec _ pb [] o Hw (conj I (Forall_nil _)) (fun _ => Forall_nil _) El) as Hs.
      destruct o as [[b' rq']|].
      - destruct Hs as [D [pr [W' [Hco [Eb [Hpq Hfin]]]]]].
        assert (Erq : rq' = from_vec D).
        { apply from_vec_ext. exact W'. intro j. rewrite Hco. cbn [get_coeff]. ring. }
        destruct (is_empty b') eqn:Eemp.
        + inversion H; subst r. exists D. split.
          * rewrite Erq. apply clean_wf_id. apply from_vec_wf.
          * destruct b'; [|discriminate Eemp]. symmetry in Eb.
            intro j. rewrite (Hpq j), (nth_sadd C c0 c1 cadd cmul csub copp Crt).
            rewrite (from_vec_nil_zero pr Eb j). ring.
        + inversion H; subst r. intros [R HR].
          assert (Hbne : from_vec pr <> []) by (rewrite <- Eb; destruct b'; [discriminate Eemp | discriminate]).
          assert (Hmul : peq pr (smul pa (sadd R (sneg D)))).
          { intro j. specialize (Hpq j). specialize (HR j).
            rewrite (nth_sadd C c0 c1 cadd cmul csub copp Crt) in Hpq.
            rewrite (nth_smul_sadd_r C c0 c1 cadd cmul csub copp Crt), (nth_smul_sneg_r C c0 c1 cadd cmul csub copp Crt).
            rewrite <- HR, Hpq. ring. }
          destruct (multiple_lead pa pr _ pa_ne Hbne Hmul) as [_ [Hdeg _]].
          destruct Hfin as [E|L]. subst b'. congruence. rewrite Eb in L. lia.
      - inversion H; subst r. exact Hs.
    Qed.

    Theorem divides_complete : forall pb Q r,
      degree (from_vec pb) < W32 -> peq pb (smul pa Q) ->
      divides C c0 csub copp ceqb cdivx m a (from_vec pb) = Ok r -> r = Some (from_vec Q).
    Proof.
      intros pb Q r Hw HQ H. pose proof (divides_sound_complete pb r Hw H) as Hs.
      destruct r as [d|].
      - destruct Hs as [D [Ed HD]]. subst d. f_equal. apply from_vec_peq.
        assert (Hz : from_vec (sadd D (sneg Q)) = []).
        { apply (smul_cancel pa). exact pa_ne. intro k.
          rewrite (nth_smul_sadd_r C c0 c1 cadd cmul csub copp Crt), (nth_smul_sneg_r C c0 c1 cadd cmul csub copp Crt).
          rewrite <- (HD k), <- (HQ k). ring. }
        intro k. pose proof (from_vec_nil_zero _ Hz k) as Hk.
        rewrite (nth_sadd C c0 c1 cadd cmul csub copp Crt), (nth_sneg C c0 c1 cadd cmul csub copp Crt) in Hk.
        transitivity ((cf D k ⊕ copp (cf Q k)) ⊕ cf Q k). ring. rewrite Hk. ring.
      - exfalso. apply Hs. exists Q. exact HQ.
    Qed.

    Theorem divides_terminates : (forall x y, m x y <> ErrFuel) -> forall pb,
      degree (from_vec pb) < W32 ->
      divides C c0 csub copp ceqb cdivx m a (from_vec pb) <> ErrFuel.
    Proof.
      intros Hm pb Hw. unfold divides. destruct (is_empty a). discriminate.
      destruct (div_loop (S (S (N.to_nat (degree (from_vec pb))))) a (from_vec pb) []) as [o| | |] eqn:El;
        cbn [bind]; try discriminate.
      - destruct o as [[b' rq']|]. destruct (is_empty b'); discriminate. discriminate.
      - exfalso. revert El. apply div_loop_fuel. exact Hm. exact Hw. intros _. lia.
    Qed.
  End Divides.

  Lemma clean_single : forall k q, exists l, clean [(k, q)] = from_vec l.
  Proof.
    intros k q. unfold PolyModel.clean. cbn [filter snd]. destruct (cnz q) eqn:E.
    - exists (mono (N.to_nat k) q). rewrite from_vec_mono by (apply cnz_true; exact E).
      rewrite N2Nat.id. reflexivity.
    - exists []. reflexivity.
  Qed.

  Lemma div_loop_mono : forall (m1 m2 : dict -> dict -> res dict),
    mul_sound m2 -> extends_on_wf m1 m2 ->
    forall fuel pa pb rq out,
      div_loop C c0 csub copp ceqb cdivx m2 fuel (from_vec pa) (from_vec pb) rq = Ok out ->
      div_loop C c0 csub copp ceqb cdivx m1 fuel (from_vec pa) (from_vec pb) rq = Ok out.
  Proof.
    intros m1 m2 Hs Hext. induction fuel as [|f IH]; intros pa pb rq out H; cbn [PolyModel.div_loop] in *.
    - exact H.
    - destruct (negb (div_continue C (from_vec pa) (from_vec pb))). exact H.
      destruct (cdivx (get_lc C c0 (from_vec pb)) (get_lc C c0 (from_vec pa))) as [q|]; [|exact H].
      destruct (clean_single (usub (degree (from_vec pb)) (degree (from_vec pa))) q) as [l El].
      rewrite El in *.
      destruct (m2 (from_vec pa) (from_vec l)) as [prod| | |] eqn:E; cbn [bind] in H; try discriminate H.
      rewrite (Hext _ _ _ E). cbn [bind]. rewrite (Hs _ _ _ E) in *.
      rewrite dict_sub_correct in *. apply IH. exact H.
  Qed.

  Lemma divides_mono : forall (m1 m2 : dict -> dict -> res dict),
    mul_sound m2 -> extends_on_wf m1 m2 ->
    forall pa pb out, divides C c0 csub copp ceqb cdivx m2 (from_vec pa) (from_vec pb) = Ok out ->
                      divides C c0 csub copp ceqb cdivx m1 (from_vec pa) (from_vec pb) = Ok out.
  Proof.
    intros m1 m2 Hs Hext pa pb out H. unfold divides in *. destruct (is_empty (from_vec pa)). exact H.
    destruct (PolyModel.div_loop C c0 csub copp ceqb cdivx m2 (S (S (N.to_nat (degree (from_vec pb)))))
                (from_vec pa) (from_vec pb) []) as [o| | |] eqn:El;
      cbn [bind] in H; try discriminate H.
    rewrite (div_loop_mono m1 m2 Hs Hext _ _ _ _ _ El). cbn [bind]. exact H.
  Qed.
End DictProofs.
