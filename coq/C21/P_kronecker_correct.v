(* C21 obligation: UIntDict::mul (Kronecker substitution: bit budget, evaluation at 2^N, signed digit decoding with carry) is the schoolbook product for ALL integer coefficient lists, of any length and coefficient size, under the representation limits of `unsigned int` only (fits_u32: deg a + deg b < 2^32 and bit_length(min(deg a, deg b)+1) + bit_length(max|a|) + bit_length(max|b|) + 1 < 2^32); in particular the digit loop terminates within its fuel and no dictionary access is out of range *)
From SE Require Import Base.Prelude C21.PolyModel C21.PolySpec C21.PolyProofs.
Local Open Scope Z_scope.
Theorem C21_kronecker_correct :
  forall p q : list Z,
    fits_u32 (zfrom_vec p) (zfrom_vec q) = true ->
    kmul (zfrom_vec p) (zfrom_vec q) = Ok (zfrom_vec (zsmul p q)).
Proof. exact kronecker_correct. Qed.
Print Assumptions C21_kronecker_correct.
