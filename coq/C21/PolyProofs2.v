(* C21 -- rational coefficients: the only representation limit is the exponent type, and the
   runs of pow_upoly / divides_upoly respect it under simple conditions (PolyFits.v). *)
From SE Require Import Base.Prelude C21.PolyModel C21.PolySpec C21.PolyList C21.PolyDict C21.PolyFits C21.PolyProofs.
From Coq Require Import Lia ZifyBool ZifyN QArith Qcanon.
Local Open Scope N_scope.

Ltac qi := try exact Qcrt; try exact qeqb_spec; try exact Qcintegral; try exact Qcone_nz;
           try exact qdivx_spec; try exact qofN; try exact qdivx.

Lemma qpow_fits_simple : forall p n, n * degree (qfrom_vec p) < W32 -> qpow_fits (qfrom_vec p) n = true.
Proof.
  intros p n H. unfold qpow_fits.
  assert (E : pow Qc q1 (gchk Qc q0 Qcplus Qcmult qeqb) (from_vec Qc q0 qeqb p) n
              = Ok (from_vec Qc q0 qeqb (spow Qc q0 q1 Qcplus Qcmult p n))).
  { eapply pow_ok; qi. exact H. }
  change (gchk Qc q0 Qcplus Qcmult qeqb) with qgmul_chk in E.
  change (from_vec Qc q0 qeqb) with qfrom_vec in E. rewrite E. reflexivity.
Qed.

Theorem q_pow_simple : forall p n, n * degree (qfrom_vec p) < W32 ->
  qpow (qfrom_vec p) n = Ok (qfrom_vec (qspow p n)).
Proof. intros p n H. apply q_pow. apply qpow_fits_simple. exact H. Qed.

Lemma qdivides_fits_simple : forall pa pb, degree (qfrom_vec pb) < W32 ->
  qdivides_fits (qfrom_vec pa) (qfrom_vec pb) = true.
Proof.
  intros pa pb H. unfold qdivides_fits.
  destruct (qfrom_vec pa) as [|kv a'] eqn:Ea. reflexivity.
  assert (Hne : from_vec Qc q0 qeqb pa <> []).
  { change (from_vec Qc q0 qeqb) with qfrom_vec. rewrite Ea. discriminate. }
  assert (Ex : exists r, divides Qc q0 Qcminus Qcopp qeqb qdivx (gchk Qc q0 Qcplus Qcmult qeqb)
                           (from_vec Qc q0 qeqb pa) (from_vec Qc q0 qeqb pb) = Ok r).
  { eapply divides_ok; qi. exact Hne. exact H. }
  destruct Ex as [r E].
  change (gchk Qc q0 Qcplus Qcmult qeqb) with qgmul_chk in E.
  change (from_vec Qc q0 qeqb) with qfrom_vec in E. rewrite Ea in E. rewrite E. reflexivity.
Qed.

Theorem q_divides_simple : forall pa pb, degree (qfrom_vec pb) < W32 ->
  exists r, qdivides (qfrom_vec pa) (qfrom_vec pb) = Ok r /\
    match r with
    | Some d => qfrom_vec pa <> [] /\ exists D, d = qfrom_vec D /\ qpeq pb (qsmul pa D)
    | None => qfrom_vec pa = [] \/ ~ exists D, qpeq pb (qsmul pa D)
    end.
Proof. intros pa pb H. apply q_divides. apply qdivides_fits_simple. exact H. exact H. Qed.

Theorem q_divides_complete_simple : forall pa pb Q, degree (qfrom_vec pb) < W32 ->
  qfrom_vec pa <> [] -> qpeq pb (qsmul pa Q) ->
  qdivides (qfrom_vec pa) (qfrom_vec pb) = Ok (Some (qfrom_vec Q)).
Proof. intros pa pb Q H Hne HQ. apply q_divides_complete; try assumption. apply qdivides_fits_simple. exact H. Qed.
