(* C21 obligation: rational coefficients: eval is the value of the polynomial (Horner) and diff_upoly its derivative, for ALL coefficient lists *)
From SE Require Import Base.Prelude C21.PolyModel C21.PolySpec C21.PolyProofs.
From Coq Require Import QArith Qcanon.
Theorem C21_eval_diff_rat :
  forall p x, qeval (qfrom_vec p) x = qseval p x /\
              qdiff (qfrom_vec p) = qfrom_vec (qsdiff p).
Proof. exact q_eval_diff. Qed.
Print Assumptions C21_eval_diff_rat.
