(* C21 obligation: integer coefficients: if b = a * Q with a <> 0 then divides_upoly(a, b) returns true with exactly the quotient Q *)
From SE Require Import Base.Prelude C21.PolyModel C21.PolySpec C21.PolyProofs.
Local Open Scope Z_scope.
Theorem C21_divides_complete_int :
  forall pa pb Q,
    zdivides_fits (zfrom_vec pa) (zfrom_vec pb) = true -> (degree (zfrom_vec pb) < W32)%N ->
    zfrom_vec pa <> [] -> zpeq pb (zsmul pa Q) ->
    zdivides (zfrom_vec pa) (zfrom_vec pb) = Ok (Some (zfrom_vec Q)).
Proof. exact z_divides_complete. Qed.
Print Assumptions C21_divides_complete_int.
