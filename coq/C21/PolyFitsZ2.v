(* C21 -- integer coefficients: a simple sufficient condition under which every product formed
   by divides_upoly(a, b) respects the `unsigned int` limits of UIntDict::mul (fits_u32):
     deg b < 2^32  and
     (deg b + 1) * bit_length(max|a| + 1) + bit_length(max|a|) + bit_length(max|b|) + 36 < 2^32
   (the remainders' coefficients grow by at most a factor 1 + max|a| per step). *)
From SE Require Import Base.Prelude C21.PolyModel C21.PolySpec C21.PolyList C21.PolyDict C21.PolyKron
  C21.PolyFits C21.PolyProofs C21.PolyFitsZ.
From Coq Require Import Ring ZArithRing Lia ZifyBool ZifyNat ZifyN.
Local Open Scope Z_scope.

Local Notation zfv := (from_vec Z 0 Z.eqb).
Local Notation zsmul := (smul Z 0 Z.add Z.mul).
Local Notation zmono := (mono Z 0).
Local Notation zssub := (ssub Z Z.add Z.opp).

Ltac zi := try exact Zth; try exact Zeqb_spec; try exact Zintegral; try exact Zone_nz;
           try exact zdivx_spec; try exact zofN; try exact zdivx.

Lemma nth_smul_mono_l : forall k q p j,
  nth j (zsmul (zmono k q) p) 0 = if (k <=? j)%nat then q * nth (j - k) p 0 else 0.
Proof.
  induction k as [|k IH]; intros q p j.
  - unfold mono. cbn [repeat app]. rewrite z_nth_smul_cons. cbn [smul].
    rewrite Nat.sub_0_r. cbn [Nat.leb]. destruct j; cbn [shiftc]; [|rewrite (nth_nil Z 0)]; ring.
  - unfold mono. cbn [repeat app]. fold (zmono k q). rewrite z_nth_smul_cons.
    destruct j; cbn [shiftc Nat.leb]. ring. rewrite IH. cbn [Nat.sub]. ring.
Qed.

Lemma nth_smul_mono : forall p k q j,
  nth j (zsmul p (zmono k q)) 0 = if (k <=? j)%nat then q * nth (j - k) p 0 else 0.
Proof. intros. rewrite z_smul_comm. apply nth_smul_mono_l. Qed.

Lemma zfv_mono : forall k q, q <> 0 -> zfv (zmono k q) = [(N.of_nat k, q)].
Proof. intros. eapply from_vec_mono; zi. assumption. Qed.

Section DivRun.
  Variable pa : list Z.
  Hypothesis pa_ne : zfv pa <> [].
  Variable A : Z.
  Hypothesis HA : max_abs_coef (zfv pa) = Ok A.
  Variable B0 : Z.
  Hypothesis HB0 : 0 <= B0.
  Variable db : N.
  Hypothesis Hdb : (db < W32)%N.
  Hypothesis Hbits : ((db + 1) * N.size (Z.to_N (A + 1)) + N.size (Z.to_N A) + N.size (Z.to_N B0) + 36 < W32)%N.

  Let da : N := degree (zfv pa).

  Lemma A_pos : 1 <= A /\ forall k, Z.abs (nth k pa 0) <= A.
  Proof.
    destruct (A_facts pa pa_ne A HA) as [HA0 Hp]. split; [|exact Hp].
    (* the leading coefficient is a non-zero integer *)
    pose proof (degree_top_nonzero Z 0 1 Z.add Z.mul Z.sub Z.opp Z.eqb zofN Zth Zeqb_spec pa pa_ne) as Hl.
    unfold scoeff in Hl. specialize (Hp (N.to_nat (degree (zfv pa)))). lia.
  Qed.

  Definition bnd (dc : N) : Z := B0 * (A + 1) ^ Z.of_N (db - dc).

  Lemma bnd_mono : forall d1 d2, (d1 <= d2)%N -> bnd d2 <= bnd d1.
  Proof.
    intros d1 d2 H. unfold bnd. destruct A_pos as [HA1 _].
    apply Z.mul_le_mono_nonneg_l. exact HB0. apply Z.pow_le_mono_r; lia.
  Qed.

  Lemma bnd_step : forall d1 d2, (d1 < d2)%N -> (d2 <= db)%N -> bnd d2 * (A + 1) <= bnd d1.
  Proof.
    intros d1 d2 H Hle. unfold bnd. destruct A_pos as [HA1 _].
    replace (Z.of_N (db - d1)) with (Z.of_N (db - d2) + 1 + Z.of_N (d2 - d1 - 1)) by lia.
    rewrite !Z.pow_add_r by lia. rewrite Z.pow_1_r.
    assert (1 <= (A + 1) ^ Z.of_N (d2 - d1 - 1)).
    { rewrite <- (Z.pow_0_r (A + 1)) at 1. apply Z.pow_le_mono_r; lia. }
    assert (0 <= (A + 1) ^ Z.of_N (db - d2)) by (apply Z.pow_nonneg; lia).
    nia.
  Qed.

  Lemma bnd_size : forall dc, (N.size (Z.to_N (bnd dc)) <= N.size (Z.to_N B0) + db * N.size (Z.to_N (A + 1)))%N.
  Proof.
    intro dc. destruct A_pos as [HA1 _].
    apply Zsize_le_of_lt_pow.
    - unfold bnd. apply Z.mul_nonneg_nonneg. exact HB0. apply Z.pow_nonneg. lia.
    - unfold bnd. rewrite N2Z.inj_add, N2Z.inj_mul, Z.pow_add_r by lia.
      pose proof (size_pow_Z B0 HB0) as P1. pose proof (size_pow_Z (A + 1) ltac:(lia)) as P2.
      assert ((A + 1) ^ Z.of_N (db - dc) <= (A + 1) ^ Z.of_N db) by (apply Z.pow_le_mono_r; lia).
      assert ((A + 1) ^ Z.of_N db <= 2 ^ (Z.of_N db * Z.of_N (N.size (Z.to_N (A + 1))))).
      { rewrite (Z.mul_comm (Z.of_N db)), Z.pow_mul_r by lia. apply Z.pow_le_mono_l. lia. }
      assert (0 < 2 ^ (Z.of_N db * Z.of_N (N.size (Z.to_N (A + 1))))) by (apply Z.pow_pos_nonneg; lia).
      assert (0 < (A + 1) ^ Z.of_N (db - dc)) by (apply Z.pow_pos_nonneg; lia).
      nia.
  Qed.

  Lemma div_loop_okZ : forall fuel pc (rq : zdict),
    (degree (zfv pc) <= db)%N ->
    (forall k, Z.abs (nth k pc 0) <= bnd (degree (zfv pc))) ->
    (zfv pc <> [] -> (N.to_nat (degree (zfv pc)) < fuel)%nat) ->
    exists out, div_loop Z 0 Z.sub Z.opp Z.eqb zdivx zgmul_chk fuel (zfv pa) (zfv pc) rq = Ok out.
  Proof.
    destruct A_pos as [HA1 HpA].
    induction fuel as [|f IH]; intros pc rq Hdc Hbd Hf; cbn [div_loop];
      destruct (div_continue Z (zfv pa) (zfv pc)) eqn:Ec; cbn [negb]; eauto.
    - exfalso. eapply div_continue_true in Ec; zi. destruct Ec as [Hne _]. specialize (Hf Hne). lia.
    - pose proof Ec as Ec'. eapply div_continue_true in Ec'; zi. destruct Ec' as [Hne Hd].
      destruct (zdivx (get_lc Z 0 (zfv pc)) (get_lc Z 0 (zfv pa))) as [q|] eqn:Eq; eauto.
      assert (Hw : (degree (zfv pc) < W32)%N) by lia.
      destruct (div_step Z 0 1 Z.add Z.mul Z.sub Z.opp Z.eqb zofN Zth Zeqb_spec Zintegral zdivx zdivx_spec
                  pa pa_ne pc q Hne Hd Hw Eq) as [Ek [Hqn [Ecl Hdec]]].
      rewrite Ecl.
      set (dc := degree (zfv pc)) in *.
      set (k := usub dc (degree (zfv pa))) in *.
      set (M := zmono (N.to_nat k) q) in *.
      (* |q| <= |lc pc| <= bnd dc *)
      assert (Hq : Z.abs q <= bnd dc).
      { apply zdivx_spec in Eq.
        2:{ eapply (lc_a_nonzero Z 0 1 Z.add Z.mul Z.sub Z.opp Z.eqb zofN Zth Zeqb_spec); exact pa_ne. }
        assert (El : get_lc Z 0 (zfv pc) = nth (N.to_nat dc) pc 0).
        { unfold dc. eapply get_lc_from_vec; zi. }
        assert (Ela : get_lc Z 0 (zfv pa) <> 0).
        { eapply (lc_a_nonzero Z 0 1 Z.add Z.mul Z.sub Z.opp Z.eqb zofN Zth Zeqb_spec); exact pa_ne. }
        specialize (Hbd (N.to_nat dc)). rewrite <- El, Eq in Hbd. rewrite Z.abs_mul in Hbd. nia. }
      assert (EM : zfv M = [(k, q)]).
      { unfold M. rewrite zfv_mono by exact Hqn. rewrite N2Nat.id. reflexivity. }
      (* the product respects the limits *)
      assert (Hfits : fits_u32 (zfv pa) (zfv M) = true).
      { unfold fits_u32. rewrite HA, EM. cbn [max_abs_coef fold_left snd].
        replace (if Z.abs q <? Z.abs q then Z.abs q else Z.abs q) with (Z.abs q) by (destruct (Z.abs q <? Z.abs q); reflexivity).
        change (degree [(k, q)]) with k.
        assert (Hsq : (N.size (Z.to_N (Z.abs q)) <= N.size (Z.to_N B0) + db * N.size (Z.to_N (A + 1)))%N).
        { pose proof (bnd_size dc) as S1.
          assert (N.size (Z.to_N (Z.abs q)) <= N.size (Z.to_N (bnd dc)))%N.
          { apply Zsize_le_of_lt_pow. lia. pose proof (size_pow_Z (bnd dc) ltac:(lia)). lia. }
          lia. }
        assert (Hmin : (N.size (N.min (degree (zfv pa) + 1) (k + 1)) <= 32)%N).
        { apply Nsize_le_of_lt_pow. change (2 ^ 32)%N with W32. unfold W32 in *.
          destruct (N.min_spec (degree (zfv pa) + 1) (k + 1)) as [[L E]|[L E]]; rewrite E; lia. }
        apply andb_true_intro. split; apply N.ltb_lt. lia. unfold W32 in *. lia. }
      assert (Hprod : zgmul_chk (zfv pa) (zfv M) = Ok (zfv (zsmul pa M))).
      { unfold zgmul_chk. rewrite Hfits. f_equal. apply zgmul_chk_sound. unfold zgmul_chk. rewrite Hfits. reflexivity. }
      rewrite Hprod. cbn [bind].
      erewrite dict_sub_correct; zi.
      set (pc1 := zssub pc (zsmul pa M)).
      assert (Hb1 : forall j, Z.abs (nth j pc1 0) <= bnd dc * (A + 1)).
      { intro j. unfold pc1, ssub.
        rewrite (nth_sadd Z 0 1 Z.add Z.mul Z.sub Z.opp Zth), (nth_sneg Z 0 1 Z.add Z.mul Z.sub Z.opp Zth).
        unfold M. rewrite nth_smul_mono. specialize (Hbd j). fold dc in Hbd.
        destruct (N.to_nat k <=? j)%nat.
        - specialize (HpA (j - N.to_nat k)%nat).
          assert (Z.abs (q * nth (j - N.to_nat k) pa 0) <= bnd dc * A) by (rewrite Z.abs_mul; nia).
          lia.
        - assert (0 <= bnd dc * A) by nia. lia. }
      apply IH.
      + destruct Hdec as [E|L]. unfold pc1 in *. rewrite E. cbn. lia. unfold pc1 in *. lia.
      + intro j. destruct Hdec as [E|L].
        * fold pc1 in E. rewrite (z_from_vec_nil_zero pc1 E j). cbn [Z.abs].
          unfold bnd. apply Z.mul_nonneg_nonneg. exact HB0. apply Z.pow_nonneg. lia.
        * fold pc1 in L. etransitivity. apply Hb1. apply bnd_step. exact L. exact Hdc.
      + intro Hne1. destruct Hdec as [E|L]. fold pc1 in E. congruence. fold pc1 in L. specialize (Hf Hne). lia.
  Qed.
End DivRun.

Theorem zdivides_fits_simple : forall (pa pb : list Z) A B,
  max_abs_coef (zfv pa) = Ok A -> max_abs_coef (zfv pb) = Ok B ->
  (degree (zfv pb) < W32)%N ->
  ((degree (zfv pb) + 1) * N.size (Z.to_N (A + 1)) + N.size (Z.to_N A) + N.size (Z.to_N B) + 36 < W32)%N ->
  zdivides_fits (zfv pa) (zfv pb) = true.
Proof.
  intros pa pb A B HA HB Hd Hb. unfold zdivides_fits, divides.
  assert (Hane : zfv pa <> []) by (intro E; rewrite E in HA; discriminate HA).
  assert (Hbne : zfv pb <> []) by (intro E; rewrite E in HB; discriminate HB).
  replace (is_empty (zfv pa)) with false by (destruct (zfv pa); [congruence | reflexivity]).
  destruct (max_abs_spec _ Hbne) as [B' [EB [HB0 FB]]]. rewrite HB in EB. inversion EB; subst B'.
  destruct (div_loop_okZ pa Hane A HA B HB0 (degree (zfv pb)) Hd Hb
              (S (S (N.to_nat (degree (zfv pb))))) pb []) as [o Ho].
  - lia.
  - intro k. unfold bnd. rewrite N.sub_diag. cbn [Z.of_N]. rewrite Z.pow_0_r, Z.mul_1_r.
    apply coeffs_bounded; assumption.
  - intros _. lia.
  - rewrite Ho. cbn [bind]. destruct o as [[b' rq']|]; [destruct (is_empty b')|]; reflexivity.
Qed.

(* THEOREM: divides_upoly on UIntPoly under the simple condition (zero dividend: no condition) *)
Theorem z_divides_simple : forall (pa pb : list Z) A B,
  max_abs_coef (zfrom_vec pa) = Ok A -> max_abs_coef (zfrom_vec pb) = Ok B ->
  (degree (zfrom_vec pb) < W32)%N ->
  ((degree (zfrom_vec pb) + 1) * N.size (Z.to_N (A + 1)) + N.size (Z.to_N A) + N.size (Z.to_N B) + 36 < W32)%N ->
  exists r, zdivides (zfrom_vec pa) (zfrom_vec pb) = Ok r /\
    match r with
    | Some d => exists D, d = zfrom_vec D /\ zpeq pb (zsmul pa D)
    | None => ~ exists D, zpeq pb (zsmul pa D)
    end.
Proof.
  intros pa pb A B HA HB Hd Hb.
  destruct (z_divides pa pb (zdivides_fits_simple pa pb A B HA HB Hd Hb) Hd) as [r [E S]].
  exists r. split. exact E.
  assert (Hane : zfrom_vec pa <> []) by (intro E0; rewrite E0 in HA; discriminate HA).
  destruct r as [d|]. apply S. destruct S as [S|S]. contradiction. exact S.
Qed.

Lemma zdivides_fits_zero : forall pa pb : list Z, zfv pb = [] -> zdivides_fits (zfv pa) (zfv pb) = true.
Proof.
  intros pa pb E. unfold zdivides_fits, divides. rewrite E. destruct (is_empty (zfv pa)); reflexivity.
Qed.

Theorem z_divides_complete_simple : forall (pa pb Q : list Z) A B,
  max_abs_coef (zfrom_vec pa) = Ok A -> max_abs_coef (zfrom_vec pb) = Ok B ->
  (degree (zfrom_vec pb) < W32)%N ->
  ((degree (zfrom_vec pb) + 1) * N.size (Z.to_N (A + 1)) + N.size (Z.to_N A) + N.size (Z.to_N B) + 36 < W32)%N ->
  zpeq pb (zsmul pa Q) ->
  zdivides (zfrom_vec pa) (zfrom_vec pb) = Ok (Some (zfrom_vec Q)).
Proof.
  intros pa pb Q A B HA HB Hd Hb HQ.
  assert (Hane : zfrom_vec pa <> []) by (intro E0; rewrite E0 in HA; discriminate HA).
  apply z_divides_complete; try assumption. exact (zdivides_fits_simple pa pb A B HA HB Hd Hb).
Qed.

(* the zero dividend: a | 0 for every non-zero a, with quotient 0; never for a = 0 *)
Theorem z_divides_zero : forall pa pb : list Z, zfrom_vec pb = [] ->
  zdivides (zfrom_vec pa) (zfrom_vec pb) = Ok (if is_empty (zfrom_vec pa) then None else Some []).
Proof.
  intros pa pb E. unfold zdivides, divides. rewrite E. destruct (zfrom_vec pa); reflexivity.
Qed.
