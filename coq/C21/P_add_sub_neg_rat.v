(* C21 obligation: rational coefficients: operator+=, operator-= and unary minus are coefficient-wise addition, subtraction and negation, for ALL coefficient lists *)
From SE Require Import Base.Prelude C21.PolyModel C21.PolySpec C21.PolyProofs.
From Coq Require Import QArith Qcanon.
Theorem C21_add_sub_neg_rat :
  forall p q,
    qadd (qfrom_vec p) (qfrom_vec q) = qfrom_vec (qsadd p q) /\
    qsub (qfrom_vec p) (qfrom_vec q) = qfrom_vec (qssub p q) /\
    qneg (qfrom_vec p) = qfrom_vec (qsneg p).
Proof. exact q_add_sub_neg. Qed.
Print Assumptions C21_add_sub_neg_rat.
