(* C21 obligation: integer coefficients: from_vec yields canonical dictionaries (strictly increasing keys, no zero value) whose coefficients are the list's; every canonical dictionary is from_vec of its dense coefficient list; dictionaries are determined by their coefficients (so equality of dictionaries is equality of polynomials) *)
From SE Require Import Base.Prelude C21.PolyModel C21.PolySpec C21.PolyProofs.
Local Open Scope Z_scope.
Theorem C21_repr_int :
  (forall p, zwf (zfrom_vec p)) /\
  (forall p k, zcoeff (zfrom_vec p) k = zscoeff p k) /\
  (forall d, zwf d -> zfrom_vec (zdense d) = d) /\
  (forall p q, zpeq p q -> zfrom_vec p = zfrom_vec q) /\
  (forall a b, zwf a -> zwf b -> (forall k, zcoeff a k = zcoeff b k) -> a = b).
Proof. exact z_repr. Qed.
Print Assumptions C21_repr_int.
