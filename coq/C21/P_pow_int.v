(* C21 obligation: integer coefficients: pow_upoly(a, n) is the n-fold schoolbook product for every exponent n including 0 and every polynomial including 0, whenever no product formed on the way leaves the unsigned-int limits (zpow_fits: the same run with a multiplication that checks them succeeds) *)
From SE Require Import Base.Prelude C21.PolyModel C21.PolySpec C21.PolyProofs.
Local Open Scope Z_scope.
Theorem C21_pow_int :
  forall p n, zpow_fits (zfrom_vec p) n = true ->
    zpow (zfrom_vec p) n = Ok (zfrom_vec (zspow p n)).
Proof. exact z_pow. Qed.
Print Assumptions C21_pow_int.
