(* C21 obligation: mul_upoly on UIntPoly obeys commutativity and associativity AS REPRESENTATIONS:
   for all canonical dictionaries within the 32-bit exponent / Kronecker-packing limits, a*b and
   b*a, and (a*b)*c and a*(b*c), are the same dictionary (corollaries of C21_mul_upoly_int and
   of the uniqueness part of C21_repr_int). *)
From SE Require Import Base.Prelude C21.PolyModel C21.PolySpec C21.PolyProofs C21.PolyRing.
Local Open Scope Z_scope.
Theorem C21_mul_comm_structural_int : forall a b,
  zwf a -> zwf b -> fits_u32 a b = true -> fits_u32 b a = true ->
  zimul a b = zimul b a.
Proof. exact z_mul_comm_structural. Qed.
Print Assumptions C21_mul_comm_structural_int.
Theorem C21_mul_assoc_structural_int : forall a b c ab bc,
  zwf a -> zwf b -> zwf c ->
  fits_u32 a b = true -> fits_u32 b c = true ->
  zimul a b = Ok ab -> zimul b c = Ok bc ->
  fits_u32 ab c = true -> fits_u32 a bc = true ->
  zimul ab c = zimul a bc.
Proof. exact z_mul_assoc_structural. Qed.
Print Assumptions C21_mul_assoc_structural_int.
