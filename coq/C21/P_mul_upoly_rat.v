(* C21 obligation: mul_upoly on URatPoly (operator*= over ODictWrapper::mul) is the schoolbook product *)
From SE Require Import Base.Prelude C21.PolyModel C21.PolySpec C21.PolyProofs.
From Coq Require Import QArith Qcanon.
Theorem C21_mul_upoly_rat :
  forall p q, (degree (qfrom_vec p) + degree (qfrom_vec q) < W32)%N ->
    qimul (qfrom_vec p) (qfrom_vec q) = Ok (qfrom_vec (qsmul p q)).
Proof. exact q_mul_upoly. Qed.
Print Assumptions C21_mul_upoly_rat.
