(* C21 -- ring laws of mul_upoly on URatPoly as representations (same argument as PolyRing.v;
   the only limit is the 32-bit exponent type). *)
From SE Require Import Base.Prelude C21.PolyModel C21.PolySpec C21.PolyList C21.PolyProofs.
From Coq Require Import QArith Qcanon.
Local Open Scope N_scope.

Lemma q_smul_comm : forall p q k, nth k (qsmul p q) q0 = nth k (qsmul q p) q0.
Proof. intros; eapply smul_comm; exact Qcrt. Qed.
Lemma q_smul_assoc : forall p q r k,
  nth k (qsmul (qsmul p q) r) q0 = nth k (qsmul p (qsmul q r)) q0.
Proof. intros; eapply smul_assoc; exact Qcrt. Qed.

Theorem q_mul_comm_structural : forall a b,
  qwf a -> qwf b -> degree a + degree b < W32 -> qimul a b = qimul b a.
Proof.
  intros a b Wa Wb F.
  destruct q_repr as (_ & _ & Hd & Hpeq & _).
  rewrite <- (Hd a Wa), <- (Hd b Wb) in *.
  assert (F' : degree (qfrom_vec (qdense b)) + degree (qfrom_vec (qdense a)) < W32)
    by (rewrite N.add_comm; exact F).
  rewrite (q_mul_upoly _ _ F), (q_mul_upoly _ _ F').
  f_equal. apply Hpeq. intros k. apply q_smul_comm.
Qed.

Theorem q_mul_assoc_structural : forall a b c ab bc,
  qwf a -> qwf b -> qwf c ->
  degree a + degree b < W32 -> degree b + degree c < W32 ->
  qimul a b = Ok ab -> qimul b c = Ok bc ->
  degree ab + degree c < W32 -> degree a + degree bc < W32 ->
  qimul ab c = qimul a bc.
Proof.
  intros a b c ab bc Wa Wb Wc Fab Fbc Hab Hbc F1 F2.
  destruct q_repr as (_ & _ & Hd & Hpeq & _).
  rewrite <- (Hd a Wa), <- (Hd b Wb), <- (Hd c Wc) in *.
  rewrite (q_mul_upoly _ _ Fab) in Hab. injection Hab as <-.
  rewrite (q_mul_upoly _ _ Fbc) in Hbc. injection Hbc as <-.
  rewrite (q_mul_upoly _ _ F1), (q_mul_upoly _ _ F2).
  f_equal. apply Hpeq. intros k. apply q_smul_assoc.
Qed.
