(* C21 -- ring laws of mul_upoly on UIntPoly AS REPRESENTATIONS: since canonical dictionaries are
   determined by their coefficients (z_repr) and the product is from_vec of the schoolbook
   product (z_mul_upoly), a*b and b*a are the same dictionary, for all canonical operands of
   any size within the 32-bit exponent/Kronecker limits. *)
From SE Require Import Base.Prelude C21.PolyModel C21.PolySpec C21.PolyList C21.PolyProofs C21.PolyKron.
Local Open Scope Z_scope.

Theorem z_mul_comm_structural : forall a b,
  zwf a -> zwf b -> fits_u32 a b = true -> fits_u32 b a = true ->
  zimul a b = zimul b a.
Proof.
  intros a b Wa Wb Fab Fba.
  destruct z_repr as (_ & _ & Hd & Hpeq & _).
  rewrite <- (Hd a Wa), <- (Hd b Wb) in *.
  rewrite (z_mul_upoly _ _ Fab), (z_mul_upoly _ _ Fba).
  f_equal. apply Hpeq. intros k. apply z_smul_comm.
Qed.

Lemma z_smul_assoc : forall p q r k,
  nth k (zsmul (zsmul p q) r) 0 = nth k (zsmul p (zsmul q r)) 0.
Proof. intros; eapply smul_assoc; zinst. Qed.

(* (a*b)*c and a*(b*c) are the same dictionary whenever the four products stay within the limits *)
Theorem z_mul_assoc_structural : forall a b c ab bc,
  zwf a -> zwf b -> zwf c ->
  fits_u32 a b = true -> fits_u32 b c = true ->
  zimul a b = Ok ab -> zimul b c = Ok bc ->
  fits_u32 ab c = true -> fits_u32 a bc = true ->
  zimul ab c = zimul a bc.
Proof.
  intros a b c ab bc Wa Wb Wc Fab Fbc Hab Hbc F1 F2.
  destruct z_repr as (_ & _ & Hd & Hpeq & _).
  rewrite <- (Hd a Wa), <- (Hd b Wb), <- (Hd c Wc) in *.
  rewrite (z_mul_upoly _ _ Fab) in Hab. injection Hab as <-.
  rewrite (z_mul_upoly _ _ Fbc) in Hbc. injection Hbc as <-.
  rewrite (z_mul_upoly _ _ F1), (z_mul_upoly _ _ F2).
  f_equal. apply Hpeq. intros k. apply z_smul_assoc.
Qed.

(* the hypotheses are satisfiable: (1 + 2x) * (3 + x^2) * (-1 + x) *)
Example z_mul_assoc_nonvacuous :
  let a := zfrom_vec [1; 2] in let b := zfrom_vec [3; 0; 1] in let c := zfrom_vec [-1; 1] in
  exists ab bc r, zwf a /\ zwf b /\ zwf c /\ fits_u32 a b = true /\ fits_u32 b c = true /\
    zimul a b = Ok ab /\ zimul b c = Ok bc /\ fits_u32 ab c = true /\ fits_u32 a bc = true /\
    zimul ab c = Ok r /\ r <> [].
Proof.
  cbv zeta. destruct z_repr as (Hw & _).
  eexists _, _, _. repeat (split; [first [apply Hw | vm_compute; reflexivity]|]).
  vm_compute. discriminate.
Qed.
