(* C21 obligation: integer coefficients: divides_upoly(a, b) terminates and answers true with quotient d exactly when b = a * d for a polynomial d (never for a = 0), false exactly when there is none *)
From SE Require Import Base.Prelude C21.PolyModel C21.PolySpec C21.PolyProofs.
Local Open Scope Z_scope.
Theorem C21_divides_int :
  forall pa pb,
    zdivides_fits (zfrom_vec pa) (zfrom_vec pb) = true -> (degree (zfrom_vec pb) < W32)%N ->
    exists r, zdivides (zfrom_vec pa) (zfrom_vec pb) = Ok r /\
      match r with
      | Some d => zfrom_vec pa <> [] /\ exists D, d = zfrom_vec D /\ zpeq pb (zsmul pa D)
      | None => zfrom_vec pa = [] \/ ~ exists D, zpeq pb (zsmul pa D)
      end.
Proof. exact z_divides. Qed.
Print Assumptions C21_divides_int.
