(* C21 obligation: integer coefficients: operator+=, operator-= and unary minus are coefficient-wise addition, subtraction and negation, for ALL coefficient lists *)
From SE Require Import Base.Prelude C21.PolyModel C21.PolySpec C21.PolyProofs.
Local Open Scope Z_scope.
Theorem C21_add_sub_neg_int :
  forall p q,
    zadd (zfrom_vec p) (zfrom_vec q) = zfrom_vec (zsadd p q) /\
    zsub (zfrom_vec p) (zfrom_vec q) = zfrom_vec (zssub p q) /\
    zneg (zfrom_vec p) = zfrom_vec (zsneg p).
Proof. exact z_add_sub_neg. Qed.
Print Assumptions C21_add_sub_neg_int.
