(* C21 -- specification: schoolbook arithmetic on coefficient lists (little endian: the k-th
   element is the coefficient of x^k; trailing zeros allowed), and the well-formedness of the
   dictionaries of the model. *)
From SE Require Import Base.Prelude C21.PolyModel.
From Coq Require Import QArith Qcanon.
Local Open Scope N_scope.

Section Spec.
  Variable C : Type.
  Variables (c0 c1 : C) (cadd cmul csub : C -> C -> C) (copp : C -> C).
  Variable cofN : N -> C.

  (* coefficient of x^k *)
  Definition scoeff (p : list C) (k : N) : C := nth (N.to_nat k) p c0.

  Fixpoint sadd (p q : list C) : list C :=
    match p, q with
    | [], _ => q
    | _, [] => p
    | a :: p', b :: q' => cadd a b :: sadd p' q'
    end.
  Definition sneg (p : list C) : list C := map copp p.
  Definition ssub (p q : list C) : list C := sadd p (sneg q).
  Definition sscale (a : C) (p : list C) : list C := map (cmul a) p.

  (* schoolbook product: (a + x p') q = a q + x (p' q) *)
  Fixpoint smul (p q : list C) : list C :=
    match p with
    | [] => []
    | a :: p' => sadd (sscale a q) (c0 :: smul p' q)
    end.

  (* n-fold product *)
  Fixpoint spow_nat (p : list C) (n : nat) : list C :=
    match n with O => [c1] | S n' => smul p (spow_nat p n') end.
  Definition spow (p : list C) (n : N) : list C := spow_nat p (N.to_nat n).

  (* value at x (Horner) *)
  Fixpoint seval (p : list C) (x : C) : C :=
    match p with [] => c0 | a :: p' => cadd a (cmul x (seval p' x)) end.

  (* derivative: k-th coefficient is (k+1) a_{k+1} *)
  Fixpoint sdiff_aux (i : N) (p : list C) : list C :=
    match p with [] => [] | a :: p' => cmul a (cofN i) :: sdiff_aux (i + 1) p' end.
  Definition sdiff (p : list C) : list C := match p with [] => [] | _ :: p' => sdiff_aux 1 p' end.

  (* two coefficient lists denote the same polynomial *)
  Definition peq (p q : list C) : Prop := forall k : nat, nth k p c0 = nth k q c0.

  (* degree: largest k with a non-zero coefficient (0 for the zero polynomial);
     leading coefficient: that coefficient (0 for the zero polynomial) *)
  Definition is_degree (p : list C) (d : N) : Prop :=
    (forall k, d < k -> scoeff p k = c0) /\ (scoeff p d <> c0 \/ (d = 0 /\ forall k, scoeff p k = c0)).

  (* dictionaries: strictly increasing keys, no zero value *)
  Fixpoint keys_above (k : N) (d : list (N * C)) : Prop :=
    match d with [] => True | (k', _) :: r => k < k' /\ keys_above k r end.
  Fixpoint sorted (d : list (N * C)) : Prop :=
    match d with [] => True | (k, _) :: r => Forall (fun kv => k < fst kv) r /\ sorted r end.
  Definition nonzero (d : list (N * C)) : Prop := Forall (fun kv => snd kv <> c0) d.
  Definition wf (d : list (N * C)) : Prop := sorted d /\ nonzero d.

  (* the coefficient list of a dictionary: entries 0 .. degree *)
  Definition dense (d : list (N * C)) : list C :=
    match d with
    | [] => []
    | _ => map (fun i => get_coeff C c0 d (N.of_nat i)) (seq 0 (S (N.to_nat (degree d))))
    end.
End Spec.

Arguments peq {C} c0 p q.
Arguments sorted {C} d.

(* instances *)
Local Open Scope Z_scope.
Definition zscoeff := scoeff Z 0.
Definition zsadd := sadd Z Z.add.
Definition zsneg := sneg Z Z.opp.
Definition zssub := ssub Z Z.add Z.opp.
Definition zsmul := smul Z 0 Z.add Z.mul.
Definition zspow := spow Z 0 1 Z.add Z.mul.
Definition zseval := seval Z 0 Z.add Z.mul.
Definition zsdiff := sdiff Z Z.mul zofN.
Definition zwf := wf Z 0.
Definition zdense := dense Z 0.
Definition zpeq := @peq Z 0.

Definition qscoeff := scoeff Qc q0.
Definition qsadd := sadd Qc Qcplus.
Definition qsneg := sneg Qc Qcopp.
Definition qssub := ssub Qc Qcplus Qcopp.
Definition qsmul := smul Qc q0 Qcplus Qcmult.
Definition qspow := spow Qc q0 q1 Qcplus Qcmult.
Definition qseval := seval Qc q0 Qcplus Qcmult.
Definition qsdiff := sdiff Qc Qcmult qofN.
Definition qwf := wf Qc q0.
Definition qdense := dense Qc q0.
Definition qpeq := @peq Qc q0.
