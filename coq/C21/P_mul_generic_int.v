(* C21 obligation: integer coefficients: ODictWrapper::mul is the schoolbook product for ALL coefficient lists whose degrees sum below 2^32 (the exponent type is unsigned int) *)
From SE Require Import Base.Prelude C21.PolyModel C21.PolySpec C21.PolyProofs.
Local Open Scope Z_scope.
Theorem C21_mul_generic_int :
  forall p q, (degree (zfrom_vec p) + degree (zfrom_vec q) < W32)%N ->
    zgmul (zfrom_vec p) (zfrom_vec q) = zfrom_vec (zsmul p q).
Proof. exact z_gmul. Qed.
Print Assumptions C21_mul_generic_int.
