(* Extraction of the C21 model (run from the output directory; not part of `make`). *)
From SE Require Import C21.PolyModel.
From Coq Require Import QArith Qcanon.
Require Import ExtrOcamlBasic.
Extraction "poly_model.ml"
  zclean zfrom_vec zcoeff zlc zadd zsub zneg zgmul kmul zimul zpow zeval zdiff zdivides degree
  fits_u32 zpow_fits zdivides_fits qpow_fits qdivides_fits
  qclean qfrom_vec qcoeff qlc qadd qsub qneg qgmul qimul qpow qeval qdiff qdivides Q2Qc.
