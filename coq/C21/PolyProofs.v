(* C21 -- the theorems of PolyDict.v / PolyKron.v at the two coefficient rings of the library:
   integers (UIntDict / UIntPoly) and canonical rationals (URatDict / URatPoly). *)
From SE Require Import Base.Prelude C21.PolyModel C21.PolySpec C21.PolyList C21.PolyDict C21.PolyKron.
From Coq Require Import Ring ZArithRing Lia ZifyBool ZifyNat ZifyN QArith Qcanon Field.

(* ================================================================== integers *)
Section IntInstance.
Local Open Scope Z_scope.

Lemma Zintegral : forall x y : Z, x * y = 0 -> x = 0 \/ y = 0.
Proof. intros. apply Z.mul_eq_0. assumption. Qed.
Lemma Zone_nz : 1 <> 0.
Proof. discriminate. Qed.

Lemma zdivx_spec : forall x y q : Z, y <> 0 -> (zdivx x y = Some q <-> x = q * y).
Proof.
  intros x y q Hy. unfold zdivx. cbv zeta.
  change (snd (Z.quotrem x y)) with (Z.rem x y). change (fst (Z.quotrem x y)) with (Z.quot x y).
  pose proof (Z.quot_rem' x y) as E. split.
  - destruct (Z.rem x y =? 0) eqn:Er; [|discriminate]. intro H. inversion H; subst. lia.
  - intro H. subst x. rewrite Z.rem_mul by exact Hy. cbn. rewrite Z.quot_mul by exact Hy. reflexivity.
Qed.

Ltac zi := try exact Zth; try exact Zeqb_spec; try exact Zintegral; try exact Zone_nz;
           try exact zdivx_spec; try exact zofN.

(* representation: from_vec yields canonical dictionaries; every canonical dictionary is one *)
Theorem z_repr :
  (forall p, zwf (zfrom_vec p)) /\
  (forall p k, zcoeff (zfrom_vec p) k = zscoeff p k) /\
  (forall d, zwf d -> zfrom_vec (zdense d) = d) /\
  (forall p q, zpeq p q -> zfrom_vec p = zfrom_vec q) /\
  (forall a b, zwf a -> zwf b -> (forall k, zcoeff a k = zcoeff b k) -> a = b).
Proof.
  repeat split.
  - apply z_from_vec_wf.
  - apply z_from_vec_wf.
  - intros. eapply coeff_from_vec; zi.
  - apply z_from_vec_dense.
  - apply z_from_vec_peq.
  - intros. eapply dict_ext; zi; eauto.
Qed.

Theorem z_degree_lc : forall p,
  is_degree Z 0 p (degree (zfrom_vec p)) /\ zlc (zfrom_vec p) = zscoeff p (degree (zfrom_vec p)).
Proof. intro p. split. eapply degree_from_vec; zi. eapply get_lc_from_vec; zi. Qed.

Theorem z_add_sub_neg : forall p q,
  zadd (zfrom_vec p) (zfrom_vec q) = zfrom_vec (zsadd p q) /\
  zsub (zfrom_vec p) (zfrom_vec q) = zfrom_vec (zssub p q) /\
  zneg (zfrom_vec p) = zfrom_vec (zsneg p).
Proof.
  intros p q. split; [|split].
  - eapply dict_add_correct; zi.
  - eapply dict_sub_correct; zi.
  - eapply dict_neg_correct; zi.
Qed.

Theorem z_gmul : forall p q, (degree (zfrom_vec p) + degree (zfrom_vec q) < W32)%N ->
  zgmul (zfrom_vec p) (zfrom_vec q) = zfrom_vec (zsmul p q).
Proof. apply z_gmul_correct. Qed.

Theorem kronecker_correct : forall p q : list Z,
  fits_u32 (zfrom_vec p) (zfrom_vec q) = true ->
  kmul (zfrom_vec p) (zfrom_vec q) = Ok (zfrom_vec (zsmul p q)).
Proof. apply kmul_correct. Qed.

Theorem z_mul_upoly : forall p q : list Z,
  fits_u32 (zfrom_vec p) (zfrom_vec q) = true ->
  zimul (zfrom_vec p) (zfrom_vec q) = Ok (zfrom_vec (zsmul p q)).
Proof.
  intros p q H. unfold zimul. eapply imul_correct; zi. apply kmul_correct. exact H.
Qed.

Theorem z_eval_diff : forall p x,
  zeval (zfrom_vec p) x = zseval p x /\ zdiff (zfrom_vec p) = zfrom_vec (zsdiff p).
Proof.
  intros p x. split. apply z_poly_eval_correct. eapply dict_diff_correct; zi.
Qed.

(* the checked generic product is sound and is what UIntDict::mul computes *)
Lemma zgmul_chk_sound : mul_sound Z 0 Z.add Z.mul Z.eqb zgmul_chk.
Proof.
  intros p q r H. unfold zgmul_chk in H.
  destruct (fits_u32 (from_vec Z 0 Z.eqb p) (from_vec Z 0 Z.eqb q)) eqn:F; [|discriminate H].
  inversion H; subst r. clear H.
  destruct (zfv_nonempty_cases p) as [Ea|Na].
  { rewrite Ea. unfold zgmul, gmul. cbn [is_empty]. symmetry. apply z_from_vec_zero.
    apply z_nth_smul_zero_l. apply z_from_vec_nil_zero. exact Ea. }
  destruct (zfv_nonempty_cases q) as [Eb|Nb].
  { rewrite Eb. unfold zgmul, gmul. destruct (from_vec Z 0 Z.eqb p); cbn [is_empty]; symmetry;
      apply z_from_vec_zero; apply z_smul_zero_r; apply z_from_vec_nil_zero; exact Eb. }
  apply z_gmul_correct. unfold fits_u32 in F.
  destruct (max_abs_spec _ Na) as [A [EA _]]. destruct (max_abs_spec _ Nb) as [B [EB _]].
  rewrite EA, EB in F. lia.
Qed.

Lemma kmul_extends : extends_on_wf Z 0 Z.eqb kmul zgmul_chk.
Proof.
  intros p q r H. rewrite (zgmul_chk_sound p q r H).
  unfold zgmul_chk in H.
  destruct (fits_u32 (from_vec Z 0 Z.eqb p) (from_vec Z 0 Z.eqb q)) eqn:F; [|discriminate H].
  apply kmul_correct. exact F.
Qed.

Lemma is_ok_inv : forall A (r : res A), is_ok r = true -> exists a, r = Ok a.
Proof. intros A [a| | |] H; try discriminate H. eauto. Qed.

Theorem z_pow : forall p n,
  zpow_fits (zfrom_vec p) n = true -> zpow (zfrom_vec p) n = Ok (zfrom_vec (zspow p n)).
Proof.
  intros p n H. unfold zpow_fits in H. apply is_ok_inv in H. destruct H as [out H].
  assert (E : out = zfrom_vec (zspow p n)).
  { eapply pow_sound; zi. apply zgmul_chk_sound. exact H. }
  subst out. unfold zpow. eapply pow_mono; zi. apply zgmul_chk_sound. apply kmul_extends. exact H.
Qed.

Theorem z_pow_zero : forall p, zpow (zfrom_vec p) 0 = Ok (zfrom_vec [1]).
Proof. intro p. reflexivity. Qed.

Theorem z_divides : forall pa pb,
  zdivides_fits (zfrom_vec pa) (zfrom_vec pb) = true -> (degree (zfrom_vec pb) < W32)%N ->
  exists r, zdivides (zfrom_vec pa) (zfrom_vec pb) = Ok r /\
    match r with
    | Some d => zfrom_vec pa <> [] /\ exists D, d = zfrom_vec D /\ zpeq pb (zsmul pa D)
    | None => zfrom_vec pa = [] \/ ~ exists D, zpeq pb (zsmul pa D)
    end.
Proof.
  intros pa pb H Hw. unfold zdivides_fits in H. apply is_ok_inv in H. destruct H as [r H].
  exists r. split.
  - unfold zdivides. eapply divides_mono; zi. apply zgmul_chk_sound. apply kmul_extends. exact H.
  - unfold zfrom_vec in *. destruct (zfv_nonempty_cases pa) as [E|Hne].
    + rewrite E in H. cbn in H. inversion H; subst r. left. exact E.
    + pose proof (divides_sound_complete Z 0 1 Z.add Z.mul Z.sub Z.opp Z.eqb zofN Zth Zeqb_spec Zintegral Zone_nz
                    zdivx zdivx_spec zgmul_chk zgmul_chk_sound pa Hne pb r Hw H) as S.
      destruct r as [d|]. split; assumption. right. exact S.
Qed.

(* uniqueness: an exact quotient is the one returned *)
Theorem z_divides_complete : forall pa pb Q,
  zdivides_fits (zfrom_vec pa) (zfrom_vec pb) = true -> (degree (zfrom_vec pb) < W32)%N ->
  zfrom_vec pa <> [] -> zpeq pb (zsmul pa Q) ->
  zdivides (zfrom_vec pa) (zfrom_vec pb) = Ok (Some (zfrom_vec Q)).
Proof.
  intros pa pb Q H Hw Hne HQ. unfold zdivides_fits in H. apply is_ok_inv in H. destruct H as [r H].
  assert (E : r = Some (zfrom_vec Q)).
  { eapply (divides_complete Z 0 1 Z.add Z.mul Z.sub Z.opp Z.eqb zofN Zth Zeqb_spec Zintegral Zone_nz
              zdivx zdivx_spec zgmul_chk zgmul_chk_sound pa Hne pb Q r Hw HQ H). }
  subst r. unfold zdivides. eapply divides_mono; zi. apply zgmul_chk_sound. apply kmul_extends. exact H.
Qed.

(* termination of the two fuelled loops whatever the multiplier answers *)
Theorem z_loops_terminate :
  (forall m, (forall x y, m x y <> ErrFuel) -> forall a n, pow Z 1 m a n <> ErrFuel) /\
  (forall pa pb, zfrom_vec pa <> [] -> (degree (zfrom_vec pb) < W32)%N ->
     divides Z 0 Z.sub Z.opp Z.eqb zdivx zgmul_chk (zfrom_vec pa) (zfrom_vec pb) <> ErrFuel).
Proof.
  split.
  - intros m Hm a n. eapply pow_terminates; zi. exact Hm.
  - intros pa pb Hne Hw. eapply divides_terminates; zi. apply zgmul_chk_sound. exact Hne.
    intros x y. unfold zgmul_chk. destruct (fits_u32 x y); discriminate. exact Hw.
Qed.
End IntInstance.

(* ================================================================== rationals *)
Section RatInstance.
Local Open Scope Qc_scope.

Lemma qeqb_spec : forall x y : Qc, qeqb x y = true <-> x = y.
Proof.
  intros x y. unfold qeqb. rewrite Qeq_bool_iff. split. apply Qc_is_canon. intro H. subst. reflexivity.
Qed.
Lemma Qcone_nz : q1 <> q0.
Proof. intro H. apply (f_equal this) in H. discriminate H. Qed.
Lemma Qcintegral : forall x y : Qc, x * y = q0 -> x = q0 \/ y = q0.
Proof. apply Qcmult_integral. Qed.
Lemma qdivx_spec : forall x y q : Qc, y <> q0 -> (qdivx x y = Some q <-> x = q * y).
Proof.
  intros x y q Hy. unfold qdivx. split.
  - intro H. inversion H; subst q. field. exact Hy.
  - intro H. subst x. f_equal. field. exact Hy.
Qed.

Ltac qi := try exact Qcrt; try exact qeqb_spec; try exact Qcintegral; try exact Qcone_nz;
           try exact qdivx_spec; try exact qofN.

Theorem q_repr :
  (forall p, qwf (qfrom_vec p)) /\
  (forall p k, qcoeff (qfrom_vec p) k = qscoeff p k) /\
  (forall d, qwf d -> qfrom_vec (qdense d) = d) /\
  (forall p q, qpeq p q -> qfrom_vec p = qfrom_vec q) /\
  (forall a b, qwf a -> qwf b -> (forall k, qcoeff a k = qcoeff b k) -> a = b).
Proof.
  repeat split.
  - eapply from_vec_wf; qi.
  - eapply from_vec_wf; qi.
  - intros. eapply coeff_from_vec; qi.
  - intros. eapply from_vec_dense; qi. assumption.
  - intros. eapply from_vec_peq; qi. assumption.
  - intros. eapply dict_ext; qi; eauto.
Qed.

Theorem q_degree_lc : forall p,
  is_degree Qc q0 p (degree (qfrom_vec p)) /\ qlc (qfrom_vec p) = qscoeff p (degree (qfrom_vec p)).
Proof. intro p. split. eapply degree_from_vec; qi. eapply get_lc_from_vec; qi. Qed.

Theorem q_add_sub_neg : forall p q,
  qadd (qfrom_vec p) (qfrom_vec q) = qfrom_vec (qsadd p q) /\
  qsub (qfrom_vec p) (qfrom_vec q) = qfrom_vec (qssub p q) /\
  qneg (qfrom_vec p) = qfrom_vec (qsneg p).
Proof.
  intros p q. split; [|split].
  - eapply dict_add_correct; qi.
  - eapply dict_sub_correct; qi.
  - eapply dict_neg_correct; qi.
Qed.

Theorem q_gmul : forall p q, (degree (qfrom_vec p) + degree (qfrom_vec q) < W32)%N ->
  qgmul (qfrom_vec p) (qfrom_vec q) = qfrom_vec (qsmul p q).
Proof. intros. eapply gmul_correct; qi. assumption. Qed.

Theorem q_mul_upoly : forall p q, (degree (qfrom_vec p) + degree (qfrom_vec q) < W32)%N ->
  qimul (qfrom_vec p) (qfrom_vec q) = Ok (qfrom_vec (qsmul p q)).
Proof.
  intros p q H. unfold qimul. eapply imul_correct; qi. unfold qgmul_res. f_equal. apply q_gmul. exact H.
Qed.

Theorem q_eval_diff : forall p x,
  qeval (qfrom_vec p) x = qseval p x /\ qdiff (qfrom_vec p) = qfrom_vec (qsdiff p).
Proof.
  intros p x. split. eapply poly_eval_correct; qi. eapply dict_diff_correct; qi.
Qed.

Lemma qgmul_chk_sound : mul_sound Qc q0 Qcplus Qcmult qeqb qgmul_chk.
Proof.
  intros p q r H. change (from_vec Qc q0 qeqb) with qfrom_vec in *. unfold qgmul_chk in H.
  destruct (degree (qfrom_vec p) + degree (qfrom_vec q) <? W32)%N eqn:F; [|discriminate H].
  inversion H; subst r. apply q_gmul. lia.
Qed.

Lemma qgmul_extends : extends_on_wf Qc q0 qeqb qgmul_res qgmul_chk.
Proof.
  intros p q r H. change (from_vec Qc q0 qeqb) with qfrom_vec in *. unfold qgmul_chk in H.
  destruct (degree (qfrom_vec p) + degree (qfrom_vec q) <? W32)%N; [|discriminate H]. exact H.
Qed.

Theorem q_pow : forall p n,
  qpow_fits (qfrom_vec p) n = true -> qpow (qfrom_vec p) n = Ok (qfrom_vec (qspow p n)).
Proof.
  intros p n H. unfold qpow_fits in H. apply is_ok_inv in H. destruct H as [out H].
  assert (E : out = qfrom_vec (qspow p n)).
  { eapply pow_sound; qi. apply qgmul_chk_sound. exact H. }
  subst out. unfold qpow. eapply pow_mono; qi. apply qgmul_chk_sound. apply qgmul_extends. exact H.
Qed.

Theorem q_divides : forall pa pb,
  qdivides_fits (qfrom_vec pa) (qfrom_vec pb) = true -> (degree (qfrom_vec pb) < W32)%N ->
  exists r, qdivides (qfrom_vec pa) (qfrom_vec pb) = Ok r /\
    match r with
    | Some d => qfrom_vec pa <> [] /\ exists D, d = qfrom_vec D /\ qpeq pb (qsmul pa D)
    | None => qfrom_vec pa = [] \/ ~ exists D, qpeq pb (qsmul pa D)
    end.
Proof.
  intros pa pb H Hw. unfold qdivides_fits in H. apply is_ok_inv in H. destruct H as [r H].
  exists r. split.
  - unfold qdivides. eapply divides_mono; qi. apply qgmul_chk_sound. apply qgmul_extends. exact H.
  - destruct (qfrom_vec pa) as [|kv a'] eqn:E.
    + cbn in H. inversion H; subst r. left. reflexivity.
    + assert (Hne : qfrom_vec pa <> []) by (rewrite E; discriminate). rewrite <- E in *.
      pose proof (divides_sound_complete Qc q0 q1 Qcplus Qcmult Qcminus Qcopp qeqb qofN Qcrt qeqb_spec
                    Qcintegral Qcone_nz qdivx qdivx_spec qgmul_chk qgmul_chk_sound pa Hne pb r Hw H) as S.
      destruct r as [d|]. split; assumption. right. exact S.
Qed.

Theorem q_divides_complete : forall pa pb Q,
  qdivides_fits (qfrom_vec pa) (qfrom_vec pb) = true -> (degree (qfrom_vec pb) < W32)%N ->
  qfrom_vec pa <> [] -> qpeq pb (qsmul pa Q) ->
  qdivides (qfrom_vec pa) (qfrom_vec pb) = Ok (Some (qfrom_vec Q)).
Proof.
  intros pa pb Q H Hw Hne HQ. unfold qdivides_fits in H. apply is_ok_inv in H. destruct H as [r H].
  assert (E : r = Some (qfrom_vec Q)).
  { eapply (divides_complete Qc q0 q1 Qcplus Qcmult Qcminus Qcopp qeqb qofN Qcrt qeqb_spec
              Qcintegral Qcone_nz qdivx qdivx_spec qgmul_chk qgmul_chk_sound pa Hne pb Q r Hw HQ H). }
  subst r. unfold qdivides. eapply divides_mono; qi. apply qgmul_chk_sound. apply qgmul_extends. exact H.
Qed.
End RatInstance.
