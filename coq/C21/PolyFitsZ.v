(* C21 -- integer coefficients: a simple sufficient condition under which every product formed
   by pow_upoly(a, n) respects the `unsigned int` limits of UIntDict::mul (fits_u32):
     n * deg a < 2^32   and   n * (bit_length(deg a + 1) + bit_length(max|a|)) + 36 < 2^32. *)
From SE Require Import Base.Prelude C21.PolyModel C21.PolySpec C21.PolyList C21.PolyDict C21.PolyKron
  C21.PolyFits C21.PolyProofs.
From Coq Require Import Ring ZArithRing Lia ZifyBool ZifyNat ZifyN.
Local Open Scope Z_scope.

Local Notation zfv := (from_vec Z 0 Z.eqb).
Local Notation zsmul := (smul Z 0 Z.add Z.mul).
Local Notation zspn := (spow_nat Z 0 1 Z.add Z.mul).

Ltac zi := try exact Zth; try exact Zeqb_spec; try exact Zintegral; try exact Zone_nz;
           try exact zdivx_spec; try exact zofN; try exact zdivx.

(* ---------------------------------------------------------------- the run of pow with any
   checked multiplier that accepts all products p^i * p^j, i + j <= n *)
Section PowRun.
  Variable chk : zdict -> zdict -> res zdict.
  Variable p : list Z.
  Variable n : nat.
  Hypothesis Hchk : forall i j, (i + j <= n)%nat ->
    chk (zfv (zspn p i)) (zfv (zspn p j)) = Ok (zfv (zsmul (zspn p i) (zspn p j))).

  Lemma zfv_spow_add : forall a b, zfv (zsmul (zspn p a) (zspn p b)) = zfv (zspn p (a + b)).
  Proof.
    intros. apply z_from_vec_peq. apply (peq_sym Z 0).
    apply (spow_nat_add Z 0 1 Z.add Z.mul Z.sub Z.opp Zth).
  Qed.

  Lemma pow_loop_run : forall fuel (t r : nat) pc,
    (1 <= pc)%N -> (pc < 2 ^ N.of_nat fuel)%N -> (t * N.to_nat pc + r <= n)%nat ->
    exists out, pow_loop Z chk fuel (zfv (zspn p t)) (zfv (zspn p r)) pc = Ok out.
  Proof.
    induction fuel as [|f IH]; intros t r pc H1 H2 Hd; cbn [pow_loop].
    - cbn in H2. replace (pc =? 1)%N with true by lia. eauto.
    - destruct (pc =? 1)%N eqn:E1. eauto.
      assert (Hhalf : (1 <= pc / 2)%N /\ (pc / 2 < 2 ^ N.of_nat f)%N).
      { rewrite Nat2N.inj_succ, N.pow_succ_r' in H2. split.
        - apply N.div_le_lower_bound; lia.
        - apply N.div_lt_upper_bound; lia. }
      assert (Hsq : chk (zfv (zspn p t)) (zfv (zspn p t)) = Ok (zfv (zspn p (t + t)))).
      { rewrite Hchk by nia. rewrite zfv_spow_add. reflexivity. }
      destruct (N.even pc) eqn:Ev.
      + rewrite Hsq. cbn [bind]. apply IH; try apply Hhalf.
        apply N.even_spec in Ev. destruct Ev as [h Eh].
        assert (Hdiv : (pc / 2 = h)%N).
        { subst pc. rewrite (N.mul_comm 2 h). apply N.div_mul. lia. }
        rewrite Hdiv. nia.
      + assert (Hodd : N.odd pc = true) by (rewrite <- N.negb_even, Ev; reflexivity).
        apply N.odd_spec in Hodd. destruct Hodd as [h Eh].
        assert (Hdiv : (pc / 2 = h)%N).
        { subst pc. rewrite N.add_comm, N.mul_comm. rewrite N.div_add by lia. cbn. lia. }
        assert (Hrt : chk (zfv (zspn p r)) (zfv (zspn p t)) = Ok (zfv (zspn p (r + t)))).
        { rewrite Hchk by nia. rewrite zfv_spow_add. reflexivity. }
        rewrite Hrt. cbn [bind]. rewrite Hsq. cbn [bind]. apply IH; try apply Hhalf.
        rewrite Hdiv. nia.
  Qed.

  Hypothesis chk_sound : mul_sound Z 0 Z.add Z.mul Z.eqb chk.

  Lemma pow_run : exists out, pow Z 1 chk (zfv p) (N.of_nat n) = Ok out.
  Proof.
    unfold pow. destruct (N.of_nat n =? 0)%N eqn:E0. eauto.
    assert (E1 : zfv p = zfv (zspn p 1)).
    { apply z_from_vec_peq. apply (peq_sym Z 0). eapply spow_nat_1; zi. }
    assert (E0' : one_dict Z 1 = zfv (zspn p 0)) by reflexivity.
    rewrite E1, E0'.
    destruct (pow_loop_run (S (N.to_nat (N.size (N.of_nat n)))) 1 0 (N.of_nat n)) as [tr Htr].
    lia. rewrite Nat2N.inj_succ, N2Nat.id, N.pow_succ_r'. pose proof (N.size_gt (N.of_nat n)). lia. lia.
    rewrite Htr. cbn [bind].
    assert (Hc : exists t' r', fst tr = zfv (zspn p t') /\ snd tr = zfv (zspn p r')
                               /\ (t' + r' = 1 * N.to_nat (N.of_nat n) + 0)%nat).
    { eapply pow_loop_correct; zi. exact chk_sound. 2: exact Htr. lia. }
    destruct Hc as [t' [r' [H1 [H2 H3]]]].
    rewrite H1, H2. rewrite Hchk by lia. eauto.
  Qed.
End PowRun.

(* ---------------------------------------------------------------- sizes *)
Lemma Nsize_le_of_lt_pow : forall x k : N, (x < 2 ^ k)%N -> (N.size x <= k)%N.
Proof.
  intros x k H. destruct (N.le_gt_cases (N.size x) k) as [L|L]. exact L. exfalso.
  pose proof (N.size_le x) as S.
  assert (2 ^ (k + 1) <= 2 ^ N.size x)%N by (apply N.pow_le_mono_r; lia).
  rewrite N.pow_add_r in H0. change (2 ^ 1)%N with 2%N in H0.
  destruct x as [|px]. cbn in L. lia.
  cbn [N.succ_double] in S. lia.
Qed.

Lemma Zsize_le_of_lt_pow : forall (x : Z) (k : N), 0 <= x -> x < 2 ^ Z.of_N k -> (N.size (Z.to_N x) <= k)%N.
Proof.
  intros x k Hx H. apply Nsize_le_of_lt_pow. apply N2Z.inj_lt. rewrite Z2N.id, N2Z.inj_pow by lia. exact H.
Qed.

(* ---------------------------------------------------------------- max_abs_coef is attained *)
Lemma fold_max_in : forall (l : zdict) cur,
  let r := fold_left (fun cur kv => if cur <? Z.abs (snd kv) then Z.abs (snd kv) else cur) l cur in
  r = cur \/ exists kv, In kv l /\ r = Z.abs (snd kv).
Proof.
  induction l as [|kv l IHl]; intro cur; cbn [fold_left]. left; reflexivity.
  destruct (IHl (if cur <? Z.abs (snd kv) then Z.abs (snd kv) else cur)) as [H|[kv' [Hin' H]]].
  - destruct (cur <? Z.abs (snd kv)) eqn:Ec.
    + right. exists kv. split. left; reflexivity. exact H.
    + left. exact H.
  - right. exists kv'. split. right; exact Hin'. exact H.
Qed.

Lemma max_abs_in : forall (d : zdict) M, max_abs_coef d = Ok M -> exists kv, In kv d /\ M = Z.abs (snd kv).
Proof.
  intros [|[k0 v0] rest] M H. discriminate H. unfold max_abs_coef in H. inversion H as [HM].
  destruct (fold_max_in ((k0, v0) :: rest) (Z.abs v0)) as [E|[kv [Hin E]]].
  - exists (k0, v0). split. left; reflexivity. cbn [snd]. exact E.
  - exists kv. split. exact Hin. exact E.
Qed.

Lemma In_coeff : forall (d : zdict) k v, sorted d -> In (k, v) d -> get_coeff Z 0 d k = v.
Proof.
  induction d as [|[k' v'] l IHl]; intros k v Sd Hin. destruct Hin.
  cbn [get_coeff]. destruct Hin as [Heq|Hin].
  - inversion Heq; subst. rewrite N.eqb_refl. reflexivity.
  - cbn [sorted] in Sd. destruct Sd as [Ab Sl]. rewrite Forall_forall in Ab.
    specialize (Ab _ Hin). cbn [fst] in Ab. replace (k' =? k)%N with false by lia. apply IHl; assumption.
Qed.

(* ---------------------------------------------------------------- coefficients of powers *)
Section Bound.
  Variable p : list Z.
  Hypothesis p_ne : zfv p <> [].
  Let d : N := degree (zfv p).
  Variable A : Z.
  Hypothesis HA : max_abs_coef (zfv p) = Ok A.

  Lemma A_facts : 0 <= A /\ forall k, Z.abs (nth k p 0) <= A.
  Proof.
    destruct (max_abs_spec _ p_ne) as [A' [EA [HA0 FA]]]. rewrite HA in EA. inversion EA; subst A'.
    split. exact HA0. apply coeffs_bounded; assumption.
  Qed.

  Let LA : Z := (Z.of_N d + 1) * A.

  Lemma spow_coeff_bound : forall t k, Z.abs (nth k (zspn p t) 0) <= LA ^ Z.of_nat t.
  Proof.
    destruct A_facts as [HA0 Hp].
    assert (HLA : 0 <= LA) by (unfold LA; nia).
    induction t as [|t IH]; intro k.
    - cbn [spow_nat]. destruct k as [|[|k]]; cbn; lia.
    - cbn [spow_nat]. rewrite Nat2Z.inj_succ, Z.pow_succ_r by lia.
      pose proof (smul_bound_l p (zspn p t) A (LA ^ Z.of_nat t) (S (N.to_nat d)) HA0
                    ltac:(apply Z.pow_nonneg; exact HLA) Hp IH (coeffs_vanish p) k) as B.
      replace (Z.of_nat (S (N.to_nat d))) with (Z.of_N d + 1) in B by lia. exact B.
  Qed.

  Lemma degree_spow_le_Z : forall t, (degree (zfv (zspn p t)) <= N.of_nat t * d)%N.
  Proof.
    intro t. eapply (degree_spow_le Z 0 1 Z.add Z.mul Z.sub Z.opp Z.eqb zofN zdivx); zi.
  Qed.

  Lemma max_abs_spow : forall t M, max_abs_coef (zfv (zspn p t)) = Ok M -> 0 <= M <= LA ^ Z.of_nat t.
  Proof.
    intros t M HM. destruct (max_abs_in _ M HM) as [[k v] [Hin EM]]. cbn [snd] in EM. subst M.
    split. lia.
    rewrite <- (In_coeff _ k v (proj1 (z_from_vec_wf (zspn p t))) Hin), z_coeff_from_vec.
    apply spow_coeff_bound.
  Qed.

  (* THEOREM: the simple condition implies fits_u32 for every product formed by pow *)
  Variable n : nat.
  Hypothesis Hdeg : (N.of_nat n * d < W32)%N.
  Hypothesis Hbits : (N.of_nat n * (N.size (d + 1) + N.size (Z.to_N A)) + 36 < W32)%N.

  Lemma fits_powers : forall i j, (i + j <= n)%nat ->
    fits_u32 (zfv (zspn p i)) (zfv (zspn p j)) = true.
  Proof.
    intros i j Hij. unfold fits_u32.
    destruct (max_abs_coef (zfv (zspn p i))) as [Mi| | |] eqn:Ei; try reflexivity.
    destruct (max_abs_coef (zfv (zspn p j))) as [Mj| | |] eqn:Ej; try reflexivity.
    pose proof (degree_spow_le_Z i) as Di. pose proof (degree_spow_le_Z j) as Dj.
    pose proof (max_abs_spow i Mi Ei) as Bi. pose proof (max_abs_spow j Mj Ej) as Bj.
    destruct A_facts as [HA0 _].
    set (s := (N.size (d + 1) + N.size (Z.to_N A))%N) in *.
    (* LA < 2^s *)
    assert (HLA : 0 <= LA < 2 ^ Z.of_N s).
    { unfold LA, s. rewrite N2Z.inj_add, Z.pow_add_r by lia.
      pose proof (size_pow_Z (Z.of_N d + 1) ltac:(lia)) as P1. pose proof (size_pow_Z A HA0) as P2.
      replace (Z.to_N (Z.of_N d + 1)) with (d + 1)%N in P1 by lia. nia. }
    assert (Hpow : forall t, LA ^ Z.of_nat t < 2 ^ Z.of_N (N.of_nat t * s) \/ (t = 0%nat)).
    { intro t. destruct t. right; reflexivity. left.
      rewrite N2Z.inj_mul, nat_N_Z, Z.mul_comm, Z.pow_mul_r by lia.
      apply Z.pow_lt_mono_l; lia. }
    assert (Hsz : forall t M, 0 <= M <= LA ^ Z.of_nat t -> (N.size (Z.to_N M) <= N.of_nat t * s + 1)%N).
    { intros t M HM. destruct (Hpow t) as [H|H].
      - pose proof (Zsize_le_of_lt_pow M (N.of_nat t * s) ltac:(lia) ltac:(lia)). lia.
      - subst t. change (Z.of_nat 0) with 0 in HM. rewrite Z.pow_0_r in HM.
        assert (N.size (Z.to_N M) <= 1)%N by (apply Nsize_le_of_lt_pow; lia). lia. }
    pose proof (Hsz i Mi Bi) as Si. pose proof (Hsz j Mj Bj) as Sj.
    set (di := degree (zfv (zspn p i))) in *. set (dj := degree (zfv (zspn p j))) in *.
    assert (Hd1 : ((N.of_nat i + N.of_nat j) * d <= N.of_nat n * d)%N) by (apply N.mul_le_mono_r; lia).
    assert (Hs1 : ((N.of_nat i + N.of_nat j) * s <= N.of_nat n * s)%N) by (apply N.mul_le_mono_r; lia).
    rewrite N.mul_add_distr_r in Hd1, Hs1.
    assert (Hdd : (di + dj < W32)%N) by lia.
    assert (Hmin : (N.size (N.min (di + 1) (dj + 1)) <= 32)%N).
    { apply Nsize_le_of_lt_pow. change (2 ^ 32)%N with W32. unfold W32 in *. clear - Hdd.
      destruct (N.min_spec (di + 1) (dj + 1)) as [[L E]|[L E]]; rewrite E; lia. }
    apply andb_true_intro. split; apply N.ltb_lt. exact Hdd. unfold W32 in *. lia.
  Qed.
End Bound.

Theorem zpow_fits_simple : forall (p : list Z) (n : N) A,
  max_abs_coef (zfv p) = Ok A ->
  (n * degree (zfv p) < W32)%N ->
  (n * (N.size (degree (zfv p) + 1) + N.size (Z.to_N A)) + 36 < W32)%N ->
  zpow_fits (zfv p) n = true.
Proof.
  intros p n A HA Hd Hb. unfold zpow_fits.
  assert (Hne : zfv p <> []) by (intro E; rewrite E in HA; discriminate HA).
  rewrite <- (N2Nat.id n) in Hd, Hb |- *.
  destruct (pow_run zgmul_chk p (N.to_nat n)) as [out Hout].
  - intros i j Hij. unfold zgmul_chk. rewrite (fits_powers p Hne A HA (N.to_nat n) Hd Hb i j Hij).
    f_equal. apply zgmul_chk_sound. unfold zgmul_chk.
    rewrite (fits_powers p Hne A HA (N.to_nat n) Hd Hb i j Hij). reflexivity.
  - exact zgmul_chk_sound.
  - rewrite Hout. reflexivity.
Qed.

Theorem z_pow_simple : forall (p : list Z) (n : N) A,
  max_abs_coef (zfrom_vec p) = Ok A ->
  (n * degree (zfrom_vec p) < W32)%N ->
  (n * (N.size (degree (zfrom_vec p) + 1) + N.size (Z.to_N A)) + 36 < W32)%N ->
  zpow (zfrom_vec p) n = Ok (zfrom_vec (zspow p n)).
Proof. intros p n A HA Hd Hb. apply z_pow. exact (zpow_fits_simple p n A HA Hd Hb). Qed.

(* the zero polynomial: every product has an empty operand and is returned without arithmetic *)
Lemma zgmul_chk_empty_r : forall x : zdict, zgmul_chk x [] = Ok [].
Proof.
  intro x. unfold zgmul_chk, fits_u32. cbn [max_abs_coef].
  destruct (max_abs_coef x); unfold zgmul, gmul; destruct x; reflexivity.
Qed.

Lemma pow_loop_zero : forall fuel (rs : zdict) pc, (1 <= pc)%N -> (pc < 2 ^ N.of_nat fuel)%N ->
  exists rs', pow_loop Z zgmul_chk fuel [] rs pc = Ok ([], rs').
Proof.
  induction fuel as [|f IH]; intros rs pc H1 H2; cbn [pow_loop].
  - cbn in H2. replace (pc =? 1)%N with true by lia. eauto.
  - destruct (pc =? 1)%N eqn:E1. eauto.
    assert (Hhalf : (1 <= pc / 2)%N /\ (pc / 2 < 2 ^ N.of_nat f)%N).
    { rewrite Nat2N.inj_succ, N.pow_succ_r' in H2. split.
      - apply N.div_le_lower_bound; lia.
      - apply N.div_lt_upper_bound; lia. }
    rewrite !zgmul_chk_empty_r. cbn [bind]. destruct (N.even pc); apply IH; apply Hhalf.
Qed.

Theorem z_pow_zero_poly : forall (p : list Z) (n : N), zfrom_vec p = [] ->
  zpow (zfrom_vec p) n = Ok (zfrom_vec (zspow p n)).
Proof.
  intros p n E. apply z_pow. unfold zpow_fits. rewrite E. unfold pow.
  destruct (n =? 0)%N eqn:E0. reflexivity.
  destruct (pow_loop_zero (S (N.to_nat (N.size n))) (one_dict Z 1) n) as [rs' H].
  lia. rewrite Nat2N.inj_succ, N2Nat.id, N.pow_succ_r'. pose proof (N.size_gt n). lia.
  rewrite H. cbn [bind fst snd]. rewrite zgmul_chk_empty_r. reflexivity.
Qed.
