(* C21 obligation: rational coefficients: for ALL coefficient lists with deg b < 2^32, divides_upoly(a, b) terminates, answers true with quotient d exactly when b = a * d (never for a = 0) and false exactly when no such polynomial exists; an exact quotient Q is the one returned *)
From SE Require Import Base.Prelude C21.PolyModel C21.PolySpec C21.PolyProofs2.
From Coq Require Import QArith Qcanon.
Theorem C21_divides_rat_simple :
  (forall pa pb, (degree (qfrom_vec pb) < W32)%N ->
    exists r, qdivides (qfrom_vec pa) (qfrom_vec pb) = Ok r /\
      match r with
      | Some d => qfrom_vec pa <> [] /\ exists D, d = qfrom_vec D /\ qpeq pb (qsmul pa D)
      | None => qfrom_vec pa = [] \/ ~ exists D, qpeq pb (qsmul pa D)
      end) /\
  (forall pa pb Q, (degree (qfrom_vec pb) < W32)%N ->
    qfrom_vec pa <> [] -> qpeq pb (qsmul pa Q) ->
    qdivides (qfrom_vec pa) (qfrom_vec pb) = Ok (Some (qfrom_vec Q))).
Proof. split. exact q_divides_simple. exact q_divides_complete_simple. Qed.
Print Assumptions C21_divides_rat_simple.
