(* C04: non-trivial operands satisfy the hypotheses, and the three calls of the associativity statement return. *)
From SE Require Import Expr.ArithAddProofs.
Local Open Scope Z_scope.
Definition vx := ESym [120%N]. Definition vy := ESym [121%N].
Definition t1 := EMul (NRat 3 2) [(vx, e_int 2); (vy, e_half)].
Definition t2 := EAdd (NInt 1) [(vx, NInt (-1)); (EPow vy (e_int (-1)), NCplx 0 1 1 1)].
Definition t3 := EMul (NRat (-3) 2) [(vx, e_int 2); (vy, e_half)].
Example C04_operands_ok :
  add_operand_ok t1 = true /\ add_operand_ok t2 = true /\ add_operand_ok t3 = true.
Proof. vm_compute. repeat split; reflexivity. Qed.
Example C04_calls_return :
  match e_add t1 t2, e_add t2 t3 with
  | Ok ab, Ok bc => match e_add ab t3, e_add t1 bc with
                    | Ok r1, Ok r2 => expr_eqb r1 r2 && expr_eqb r1 t2
                    | _, _ => false end
  | _, _ => false
  end = true.
Proof. vm_compute. reflexivity. Qed.
