(* C04: non-trivial operands satisfy the hypotheses, and the three calls of the associativity statement return. *)
From SE Require Import Expr.ArithAddProofs Expr.ArithMulUnique.
Local Open Scope Z_scope.
Definition vx := ESym [120%N]. Definition vy := ESym [121%N].
Definition t1 := EMul (NRat 3 2) [(vx, e_int 2); (vy, e_half)].
Definition t2 := EAdd (NInt 1) [(vx, NInt (-1)); (EPow vy (e_int (-1)), NCplx 0 1 1 1)].
Definition t3 := EMul (NRat (-3) 2) [(vx, e_int 2); (vy, e_half)].
Example C04_operands_ok :
  add_operand_ok t1 = true /\ add_operand_ok t2 = true /\ add_operand_ok t3 = true.
Proof. vm_compute. repeat split; reflexivity. Qed.
Example C04_calls_return :
  match e_add t1 t2, e_add t2 t3 with
  | Ok ab, Ok bc => match e_add ab t3, e_add t1 bc with
                    | Ok r1, Ok r2 => expr_eqb r1 r2 && expr_eqb r1 t2
                    | _, _ => false end
  | _, _ => false
  end = true.
Proof. vm_compute. reflexivity. Qed.
(* mul: x**2 * (y**(1/2) * (3/2 * x**-2 * sin(x))): sorted operands, both groupings return, results eq, not trivial *)
Definition ma := EPow vx (e_int 2).
Definition mb := EPow vy e_half.
Example C04_mul_operands_ok :
  match e_mul 5 (ENum (NRat 3 2)) (EPow vx (e_int (-2))) with
  | Ok m0 => match e_mul 5 m0 (EF1 TC_Sin vx) with
    | Ok mc =>
      mul_operand_sorted ma && mul_operand_sorted mb && mul_operand_sorted mc &&
      match e_mul 5 ma mb, e_mul 5 mb mc with
      | Ok ab, Ok bc => match e_mul 5 ab mc, e_mul 5 ma bc with
                        | Ok r1, Ok r2 => expr_eqb r1 r2 && negb (expr_eqb r1 mc) && mul_operand_sorted r1
                        | _, _ => false end
      | _, _ => false end
    | _ => false end
  | _ => false
  end = true.
Proof. vm_compute. reflexivity. Qed.
