(* C04 obligation: add(add(a, b), c) and add(a, add(b, c)) are eq on the exact fragment. *)
From SE Require Import Expr.ArithAddProofs.
Theorem C04_add_assoc :
  forall a b c ab bc r1 r2 : expr,
  add_operand_ok a = true -> add_operand_ok b = true -> add_operand_ok c = true ->
  e_add a b = Ok ab -> e_add ab c = Ok r1 -> e_add b c = Ok bc -> e_add a bc = Ok r2 ->
  expr_eqb r1 r2 = true.
Proof. exact add_assoc. Qed.
Print Assumptions C04_add_assoc.
