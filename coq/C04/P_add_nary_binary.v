(* C04 obligation: the n-ary add equals the nested pairwise add  a1 + (a2 + (... + (an + 0)))  (and hence, with
   C04_add_assoc / C04_add_comm, every bracketing and order), exact fragment, any length; both are total. *)
From SE Require Import Expr.ArithAddProofs.
Theorem C04_add_nary_binary :
  forall (l : list expr), (forall x, In x l -> add_operand_ok x = true) ->
  exists r r', e_addv l = Ok r /\ add_fold l = Ok r' /\ expr_eqb r r' = true.
Proof.
  intros l H. destruct (e_addv_spec l H) as (d & F & _). destruct (add_fold_spec l H) as (d' & F' & _).
  eexists. eexists. split; [exact F|]. split; [exact F'|]. eapply add_nary_binary; eauto.
Qed.
Print Assumptions C04_add_nary_binary.
