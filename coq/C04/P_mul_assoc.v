(* C04 obligation: mul(mul(a, b), c) and mul(a, mul(b, c)) are eq on the power-product fragment (integer AND
   rational powers of atoms; the fragment excludes rational powers of numbers, of products and of powers, where
   the library is genuinely non-associative: see P_refuted.v). *)
From SE Require Import Expr.ArithMulUnique.
Theorem C04_mul_assoc :
  forall (f1 f2 f3 f4 : nat) (a b c ab bc r1 r2 : expr),
  mul_operand_sorted a = true -> mul_operand_sorted b = true -> mul_operand_sorted c = true ->
  e_mul f1 a b = Ok ab -> e_mul f2 ab c = Ok r1 -> e_mul f3 b c = Ok bc -> e_mul f4 a bc = Ok r2 ->
  expr_eqb r1 r2 = true.
Proof. exact mul_assoc. Qed.
Print Assumptions C04_mul_assoc.
