(* C04 obligation: add(a, b) and add(b, a) are eq (the library's eq: dictionaries compared as maps) for all
   operands of the exact fragment ([add_operand_ok]); both calls return values (C03_add_canonical). *)
From SE Require Import Expr.ArithAddProofs.
Theorem C04_add_comm :
  forall a b r1 r2 : expr, add_operand_ok a = true -> add_operand_ok b = true ->
  e_add a b = Ok r1 -> e_add b a = Ok r2 -> expr_eqb r1 r2 = true.
Proof. exact add_comm. Qed.
Print Assumptions C04_add_comm.
