(* C04 obligation: mul(a, b) and mul(b, a) are eq on the power-product fragment with sorted dictionaries
   ([mul_operand_sorted]: exact numbers; atoms = symbols, constants, function applications, sums; integer and
   rational powers of atoms; products of those as the library stores them), for any fuels for which the calls return. *)
From SE Require Import Expr.ArithMulUnique.
Theorem C04_mul_comm :
  forall (fuel fuel' : nat) (a b r1 r2 : expr),
  mul_operand_sorted a = true -> mul_operand_sorted b = true ->
  e_mul fuel a b = Ok r1 -> e_mul fuel' b a = Ok r2 -> expr_eqb r1 r2 = true.
Proof. exact mul_comm. Qed.
Print Assumptions C04_mul_comm.
