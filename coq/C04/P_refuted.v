(* C04 refutations (model-level witnesses of non-uniqueness, replayed on the library by checks/C04.py):
   three operands whose two groupings give results that are not eq. *)
From SE Require Import Expr.Canon.
Local Open Scope Z_scope.
Definition grp_l (op : apiop) (a b c : expr) : res expr :=
  match api_run op [a; b] with Ok ab => api_run op [ab; c] | e => e end.
Definition grp_r (op : apiop) (a b c : expr) : res expr :=
  match api_run op [b; c] with Ok bc => api_run op [a; bc] | e => e end.
Definition differ (x y : res expr) : bool :=
  match x, y with Ok r1, Ok r2 => negb (expr_eqb r1 r2) | _, _ => false end.
Definition sx := ESym [120%N]. Definition sy := ESym [121%N]. Definition sz := ESym [122%N].
(* (x**2)**(1/2) * (x**2)**(1/2) * (x**2)**(-3/2): rational powers of a power *)
Theorem C04_mul_assoc_refuted_nested_power :
  let b := EPow sx (e_int 2) in
  differ (grp_l OMul (EPow b e_half) (EPow b e_half) (EPow b (ENum (NRat (-3) 2))))
         (grp_r OMul (EPow b e_half) (EPow b e_half) (EPow b (ENum (NRat (-3) 2)))) = true.
Proof. vm_compute. reflexivity. Qed.
(* sqrt(2) * sqrt(2) * 2**x   (DESIGN row 37) *)
Theorem C04_mul_assoc_refuted_number_base :
  let s := EPow (e_int 2) e_half in differ (grp_l OMul s s (EPow (e_int 2) sx)) (grp_r OMul s s (EPow (e_int 2) sx)) = true.
Proof. vm_compute. reflexivity. Qed.
(* 2*(x+y) + (-(x+y)) + z   (DESIGN row 42) *)
Theorem C04_add_assoc_refuted_nested_add :
  let s := EAdd (NInt 0) [(sx, NInt 1); (sy, NInt 1)] in
  differ (grp_l OAdd (EMul (NInt 2) [(s, e_int 1)]) (EMul (NInt (-1)) [(s, e_int 1)]) sz)
         (grp_r OAdd (EMul (NInt 2) [(s, e_int 1)]) (EMul (NInt (-1)) [(s, e_int 1)]) sz) = true.
Proof. vm_compute. reflexivity. Qed.
(* (x*y)**(3/2) * (x*y)**(3/2) * (x*y)**(1/2) *)
Theorem C04_mul_assoc_refuted_product_base :
  let m := EMul (NInt 1) [(sx, e_int 1); (sy, e_int 1)] in
  differ (grp_l OMul (EPow m (ENum (NRat 3 2))) (EPow m (ENum (NRat 3 2))) (EPow m e_half))
         (grp_r OMul (EPow m (ENum (NRat 3 2))) (EPow m (ENum (NRat 3 2))) (EPow m e_half)) = true.
Proof. vm_compute. reflexivity. Qed.
(* (1+I)**(5/2) * (1+I)**(-1/2) * (1+I)**(-1/2) *)
Theorem C04_mul_assoc_refuted_complex_base :
  let b := ENum (NCplx 1 1 1 1) in
  differ (grp_l OMul (EPow b (ENum (NRat 5 2))) (EPow b (ENum (NRat (-1) 2))) (EPow b (ENum (NRat (-1) 2))))
         (grp_r OMul (EPow b (ENum (NRat 5 2))) (EPow b (ENum (NRat (-1) 2))) (EPow b (ENum (NRat (-1) 2)))) = true.
Proof. vm_compute. reflexivity. Qed.
