(* C04 obligation: the n-ary add of a list of operands and of any permutation of it are eq
   (lists of any length, exact fragment). *)
From SE Require Import Expr.ArithAddProofs.
From Coq Require Import Permutation.
Theorem C04_add_nary_perm :
  forall (l l' : list expr) (r r' : expr),
  (forall x, In x l -> add_operand_ok x = true) -> Permutation l l' ->
  e_addv l = Ok r -> e_addv l' = Ok r' -> expr_eqb r r' = true.
Proof. exact add_nary_perm. Qed.
Print Assumptions C04_add_nary_perm.
