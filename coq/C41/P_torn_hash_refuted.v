(* C41 obligation: with a hash_ written in two halves (non-atomic store) a concurrent reader
   returns a torn value (1 instead of 2^32+1) -- the atomic store is necessary. *)
From Coq Require Import List Arith NArith.
Import ListNotations.
From SE Require Import Rcp.ThreadModel Rcp.ThreadProofs.
Theorem C41_torn_hash_refuted :
  let s := trun (mkMode true false) 4294967297 (tinit 0 [1; 1]) torn_sched in
  exists t, nth_error (threads s) 1 = Some t /\ rets t = [1%N].
Proof. exact torn_hash_refuted. Qed.
Print Assumptions C41_torn_hash_refuted.
