(* C41 obligation (hash_cache_linearizable): thread-safe build, ANY number of threads, ANY
   schedule of their atomic steps (hash() = atomic load, optional atomic store of the idempotent
   value, atomic load; interleaved with RCP copies and drops): every hash() call returns
   __hash__() -- the value the sequential run returns -- and the cache ends as 0 or __hash__(). *)
From Coq Require Import List Arith NArith.
Import ListNotations.
From SE Require Import Rcp.ThreadModel Rcp.ThreadProofs.
Theorem C41_hash_cache_linearizable : forall (H c0 : N) (helds : list nat) (sched : list (nat * req)),
  (c0 = 0%N \/ c0 = H) -> 1 <= list_sum helds ->
  let s := trun thread_safe H (tinit c0 helds) sched in
  (forall t, In t (threads s) -> forall r, In r (rets t) -> r = H) /\
  (cache s = 0%N \/ cache s = H).
Proof. exact hash_cache_linearizable. Qed.
Print Assumptions C41_hash_cache_linearizable.
