(* C41 obligation (nonatomic_refuted): the same protocol with the plain `unsigned refcount_` of the
   default build (refcount_++ = load, store) loses an update on a concrete 12-step schedule of two
   threads: the object is deleted while thread 1 still holds a handle and its next hash() touches
   freed memory -- WITH_SYMENGINE_THREAD_SAFE is necessary. *)
From Coq Require Import List Arith NArith.
Import ListNotations.
From SE Require Import Rcp.ThreadModel Rcp.ThreadProofs.
Theorem C41_nonatomic_refuted :
  let s := trun (mkMode false true) 5 (tinit 0 [1; 1]) na_sched in
  uaf s = true /\ freed s = 1 /\ total_held s = 1.
Proof. exact nonatomic_refuted. Qed.
Print Assumptions C41_nonatomic_refuted.
