(* C41 obligation (refcount_safe): with atomic fetch_add / fetch_sub-and-test, for any number of
   threads and any schedule: no step touches the object after its deletion, the counter equals
   the number of handles held by all threads, the object is never deleted while some thread
   holds a handle, it is deleted at most once, and exactly once when the last handle has been
   dropped and every thread is idle. *)
From Coq Require Import List Arith NArith.
Import ListNotations.
From SE Require Import Rcp.ThreadModel Rcp.ThreadProofs.
Theorem C41_refcount_safe : forall (H c0 : N) (helds : list nat) (sched : list (nat * req)),
  (c0 = 0%N \/ c0 = H) -> 1 <= list_sum helds ->
  let s := trun thread_safe H (tinit c0 helds) sched in
  uaf s = false /\ rc s = total_held s /\ freed s <= 1 /\
  (1 <= total_held s -> freed s = 0) /\
  (total_held s = 0 -> all_idle s = true -> freed s = 1).
Proof. exact refcount_safe. Qed.
Print Assumptions C41_refcount_safe.
