(* C41: a concrete interleaving of three threads (hash, copy, drop mixed; the last handle is
   dropped by thread 2, which then deletes) evaluated by the kernel: all hashes equal H, the
   object is deleted exactly once, nobody touched it afterwards. *)
From Coq Require Import List Arith NArith.
Import ListNotations.
From SE Require Import Rcp.ThreadModel Rcp.ThreadProofs.
Definition demo_progs : list (list req) := [[RHash; RCopy; RDrop; RDrop]; [RCopy; RHash; RDrop; RDrop]; [RHash; RDrop]].
Definition demo_order : list nat := [0;1;2;0;1;2;2;1;0;0;1;1;0;0;1;1;0;0;1;1;2;2;2;2;0;1;2;0;1;2].
Example C41_demo :
  let s0 := tinit 0 [1; 1; 1] in
  let s := trun thread_safe 77 s0 (plan thread_safe 77 s0 demo_progs demo_order) in
  freed s = 1 /\ uaf s = false /\ rc s = 0 /\ cache s = 77%N /\ all_idle s = true /\
  map rets (threads s) = [[77%N]; [77%N]; [77%N]].
Proof. vm_compute. repeat split; reflexivity. Qed.
Print Assumptions C41_demo.
