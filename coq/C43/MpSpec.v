(* C43 -- specifications: the GMP-documented meaning of each function that mp_boost.cpp reimplements,
   stated with the schoolbook definitions of Coq's standard library. *)
From SE Require Import Base.Prelude C43.MpModel.
From Coq Require Import Lia ZifyBool Znumtheory.
Local Open Scope Z_scope.

(* boost::multiprecision::pow (square and multiply) is Z.pow *)
Lemma zpow_pos_spec : forall a p, zpow_pos a p = Z.pow a (Zpos p).
Proof.
  induction p; cbn [zpow_pos].
  - rewrite IHp. rewrite Pos2Z.inj_xI. rewrite Z.pow_add_r by lia.
    replace (2 * Z.pos p) with (Z.pos p + Z.pos p) by lia. rewrite Z.pow_add_r by lia. ring.
  - rewrite IHp. rewrite Pos2Z.inj_xO.
    replace (2 * Z.pos p) with (Z.pos p + Z.pos p) by lia. rewrite Z.pow_add_r by lia. ring.
  - rewrite Z.pow_1_r. reflexivity.
Qed.
Lemma zpow_spec : forall a n, zpow a n = Z.pow a n.
Proof. destruct n; cbn [zpow]; auto using zpow_pos_spec. Qed.

(* mpz_fdiv_qr: q = floor(a/b), r = a - q*b has the sign of b.  Coq's Z.div / Z.modulo are exactly that. *)
Definition floor_div_spec (a b q r : Z) : Prop :=
  a = q * b + r /\ (0 <= r < b \/ b < r <= 0).
(* mpz_cdiv_qr: q = ceiling(a/b), r = a - q*b has the sign opposite to b *)
Definition ceil_div_spec (a b q r : Z) : Prop :=
  a = q * b + r /\ (- b < r <= 0 \/ 0 <= r < - b).
Definition trunc_div_spec (a b q r : Z) : Prop :=
  a = q * b + r /\ Z.abs r < Z.abs b /\ (r = 0 \/ Z.sgn r = Z.sgn a).

(* mpz_gcdext(g, s, t, a, b) as documented in the GMP manual: g = gcd(a,b) >= 0, a*s + b*t = g, and
   "s and t are chosen such that normally |s| < |b|/(2g) and |t| < |a|/(2g), and these relations define s and t
   uniquely.  There are a few exceptional cases: if |a| = |b| then s = 0, t = sgn(b).  Otherwise s = sgn(a) if
   b = 0 or |b| = 2g, and t = sgn(b) if a = 0 or |a| = 2g." *)
Definition gmp_gcdext_spec (a b g s t : Z) : Prop :=
  g = Z.gcd a b /\ s * a + t * b = g /\
  (if Z.abs a =? Z.abs b then s = 0 /\ t = Z.sgn b
   else (if (b =? 0) || (Z.abs b =? 2 * g) then s = Z.sgn a else 2 * g * Z.abs s < Z.abs b) /\
        (if (a =? 0) || (Z.abs a =? 2 * g) then t = Z.sgn b else 2 * g * Z.abs t < Z.abs a)).

(* mpz_invert(r, a, m), m <> 0: succeeds iff gcd(a, m) = 1; then 0 <= r < |m| and a*r = 1 (mod m) *)
Definition gmp_invert_spec (a m : Z) (o : option Z) : Prop :=
  match o with
  | None => Z.gcd a m <> 1
  | Some r => Z.gcd a m = 1 /\ 0 <= r < Z.abs m /\ (m | a * r - 1)
  end.

(* mpz_root(r, i, n): r = the truncated integer part of the n-th root of i; returns whether r^n = i *)
Definition trunc_root_spec (i n r : Z) (exact : bool) : Prop :=
  (0 <= i -> 0 <= r /\ r ^ n <= i < (r + 1) ^ n) /\
  (i < 0 -> r <= 0 /\ (- r) ^ n <= - i < (- r + 1) ^ n) /\
  (exact = true <-> r ^ n = i).

Definition perfect_power (i : Z) : Prop := exists a k, 2 <= k /\ a ^ k = i.
Definition perfect_square (i : Z) : Prop := exists a, a * a = i.

(* Fibonacci and Lucas numbers *)
Fixpoint fibn (n : nat) : Z :=
  match n with
  | O => 0
  | S n' => match n' with O => 1 | S n'' => fibn n'' + fibn n' end
  end.
Fixpoint lucn (n : nat) : Z :=
  match n with
  | O => 2
  | S n' => match n' with O => 1 | S n'' => lucn n'' + lucn n' end
  end.

(* binomial coefficients by Pascal's rule; mpz_bin_ui extends them to negative n by bin(-n,k) = (-1)^k bin(n+k-1,k) *)
Fixpoint binom (n k : nat) : Z :=
  match k with
  | O => 1
  | S k' => match n with O => 0 | S n' => binom n' k' + binom n' k end
  end.
Definition gmp_bin (n : Z) (k : nat) : Z :=
  if 0 <=? n then binom (Z.to_nat n) k
  else (if Nat.even k then 1 else -1) * binom (Z.to_nat (- n) + k - 1) k.

(* lowest set bit *)
Definition lowest_bit_spec (i : Z) (k : N) : Prop :=
  (2 ^ Z.of_N k | i) /\ ~ (2 ^ (Z.of_N k + 1) | i).

(* least prime above i *)
Definition next_prime_spec (i p : Z) : Prop :=
  i < p /\ prime p /\ forall q, i < q < p -> ~ prime q.
