From SE Require Import Base.Prelude C43.MpModel C43.MpSpec C43.MpDiv.
From Coq Require Import Znumtheory.
Local Open Scope Z_scope.

Theorem C43_cdiv_qr_ceiling :
  forall a b q r, mp_cdiv_qr a b = Ok (q, r) -> ceil_div_spec a b q r.
Proof. exact cdiv_qr_ceiling. Qed.
Print Assumptions C43_cdiv_qr_ceiling.
