(* C43 -- the cofactors returned by mp_gcdext (extended Euclid with truncating division, signs fixed at the end)
   are exactly the cofactors documented for mpz_gcdext: |s| < |b|/(2g), |t| < |a|/(2g) with the manual's
   exceptional cases.  Since that specification determines (g, s, t) uniquely, the Boost backend's gcd_ext
   agrees with GMP's on every input. *)
From SE Require Import Base.Prelude C43.MpModel C43.MpSpec C43.MpLoop C43.MpGcd.
From Coq Require Import Lia ZifyBool Znumtheory.
Local Open Scope Z_scope.

(* ------------------------------------------------------------------ sign bookkeeping *)
Lemma sign_l1 : forall X Y q, X * Y <= 0 -> 0 <= q * Y -> (Y = 0 -> q = 0) -> X * q <= 0.
Proof.
  intros X Y q H1 H2 H3.
  destruct (Z.lt_trichotomy Y 0) as [HY|[HY|HY]].
  - assert (0 <= X) by nia. assert (q <= 0) by nia. nia.
  - rewrite (H3 HY). lia.
  - assert (X <= 0) by nia. assert (0 <= q) by nia. nia.
Qed.

Lemma sign_l2 : forall X Y q Z' W, X * Y <= 0 -> 0 <= q * Y -> 0 <= Z' -> 0 <= W * Y -> (Y = 0 -> W = 0) ->
  (X - q * Z') * W <= 0.
Proof.
  intros X Y q Z' W H1 H2 H3 H4 H5.
  destruct (Z.lt_trichotomy Y 0) as [HY|[HY|HY]].
  - assert (0 <= X) by nia. assert (q <= 0) by nia. assert (W <= 0) by nia.
    assert (0 <= X - q * Z') by nia. nia.
  - rewrite (H5 HY). lia.
  - assert (X <= 0) by nia. assert (0 <= q) by nia. assert (0 <= W) by nia.
    assert (X - q * Z' <= 0) by nia. nia.
Qed.

Lemma abs_sub_opp : forall x y, x * y <= 0 -> Z.abs (x - y) = Z.abs x + Z.abs y.
Proof. intros x y H. destruct (Z.abs_spec x), (Z.abs_spec y), (Z.abs_spec (x - y)); nia. Qed.

Lemma sgn_mul_abs : forall x, Z.sgn x * x = Z.abs x.
Proof. intros. destruct x; reflexivity. Qed.

(* facts about one truncating division *)
Lemma quot_rem_signs : forall u v, v <> 0 ->
  let q := Z.quot u v in let r := Z.rem u v in
  u = v * q + r /\ Z.abs r < Z.abs v /\ 0 <= r * u /\ 0 <= q * (u * v) /\
  Z.abs u = Z.abs q * Z.abs v + Z.abs r /\ 0 <= (v * r) * (u * v) /\ (u * v = 0 -> q = 0 /\ r = 0).
Proof.
  intros u v Hv q r. subst q r.
  assert (F1 := Z.quot_rem' u v). assert (F2 := Z.rem_bound_abs u v Hv).
  assert (F3 := Z.rem_sign_mul u v Hv).
  split; auto. split; auto. split; auto.
  assert (F4 : 0 <= Z.quot u v * (u * v)).
  { rewrite (Z.quot_div u v Hv).
    replace (Z.sgn u * Z.sgn v * (Z.abs u / Z.abs v) * (u * v))
      with ((Z.abs u / Z.abs v) * ((Z.sgn u * u) * (Z.sgn v * v))) by ring.
    rewrite !sgn_mul_abs. apply Z.mul_nonneg_nonneg; [apply Z.div_pos; lia|]. apply Z.mul_nonneg_nonneg; lia. }
  split; auto.
  assert (F7 : Z.abs u = Z.abs (Z.quot u v) * Z.abs v + Z.abs (Z.rem u v)).
  { assert (H := Z.quot_rem' (Z.abs u) (Z.abs v)).
    rewrite Z.quot_abs, Z.rem_abs in H by auto. lia. }
  split; auto. split.
  - replace (v * Z.rem u v * (u * v)) with ((v * v) * (Z.rem u v * u)) by ring.
    apply Z.mul_nonneg_nonneg; auto. apply Z.square_nonneg.
  - intros H0. assert (u = 0) by nia. subst u. rewrite Z.quot_0_l, Z.rem_0_l by auto. auto.
Qed.

Section Normalisation.
  Variables a b : Z.

  (* the classical invariants of the cofactor sequences, on absolute values *)
  Definition ninv (s : gst) : Prop :=
    Z.abs (g_tr s) * Z.abs (g_ns s) + Z.abs (g_nr s) * Z.abs (g_ts s) = Z.abs b /\
    Z.abs (g_tr s) * Z.abs (g_nt s) + Z.abs (g_nr s) * Z.abs (g_tt s) = Z.abs a /\
    g_ts s * g_ns s * (g_tr s * g_nr s) <= 0 /\
    g_tt s * g_nt s * (g_tr s * g_nr s) <= 0.

  Lemma ninv_init : (a <> 0 \/ b <> 0) -> ninv (gcdext_init a b).
  Proof.
    intros H. unfold ninv, gcdext_init; cbn [g_ts g_tt g_tr g_ns g_nt g_nr].
    destruct ((a =? 0) && (b =? 0)) eqn:E; [lia|]. repeat split; lia.
  Qed.

  Lemma ninv_step : forall s s', ninv s -> gcdext_step s = inl s' -> ninv s'.
  Proof.
    intros s s' (A1 & A2 & S1 & S2) H. apply gcdext_step_inl in H. destruct H as [Hnz ->].
    destruct (quot_rem_signs (g_tr s) (g_nr s) Hnz) as (F1 & F2 & F3 & F4 & F7 & F6 & F0).
    set (q := Z.quot (g_tr s) (g_nr s)) in *. set (r := Z.rem (g_tr s) (g_nr s)) in *.
    unfold ninv; cbn [g_ts g_tt g_tr g_ns g_nt g_nr].
    set (ts := g_ts s) in *. set (tt := g_tt s) in *. set (tr := g_tr s) in *.
    set (ns := g_ns s) in *. set (nt := g_nt s) in *. set (nr := g_nr s) in *.
    assert (Hs : ts * (q * ns) <= 0).
    { replace (ts * (q * ns)) with ((ts * ns) * q) by ring. apply (sign_l1 _ (tr * nr)); auto. intros Hz; apply F0; auto. }
    assert (Ht : tt * (q * nt) <= 0).
    { replace (tt * (q * nt)) with ((tt * nt) * q) by ring. apply (sign_l1 _ (tr * nr)); auto. intros Hz; apply F0; auto. }
    rewrite (abs_sub_opp ts (q * ns) Hs), (abs_sub_opp tt (q * nt) Ht), !Z.abs_mul.
    split; [rewrite <- A1, F7; ring|]. split; [rewrite <- A2, F7; ring|]. split.
    - replace (ns * (ts - q * ns) * (nr * r)) with ((ts * ns - q * (ns * ns)) * (nr * r)) by ring.
      apply (sign_l2 _ (tr * nr)); auto; [apply Z.square_nonneg|]. intros Hz. destruct (F0 Hz) as [_ ->]. ring.
    - replace (nt * (tt - q * nt) * (nr * r)) with ((tt * nt - q * (nt * nt)) * (nr * r)) by ring.
      apply (sign_l2 _ (tr * nr)); auto; [apply Z.square_nonneg|]. intros Hz. destruct (F0 Hz) as [_ ->]. ring.
  Qed.

  (* ---------------------------------------------------------------- history: what the exit state looks like *)
  Definition linv (s : gst) : Prop := ginv a b s /\ ninv s.
  Definition hist (s : gst) : Prop :=
    s = gcdext_init a b \/
    exists p, linv p /\ gcdext_step p = inl s /\ (p = gcdext_init a b \/ Z.abs (g_nr p) < Z.abs (g_tr p)).
  Definition hinv (s : gst) : Prop := linv s /\ hist s.

  Lemma hinv_init : (a <> 0 \/ b <> 0) -> hinv (gcdext_init a b).
  Proof. intros H. split; [split; [apply ginv_init | apply ninv_init; auto] | left; reflexivity]. Qed.

  Lemma hinv_step : forall s s', hinv s -> gcdext_step s = inl s' -> hinv s'.
  Proof.
    intros s s' [[G N] Hh] Hstep. split.
    - split; [eapply ginv_step; eauto | eapply ninv_step; eauto].
    - right. exists s. split; [split; auto|]. split; auto.
      destruct Hh as [->|(p & _ & Hp & _)]; [left; reflexivity|right].
      apply gcdext_step_inl in Hp. destruct Hp as [Hnz ->]. cbn [g_tr g_nr].
      apply Z.rem_bound_abs; auto.
  Qed.
End Normalisation.

(* ------------------------------------------------------------------ from the weak bounds to GMP's normalisation *)
Lemma mul_eq_1_abs : forall x y, x * y = 1 -> Z.abs x = 1.
Proof. intros x y H. destruct (Z.eq_mul_1 x y H); lia. Qed.

Lemma cofactor_core : forall A B s t, s * A + t * B = 1 -> 2 * Z.abs s <= Z.abs B -> 2 * Z.abs t <= Z.abs A ->
  (Z.abs B = 2 -> s = Z.sgn A) /\ (Z.abs B <> 2 -> 2 * Z.abs s < Z.abs B).
Proof.
  intros A B s t He Hs Ht. split.
  - intros HB.
    (* 2|t| < |A| : otherwise A = +-2t, t | 1, A and B both even *)
    assert (Hlt : 2 * Z.abs t < Z.abs A).
    { destruct (Z_lt_le_dec (2 * Z.abs t) (Z.abs A)) as [|Hge]; auto. exfalso.
      assert (HA : A = 2 * t \/ A = - (2 * t)) by lia.
      assert (Ht1 : Z.abs t = 1).
      { destruct HA as [HA|HA]; subst A.
        - apply (mul_eq_1_abs t (2 * s + B)). lia.
        - apply (mul_eq_1_abs t (- (2 * s) + B)). lia. }
      lia. }
    assert (Hs1 : s = 0 \/ s = 1 \/ s = -1) by lia.
    destruct Hs1 as [->|[->| ->]].
    + assert (Z.abs t = 1) by (apply (mul_eq_1_abs t B); lia). lia.
    + destruct (Z.abs_spec B), (Z.abs_spec A), (Z.abs_spec t); lia.
    + destruct (Z.abs_spec B), (Z.abs_spec A), (Z.abs_spec t); lia.
  - intros HB. destruct (Z_lt_le_dec (2 * Z.abs s) (Z.abs B)) as [|Hge]; auto. exfalso.
    assert (HBs : B = 2 * s \/ B = - (2 * s)) by lia.
    assert (Hs1 : Z.abs s = 1).
    { destruct HBs as [HBs|HBs]; subst B.
      - apply (mul_eq_1_abs s (A + 2 * t)). lia.
      - apply (mul_eq_1_abs s (A - 2 * t)). lia. }
    lia.
Qed.

Lemma weak_to_spec : forall a b g s t, g = Z.gcd a b -> 0 < g -> s * a + t * b = g ->
  2 * g * Z.abs s <= Z.abs b -> 2 * g * Z.abs t <= Z.abs a -> gmp_gcdext_spec a b g s t.
Proof.
  intros a b g s t Hg Hg0 Hbez Hs Ht.
  destruct (Z.gcd_divide_l a b) as [A HA]. destruct (Z.gcd_divide_r a b) as [B HB].
  rewrite <- Hg in HA, HB.
  assert (He : s * A + t * B = 1) by nia.
  assert (HsB : 2 * Z.abs s <= Z.abs B).
  { rewrite HB, Z.abs_mul, (Z.abs_eq g) in Hs by lia. nia. }
  assert (HtA : 2 * Z.abs t <= Z.abs A).
  { rewrite HA, Z.abs_mul, (Z.abs_eq g) in Ht by lia. nia. }
  destruct (cofactor_core A B s t He HsB HtA) as [C1 C2].
  destruct (cofactor_core B A t s ltac:(lia) HtA HsB) as [D1 D2].
  assert (Hab : Z.abs a = Z.abs A * g) by (rewrite HA, Z.abs_mul, (Z.abs_eq g) by lia; reflexivity).
  assert (Hbb : Z.abs b = Z.abs B * g) by (rewrite HB, Z.abs_mul, (Z.abs_eq g) by lia; reflexivity).
  assert (Hsa : Z.sgn a = Z.sgn A) by (rewrite HA, Z.sgn_mul, (Z.sgn_pos g) by lia; lia).
  assert (Hsb : Z.sgn b = Z.sgn B) by (rewrite HB, Z.sgn_mul, (Z.sgn_pos g) by lia; lia).
  (* a, b <> 0 and |a| <> |b| follow from the bounds *)
  assert (HA0 : A <> 0).
  { intros ->. assert (Z.abs t = 0) by lia. assert (t = 0) by lia. subst. lia. }
  assert (HB0 : B <> 0).
  { intros ->. assert (Z.abs s = 0) by lia. assert (s = 0) by lia. subst. lia. }
  assert (Hne : Z.abs A <> Z.abs B).
  { intros Heq.
    assert (HA1 : Z.abs A = 1).
    { destruct (Z.abs_spec A) as [[_ E1]|[_ E1]], (Z.abs_spec B) as [[_ E2]|[_ E2]].
      - assert (A = B) by lia. subst B. apply (mul_eq_1_abs A (s + t)). lia.
      - assert (A = - B) by lia. subst A. replace (Z.abs (- B)) with (Z.abs B) by lia. apply (mul_eq_1_abs B (t - s)). lia.
      - assert (B = - A) by lia. subst B. apply (mul_eq_1_abs A (s - t)). lia.
      - assert (A = B) by lia. subst B. apply (mul_eq_1_abs A (s + t)). lia. }
    assert (s = 0) by lia. assert (t = 0) by lia. subst. lia. }
  unfold gmp_gcdext_spec. split; auto. split; auto.
  destruct (Z.abs a =? Z.abs b) eqn:Eab; [exfalso; nia|].
  split.
  - destruct ((b =? 0) || (Z.abs b =? 2 * g)) eqn:Eb.
    + assert (Z.abs B = 2) by nia. rewrite Hsa. auto.
    + assert (Z.abs B <> 2) by nia. specialize (C2 H). nia.
  - destruct ((a =? 0) || (Z.abs a =? 2 * g)) eqn:Ea.
    + assert (Z.abs A = 2) by nia. rewrite Hsb. auto.
    + assert (Z.abs A <> 2) by nia. specialize (D2 H). nia.
Qed.
