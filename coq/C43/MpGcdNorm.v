(* C43 -- the cofactors returned by mp_gcdext (extended Euclid with truncating division, signs fixed at the end)
   are exactly the cofactors documented for mpz_gcdext: |s| < |b|/(2g), |t| < |a|/(2g) with the manual's
   exceptional cases.  Since that specification determines (g, s, t) uniquely, the Boost backend's gcd_ext
   agrees with GMP's on every input. *)
From SE Require Import Base.Prelude C43.MpModel C43.MpSpec C43.MpLoop C43.MpGcd.
From Coq Require Import Lia ZifyBool Znumtheory.
Local Open Scope Z_scope.

(* ------------------------------------------------------------------ sign bookkeeping *)
Lemma sign_l1 : forall X Y q, X * Y <= 0 -> 0 <= q * Y -> (Y = 0 -> q = 0) -> X * q <= 0.
Proof.
  intros X Y q H1 H2 H3.
  destruct (Z.lt_trichotomy Y 0) as [HY|[HY|HY]].
  - assert (0 <= X) by nia. assert (q <= 0) by nia. nia.
  - rewrite (H3 HY). lia.
  - assert (X <= 0) by nia. assert (0 <= q) by nia. nia.
Qed.

Lemma sign_l2 : forall X Y q Z' W, X * Y <= 0 -> 0 <= q * Y -> 0 <= Z' -> 0 <= W * Y -> (Y = 0 -> W = 0) ->
  (X - q * Z') * W <= 0.
Proof.
  intros X Y q Z' W H1 H2 H3 H4 H5.
  destruct (Z.lt_trichotomy Y 0) as [HY|[HY|HY]].
  - assert (0 <= X) by nia. assert (q <= 0) by nia. assert (W <= 0) by nia.
    assert (0 <= X - q * Z') by nia. nia.
  - rewrite (H5 HY). lia.
  - assert (X <= 0) by nia. assert (0 <= q) by nia. assert (0 <= W) by nia.
    assert (X - q * Z' <= 0) by nia. nia.
Qed.

Lemma abs_sub_opp : forall x y, x * y <= 0 -> Z.abs (x - y) = Z.abs x + Z.abs y.
Proof. intros x y H. destruct (Z.abs_spec x), (Z.abs_spec y), (Z.abs_spec (x - y)); nia. Qed.

Lemma sgn_mul_abs : forall x, Z.sgn x * x = Z.abs x.
Proof. intros. destruct x; reflexivity. Qed.

(* facts about one truncating division *)
Lemma quot_rem_signs : forall u v, v <> 0 ->
  let q := Z.quot u v in let r := Z.rem u v in
  u = v * q + r /\ Z.abs r < Z.abs v /\ 0 <= r * u /\ 0 <= q * (u * v) /\
  Z.abs u = Z.abs q * Z.abs v + Z.abs r /\ 0 <= (v * r) * (u * v) /\ (u * v = 0 -> q = 0 /\ r = 0).
Proof.
  intros u v Hv q r. subst q r.
  assert (F1 := Z.quot_rem' u v). assert (F2 := Z.rem_bound_abs u v Hv).
  assert (F3 := Z.rem_sign_mul u v Hv).
  split; auto. split; auto. split; auto.
  assert (F4 : 0 <= Z.quot u v * (u * v)).
  { rewrite (Z.quot_div u v Hv).
    replace (Z.sgn u * Z.sgn v * (Z.abs u / Z.abs v) * (u * v))
      with ((Z.abs u / Z.abs v) * ((Z.sgn u * u) * (Z.sgn v * v))) by ring.
    rewrite !sgn_mul_abs. apply Z.mul_nonneg_nonneg; [apply Z.div_pos; lia|]. apply Z.mul_nonneg_nonneg; lia. }
  split; auto.
  assert (F7 : Z.abs u = Z.abs (Z.quot u v) * Z.abs v + Z.abs (Z.rem u v)).
  { assert (H := Z.quot_rem' (Z.abs u) (Z.abs v)).
    rewrite Z.quot_abs, Z.rem_abs in H by auto. lia. }
  split; auto. split.
  - replace (v * Z.rem u v * (u * v)) with ((v * v) * (Z.rem u v * u)) by ring.
    apply Z.mul_nonneg_nonneg; auto. apply Z.square_nonneg.
  - intros H0. assert (u = 0) by nia. subst u. rewrite Z.quot_0_l, Z.rem_0_l by auto. auto.
Qed.

Section Normalisation.
  Variables a b : Z.

  (* the classical invariants of the cofactor sequences, on absolute values *)
  Definition ninv (s : gst) : Prop :=
    Z.abs (g_tr s) * Z.abs (g_ns s) + Z.abs (g_nr s) * Z.abs (g_ts s) = Z.abs b /\
    Z.abs (g_tr s) * Z.abs (g_nt s) + Z.abs (g_nr s) * Z.abs (g_tt s) = Z.abs a /\
    g_ts s * g_ns s * (g_tr s * g_nr s) <= 0 /\
    g_tt s * g_nt s * (g_tr s * g_nr s) <= 0.

  Lemma ninv_init : (a <> 0 \/ b <> 0) -> ninv (gcdext_init a b).
  Proof.
    intros H. unfold ninv, gcdext_init; cbn [g_ts g_tt g_tr g_ns g_nt g_nr].
    destruct ((a =? 0) && (b =? 0)) eqn:E; [lia|]. repeat split; lia.
  Qed.

  Lemma ninv_step : forall s s', ninv s -> gcdext_step s = inl s' -> ninv s'.
  Proof.
    intros s s' (A1 & A2 & S1 & S2) H. apply gcdext_step_inl in H. destruct H as [Hnz ->].
    destruct (quot_rem_signs (g_tr s) (g_nr s) Hnz) as (F1 & F2 & F3 & F4 & F7 & F6 & F0).
    set (q := Z.quot (g_tr s) (g_nr s)) in *. set (r := Z.rem (g_tr s) (g_nr s)) in *.
    unfold ninv; cbn [g_ts g_tt g_tr g_ns g_nt g_nr].
    set (ts := g_ts s) in *. set (tt := g_tt s) in *. set (tr := g_tr s) in *.
    set (ns := g_ns s) in *. set (nt := g_nt s) in *. set (nr := g_nr s) in *.
    assert (Hs : ts * (q * ns) <= 0).
    { replace (ts * (q * ns)) with ((ts * ns) * q) by ring. apply (sign_l1 _ (tr * nr)); auto. intros Hz; apply F0; auto. }
    assert (Ht : tt * (q * nt) <= 0).
    { replace (tt * (q * nt)) with ((tt * nt) * q) by ring. apply (sign_l1 _ (tr * nr)); auto. intros Hz; apply F0; auto. }
    rewrite (abs_sub_opp ts (q * ns) Hs), (abs_sub_opp tt (q * nt) Ht), !Z.abs_mul.
    split; [rewrite <- A1, F7; ring|]. split; [rewrite <- A2, F7; ring|]. split.
    - replace (ns * (ts - q * ns) * (nr * r)) with ((ts * ns - q * (ns * ns)) * (nr * r)) by ring.
      apply (sign_l2 _ (tr * nr)); auto; [apply Z.square_nonneg|]. intros Hz. destruct (F0 Hz) as [_ ->]. ring.
    - replace (nt * (tt - q * nt) * (nr * r)) with ((tt * nt - q * (nt * nt)) * (nr * r)) by ring.
      apply (sign_l2 _ (tr * nr)); auto; [apply Z.square_nonneg|]. intros Hz. destruct (F0 Hz) as [_ ->]. ring.
  Qed.

  (* ---------------------------------------------------------------- history: what the exit state looks like *)
  Definition linv (s : gst) : Prop := ginv a b s /\ ninv s.
  Definition hist (s : gst) : Prop :=
    s = gcdext_init a b \/
    exists p, linv p /\ gcdext_step p = inl s /\ (p = gcdext_init a b \/ Z.abs (g_nr p) < Z.abs (g_tr p)).
  Definition hinv (s : gst) : Prop := linv s /\ hist s.

  Lemma hinv_init : (a <> 0 \/ b <> 0) -> hinv (gcdext_init a b).
  Proof. intros H. split; [split; [apply ginv_init | apply ninv_init; auto] | left; reflexivity]. Qed.

  Lemma hinv_step : forall s s', hinv s -> gcdext_step s = inl s' -> hinv s'.
  Proof.
    intros s s' [[G N] Hh] Hstep. split.
    - split; [eapply ginv_step; eauto | eapply ninv_step; eauto].
    - right. exists s. split; [split; auto|]. split; auto.
      destruct Hh as [->|(p & _ & Hp & _)]; [left; reflexivity|right].
      apply gcdext_step_inl in Hp. destruct Hp as [Hnz ->]. cbn [g_tr g_nr].
      apply Z.rem_bound_abs; auto.
  Qed.
End Normalisation.

(* ------------------------------------------------------------------ from the weak bounds to GMP's normalisation *)
Lemma mul_eq_1_abs : forall x y, x * y = 1 -> Z.abs x = 1.
Proof. intros x y H. destruct (Z.eq_mul_1 x y H); lia. Qed.

Lemma cofactor_core : forall A B s t, s * A + t * B = 1 -> 2 * Z.abs s <= Z.abs B -> 2 * Z.abs t <= Z.abs A ->
  (Z.abs B = 2 -> s = Z.sgn A) /\ (Z.abs B <> 2 -> 2 * Z.abs s < Z.abs B).
Proof.
  intros A B s t He Hs Ht. split.
  - intros HB.
    (* 2|t| < |A| : otherwise A = +-2t, t | 1, A and B both even *)
    assert (Hlt : 2 * Z.abs t < Z.abs A).
    { destruct (Z_lt_le_dec (2 * Z.abs t) (Z.abs A)) as [|Hge]; auto. exfalso.
      assert (HA : A = 2 * t \/ A = - (2 * t)) by lia.
      assert (Ht1 : Z.abs t = 1).
      { destruct HA as [HA|HA]; subst A.
        - apply (mul_eq_1_abs t (2 * s + B)). lia.
        - apply (mul_eq_1_abs t (- (2 * s) + B)). lia. }
      lia. }
    assert (Hs1 : s = 0 \/ s = 1 \/ s = -1) by lia.
    destruct Hs1 as [->|[->| ->]].
    + assert (Z.abs t = 1) by (apply (mul_eq_1_abs t B); lia). lia.
    + destruct (Z.abs_spec B), (Z.abs_spec A), (Z.abs_spec t); lia.
    + destruct (Z.abs_spec B), (Z.abs_spec A), (Z.abs_spec t); lia.
  - intros HB. destruct (Z_lt_le_dec (2 * Z.abs s) (Z.abs B)) as [|Hge]; auto. exfalso.
    assert (HBs : B = 2 * s \/ B = - (2 * s)) by lia.
    assert (Hs1 : Z.abs s = 1).
    { destruct HBs as [HBs|HBs]; subst B.
      - apply (mul_eq_1_abs s (A + 2 * t)). lia.
      - apply (mul_eq_1_abs s (A - 2 * t)). lia. }
    lia.
Qed.

Lemma cofactor_nondeg : forall A B s t, s * A + t * B = 1 -> 2 * Z.abs s <= Z.abs B -> 2 * Z.abs t <= Z.abs A ->
  A <> 0 /\ B <> 0 /\ Z.abs A <> Z.abs B.
Proof.
  intros A B s t He Hs Ht.
  assert (HA0 : A <> 0).
  { intros ->. assert (t = 0) by lia. subst. lia. }
  assert (HB0 : B <> 0).
  { intros ->. assert (s = 0) by lia. subst. lia. }
  split; auto. split; auto. intros Heq.
  assert (HA1 : Z.abs A = 1).
  { assert (HAB : A = B \/ A = - B) by lia. destruct HAB as [->| ->].
    - apply (mul_eq_1_abs B (s + t)). lia.
    - replace (Z.abs (- B)) with (Z.abs B) by lia. apply (mul_eq_1_abs B (t - s)). lia. }
  assert (s = 0) by lia. assert (t = 0) by lia. subst. lia.
Qed.

Lemma scale_abs : forall x X g, 0 < g -> x = X * g -> Z.abs x = Z.abs X * g /\ Z.sgn x = Z.sgn X.
Proof.
  intros x X g Hg ->. split.
  - rewrite Z.abs_mul, (Z.abs_eq g) by lia. reflexivity.
  - rewrite Z.sgn_mul, (Z.sgn_pos g) by lia. lia.
Qed.

Lemma weak_to_spec : forall a b g s t, g = Z.gcd a b -> 0 < g -> s * a + t * b = g ->
  2 * g * Z.abs s <= Z.abs b -> 2 * g * Z.abs t <= Z.abs a -> gmp_gcdext_spec a b g s t.
Proof.
  intros a b g s t Hg Hg0 Hbez Hs Ht.
  destruct (Z.gcd_divide_l a b) as [A HA]. destruct (Z.gcd_divide_r a b) as [B HB].
  rewrite <- Hg in HA, HB.
  destruct (scale_abs a A g Hg0 HA) as [Hab Hsa]. destruct (scale_abs b B g Hg0 HB) as [Hbb Hsb].
  assert (He : s * A + t * B = 1).
  { apply (Z.mul_reg_r _ _ g); [clear - Hg0; lia|]. rewrite <- Hbez at 2. rewrite HA, HB. ring. }
  assert (HsB : 2 * Z.abs s <= Z.abs B).
  { rewrite Hbb in Hs. apply (Z.mul_le_mono_pos_r _ _ g); [exact Hg0|]. clear - Hs. lia. }
  assert (HtA : 2 * Z.abs t <= Z.abs A).
  { rewrite Hab in Ht. apply (Z.mul_le_mono_pos_r _ _ g); [exact Hg0|]. clear - Ht. lia. }
  destruct (cofactor_core A B s t He HsB HtA) as [C1 C2].
  destruct (cofactor_core B A t s ltac:(clear - He; lia) HtA HsB) as [D1 D2].
  destruct (cofactor_nondeg A B s t He HsB HtA) as (HA0 & HB0 & Hne).
  unfold gmp_gcdext_spec. split; auto. split; auto.
  assert (Hgne : g <> 0) by (clear - Hg0; lia).
  assert (Eab : (Z.abs a =? Z.abs b) = false).
  { apply Z.eqb_neq. rewrite Hab, Hbb. intros H. apply Hne. apply (Z.mul_reg_r _ _ g); [exact Hgne | exact H]. }
  rewrite Eab.
  assert (Hb0 : (b =? 0) = false).
  { apply Z.eqb_neq. intros Hz. apply HB0. rewrite Hz in HB. clear - HB Hgne. symmetry in HB. apply Z.mul_eq_0 in HB. tauto. }
  assert (Ha0 : (a =? 0) = false).
  { apply Z.eqb_neq. intros Hz. apply HA0. rewrite Hz in HA. clear - HA Hgne. symmetry in HA. apply Z.mul_eq_0 in HA. tauto. }
  rewrite Hb0, Ha0. cbn [orb]. rewrite Hab, Hbb, Hsa, Hsb.
  split.
  - destruct (Z.abs B * g =? 2 * g) eqn:Eb.
    + apply Z.eqb_eq in Eb. apply C1. apply (Z.mul_reg_r _ _ g); [exact Hgne | exact Eb].
    + apply Z.eqb_neq in Eb. assert (HB2 : Z.abs B <> 2) by (intros E; apply Eb; rewrite E; reflexivity).
      specialize (C2 HB2). clear - C2 Hg0.
      replace (2 * g * Z.abs s) with ((2 * Z.abs s) * g) by ring. apply Z.mul_lt_mono_pos_r; auto.
  - destruct (Z.abs A * g =? 2 * g) eqn:Ea.
    + apply Z.eqb_eq in Ea. apply D1. apply (Z.mul_reg_r _ _ g); [exact Hgne | exact Ea].
    + apply Z.eqb_neq in Ea. assert (HA2 : Z.abs A <> 2) by (intros E; apply Ea; rewrite E; reflexivity).
      specialize (D2 HA2). clear - D2 Hg0.
      replace (2 * g * Z.abs t) with ((2 * Z.abs t) * g) by ring. apply Z.mul_lt_mono_pos_r; auto.
Qed.

(* ------------------------------------------------------------------ the theorem *)
Lemma spec_b_zero : forall a, a <> 0 -> gmp_gcdext_spec a 0 (Z.abs a) (Z.sgn a) 0.
Proof.
  intros a Ha. unfold gmp_gcdext_spec. rewrite Z.gcd_0_r. split; auto. split; [rewrite sgn_mul_abs; lia|].
  replace (Z.abs a =? Z.abs 0) with false by lia. cbn [Z.eqb orb].
  split; auto. replace ((a =? 0) || (Z.abs a =? 2 * Z.abs a)) with false by lia. lia.
Qed.

Lemma spec_b_divides : forall a b q, b <> 0 -> a = b * q -> gmp_gcdext_spec a b (Z.abs b) 0 (Z.sgn b).
Proof.
  intros a b q Hb Ha. unfold gmp_gcdext_spec.
  assert (Hg : Z.gcd a b = Z.abs b).
  { subst a. rewrite Z.gcd_comm. rewrite <- Z.gcd_abs_l. apply Z.divide_gcd_iff; [lia|].
    exists (q * Z.sgn b). rewrite <- Z.mul_assoc, (Z.mul_comm (Z.sgn b)), Z.abs_sgn. ring. }
  split; auto. split; [rewrite sgn_mul_abs; lia|].
  assert (Habs : Z.abs a = Z.abs q * Z.abs b) by (subst a; rewrite Z.abs_mul; ring).
  destruct (Z.abs a =? Z.abs b) eqn:E; [auto|].
  split.
  - replace ((b =? 0) || (Z.abs b =? 2 * Z.abs b)) with false by lia. lia.
  - destruct ((a =? 0) || (Z.abs a =? 2 * Z.abs b)) eqn:E2; auto.
    assert (Hq : 3 <= Z.abs q).
    { destruct (Z_le_gt_dec 3 (Z.abs q)); auto. exfalso.
      assert (Hc : Z.abs q = 0 \/ Z.abs q = 1 \/ Z.abs q = 2) by lia.
      destruct Hc as [Hc|[Hc|Hc]]; rewrite Hc in Habs; lia. }
    replace (Z.abs (Z.sgn b)) with 1 by (destruct b; cbn; lia). rewrite Habs. clear - Hq Hb. assert (0 < Z.abs b) by lia. nia.
Qed.

Lemma two_turn_bounds : forall tr nr ns ts nt tt q B A,
  Z.abs tr = Z.abs q * Z.abs nr -> Z.abs nr < Z.abs tr ->
  Z.abs tr * Z.abs ns + Z.abs nr * Z.abs ts = B -> Z.abs tr * Z.abs nt + Z.abs nr * Z.abs tt = A ->
  2 * Z.abs nr * Z.abs ns <= B /\ 2 * Z.abs nr * Z.abs nt <= A.
Proof.
  intros tr nr ns ts nt tt q B A F7 Hlt A1 A2.
  assert (H0 := Z.abs_nonneg nr). assert (H1 := Z.abs_nonneg ns). assert (H2 := Z.abs_nonneg ts).
  assert (H3 := Z.abs_nonneg nt). assert (H4 := Z.abs_nonneg tt). assert (H5 := Z.abs_nonneg q).
  set (Q := Z.abs q) in *. set (NR := Z.abs nr) in *. set (NS := Z.abs ns) in *. set (TS := Z.abs ts) in *.
  set (NT := Z.abs nt) in *. set (TT := Z.abs tt) in *. set (TR := Z.abs tr) in *.
  clearbody Q NR NS TS NT TT TR.
  assert (Hq2 : 2 <= Q).
  { destruct (Z_le_gt_dec 2 Q); auto. exfalso. assert (Hc : Q = 0 \/ Q = 1) by lia. destruct Hc; subst Q; lia. }
  assert (E1 : 0 <= (Q - 2) * (NR * NS)) by (apply Z.mul_nonneg_nonneg; [lia|apply Z.mul_nonneg_nonneg; lia]).
  assert (E2 : 0 <= (Q - 2) * (NR * NT)) by (apply Z.mul_nonneg_nonneg; [lia|apply Z.mul_nonneg_nonneg; lia]).
  assert (E3 : 0 <= NR * TS) by (apply Z.mul_nonneg_nonneg; lia).
  assert (E4 : 0 <= NR * TT) by (apply Z.mul_nonneg_nonneg; lia).
  subst TR B A. split; lia.
Qed.

Theorem gcdext_spec : forall a b, exists g s t,
  mp_gcdext a b = Ok (g, s, t) /\ gmp_gcdext_spec a b g s t.
Proof.
  intros a b.
  destruct (Z.eq_dec a 0) as [Ha|Ha]; [destruct (Z.eq_dec b 0) as [Hb|Hb]|].
  { subst. exists 0, 0, 0. split; [reflexivity|]. unfold gmp_gcdext_spec. cbn. auto. }
  all: assert (Hnz : a <> 0 \/ b <> 0) by lia.
  all: destruct (gcdext_loop_terminates a b) as [sf Hsf].
  all: destruct (run_loop_exit gcdext_step (hinv a b) (hinv_step a b) _ _ _ (hinv_init a b Hnz) Hsf) as [sf' [Hinv Hx]].
  all: apply gcdext_step_inr in Hx; destruct Hx as [<- Hz].
  all: destruct Hinv as [[[[L1 L2] G] N] Hh].
  all: rewrite Hz, Z.gcd_0_r in G.
  all: unfold mp_gcdext; rewrite Hsf; cbn [bind].
  all: assert (Hg0 : 0 < Z.gcd a b) by (assert (H := Z.gcd_nonneg a b); assert (H' := Z.gcd_eq_0 a b); lia).
  all: set (g := if g_tr sf <? 0 then g_tr sf * -1 else g_tr sf).
  all: set (s := if g_tr sf <? 0 then g_ts sf * -1 else g_ts sf).
  all: set (t := if g_tr sf <? 0 then g_tt sf * -1 else g_tt sf).
  all: assert (Hout : (if g_tr sf <? 0 then Ok (g_tr sf * -1, g_ts sf * -1, g_tt sf * -1) else Ok (g_tr sf, g_ts sf, g_tt sf)) = Ok (g, s, t))
         by (unfold g, s, t; destruct (g_tr sf <? 0); reflexivity).
  all: rewrite Hout; exists g, s, t; split; [reflexivity|].
  all: assert (Hg : g = Z.gcd a b) by (unfold g; destruct (g_tr sf <? 0) eqn:E; lia).
  all: assert (Hbez : s * a + t * b = g) by (unfold g, s, t; destruct (g_tr sf <? 0) eqn:E; lia).
  all: assert (Habs_s : Z.abs s = Z.abs (g_ts sf)) by (unfold s; destruct (g_tr sf <? 0); lia).
  all: assert (Habs_t : Z.abs t = Z.abs (g_tt sf)) by (unfold t; destruct (g_tr sf <? 0); lia).
  all: assert (Hgtr : g = Z.abs (g_tr sf)) by (unfold g; destruct (g_tr sf <? 0) eqn:E; lia).
  all: destruct Hh as [Hinit|(p & [[[P1 P2] PG] PN] & Hstep & Hpred)].
  (* the three shapes of the exit state are the same in both branches *)
  all: try (
    (* no turn at all: b = 0 *)
    assert (Hb0 : b = 0) by (rewrite Hinit in Hz; exact Hz);
    assert (Hs : s = Z.sgn a /\ t = 0 /\ g = Z.abs a)
      by (unfold g, s, t; rewrite Hinit; cbn [gcdext_init g_ts g_tt g_tr];
          replace ((a =? 0) && (b =? 0)) with false by lia; destruct (a <? 0) eqn:E; lia);
    destruct Hs as (-> & -> & ->); subst b; apply spec_b_zero; lia).
  all: apply gcdext_step_inl in Hstep; destruct Hstep as [Hpnz Hsfeq].
  all: assert (Hrem : Z.rem (g_tr p) (g_nr p) = 0) by (rewrite Hsfeq in Hz; exact Hz).
  all: destruct Hpred as [Hpi|Hlt].
  all: try (
    (* one turn: b divides a *)
    assert (Hb0 : b <> 0) by (rewrite Hpi in Hpnz; exact Hpnz);
    assert (Hdiv : a = b * Z.quot a b)
      by (assert (H := Z.quot_rem' a b); rewrite Hpi in Hrem; cbn [gcdext_init g_tr g_nr] in Hrem; lia);
    assert (Hs : s = 0 /\ t = Z.sgn b /\ g = Z.abs b)
      by (unfold g, s, t; rewrite Hsfeq, Hpi; cbn [gcdext_init g_ts g_tt g_tr g_ns g_nt g_nr];
          destruct (b <? 0) eqn:E; lia);
    destruct Hs as (-> & -> & ->); eapply spec_b_divides; eauto).
  (* at least two turns: the last quotient is at least 2 in absolute value *)
  all: destruct PN as (A1 & A2 & _ & _).
  all: destruct (quot_rem_signs (g_tr p) (g_nr p) Hpnz) as (_ & _ & _ & _ & F7 & _ & _).
  all: rewrite Hrem in F7; rewrite Z.add_0_r in F7.
  all: assert (Hts : g_ts sf = g_ns p) by (rewrite Hsfeq; reflexivity).
  all: assert (Htt : g_tt sf = g_nt p) by (rewrite Hsfeq; reflexivity).
  all: assert (Htr : g_tr sf = g_nr p) by (rewrite Hsfeq; reflexivity).
  all: destruct (two_turn_bounds _ _ _ _ _ _ _ _ _ F7 Hlt A1 A2) as [W1 W2].
  all: apply weak_to_spec; [exact Hg | rewrite Hg; exact Hg0 | exact Hbez | | ].
  all: rewrite Hgtr, ?Habs_s, ?Habs_t, Htr, ?Hts, ?Htt; assumption.
Qed.

(* ------------------------------------------------------------------ the documented normalisation is unique *)
Lemma small_multiple_zero : forall B d, (B | d) -> Z.abs d < Z.abs B -> d = 0.
Proof.
  intros B d [k Hk] Hlt. subst d. rewrite Z.abs_mul in Hlt.
  destruct (Z.eq_dec k 0) as [->|Hk0]; [ring|]. exfalso.
  assert (1 <= Z.abs k) by lia. assert (0 <= Z.abs B) by lia. nia.
Qed.

Lemma cofactor_unique_core : forall A B s t s' t', s * A + t * B = 1 -> s' * A + t' * B = 1 ->
  2 * Z.abs s < Z.abs B -> 2 * Z.abs s' < Z.abs B -> s = s'.
Proof.
  intros A B s t s' t' H1 H2 Hs Hs'.
  assert (Hrp : rel_prime B A).
  { apply bezout_rel_prime. apply (Bezout_intro B A 1 t s). lia. }
  assert (Hdiv : (B | (s - s') * A)).
  { exists (t' - t). lia. }
  rewrite Z.mul_comm in Hdiv. apply Gauss in Hdiv; [|exact Hrp].
  assert (s - s' = 0); [|lia]. apply (small_multiple_zero B); auto. lia.
Qed.

(* "these relations define s and t uniquely" (GMP manual): two triples that satisfy the documented specification
   of mpz_gcdext are equal -- so a backend whose gcd_ext satisfies it returns what GMP returns *)
Theorem gcdext_spec_unique : forall a b g s t g' s' t',
  gmp_gcdext_spec a b g s t -> gmp_gcdext_spec a b g' s' t' -> g = g' /\ s = s' /\ t = t'.
Proof.
  intros a b g s t g' s' t' (Hg & Hbez & Hn) (Hg' & Hbez' & Hn').
  rewrite <- Hg in Hg'. subst g'. split; [reflexivity|].
  destruct (Z.abs a =? Z.abs b) eqn:Eab.
  { destruct Hn as [-> ->], Hn' as [-> ->]. auto. }
  assert (Hg0 : 0 < g).
  { subst g. assert (H := Z.gcd_nonneg a b). assert (H' := Z.gcd_eq_0 a b).
    destruct (Z.eq_dec (Z.gcd a b) 0) as [E|E]; [|lia]. apply H' in E. destruct E; subst. discriminate. }
  destruct (Z.gcd_divide_l a b) as [A HA]. destruct (Z.gcd_divide_r a b) as [B HB].
  rewrite <- Hg in HA, HB.
  destruct (scale_abs a A g Hg0 HA) as [Hab Hsa]. destruct (scale_abs b B g Hg0 HB) as [Hbb Hsb].
  assert (Hgne : g <> 0) by (clear - Hg0; lia).
  assert (He : s * A + t * B = 1).
  { apply (Z.mul_reg_r _ _ g); [exact Hgne|]. rewrite <- Hbez at 2. rewrite HA, HB. ring. }
  assert (He' : s' * A + t' * B = 1).
  { apply (Z.mul_reg_r _ _ g); [exact Hgne|]. rewrite <- Hbez' at 2. rewrite HA, HB. ring. }
  destruct Hn as [Hs Ht], Hn' as [Hs' Ht'].
  assert (Hss : s = s').
  { destruct ((b =? 0) || (Z.abs b =? 2 * g)); [congruence|].
    rewrite Hbb in Hs, Hs'.
    apply (cofactor_unique_core A B s t s' t' He He').
    - apply (Z.mul_lt_mono_pos_r g); [exact Hg0|]. clear - Hs. lia.
    - apply (Z.mul_lt_mono_pos_r g); [exact Hg0|]. clear - Hs'. lia. }
  assert (Htt : t = t').
  { destruct ((a =? 0) || (Z.abs a =? 2 * g)); [congruence|].
    rewrite Hab in Ht, Ht'.
    apply (cofactor_unique_core B A t s t' s'); [clear - He; lia | clear - He'; lia | |].
    - apply (Z.mul_lt_mono_pos_r g); [exact Hg0|]. clear - Ht. lia.
    - apply (Z.mul_lt_mono_pos_r g); [exact Hg0|]. clear - Ht'. lia. }
  auto.
Qed.
