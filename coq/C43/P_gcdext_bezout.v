From SE Require Import Base.Prelude C43.MpModel C43.MpSpec C43.MpGcd.
From Coq Require Import Znumtheory.
Local Open Scope Z_scope.

Theorem C43_gcdext_bezout :
  forall a b, exists g s t, mp_gcdext a b = Ok (g, s, t) /\ g = Z.gcd a b /\ s * a + t * b = g.
Proof. exact gcdext_bezout. Qed.
Print Assumptions C43_gcdext_bezout.
