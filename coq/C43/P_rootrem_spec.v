From SE Require Import Base.Prelude C43.MpModel C43.MpSpec C43.MpRoot.
From Coq Require Import Znumtheory.
Local Open Scope Z_scope.

Theorem C43_rootrem_spec :
  forall i n, 1 <= n -> (0 <= i \/ Z.rem n 2 <> 0) ->
  exists r e, mp_rootrem i n = Ok (r, i - r ^ n) /\ trunc_root_spec i n r e.
Proof. exact rootrem_spec. Qed.
Print Assumptions C43_rootrem_spec.
