(* C43 -- floor / ceiling / truncating division, divisibility, lowest set bit *)
From SE Require Import Base.Prelude C43.MpModel C43.MpSpec.
From Coq Require Import Lia ZifyBool Znumtheory.
Local Open Scope Z_scope.
Ltac Zify.zify_post_hook ::= Z.to_euclidean_division_equations.

Lemma quot_rem_facts : forall a b, b <> 0 ->
  a = b * Z.quot a b + Z.rem a b /\ Z.abs (Z.rem a b) < Z.abs b /\
  (0 <= a -> 0 <= Z.rem a b) /\ (a <= 0 -> Z.rem a b <= 0).
Proof.
  intros a b Hb. split; [apply Z.quot_rem'|]. split; [apply Z.rem_bound_abs; auto|].
  assert (Hs := Z.rem_sign_nz a b Hb).
  split; intros Ha; destruct (Z.eq_dec (Z.rem a b) 0) as [E|E]; try lia; specialize (Hs E); lia.
Qed.

Lemma floor_unique : forall a b q r, b <> 0 -> a = b * q + r -> (0 <= r < b \/ b < r <= 0) ->
  q = a / b /\ r = a mod b.
Proof.
  intros a b q r Hb He Hr.
  assert (Hm : 0 <= a mod b < b \/ b < a mod b <= 0).
  { destruct (Z_lt_le_dec 0 b); [left; apply Z.mod_pos_bound; lia | right; apply Z.mod_neg_bound; lia]. }
  eapply (Z.div_mod_unique b); eauto. rewrite <- He. apply Z.div_mod; auto.
Qed.

Lemma mp_fdiv_qr_zero : forall a, mp_fdiv_qr a 0 = ErrExn EXN_STD.
Proof. reflexivity. Qed.

(* mp_fdiv_qr is Coq's floor division (= mpz_fdiv_qr) for every a and every b <> 0 *)
Theorem fdiv_qr_spec : forall a b, b <> 0 -> mp_fdiv_qr a b = Ok (a / b, a mod b).
Proof.
  intros a b Hb. unfold mp_fdiv_qr, bdivide_qr.
  destruct (b =? 0) eqn:E0; [lia|]. cbn [bind fst snd].
  destruct (quot_rem_facts a b Hb) as (H1 & H2 & H3 & H4).
  set (q0 := Z.quot a b) in *. set (r0 := Z.rem a b) in *. clearbody q0 r0.
  match goal with |- Ok (?q, ?r) = _ => destruct (floor_unique a b q r Hb) as [Hq Hr] end.
  - destruct (((a <? 0) && (0 <? b) || (0 <? a) && (b <? 0)) && negb (r0 =? 0)) eqn:E;
    destruct ((0 <? b) && (r0 <? 0) || (b <? 0) && (0 <? r0)) eqn:E'; try nia.
  - destruct ((0 <? b) && (r0 <? 0) || (b <? 0) && (0 <? r0)) eqn:E'; lia.
  - rewrite <- Hq, <- Hr. reflexivity.
Qed.

Theorem fdiv_qr_floor : forall a b q r, mp_fdiv_qr a b = Ok (q, r) -> floor_div_spec a b q r.
Proof.
  intros a b q r H. destruct (Z.eq_dec b 0) as [->|Hb]; [discriminate|].
  rewrite fdiv_qr_spec in H by auto. inversion H; subst. unfold floor_div_spec. nia.
Qed.

Theorem fdiv_q_spec : forall a b, b <> 0 -> mp_fdiv_q a b = Ok (a / b).
Proof. intros. unfold mp_fdiv_q. rewrite fdiv_qr_spec by auto. reflexivity. Qed.
Theorem fdiv_r_spec : forall a b, b <> 0 -> mp_fdiv_r a b = Ok (a mod b).
Proof. intros. unfold mp_fdiv_r. rewrite fdiv_qr_spec by auto. reflexivity. Qed.

(* mp_cdiv_qr is ceiling division (= mpz_cdiv_qr): q = -floor(-a / b), r = a - q*b *)
Theorem cdiv_qr_spec : forall a b, b <> 0 ->
  mp_cdiv_qr a b = Ok (- ((- a) / b), a + ((- a) / b) * b).
Proof.
  intros a b Hb. unfold mp_cdiv_qr, bdivide_qr.
  destruct (b =? 0) eqn:E0; [lia|]. cbn [bind fst snd].
  destruct (quot_rem_facts a b Hb) as (H1 & H2 & H3 & H4).
  set (q0 := Z.quot a b) in *. set (r0 := Z.rem a b) in *. clearbody q0 r0.
  match goal with |- Ok (?q, ?r) = _ => set (qq := q); set (rr := r) end.
  assert (He : - a = b * (- qq) + (- rr)).
  { subst qq rr.
    destruct (((a <? 0) && (b <? 0) || (0 <? a) && (0 <? b)) && negb (r0 =? 0)) eqn:E;
    destruct ((0 <? b) && (0 <? r0) || (b <? 0) && (r0 <? 0)) eqn:E'; try nia. }
  assert (Hr : 0 <= - rr < b \/ b < - rr <= 0).
  { subst rr. destruct ((0 <? b) && (0 <? r0) || (b <? 0) && (r0 <? 0)) eqn:E'; lia. }
  clearbody qq rr.
  destruct (floor_unique (- a) b (- qq) (- rr) Hb He Hr) as [Hq Hr'].
  rewrite <- Hq. f_equal. f_equal; clear - He; lia.
Qed.

Theorem cdiv_qr_ceiling : forall a b q r, mp_cdiv_qr a b = Ok (q, r) -> ceil_div_spec a b q r.
Proof.
  intros a b q r H. destruct (Z.eq_dec b 0) as [->|Hb]; [discriminate|].
  rewrite cdiv_qr_spec in H by auto. inversion H; subst. unfold ceil_div_spec. nia.
Qed.

(* the two specifications determine quotient and remainder *)
Lemma floor_div_spec_unique : forall a b q r q' r',
  floor_div_spec a b q r -> floor_div_spec a b q' r' -> q = q' /\ r = r'.
Proof.
  unfold floor_div_spec. intros a b q r q' r' [H1 H2] [H3 H4].
  assert (Hb : b <> 0) by lia.
  destruct (floor_unique a b q r Hb) as [-> ->]; [lia|auto|].
  destruct (floor_unique a b q' r' Hb) as [-> ->]; [lia|auto|]. auto.
Qed.
Lemma ceil_div_spec_unique : forall a b q r q' r',
  ceil_div_spec a b q r -> ceil_div_spec a b q' r' -> q = q' /\ r = r'.
Proof.
  unfold ceil_div_spec. intros a b q r q' r' [H1 H2] [H3 H4].
  assert (Hb : b <> 0) by lia.
  destruct (floor_unique (- a) b (- q) (- r) Hb) as [E1 E2]; [lia|lia|].
  destruct (floor_unique (- a) b (- q') (- r') Hb) as [E3 E4]; [lia|lia|]. lia.
Qed.

Theorem cdiv_q_spec : forall a b, b <> 0 -> mp_cdiv_q a b = Ok (- ((- a) / b)).
Proof. intros. unfold mp_cdiv_q. rewrite cdiv_qr_spec by auto. reflexivity. Qed.

Theorem tdiv_qr_spec : forall a b q r, mp_tdiv_qr a b = Ok (q, r) -> trunc_div_spec a b q r.
Proof.
  unfold mp_tdiv_qr, bdivide_qr, trunc_div_spec. intros a b q r H.
  destruct (b =? 0) eqn:E; [discriminate|]. inversion H; subst. nia.
Qed.

Theorem divisible_spec : forall a b, mp_divisible_p a b = true <-> (b | a).
Proof.
  intros. unfold mp_divisible_p. destruct (b =? 0) eqn:E.
  - assert (b = 0) by lia. subst. split; intros H.
    + assert (a = 0) by lia. subst. apply Z.divide_0_r.
    + destruct H as [k Hk]. lia.
  - split; intros H.
    + exists (Z.quot a b). nia.
    + destruct H as [k Hk]. subst. rewrite Z.rem_mul by lia. reflexivity.
Qed.

(* mp_scan1 = index of the lowest set bit (mpz_scan1(i, 0)), also for negative numbers *)
Lemma ctz_spec : forall p, (2 ^ Z.of_N (ctz p) | Zpos p) /\ ~ (2 ^ (Z.of_N (ctz p) + 1) | Zpos p).
Proof.
  induction p; cbn [ctz].
  - split; [apply Z.divide_1_l|]. cbn. intros [k Hk]. lia.
  - destruct IHp as [[k Hk] Hn]. rewrite N2Z.inj_succ.
    split.
    + exists k. rewrite Z.pow_succ_r by lia. lia.
    + intros [j Hj]. apply Hn. exists j.
      rewrite Z.pow_add_r in * by lia. rewrite Z.pow_succ_r in Hj by lia. lia.
  - split; [apply Z.divide_1_l|]. cbn. intros [k Hk]. lia.
Qed.

Theorem scan1_spec : forall i, i <> 0 -> lowest_bit_spec i (mp_scan1 i).
Proof.
  intros i Hi. unfold lowest_bit_spec. destruct i; [lia| |]; cbn [mp_scan1].
  - apply ctz_spec.
  - destruct (ctz_spec p) as [H1 H2]. split.
    + change (Z.neg p) with (- Z.pos p). apply Z.divide_opp_r; auto.
    + intros H. apply H2. change (Z.neg p) with (- Z.pos p) in H. apply Z.divide_opp_r in H.
      rewrite Z.opp_involutive in H. exact H.
Qed.
