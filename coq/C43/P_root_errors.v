From SE Require Import Base.Prelude C43.MpModel C43.MpSpec C43.MpRoot.
From Coq Require Import Znumtheory.
Local Open Scope Z_scope.

Theorem C43_root_errors :
  forall i n,
  (n = 0 -> mp_root i n = ErrExn EXN_STD) /\
  (1 < n -> i < 0 -> Z.rem n 2 = 0 -> mp_root i n = ErrExn EXN_STD).
Proof. exact root_errors. Qed.
Print Assumptions C43_root_errors.
