(* C43 -- functions that depend on the primality test: mp_probab_prime_p, mp_nextprime, mp_perfect_power_p.
   miller_rabin_test is the parameter [mr]; the hypothesis [mr_correct] says that it decides primality of
   non-negative numbers (the library's test errs with probability <= 4^-25 on a composite). *)
From SE Require Import Base.Prelude C43.MpModel C43.MpSpec C43.MpLoop C43.MpRoot.
From Coq Require Import Lia ZifyBool Znumtheory.
Local Open Scope Z_scope.
Ltac Zify.zify_post_hook ::= Z.div_mod_to_equations.

Lemma even_not_prime : forall q, 2 < q -> Z.rem q 2 = 0 -> ~ prime q.
Proof.
  intros q Hq He Hp. assert (Hd : (2 | q)).
  { exists (Z.quot q 2). assert (H := Z.quot_rem' q 2). lia. }
  apply (prime_divisors q Hp) in Hd. lia.
Qed.

Lemma prime_odd : forall q, prime q -> 2 < q -> Z.rem q 2 <> 0.
Proof. intros q Hp Hq He. exact (even_not_prime q Hq He Hp). Qed.

Lemma prime_factor_exists : forall k, 2 <= k -> exists q, prime q /\ (q | k).
Proof.
  intros k Hk. assert (H : forall n, 0 <= n -> forall k, 2 <= k <= n -> exists q, prime q /\ (q | k)).
  { intros n Hn. pattern n. apply natlike_ind; auto.
    - intros; lia.
    - intros m Hm IH j Hj. destruct (prime_dec j) as [Hp|Hnp].
      + exists j. split; auto. apply Z.divide_refl.
      + destruct (not_prime_divide j ltac:(lia) Hnp) as (d & Hd & Hdiv).
        destruct (IH d ltac:(lia)) as (q & Hq & Hqd). exists q. split; auto.
        eapply Z.divide_trans; eauto. }
  apply (H k); lia.
Qed.

Section WithMR.
  Variable mr : Z -> res bool.
  Hypothesis mr_correct : forall n, 0 <= n -> exists b, mr n = Ok b /\ (b = true <-> prime n).

  (* mp_probab_prime_p decides primality of |i| (like mpz_probab_prime_p, up to the value 1 / 2 of a positive answer) *)
  Theorem probab_prime_spec : forall i, exists b,
    mp_probab_prime_p mr i = Ok b /\ (b = true <-> prime (Z.abs i)).
  Proof.
    intros i. unfold mp_probab_prime_p.
    set (j := if i <? 0 then Z.abs i else i). assert (Hj : j = Z.abs i) by (unfold j; destruct (i <? 0) eqn:E; lia).
    clearbody j. subst j.
    destruct (Z.rem (Z.abs i) 2 =? 0) eqn:E.
    - exists (Z.abs i =? 2). split; [reflexivity|]. split.
      + intros H. assert (Z.abs i = 2) by lia. rewrite H0. exact prime_2.
      + intros Hp. destruct (Z_le_gt_dec (Z.abs i) 2) as [Hle|Hgt].
        * assert (H := prime_ge_2 _ Hp). lia.
        * exfalso. apply (even_not_prime (Z.abs i)); auto; lia.
    - apply mr_correct. lia.
  Qed.

  Definition np_inv (i c : Z) : Prop :=
    i < c /\ 2 <= c /\ c mod 2 = 1 /\ forall q, i < q < c -> ~ prime q.

  Lemma even_not_prime' : forall q, 2 < q -> q mod 2 = 0 -> ~ prime q.
  Proof. intros q Hq He. apply even_not_prime; auto. rewrite Z.rem_mod_nonneg by lia. exact He. Qed.

  Lemma np_inv_init : forall i, 2 <= i -> np_inv i (if Z.rem i 2 =? 0 then i + 1 else i + 2).
  Proof.
    intros i Hi. rewrite Z.rem_mod_nonneg by lia. unfold np_inv.
    destruct (i mod 2 =? 0) eqn:E2.
    - split; [lia|]. split; [lia|]. split; [lia|]. intros; lia.
    - split; [lia|]. split; [lia|]. split; [lia|].
      intros q Hq. assert (q = i + 1) by lia. subst q. apply even_not_prime'; lia.
  Qed.

  Lemma np_inv_step : forall i s s', np_inv i s -> nextprime_step mr s = inl s' -> np_inv i s'.
  Proof.
    intros i s s' (Hs1 & Hs2 & Hs3 & Hs4) Hstep. unfold nextprime_step in Hstep.
    destruct (probab_prime_spec s) as (b & Hb & Hbp). rewrite Hb in Hstep.
    destruct b; inversion Hstep; subst. rewrite Z.abs_eq in Hbp by lia.
    unfold np_inv. split; [lia|]. split; [lia|]. split; [lia|].
    intros q Hq. destruct (Z_lt_le_dec q s); [apply Hs4; lia|].
    destruct (Z.eq_dec q s) as [->|Hne]; [intros Hp; apply Hbp in Hp; discriminate|].
    assert (q = s + 1) by lia. subst q. apply even_not_prime'; lia.
  Qed.

  (* partial correctness of mp_nextprime: a returned value is the least prime above i (= mpz_nextprime).
     Termination within the model's fuel needs a prime below about 3i (Bertrand's postulate), not proved here. *)
  Theorem nextprime_partial : forall i p, mp_nextprime mr i = Ok p -> next_prime_spec i p.
  Proof.
    intros i p. unfold mp_nextprime, next_prime_spec. destruct (i <? 2) eqn:E.
    - intros H; inversion H; subst. split; [lia|]. split; [exact prime_2|].
      intros q Hq Hp. assert (H2 := prime_ge_2 _ Hp). lia.
    - assert (H0 := np_inv_init i ltac:(lia)).
      set (c0 := if Z.rem i 2 =? 0 then i + 1 else i + 2) in *.
      clearbody c0. intros H.
      destruct (run_loop (nextprime_step mr) (Z.to_pos (c0 + 2)) c0) as [rr| | |] eqn:Hl; cbn [bind] in H; try discriminate.
      subst rr.
      destruct (run_loop_exit (nextprime_step mr) (np_inv i) (np_inv_step i) _ _ _ H0 Hl) as [c [Hc Hexit]].
      destruct Hc as (Hc1 & Hc2 & Hc3 & Hc4). unfold nextprime_step in Hexit.
      destruct (probab_prime_spec c) as (b & Hb & Hbp). rewrite Hb in Hexit.
      destruct b; inversion Hexit; subst. rewrite Z.abs_eq in Hbp by lia.
      split; [lia|]. split; [apply Hbp; reflexivity|]. exact Hc4.
  Qed.


  (* termination of mp_nextprime within the model's fuel, given a prime in (i, 2i] (Bertrand's postulate provides one) *)
  Theorem nextprime_total_bertrand : forall i, (i < 2 \/ exists q, prime q /\ i < q <= 2 * i) ->
    exists p, mp_nextprime mr i = Ok p.
  Proof.
    intros i H. unfold mp_nextprime. destruct (i <? 2) eqn:E; [eexists; reflexivity|].
    destruct H as [H|(q & Hq & Hr)]; [lia|].
    assert (H0 := np_inv_init i ltac:(lia)).
    set (c0 := if Z.rem i 2 =? 0 then i + 1 else i + 2) in *.
    assert (Hc0 : i < c0 <= i + 2) by (unfold c0; destruct (Z.rem i 2 =? 0); lia).
    clearbody c0.
    assert (Hqodd : q mod 2 = 1).
    { assert (H2 := prime_ge_2 _ Hq). destruct (Z.eq_dec (q mod 2) 0) as [E0|E0]; [|lia].
      exfalso. apply (even_not_prime' q); auto; lia. }
    pose (Inv := fun c => np_inv i c /\ c <= q).
    assert (Hinit : Inv c0).
    { split; auto. destruct H0 as (_ & _ & Hodd & Hnone).
      destruct (Z_le_gt_dec c0 q); auto. exfalso. apply (Hnone q); auto; lia. }
    destruct (run_loop_terminates (nextprime_step mr) Inv (fun c => Z.to_nat (q - c))) with (fuel := Z.to_pos (c0 + 2)) (s := c0)
      as [res Hres]; auto.
    { intros s s' [Hs Hle] Hstep. assert (Hs' := np_inv_step i s s' Hs Hstep).
      unfold nextprime_step in Hstep. destruct (probab_prime_spec s) as (b & Hb & Hbp). rewrite Hb in Hstep.
      destruct Hs as (Hs1 & Hs2 & Hs3 & Hs4). rewrite Z.abs_eq in Hbp by lia.
      destruct b; inversion Hstep; subst.
      assert (s <> q) by (intros ->; destruct Hbp as [_ Hp]; specialize (Hp Hq); discriminate).
      split; [split; auto; lia | lia]. }
    { lia. }
    rewrite Hres. cbn [bind].
    destruct (run_loop_exit (nextprime_step mr) Inv) with (fuel := Z.to_pos (c0 + 2)) (s := c0) (r := res)
      as [c [[Hc _] Hexit]]; auto.
    { intros s s' [Hs Hle] Hstep. split; [eapply np_inv_step; eauto|].
      unfold nextprime_step in Hstep. destruct (probab_prime_spec s) as (b & Hb & Hbp). rewrite Hb in Hstep.
      destruct Hs as (Hs1 & Hs2 & Hs3 & Hs4). rewrite Z.abs_eq in Hbp by lia.
      destruct b; inversion Hstep; subst.
      assert (s <> q) by (intros ->; destruct Hbp as [_ Hp]; specialize (Hp Hq); discriminate). lia. }
    unfold nextprime_step in Hexit. destruct (probab_prime_spec c) as (b & Hb & Hbp). rewrite Hb in Hexit.
    destruct b; inversion Hexit; subst. eexists; reflexivity.
  Qed.

  (* ---------------------------------------------------------------- perfect powers *)
  Lemma ilogb_double_ge : forall i, Z.log2 (Z.abs i) <= 2147483647 -> Z.log2 (Z.abs i) <= ilogb_double i.
  Proof.
    intros i Hbig. unfold ilogb_double.
    destruct (1024 <=? Z.log2 (Z.abs i)) eqn:E1; [lia|].
    destruct ((53 <=? Z.log2 (Z.abs i)) && (2 ^ (Z.log2 (Z.abs i) + 1) - 2 ^ (Z.log2 (Z.abs i) - 53) <=? Z.abs i)) eqn:E2.
    - destruct (Z.log2 (Z.abs i) + 1 =? 1024); lia.
    - lia.
  Qed.

  (* for an odd index the exactness flag of the truncated root says whether i is an n-th power *)
  Lemma root_exact_iff : forall i n r e, 3 <= n -> Z.rem n 2 <> 0 -> trunc_root_spec i n r e ->
    (e = true <-> exists a, a ^ n = i).
  Proof.
    intros i n r e Hn Hodd (Hpos & Hneg & Hex). rewrite Hex. split; [intros H; exists r; exact H|].
    intros [a Ha].
    assert (Hsign : forall x, x < 0 -> x ^ n < 0).
    { intros x Hx. replace x with (- (- x)) by lia. rewrite pow_opp_odd by (auto; lia).
      assert (0 < (- x) ^ n) by (apply Z.pow_pos_nonneg; lia). lia. }
    destruct (Z_lt_le_dec i 0) as [Hi|Hi].
    - destruct (Hneg Hi) as [Hr [H1 H2]].
      assert (Ha0 : a < 0). { destruct (Z_lt_le_dec a 0); auto. assert (0 <= a ^ n) by (apply Z.pow_nonneg; lia). lia. }
      assert (Hna : (- a) ^ n = - i) by (rewrite pow_opp_odd by (auto; lia); lia).
      rewrite <- Hna in H1, H2.
      apply Z.pow_lt_mono_l_iff in H2; try lia.
      assert (H3 : - r <= - a).
      { destruct (Z_le_gt_dec (- r) (- a)); auto. exfalso.
        assert ((- a) ^ n < (- r) ^ n) by (apply Z.pow_lt_mono_l; lia). lia. }
      assert (r = a) by lia. subst. reflexivity.
    - destruct (Hpos Hi) as [Hr [H1 H2]].
      assert (Ha0 : 0 <= a). { destruct (Z_lt_le_dec a 0) as [Hl|]; auto. specialize (Hsign a Hl). lia. }
      rewrite <- Ha in H1, H2.
      apply Z.pow_lt_mono_l_iff in H2; try lia.
      assert (H3 : r <= a).
      { destruct (Z_le_gt_dec r a); auto. exfalso.
        assert (a ^ n < r ^ n) by (apply Z.pow_lt_mono_l; lia). lia. }
      assert (r = a) by lia. subst. reflexivity.
  Qed.

  (* a perfect power is a q-th power for a prime q <= log2 |i| *)
  Lemma power_prime_exponent : forall i a k, 2 <= k -> a ^ k = i -> 2 <= Z.abs i ->
    exists q c, prime q /\ c ^ q = i /\ q <= Z.log2 (Z.abs i).
  Proof.
    intros i a k Hk Ha Hi.
    destruct (prime_factor_exists k Hk) as (q & Hq & [c Hc]).
    assert (Hq2 := prime_ge_2 _ Hq). assert (Hc0 : 0 < c) by nia.
    exists q, (a ^ c). split; auto. split.
    - rewrite <- Z.pow_mul_r by lia. rewrite <- Hc. exact Ha.
    - apply Z.log2_le_pow2; [lia|].
      assert (Hb : i = (a ^ c) ^ q) by (rewrite <- Z.pow_mul_r by lia; rewrite <- Hc; auto).
      rewrite Hb, Z.abs_pow.
      assert (Hb2 : 2 <= Z.abs (a ^ c)).
      { destruct (Z_le_gt_dec 2 (Z.abs (a ^ c))); auto. exfalso.
        assert (Hle : Z.abs (a ^ c) ^ q <= 1 ^ q) by (apply Z.pow_le_mono_l; lia).
        rewrite Z.pow_1_l in Hle by lia. rewrite <- Z.abs_pow, <- Hb in Hle. lia. }
      apply Z.pow_le_mono_l. lia.
  Qed.

  Definition pp_inv (i p : Z) : Prop :=
    2 <= p /\ forall q, prime q -> q <= p -> ~ exists a, a ^ q = i.

  Lemma pp_step_cases : forall i mx p out, pp_inv i p -> pp_step mr i mx p = out ->
    match out with
    | inl p' => pp_inv i p'
    | inr (Ok true) => exists q a, 2 <= q /\ a ^ q = i
    | inr (Ok false) => exists p', p < p' /\ mx < p' /\ (forall q, p < q < p' -> ~ prime q)
    | inr _ => True
    end.
  Proof.
    intros i mx p out [Hp Hinv] Hstep. unfold pp_step in Hstep.
    destruct (mp_nextprime mr p) as [p'| | |] eqn:Hnp; try (subst out; exact I).
    apply nextprime_partial in Hnp. destruct Hnp as (Hlt & Hprime & Hnone).
    destruct (mx <? p') eqn:Emx.
    - subst out. exists p'. repeat split; auto; lia.
    - assert (Hodd : Z.rem p' 2 <> 0) by (apply prime_odd; auto; lia).
      destruct (root_spec i p' ltac:(lia) ltac:(right; exact Hodd)) as (r & e & Hr & Hspec).
      rewrite Hr in Hstep. assert (Hiff := root_exact_iff i p' r e ltac:(lia) Hodd Hspec).
      destruct e; subst out.
      + destruct Hiff as [H1 _]. destruct (H1 eq_refl) as [a Ha]. exists p', a. split; [lia|exact Ha].
      + split; [lia|]. intros q Hq Hle Hex.
        destruct (Z_le_gt_dec q p) as [Hqp|Hqp]; [exact (Hinv q Hq Hqp Hex)|].
        destruct (Z.eq_dec q p') as [->|Hne].
        * destruct Hiff as [_ H2]. specialize (H2 Hex). discriminate.
        * apply (Hnone q); auto; lia.
  Qed.

  (* partial correctness of mp_perfect_power_p (= mpz_perfect_power_p), for |i| < 2^(2^31) (the prime bound is an int) *)
  Theorem perfect_power_partial : forall i b, Z.log2 (Z.abs i) <= 2147483647 ->
    mp_perfect_power_p mr i = Ok b -> (b = true <-> perfect_power i).
  Proof.
    intros i b Hbig. unfold mp_perfect_power_p, perfect_power.
    destruct ((i =? 0) || (i =? 1) || (i =? -1)) eqn:E0.
    - intros H; inversion H; subst. split; auto. intros _.
      destruct (Z.eq_dec i 0) as [->|]; [exists 0, 2; split; [lia|reflexivity]|].
      destruct (Z.eq_dec i 1) as [->|]; [exists 1, 2; split; [lia|reflexivity]|].
      assert (i = -1) by lia. subst. exists (-1), 3. split; [lia|reflexivity].
    - destruct (perfect_square_spec i) as (sq & Hsq & Hsqiff). rewrite Hsq. cbn [bind].
      destruct sq.
      + intros H; inversion H; subst. split; auto. intros _.
        destruct Hsqiff as [H1 _]. destruct (H1 eq_refl) as [a Ha]. exists a, 2. split; [lia|]. rewrite Z.pow_2_r. exact Ha.
      + set (mx := ilogb_double i).
        destruct (run_loop (pp_step mr i mx) (Z.to_pos (mx + 2)) 2) as [rr| | |] eqn:Hl; cbn [bind]; try discriminate.
        intros ->.
        assert (H0 : pp_inv i 2).
        { split; [lia|]. intros q Hq Hle [a Ha]. assert (H2 := prime_ge_2 _ Hq). assert (q = 2) by lia. subst q.
          destruct Hsqiff as [_ H3]. assert (false = true); [|discriminate]. apply H3. exists a. rewrite <- Z.pow_2_r. exact Ha. }
        destruct (run_loop_exit (pp_step mr i mx) (pp_inv i)) with (fuel := Z.to_pos (mx + 2)) (s := 2) (r := @Ok bool b)
          as [p [Hp Hexit]]; auto.
        { intros s s' Hs Hstep. exact (pp_step_cases i mx s (inl s') Hs Hstep). }
        assert (Hc := pp_step_cases i mx p _ Hp Hexit). cbn in Hc.
        destruct b.
        * split; auto. intros _. destruct Hc as (q & a & Hq & Ha). exists a, q. auto.
        * split; [discriminate|]. intros (a & k & Hk & Ha). exfalso.
          destruct Hc as (p' & Hlt & Hmx & Hnone). destruct Hp as [Hp2 Hinv].
          destruct (power_prime_exponent i a k Hk Ha ltac:(lia)) as (q & c & Hq & Hc & Hlog).
          assert (Hge := ilogb_double_ge i Hbig). fold mx in Hge.
          destruct (Z_le_gt_dec q p) as [Hqp|Hqp].
          -- apply (Hinv q Hq Hqp). exists c. exact Hc.
          -- apply (Hnone q); auto. lia.
  Qed.
End WithMR.
