From SE Require Import Base.Prelude C43.MpModel C43.MpSpec C43.MpJacobi.
From Coq Require Import Znumtheory.
Local Open Scope Z_scope.

Theorem C43_jacobi_total :
  forall a n, 0 < n -> Z.rem n 2 <> 0 -> exists r, mp_jacobi a n = Ok r /\ -1 <= r <= 1.
Proof. exact jacobi_total. Qed.
Print Assumptions C43_jacobi_total.
