From SE Require Import Base.Prelude C43.MpModel C43.MpSpec C43.MpFib.
From Coq Require Import Znumtheory.
Local Open Scope Z_scope.

Theorem C43_fib2_spec :
  forall n, mp_fib2_ui n = (fibn (N.to_nat n), fibp (N.to_nat n)).
Proof. exact fib2_spec. Qed.
Print Assumptions C43_fib2_spec.
