From SE Require Import Base.Prelude C43.MpModel C43.MpSpec C43.MpFib.
From Coq Require Import Znumtheory.
Local Open Scope Z_scope.

Theorem C43_lucnum_spec :
  forall n, mp_lucnum_ui n = lucn (N.to_nat n).
Proof. exact lucnum_spec. Qed.
Print Assumptions C43_lucnum_spec.
