(* C43 -- executable model of the functions that the Boost.Multiprecision backend of SymEngine
   reimplements on top of cpp_int (symengine/mp_boost.cpp, the BOOSTMP section of mp_class.h).
   Transcribed branch by branch.  Conventions (DESIGN.md appendix B):
   - cpp_int is Z; its primitives have their documented meaning:
       divide_qr / operator/ / operator%   = truncating division (Z.quot, Z.rem), throw on a zero divisor
       boost::multiprecision::pow          = Z.pow,   gcd / lcm / abs = Z.gcd / Z.lcm / Z.abs
       boost::multiprecision::powm         = the square-and-multiply loop of detail/integer_ops.hpp (bpowm)
   - every loop is fuelled (iterP: a lazily consumed binary fuel), ErrFuel is observable
   - a C++ exception is ErrExn: EXN_STD (7) for std::runtime_error / std::overflow_error,
     EXN_SYMENGINE (6) for SymEngineException
   - miller_rabin_test is a parameter [mr] of the model (the theorems assume that it decides primality
     of non-negative numbers; the extracted model instantiates it with a deterministic Miller-Rabin). *)
From SE Require Import Base.Prelude.
Local Open Scope Z_scope.
Local Open Scope res_scope.

(* ------------------------------------------------------------------ fuelled loops *)
Section Loop.
  Context {S R : Type} (step : S -> S + R).
  (* runs [step] at most [Pos.to_nat p] times; stops at the first [inr] *)
  Fixpoint iterP (p : positive) (s : S) : S + R :=
    match p with
    | xH => step s
    | xO p' => match iterP p' s with inl s' => iterP p' s' | inr r => inr r end
    | xI p' => match iterP p' s with
               | inl s' => match iterP p' s' with inl s'' => step s'' | inr r => inr r end
               | inr r => inr r
               end
    end.
  Definition run_loop (fuel : positive) (s : S) : res R :=
    match iterP fuel s with inr r => Ok r | inl _ => ErrFuel end.
End Loop.

(* ------------------------------------------------------------------ cpp_int primitives *)
(* boost::multiprecision::pow: exponentiation by squaring (equal to Z.pow: MpSpec.zpow_spec) *)
Fixpoint zpow_pos (a : Z) (p : positive) : Z :=
  match p with
  | xH => a
  | xO p' => let h := zpow_pos a p' in h * h
  | xI p' => let h := zpow_pos a p' in h * h * a
  end.
Definition zpow (a n : Z) : Z :=
  match n with Z0 => 1 | Zpos p => zpow_pos a p | Zneg _ => 0 end.
Definition bquot (a b : Z) : res Z := if b =? 0 then ErrExn EXN_STD else Ok (Z.quot a b).
Definition brem (a b : Z) : res Z := if b =? 0 then ErrExn EXN_STD else Ok (Z.rem a b).
Definition bdivide_qr (a b : Z) : res (Z * Z) :=
  if b =? 0 then ErrExn EXN_STD else Ok (Z.quot a b, Z.rem a b).

(* boost::multiprecision::powm(a, p, c) for p >= 0 (eval_powm): x = 1, y = a;
   while p > 0: if p odd: x = x*y % c;  y = y*y % c;  p >>= 1;   result = x % c   (truncating %) *)
Fixpoint bpowm_pos (x y : Z) (p : positive) (c : Z) : Z :=
  match p with
  | xH => Z.rem (x * y) c
  | xO p' => bpowm_pos x (Z.rem (y * y) c) p' c
  | xI p' => bpowm_pos (Z.rem (x * y) c) (Z.rem (y * y) c) p' c
  end.
Definition bpowm (a p c : Z) : res Z :=
  if c =? 0 then ErrExn EXN_STD else
  match p with
  | Z0 => Ok (Z.rem 1 c)
  | Zpos p' => Ok (Z.rem (bpowm_pos 1 a p' c) c)
  | Zneg _ => ErrExn EXN_STD
  end.

(* ------------------------------------------------------------------ floor / ceiling division *)
Definition mp_fdiv_qr (a b : Z) : res (Z * Z) :=
  let neg_quotient := ((a <? 0) && (0 <? b)) || ((0 <? a) && (b <? 0)) in
  do qr <- bdivide_qr a b;
  let q := fst qr in let r := snd qr in
  let q := if neg_quotient && negb (r =? 0) then q - 1 else q in
  let r := if ((0 <? b) && (r <? 0)) || ((b <? 0) && (0 <? r)) then r + b else r in
  Ok (q, r).
Definition mp_fdiv_q (a b : Z) : res Z := do qr <- mp_fdiv_qr a b; Ok (fst qr).
Definition mp_fdiv_r (a b : Z) : res Z := do qr <- mp_fdiv_qr a b; Ok (snd qr).

Definition mp_cdiv_qr (a b : Z) : res (Z * Z) :=
  let pos_quotient := ((a <? 0) && (b <? 0)) || ((0 <? a) && (0 <? b)) in
  do qr <- bdivide_qr a b;
  let q := fst qr in let r := snd qr in
  let q := if pos_quotient && negb (r =? 0) then q + 1 else q in
  let r := if ((0 <? b) && (0 <? r)) || ((b <? 0) && (r <? 0)) then r - b else r in
  Ok (q, r).
Definition mp_cdiv_q (a b : Z) : res Z := do qr <- mp_cdiv_qr a b; Ok (fst qr).

Definition mp_tdiv_qr (a b : Z) : res (Z * Z) := bdivide_qr a b.

Definition mp_divisible_p (a b : Z) : bool :=
  if b =? 0 then a =? 0 else Z.rem a b =? 0.

(* ------------------------------------------------------------------ extended Euclid *)
Record gst := { g_ts : Z; g_tt : Z; g_tr : Z; g_ns : Z; g_nt : Z; g_nr : Z }.

(* one turn of `while (next_r != 0)`: divide_qr(this_r, next_r, q, this_r); this_s -= q*next_s;
   this_t -= q*next_t; three swaps *)
Definition gcdext_step (s : gst) : gst + gst :=
  if g_nr s =? 0 then inr s
  else
    let q := Z.quot (g_tr s) (g_nr s) in
    let r := Z.rem (g_tr s) (g_nr s) in
    inl {| g_ts := g_ns s; g_tt := g_nt s; g_tr := g_nr s;
           g_ns := g_ts s - q * g_ns s; g_nt := g_tt s - q * g_nt s; g_nr := r |}.

(* this_s starts at 0 when a = b = 0 (gcd(0,0) = 0 with both cofactors 0, as mpz_gcdext) *)
Definition gcdext_init (a b : Z) : gst :=
  {| g_ts := (if (a =? 0) && (b =? 0) then 0 else 1); g_tt := 0; g_tr := a; g_ns := 0; g_nt := 1; g_nr := b |}.

Definition gcdext_fuel (b : Z) : positive := Z.to_pos (Z.abs b + 2).

(* result (gcd, s, t) *)
Definition mp_gcdext (a b : Z) : res (Z * Z * Z) :=
  do s <- run_loop gcdext_step (gcdext_fuel b) (gcdext_init a b);
  if g_tr s <? 0 then Ok (g_tr s * -1, g_ts s * -1, g_tt s * -1)
  else Ok (g_tr s, g_ts s, g_tt s).

(* returns None for `false` (res = 0), Some inverse for `true` *)
Definition mp_invert (a m : Z) : res (option Z) :=
  do gst <- mp_gcdext a m;
  let g := fst (fst gst) in let s := snd (fst gst) in
  if negb (g =? 1) then Ok None
  else
    do s1 <- mp_fdiv_r s m;
    let s2 := if s1 <? 0 then s1 + Z.abs m else s1 in
    Ok (Some s2).

(* floored modulus helper of mp_boost.cpp *)
Definition bfmod (a m : Z) : res Z :=
  do r <- brem a m;
  Ok (if r <? 0 then r + m else r).

Definition mp_powm (base exp m : Z) : res Z :=
  if exp <? 0 then
    do inv <- mp_invert base m;
    match inv with
    | None => ErrExn EXN_SYMENGINE
    | Some bi => bpowm bi (Z.abs exp) m
    end
  else
    do r <- bpowm base exp m;
    Ok (if r <? 0 then r + Z.abs m else r).

(* ------------------------------------------------------------------ integer roots (Newton) *)
(* step(n, i, x) = ((n-1)*x + i / x^(n-1)) / n *)
Definition root_step (n i x : Z) : res Z :=
  let m := n - 1 in
  let x_m := zpow x m in
  do d <- bquot i x_m;
  bquot (m * x + d) n.

(* do { x = y; y = step(n,i,x); } while (y < x);   state = y, result = x *)
Definition root_loop_step (n i : Z) (y : Z) : Z + res Z :=
  let x := y in
  match root_step n i x with
  | Ok y' => if y' <? x then inl y' else inr (Ok x)
  | e => inr e
  end.

(* (root, exact) *)
Definition positive_root (i n : Z) : res (Z * bool) :=
  do y0 <- root_step n i 1;
  do rx <- run_loop (root_loop_step n i) (Z.to_pos (Z.abs y0 + 2)) y0;
  do x <- rx;
  Ok (x, zpow x n =? i).

Definition mp_root (i n : Z) : res (Z * bool) :=
  if n =? 0 then ErrExn EXN_STD
  else if n =? 1 then Ok (i, true)
  else if i =? 0 then Ok (0, true)
  else if 0 <? i then positive_root i n
  else if (i <? 0) && (Z.rem n 2 =? 0) then ErrExn EXN_STD
  else
    do rb <- positive_root (- i) n;
    Ok (fst rb * -1, snd rb).

Definition mp_sqrt (i : Z) : res Z := do rb <- mp_root i 2; Ok (fst rb).
Definition mp_rootrem (i n : Z) : res (Z * Z) :=
  do rb <- mp_root i n; let a := fst rb in Ok (a, i - zpow a n).
Definition mp_sqrtrem (i : Z) : res (Z * Z) :=
  do a <- mp_sqrt i; Ok (a, i - zpow a 2).
Definition mp_perfect_square_p (i : Z) : res bool :=
  if i <? 0 then Ok false else do rb <- mp_root i 2; Ok (snd rb).

(* ------------------------------------------------------------------ lowest set bit *)
Fixpoint ctz (p : positive) : N :=
  match p with xO p' => N.succ (ctz p') | _ => 0%N end.
Definition ULONG_MAX : N := 18446744073709551615%N.
Definition mp_scan1 (i : Z) : N :=
  match i with Z0 => ULONG_MAX | Zpos p => ctz p | Zneg p => ctz p end.

(* ------------------------------------------------------------------ Fibonacci / Lucas by matrix powers *)
Record mat := { m00 : Z; m01 : Z; m10 : Z; m11 : Z }.
Definition mmul (a b : mat) : mat :=
  {| m00 := m00 a * m00 b + m01 a * m10 b; m01 := m00 a * m01 b + m01 a * m11 b;
     m10 := m10 a * m00 b + m11 a * m10 b; m11 := m10 a * m01 b + m11 a * m11 b |}.
Definition mid : mat := {| m00 := 1; m01 := 0; m10 := 0; m11 := 1 |}.
(* two_by_two_matrix::pow: n = 1: this; n = 2: this*this; even: pow(n/2).pow(2); odd: pow((n-1)/2).pow(2) * this *)
Fixpoint mpow_pos (a : mat) (p : positive) : mat :=
  match p with
  | xH => a
  | xO p' => let h := mpow_pos a p' in mmul h h
  | xI p' => let h := mpow_pos a p' in mmul (mmul h h) a
  end.
Definition mpow (a : mat) (n : N) : mat :=
  match n with N0 => mid | Npos p => mpow_pos a p end.
Definition fib_matrix (n : N) : mat := mpow {| m00 := 1; m01 := 1; m10 := 1; m11 := 0 |} n.
Definition luc_matrix (n : N) : mat :=
  mmul (mpow {| m00 := 1; m01 := 1; m10 := 1; m11 := 0 |} n) {| m00 := 1; m01 := 0; m10 := 2; m11 := 0 |}.
Definition mp_fib_ui (n : N) : Z := m01 (fib_matrix n).
Definition mp_fib2_ui (n : N) : Z * Z := let r := fib_matrix n in (m01 r, m11 r).
Definition mp_lucnum_ui (n : N) : Z := m10 (luc_matrix n).
Definition mp_lucnum2_ui (n : N) : Z * Z :=
  if (n =? 0)%N then (2, -1)
  else let r := luc_matrix (n - 1) in (m00 r, m10 r).

(* ------------------------------------------------------------------ factorial, binomial *)
(* res = 1; for (i = 2; i <= n; ++i) res *= i; *)
Fixpoint fac_loop (cnt : nat) (i acc : Z) : Z :=
  match cnt with O => acc | S c => fac_loop c (i + 1) (acc * i) end.
Definition mp_fac_ui (n : N) : Z := fac_loop (N.to_nat (n - 1)) 2 1.

(* x = n - r; res = 1; for (i = 1; i <= r; ++i) { res *= x + i; res /= i; } *)
Fixpoint bin_loop (cnt : nat) (x i acc : Z) : Z :=
  match cnt with O => acc | S c => bin_loop c x (i + 1) (Z.quot (acc * (x + i)) i) end.
Definition mp_bin_ui (n : Z) (r : N) : Z := bin_loop (N.to_nat r) (n - Z.of_N r) 1 1.

(* ------------------------------------------------------------------ primality-dependent functions *)
Section WithPrimeTest.
  (* miller_rabin_test(i, 25) *)
  Variable mr : Z -> res bool.

  (* if (i < 0) return mp_probab_prime_p(mp_abs(i), retries); *)
  Definition mp_probab_prime_p (i : Z) : res bool :=
    let i := if i <? 0 then Z.abs i else i in
    if Z.rem i 2 =? 0 then Ok (i =? 2) else mr i.

  (* while (!probab_prime(candidate)) candidate += 2; *)
  Definition nextprime_step (c : Z) : Z + res Z :=
    match mp_probab_prime_p c with
    | Ok true => inr (Ok c)
    | Ok false => inl (c + 2)
    | ErrOOB a b => inr (ErrOOB a b) | ErrFuel => inr ErrFuel | ErrExn k => inr (ErrExn k)
    end.
  Definition mp_nextprime (i : Z) : res Z :=
    if i <? 2 then Ok 2
    else
      let candidate := if Z.rem i 2 =? 0 then i + 1 else i + 2 in
      do r <- run_loop nextprime_step (Z.to_pos (candidate + 2)) candidate;
      r.

  (* std::ilogb(i.convert_to<double>()): exponent of |i| rounded to nearest double; INT_MAX for inf *)
  Definition ilogb_double (i : Z) : Z :=
    let a := Z.abs i in
    let k := Z.log2 a in
    if 1024 <=? k then 2147483647
    else if (53 <=? k) && (Z.pow 2 (k + 1) - Z.pow 2 (k - 53) <=? a) then
      (if k + 1 =? 1024 then 2147483647 else k + 1)
    else k.

  (* while (true) { mp_nextprime(p, p); if (p > max) return false; if (mp_root(root, i, p)) return true; } *)
  Definition pp_step (i mx : Z) (p : Z) : Z + res bool :=
    match mp_nextprime p with
    | Ok p' =>
        if mx <? p' then inr (Ok false)
        else match mp_root i p' with
             | Ok (_, true) => inr (Ok true)
             | Ok (_, false) => inl p'
             | ErrOOB a b => inr (ErrOOB a b) | ErrFuel => inr ErrFuel | ErrExn k => inr (ErrExn k)
             end
    | ErrOOB a b => inr (ErrOOB a b) | ErrFuel => inr ErrFuel | ErrExn k => inr (ErrExn k)
    end.
  Definition mp_perfect_power_p (i : Z) : res bool :=
    if (i =? 0) || (i =? 1) || (i =? -1) then Ok true
    else
      let mx := ilogb_double i in
      do sq <- mp_perfect_square_p i;
      if sq then Ok true
      else do r <- run_loop (pp_step i mx) (Z.to_pos (mx + 2)) 2; r.
End WithPrimeTest.

(* ------------------------------------------------------------------ Legendre / Jacobi / Kronecker *)
Definition mp_legendre (a n : Z) : res Z :=
  do r <- mp_powm a (Z.quot (n - 1) 2) n;
  Ok (if r <=? 1 then r else -1).

(* while (num % 2 == 0 && num != 0) { num /= 2; ++factors_of_two; }   -> (odd part, parity of the count) *)
Fixpoint strip_twos_pos (p : positive) (odd_count : bool) : positive * bool :=
  match p with
  | xO p' => strip_twos_pos p' (negb odd_count)
  | _ => (p, odd_count)
  end.
Definition strip_twos (num : Z) : Z * bool :=
  match num with
  | Z0 => (0, false)
  | Zpos p => let r := strip_twos_pos p false in (Zpos (fst r), snd r)
  | Zneg p => let r := strip_twos_pos p false in (Zneg (fst r), snd r)
  end.

Fixpoint unchecked_jacobi (fuel : nat) (a n : Z) : res Z :=
  match fuel with
  | O => ErrFuel
  | S f =>
    if a =? 1 then Ok 1
    else
      do num0 <- bfmod a n;
      let st := strip_twos num0 in
      let num := fst st in
      let odd_twos := snd st in
      do d8 <- bfmod n 8;
      let product_of_twos := if odd_twos && ((d8 =? 3) || (d8 =? 5)) then -1 else 1 in
      if num =? 1 then Ok product_of_twos
      else if negb (Z.gcd num n =? 1) then Ok 0
      else
        do n4 <- bfmod num 4;
        do d4 <- bfmod n 4;
        let qr := if (n4 =? 3) && (d4 =? 3) then -1 else 1 in
        do rest <- unchecked_jacobi f n num;
        Ok (product_of_twos * qr * rest)
  end.

Definition jacobi_fuel (n : Z) : nat := Z.to_nat (2 * Z.log2 (Z.abs n) + 6).

Definition mp_jacobi (a n : Z) : res Z :=
  if n <? 0 then ErrExn EXN_STD
  else if Z.rem n 2 =? 0 then ErrExn EXN_STD
  else unchecked_jacobi (jacobi_fuel n) a n.

Definition mp_kronecker (a n : Z) : res Z :=
  if n =? 0 then Ok (if (a =? 1) || (a =? -1) then 1 else 0)
  else
    let kr_a_u := if (n <? 0) && (a <? 0) then -1 else 1 in
    let st := strip_twos (Z.abs n) in
    let m := fst st in
    let j_odd := snd st in
    do a8 <- bfmod a 8;
    let kr_a_2_to_j :=
      if negb (Z.rem a 2 =? 0) then
        let kr_a_2 := if (a8 =? 1) || (a8 =? 7) then 1 else -1 in
        if (kr_a_2 =? -1) && j_odd then -1 else 1
      else 0 in
    do j <- unchecked_jacobi (jacobi_fuel m) a m;
    if Z.rem n 2 =? 0 then Ok (kr_a_u * kr_a_2_to_j * j) else Ok (kr_a_u * j).

(* ------------------------------------------------------------------ a deterministic stand-in for miller_rabin_test *)
(* strong probable prime test to base b for odd n > 2:  n - 1 = 2^s * d *)
Fixpoint sprp_squares (cnt : nat) (x n : Z) : bool :=
  match cnt with
  | O => false
  | S c => if x =? n - 1 then true else sprp_squares c (Z.rem (x * x) n) n
  end.
Definition sprp (n b : Z) : bool :=
  let st := strip_twos (n - 1) in
  let d := fst st in
  let s := Z.to_nat (Z.log2 ((n - 1) / d)) in
  match bpowm b d n with
  | Ok x => (x =? 1) || sprp_squares s x n
  | _ => false
  end.
Definition mr_bases : list Z := [2; 3; 5; 7; 11; 13; 17; 19; 23; 29; 31; 37; 41].
(* miller_rabin_test on a negative number throws (std::range_error from the bit test) *)
Definition mr_det (n : Z) : res bool :=
  if n <? 0 then ErrExn EXN_STD
  else if n <? 2 then Ok false
  else if existsb (fun b => n =? b) mr_bases then Ok true
  else if existsb (fun b => Z.rem n b =? 0) mr_bases then Ok false
  else Ok (forallb (sprp n) mr_bases).
