(* C43 -- binomial coefficients (mp_bin_ui): the multiply-then-divide loop is exact at every turn and equals
   mpz_bin_ui, including negative n (bin(-n,k) = (-1)^k bin(n+k-1,k)) *)
From SE Require Import Base.Prelude C43.MpModel C43.MpSpec.
From Coq Require Import Lia ZifyBool ZifyNat Arith.
Local Open Scope Z_scope.

Lemma binom_0_S : forall k, binom 0 (S k) = 0.
Proof. reflexivity. Qed.
Lemma binom_n_0 : forall n, binom n 0 = 1.
Proof. destruct n; reflexivity. Qed.
Lemma binom_SS : forall n k, binom (S n) (S k) = binom n k + binom n (S k).
Proof. reflexivity. Qed.
Lemma binom_n_1 : forall n, binom n 1 = Z.of_nat n.
Proof.
  induction n; [reflexivity|]. rewrite binom_SS, IHn, binom_n_0. lia.
Qed.

(* (k+1) C(n+1,k+1) = (n+1) C(n,k) *)
Lemma binom_absorb : forall n k,
  Z.of_nat (S k) * binom (S n) (S k) = Z.of_nat (S n) * binom n k.
Proof.
  induction n; intros k.
  - destruct k; [reflexivity|]. rewrite binom_SS, !binom_0_S. lia.
  - destruct k.
    + rewrite binom_n_1, binom_n_0. lia.
    + rewrite (binom_SS (S n) (S k)).
      assert (H1 := IHn k). assert (H2 := IHn (S k)).
      rewrite (binom_SS n k) at 1.
      set (A := binom (S n) (S k)) in *. set (B := binom (S n) (S (S k))) in *.
      set (C := binom n k) in *. set (D := binom n (S k)) in *.
      assert (HA : A = C + D) by reflexivity.
      nia.
Qed.

(* (k+1) C(n,k+1) = (n-k) C(n,k) *)
Lemma binom_next : forall n k,
  Z.of_nat (S k) * binom n (S k) = (Z.of_nat n - Z.of_nat k) * binom n k.
Proof.
  induction n; intros k.
  - destruct k; [reflexivity|]. rewrite !binom_0_S. lia.
  - destruct k.
    + rewrite binom_n_1, binom_n_0. lia.
    + rewrite (binom_SS n (S k)), (binom_SS n k).
      assert (H1 := IHn k). assert (H2 := IHn (S k)).
      set (C := binom n k) in *. set (D := binom n (S k)) in *. set (E := binom n (S (S k))) in *.
      nia.
Qed.

(* the absorption identity for mpz_bin_ui's extension to all integers *)
Lemma gmp_bin_absorb : forall m i,
  Z.of_nat (S i) * gmp_bin (m + 1) (S i) = (m + 1) * gmp_bin m i.
Proof.
  intros m i. unfold gmp_bin.
  destruct (0 <=? m) eqn:E1.
  - destruct (0 <=? m + 1) eqn:E2; [|lia].
    replace (Z.to_nat (m + 1)) with (S (Z.to_nat m)) by lia.
    rewrite binom_absorb. replace (Z.of_nat (S (Z.to_nat m))) with (m + 1) by lia. reflexivity.
  - destruct (0 <=? m + 1) eqn:E2.
    + assert (m = -1) by lia. subst. cbn. lia.
    + replace (Z.to_nat (- (m + 1)) + S i - 1)%nat with (Z.to_nat (- m) + i - 1)%nat by lia.
      set (N := (Z.to_nat (- m) + i - 1)%nat).
      assert (HN : Z.of_nat N - Z.of_nat i = - (m + 1)) by lia.
      assert (H := binom_next N i). rewrite HN in H.
      rewrite Nat.even_succ, <- Nat.negb_even.
      destruct (Nat.even i); cbn [negb]; nia.
Qed.

Lemma bin_loop_spec : forall cnt x j,
  bin_loop cnt x (Z.of_nat (S j)) (gmp_bin (x + Z.of_nat j) j)
  = gmp_bin (x + Z.of_nat (j + cnt)) (j + cnt).
Proof.
  induction cnt; intros x j; cbn [bin_loop].
  - rewrite Nat.add_0_r. reflexivity.
  - assert (Ha := gmp_bin_absorb (x + Z.of_nat j) j).
    replace (x + Z.of_nat j + 1) with (x + Z.of_nat (S j)) in Ha by lia.
    replace (gmp_bin (x + Z.of_nat j) j * (x + Z.of_nat (S j)))
      with (gmp_bin (x + Z.of_nat (S j)) (S j) * Z.of_nat (S j)) by lia.
    rewrite Z.quot_mul by lia.
    replace (Z.of_nat (S j) + 1) with (Z.of_nat (S (S j))) by lia.
    rewrite IHcnt. f_equal; [f_equal|]; lia.
Qed.

(* mp_bin_ui = mpz_bin_ui for every integer n and every k *)
Theorem bin_spec : forall n r, mp_bin_ui n r = gmp_bin n (N.to_nat r).
Proof.
  intros n r. unfold mp_bin_ui.
  assert (H := bin_loop_spec (N.to_nat r) (n - Z.of_N r) 0).
  change (Z.of_nat 1) with 1 in H. change (Z.of_nat 0) with 0 in H. rewrite Z.add_0_r in H.
  change (0 + N.to_nat r)%nat with (N.to_nat r) in H.
  replace (gmp_bin (n - Z.of_N r) 0) with 1 in H.
  - rewrite H. f_equal. lia.
  - unfold gmp_bin. destruct (0 <=? n - Z.of_N r); rewrite binom_n_0; reflexivity.
Qed.

(* for 0 <= k <= n it is the schoolbook binomial coefficient n! / (k! (n-k)!) *)
Lemma binom_fact : forall n k, (k <= n)%nat ->
  binom n k * Z.of_nat (fact k) * Z.of_nat (fact (n - k)) = Z.of_nat (fact n).
Proof.
  induction n; intros k Hk.
  - assert (k = 0)%nat by lia. subst. reflexivity.
  - destruct k.
    + rewrite binom_n_0. cbn [fact Nat.sub]. lia.
    + assert (Ha := binom_absorb n k). assert (IH := IHn k ltac:(lia)).
      replace (S n - S k)%nat with (n - k)%nat by lia.
      change (fact (S k)) with (S k * fact k)%nat. change (fact (S n)) with (S n * fact n)%nat.
      rewrite !Nat2Z.inj_mul.
      transitivity ((Z.of_nat (S k) * binom (S n) (S k)) * Z.of_nat (fact k) * Z.of_nat (fact (n - k))); [ring|].
      rewrite Ha, <- IH. ring.
Qed.
