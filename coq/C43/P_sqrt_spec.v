From SE Require Import Base.Prelude C43.MpModel C43.MpSpec C43.MpRoot.
From Coq Require Import Znumtheory.
Local Open Scope Z_scope.

Theorem C43_sqrt_spec :
  forall i, 0 <= i -> mp_sqrt i = Ok (Z.sqrt i).
Proof. exact sqrt_spec. Qed.
Print Assumptions C43_sqrt_spec.
