From SE Require Import Base.Prelude C43.MpModel C43.MpSpec C43.MpJacobi.
Local Open Scope Z_scope.

(* finding C43/jacobi-negative-denominator: mpz_jacobi (= mpz_kronecker) answers for every odd n; the Boost
   backend's mp_jacobi throws for n < 0 (GMP: jacobi(5,-15) = 0, jacobi(2,-7) = 1).  The guarded positive theorem
   is C43_jacobi_total / C43_jacobi_spec_relative (hypothesis 0 < n). *)
Theorem C43_jacobi_total_refuted :
  exists a n, n mod 2 = 1 /\ mp_jacobi a n = ErrExn EXN_STD /\ mp_kronecker a n = Ok 0.
Proof. exists 5, (-15). vm_compute. auto. Qed.
Print Assumptions C43_jacobi_total_refuted.
