From SE Require Import Base.Prelude C43.MpModel C43.MpSpec C43.MpDiv.
From Coq Require Import Znumtheory.
Local Open Scope Z_scope.

Theorem C43_divisible_spec :
  forall a b, mp_divisible_p a b = true <-> (b | a).
Proof. exact divisible_spec. Qed.
Print Assumptions C43_divisible_spec.
