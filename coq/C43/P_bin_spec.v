From SE Require Import Base.Prelude C43.MpModel C43.MpSpec C43.MpBin.
From Coq Require Import Znumtheory.
Local Open Scope Z_scope.

Theorem C43_bin_spec :
  forall n r, mp_bin_ui n r = gmp_bin n (N.to_nat r).
Proof. exact bin_spec. Qed.
Print Assumptions C43_bin_spec.
