From SE Require Import Base.Prelude C43.MpModel C43.MpSpec C43.MpGcd.
From Coq Require Import Znumtheory.
Local Open Scope Z_scope.

Theorem C43_invert_spec :
  forall a m, m <> 0 -> exists o, mp_invert a m = Ok o /\ gmp_invert_spec a m o.
Proof. exact invert_spec. Qed.
Print Assumptions C43_invert_spec.
