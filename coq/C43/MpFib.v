(* C43 -- Fibonacci / Lucas numbers by 2x2 matrix powers (repeated squaring), factorial *)
From SE Require Import Base.Prelude C43.MpModel C43.MpSpec.
From Coq Require Import Lia ZifyBool ZifyNat Arith.
Local Open Scope Z_scope.

Lemma mat_eq : forall a b, m00 a = m00 b -> m01 a = m01 b -> m10 a = m10 b -> m11 a = m11 b -> a = b.
Proof. intros [] []; cbn; intros; subst; reflexivity. Qed.

Lemma mmul_assoc : forall a b c, mmul (mmul a b) c = mmul a (mmul b c).
Proof. intros. apply mat_eq; cbn [mmul mid m00 m01 m10 m11]; ring. Qed.
Lemma mmul_id_l : forall a, mmul mid a = a.
Proof. intros. apply mat_eq; cbn [mmul mid m00 m01 m10 m11]; ring. Qed.
Lemma mmul_id_r : forall a, mmul a mid = a.
Proof. intros. apply mat_eq; cbn [mmul mid m00 m01 m10 m11]; ring. Qed.

Fixpoint mpown (a : mat) (n : nat) : mat :=
  match n with O => mid | S n' => mmul (mpown a n') a end.

Lemma mpown_add : forall a m n, mpown a (m + n) = mmul (mpown a m) (mpown a n).
Proof.
  induction n; cbn [mpown].
  - rewrite Nat.add_0_r, mmul_id_r. reflexivity.
  - rewrite Nat.add_succ_r. cbn [mpown]. rewrite IHn, mmul_assoc. reflexivity.
Qed.

(* two_by_two_matrix::pow (recursive repeated squaring) is the n-fold product *)
Lemma mpow_pos_spec : forall a p, mpow_pos a p = mpown a (Pos.to_nat p).
Proof.
  induction p; cbn [mpow_pos].
  - rewrite IHp, Pos2Nat.inj_xI. cbn [mpown].
    replace (2 * Pos.to_nat p)%nat with (Pos.to_nat p + Pos.to_nat p)%nat by lia.
    rewrite mpown_add. reflexivity.
  - rewrite IHp, Pos2Nat.inj_xO.
    replace (2 * Pos.to_nat p)%nat with (Pos.to_nat p + Pos.to_nat p)%nat by lia.
    rewrite mpown_add. reflexivity.
  - rewrite Pos2Nat.inj_1. cbn [mpown]. rewrite mmul_id_l. reflexivity.
Qed.
Lemma mpow_spec : forall a n, mpow a n = mpown a (N.to_nat n).
Proof. destruct n; cbn [mpow]; [reflexivity|]. rewrite mpow_pos_spec. reflexivity. Qed.

(* F(n-1), with F(-1) = 1 *)
Definition fibp (n : nat) : Z := match n with O => 1 | S k => fibn k end.
Definition lucp (n : nat) : Z := match n with O => -1 | S k => lucn k end.

Lemma fibn_SS : forall n, fibn (S (S n)) = fibn n + fibn (S n).
Proof. reflexivity. Qed.
Lemma lucn_SS : forall n, lucn (S (S n)) = lucn n + lucn (S n).
Proof. reflexivity. Qed.

Lemma fib_matrix_closed : forall n,
  mpown {| m00 := 1; m01 := 1; m10 := 1; m11 := 0 |} n =
  {| m00 := fibn (S n); m01 := fibn n; m10 := fibn n; m11 := fibp n |}.
Proof.
  induction n.
  - reflexivity.
  - cbn [mpown]. rewrite IHn. apply mat_eq; cbn [mmul m00 m01 m10 m11].
    + rewrite fibn_SS. ring.
    + ring.
    + destruct n; cbn [fibp]; [reflexivity|]. rewrite fibn_SS. ring.
    + destruct n; cbn [fibp]; ring.
Qed.

Theorem fib_spec : forall n, mp_fib_ui n = fibn (N.to_nat n).
Proof. intros. unfold mp_fib_ui, fib_matrix. rewrite mpow_spec, fib_matrix_closed. reflexivity. Qed.

(* mpz_fib2_ui: F(n) and F(n-1), with F(-1) = 1 *)
Theorem fib2_spec : forall n, mp_fib2_ui n = (fibn (N.to_nat n), fibp (N.to_nat n)).
Proof. intros. unfold mp_fib2_ui, fib_matrix. rewrite mpow_spec, fib_matrix_closed. reflexivity. Qed.

Lemma lucn_fib : forall n, lucn n = fibn n + 2 * fibp n /\ lucn (S n) = fibn (S n) + 2 * fibp (S n).
Proof.
  induction n.
  - cbn. lia.
  - destruct IHn as [H1 H2]. split; auto.
    rewrite lucn_SS, fibn_SS, H1, H2. cbn [fibp]. destruct n; cbn [fibp]; [cbn; lia|].
    rewrite fibn_SS. ring.
Qed.

Theorem lucnum_spec : forall n, mp_lucnum_ui n = lucn (N.to_nat n).
Proof.
  intros. unfold mp_lucnum_ui, luc_matrix. rewrite mpow_spec, fib_matrix_closed.
  cbn [mmul m00 m01 m10 m11]. destruct (lucn_fib (N.to_nat n)) as [H _]. rewrite H. ring.
Qed.

(* mpz_lucnum2_ui: L(n) and L(n-1), with L(-1) = -1 *)
Theorem lucnum2_spec : forall n, mp_lucnum2_ui n = (lucn (N.to_nat n), lucp (N.to_nat n)).
Proof.
  intros. unfold mp_lucnum2_ui. destruct (n =? 0)%N eqn:E.
  - assert (n = 0%N) by lia. subst. reflexivity.
  - unfold luc_matrix. rewrite mpow_spec, fib_matrix_closed.
    assert (Hn : N.to_nat n = S (N.to_nat (n - 1))) by lia. rewrite Hn.
    cbn [mmul m00 m01 m10 m11 lucp].
    destruct (lucn_fib (N.to_nat (n - 1))) as [H1 H2]. rewrite H1, H2. cbn [fibp]. f_equal; ring.
Qed.

(* factorial *)
Lemma fac_loop_spec : forall cnt k,
  fac_loop cnt (Z.of_nat (S k)) (Z.of_nat (fact k)) = Z.of_nat (fact (k + cnt)).
Proof.
  induction cnt; intros k; cbn [fac_loop].
  - rewrite Nat.add_0_r. reflexivity.
  - replace (Z.of_nat (S k) + 1) with (Z.of_nat (S (S k))) by lia.
    replace (Z.of_nat (fact k) * Z.of_nat (S k)) with (Z.of_nat (fact (S k))) by (cbn [fact]; lia).
    rewrite IHcnt. f_equal. f_equal. lia.
Qed.

Theorem fac_spec : forall n, mp_fac_ui n = Z.of_nat (fact (N.to_nat n)).
Proof.
  intros. unfold mp_fac_ui.
  change (fac_loop (N.to_nat (n - 1)) 2 1) with (fac_loop (N.to_nat (n - 1)) (Z.of_nat 2) (Z.of_nat (fact 1))).
  rewrite fac_loop_spec. destruct (N.eq_dec n 0) as [->|Hn]; [reflexivity|].
  f_equal. f_equal. lia.
Qed.
