From SE Require Import Base.Prelude C43.MpModel C43.MpSpec C43.MpDiv.
From Coq Require Import Znumtheory.
Local Open Scope Z_scope.

Theorem C43_tdiv_qr_spec :
  forall a b q r, mp_tdiv_qr a b = Ok (q, r) -> trunc_div_spec a b q r.
Proof. exact tdiv_qr_spec. Qed.
Print Assumptions C43_tdiv_qr_spec.
