From SE Require Import Base.Prelude C43.MpModel C43.MpSpec C43.MpPrime.
From Coq Require Import Znumtheory.
Local Open Scope Z_scope.

Theorem C43_perfect_power_partial :
  forall mr : Z -> res bool,
  (forall n, 0 <= n -> exists b, mr n = Ok b /\ (b = true <-> prime n)) ->
  forall i b, Z.log2 (Z.abs i) <= 2147483647 ->
  mp_perfect_power_p mr i = Ok b -> (b = true <-> perfect_power i).
Proof. exact perfect_power_partial. Qed.
Print Assumptions C43_perfect_power_partial.
