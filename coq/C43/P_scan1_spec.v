From SE Require Import Base.Prelude C43.MpModel C43.MpSpec C43.MpDiv.
From Coq Require Import Znumtheory.
Local Open Scope Z_scope.

Theorem C43_scan1_spec :
  forall i, i <> 0 -> lowest_bit_spec i (mp_scan1 i).
Proof. exact scan1_spec. Qed.
Print Assumptions C43_scan1_spec.
