(* C43 -- extended Euclid (mp_gcdext): termination, gcd, Bezout identity; modular inverse (mp_invert) *)
From SE Require Import Base.Prelude C43.MpModel C43.MpSpec C43.MpLoop C43.MpDiv.
From Coq Require Import Lia ZifyBool Znumtheory.
Local Open Scope Z_scope.

Section Euclid.
  Variables a b : Z.

  Definition lin (s : gst) : Prop :=
    g_ts s * a + g_tt s * b = g_tr s /\ g_ns s * a + g_nt s * b = g_nr s.
  Definition ginv (s : gst) : Prop := lin s /\ Z.gcd (g_tr s) (g_nr s) = Z.gcd a b.

  Lemma ginv_init : ginv (gcdext_init a b).
  Proof.
    unfold ginv, lin, gcdext_init; cbn [g_ts g_tt g_tr g_ns g_nt g_nr].
    destruct ((a =? 0) && (b =? 0)) eqn:E; repeat split; lia.
  Qed.

  Lemma gcdext_step_inl : forall s s', gcdext_step s = inl s' ->
    g_nr s <> 0 /\
    s' = {| g_ts := g_ns s; g_tt := g_nt s; g_tr := g_nr s;
            g_ns := g_ts s - Z.quot (g_tr s) (g_nr s) * g_ns s;
            g_nt := g_tt s - Z.quot (g_tr s) (g_nr s) * g_nt s;
            g_nr := Z.rem (g_tr s) (g_nr s) |}.
  Proof.
    unfold gcdext_step. intros s s' H. destruct (g_nr s =? 0) eqn:E; [discriminate|].
    inversion H; subst. split; [lia|reflexivity].
  Qed.

  Lemma gcdext_step_inr : forall s r, gcdext_step s = inr r -> r = s /\ g_nr s = 0.
  Proof.
    unfold gcdext_step. intros s r H. destruct (g_nr s =? 0) eqn:E; [|discriminate].
    inversion H; subst. split; [reflexivity|lia].
  Qed.

  Lemma ginv_step : forall s s', ginv s -> gcdext_step s = inl s' -> ginv s'.
  Proof.
    intros s s' [[L1 L2] G] H. apply gcdext_step_inl in H. destruct H as [Hnz ->].
    unfold ginv, lin; cbn [g_ts g_tt g_tr g_ns g_nt g_nr].
    assert (Hq := Z.quot_rem' (g_tr s) (g_nr s)).
    repeat split; try nia.
    rewrite Z.gcd_comm, Z.gcd_rem by auto. rewrite Z.gcd_comm. exact G.
  Qed.

  Lemma gcdext_loop_terminates :
    exists sf, run_loop gcdext_step (gcdext_fuel b) (gcdext_init a b) = Ok sf.
  Proof.
    apply (run_loop_terminates gcdext_step (fun _ => True) (fun s => Z.to_nat (Z.abs (g_nr s)))).
    - intros s s' _ H. split; auto. apply gcdext_step_inl in H. destruct H as [Hnz ->].
      cbn [g_nr]. assert (Hb := Z.rem_bound_abs (g_tr s) (g_nr s) Hnz). lia.
    - exact I.
    - unfold gcdext_fuel, gcdext_init; cbn [g_nr]. lia.
  Qed.

  Lemma gcdext_loop_exit : forall sf,
    run_loop gcdext_step (gcdext_fuel b) (gcdext_init a b) = Ok sf -> ginv sf /\ g_nr sf = 0.
  Proof.
    intros sf H.
    destruct (run_loop_exit gcdext_step ginv ginv_step _ _ _ ginv_init H) as [s [Hs Hx]].
    apply gcdext_step_inr in Hx. destruct Hx as [-> Hz]. auto.
  Qed.

  (* mp_gcdext never runs out of fuel, returns the non-negative gcd and cofactors with s*a + t*b = g *)
  Theorem gcdext_bezout : exists g s t,
    mp_gcdext a b = Ok (g, s, t) /\ g = Z.gcd a b /\ s * a + t * b = g.
  Proof.
    destruct gcdext_loop_terminates as [sf Hsf].
    destruct (gcdext_loop_exit sf Hsf) as [[[L1 L2] G] Hz].
    unfold mp_gcdext. rewrite Hsf. cbn [bind].
    rewrite Hz, Z.gcd_0_r in G.
    destruct (g_tr sf <? 0) eqn:E; do 3 eexists; (split; [reflexivity|]); split; lia.
  Qed.
End Euclid.

(* mp_invert, m <> 0: same existence condition as mpz_invert, result in [0, |m|), a*r = 1 (mod m) *)
Theorem invert_spec : forall a m, m <> 0 ->
  exists o, mp_invert a m = Ok o /\ gmp_invert_spec a m o.
Proof.
  intros a m Hm. destruct (gcdext_bezout a m) as (g & s & t & Hg & Hgcd & Hbez).
  unfold mp_invert. rewrite Hg. cbn [bind fst snd].
  destruct (negb (g =? 1)) eqn:E.
  - exists None. split; [reflexivity|]. cbn. lia.
  - assert (g = 1) by lia. subst g.
    rewrite fdiv_r_spec by auto. cbn [bind].
    eexists. split; [reflexivity|]. cbn [gmp_invert_spec].
    split; [lia|].
    assert (Hdm := Z.div_mod s m Hm).
    assert (Hrange : 0 <= s mod m < m \/ m < s mod m <= 0).
    { destruct (Z_lt_le_dec 0 m); [left; apply Z.mod_pos_bound; lia | right; apply Z.mod_neg_bound; lia]. }
    destruct (s mod m <? 0) eqn:E2.
    + split; [lia|].
      destruct (Z_lt_le_dec 0 m) as [Hp|Hn]; [lia|].
      exists (- a * (s / m) - a - t). rewrite Z.abs_neq by lia. nia.
    + split.
      * destruct (Z.eq_dec (s mod m) 0) as [Ez|Enz]; [|lia].
        (* m divides s, hence m divides 1 *)
        split; [lia|]. assert (Hd : (m | 1)).
        { exists (a * (s / m) + t). nia. }
        apply Z.divide_1_r in Hd. lia.
      * exists (- a * (s / m) - t). nia.
Qed.
