From SE Require Import Base.Prelude C43.MpModel C43.MpSpec C43.MpPrime.
From Coq Require Import Znumtheory.
Local Open Scope Z_scope.

(* mp_nextprime terminates within the model's fuel whenever (i, 2i] contains a prime -- which Bertrand's postulate
   guarantees for every i >= 1 (the postulate itself is not proved in this development) *)
Theorem C43_nextprime_total_bertrand :
  forall mr : Z -> res bool,
  (forall n, 0 <= n -> exists b, mr n = Ok b /\ (b = true <-> prime n)) ->
  forall i, (i < 2 \/ exists q, prime q /\ i < q <= 2 * i) -> exists p, mp_nextprime mr i = Ok p.
Proof. exact nextprime_total_bertrand. Qed.
Print Assumptions C43_nextprime_total_bertrand.
