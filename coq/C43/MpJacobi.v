(* C43 -- Jacobi / Kronecker symbols (unchecked_jacobi, mp_jacobi, mp_kronecker):
   the reciprocity recursion terminates within the model's fuel, its value lies in {-1,0,1}, it equals any function
   that satisfies the standard laws of the Jacobi symbol, and it equals the symbol computed from the definition
   (factorisation + Legendre symbols by listing squares) on an exhaustively checked range. *)
From SE Require Import Base.Prelude C43.MpModel C43.MpSpec.
From Coq Require Import Lia ZifyBool Znumtheory.
Local Open Scope Z_scope.
Ltac Zify.zify_post_hook ::= Z.div_mod_to_equations.

Lemma bfmod_spec : forall a n, 0 < n -> bfmod a n = Ok (a mod n).
Proof.
  intros a n Hn. unfold bfmod, brem. destruct (n =? 0) eqn:E; [lia|]. cbn [bind]. f_equal.
  assert (H := Z.rem_mod a n ltac:(lia)).
  assert (Hq := Z.quot_rem' a n). assert (Hb := Z.rem_bound_abs a n ltac:(lia)).
  assert (Hd := Z.div_mod a n ltac:(lia)). assert (Hm := Z.mod_pos_bound a n Hn).
  destruct (Z.rem a n <? 0) eqn:E2.
  - apply (Z.mod_unique_pos a n (Z.quot a n - 1)); lia.
  - apply (Z.mod_unique_pos a n (Z.quot a n)); lia.
Qed.

(* strip_twos: num = odd part * 2^k, with the parity of k *)
Lemma strip_twos_pos_spec : forall p acc q b, strip_twos_pos p acc = (q, b) ->
  exists k, 0 <= k /\ Zpos p = Zpos q * 2 ^ k /\ Zpos q mod 2 = 1 /\ b = xorb acc (Z.odd k).
Proof.
  induction p; intros acc q b H; cbn [strip_twos_pos] in H.
  - inversion H; subst. exists 0. rewrite Z.pow_0_r. split; [lia|]. split; [lia|]. split; [lia|].
    cbn. destruct b; reflexivity.
  - apply IHp in H. destruct H as (k & Hk & He & Ho & Hb). exists (k + 1).
    split; [lia|]. split; [rewrite Z.pow_add_r by lia; lia|]. split; auto.
    rewrite Hb. replace (k + 1) with (Z.succ k) by lia. rewrite Z.odd_succ, <- Z.negb_odd.
    destruct acc, (Z.odd k); reflexivity.
  - inversion H; subst. exists 0. split; [lia|]. split; [reflexivity|]. split; [reflexivity|].
    cbn. destruct b; reflexivity.
Qed.

Lemma strip_twos_spec : forall num, 0 < num ->
  exists k, 0 <= k /\ num = fst (strip_twos num) * 2 ^ k /\ fst (strip_twos num) mod 2 = 1
            /\ 0 < fst (strip_twos num) <= num /\ snd (strip_twos num) = Z.odd k.
Proof.
  intros num Hn. destruct num as [|p|p]; try lia. cbn [strip_twos].
  destruct (strip_twos_pos p false) as [q b] eqn:E. apply strip_twos_pos_spec in E.
  destruct E as (k & Hk & He & Ho & Hb). exists k. cbn [fst snd].
  split; auto. split; auto. split; auto. split.
  - assert (1 <= 2 ^ k) by (apply Z.pow_le_mono_r with (b := 0) (c := k) (a := 2); lia). nia.
  - rewrite Hb. destruct (Z.odd k); reflexivity.
Qed.

Lemma strip_twos_0 : strip_twos 0 = (0, false).
Proof. reflexivity. Qed.

(* ------------------------------------------------------------------ termination and range *)
Local Open Scope res_scope.
Lemma uj_unfold : forall f a n, unchecked_jacobi (S f) a n =
    if a =? 1 then Ok 1
    else
      do num0 <- bfmod a n;
      let st := strip_twos num0 in
      let num := fst st in
      let odd_twos := snd st in
      do d8 <- bfmod n 8;
      let product_of_twos := if odd_twos && ((d8 =? 3) || (d8 =? 5)) then -1 else 1 in
      if num =? 1 then Ok product_of_twos
      else if negb (Z.gcd num n =? 1) then Ok 0
      else
        do n4 <- bfmod num 4;
        do d4 <- bfmod n 4;
        let qr := if (n4 =? 3) && (d4 =? 3) then -1 else 1 in
        do rest <- unchecked_jacobi f n num;
        Ok (product_of_twos * qr * rest).
Proof. reflexivity. Qed.
Lemma uj_total : forall f a n, 0 < n -> (a mod n) * n < 2 ^ Z.of_nat f ->
  exists r, unchecked_jacobi (S (S f)) a n = Ok r /\ -1 <= r <= 1.
Proof.
  induction f; intros a n Hn Hm.
  - (* a mod n = 0 *)
    assert (Hmod : a mod n = 0).
    { assert (H := Z.mod_pos_bound a n Hn). change (2 ^ Z.of_nat 0) with 1 in Hm. nia. }
    rewrite uj_unfold. destruct (a =? 1) eqn:Ea; [exists 1; split; [reflexivity|lia]|].
    rewrite bfmod_spec by auto. cbn [bind]. rewrite Hmod, strip_twos_0. cbn [fst snd].
    rewrite bfmod_spec by lia. cbn [bind]. cbn [andb].
    change (0 =? 1) with false. cbv iota. rewrite Z.gcd_0_l.
    destruct (negb (Z.abs n =? 1)) eqn:En; [exists 0; split; [reflexivity|lia]|].
    rewrite !bfmod_spec by lia. cbn [bind].
    assert (n = 1) by lia. subst n. cbn. exists 1. split; [reflexivity|lia].
  - rewrite uj_unfold. destruct (a =? 1) eqn:Ea; [exists 1; split; [reflexivity|lia]|].
    rewrite bfmod_spec by auto. cbn [bind].
    assert (Hb := Z.mod_pos_bound a n Hn).
    destruct (Z.eq_dec (a mod n) 0) as [Hz|Hnz].
    + rewrite Hz, strip_twos_0. cbn [fst snd]. rewrite bfmod_spec by lia. cbn [bind andb].
      change (0 =? 1) with false. cbv iota. rewrite Z.gcd_0_l.
      destruct (negb (Z.abs n =? 1)) eqn:En; [exists 0; split; [reflexivity|lia]|].
      rewrite !bfmod_spec by lia. cbn [bind].
      assert (n = 1) by lia. subst n.
      destruct f; cbn; exists 1; (split; [reflexivity|lia]).
    + destruct (strip_twos_spec (a mod n) ltac:(lia)) as (k & Hk & He & Ho & Hr & Hp).
      set (num := fst (strip_twos (a mod n))) in *.
      rewrite bfmod_spec by lia. cbn [bind].
      set (pt := if snd (strip_twos (a mod n)) && ((n mod 8 =? 3) || (n mod 8 =? 5)) then -1 else 1).
      assert (Hpt : -1 <= pt <= 1) by (unfold pt; destruct (snd (strip_twos (a mod n)) && ((n mod 8 =? 3) || (n mod 8 =? 5))); lia).
      destruct (num =? 1) eqn:E1; [exists pt; split; [reflexivity|lia]|].
      destruct (negb (Z.gcd num n =? 1)) eqn:Eg; [exists 0; split; [reflexivity|lia]|].
      rewrite !bfmod_spec by lia. cbn [bind].
      set (qr := if (num mod 4 =? 3) && (n mod 4 =? 3) then -1 else 1).
      assert (Hqr : -1 <= qr <= 1) by (unfold qr; destruct ((num mod 4 =? 3) && (n mod 4 =? 3)); lia).
      destruct (IHf n num ltac:(lia)) as (r & Hr' & Hrr).
      * (* 2 * (n mod num) < n *)
        assert (Hlt : num < n) by lia.
        assert (Hmn := Z.mod_pos_bound n num ltac:(lia)).
        assert (Hdm := Z.div_mod n num ltac:(lia)).
        assert (Hq : 1 <= n / num) by (apply Z.div_le_lower_bound; lia).
        assert (H2 : 2 * (n mod num) < n) by nia.
        rewrite Nat2Z.inj_succ, Z.pow_succ_r in Hm by lia.
        assert (2 * ((n mod num) * num) < (a mod n) * n) by nia. lia.
      * rewrite Hr'. cbn [bind]. exists (pt * qr * r). split; [reflexivity|].
        clear - Hrr. unfold pt, qr.
        destruct (snd (strip_twos (a mod n)) && ((n mod 8 =? 3) || (n mod 8 =? 5)));
        destruct ((num mod 4 =? 3) && (n mod 4 =? 3)); lia.
Qed.

Lemma jacobi_fuel_enough : forall a n, 0 < n ->
  exists r, unchecked_jacobi (jacobi_fuel n) a n = Ok r /\ -1 <= r <= 1.
Proof.
  intros a n Hn. unfold jacobi_fuel. rewrite Z.abs_eq by lia.
  assert (Hl := Z.log2_nonneg n).
  replace (Z.to_nat (2 * Z.log2 n + 6)) with (S (S (Z.to_nat (2 * Z.log2 n + 4)))) by lia.
  apply uj_total; auto. rewrite Z2Nat.id by lia.
  assert (Hs := Z.log2_spec n Hn). assert (Hb := Z.mod_pos_bound a n Hn).
  replace (2 * Z.log2 n + 4) with (Z.succ (Z.log2 n) + Z.succ (Z.log2 n) + 2) by lia.
  rewrite !Z.pow_add_r by lia. change (2 ^ 2) with 4. nia.
Qed.

(* mp_jacobi is total on its domain (n odd, positive) with values in {-1,0,1}; outside it throws *)
Theorem jacobi_total : forall a n, 0 < n -> Z.rem n 2 <> 0 ->
  exists r, mp_jacobi a n = Ok r /\ -1 <= r <= 1.
Proof.
  intros a n Hn Ho. unfold mp_jacobi. destruct (n <? 0) eqn:E; [lia|].
  destruct (Z.rem n 2 =? 0) eqn:E2; [lia|]. apply jacobi_fuel_enough; auto.
Qed.

(* ------------------------------------------------------------------ correctness relative to the laws of the symbol *)
Definition oddpos (n : Z) : Prop := 0 < n /\ n mod 2 = 1.

Lemma m1_pow : forall k, 0 <= k -> (-1) ^ k = if Z.odd k then -1 else 1.
Proof.
  apply (natlike_ind (fun k => (-1) ^ k = if Z.odd k then -1 else 1)); [reflexivity|].
  intros j Hj IH. rewrite Z.pow_succ_r, IH, Z.odd_succ, <- Z.negb_odd by lia.
  destruct (Z.odd j); reflexivity.
Qed.

Section JacobiLaws.
  (* any function with the textbook properties of the Jacobi symbol (a/n), n odd and positive *)
  Variable J : Z -> Z -> Z.
  Hypothesis J_periodic : forall a n, oddpos n -> J a n = J (a mod n) n.
  Hypothesis J_one : forall n, oddpos n -> J 1 n = 1.
  Hypothesis J_mul : forall a b n, oddpos n -> J (a * b) n = J a n * J b n.
  Hypothesis J_two : forall n, oddpos n -> J 2 n = if (n mod 8 =? 3) || (n mod 8 =? 5) then -1 else 1.
  Hypothesis J_reciprocity : forall a n, oddpos a -> oddpos n -> Z.gcd a n = 1 ->
    J a n = (if (a mod 4 =? 3) && (n mod 4 =? 3) then -1 else 1) * J n a.
  Hypothesis J_not_coprime : forall a n, oddpos n -> Z.gcd a n <> 1 -> J a n = 0.

  Lemma J_pow2 : forall n k, oddpos n -> 0 <= k -> J (2 ^ k) n = (J 2 n) ^ k.
  Proof.
    intros n k Hn. revert k. apply (natlike_ind (fun k => J (2 ^ k) n = J 2 n ^ k)).
    - rewrite !Z.pow_0_r. apply J_one; auto.
    - intros j Hj IH. rewrite !Z.pow_succ_r by lia. rewrite J_mul, IH by auto. reflexivity.
  Qed.

  Lemma J_zero_one : J 0 1 = 1.
  Proof.
    assert (H1 : oddpos 1) by (unfold oddpos; split; [lia|reflexivity]).
    rewrite <- (J_one 1 H1) at 2. rewrite (J_periodic 1 1 H1). reflexivity.
  Qed.

  Theorem uj_correct : forall fuel a n r, oddpos n -> unchecked_jacobi fuel a n = Ok r -> r = J a n.
  Proof.
    induction fuel; intros a n r Hn H; [discriminate|].
    destruct Hn as [Hn0 Hn2]. assert (Hn : oddpos n) by (split; auto).
    rewrite uj_unfold in H. destruct (a =? 1) eqn:Ea.
    { inversion H; subst. assert (a = 1) by lia. subst. symmetry. apply J_one; auto. }
    rewrite bfmod_spec in H by auto. cbn [bind] in H.
    rewrite (J_periodic a n Hn).
    assert (Hb := Z.mod_pos_bound a n Hn0).
    rewrite bfmod_spec in H by lia. cbn [bind] in H.
    destruct (Z.eq_dec (a mod n) 0) as [Hz|Hnz].
    - rewrite Hz in *. rewrite strip_twos_0 in H. cbn [fst snd andb] in H.
      change (0 =? 1) with false in H. cbv iota in H. rewrite Z.gcd_0_l in H.
      destruct (negb (Z.abs n =? 1)) eqn:En.
      + inversion H; subst. symmetry. apply J_not_coprime; auto. rewrite Z.gcd_0_l. lia.
      + assert (n = 1) by lia. subst n. rewrite !bfmod_spec in H by lia. cbn [bind] in H.
        destruct fuel; [discriminate|]. rewrite uj_unfold in H. change (1 =? 1) with true in H. cbv iota in H.
        cbn [bind] in H. inversion H; subst. rewrite J_zero_one. reflexivity.
    - destruct (strip_twos_spec (a mod n) ltac:(lia)) as (k & Hk & He & Ho & Hr & Hp).
      set (num := fst (strip_twos (a mod n))) in *.
      assert (Hnum : oddpos num) by (split; lia).
      (* J (a mod n) n = J num n * (J 2 n)^k, and (J 2 n)^k is product_of_twos *)
      assert (HJ : J (a mod n) n = (if snd (strip_twos (a mod n)) && ((n mod 8 =? 3) || (n mod 8 =? 5)) then -1 else 1) * J num n).
      { rewrite He at 1. rewrite J_mul, J_pow2, J_two by auto. rewrite Hp.
        destruct ((n mod 8 =? 3) || (n mod 8 =? 5)).
        - rewrite m1_pow by auto. destruct (Z.odd k); cbn [andb]; ring.
        - rewrite Z.pow_1_l by auto. rewrite Bool.andb_false_r. ring. }
      rewrite HJ.
      set (pt := if snd (strip_twos (a mod n)) && ((n mod 8 =? 3) || (n mod 8 =? 5)) then -1 else 1) in *.
      destruct (num =? 1) eqn:E1.
      { inversion H; subst. assert (num = 1) by lia. rewrite H0, J_one by auto. ring. }
      destruct (negb (Z.gcd num n =? 1)) eqn:Eg.
      { inversion H; subst. rewrite (J_not_coprime num n) by (auto; lia). ring. }
      rewrite !bfmod_spec in H by lia. cbn [bind] in H.
      destruct (unchecked_jacobi fuel n num) as [rest| | |] eqn:Hrec; cbn [bind] in H; try discriminate.
      inversion H; subst.
      apply IHfuel in Hrec; auto. subst rest.
      rewrite (J_reciprocity num n) by (auto; lia). ring.
  Qed.

  (* mp_jacobi computes J on its whole domain *)
  Theorem jacobi_spec_relative : forall a n, 0 < n -> Z.rem n 2 <> 0 -> mp_jacobi a n = Ok (J a n).
  Proof.
    intros a n Hn Ho. destruct (jacobi_total a n Hn Ho) as (r & Hr & _). rewrite Hr. f_equal.
    unfold mp_jacobi in Hr. destruct (n <? 0) eqn:E; [lia|]. destruct (Z.rem n 2 =? 0) eqn:E2; [lia|].
    apply (uj_correct _ _ _ _ ) in Hr; auto. split; auto.
    rewrite Z.rem_mod_nonneg in Ho by lia. lia.
  Qed.
End JacobiLaws.

(* ------------------------------------------------------------------ Kronecker symbol in terms of the Jacobi symbol *)
Definition kron_u (a n : Z) : Z := if (n <? 0) && (a <? 0) then -1 else 1.
Definition kron_2 (a : Z) : Z :=
  if a mod 2 =? 0 then 0 else if (a mod 8 =? 1) || (a mod 8 =? 7) then 1 else -1.

Lemma rem2_zero_iff : forall a, (Z.rem a 2 =? 0) = (a mod 2 =? 0).
Proof.
  intros a. assert (H := Z.quot_rem' a 2). assert (Hb := Z.rem_bound_abs a 2 ltac:(lia)).
  destruct (Z.rem a 2 =? 0) eqn:E; destruct (a mod 2 =? 0) eqn:E2; try reflexivity; lia.
Qed.

Section KroneckerLaws.
  Variable J : Z -> Z -> Z.
  Hypothesis J_periodic : forall a n, oddpos n -> J a n = J (a mod n) n.
  Hypothesis J_one : forall n, oddpos n -> J 1 n = 1.
  Hypothesis J_mul : forall a b n, oddpos n -> J (a * b) n = J a n * J b n.
  Hypothesis J_two : forall n, oddpos n -> J 2 n = if (n mod 8 =? 3) || (n mod 8 =? 5) then -1 else 1.
  Hypothesis J_reciprocity : forall a n, oddpos a -> oddpos n -> Z.gcd a n = 1 ->
    J a n = (if (a mod 4 =? 3) && (n mod 4 =? 3) then -1 else 1) * J n a.
  Hypothesis J_not_coprime : forall a n, oddpos n -> Z.gcd a n <> 1 -> J a n = 0.

  (* (a|n) = (a|u) (a|2)^j (a|m) for n = u 2^j m, m odd positive; (a|0) = 1 for a = +-1, else 0 *)
  Theorem kronecker_spec_relative : forall a n, n <> 0 ->
    exists j m, 0 <= j /\ Z.abs n = m * 2 ^ j /\ oddpos m /\
      mp_kronecker a n = Ok (kron_u a n * kron_2 a ^ j * J a m).
  Proof.
    intros a n Hn. unfold mp_kronecker. destruct (n =? 0) eqn:E0; [lia|].
    destruct (strip_twos_spec (Z.abs n) ltac:(lia)) as (k & Hk & He & Ho & Hr & Hp).
    set (m := fst (strip_twos (Z.abs n))) in *.
    exists k, m. split; auto. split; auto. assert (Hm : oddpos m) by (split; lia). split; auto.
    rewrite bfmod_spec by lia. cbn [bind].
    assert (Hj := jacobi_spec_relative J J_periodic J_one J_mul J_two J_reciprocity J_not_coprime a m ltac:(lia)).
    unfold mp_jacobi in Hj. destruct (m <? 0) eqn:Em; [lia|].
    assert (Hm2 : Z.rem m 2 <> 0) by (rewrite Z.rem_mod_nonneg by lia; lia).
    destruct (Z.rem m 2 =? 0) eqn:Em2; [lia|]. rewrite (Hj Hm2). cbn [bind].
    fold (kron_u a n). rewrite !rem2_zero_iff.
    (* n even iff k >= 1 *)
    assert (Hpar : (n mod 2 =? 0) = negb (k =? 0)).
    { destruct (k =? 0) eqn:Ek; cbn [negb].
      - assert (k = 0) by lia. subst k. rewrite Z.pow_0_r in He. lia.
      - assert (Hk1 : 2 ^ k = 2 * 2 ^ (k - 1)) by (rewrite <- Z.pow_succ_r by lia; f_equal; lia). lia. }
    rewrite Hpar. unfold kron_2.
    destruct (k =? 0) eqn:Ek; cbn [negb].
    - assert (k = 0) by lia. subst k. rewrite Z.pow_0_r. f_equal. ring.
    - f_equal. destruct (a mod 2 =? 0) eqn:Ea; cbn [negb].
      + rewrite Z.pow_0_l by lia. ring.
      + destruct ((a mod 8 =? 1) || (a mod 8 =? 7)) eqn:E8.
        * rewrite Z.pow_1_l by lia. cbn. ring.
        * rewrite m1_pow by lia. rewrite Hp. change (-1 =? -1) with true. cbn [andb].
          destruct (Z.odd k); ring.
  Qed.

  Theorem kronecker_zero : forall a, mp_kronecker a 0 = Ok (if (a =? 1) || (a =? -1) then 1 else 0).
  Proof. reflexivity. Qed.
End KroneckerLaws.

(* ------------------------------------------------------------------ exhaustive comparison with the definition *)
Definition zrange (lo : Z) (len : nat) : list Z := map (fun k => lo + Z.of_nat k) (seq 0 len).
Lemma In_zrange : forall lo len x, lo <= x < lo + Z.of_nat len -> In x (zrange lo len).
Proof.
  intros lo len x H. unfold zrange. apply in_map_iff. exists (Z.to_nat (x - lo)). split; [lia|].
  apply in_seq. lia.
Qed.

(* Legendre symbol (a/p), p an odd prime, by listing the squares modulo p *)
Definition legendre_def (a p : Z) : Z :=
  if a mod p =? 0 then 0
  else if existsb (fun x => (x * x) mod p =? a mod p) (zrange 1 (Z.to_nat (p - 1))) then 1 else -1.
(* Jacobi symbol: factor n by trial division (d = 3, 5, 7, ...), multiply the Legendre symbols *)
Fixpoint jacobi_def_aux (fuel : nat) (a n d : Z) : Z :=
  match fuel with
  | O => 1
  | S f => if n <=? 1 then 1
           else if n mod d =? 0 then legendre_def a d * jacobi_def_aux f a (n / d) d
           else jacobi_def_aux f a n (d + 2)
  end.
Definition jacobi_def (a n : Z) : Z := jacobi_def_aux (Z.to_nat (2 * n)) a n 3.
Definition kronecker_def (a n : Z) : Z :=
  if n =? 0 then (if Z.abs a =? 1 then 1 else 0)
  else
    let j := Z.log2 (Z.gcd (Z.abs n) (2 ^ Z.log2 (Z.abs n))) in
    kron_u a n * kron_2 a ^ j * jacobi_def a (Z.abs n / 2 ^ j).

Definition jacobi_sweep_ok : bool :=
  forallb (fun n => if n mod 2 =? 1 then
     forallb (fun a => match mp_jacobi a n with Ok r => r =? jacobi_def a n | _ => false end) (zrange (-100) 301)
     else true) (zrange 1 99).
Definition kronecker_sweep_ok : bool :=
  forallb (fun n =>
     forallb (fun a => match mp_kronecker a n with Ok r => r =? kronecker_def a n | _ => false end) (zrange (-40) 81))
     (zrange (-64) 129).

Lemma jacobi_sweep : jacobi_sweep_ok = true.
Proof. vm_compute. reflexivity. Qed.
Lemma kronecker_sweep : kronecker_sweep_ok = true.
Proof. vm_compute. reflexivity. Qed.

(* on 0 < n < 100 odd and -100 <= a <= 200 mp_jacobi is the Jacobi symbol of the definition *)
Theorem jacobi_definition_small : forall n a, 0 < n < 100 -> n mod 2 = 1 -> -100 <= a <= 200 ->
  mp_jacobi a n = Ok (jacobi_def a n).
Proof.
  intros n a Hn Ho Ha. assert (H := jacobi_sweep). unfold jacobi_sweep_ok in H.
  rewrite forallb_forall in H. specialize (H n (In_zrange 1 99 n ltac:(lia))).
  cbv beta in H. replace (n mod 2 =? 1) with true in H by lia.
  rewrite forallb_forall in H. specialize (H a (In_zrange (-100) 301 a ltac:(lia))).
  cbv beta in H. destruct (mp_jacobi a n); try discriminate. f_equal. lia.
Qed.

(* on -64 <= n <= 64 and -40 <= a <= 40 mp_kronecker is the Kronecker symbol of the definition (including n = 0) *)
Theorem kronecker_definition_small : forall n a, -64 <= n <= 64 -> -40 <= a <= 40 ->
  mp_kronecker a n = Ok (kronecker_def a n).
Proof.
  intros n a Hn Ha. assert (H := kronecker_sweep). unfold kronecker_sweep_ok in H.
  rewrite forallb_forall in H. specialize (H n (In_zrange (-64) 129 n ltac:(lia))).
  cbv beta in H.
  rewrite forallb_forall in H. specialize (H a (In_zrange (-40) 81 a ltac:(lia))).
  cbv beta in H. destruct (mp_kronecker a n); try discriminate. f_equal. lia.
Qed.
