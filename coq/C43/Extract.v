From SE Require Import C43.MpModel.
From Coq Require Import ZArith.
Require Import ExtrOcamlBasic.
Extraction "mp_model.ml" mp_fdiv_qr mp_fdiv_q mp_fdiv_r mp_cdiv_qr mp_cdiv_q mp_tdiv_qr mp_divisible_p
  mp_gcdext mp_invert mp_powm mp_root mp_sqrt mp_rootrem mp_sqrtrem mp_perfect_square_p mp_scan1
  mp_fib_ui mp_fib2_ui mp_lucnum_ui mp_lucnum2_ui mp_fac_ui mp_bin_ui
  mp_probab_prime_p mp_nextprime mp_perfect_power_p mp_legendre mp_jacobi mp_kronecker mr_det
  Z.gcd Z.lcm zpow Z.abs.
