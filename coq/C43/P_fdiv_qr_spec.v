From SE Require Import Base.Prelude C43.MpModel C43.MpSpec C43.MpDiv.
From Coq Require Import Znumtheory.
Local Open Scope Z_scope.

Theorem C43_fdiv_qr_spec :
  forall a b, b <> 0 -> mp_fdiv_qr a b = Ok (a / b, a mod b).
Proof. exact fdiv_qr_spec. Qed.
Print Assumptions C43_fdiv_qr_spec.
