From SE Require Import Base.Prelude C43.MpModel C43.MpSpec C43.MpRoot.
From Coq Require Import Znumtheory.
Local Open Scope Z_scope.

Theorem C43_root_spec :
  forall i n, 1 <= n -> (0 <= i \/ Z.rem n 2 <> 0) ->
  exists r e, mp_root i n = Ok (r, e) /\ trunc_root_spec i n r e.
Proof. exact root_spec. Qed.
Print Assumptions C43_root_spec.
