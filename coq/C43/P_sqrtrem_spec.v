From SE Require Import Base.Prelude C43.MpModel C43.MpSpec C43.MpRoot.
From Coq Require Import Znumtheory.
Local Open Scope Z_scope.

Theorem C43_sqrtrem_spec :
  forall i, 0 <= i -> mp_sqrtrem i = Ok (Z.sqrt i, i - Z.sqrt i * Z.sqrt i).
Proof. exact sqrtrem_spec. Qed.
Print Assumptions C43_sqrtrem_spec.
