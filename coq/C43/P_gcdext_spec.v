From SE Require Import Base.Prelude C43.MpModel C43.MpSpec C43.MpGcdNorm.
Local Open Scope Z_scope.

(* for ALL integers a, b the cofactors computed by the Boost backend's extended Euclid are the ones the GMP
   manual documents for mpz_gcdext (gmp_gcdext_spec: gcd, Bezout identity, |s| < |b|/(2g), |t| < |a|/(2g) and
   the manual's exceptional cases) *)
Theorem C43_gcdext_spec :
  forall a b, exists g s t, mp_gcdext a b = Ok (g, s, t) /\ gmp_gcdext_spec a b g s t.
Proof. exact gcdext_spec. Qed.
Print Assumptions C43_gcdext_spec.
