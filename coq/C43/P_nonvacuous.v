From SE Require Import Base.Prelude C43.MpModel C43.MpSpec C43.MpJacobi.
From Coq Require Import Znumtheory Lia.
Local Open Scope Z_scope.

(* concrete, non-trivial inputs satisfy the hypotheses of the C43 theorems *)
Example C43_nv_fdiv : mp_fdiv_qr (-7) 2 = Ok (-4, 1) /\ mp_cdiv_qr (-7) 2 = Ok (-3, -1) /\ mp_fdiv_qr 7 (-2) = Ok (-4, -1).
Proof. vm_compute. auto. Qed.
Example C43_nv_gcdext : mp_gcdext 240 46 = Ok (2, -9, 47) /\ mp_gcdext (-6) 4 = Ok (2, -1, -1) /\ mp_gcdext 0 0 = Ok (0, 0, 0).
Proof. vm_compute. auto. Qed.
Example C43_nv_gcdext_spec : gmp_gcdext_spec 240 46 2 (-9) 47 /\ gmp_gcdext_spec (-6) 4 2 (-1) (-1) /\ gmp_gcdext_spec 2 5 1 (-2) 1.
Proof. unfold gmp_gcdext_spec. cbn. lia. Qed.
Example C43_nv_invert : mp_invert 3 (-7) = Ok (Some 5) /\ mp_invert 2 4 = Ok None.
Proof. vm_compute. auto. Qed.
Example C43_nv_powm : mp_powm (-2) 3 (-5) = Ok 2 /\ mp_powm 2 (-1) 7 = Ok 4 /\ mp_powm 2 (-1) 4 = ErrExn EXN_SYMENGINE.
Proof. vm_compute. auto. Qed.
Example C43_nv_root : mp_root (-28) 3 = Ok (-3, false) /\ mp_root 4294967296 32 = Ok (2, true) /\ mp_root (-4) 2 = ErrExn EXN_STD.
Proof. vm_compute. auto. Qed.
Example C43_nv_fib : mp_fib2_ui 10 = (55, 34) /\ mp_lucnum2_ui 10 = (123, 76) /\ mp_lucnum2_ui 0 = (2, -1) /\ mp_bin_ui (-5) 3 = -35.
Proof. vm_compute. auto. Qed.
(* a primality test with the assumed property exists (the hypothesis of the nextprime / perfect-power theorems) *)
Example C43_nv_mr_exists : exists mr : Z -> res bool,
  forall n, 0 <= n -> exists b, mr n = Ok b /\ (b = true <-> prime n).
Proof.
  exists (fun n => Ok (if prime_dec n then true else false)). intros n _.
  eexists. split; [reflexivity|]. destruct (prime_dec n); split; auto; discriminate.
Qed.
Example C43_nv_prime : mp_nextprime mr_det 13 = Ok 17 /\ mp_perfect_power_p mr_det (-64) = Ok true
  /\ mp_perfect_power_p mr_det (-16) = Ok false /\ mp_probab_prime_p mr_det (-7) = Ok true.
Proof. vm_compute. auto. Qed.
Example C43_nv_jacobi : mp_jacobi 1001 9907 = Ok (-1) /\ mp_kronecker (-3) (-8) = Ok 1 /\ mp_kronecker 1 0 = Ok 1 /\ oddpos 9907.
Proof. vm_compute. repeat split; auto. Qed.
