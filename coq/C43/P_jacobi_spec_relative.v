From SE Require Import Base.Prelude C43.MpModel C43.MpSpec C43.MpJacobi.
From Coq Require Import Znumtheory.
Local Open Scope Z_scope.

Theorem C43_jacobi_spec_relative :
  forall J : Z -> Z -> Z,
  (forall a n, oddpos n -> J a n = J (a mod n) n) ->
  (forall n, oddpos n -> J 1 n = 1) ->
  (forall a b n, oddpos n -> J (a * b) n = J a n * J b n) ->
  (forall n, oddpos n -> J 2 n = if (n mod 8 =? 3) || (n mod 8 =? 5) then -1 else 1) ->
  (forall a n, oddpos a -> oddpos n -> Z.gcd a n = 1 ->
     J a n = (if (a mod 4 =? 3) && (n mod 4 =? 3) then -1 else 1) * J n a) ->
  (forall a n, oddpos n -> Z.gcd a n <> 1 -> J a n = 0) ->
  forall a n, 0 < n -> Z.rem n 2 <> 0 -> mp_jacobi a n = Ok (J a n).
Proof. exact jacobi_spec_relative. Qed.
Print Assumptions C43_jacobi_spec_relative.
