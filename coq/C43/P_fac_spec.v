From SE Require Import Base.Prelude C43.MpModel C43.MpSpec C43.MpFib.
From Coq Require Import Znumtheory.
Local Open Scope Z_scope.

Theorem C43_fac_spec :
  forall n, mp_fac_ui n = Z.of_nat (fact (N.to_nat n)).
Proof. exact fac_spec. Qed.
Print Assumptions C43_fac_spec.
