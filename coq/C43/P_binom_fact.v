From SE Require Import Base.Prelude C43.MpModel C43.MpSpec C43.MpBin.
From Coq Require Import Znumtheory.
Local Open Scope Z_scope.

Theorem C43_binom_fact :
  forall n k, (k <= n)%nat ->
  binom n k * Z.of_nat (fact k) * Z.of_nat (fact (n - k)) = Z.of_nat (fact n).
Proof. exact binom_fact. Qed.
Print Assumptions C43_binom_fact.
