From SE Require Import Base.Prelude C43.MpModel C43.MpSpec C43.MpPowm.
From Coq Require Import Znumtheory.
Local Open Scope Z_scope.

Theorem C43_powm_spec :
  forall base e m, m <> 0 -> 0 <= e -> mp_powm base e m = Ok ((base ^ e) mod (Z.abs m)).
Proof. exact powm_spec. Qed.
Print Assumptions C43_powm_spec.
