From SE Require Import Base.Prelude C43.MpModel C43.MpSpec C43.MpJacobi.
From Coq Require Import Znumtheory.
Local Open Scope Z_scope.

Theorem C43_jacobi_definition_small :
  forall n a, 0 < n < 100 -> n mod 2 = 1 -> -100 <= a <= 200 ->
  mp_jacobi a n = Ok (jacobi_def a n).
Proof. exact jacobi_definition_small. Qed.
Print Assumptions C43_jacobi_definition_small.
