From SE Require Import Base.Prelude C43.MpModel C43.MpSpec C43.MpFib.
From Coq Require Import Znumtheory.
Local Open Scope Z_scope.

Theorem C43_fib_spec :
  forall n, mp_fib_ui n = fibn (N.to_nat n).
Proof. exact fib_spec. Qed.
Print Assumptions C43_fib_spec.
