From SE Require Import Base.Prelude C43.MpModel C43.MpSpec C43.MpPowm.
From Coq Require Import Znumtheory.
Local Open Scope Z_scope.

Theorem C43_powm_spec_neg :
  forall base e m, m <> 0 -> e < 0 ->
  (Z.gcd base m <> 1 /\ mp_powm base e m = ErrExn EXN_SYMENGINE) \/
  (Z.gcd base m = 1 /\ exists r, mp_powm base e m = Ok r /\ 0 <= r < Z.abs m /\ (m | r * base ^ (- e) - 1)).
Proof. exact powm_spec_neg. Qed.
Print Assumptions C43_powm_spec_neg.
