(* C43 -- integer n-th roots by Newton's iteration (positive_root / mp_root / mp_rootrem / mp_sqrt / mp_sqrtrem /
   mp_perfect_square_p): the loop terminates and returns the truncated root with the right exactness flag *)
From SE Require Import Base.Prelude C43.MpModel C43.MpSpec C43.MpLoop.
From Coq Require Import Lia ZifyBool Znumtheory.
Local Open Scope Z_scope.

(* weighted AM-GM / tangent inequality:  (k+1) r x^k <= r^(k+1) + k x^(k+1)  for r, x >= 0 *)
Lemma tangent_ineq : forall k, 0 <= k -> forall r x, 0 <= r -> 0 <= x ->
  (k + 1) * r * x ^ k <= r ^ (k + 1) + k * x ^ (k + 1).
Proof.
  intros k Hk. pattern k. apply natlike_ind; auto.
  - intros. rewrite Z.pow_0_r, Z.pow_1_r. lia.
  - intros j Hj IH r x Hr Hx.
    specialize (IH r x Hr Hx).
    replace (j + 1) with (Z.succ j) in IH by lia.
    rewrite !Z.pow_succ_r in IH by lia.
    replace (Z.succ j + 1) with (Z.succ (Z.succ j)) by lia.
    rewrite !Z.pow_succ_r by lia.
    set (R := r ^ j) in *. set (X := x ^ j) in *.
    assert (HR : 0 <= R) by (apply Z.pow_nonneg; auto).
    assert (HX : 0 <= X) by (apply Z.pow_nonneg; auto).
    (* r^(j+2) + (j+1) x^(j+2) - (j+2) r x^(j+1) = r * (IH slack) + (j+1) x^j (x - r)^2 *)
    assert (Hsq : 0 <= (Z.succ j) * X * ((x - r) * (x - r))) by (apply Z.mul_nonneg_nonneg; [apply Z.mul_nonneg_nonneg; lia | apply Z.square_nonneg]).
    assert (Hm : 0 <= r * (r * R + j * (x * X) - Z.succ j * r * X)) by (apply Z.mul_nonneg_nonneg; lia).
    clear - Hsq Hm. lia.
Qed.

Section Newton.
  Variables n i : Z.
  Hypothesis Hn : 2 <= n.
  Hypothesis Hi : 1 <= i.

  Lemma root_step_ok : forall x, 1 <= x ->
    root_step n i x = Ok (((n - 1) * x + i / x ^ (n - 1)) / n).
  Proof.
    intros x Hx. unfold root_step. rewrite zpow_spec.
    assert (HX : 0 < x ^ (n - 1)) by (apply Z.pow_pos_nonneg; lia).
    unfold bquot. destruct (x ^ (n - 1) =? 0) eqn:E; [lia|]. cbn [bind].
    destruct (n =? 0) eqn:E2; [lia|].
    rewrite (Z.quot_div_nonneg i) by lia.
    assert (0 <= i / x ^ (n - 1)) by (apply Z.div_pos; lia).
    rewrite Z.quot_div_nonneg by nia. reflexivity.
  Qed.

  Definition nstep (x : Z) : Z := ((n - 1) * x + i / x ^ (n - 1)) / n.

  (* (B) every iterate is at least any r with r^n <= i *)
  Lemma nstep_lower : forall x r, 1 <= x -> 0 <= r -> r ^ n <= i -> r <= nstep x.
  Proof.
    intros x r Hx Hr Hrn. unfold nstep.
    apply Z.div_le_lower_bound; [lia|].
    set (X := x ^ (n - 1)). assert (HX : 0 < X) by (apply Z.pow_pos_nonneg; lia).
    set (d := i / X).
    assert (Hd : d * X <= i < (d + 1) * X).
    { unfold d. assert (H := Z.div_mod i X ltac:(lia)). assert (H2 := Z.mod_pos_bound i X HX). nia. }
    assert (Hd0 : 0 <= d) by (apply Z.div_pos; lia).
    destruct (Z_le_gt_dec (n * r) ((n - 1) * x + d)) as [|Hgt]; [lia|exfalso].
    (* d + 1 <= n r - (n-1) x, so i < (n r - (n-1) x) x^(n-1) <= r^n *)
    assert (Ht := tangent_ineq (n - 1) ltac:(lia) r x Hr ltac:(lia)).
    replace (n - 1 + 1) with n in Ht by lia.
    assert (Hxn : x ^ n = x * X).
    { unfold X. replace n with (Z.succ (n - 1)) at 1 by lia. rewrite Z.pow_succ_r by lia. reflexivity. }
    rewrite Hxn in Ht. fold X in Ht.
    assert (Hk : (d + 1) * X <= (n * r - (n - 1) * x) * X) by (apply Z.mul_le_mono_nonneg_r; lia).
    nia.
  Qed.

  (* (C) above the root the iteration decreases *)
  Lemma nstep_decreases : forall x, 1 <= x -> i < x ^ n -> nstep x < x.
  Proof.
    intros x Hx Hlt. unfold nstep.
    set (X := x ^ (n - 1)). assert (HX : 0 < X) by (apply Z.pow_pos_nonneg; lia).
    assert (Hxn : x ^ n = x * X).
    { unfold X. replace n with (Z.succ (n - 1)) at 1 by lia. rewrite Z.pow_succ_r by lia. reflexivity. }
    assert (Hd : i / X < x) by (apply Z.div_lt_upper_bound; nia).
    apply Z.div_lt_upper_bound; lia.
  Qed.

  Definition rinv (y : Z) : Prop := 1 <= y /\ forall r, 0 <= r -> r ^ n <= i -> r <= y.

  Lemma rinv_nstep : forall x, 1 <= x -> rinv (nstep x).
  Proof.
    intros x Hx. split.
    - apply (nstep_lower x 1); try lia. rewrite Z.pow_1_l by lia. lia.
    - intros r Hr Hrn. apply nstep_lower; auto.
  Qed.

  Lemma root_loop_step_inl : forall y y', 1 <= y -> root_loop_step n i y = inl y' -> y' = nstep y /\ y' < y.
  Proof.
    intros y y' Hy H. unfold root_loop_step in H. rewrite root_step_ok in H by auto. fold (nstep y) in H.
    destruct (nstep y <? y) eqn:E; inversion H; subst. split; [reflexivity|lia].
  Qed.
  Lemma root_loop_step_inr : forall y r, 1 <= y -> root_loop_step n i y = inr r -> r = Ok y /\ y <= nstep y.
  Proof.
    intros y r Hy H. unfold root_loop_step in H. rewrite root_step_ok in H by auto. fold (nstep y) in H.
    destruct (nstep y <? y) eqn:E; inversion H; subst. split; [reflexivity|lia].
  Qed.

  (* positive_root returns the floor of the n-th root of i and tells whether it is exact *)
  Theorem positive_root_spec : exists r,
    positive_root i n = Ok (r, r ^ n =? i) /\ 1 <= r /\ r ^ n <= i < (r + 1) ^ n.
  Proof.
    unfold positive_root. rewrite root_step_ok by lia. fold (nstep 1). cbn [bind].
    assert (H0 : rinv (nstep 1)) by (apply rinv_nstep; lia).
    set (y0 := nstep 1) in *.
    destruct (run_loop_terminates (root_loop_step n i) rinv (fun y => Z.to_nat y)) with (fuel := Z.to_pos (Z.abs y0 + 2)) (s := y0)
      as [res Hres]; auto.
    { intros s s' [Hs _] Hstep. apply root_loop_step_inl in Hstep; auto. destruct Hstep as [-> Hlt].
      split; [apply rinv_nstep; auto | lia]. }
    { destruct H0. lia. }
    rewrite Hres. cbn [bind].
    destruct (run_loop_exit (root_loop_step n i) rinv) with (fuel := Z.to_pos (Z.abs y0 + 2)) (s := y0) (r := res)
      as [x [[Hx1 Hxr] Hexit]]; auto.
    { intros s s' [Hs _] Hstep. apply root_loop_step_inl in Hstep; auto. destruct Hstep as [-> Hlt].
      apply rinv_nstep; auto. }
    apply root_loop_step_inr in Hexit; auto. destruct Hexit as [-> Hge]. cbn [bind].
    exists x. rewrite zpow_spec. split; [reflexivity|]. split; auto. split.
    - destruct (Z_le_gt_dec (x ^ n) i); auto. assert (Hd := nstep_decreases x Hx1 ltac:(lia)). lia.
    - destruct (Z_lt_le_dec i ((x + 1) ^ n)); auto. specialize (Hxr (x + 1) ltac:(lia) ltac:(lia)). lia.
  Qed.
End Newton.

Lemma pow_opp_odd : forall r n, 0 <= n -> Z.rem n 2 <> 0 -> (- r) ^ n = - r ^ n.
Proof.
  intros r n Hn Hodd. apply Z.pow_opp_odd.
  rewrite Z.rem_mod_nonneg in Hodd by lia.
  apply Z.odd_spec. rewrite Zodd_mod. apply Zeq_is_eq_bool. assert (H := Z.mod_pos_bound n 2 ltac:(lia)). lia.
Qed.

(* mp_root = mpz_root for every radicand and every index n >= 1 for which the real root exists *)
Theorem root_spec : forall i n, 1 <= n -> (0 <= i \/ Z.rem n 2 <> 0) ->
  exists r e, mp_root i n = Ok (r, e) /\ trunc_root_spec i n r e.
Proof.
  intros i n Hn Hdom. unfold mp_root.
  destruct (n =? 0) eqn:E0; [lia|].
  destruct (n =? 1) eqn:E1.
  { assert (n = 1) by lia. subst. exists i, true. split; [reflexivity|]. unfold trunc_root_spec.
    rewrite !Z.pow_1_r. repeat split; intros; try lia. }
  destruct (i =? 0) eqn:Ei.
  { assert (i = 0) by lia. subst. exists 0, true. split; [reflexivity|]. unfold trunc_root_spec.
    rewrite Z.pow_0_l by lia. rewrite Z.add_0_l, Z.pow_1_l by lia. repeat split; intros; try lia. }
  destruct (0 <? i) eqn:Ep.
  { destruct (positive_root_spec n i ltac:(lia) ltac:(lia)) as (r & Hr & Hr1 & Hrange).
    exists r, (r ^ n =? i). split; [exact Hr|]. unfold trunc_root_spec. repeat split; intros; try lia. }
  destruct ((i <? 0) && (Z.rem n 2 =? 0)) eqn:Eneg; [lia|].
  assert (Hodd : Z.rem n 2 <> 0) by lia.
  destruct (positive_root_spec n (- i) ltac:(lia) ltac:(lia)) as (r & Hr & Hr1 & Hrange).
  rewrite Hr. cbn [bind fst snd].
  exists (r * -1), (r ^ n =? - i). split; [reflexivity|]. unfold trunc_root_spec.
  replace (- (r * -1)) with r by lia.
  split; [intros; lia|]. split; [intros; split; [lia|exact Hrange]|].
  replace (r * -1) with (- r) by lia. rewrite pow_opp_odd by (auto; lia). lia.
Qed.

Theorem root_errors : forall i n,
  (n = 0 -> mp_root i n = ErrExn EXN_STD) /\
  (1 < n -> i < 0 -> Z.rem n 2 = 0 -> mp_root i n = ErrExn EXN_STD).
Proof.
  intros i n. unfold mp_root. split.
  - intros ->. reflexivity.
  - intros Hn Hi He. destruct (n =? 0) eqn:E0; [lia|]. destruct (n =? 1) eqn:E1; [lia|].
    destruct (i =? 0) eqn:E2; [lia|]. destruct (0 <? i) eqn:E3; [lia|].
    destruct ((i <? 0) && (Z.rem n 2 =? 0)) eqn:E4; [reflexivity|lia].
Qed.

(* mp_rootrem / mp_sqrt / mp_sqrtrem / mp_perfect_square_p *)
Theorem rootrem_spec : forall i n, 1 <= n -> (0 <= i \/ Z.rem n 2 <> 0) ->
  exists r e, mp_rootrem i n = Ok (r, i - r ^ n) /\ trunc_root_spec i n r e.
Proof.
  intros i n Hn Hd. destruct (root_spec i n Hn Hd) as (r & e & Hr & Hs).
  exists r, e. unfold mp_rootrem. rewrite Hr. cbn [bind fst]. rewrite zpow_spec. auto.
Qed.

Theorem sqrt_spec : forall i, 0 <= i -> mp_sqrt i = Ok (Z.sqrt i).
Proof.
  intros i Hi. destruct (root_spec i 2 ltac:(lia) ltac:(lia)) as (r & e & Hr & Hs & _).
  unfold mp_sqrt. rewrite Hr. cbn [bind fst]. f_equal.
  destruct (Hs Hi) as [Hr0 Hrange]. symmetry. apply Z.sqrt_unique.
  replace (Z.succ r) with (r + 1) by lia. rewrite !Z.pow_2_r in Hrange. lia.
Qed.

Theorem sqrtrem_spec : forall i, 0 <= i -> mp_sqrtrem i = Ok (Z.sqrt i, i - Z.sqrt i * Z.sqrt i).
Proof.
  intros i Hi. unfold mp_sqrtrem. rewrite sqrt_spec by auto. cbn [bind]. rewrite zpow_spec, Z.pow_2_r. reflexivity.
Qed.

Theorem perfect_square_spec : forall i, exists b, mp_perfect_square_p i = Ok b /\ (b = true <-> perfect_square i).
Proof.
  intros i. unfold mp_perfect_square_p, perfect_square. destruct (i <? 0) eqn:E.
  - exists false. split; [reflexivity|]. split; [discriminate|]. intros [a Ha]. nia.
  - destruct (root_spec i 2 ltac:(lia) ltac:(lia)) as (r & e & Hr & Hs & _ & Hex).
    rewrite Hr. cbn [bind snd]. exists e. split; [reflexivity|]. rewrite Hex. rewrite Z.pow_2_r.
    split; [intros H; exists r; exact H|].
    intros [a Ha]. destruct (Hs ltac:(lia)) as [Hr0 Hrange]. rewrite !Z.pow_2_r in Hrange.
    assert (Habs : Z.abs a = r) by nia. nia.
Qed.
