From SE Require Import Base.Prelude C43.MpModel C43.MpSpec C43.MpRoot.
From Coq Require Import Znumtheory.
Local Open Scope Z_scope.

Theorem C43_perfect_square_spec :
  forall i, exists b, mp_perfect_square_p i = Ok b /\ (b = true <-> perfect_square i).
Proof. exact perfect_square_spec. Qed.
Print Assumptions C43_perfect_square_spec.
