(* Generic facts about the lazily fuelled loop combinator iterP / run_loop of MpModel.v:
   it is the nat-fuelled iteration, invariants are preserved, a decreasing measure bounds the fuel. *)
From SE Require Import Base.Prelude C43.MpModel.
From Coq Require Import Lia.

Section LoopFacts.
  Context {S R : Type} (step : S -> S + R).

  Fixpoint iterN (n : nat) (s : S) : S + R :=
    match n with
    | O => inl s
    | Datatypes.S n' => match step s with inl s' => iterN n' s' | inr r => inr r end
    end.

  Lemma iterN_add : forall a b s,
    iterN (a + b) s = match iterN a s with inl s' => iterN b s' | inr r => inr r end.
  Proof.
    induction a; intros; cbn [iterN Nat.add]; auto.
    destruct (step s); auto.
  Qed.

  Lemma iterN_1 : forall s, iterN 1 s = step s.
  Proof. intros; cbn. destruct (step s); auto. Qed.

  Lemma iterP_iterN : forall p s, iterP step p s = iterN (Pos.to_nat p) s.
  Proof.
    induction p; intros; cbn [iterP].
    - rewrite Pos2Nat.inj_xI.
      replace (Datatypes.S (2 * Pos.to_nat p)) with (Pos.to_nat p + (Pos.to_nat p + 1))%nat by lia.
      rewrite iterN_add, IHp. destruct (iterN (Pos.to_nat p) s) as [s1|r1]; [|reflexivity].
      rewrite iterN_add, IHp. destruct (iterN (Pos.to_nat p) s1) as [s2|r2]; [|reflexivity].
      rewrite iterN_1. reflexivity.
    - rewrite Pos2Nat.inj_xO.
      replace (2 * Pos.to_nat p)%nat with (Pos.to_nat p + Pos.to_nat p)%nat by lia.
      rewrite iterN_add, IHp. destruct (iterN (Pos.to_nat p) s) as [s1|r1]; [|reflexivity].
      apply IHp.
    - rewrite Pos2Nat.inj_1. rewrite iterN_1. reflexivity.
  Qed.

  (* an invariant kept by every continuing step holds in the state from which the loop exits *)
  Lemma iterN_exit : forall (Inv : S -> Prop),
    (forall s s', Inv s -> step s = inl s' -> Inv s') ->
    forall n s r, Inv s -> iterN n s = inr r -> exists sf, Inv sf /\ step sf = inr r.
  Proof.
    intros Inv Hpres. induction n; intros s r Hs H; cbn [iterN] in H; try discriminate.
    destruct (step s) eqn:E.
    - eapply IHn; [eapply Hpres; eauto | exact H].
    - inversion H; subst. eauto.
  Qed.

  (* a measure that strictly decreases along continuing steps bounds the number of turns *)
  Lemma iterN_terminates : forall (Inv : S -> Prop) (mu : S -> nat),
    (forall s s', Inv s -> step s = inl s' -> Inv s' /\ (mu s' < mu s)%nat) ->
    forall n s, Inv s -> (mu s < n)%nat -> exists r, iterN n s = inr r.
  Proof.
    intros Inv mu Hdec. induction n; intros s Hs Hlt; [lia|].
    cbn [iterN]. destruct (step s) eqn:E; eauto.
    destruct (Hdec _ _ Hs E) as [Hi Hm]. apply IHn; auto. lia.
  Qed.

  Lemma run_loop_exit : forall (Inv : S -> Prop),
    (forall s s', Inv s -> step s = inl s' -> Inv s') ->
    forall fuel s r, Inv s -> run_loop step fuel s = Ok r -> exists sf, Inv sf /\ step sf = inr r.
  Proof.
    intros Inv Hp fuel s r Hs H. unfold run_loop in H. rewrite iterP_iterN in H.
    destruct (iterN (Pos.to_nat fuel) s) eqn:E; try discriminate. inversion H; subst.
    eapply iterN_exit; eauto.
  Qed.

  Lemma run_loop_terminates : forall (Inv : S -> Prop) (mu : S -> nat),
    (forall s s', Inv s -> step s = inl s' -> Inv s' /\ (mu s' < mu s)%nat) ->
    forall fuel s, Inv s -> (mu s < Pos.to_nat fuel)%nat -> exists r, run_loop step fuel s = Ok r.
  Proof.
    intros Inv mu Hd fuel s Hs Hlt. unfold run_loop. rewrite iterP_iterN.
    destruct (iterN_terminates Inv mu Hd _ _ Hs Hlt) as [r Hr]. rewrite Hr. eauto.
  Qed.
End LoopFacts.
