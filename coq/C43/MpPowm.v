(* C43 -- modular exponentiation (mp_powm): boost's square-and-multiply loop with truncating %,
   the sign repair of mp_boost.cpp, negative exponents through mp_invert *)
From SE Require Import Base.Prelude C43.MpModel C43.MpSpec C43.MpLoop C43.MpDiv C43.MpGcd.
From Coq Require Import Lia ZifyBool Znumtheory Zpow_facts.
Local Open Scope Z_scope.

Lemma rem_mod_abs : forall u c, c <> 0 -> (Z.rem u c) mod (Z.abs c) = u mod (Z.abs c).
Proof.
  intros u c Hc. assert (H := Z.quot_rem' u c).
  replace (Z.rem u c) with (u + (- Z.quot u c * Z.sgn c) * Z.abs c).
  - apply Z_mod_plus_full.
  - assert (Hs := Z.sgn_abs c). nia.
Qed.

Lemma mul_mod_abs : forall M x y x' y', 0 < M -> x mod M = x' mod M -> y mod M = y' mod M ->
  (x * y) mod M = (x' * y') mod M.
Proof.
  intros. rewrite Zmult_mod, H0, H1, <- Zmult_mod. reflexivity.
Qed.

Lemma bpowm_pos_mod : forall p x y c, c <> 0 ->
  (bpowm_pos x y p c) mod (Z.abs c) = (x * y ^ (Zpos p)) mod (Z.abs c).
Proof.
  induction p; intros x y c Hc; cbn [bpowm_pos]; assert (HM : 0 < Z.abs c) by lia.
  - rewrite IHp by auto. rewrite Pos2Z.inj_xI.
    replace (2 * Z.pos p + 1) with (Z.pos p + Z.pos p + 1) by lia.
    rewrite !Z.pow_add_r, Z.pow_1_r by lia.
    replace (x * (y ^ Z.pos p * y ^ Z.pos p * y)) with ((x * y) * (y * y) ^ Z.pos p)
      by (rewrite Z.pow_mul_l; ring).
    apply mul_mod_abs; auto using rem_mod_abs.
    rewrite Zpower_mod, rem_mod_abs, <- Zpower_mod by auto. reflexivity.
  - rewrite IHp by auto. rewrite Pos2Z.inj_xO.
    replace (2 * Z.pos p) with (Z.pos p + Z.pos p) by lia.
    rewrite !Z.pow_add_r by lia.
    replace (x * (y ^ Z.pos p * y ^ Z.pos p)) with (x * (y * y) ^ Z.pos p)
      by (rewrite Z.pow_mul_l; ring).
    apply mul_mod_abs; auto.
    rewrite Zpower_mod, rem_mod_abs, <- Zpower_mod by auto. reflexivity.
  - rewrite rem_mod_abs by auto. rewrite Z.pow_1_r. reflexivity.
Qed.

Lemma bpowm_pos_nonneg : forall p x y c, c <> 0 -> 0 <= x -> 0 <= y -> 0 <= bpowm_pos x y p c.
Proof.
  induction p; intros x y c Hc Hx Hy; cbn [bpowm_pos].
  - apply IHp; auto; apply Z.rem_nonneg; auto; nia.
  - apply IHp; auto; apply Z.rem_nonneg; auto; nia.
  - apply Z.rem_nonneg; auto; nia.
Qed.

(* boost::multiprecision::powm(a, e, c), e >= 0: congruent to a^e, |result| < |c| *)
Lemma bpowm_mod : forall a e c, c <> 0 -> 0 <= e ->
  exists r, bpowm a e c = Ok r /\ r mod (Z.abs c) = (a ^ e) mod (Z.abs c) /\ Z.abs r < Z.abs c /\ (0 <= a -> 0 <= r).
Proof.
  intros a e c Hc He. unfold bpowm. destruct (c =? 0) eqn:E; [lia|].
  destruct e as [|p|p]; [| |lia].
  - eexists; split; [reflexivity|]. rewrite rem_mod_abs by auto. rewrite Z.pow_0_r.
    split; [reflexivity|]. split; [apply Z.rem_bound_abs; auto|]. intros _. apply Z.rem_nonneg; auto; lia.
  - eexists; split; [reflexivity|]. rewrite rem_mod_abs, bpowm_pos_mod by auto.
    rewrite Z.mul_1_l. split; [reflexivity|]. split; [apply Z.rem_bound_abs; auto|].
    intros Ha. apply Z.rem_nonneg; auto. apply bpowm_pos_nonneg; auto; lia.
Qed.

(* mp_powm with a non-negative exponent is mpz_powm: the least non-negative residue of base^exp modulo |m| *)
Theorem powm_spec : forall base e m, m <> 0 -> 0 <= e ->
  mp_powm base e m = Ok ((base ^ e) mod (Z.abs m)).
Proof.
  intros base e m Hm He. unfold mp_powm. destruct (e <? 0) eqn:E; [lia|].
  destruct (bpowm_mod base e m Hm He) as (r & Hr & Hmod & Hab & _). rewrite Hr. cbn [bind].
  f_equal. rewrite <- Hmod.
  destruct (r <? 0) eqn:E2.
  - rewrite <- (Z_mod_plus_full r 1 (Z.abs m)). rewrite Z.mul_1_l. symmetry. apply Z.mod_small. lia.
  - symmetry. apply Z.mod_small. lia.
Qed.

(* negative exponent: defined exactly when the base is invertible modulo m (GMP raises a division by zero
   otherwise, the Boost backend throws SymEngineException); the result r in [0,|m|) satisfies r * base^|e| = 1 (mod m) *)
Theorem powm_spec_neg : forall base e m, m <> 0 -> e < 0 ->
  (Z.gcd base m <> 1 /\ mp_powm base e m = ErrExn EXN_SYMENGINE) \/
  (Z.gcd base m = 1 /\ exists r, mp_powm base e m = Ok r /\ 0 <= r < Z.abs m /\ (m | r * base ^ (- e) - 1)).
Proof.
  intros base e m Hm He. unfold mp_powm. destruct (e <? 0) eqn:E; [|lia].
  destruct (invert_spec base m Hm) as (o & Ho & Hspec). rewrite Ho. cbn [bind].
  destruct o as [bi|]; cbn [gmp_invert_spec] in Hspec.
  - right. destruct Hspec as (Hg & Hrange & Hdiv). split; auto.
    assert (He' : 0 <= Z.abs e) by lia.
    destruct (bpowm_mod bi (Z.abs e) m Hm He') as (r & Hr & Hmod & Hab & Hnn).
    exists r. split; auto. split; [specialize (Hnn ltac:(lia)); lia|].
    apply Z.divide_abs_l. apply Z.mod_divide; [lia|].
    replace (- e) with (Z.abs e) by lia.
    assert (HM : 0 < Z.abs m) by lia.
    (* r * base^k = bi^k * base^k = (bi*base)^k = 1 *)
    assert (H1 : (r * base ^ Z.abs e) mod Z.abs m = 1 mod Z.abs m).
    { rewrite Zmult_mod, Hmod, <- Zmult_mod, <- Z.pow_mul_l.
      rewrite Zpower_mod by auto.
      assert (Hb : (bi * base) mod Z.abs m = 1 mod Z.abs m).
      { apply Z.divide_abs_l in Hdiv. destruct Hdiv as [k Hk].
        replace (bi * base) with (1 + k * Z.abs m) by lia. apply Z_mod_plus_full. }
      rewrite Hb, <- Zpower_mod by auto. rewrite Z.pow_1_l by lia. reflexivity. }
    rewrite Zminus_mod, H1, Z.sub_diag. apply Z.mod_0_l. lia.
  - left. cbn in Hspec. auto.
Qed.
