From SE Require Import Base.Prelude C43.MpModel C43.MpSpec C43.MpJacobi.
From Coq Require Import Znumtheory.
Local Open Scope Z_scope.

Theorem C43_kronecker_definition_small :
  forall n a, -64 <= n <= 64 -> -40 <= a <= 40 ->
  mp_kronecker a n = Ok (kronecker_def a n).
Proof. exact kronecker_definition_small. Qed.
Print Assumptions C43_kronecker_definition_small.
