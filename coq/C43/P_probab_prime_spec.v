From SE Require Import Base.Prelude C43.MpModel C43.MpSpec C43.MpPrime.
From Coq Require Import Znumtheory.
Local Open Scope Z_scope.

Theorem C43_probab_prime_spec :
  forall mr : Z -> res bool,
  (forall n, 0 <= n -> exists b, mr n = Ok b /\ (b = true <-> prime n)) ->
  forall i, exists b, mp_probab_prime_p mr i = Ok b /\ (b = true <-> prime (Z.abs i)).
Proof. exact probab_prime_spec. Qed.
Print Assumptions C43_probab_prime_spec.
