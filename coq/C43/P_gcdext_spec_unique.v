From SE Require Import Base.Prelude C43.MpModel C43.MpSpec C43.MpGcdNorm.
Local Open Scope Z_scope.

(* the specification documented for mpz_gcdext determines (g, s, t): together with C43_gcdext_spec, any backend
   whose gcd_ext meets GMP's documentation returns exactly what the Boost backend's extended Euclid returns *)
Theorem C43_gcdext_spec_unique :
  forall a b g s t g' s' t',
  gmp_gcdext_spec a b g s t -> gmp_gcdext_spec a b g' s' t' -> g = g' /\ s = s' /\ t = t'.
Proof. exact gcdext_spec_unique. Qed.
Print Assumptions C43_gcdext_spec_unique.
