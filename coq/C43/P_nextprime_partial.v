From SE Require Import Base.Prelude C43.MpModel C43.MpSpec C43.MpPrime.
From Coq Require Import Znumtheory.
Local Open Scope Z_scope.

Theorem C43_nextprime_partial :
  forall mr : Z -> res bool,
  (forall n, 0 <= n -> exists b, mr n = Ok b /\ (b = true <-> prime n)) ->
  forall i p, mp_nextprime mr i = Ok p -> next_prime_spec i p.
Proof. exact nextprime_partial. Qed.
Print Assumptions C43_nextprime_partial.
