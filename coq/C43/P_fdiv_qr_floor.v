From SE Require Import Base.Prelude C43.MpModel C43.MpSpec C43.MpDiv.
From Coq Require Import Znumtheory.
Local Open Scope Z_scope.

Theorem C43_fdiv_qr_floor :
  forall a b q r, mp_fdiv_qr a b = Ok (q, r) -> floor_div_spec a b q r.
Proof. exact fdiv_qr_floor. Qed.
Print Assumptions C43_fdiv_qr_floor.
