(* Shared conventions for all models (DESIGN.md appendix B.1).
   - machine integers carry their wrap explicitly (u32 / u64 on N)
   - every partial operation returns a [res]: an out-of-range array access, an
     exhausted fuel or a thrown exception is an observable value of the model. *)
From Coq Require Export List NArith ZArith Bool Lia.
Export ListNotations.

Inductive res (A : Type) : Type :=
| Ok (a : A)
| ErrOOB (idx len : N)        (* array access outside [0,len) *)
| ErrFuel                     (* a loop did not finish within its fuel *)
| ErrExn (cls : N).           (* a C++ exception, by class code *)
Arguments Ok {A} a.
Arguments ErrOOB {A} idx len.
Arguments ErrFuel {A}.
Arguments ErrExn {A} cls.

Definition bind {A B} (r : res A) (f : A -> res B) : res B :=
  match r with
  | Ok a => f a
  | ErrOOB i l => ErrOOB i l
  | ErrFuel => ErrFuel
  | ErrExn c => ErrExn c
  end.

Definition is_ok {A} (r : res A) : bool :=
  match r with Ok _ => true | _ => false end.

Declare Scope res_scope.
Notation "'do' x <- r ; k" := (bind r (fun x => k))
  (at level 200, x name, r at level 100, k at level 200) : res_scope.
Notation "'do' ' p <- r ; k" := (bind r (fun x => match x with p => k end))
  (at level 200, p pattern, r at level 100, k at level 200) : res_scope.

Local Open Scope N_scope.

(* 32-bit and 64-bit unsigned arithmetic *)
Definition W32 : N := 4294967296.
Definition W64 : N := 18446744073709551616.
Definition u32 (x : N) : N := x mod W32.
Definition uadd (a b : N) : N := (a + b) mod W32.
Definition umul (a b : N) : N := (a * b) mod W32.
(* a - b in unsigned arithmetic (wraps below zero) *)
Definition usub (a b : N) : N := (a + W32 - b mod W32) mod W32.

(* exception classes, as printed by the drivers (harness/common.h: exn_name) *)
Definition EXN_NOTIMPL : N := 1.     (* NotImplementedError *)
Definition EXN_DOMAIN : N := 2.      (* DomainError *)
Definition EXN_DIVZERO : N := 3.     (* DivisionByZeroError *)
Definition EXN_PARSE : N := 4.       (* ParseError *)
Definition EXN_SERIAL : N := 5.      (* SerializationError *)
Definition EXN_SYMENGINE : N := 6.   (* any other SymEngineException *)
Definition EXN_STD : N := 7.         (* std::exception not from SymEngine *)
