(* hash_t arithmetic: N modulo 2^64 with the wrap written out (basic-inl.h hash_combine). *)
From SE Require Export Base.Prelude.
Local Open Scope N_scope.

Definition w64 (x : N) : N := x mod W64.

(* seed ^= v + 0x9e3779b9 + (seed << 6) + (seed >> 2)      (all in 64-bit unsigned) *)
Definition hash_combine (seed v : N) : N :=
  N.lxor seed (w64 (w64 v + 2654435769 + w64 (N.shiftl seed 6) + N.shiftr seed 2)).

(* two's-complement image of a signed integer in 64 bits: (hash_t)(long long) z *)
Definition w64_of_Z (z : Z) : N := Z.to_N (z mod 18446744073709551616)%Z.

(* static_cast<hash_t>(char c) with signed char: bytes >= 0x80 sign-extend *)
Definition w64_of_char (c : N) : N :=
  if c <? 128 then c else w64 (W64 - 256 + c).

(* hash_combine(seed, std::string) *)
Definition hash_string (seed : N) (s : list N) : N :=
  fold_left (fun h c => hash_combine h (w64_of_char c)) s seed.

(* mp_get_ui: the least significant 64 bits of |z|;  mp_get_si: the same bits with z's sign,
   as a signed long *)
Definition mp_get_ui (z : Z) : N := w64 (Z.abs_N z).
Definition mp_get_si_w64 (z : Z) : N :=
  (* (hash_t)(long long) mpz_get_si(z).  GMP: for z > 0 the low 63 bits of z; for z < 0
     the value -1 - ((|z| - 1) & LONG_MAX) *)
  match z with
  | Zneg _ => w64 (W64 - 1 - (Z.abs_N z - 1) mod 9223372036854775808)
  | _ => (Z.abs_N z) mod 9223372036854775808
  end.
