From SE Require Import C44.C44Spec C44.LatexProofs.
Local Open Scope N_scope.
(* latex(FiniteSet(1, 2)) = "\left{1 , 2\right}": `{` is not a delimiter *)
Theorem C44_latex_balanced_refuted :
  exists l, latex_toks (EFN TC_FiniteSet [ENum (NInt 1); ENum (NInt 2)]) = Ok l /\ ~ latex_wf l
            /\ lrender l = [92; 108; 101; 102; 116; 123; 49; 32; 44; 32; 50; 92; 114; 105; 103; 104; 116; 125].
Proof. exact latex_balanced_refuted. Qed.
Print Assumptions C44_latex_balanced_refuted.
