From SE Require Import C44.C44Spec C44.MathMLProofs.
(* mathml(e) is one well-formed XML element (tags nest, names are XML names, character data is
   escaped), for every expression whose function classes have a name-table entry. *)
Theorem C44_mathml_wellformed :
  forall (e : expr) (l : list xtok), mm_guard e = true -> mathml_toks e = Ok l -> xelement l.
Proof. exact mathml_wellformed. Qed.
Print Assumptions C44_mathml_wellformed.
