(* C44 -- model of StringBox (symengine/printers/stringbox.cpp) and of UnicodePrinter
   (symengine/printers/unicode.cpp).
   A StringBox is its vector of lines (std::string = byte lists, UTF-8) and its width_ field, which
   the C++ code maintains separately from the strings.  Every mutating member function is a
   function returning the new value(s): the binary operations also mutate their ARGUMENT
   (add_right pads the box with fewer lines, add_below the narrower one), and unicode.cpp reuses
   such arguments (the "op", "comma" and "mulbox" locals), so both results are returned and threaded.
   vector accesses lines_[0] / lines_.back() on an empty vector are ErrOOB 0 0 (the library, built
   with _GLIBCXX_ASSERTIONS, aborts).
   Display width of a line = number of bytes that are not UTF-8 continuation bytes (every code
   point is taken to occupy one column).  Model file: no proofs. *)
From Coq Require Import String.
From SE Require Export C44.Names.
Local Open Scope N_scope.

Record sbox := mkBox { lines : list (list N); width : N }.

Definition is_cont (c : N) : bool := (128 <=? c) && (c <? 192).
Definition dwidth (l : list N) : N := N.of_nat (List.length (filter (fun c => negb (is_cont c)) l)).
Definition blen (l : list N) : N := N.of_nat (List.length l).

(* UTF-8 encoding of the code points used as literals *)
Definition utf8 (cp : N) : list N :=
  if cp <? 128 then [cp]
  else if cp <? 2048 then [192 + cp / 64; 128 + cp mod 64]
  else if cp <? 65536 then [224 + cp / 4096; 128 + (cp / 64) mod 64; 128 + cp mod 64]
  else [240 + cp / 262144; 128 + (cp / 4096) mod 64; 128 + (cp / 64) mod 64; 128 + cp mod 64].

Definition spaces (n : N) : list N := repeat 32 (N.to_nat n).

(* constructors *)
Definition box_s (s : list N) : sbox := mkBox [s] (blen s).          (* StringBox(std::string) *)
Definition box_w (s : list N) (w : N) : sbox := mkBox [s] w.          (* StringBox(std::string, width) *)
Definition box_e : sbox := mkBox [] 0.                                (* StringBox() *)

(* pad_lines(new_width); callers guarantee new_width > width_ (size_t subtraction) *)
Definition pad_lines (b : sbox) (new_width : N) : list (list N) :=
  let diff := new_width - width b in
  let half := diff / 2 in
  let odd := diff mod 2 in
  List.map (fun l => spaces (half + odd) ++ l ++ (if 0 <? half then spaces half else [])) (lines b).

(* this->add_below(other): (new this, new other) *)
Definition add_below (a o : sbox) : sbox * sbox :=
  if width a <? width o then (mkBox (pad_lines a (width o) ++ lines o) (width o), o)
  else if width o <? width a then
    let o' := mkBox (pad_lines o (width a)) (width a) in
    (mkBox (lines a ++ lines o') (width a), o')
  else (mkBox (lines a ++ lines o) (width a), o).

Definition g_hbar : list N := Eval compute in utf8 8213.       (* U+2015 *)
Definition add_below_unicode_line (a o : sbox) : sbox * sbox :=
  let nw := N.max (width a) (width o) in
  let bar := List.concat (repeat g_hbar (N.to_nat nw)) in
  let a1 := fst (add_below a (box_w bar nw)) in
  add_below a1 o.

Fixpoint zip_app (x y : list (list N)) : list (list N) :=
  match x, y with
  | l :: x', m :: y' => (l ++ m) :: zip_app x' y'
  | _, _ => []
  end.

(* this->add_right(other): (new this, new other) *)
Definition add_right (a o : sbox) : sbox * sbox :=
  let ts := List.length (lines a) in
  let os := List.length (lines o) in
  let this_smaller := Nat.ltb ts os in
  let diff := (Nat.max os ts - Nat.min os ts)%nat in
  let half := Nat.div diff 2 in
  let odd := Nat.modulo diff 2 in
  let grow (b : sbox) : sbox :=
    let pad := spaces (width b) in
    mkBox (repeat pad (half + odd) ++ lines b ++ repeat pad half) (width b) in
  let a' := if this_smaller then grow a else a in
  let o' := if this_smaller then o else grow o in
  (mkBox (zip_app (lines a') (lines o')) (width a + width o), o').

(* this->add_power(other): other's lines are inserted one by one at the FRONT *)
Definition add_power (a o : sbox) : sbox :=
  mkBox (rev (List.map (fun l => spaces (width a) ++ l) (lines o))
           ++ List.map (fun l => l ++ spaces (width o)) (lines a))
        (width a + width o).

Definition g_vbar : list N := Eval compute in utf8 9474.       (* U+2502 *)
Definition enclose_abs (b : sbox) : sbox :=
  mkBox (List.map (fun l => g_vbar ++ l ++ g_vbar) (lines b)) (width b + 2).

(* decorate the first, the middle and the last lines; [put g l] is insert(0, g) or append(g) *)
Definition deco3 (put : list N -> list N -> list N) (top mid bot : list N) (ls : list (list N))
  : list (list N) :=
  match ls with
  | [] => []
  | first :: rest =>
      match rev rest with
      | [] => [put top first]
      | last :: rmid => put top first :: List.map (put mid) (rev rmid) ++ [put bot last]
      end
  end.
Definition put_left (g l : list N) : list N := g ++ l.
Definition put_right (g l : list N) : list N := l ++ g.

(* add_left_parens / add_right_parens / add_left_sqbracket / add_right_sqbracket *)
Definition bracket_side (put : list N -> list N -> list N) (one top mid bot : list N) (b : sbox) : res sbox :=
  match lines b with
  | [] => ErrOOB 0 0                                  (* lines_[0] of an empty vector *)
  | [l] => Ok (mkBox [put one l] (width b + 1))
  | ls => Ok (mkBox (deco3 put top mid bot ls) (width b + 1))
  end.
Definition g_lp_top := Eval compute in utf8 9115.   Definition g_lp_mid := Eval compute in utf8 9116.
Definition g_lp_bot := Eval compute in utf8 9117.   Definition g_rp_top := Eval compute in utf8 9118.
Definition g_rp_mid := Eval compute in utf8 9119.   Definition g_rp_bot := Eval compute in utf8 9120.
Definition g_ls_top := Eval compute in utf8 9121.   Definition g_ls_mid := Eval compute in utf8 9122.
Definition g_ls_bot := Eval compute in utf8 9123.   Definition g_rs_top := Eval compute in utf8 9124.
(* add_right_sqbracket: lines_[0] U+23A4, lines_.back() U+23A5, the lines between U+23A6 *)
Definition g_rs_last := Eval compute in utf8 9125.  Definition g_rs_between := Eval compute in utf8 9126.
Definition add_left_parens := bracket_side put_left [40] g_lp_top g_lp_mid g_lp_bot.
Definition add_right_parens := bracket_side put_right [41] g_rp_top g_rp_mid g_rp_bot.
Definition add_left_sqbracket := bracket_side put_left [91] g_ls_top g_ls_mid g_ls_bot.
Definition add_right_sqbracket := bracket_side put_right [93] g_rs_top g_rs_between g_rs_last.

Definition rthen {A B} (r : res A) (f : A -> res B) : res B :=
  match r with
  | Ok a => f a
  | ErrOOB i n => ErrOOB i n
  | ErrFuel => ErrFuel
  | ErrExn c => ErrExn c
  end.
Definition enclose_parens (b : sbox) : res sbox := rthen (add_left_parens b) add_right_parens.
Definition enclose_sqbrackets (b : sbox) : res sbox := rthen (add_left_sqbracket b) add_right_sqbracket.

(* add_left_curly / add_right_curly *)
Definition g_lc_top := Eval compute in utf8 9127.   Definition g_lc_mid := Eval compute in utf8 9128.
Definition g_lc_bot := Eval compute in utf8 9129.   Definition g_c_ext := Eval compute in utf8 9130.
Definition g_rc_top := Eval compute in utf8 9131.   Definition g_rc_mid := Eval compute in utf8 9132.
Definition g_rc_bot := Eval compute in utf8 9133.
(* lines 1 .. size-2 of a box with more than two lines: the line with index size/2 gets the middle
   piece, the others the extension piece *)
Fixpoint curly_mid (put : list N -> list N -> list N) (gmid : list N) (mid i : nat) (ls : list (list N))
  : list (list N) :=
  match ls with
  | [] => []
  | l :: r => put (if Nat.eqb i mid then gmid else g_c_ext) l :: curly_mid put gmid mid (S i) r
  end.
Definition curly_side (left : bool) (b : sbox) : res sbox :=
  let put := if left then put_left else put_right in
  let one := if left then [123] else [125] in
  let top := if left then g_lc_top else g_rc_top in
  let gmid := if left then g_lc_mid else g_rc_mid in
  let bot := if left then g_lc_bot else g_rc_bot in
  match lines b with
  | [] => ErrOOB 0 0
  | [l] => Ok (mkBox [put one l] (width b + 1))
  | [l0; l1] =>
      Ok (mkBox [put top l0;
                 (if left then gmid ++ spaces (width b) else spaces (width b) ++ gmid);
                 put bot l1] (width b + 1))
  | first :: rest =>
      let n := S (List.length rest) in
      match rev rest with
      | [] => ErrOOB 0 0     (* unreachable *)
      | last :: rmid =>
          Ok (mkBox (put top first :: curly_mid put gmid (Nat.div n 2) 1 (rev rmid) ++ [put bot last])
                    (width b + 1))
      end
  end.
Definition add_left_curly := curly_side true.
Definition add_right_curly := curly_side false.
Definition enclose_curlies (b : sbox) : res sbox := rthen (add_left_curly b) add_right_curly.

(* enclose_floor / enclose_ceiling *)
Definition g_lfloor := Eval compute in utf8 8970.   Definition g_rfloor := Eval compute in utf8 8971.
Definition g_lceil := Eval compute in utf8 8968.    Definition g_rceil := Eval compute in utf8 8969.
Definition enclose_floor (b : sbox) : res sbox :=
  match rev (lines b) with
  | [] => ErrOOB 0 0                                  (* lines_.back() *)
  | last :: rinit =>
      Ok (mkBox (List.map (fun l => g_vbar ++ l ++ g_vbar) (rev rinit) ++ [g_lfloor ++ last ++ g_rfloor])
                (width b + 2))
  end.
Definition enclose_ceiling (b : sbox) : res sbox :=
  match lines b with
  | [] => ErrOOB 0 0                                  (* lines_[0] *)
  | first :: rest =>
      Ok (mkBox ((g_lceil ++ first ++ g_rceil) :: List.map (fun l => g_vbar ++ l ++ g_vbar) rest)
                (width b + 2))
  end.

(* enclose_sqrt *)
Definition g_diag_up := Eval compute in utf8 9585.    (* U+2571 *)
Definition g_diag_down := Eval compute in utf8 9586.  (* U+2572 *)
Fixpoint sqrt_lines (len i : nat) (ls : list (list N)) : list (list N) :=
  match ls with
  | [] => []
  | l :: r =>
      ((if Nat.eqb i 1 then g_diag_down ++ g_diag_up ++ repeat 32 (len - i)
        else repeat 32 i ++ g_diag_up ++ repeat 32 (len - i)) ++ l)
        :: sqrt_lines len (pred i) r
  end.
Definition enclose_sqrt (b : sbox) : sbox :=
  let len := List.length (lines b) in
  mkBox ((repeat 32 (S len) ++ repeat 95 (N.to_nat (width b))) :: sqrt_lines len len (lines b))
        (width b + N.of_nat len + 1).

(* get_string(): lines joined by '\n' *)
Definition get_string (b : sbox) : list N := join [10] (lines b).

(* ================================================================ UnicodePrinter *)
Definition U (cps : list N) : list N := List.concat (List.map utf8 cps).
Definition g_dot : list N := Eval compute in utf8 8901.          (* U+22C5 *)
Definition g_imag : list N := Eval compute in utf8 119894.       (* U+1D456 *)
Definition mulbox0 : sbox := box_w g_dot 1.                      (* print_mul() *)

Definition u_q (p : Z) (q : positive) : list N := dec_Z p ++ [47] ++ dec_N (Npos q).
Definition u_qi (p : Z) (q : positive) : list N := match q with xH => dec_Z p | _ => u_q p q end.
Definition s_plus : list N := Eval compute in bs " + ".
Definition s_minus : list N := Eval compute in bs " - ".
Definition s_comma : list N := Eval compute in bs ", ".
Definition s_if : list N := Eval compute in bs " if ".
Definition s_bar : list N := Eval compute in bs " | ".
Definition s_eqs : list N := Eval compute in bs " = ".
Definition s_lts : list N := Eval compute in bs " < ".
Definition s_true : list N := Eval compute in bs "true".
Definition s_false : list N := Eval compute in bs "false".
Definition s_NaN : list N := Eval compute in bs "NaN".
Definition s_setminus : list N := [32; 92; 32].
Definition s_neq : list N := Eval compute in [32] ++ utf8 8800 ++ [32].
Definition s_leq : list N := Eval compute in [32] ++ utf8 8804 ++ [32].
Definition s_and : list N := Eval compute in [32] ++ utf8 8743 ++ [32].
Definition s_or : list N := Eval compute in [32] ++ utf8 8744 ++ [32].
Definition s_xor : list N := Eval compute in [32] ++ utf8 8891 ++ [32].
Definition s_in : list N := Eval compute in [32] ++ utf8 8714 ++ [32].
Definition s_cup : list N := Eval compute in [32] ++ utf8 8746 ++ [32].
Definition s_cap : list N := Eval compute in [32] ++ utf8 8745 ++ [32].
Definition s_not : list N := Eval compute in utf8 172.
Definition s_infty : list N := Eval compute in utf8 8734.
Definition s_minfty : list N := Eval compute in [45] ++ utf8 8734.
Definition s_zinfty : list N := Eval compute in utf8 119911 ++ utf8 8734.

(* bvisit(const Complex &): width = str.length() - 3 (the imaginary unit has 4 bytes), two less when
   a product sign (3 bytes) was written *)
Definition u_complex (rn : Z) (rd : positive) (imn : Z) (imd : positive) : sbox :=
  let unit := (Zpos imd =? 1)%Z && ((imn =? 1)%Z || (imn =? -1)%Z) in
  let '(s, mul) :=
    if negb (rn =? 0)%Z then
      if unit then (u_qi rn rd ++ (if (0 <? imn)%Z then s_plus else s_minus) ++ g_imag, false)
      else (u_qi rn rd ++ (if (0 <? imn)%Z then s_plus else s_minus)
              ++ u_qi (Z.abs imn) imd ++ g_dot ++ g_imag, true)
    else if unit then ((if (0 <? imn)%Z then g_imag else [45] ++ g_imag), false)
    else (u_qi imn imd ++ g_dot ++ g_imag, true) in
  box_w s (blen s - 3 - (if mul then 2 else 0)).

Definition unum (n : number) : sbox :=
  match n with
  | NInt z => box_s (dec_Z z)
  | NRat p q => fst (add_below_unicode_line (box_s (dec_Z p)) (box_s (dec_N (Npos q))))
  | NCplx rn rd imn imd => u_complex rn rd imn imd
  | NDbl b => box_s (print_double b)
  | NCDbl re im =>
      let s := print_double re ++ (if dbl_negative im then s_minus ++ print_double (dbl_negate im)
                                   else s_plus ++ print_double im) in
      box_w (s ++ g_dot ++ g_imag) (blen s + 2)
  | NInf d => if (d <? 0)%Z then box_w s_minfty 2 else if (0 <? d)%Z then box_w s_infty 1
              else box_w s_zinfty 2
  | NNaN => box_s s_NaN
  end.

Definition EXN_FALLBACK : N := 99.    (* UnicodePrinter::bvisit(const Basic &): text with an address *)

Definition u_constant (nm : list N) : res sbox :=
  if beq nm nm_pi then Ok (box_w (utf8 120587) 1)
  else if beq nm name_E then Ok (box_w (utf8 119890) 1)
  else if beq nm nm_EulerGamma then Ok (box_w (utf8 120574) 1)
  else if beq nm nm_Catalan then Ok (box_w (utf8 119866) 1)
  else if beq nm nm_GoldenRatio then Ok (box_w (utf8 120601) 1)
  else ErrExn EXN_STD.    (* box_ keeps the value of the previous visit: not modelled *)

Definition u_atom (code : N) : res sbox :=
  if code =? TC_Complexes then Ok (box_w (utf8 8450) 1)
  else if code =? TC_Reals then Ok (box_w (utf8 8477) 1)
  else if code =? TC_Rationals then Ok (box_w (utf8 8474) 1)
  else if code =? TC_Integers then Ok (box_w (utf8 8484) 1)
  else if code =? TC_Naturals then Ok (box_w (utf8 8469) 1)
  else if code =? TC_Naturals0 then Ok (box_w (utf8 8469 ++ utf8 8320) 2)
  else if code =? TC_EmptySet then Ok (box_w (utf8 8709) 1)
  else if code =? TC_UniversalSet then Ok (box_w (utf8 120140) 1)
  else ErrExn EXN_STD.

Section WithRec.
  Variable rec : expr -> res sbox.

  Definition uapp (x : expr) : res sbox :=
    match x with
    | ENum n => Ok (unum n)
    | _ => rec x
    end.

  Definition uparen_lt (x : expr) (p : N) : res sbox :=
    rthen (uapp x) (fun b => if precedence x <? p then enclose_parens b else Ok b).
  Definition uparen_le (x : expr) (p : N) : res sbox :=
    rthen (uapp x) (fun b => if precedence x <=? p then enclose_parens b else Ok b).

  Definition u_pow (a c : expr) : res sbox :=
    if is_half c then rthen (uapp a) (fun b => Ok (enclose_sqrt b))
    else rthen (uparen_le a PREC_Pow) (fun base =>
         rthen (uparen_le c PREC_Pow) (fun ex => Ok (add_power base ex))).

  (* box.add_right(sep) before every item but the first, then box.add_right(item); the separator
     object is reused: (box, sep) *)
  Fixpoint u_join (box sep : sbox) (first : bool) (l : list expr) : res (sbox * sbox) :=
    match l with
    | [] => Ok (box, sep)
    | x :: r =>
        let '(box1, sep1) := if first then (box, sep) else add_right box sep in
        rthen (uapp x) (fun arg => u_join (fst (add_right box1 arg)) sep1 false r)
    end.

  (* apply(const vec_basic &) *)
  Definition uapp_vec (l : list expr) : res sbox :=
    rthen (u_join (box_s []) (box_s s_comma) true l) (fun p => Ok (fst p)).

  (* box = apply(first); for the others: box.add_right(op); box.add_right(apply(it)) *)
  Definition u_infix (op : sbox) (l : list expr) : res sbox :=
    match l with
    | [] => ErrOOB 0 0                      (* *container.begin() of an empty container *)
    | x :: r => rthen (uapp x) (fun b => rthen (u_join b op false r) (fun p => Ok (fst p)))
    end.

  Definition u_bin (op : sbox) (a c : expr) : res sbox :=
    rthen (uapp a) (fun ba => rthen (uapp c) (fun bc =>
      Ok (fst (add_right (fst (add_right ba op)) bc)))).

  (* bvisit(const Add &): the loop state is (box, first, minus) *)
  Fixpoint u_add_terms (box : sbox) (first minus : bool) (l : list (expr * number)) : res sbox :=
    match l with
    | [] => Ok box
    | (k, v) :: r =>
        rthen
          (if num_is v 1 then rthen (uparen_lt k PREC_Add) (fun t => Ok (t, minus))
           else if num_is v (-1) then rthen (uparen_lt k PREC_Mul) (fun t => Ok (t, true))
           else
             rthen (uparen_lt (ENum v) PREC_Mul) (fun t0 =>
             rthen (uparen_lt k PREC_Mul) (fun rhs =>
               Ok (fst (add_right (fst (add_right t0 mulbox0)) rhs),
                   if num_is_negative v then true else minus))))
          (fun tm =>
             let '(t, minus1) := tm in
             if negb first then
               if minus1 then
                 u_add_terms (fst (add_right (fst (add_right box (box_s s_minus))) t)) false false r
               else u_add_terms (fst (add_right (fst (add_right box (box_s s_plus))) t)) false minus1 r
             else u_add_terms (fst (add_right box t)) false minus1 r)
    end.

  Definition u_add (c : number) (d : list (expr * number)) : res sbox :=
    let sorted := pmap_of d in
    if negb (num_is c 0) then u_add_terms (unum c) false false sorted
    else u_add_terms box_e true false sorted.

  (* bvisit(const Mul &): loop state (box1, box2, mulbox, first_box1, first_box2, num, den) *)
  Fixpoint u_mul_factors (l : list (expr * expr)) (box1 box2 mb : sbox) (f1 f2 num : bool) (den : nat)
    : res (sbox * sbox * sbox * bool * nat) :=
    match l with
    | [] => Ok (box1, box2, mb, num, den)
    | (b, x) :: r =>
        match neg_rational_exp x with
        | Some nx =>
            let '(box2a, mb1) := if negb f2 then add_right box2 mb else (box2, mb) in
            rthen (if num_is nx 1 then uparen_lt b PREC_Mul else u_pow b (ENum nx)) (fun t =>
              u_mul_factors r box1 (fst (add_right box2a t)) mb1 f1 false num (S den))
        | None =>
            let '(box1a, mb1) := if negb f1 then add_right box1 mb else (box1, mb) in
            rthen (if is_num_int x 1 then uparen_lt b PREC_Mul else u_pow b x) (fun t =>
              u_mul_factors r (fst (add_right box1a t)) box2 mb1 false f2 true den)
        end
    end.

  Definition u_mul (c : number) (d : list (expr * expr)) : res sbox :=
    rthen
      (if num_is c (-1) then Ok (box_s [45], box_e, true, true, false, O)
       else if negb (num_is c 1) then
         let '(numer, denom) := coef_numer_denom c in
         rthen (if negb (num_is numer 1)
                then rthen (uparen_lt (ENum numer) PREC_Mul) (fun b => Ok (b, false, true))
                else Ok (box_e, true, false)) (fun n3 =>
         rthen (if negb (num_is denom 1)
                then rthen (uparen_lt (ENum denom) PREC_Mul) (fun b => Ok (b, false, S O))
                else Ok (box_e, true, O)) (fun d3 =>
           let '(b1, f1, num) := n3 in
           let '(b2, f2, den) := d3 in
           Ok (b1, b2, f1, f2, num, den)))
       else Ok (box_e, box_e, true, true, false, O))
      (fun st =>
         let '(b1, b2, f1, f2, num0, den0) := st in
         rthen (u_mul_factors d b1 b2 mulbox0 f1 f2 num0 den0) (fun st' =>
           let '(box1, box2, mb, num, den) := st' in
           let box1' := if num then box1
                        else fst (add_right (fst (add_right box1 (box_s [49]))) mb) in
           match den with
           | O => Ok box1'
           | S O => Ok (fst (add_below_unicode_line box1' box2))
           | _ => rthen (enclose_parens box2) (fun b2' => Ok (fst (add_below_unicode_line box1' b2')))
           end)).

  Definition u_function (code : N) (args : list expr) : res sbox :=
    let '(nm, len) := unicode_name code in
    rthen (uapp_vec args) (fun a => rthen (enclose_parens a) (fun a' =>
      Ok (fst (add_right (box_w nm len) a')))).

  Definition u_node (e : expr) : res sbox :=
    match e with
    | ENum n => Ok (unum n)
    | ESym nm | EDummy nm _ => Ok (box_s nm)
    | EConst nm => u_constant nm
    | EAdd c d => u_add c d
    | EMul c d => u_mul c d
    | EPow a c => u_pow a c
    | EF1 code a =>
        if code =? TC_Not then
          rthen (uapp a) (fun b => rthen (enclose_parens b) (fun b' =>
            Ok (fst (add_right (box_w s_not 1) b'))))
        else if code =? TC_Abs then rthen (uapp a) (fun b => Ok (enclose_abs b))
        else if code =? TC_Floor then rthen (uapp a) enclose_floor
        else if code =? TC_Ceiling then rthen (uapp a) enclose_ceiling
        else u_function code [a]
    | EF2 code a c =>
        if code =? TC_Equality then u_bin (box_s s_eqs) a c
        else if code =? TC_Unequality then u_bin (box_w s_neq 3) a c
        else if code =? TC_LessThan then u_bin (box_w s_leq 3) a c
        else if code =? TC_StrictLessThan then u_bin (box_w s_lts 3) a c
        else u_function code [a; c]
    | EFN code l =>
        if code =? TC_And then u_infix (box_w s_and 3) l
        else if code =? TC_Or then u_infix (box_w s_or 3) l
        else if code =? TC_Xor then u_infix (box_w s_xor 3) l
        else if code =? TC_Union then u_infix (box_w s_cup 3) l
        else if code =? TC_Intersection then u_infix (box_w s_cap 3) l
        else if code =? TC_FiniteSet then
          rthen (u_join box_e (box_s s_comma) true l) (fun p => enclose_curlies (fst p))
        else if code =? TC_ConditionSet then
          match l with
          | [sym; cond] => rthen (u_bin (box_s s_bar) sym cond) enclose_curlies
          | _ => ErrExn EXN_STD
          end
        else if code =? TC_ImageSet then
          match l with
          | [sym; ex; base] =>
              rthen (u_bin (box_s s_bar) ex sym) (fun b1 =>
              rthen (uapp base) (fun bb =>
                enclose_curlies (fst (add_right (fst (add_right b1 (box_w s_in 3))) bb))))
          | _ => ErrExn EXN_STD
          end
        else u_function code l
    | EFunSym nm l =>
        (* StringBox args(""): one empty line *)
        rthen (u_join (box_s []) (box_s s_comma) true l) (fun p =>
        rthen (enclose_parens (fst p)) (fun a' => Ok (fst (add_right (box_s nm) a'))))
    | ELex code a c =>
        if code =? TC_Contains then u_bin (box_w s_in 3) a c
        else if code =? TC_Complement then u_bin (box_s s_setminus) a c
        else ErrExn EXN_STD
    | EDeriv _ _ | ESubs _ _ => ErrExn EXN_FALLBACK
    | EPw l =>
        let fix pieces (box : sbox) (l : list (expr * expr)) : res sbox :=
          match l with
          | [] => Ok box
          | (x, c) :: r =>
              rthen (u_bin (box_s s_if) x c) (fun piece => pieces (fst (add_below box piece)) r)
          end in
        match l with
        | [] => ErrOOB 0 0                   (* while (true) dereferences vec.begin() *)
        | _ => rthen (pieces box_e l) add_left_curly
        end
    | EBool v => Ok (box_s (if v then s_true else s_false))
    | EInterval s x lo ro =>
        rthen (u_bin (box_s s_comma) s x) (fun b =>
        rthen (if lo then add_left_parens b else add_left_sqbracket b) (fun b1 =>
          if ro then add_right_parens b1 else add_right_sqbracket b1))
    | EAtom code => u_atom code
    end.
End WithRec.

Fixpoint ubox_fuel (fuel : nat) (e : expr) : res sbox :=
  match fuel with
  | O => ErrFuel
  | S f => u_node (ubox_fuel f) e
  end.

Definition unicode_box (e : expr) : res sbox := ubox_fuel (S (size e)) e.
Definition unicode (e : expr) : res (list N) :=
  match unicode_box e with
  | Ok b => Ok (get_string b)
  | ErrOOB i n => ErrOOB i n
  | ErrFuel => ErrFuel
  | ErrExn c => ErrExn c
  end.

(* ---------------------------------------------------------------- StringBox histories (driver BOX lines) *)
Inductive boxop :=
| OPush (b : sbox)
| OBelow | OLine | ORight | OPower
| OAbs | OParens | OSq | OCurly | OFloor | OCeil | OSqrt
| OLParen | ORParen | OLSq | ORSq | OLCurly | ORCurly.

Definition un_op (o : boxop) (a : sbox) : res sbox :=
  match o with
  | OAbs => Ok (enclose_abs a)
  | OParens => enclose_parens a
  | OSq => enclose_sqbrackets a
  | OCurly => enclose_curlies a
  | OFloor => enclose_floor a
  | OCeil => enclose_ceiling a
  | OSqrt => Ok (enclose_sqrt a)
  | OLParen => add_left_parens a
  | ORParen => add_right_parens a
  | OLSq => add_left_sqbracket a
  | ORSq => add_right_sqbracket a
  | OLCurly => add_left_curly a
  | ORCurly => add_right_curly a
  | _ => ErrExn EXN_STD
  end.

Fixpoint run_box (ops : list boxop) (st : list sbox) : res (list sbox) :=
  match ops with
  | [] => Ok st
  | OPush b :: r => run_box r (b :: st)
  | (OBelow | OLine | ORight | OPower) as o :: r =>
      match st with
      | b :: a :: st' =>
          let a' := match o with
                    | OBelow => fst (add_below a b)
                    | OLine => fst (add_below_unicode_line a b)
                    | ORight => fst (add_right a b)
                    | _ => add_power a b
                    end in
          run_box r (a' :: st')
      | _ => ErrExn EXN_STD
      end
  | o :: r =>
      match st with
      | a :: st' => rthen (un_op o a) (fun a' => run_box r (a' :: st'))
      | [] => ErrExn EXN_STD
      end
  end.
