(* C44 -- specification of well-nestedness, shared by the MathML theorem (tags), the LaTeX theorem
   (brace groups and \left ... \right pairs) and their executable checkers.
   A token stream is abstracted to a stream of openers, closers and atoms over a kind type K
   (tag names for XML; {brace, left-right} for LaTeX). *)
From Coq Require Import List.
Import ListNotations.

Section Nest.
  Variable K : Type.

  Inductive btok := BO (k : K) | BC (k : K) | BA.

  (* the schoolbook grammar of balanced streams:  W ::= empty | atom W | open_k W close_k W *)
  Inductive wn : list btok -> Prop :=
  | wn_nil : wn []
  | wn_atom : forall r, wn r -> wn (BA :: r)
  | wn_pair : forall k body r, wn body -> wn r -> wn (BO k :: body ++ BC k :: r).

  (* exactly one top-level element: open_k W close_k *)
  Inductive wn_elem : list btok -> Prop :=
  | wn_elem_intro : forall k body, wn body -> wn_elem (BO k :: body ++ [BC k]).

  (* the usual stack machine *)
  Variable keqb : K -> K -> bool.
  Fixpoint chk (st : list K) (l : list btok) : bool :=
    match l with
    | [] => match st with [] => true | _ => false end
    | BA :: r => chk st r
    | BO k :: r => chk (k :: st) r
    | BC k :: r => match st with
                   | k' :: st' => if keqb k k' then chk st' r else false
                   | [] => false
                   end
    end.
End Nest.

Arguments BO {K} k.
Arguments BC {K} k.
Arguments BA {K}.
Arguments wn {K} l.
Arguments wn_elem {K} l.
Arguments chk {K} keqb st l.
