From SE Require Import C44.C44Spec C44.BoxProofs.
(* the binary operations keep BOTH boxes rectangular (they pad their argument in place) *)
Theorem C44_stringbox_ops_rect :
  forall a o : sbox, rect a -> rect o ->
    (rect (fst (add_right a o)) /\ rect (snd (add_right a o))) /\
    (rect (fst (add_below a o)) /\ rect (snd (add_below a o))) /\
    (rect (fst (add_below_unicode_line a o)) /\ rect (snd (add_below_unicode_line a o))) /\
    rect (add_power a o) /\ rect (enclose_abs a) /\ rect (enclose_sqrt a).
Proof. exact stringbox_ops_rect. Qed.
Print Assumptions C44_stringbox_ops_rect.
