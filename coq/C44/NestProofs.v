(* C44 -- facts about well-nested token streams (NestSpec.v): closure under concatenation and
   wrapping, and the stack checker decides the grammar. *)
From Coq Require Import List Bool.
Import ListNotations.
From SE Require Import C44.NestSpec.

Section NestFacts.
  Variable K : Type.
  Notation tok := (btok K).

  Lemma wn_app : forall a b : list tok, wn a -> wn b -> wn (a ++ b).
  Proof.
    intros a b Ha Hb. induction Ha; simpl.
    - exact Hb.
    - constructor. exact IHHa.
    - rewrite <- app_assoc. simpl. constructor; assumption.
  Qed.

  Lemma wn_wrap : forall (k : K) (body : list tok), wn body -> wn (BO k :: body ++ [BC k]).
  Proof. intros. apply wn_pair; [assumption | constructor]. Qed.

  Lemma wn_concat : forall ls : list (list tok), Forall wn ls -> wn (concat ls).
  Proof.
    induction 1; simpl.
    - constructor.
    - apply wn_app; assumption.
  Qed.

  Lemma wn_elem_wn : forall l : list tok, wn_elem l -> wn l.
  Proof. intros l H. destruct H. apply wn_wrap. assumption. Qed.

  Lemma wn_atoms : forall l : list tok, Forall (fun t => t = BA) l -> wn l.
  Proof.
    induction 1.
    - constructor.
    - subst. constructor. assumption.
  Qed.

  Variable keqb : K -> K -> bool.
  Hypothesis keqb_eq : forall a b, keqb a b = true <-> a = b.

  Lemma keqb_refl : forall a, keqb a a = true.
  Proof. intro a. apply keqb_eq. reflexivity. Qed.

  (* soundness of the grammar w.r.t. the stack machine *)
  Lemma chk_wn_prefix : forall l : list tok, wn l -> forall st r, chk keqb st (l ++ r) = chk keqb st r.
  Proof.
    induction 1; intros st r0; simpl.
    - reflexivity.
    - apply IHwn.
    - rewrite <- app_assoc. simpl. rewrite IHwn1. simpl. rewrite keqb_refl. apply IHwn2.
  Qed.

  Lemma wn_chk : forall l : list tok, wn l -> chk keqb [] l = true.
  Proof.
    intros l H. rewrite <- (app_nil_r l). rewrite chk_wn_prefix by assumption. reflexivity.
  Qed.

  (* completeness: what the machine accepts with stack st is a sequence of segments closing st *)
  Fixpoint closes (st : list K) (l : list tok) : Prop :=
    match st with
    | [] => wn l
    | k :: st' => exists body rest, l = body ++ BC k :: rest /\ wn body /\ closes st' rest
    end.

  Lemma closes_atom : forall st l, closes st l -> closes st (BA :: l).
  Proof.
    destruct st as [|k st]; simpl; intros l H.
    - constructor. exact H.
    - destruct H as (body & rest & E & Hb & Hr). exists (BA :: body), rest. subst.
      split; [reflexivity|]. split; [constructor; exact Hb | exact Hr].
  Qed.

  Lemma closes_open : forall st k l, closes (k :: st) l -> closes st (BO k :: l).
  Proof.
    intros st k l H. simpl in H. destruct H as (body & rest & E & Hb & Hr). subst.
    destruct st as [|k' st]; simpl in *.
    - apply wn_pair; assumption.
    - destruct Hr as (body2 & rest2 & E2 & Hb2 & Hr2). subst.
      exists (BO k :: body ++ BC k :: body2), rest2. split.
      + simpl. rewrite <- app_assoc. reflexivity.
      + split; [apply wn_pair; assumption | exact Hr2].
  Qed.

  Lemma chk_closes : forall (l : list tok) st, chk keqb st l = true -> closes st l.
  Proof.
    induction l as [|t l IH]; intros st H.
    - destruct st; simpl in H; [constructor | discriminate].
    - destruct t as [k|k|]; simpl in H.
      + apply closes_open. apply IH. exact H.
      + destruct st as [|k' st]; [discriminate|].
        destruct (keqb k k') eqn:E; [|discriminate].
        apply keqb_eq in E. subst. simpl. exists [], l. split; [reflexivity|].
        split; [constructor | apply IH; exact H].
      + apply closes_atom. apply IH. exact H.
  Qed.

  Theorem chk_iff_wn : forall l : list tok, chk keqb [] l = true <-> wn l.
  Proof.
    intro l. split.
    - intro H. apply (chk_closes l [] H).
    - apply wn_chk.
  Qed.

  (* the machine's verdict on p ++ x depends on x only through the machine's verdicts on x *)
  Lemma chk_congr_prefix : forall (p x y : list tok),
    (forall st, chk keqb st x = chk keqb st y) -> forall st, chk keqb st (p ++ x) = chk keqb st (p ++ y).
  Proof.
    induction p as [|t p IH]; intros x y H st; simpl.
    - apply H.
    - destruct t as [k|k|].
      + apply IH. exact H.
      + destruct st as [|k' st]; [reflexivity|]. destruct (keqb k k'); [apply IH; exact H | reflexivity].
      + apply IH. exact H.
  Qed.

  (* templates: a stream made of literal pieces and of holes filled with well-nested streams is
     well nested when the literal pieces alone are *)
  Inductive piece := Lit (l : list tok) | Hole (l : list tok).
  Definition piece_body (p : piece) : list tok := match p with Lit l | Hole l => l end.
  Definition piece_lit (p : piece) : list tok := match p with Lit l => l | Hole _ => [] end.
  Definition flat (ps : list piece) : list tok := concat (map piece_body ps).
  Definition skel (ps : list piece) : list tok := concat (map piece_lit ps).
  Definition holes_wn (ps : list piece) : Prop :=
    Forall (fun p => match p with Hole h => wn h | Lit _ => True end) ps.

  Lemma chk_template : forall ps, holes_wn ps -> forall st r,
    chk keqb st (flat ps ++ r) = chk keqb st (skel ps ++ r).
  Proof.
    induction 1 as [|p ps Hp Hps IH]; intros st r; unfold flat, skel in *; simpl.
    - reflexivity.
    - destruct p as [l|h]; simpl.
      + rewrite <- !app_assoc. apply chk_congr_prefix. intro st'. apply IH.
      + rewrite <- app_assoc. rewrite chk_wn_prefix by exact Hp. apply IH.
  Qed.

  Theorem wn_template : forall ps, holes_wn ps -> wn (skel ps) -> wn (flat ps).
  Proof.
    intros ps Hh Hs. apply chk_iff_wn. apply chk_iff_wn in Hs.
    rewrite <- (app_nil_r (flat ps)). rewrite chk_template by exact Hh. rewrite app_nil_r. exact Hs.
  Qed.

  Lemma wn_atom_inv : forall l : list tok, wn (BA :: l) -> wn l.
  Proof. intros l H. inversion H; subst. assumption. Qed.

  Lemma chk_snoc_atom : forall (x : list tok) st, chk keqb st (x ++ [BA]) = chk keqb st x.
  Proof.
    induction x as [|t x IH]; intros st; simpl.
    - reflexivity.
    - destruct t as [k|k|]; try apply IH.
      destruct st as [|k' st]; [reflexivity|]. destruct (keqb k k'); [apply IH | reflexivity].
  Qed.
  Lemma wn_snoc_atom_inv : forall x : list tok, wn (x ++ [BA]) -> wn x.
  Proof. intros x H. apply chk_iff_wn. apply chk_iff_wn in H. rewrite chk_snoc_atom in H. exact H. Qed.
End NestFacts.
