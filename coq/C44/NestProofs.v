(* C44 -- facts about well-nested token streams (NestSpec.v): closure under concatenation and
   wrapping, and the stack checker decides the grammar. *)
From Coq Require Import List Bool.
Import ListNotations.
From SE Require Import C44.NestSpec.

Section NestFacts.
  Variable K : Type.
  Notation tok := (btok K).

  Lemma wn_app : forall a b : list tok, wn a -> wn b -> wn (a ++ b).
  Proof.
    intros a b Ha Hb. induction Ha; simpl.
    - exact Hb.
    - constructor. exact IHHa.
    - rewrite <- app_assoc. simpl. constructor; assumption.
  Qed.

  Lemma wn_wrap : forall (k : K) (body : list tok), wn body -> wn (BO k :: body ++ [BC k]).
  Proof. intros. apply wn_pair; [assumption | constructor]. Qed.

  Lemma wn_concat : forall ls : list (list tok), Forall wn ls -> wn (concat ls).
  Proof.
    induction 1; simpl.
    - constructor.
    - apply wn_app; assumption.
  Qed.

  Lemma wn_elem_wn : forall l : list tok, wn_elem l -> wn l.
  Proof. intros l H. destruct H. apply wn_wrap. assumption. Qed.

  Lemma wn_atoms : forall l : list tok, Forall (fun t => t = BA) l -> wn l.
  Proof.
    induction 1.
    - constructor.
    - subst. constructor. assumption.
  Qed.

  Variable keqb : K -> K -> bool.
  Hypothesis keqb_eq : forall a b, keqb a b = true <-> a = b.

  Lemma keqb_refl : forall a, keqb a a = true.
  Proof. intro a. apply keqb_eq. reflexivity. Qed.

  (* soundness of the grammar w.r.t. the stack machine *)
  Lemma chk_wn_prefix : forall l : list tok, wn l -> forall st r, chk keqb st (l ++ r) = chk keqb st r.
  Proof.
    induction 1; intros st r0; simpl.
    - reflexivity.
    - apply IHwn.
    - rewrite <- app_assoc. simpl. rewrite IHwn1. simpl. rewrite keqb_refl. apply IHwn2.
  Qed.

  Lemma wn_chk : forall l : list tok, wn l -> chk keqb [] l = true.
  Proof.
    intros l H. rewrite <- (app_nil_r l). rewrite chk_wn_prefix by assumption. reflexivity.
  Qed.

  (* completeness: what the machine accepts with stack st is a sequence of segments closing st *)
  Fixpoint closes (st : list K) (l : list tok) : Prop :=
    match st with
    | [] => wn l
    | k :: st' => exists body rest, l = body ++ BC k :: rest /\ wn body /\ closes st' rest
    end.

  Lemma closes_atom : forall st l, closes st l -> closes st (BA :: l).
  Proof.
    destruct st as [|k st]; simpl; intros l H.
    - constructor. exact H.
    - destruct H as (body & rest & E & Hb & Hr). exists (BA :: body), rest. subst.
      split; [reflexivity|]. split; [constructor; exact Hb | exact Hr].
  Qed.

  Lemma closes_open : forall st k l, closes (k :: st) l -> closes st (BO k :: l).
  Proof.
    intros st k l H. simpl in H. destruct H as (body & rest & E & Hb & Hr). subst.
    destruct st as [|k' st]; simpl in *.
    - apply wn_pair; assumption.
    - destruct Hr as (body2 & rest2 & E2 & Hb2 & Hr2). subst.
      exists (BO k :: body ++ BC k :: body2), rest2. split.
      + simpl. rewrite <- app_assoc. reflexivity.
      + split; [apply wn_pair; assumption | exact Hr2].
  Qed.

  Lemma chk_closes : forall (l : list tok) st, chk keqb st l = true -> closes st l.
  Proof.
    induction l as [|t l IH]; intros st H.
    - destruct st; simpl in H; [constructor | discriminate].
    - destruct t as [k|k|]; simpl in H.
      + apply closes_open. apply IH. exact H.
      + destruct st as [|k' st]; [discriminate|].
        destruct (keqb k k') eqn:E; [|discriminate].
        apply keqb_eq in E. subst. simpl. exists [], l. split; [reflexivity|].
        split; [constructor | apply IH; exact H].
      + apply closes_atom. apply IH. exact H.
  Qed.

  Theorem chk_iff_wn : forall l : list tok, chk keqb [] l = true <-> wn l.
  Proof.
    intro l. split.
    - intro H. apply (chk_closes l [] H).
    - apply wn_chk.
  Qed.
End NestFacts.
