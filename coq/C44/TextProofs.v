(* C44 -- the characters of the number texts: whatever character class contains the digits and
   the bytes of "-+.e", "inf", "nan" contains every byte of dec_Z / dec_N / print_double.  Used for
   "XML character data", "no TeX group character" and "ASCII". *)
From Coq Require Import List Bool NArith ZArith Lia.
Import ListNotations.
From SE Require Import C44.PrintBase.
Local Open Scope N_scope.

Lemma forallb_firstn : forall {A} (p : A -> bool) k l, forallb p l = true -> forallb p (firstn k l) = true.
Proof.
  induction k; destruct l; simpl; intros; auto.
  apply andb_prop in H. destruct H as [H1 H2]. rewrite H1. simpl. apply IHk. exact H2.
Qed.
Lemma forallb_skipn : forall {A} (p : A -> bool) k l, forallb p l = true -> forallb p (skipn k l) = true.
Proof.
  induction k; destruct l; simpl; intros; auto.
  apply andb_prop in H. destruct H as [_ H2]. apply IHk. exact H2.
Qed.
Lemma forallb_tl : forall {A} (p : A -> bool) l, forallb p l = true -> forallb p (tl l) = true.
Proof. destruct l; simpl; intros; auto. apply andb_prop in H. apply H. Qed.
Lemma forallb_rev : forall {A} (p : A -> bool) l, forallb p l = true -> forallb p (rev l) = true.
Proof.
  intros A p l H. rewrite forallb_forall in *. intros x Hx. apply H. apply in_rev. exact Hx.
Qed.
Lemma forallb_repeat : forall {A} (p : A -> bool) x n, p x = true -> forallb p (repeat x n) = true.
Proof. induction n; simpl; intros; auto. rewrite H. simpl. auto. Qed.
Lemma forallb_removelast : forall {A} (p : A -> bool) l, forallb p l = true -> forallb p (removelast l) = true.
Proof.
  induction l as [|a l IH]; simpl; intros; auto.
  apply andb_prop in H. destruct H as [H1 H2]. destruct l; simpl; auto.
  rewrite H1. simpl. apply IH. exact H2.
Qed.
Lemma forallb_map_const : forall {A B} (p : B -> bool) (f : A -> B) l,
  (forall x, p (f x) = true) -> forallb p (List.map f l) = true.
Proof. induction l; simpl; intros; auto. rewrite H. simpl. auto. Qed.

Lemma digits_aux_lt : forall f n acc,
  Forall (fun d => d < 10) acc -> Forall (fun d => d < 10) (digits_aux f n acc).
Proof.
  induction f; simpl; intros n acc H; auto.
  destruct (n <? 10) eqn:E.
  - constructor; [apply N.ltb_lt; exact E | exact H].
  - apply IHf. constructor; [apply N.mod_lt; lia | exact H].
Qed.
Lemma digits_of_N_lt : forall n, Forall (fun d => d < 10) (digits_of_N n).
Proof. intro n. unfold digits_of_N. apply digits_aux_lt. constructor. Qed.

Section Chars.
  Variable p : N -> bool.
  Hypothesis Hdigit : forall c, 48 <= c -> c <= 57 -> p c = true.

  Lemma chars_dec_N : forall n, forallb p (dec_N n) = true.
  Proof.
    intro n. unfold dec_N. rewrite forallb_forall. intros c Hc.
    apply in_map_iff in Hc. destruct Hc as (d & E & Hd). subst.
    pose proof (digits_of_N_lt n) as F. rewrite Forall_forall in F. specialize (F d Hd).
    apply Hdigit; lia.
  Qed.

  Hypothesis Hminus : p 45 = true.

  Lemma chars_dec_Z : forall z, forallb p (dec_Z z) = true.
  Proof.
    destruct z; simpl.
    - rewrite Hdigit by lia. reflexivity.
    - apply chars_dec_N.
    - rewrite Hminus. simpl. apply chars_dec_N.
  Qed.

  Hypothesis Hdot : p 46 = true.
  Hypothesis He : p 101 = true.
  Hypothesis Hplus : p 43 = true.
  Hypothesis Hi : p 105 = true.
  Hypothesis Hn : p 110 = true.
  Hypothesis Hf : p 102 = true.
  Hypothesis Ha : p 97 = true.

  Lemma strip_rev_ne : forall c l, c <> 48 -> strip_trailing_zeros_rev (c :: l) = c :: l.
  Proof.
    intros c l H. destruct c as [|q]; [reflexivity|].
    do 6 (try destruct q as [q|q|]); try reflexivity; exfalso; apply H; reflexivity.
  Qed.
  Lemma chars_strip_rev : forall l, forallb p l = true -> forallb p (strip_trailing_zeros_rev l) = true.
  Proof.
    induction l as [|c l IH]; intros H; [reflexivity|].
    cbn [forallb] in H. apply andb_prop in H. destruct H as [H1 H2].
    destruct (N.eq_dec c 48) as [->|Hne].
    - change (strip_trailing_zeros_rev (48 :: l)) with (strip_trailing_zeros_rev l). apply IH. exact H2.
    - rewrite strip_rev_ne by exact Hne. cbn [forallb]. rewrite H1, H2. reflexivity.
  Qed.
  Lemma chars_strip : forall l, forallb p l = true -> forallb p (strip_trailing_zeros l) = true.
  Proof.
    intros l H. unfold strip_trailing_zeros. apply forallb_rev. apply chars_strip_rev.
    apply forallb_rev. exact H.
  Qed.

  Lemma chars_two_digits : forall n, forallb p (two_digits n) = true.
  Proof.
    intro n. unfold two_digits. destruct (n <? 10) eqn:E.
    - apply N.ltb_lt in E. simpl. rewrite !Hdigit by lia. reflexivity.
    - apply chars_dec_N.
  Qed.

  Lemma chars_frac : forall frac, forallb p frac = true ->
    forallb p (match frac with [] => [] | _ => 46 :: frac end) = true.
  Proof. destruct frac; simpl; intros; auto. rewrite Hdot. simpl. exact H. Qed.

  Lemma chars_fmt_g15 : forall num den, forallb p (fmt_g15 num den) = true.
  Proof.
    intros num den. unfold fmt_g15. destruct (sig15 num den) as [d x].
    pose proof (chars_dec_N (Z.to_N d)) as Hds.
    destruct ((x <? -4)%Z || (15 <=? x)%Z).
    - rewrite !forallb_app. rewrite forallb_firstn by exact Hds.
      rewrite chars_frac by (apply chars_strip, forallb_tl; exact Hds).
      simpl. rewrite He. simpl.
      destruct (x <? 0)%Z; simpl; rewrite ?Hminus, ?Hplus; simpl; apply chars_two_digits.
    - destruct (0 <=? x)%Z.
      + rewrite forallb_app. rewrite forallb_firstn by exact Hds.
        rewrite chars_frac by (apply chars_strip, forallb_skipn; exact Hds). reflexivity.
      + rewrite !forallb_app. simpl. rewrite Hdot, (Hdigit 48) by lia. simpl.
        rewrite forallb_repeat by (apply Hdigit; lia). simpl.
        apply chars_strip. exact Hds.
  Qed.

  Lemma chars_fmt_double : forall b, forallb p (fmt_double b) = true.
  Proof.
    intro b. unfold fmt_double.
    assert (Hs : forallb p (if dbl_sign b then [45] else []) = true).
    { destruct (dbl_sign b); simpl; rewrite ?Hminus; reflexivity. }
    destruct (dbl_expfield b =? 2047).
    - rewrite forallb_app, Hs. simpl. destruct (dbl_mant b =? 0); unfold s_inf, s_nan; simpl;
        rewrite ?Hi, ?Hn, ?Hf, ?Ha; reflexivity.
    - destruct ((dbl_expfield b =? 0) && (dbl_mant b =? 0)).
      + rewrite forallb_app, Hs. simpl. rewrite Hdigit by lia. reflexivity.
      + match goal with |- forallb p (let '(num, den) := ?X in _) = true => destruct X as [num den] end.
        rewrite forallb_app, Hs. simpl. apply chars_fmt_g15.
  Qed.

  Lemma chars_print_double : forall b, forallb p (print_double b) = true.
  Proof.
    intro b. unfold print_double. pose proof (chars_fmt_double b) as H.
    destruct (existsb _ (fmt_double b)); [exact H|].
    destruct (Nat.eqb _ 15); rewrite forallb_app, H; simpl; rewrite Hdot, ?Hdigit by lia; reflexivity.
  Qed.
End Chars.
