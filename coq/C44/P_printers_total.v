From SE Require Import C44.C44Spec C44.TotalStr.
(* the StrPrinter family (str, Julia, SBML, LaTeX) returns a text for every tree whose Constants are
   the five library constants, whose set / Contains / Complement codes and ConditionSet / ImageSet
   arities are the library's and whose Derivatives have a symbol; the fuel never runs out.  (The only
   designed failure is LatexPrinter on a user-defined Constant: NotImplementedError.) *)
Theorem C44_printers_total :
  forall (fl : flavour) (e : expr), sp_supported e = true -> exists l, sp_toks fl e = Ok l.
Proof. exact sp_total. Qed.
Print Assumptions C44_printers_total.
