From SE Require Import C44.C44Spec C44.TotalBox.
(* UnicodePrinter returns a box with at least one line for every tree of the classes with a rule
   (no Derivative / Subs: fallback text; library Constants; non-empty And / Or / Xor / Union /
   Intersection / FiniteSet / Piecewise / Add): no StringBox operation indexes an empty line vector
   (the abort that FunctionSymbol without arguments hit before the fix), and the fuel never runs out. *)
Theorem C44_unicode_total :
  forall e : expr, u_supported e = true -> exists b, unicode_box e = Ok b /\ lines b <> [].
Proof. exact unicode_total. Qed.
Print Assumptions C44_unicode_total.
