(* Extraction of the C44 models (run from the output directory; not part of `make`).  The module
   is called semodel so that ocaml/expr_io.ml (open Semodel) resolves. *)
From SE Require Import Expr.IO C44.MathMLModel C44.StrModel C44.BoxModel C44.Sbml C44.Coverage C44.C44Spec.
Require Import ExtrOcamlBasic.
Extraction "semodel.ml" N_of_digits Z_of_digits digits_of_N tc_lookup
  mathml latex julia sbml str_of unicode run_box get_string box_s box_w box_e
  tc_table str_names mathml_over sbml_over latex_over unicode_over modelled_codes
  mm_guard latex_guard unicode_guard sbml_fragment latex_names_ok.
