(* C44 -- totality of the StrPrinter family model (str / Julia / SBML / LaTeX flavours): on every
   tree whose Constants are the five library constants, whose field-less set classes, Contains /
   Complement codes and ConditionSet / ImageSet arities are the library's, and whose Derivatives
   have at least one symbol, every flavour returns a text; the fuel always suffices. *)
From Coq Require Import List Bool NArith ZArith Lia.
Import ListNotations.
From SE Require Import C44.C44Spec C44.TotalFuel.
Local Open Scope N_scope.

Definition sp_node_sup (e : expr) : bool :=
  match e with
  | EConst nm => known_constant nm
  | EFN code l =>
      (if code =? TC_ConditionSet then Nat.eqb (length l) 2 else true)
      && (if code =? TC_ImageSet then Nat.eqb (length l) 3 else true)
  | ELex code _ _ => (code =? TC_Contains) || (code =? TC_Complement)
  | EDeriv _ xs => negb (Nat.eqb (length xs) 0)
  | EAtom code =>
      (code =? TC_Complexes) || (code =? TC_Reals) || (code =? TC_Rationals) || (code =? TC_Integers)
      || (code =? TC_Naturals) || (code =? TC_Naturals0) || (code =? TC_EmptySet) || (code =? TC_UniversalSet)
  | _ => true
  end.
Definition sp_supported (e : expr) : bool := all_nodes sp_node_sup e.

Lemma sp_sup_node : forall e, sp_supported e = true -> sp_node_sup e = true.
Proof. intros e H. unfold sp_supported in H. destruct e; cbn [all_nodes] in H; apply andb_prop in H; apply H. Qed.

(* goal "exists r, rbind X F = Ok r": first show X = Ok s, then continue with F s *)
Ltac step H := let s := fresh "s" in let Hs := fresh "Hs" in
  destruct H as [s Hs]; rewrite Hs; cbn [rbind].
Ltac done := eexists; reflexivity.

Lemma pmap_insert_in : forall k v m p, In p (pmap_insert k v m) -> p = (k, v) \/ In p m.
Proof.
  induction m as [|[k' v'] m IH]; intros p H; simpl in H.
  - destruct H as [<-|[]]. left; reflexivity.
  - destruct (printer_lt k' k).
    + destruct H as [<-|H]; [right; left; reflexivity|]. destruct (IH p H) as [->|H']; [left; reflexivity | right; right; exact H'].
    + destruct (printer_lt k k'); [destruct H as [<-|H]; [left; reflexivity | right; exact H] | right; exact H].
Qed.
Lemma pmap_of_in : forall d p, In p (pmap_of d) -> In p d.
Proof.
  intros d p. unfold pmap_of.
  assert (forall m, In p (fold_left (fun m q => pmap_insert (fst q) (snd q) m) d m) -> In p m \/ In p d) as Hgen.
  { induction d as [|[k v] d IH]; intros m H; simpl in H; [left; exact H|].
    destruct (IH _ H) as [H1|H1]; [|right; right; exact H1].
    cbn [fst snd] in H1. destruct (pmap_insert_in _ _ _ _ H1) as [->|H2]; [right; left; reflexivity | left; exact H2]. }
  intro H. destruct (Hgen [] H) as [[]|H']. exact H'.
Qed.

Section Rec.
  Variable rec : flavour -> expr -> res (list ltok).
  Variable bound : nat.
  Hypothesis Hrec : forall fl x, (size x < bound)%nat -> sp_supported x = true -> exists l, rec fl x = Ok l.

  Definition small (x : expr) : Prop := (exists n, x = ENum n) \/ ((size x < bound)%nat /\ sp_supported x = true).

  Lemma small_num : forall n, small (ENum n).
  Proof. intro n. left. exists n. reflexivity. Qed.
  Lemma small_of : forall x, (size x < bound)%nat -> sp_supported x = true -> small x.
  Proof. intros. right. split; assumption. Qed.

  Lemma app_total : forall fl x, small x -> exists s, StrModel.app rec fl x = Ok s.
  Proof.
    intros fl x [[n ->]|[S G]]; [simpl; done|].
    destruct x; simpl; try (apply Hrec; assumption). done.
  Qed.

  Lemma paren_lt_total : forall fl x p, small x -> exists s, paren_lt rec fl x p = Ok s.
  Proof. intros fl x p H. unfold paren_lt. step (app_total fl x H). done. Qed.
  Lemma paren_le_total : forall fl x p, small x -> exists s, paren_le rec fl x p = Ok s.
  Proof. intros fl x p H. unfold paren_le. step (app_total fl x H). done. Qed.

  Lemma mapM_app_total : forall fl l, (forall x, In x l -> small x) -> exists ls, mapM (StrModel.app rec fl) l = Ok ls.
  Proof. intros fl l H. apply mapM_total. intros x Hx. apply app_total. apply H. exact Hx. Qed.

  Lemma app_vec_total : forall fl l, (forall x, In x l -> small x) -> exists s, app_vec rec fl l = Ok s.
  Proof. intros fl l H. unfold app_vec. step (mapM_app_total fl l H). done. Qed.

  Lemma print_pow_total : forall fl a c, small a -> small c -> exists s, print_pow rec fl a c = Ok s.
  Proof.
    intros fl a c Ha Hc. unfold print_pow.
    assert (Hstd : exists s, (if is_E a then rbind (StrModel.app rec fl c) (fun s => Ok (t_exp ++ s ++ t_rpar))
              else if is_half c then rbind (StrModel.app rec fl a) (fun s => Ok (t_sqrt ++ s ++ t_rpar))
              else rbind (paren_le rec fl a PREC_Pow) (fun sa => rbind (paren_le rec fl c PREC_Pow) (fun sc =>
                     Ok (sa ++ (match fl with FStr => t_powpow | _ => t_caret end) ++ sc)))) = Ok s).
    { destruct (is_E a); [step (app_total fl c Hc); done|].
      destruct (is_half c); [step (app_total fl a Ha); done|].
      step (paren_le_total fl a PREC_Pow Ha). step (paren_le_total fl c PREC_Pow Hc). done. }
    destruct fl; try exact Hstd.
    destruct (is_E a); [step (app_total FLatex c Hc); done|].
    destruct (is_half c); [step (app_total FLatex a Ha); done|].
    assert (Hdef : exists s, rbind (paren_le rec FLatex a PREC_Pow) (fun sa =>
                     rbind (StrModel.app rec FLatex c) (fun sc =>
                       Ok (sa ++ (if Nat.ltb 1 (lbytes sc) then t_caretbr ++ sc ++ t_rbrace else t_caret ++ sc)))) = Ok s).
    { step (paren_le_total FLatex a PREC_Pow Ha). step (app_total FLatex c Hc). done. }
    destruct c as [n|nm|nm idx|nm|c0 d0|c0 d|b x|code a0|code a0 b0|code args|nm args|code a0 b0|a0 xs|a0 d0|pl|bv|s0 e0 lo ro|code];
      try exact Hdef.
    destruct n as [z|p q|rn rd imn imd|bb|re im|dd|]; try exact Hdef.
    destruct p as [|pp|pp]; try exact Hdef.
    destruct pp; try exact Hdef.
    step (app_total FLatex a Ha). done.
  Qed.

  Lemma add_term_total : forall fl k v, small k -> exists s, add_term rec fl k v = Ok s.
  Proof.
    intros fl k v Hk. unfold add_term.
    destruct (num_is v 1); [apply paren_lt_total; exact Hk|].
    destruct (num_is v (-1)); [step (paren_lt_total fl k PREC_Mul Hk); done|].
    step (paren_lt_total fl (ENum v) PREC_Mul (small_num v)). step (paren_lt_total fl k PREC_Mul Hk). done.
  Qed.

  Lemma add_terms_total : forall fl d first,
    (forall p, In p d -> small (fst p)) -> exists s, add_terms rec fl first d = Ok s.
  Proof.
    induction d as [|[k v] d IH]; intros first H; cbn [add_terms]; [done|].
    step (add_term_total fl k v (H (k, v) (or_introl eq_refl))).
    step (IH false (fun p Hp => H p (or_intror Hp))). done.
  Qed.

  Lemma print_add_total : forall fl c d,
    (forall p, In p d -> small (fst p)) -> exists s, print_add rec fl c d = Ok s.
  Proof.
    intros fl c d H. unfold print_add.
    assert (Hs : forall p, In p (pmap_of d) -> small (fst p)) by (intros p Hp; apply H; apply pmap_of_in; exact Hp).
    destruct (negb (num_is c 0)); [step (add_terms_total fl (pmap_of d) false Hs); done | apply add_terms_total; exact Hs].
  Qed.

  Lemma mul_factors_total : forall fl d o num o2 den,
    (forall p, In p d -> small (fst p) /\ small (snd p)) ->
    exists r, mul_factors rec fl d o num o2 den = Ok r.
  Proof.
    induction d as [|[b x] d IH]; intros o num o2 den H; cbn [mul_factors]; [done|].
    destruct (H (b, x) (or_introl eq_refl)) as [Hb Hx]. cbn [fst snd] in *.
    assert (Hd : forall p, In p d -> small (fst p) /\ small (snd p)) by (intros p Hp; apply H; right; exact Hp).
    destruct (if is_E b then None else neg_rational_exp x) as [nx|].
    - assert (exists t, (if num_is nx 1 then paren_lt rec fl b PREC_Mul else print_pow rec fl b (ENum nx)) = Ok t) as Ht
        by (destruct (num_is nx 1); [apply paren_lt_total | apply print_pow_total]; auto using small_num).
      step Ht. apply IH. exact Hd.
    - assert (exists t, (if is_num_int x 1 then paren_lt rec fl b PREC_Mul else print_pow rec fl b x) = Ok t) as Ht
        by (destruct (is_num_int x 1); [apply paren_lt_total | apply print_pow_total]; auto).
      step Ht. apply IH. exact Hd.
  Qed.

  Lemma print_mul_node_total : forall fl c d,
    (forall p, In p d -> small (fst p) /\ small (snd p)) -> exists s, print_mul_node rec fl c d = Ok s.
  Proof.
    intros fl c d H. unfold print_mul_node.
    match goal with
    | |- exists s, rbind ?init _ = Ok s => assert (Hinit : exists st, init = Ok st)
    end.
    { destruct (num_is c (-1)); [done|].
      destruct (negb (num_is c 1)); [|done].
      destruct (negb (split_mul_coef fl)).
      - step (paren_lt_total fl (ENum c) PREC_Mul (small_num c)). done.
      - destruct (coef_numer_denom c) as [numer denom].
        assert (exists r, (if negb (num_is numer 1)
                           then rbind (paren_lt rec fl (ENum numer) PREC_Mul) (fun s => Ok (s ++ print_mul fl, true))
                           else Ok ([], false)) = Ok r) as H1
          by (destruct (negb (num_is numer 1)); [step (paren_lt_total fl (ENum numer) PREC_Mul (small_num numer)); done | done]).
        step H1.
        assert (exists r, (if negb (num_is denom 1)
                           then rbind (paren_lt rec fl (ENum denom) PREC_Mul) (fun s => Ok (s ++ print_mul fl, 1%nat))
                           else Ok ([], 0%nat)) = Ok r) as H2
          by (destruct (negb (num_is denom 1)); [step (paren_lt_total fl (ENum denom) PREC_Mul (small_num denom)); done | done]).
        step H2. done. }
    step Hinit. destruct s as [[[o0 num0] o20] den0].
    step (mul_factors_total fl d o0 num0 o20 den0 H). destruct s as [[[o num] o2] den].
    destruct den as [|[|den]]; done.
  Qed.

  Lemma print_function_total : forall fl code args,
    (forall x, In x args -> small x) -> exists s, print_function rec fl code args = Ok s.
  Proof.
    intros fl code args H. unfold print_function. step (app_vec_total fl args H).
    destruct fl; try done. destruct (code =? TC_Gamma); done.
  Qed.

  Lemma print_logic_total : forall fl code args,
    (forall x, In x args -> small x) -> exists s, print_logic rec fl code args = Ok s.
  Proof.
    intros fl code args H. unfold print_logic.
    destruct fl; [step (app_vec_total FStr args H); done | step (app_vec_total FJulia args H); done
                 | step (app_vec_total FSbml args H); done |].
    match goal with |- exists s, rbind (mapM ?f args) _ = Ok s => destruct (mapM_total f args) as [ls Hls] end.
    { intros x Hx. step (app_total FLatex x (H x Hx)). done. }
    rewrite Hls. cbn [rbind]. done.
  Qed.

  Lemma deriv_groups_total : forall rest prev count,
    small prev -> (forall x, In x rest -> small x) -> exists s, deriv_groups rec prev count rest = Ok s.
  Proof.
    induction rest as [|x rest IH]; intros prev count Hp Hr; cbn [deriv_groups].
    - step (app_total FLatex prev Hp). done.
    - destruct (negb (expr_eqb prev x)).
      + step (app_total FLatex prev Hp).
        step (IH x 1 (Hr x (or_introl eq_refl)) (fun y Hy => Hr y (or_intror Hy))). done.
      + apply IH; [apply Hr; left; reflexivity | intros y Hy; apply Hr; right; exact Hy].
  Qed.
End Rec.

Lemma p_constant_total : forall fl nm, known_constant nm = true -> exists s, p_constant fl nm = Ok s.
Proof.
  intros fl nm H. unfold p_constant, known_constant in *. destruct fl; try done.
  - destruct (beq nm name_E); done.
  - destruct (beq nm name_E); done.
  - destruct (beq nm nm_pi); [done|]. destruct (beq nm name_E); [done|].
    destruct (beq nm nm_EulerGamma); [done|]. destruct (beq nm nm_Catalan); [done|].
    destruct (beq nm nm_GoldenRatio); [done | discriminate].
Qed.

Lemma p_atom_total : forall fl code, sp_node_sup (EAtom code) = true -> exists s, p_atom fl code = Ok s.
Proof.
  intros fl code H. unfold p_atom. cbn [sp_node_sup] in H.
  destruct (code =? TC_Complexes); [done|]. destruct (code =? TC_Reals); [done|].
  destruct (code =? TC_Rationals); [done|]. destruct (code =? TC_Integers); [done|].
  destruct (code =? TC_Naturals); [done|]. destruct (code =? TC_Naturals0); [done|].
  destruct (code =? TC_EmptySet); [done|]. destruct (code =? TC_UniversalSet); [done | discriminate].
Qed.

Ltac pairs_case rec B Hrec Hall fl0 fin :=
  match goal with
  | |- exists s, rbind (mapM ?f ?dd) _ = Ok s =>
      let ps := fresh "ps" in let Hps := fresh "Hps" in
      destruct (mapM_total f dd) as [ps Hps];
      [ let p := fresh "p" in let Hp := fresh "Hp" in let H1 := fresh "H1" in let H2 := fresh "H2" in
        intros p Hp; destruct (Hall p Hp) as [H1 H2];
        step (app_total rec B Hrec fl0 (fst p) H1); step (app_total rec B Hrec fl0 (snd p) H2); done
      | rewrite Hps; cbn [rbind]; fin ]
  end.

Lemma print_node_total : forall rec fl e,
  sp_supported e = true ->
  (forall fl x, (size x < size e)%nat -> sp_supported x = true -> exists l, rec fl x = Ok l) ->
  exists l, print_node rec fl e = Ok l.
Proof.
  intros rec fl e G Hrec. pose proof (sp_sup_node e G) as Gn. unfold sp_supported in G.
  set (B := size e) in *.
  assert (Hsm : forall x, (size x < B)%nat -> all_nodes sp_node_sup x = true -> small B x)
    by (intros; apply small_of; assumption).
  destruct e as [n|nm|nm idx|nm|c d|c d|b x|code a|code a c|code args|nm args|code a c|a xs|a d|pl|bv|s x lo ro|code];
    cbn [all_nodes] in G; apply andb_prop in G; destruct G as [_ Gk]; cbn [print_node]; cbn [size] in B.
  - done.
  - destruct fl; done.
  - destruct fl; done.
  - apply p_constant_total. exact Gn.
  - (* EAdd *)
    apply (print_add_total rec B Hrec). intros p Hp. rewrite forallb_forall in Gk.
    apply Hsm; [|apply Gk; exact Hp]. pose proof (in_size_add d p Hp). subst B. lia.
  - (* EMul *)
    apply (print_mul_node_total rec B Hrec). intros p Hp. rewrite forallb_forall in Gk.
    specialize (Gk p Hp). apply andb_prop in Gk. destruct Gk as [G1 G2].
    pose proof (in_size_mul d p Hp). pose proof (size_pos (fst p)). pose proof (size_pos (snd p)).
    split; apply Hsm; try assumption; subst B; lia.
  - (* EPow *)
    apply andb_prop in Gk. destruct Gk as [G1 G2].
    apply (print_pow_total rec B Hrec); apply Hsm; try assumption; subst B; lia.
  - (* EF1 *)
    assert (Sa : small B a) by (apply Hsm; [subst B; lia | exact Gk]).
    destruct (code =? TC_Not).
    { destruct fl; [step (app_total rec B Hrec FStr a Sa) | step (app_total rec B Hrec FStr a Sa)
                   | step (app_total rec B Hrec FStr a Sa) | step (app_total rec B Hrec FLatex a Sa)]; done. }
    assert (Hf : forall fl', exists s, print_function rec fl' code [a] = Ok s)
      by (intro fl'; apply (print_function_total rec B Hrec); intros y [<-|[]]; exact Sa).
    destruct fl; try apply Hf.
    destruct (code =? TC_Abs); [step (app_total rec B Hrec FLatex a Sa); done|].
    destruct (code =? TC_Floor); [step (app_total rec B Hrec FLatex a Sa); done|].
    destruct (code =? TC_Ceiling); [step (app_total rec B Hrec FLatex a Sa); done|].
    apply Hf.
  - (* EF2 *)
    apply andb_prop in Gk. destruct Gk as [G1 G2].
    assert (Sa : small B a) by (apply Hsm; [subst B; lia | exact G1]).
    assert (Sc : small B c) by (apply Hsm; [subst B; lia | exact G2]).
    destruct (rel_op fl code) as [op|].
    + destruct fl;
        try (match goal with
             | |- context [paren_le rec ?f a PREC_Relational] =>
                 step (paren_le_total rec B Hrec f a PREC_Relational Sa); step (paren_le_total rec B Hrec f c PREC_Relational Sc); done
             end).
      step (app_total rec B Hrec FLatex a Sa). step (app_total rec B Hrec FLatex c Sc). done.
    + apply (print_function_total rec B Hrec). intros y [<-|[<-|[]]]; assumption.
  - (* EFN *)
    assert (Hall : forall y, In y args -> small B y).
    { intros y Hy. rewrite forallb_forall in Gk. apply Hsm; [|apply Gk; exact Hy].
      pose proof (in_size_list args y Hy). subst B. lia. }
    destruct ((code =? TC_And) || (code =? TC_Or) || (code =? TC_Xor)); [apply (print_logic_total rec B Hrec); exact Hall|].
    destruct (code =? TC_FiniteSet).
    { destruct fl; [step (mapM_app_total rec B Hrec FStr args Hall) | step (mapM_app_total rec B Hrec FStr args Hall)
                   | step (mapM_app_total rec B Hrec FStr args Hall) | step (mapM_app_total rec B Hrec FLatex args Hall)]; done. }
    destruct (code =? TC_Union); [step (mapM_app_total rec B Hrec fl args Hall); done|].
    destruct (code =? TC_Intersection).
    { destruct fl; [step (app_vec_total rec B Hrec FStr args Hall); done | step (app_vec_total rec B Hrec FJulia args Hall); done
                   | step (app_vec_total rec B Hrec FSbml args Hall); done |].
      step (mapM_app_total rec B Hrec FLatex args Hall). done. }
    apply andb_prop in Gn. destruct Gn as [A1 A2].
    destruct (code =? TC_ConditionSet).
    { destruct args as [|sym [|cond [|? ?]]]; try discriminate.
      step (app_total rec B Hrec fl sym (Hall sym (or_introl eq_refl))).
      step (app_total rec B Hrec fl cond (Hall cond (or_intror (or_introl eq_refl)))). destruct fl; done. }
    destruct (code =? TC_ImageSet).
    { destruct args as [|sym [|ex [|base [|? ?]]]]; try discriminate.
      step (app_total rec B Hrec fl ex (Hall ex (or_intror (or_introl eq_refl)))).
      step (app_total rec B Hrec fl sym (Hall sym (or_introl eq_refl))).
      step (app_total rec B Hrec fl base (Hall base (or_intror (or_intror (or_introl eq_refl))))). destruct fl; done. }
    apply (print_function_total rec B Hrec). exact Hall.
  - (* EFunSym *)
    assert (Hall : forall y, In y args -> small B y).
    { intros y Hy. rewrite forallb_forall in Gk. apply Hsm; [|apply Gk; exact Hy].
      pose proof (in_size_list args y Hy). subst B. lia. }
    step (app_vec_total rec B Hrec fl args Hall). done.
  - (* ELex *)
    apply andb_prop in Gk. destruct Gk as [G1 G2].
    assert (Sa : small B a) by (apply Hsm; [subst B; lia | exact G1]).
    assert (Sc : small B c) by (apply Hsm; [subst B; lia | exact G2]).
    cbn [sp_node_sup] in Gn.
    destruct (code =? TC_Contains).
    { step (app_total rec B Hrec fl a Sa). step (app_total rec B Hrec fl c Sc). destruct fl; done. }
    destruct (code =? TC_Complement); [|discriminate].
    step (app_total rec B Hrec fl a Sa). step (app_total rec B Hrec fl c Sc). done.
  - (* EDeriv *)
    apply andb_prop in Gk. destruct Gk as [Ga Gx].
    assert (Sa : small B a) by (apply Hsm; [subst B; lia | exact Ga]).
    assert (Hall : forall y, In y xs -> small B y).
    { intros y Hy. rewrite forallb_forall in Gx. apply Hsm; [|apply Gx; exact Hy].
      pose proof (in_size_list xs y Hy). subst B. lia. }
    destruct fl;
      [step (app_total rec B Hrec FStr a Sa); step (mapM_app_total rec B Hrec FStr xs Hall); done
      |step (app_total rec B Hrec FJulia a Sa); step (mapM_app_total rec B Hrec FJulia xs Hall); done
      |step (app_total rec B Hrec FSbml a Sa); step (mapM_app_total rec B Hrec FSbml xs Hall); done|].
    cbn [sp_node_sup] in Gn.
    destruct xs as [|x0 [|x1 xr]]; [discriminate | |].
    + step (app_total rec B Hrec FLatex x0 (Hall x0 (or_introl eq_refl))). step (app_total rec B Hrec FLatex a Sa). done.
    + step (deriv_groups_total rec B Hrec (x1 :: xr) x0 1 (Hall x0 (or_introl eq_refl))
              (fun y Hy => Hall y (or_intror Hy))).
      step (app_total rec B Hrec FLatex a Sa). done.
  - (* ESubs *)
    apply andb_prop in Gk. destruct Gk as [Ga Gd].
    assert (Sa : small B a) by (apply Hsm; [subst B; lia | exact Ga]).
    assert (Hall : forall p, In p d -> small B (fst p) /\ small B (snd p)).
    { intros p Hp. rewrite forallb_forall in Gd. specialize (Gd p Hp). apply andb_prop in Gd. destruct Gd as [G1 G2].
      pose proof (in_size_mul d p Hp). pose proof (size_pos (fst p)). pose proof (size_pos (snd p)).
      split; apply Hsm; try assumption; subst B; lia. }
    destruct fl;
      [ pairs_case rec B Hrec Hall FStr ltac:(step (app_total rec B Hrec FStr a Sa); done)
      | pairs_case rec B Hrec Hall FJulia ltac:(step (app_total rec B Hrec FJulia a Sa); done)
      | pairs_case rec B Hrec Hall FSbml ltac:(step (app_total rec B Hrec FSbml a Sa); done) |].
    step (app_total rec B Hrec FLatex a Sa).
    match goal with |- exists s, rbind (mapM ?f d) _ = Ok s => destruct (mapM_total f d) as [ps Hps] end.
    { intros p Hp. destruct (Hall p Hp) as [H1 H2].
      step (app_total rec B Hrec FLatex (fst p) H1). step (app_total rec B Hrec FLatex (snd p) H2). done. }
    rewrite Hps. cbn [rbind]. done.
  - (* EPw *)
    assert (Hall : forall p, In p pl -> small B (fst p) /\ small B (snd p)).
    { intros p Hp. rewrite forallb_forall in Gk. specialize (Gk p Hp). apply andb_prop in Gk. destruct Gk as [G1 G2].
      pose proof (in_size_mul pl p Hp). pose proof (size_pos (fst p)). pose proof (size_pos (snd p)).
      split; apply Hsm; try assumption; subst B; lia. }
    clear Gk Gn Hsm. destruct fl;
      [ pairs_case rec B Hrec Hall FStr ltac:(done) | pairs_case rec B Hrec Hall FJulia ltac:(done) | | ].
    + (* SBML *)
      match goal with
      | |- exists s, rbind (?items pl) _ = Ok s =>
          assert (Hit : forall l, (forall p, In p l -> small B (fst p) /\ small B (snd p)) -> exists r, items l = Ok r)
      end.
      { induction l as [|[x0 c0] l IHl]; intros Hl; [done|].
        destruct (Hl (x0, c0) (or_introl eq_refl)) as [H1 H2]. cbn [fst snd] in H1, H2.
        assert (Hl' : forall p, In p l -> small B (fst p) /\ small B (snd p)) by (intros p Hp; apply Hl; right; exact Hp).
        destruct (IHl Hl') as [rest Hrest].
        destruct (app_total rec B Hrec FSbml x0 H1) as [sx Hx]. destruct (app_total rec B Hrec FSbml c0 H2) as [sc Hc].
        destruct l as [|p1 l'].
        - simpl. rewrite Hx. simpl. destruct (is_true c0); [done|]. rewrite Hc. simpl. done.
        - simpl in Hrest |- *. rewrite Hx. simpl. rewrite Hc. simpl. rewrite Hrest. simpl. done. }
      step (Hit pl Hall). done.
    + (* LaTeX *)
      match goal with
      | |- exists s, rbind (?rows pl) _ = Ok s =>
          assert (Hit : forall l, (forall p, In p l -> small B (fst p) /\ small B (snd p)) -> exists r, rows l = Ok r)
      end.
      { induction l as [|[x0 c0] l IHl]; intros Hl; [done|].
        destruct (Hl (x0, c0) (or_introl eq_refl)) as [H1 H2]. cbn [fst snd] in H1, H2.
        assert (Hl' : forall p, In p l -> small B (fst p) /\ small B (snd p)) by (intros p Hp; apply Hl; right; exact Hp).
        destruct (IHl Hl') as [rest Hrest].
        destruct (app_total rec B Hrec FLatex x0 H1) as [sx Hx]. destruct (app_total rec B Hrec FLatex c0 H2) as [sc Hc].
        destruct l as [|p1 l'].
        - simpl. rewrite Hx. simpl. destruct (is_true c0); [done|]. rewrite Hc. simpl. done.
        - simpl in Hrest |- *. rewrite Hx. simpl. rewrite Hc. simpl. rewrite Hrest. simpl. done. }
      step (Hit pl Hall). done.
  - destruct fl; done.
  - (* EInterval *)
    apply andb_prop in Gk. destruct Gk as [G1 G2].
    assert (Ss : small B s) by (apply Hsm; [subst B; lia | exact G1]).
    assert (Sx : small B x) by (apply Hsm; [subst B; lia | exact G2]).
    step (app_total rec B Hrec FStr s Ss). step (app_total rec B Hrec FStr x Sx). destruct fl; done.
  - apply p_atom_total. exact Gn.
Qed.

Lemma sp_fuel_total : forall f fl e,
  (size e <= f)%nat -> sp_supported e = true -> exists l, sp_fuel (S f) fl e = Ok l.
Proof.
  induction f as [|f IH]; intros fl e Hs G.
  - pose proof (size_pos e). lia.
  - change (sp_fuel (S (S f)) fl e) with (print_node (sp_fuel (S f)) fl e).
    apply print_node_total; [exact G|]. intros fl' x Hx Gx. apply IH; [lia | exact Gx].
Qed.

(* str(e), julia_str(e), sbml(e), latex(e) all return *)
Theorem sp_total : forall fl e, sp_supported e = true -> exists l, sp_toks fl e = Ok l.
Proof. intros fl e G. unfold sp_toks. apply sp_fuel_total; [lia | exact G]. Qed.
