(* C44 -- StringBox: every operation of stringbox.cpp preserves "all lines have display width
   width_" (for both boxes it mutates). *)
From Coq Require Import List Bool NArith ZArith Lia.
Import ListNotations.
From SE Require Import C44.C44Spec C44.TextProofs.
Local Open Scope N_scope.

Ltac inv H := inversion H; subst; clear H.
Lemma Ok_inj' : forall {A} (a b : A), Ok a = Ok b -> a = b.
Proof. intros A a b H. injection H. auto. Qed.
Ltac oki H := apply Ok_inj' in H; subst.
(* evaluate the display width of closed byte strings in the goal *)
Ltac dwc :=
  repeat match goal with
         | |- context [dwidth ?g] =>
             tryif is_var g then fail
             else (let v := eval vm_compute in (dwidth g) in progress change (dwidth g) with v)
         end.

(* ---------------------------------------------------------------- display width *)
Lemma dwidth_app : forall a b, dwidth (a ++ b) = dwidth a + dwidth b.
Proof.
  intros a b. unfold dwidth. rewrite filter_app, app_length. apply Nat2N.inj_add.
Qed.
Lemma dwidth_nil : dwidth [] = 0.
Proof. reflexivity. Qed.
Lemma dwidth_repeat : forall c k, is_cont c = false -> dwidth (repeat c k) = N.of_nat k.
Proof.
  intros c k H. unfold dwidth. f_equal.
  induction k; cbn [repeat filter]; [reflexivity|]. rewrite H. cbn [negb length]. f_equal. exact IHk.
Qed.
Lemma dwidth_spaces : forall n, dwidth (spaces n) = n.
Proof. intro n. unfold spaces. rewrite dwidth_repeat by reflexivity. apply N2Nat.id. Qed.
Lemma dwidth_ascii : forall s, ascii s = true -> dwidth s = blen s.
Proof.
  intros s H. unfold dwidth, blen. f_equal. induction s as [|c s IH]; [reflexivity|].
  simpl in H. apply andb_prop in H. destruct H as [H1 H2]. simpl.
  assert (is_cont c = false) as ->.
  { unfold is_cont. apply N.ltb_lt in H1. destruct (128 <=? c) eqn:E; [apply N.leb_le in E; lia | reflexivity]. }
  simpl. f_equal. apply IH. exact H2.
Qed.
Lemma dwidth_hbars : forall k, dwidth (concat (repeat g_hbar k)) = N.of_nat k.
Proof.
  induction k; cbn [repeat concat]; [reflexivity|].
  rewrite dwidth_app, IHk. change (dwidth g_hbar) with 1. lia.
Qed.

Lemma rect_intro : forall ls w, Forall (fun l => dwidth l = w) ls -> rect (mkBox ls w).
Proof. intros. exact H. Qed.

Lemma rect_box_w : forall s w, dwidth s = w -> rect (box_w s w).
Proof. intros. unfold rect, box_w. simpl. constructor; [assumption | constructor]. Qed.
Lemma rect_box_s : forall s, ascii s = true -> rect (box_s s).
Proof. intros. apply rect_box_w. apply dwidth_ascii. assumption. Qed.
Lemma rect_box_e : rect box_e.
Proof. constructor. Qed.

(* ---------------------------------------------------------------- pad_lines, add_below *)
Lemma pad_lines_rect : forall b nw, rect b -> width b <= nw ->
  Forall (fun l => dwidth l = nw) (pad_lines b nw).
Proof.
  intros b nw R Hle. unfold pad_lines. apply Forall_forall. intros l Hl.
  apply in_map_iff in Hl. destruct Hl as (l0 & <- & Hl0).
  unfold rect in R. rewrite Forall_forall in R. specialize (R l0 Hl0).
  rewrite !dwidth_app, dwidth_spaces, R.
  set (diff := nw - width b).
  assert (Hn : nw = width b + diff) by (subst diff; lia).
  assert (Hd : diff = 2 * (diff / 2) + diff mod 2) by (apply N.div_mod; lia).
  generalize dependent (diff / 2). generalize dependent (diff mod 2). intros r q Hd.
  destruct (0 <? q) eqn:E.
  - rewrite dwidth_spaces. lia.
  - apply N.ltb_ge in E. rewrite dwidth_nil. lia.
Qed.

Lemma add_below_rect : forall a o, rect a -> rect o ->
  rect (fst (add_below a o)) /\ rect (snd (add_below a o)).
Proof.
  intros a o Ra Ro. unfold add_below.
  destruct (width a <? width o) eqn:E1; simpl.
  - apply N.ltb_lt in E1. split; [|exact Ro]. apply rect_intro. apply Forall_app. split.
    + apply pad_lines_rect; [exact Ra | lia].
    + exact Ro.
  - destruct (width o <? width a) eqn:E2; simpl.
    + apply N.ltb_lt in E2.
      assert (Rp : Forall (fun l => dwidth l = width a) (pad_lines o (width a)))
        by (apply pad_lines_rect; [exact Ro | lia]).
      split; [|exact Rp]. apply rect_intro. apply Forall_app. split; [exact Ra | exact Rp].
    + apply N.ltb_ge in E1. apply N.ltb_ge in E2. assert (width o = width a) as Ew by lia.
      split; [|exact Ro]. apply rect_intro. apply Forall_app. split; [exact Ra|].
      unfold rect in Ro. rewrite Ew in Ro. exact Ro.
Qed.

Lemma add_below_line_rect : forall a o, rect a -> rect o ->
  rect (fst (add_below_unicode_line a o)) /\ rect (snd (add_below_unicode_line a o)).
Proof.
  intros a o Ra Ro. unfold add_below_unicode_line.
  apply add_below_rect; [|exact Ro].
  apply add_below_rect; [exact Ra|].
  apply rect_box_w. rewrite dwidth_hbars. apply N2Nat.id.
Qed.

(* ---------------------------------------------------------------- add_right, add_power *)
Lemma zip_app_rect : forall x y wa wo,
  Forall (fun l => dwidth l = wa) x -> Forall (fun l => dwidth l = wo) y ->
  Forall (fun l => dwidth l = wa + wo) (zip_app x y).
Proof.
  induction x as [|l x IH]; intros y wa wo Hx Hy; simpl; [constructor|].
  destruct y as [|m y]; [constructor|]. inv Hx. inv Hy.
  constructor; [rewrite dwidth_app; reflexivity | apply IH; assumption].
Qed.

Lemma Forall_repeat : forall {A} (P : A -> Prop) x k, P x -> Forall P (repeat x k).
Proof. induction k; simpl; intros; constructor; auto. Qed.

Lemma add_right_rect : forall a o, rect a -> rect o ->
  rect (fst (add_right a o)) /\ rect (snd (add_right a o)).
Proof.
  intros a o Ra Ro. unfold add_right.
  set (half := Nat.div _ 2). set (odd := Nat.modulo _ 2).
  assert (Hg : forall b, rect b ->
            Forall (fun l => dwidth l = width b)
              (repeat (spaces (width b)) (half + odd) ++ lines b ++ repeat (spaces (width b)) half)).
  { intros b Rb. apply Forall_app. split; [apply Forall_repeat, dwidth_spaces|].
    apply Forall_app. split; [exact Rb | apply Forall_repeat, dwidth_spaces]. }
  destruct (Nat.ltb (length (lines a)) (length (lines o))); simpl.
  - split; [|exact Ro]. apply rect_intro. apply zip_app_rect; [exact (Hg a Ra) | exact Ro].
  - split; [|exact (Hg o Ro)]. apply rect_intro. apply zip_app_rect; [exact Ra | exact (Hg o Ro)].
Qed.

Lemma add_power_rect : forall a o, rect a -> rect o -> rect (add_power a o).
Proof.
  intros a o Ra Ro. unfold add_power. apply rect_intro. apply Forall_app. split.
  - apply Forall_rev. apply Forall_forall. intros l Hl. apply in_map_iff in Hl.
    destruct Hl as (l0 & <- & Hl0). unfold rect in Ro. rewrite Forall_forall in Ro.
    rewrite dwidth_app, dwidth_spaces, (Ro l0 Hl0). reflexivity.
  - apply Forall_forall. intros l Hl. apply in_map_iff in Hl.
    destruct Hl as (l0 & <- & Hl0). unfold rect in Ra. rewrite Forall_forall in Ra.
    rewrite dwidth_app, dwidth_spaces, (Ra l0 Hl0). reflexivity.
Qed.

(* ---------------------------------------------------------------- enclosures *)
Lemma map_wrap_rect : forall (g1 g2 : list N) ls w k,
  dwidth g1 + dwidth g2 = k -> Forall (fun l => dwidth l = w) ls ->
  Forall (fun l => dwidth l = w + k) (List.map (fun l => g1 ++ l ++ g2) ls).
Proof.
  intros g1 g2 ls w k Hk H. apply Forall_forall. intros l Hl. apply in_map_iff in Hl.
  destruct Hl as (l0 & <- & Hl0). rewrite Forall_forall in H. rewrite !dwidth_app, (H l0 Hl0). lia.
Qed.

Lemma enclose_abs_rect : forall b, rect b -> rect (enclose_abs b).
Proof. intros b R. unfold enclose_abs. apply rect_intro. apply map_wrap_rect; [reflexivity | exact R]. Qed.

Definition put1 (put : list N -> list N -> list N) : Prop :=
  forall g l, dwidth (put g l) = dwidth l + dwidth g.
Lemma put1_left : put1 put_left.
Proof. intros g l. unfold put_left. rewrite dwidth_app. lia. Qed.
Lemma put1_right : put1 put_right.
Proof. intros g l. unfold put_right. rewrite dwidth_app. lia. Qed.

Lemma rev_cons_split : forall {A} (rest : list A) last rmid, rev rest = last :: rmid -> rest = rev rmid ++ [last].
Proof. intros A rest last rmid H. rewrite <- (rev_involutive rest), H. reflexivity. Qed.

Lemma deco3_rect : forall put top mid bot ls w,
  put1 put -> dwidth top = 1 -> dwidth mid = 1 -> dwidth bot = 1 ->
  Forall (fun l => dwidth l = w) ls -> Forall (fun l => dwidth l = w + 1) (deco3 put top mid bot ls).
Proof.
  intros put top mid bot ls w Hp Ht Hm Hb H. unfold deco3.
  destruct ls as [|first rest]; [constructor|]. inv H.
  destruct (rev rest) as [|last rmid] eqn:E.
  - constructor; [rewrite Hp, Ht; lia | constructor].
  - apply rev_cons_split in E. subst rest. apply Forall_app in H3. destruct H3 as [H3 H4]. inv H4.
    constructor; [rewrite Hp, Ht; lia|]. apply Forall_app. split.
    + apply Forall_forall. intros l Hl. apply in_map_iff in Hl. destruct Hl as (l0 & <- & Hl0).
      rewrite Forall_forall in H3. rewrite Hp, Hm, (H3 l0 Hl0). lia.
    + constructor; [rewrite Hp, Hb; lia | constructor].
Qed.

Lemma bracket_side_rect : forall put one top mid bot b b',
  put1 put -> dwidth one = 1 -> dwidth top = 1 -> dwidth mid = 1 -> dwidth bot = 1 ->
  rect b -> bracket_side put one top mid bot b = Ok b' -> rect b'.
Proof.
  intros put one top mid bot b b' Hp H1 Ht Hm Hb R H. unfold bracket_side in H. unfold rect in R.
  destruct (lines b) as [|l [|l2 ls]] eqn:El; [discriminate | |]; oki H; apply rect_intro.
  - inv R. constructor; [rewrite Hp, H1; lia | constructor].
  - exact (deco3_rect put top mid bot (l :: l2 :: ls) (width b) Hp Ht Hm Hb R).
Qed.

Lemma add_left_parens_rect : forall b b', rect b -> add_left_parens b = Ok b' -> rect b'.
Proof. intros b b' R H. eapply (bracket_side_rect put_left); [apply put1_left | | | | | exact R | exact H]; reflexivity. Qed.
Lemma add_right_parens_rect : forall b b', rect b -> add_right_parens b = Ok b' -> rect b'.
Proof. intros b b' R H. eapply (bracket_side_rect put_right); [apply put1_right | | | | | exact R | exact H]; reflexivity. Qed.
Lemma add_left_sq_rect : forall b b', rect b -> add_left_sqbracket b = Ok b' -> rect b'.
Proof. intros b b' R H. eapply (bracket_side_rect put_left); [apply put1_left | | | | | exact R | exact H]; reflexivity. Qed.
Lemma add_right_sq_rect : forall b b', rect b -> add_right_sqbracket b = Ok b' -> rect b'.
Proof. intros b b' R H. eapply (bracket_side_rect put_right); [apply put1_right | | | | | exact R | exact H]; reflexivity. Qed.

Lemma rthen_rect : forall (f g : sbox -> res sbox) b b',
  (forall x y, rect x -> f x = Ok y -> rect y) -> (forall x y, rect x -> g x = Ok y -> rect y) ->
  rect b -> rthen (f b) g = Ok b' -> rect b'.
Proof.
  intros f g b b' Hf Hg R H. unfold rthen in H. destruct (f b) eqn:E; try discriminate. eauto.
Qed.

Lemma enclose_parens_rect : forall b b', rect b -> enclose_parens b = Ok b' -> rect b'.
Proof. intros b b'. apply rthen_rect; [apply add_left_parens_rect | apply add_right_parens_rect]. Qed.
Lemma enclose_sq_rect : forall b b', rect b -> enclose_sqbrackets b = Ok b' -> rect b'.
Proof. intros b b'. apply rthen_rect; [apply add_left_sq_rect | apply add_right_sq_rect]. Qed.

Lemma curly_mid_rect : forall put gmid mid ls i w,
  put1 put -> dwidth gmid = 1 -> Forall (fun l => dwidth l = w) ls ->
  Forall (fun l => dwidth l = w + 1) (curly_mid put gmid mid i ls).
Proof.
  induction ls as [|l ls IH]; intros i w Hp Hg H; simpl; [constructor|]. inv H.
  constructor; [|apply IH; assumption].
  rewrite Hp. destruct (Nat.eqb i mid); [rewrite Hg | change (dwidth g_c_ext) with 1]; reflexivity.
Qed.

Lemma curly_side_rect : forall left b b', rect b -> curly_side left b = Ok b' -> rect b'.
Proof.
  intros left b b' R H. unfold curly_side in H. unfold rect in R.
  set (put := if left then put_left else put_right) in *.
  assert (Hp : put1 put) by (destruct left; [apply put1_left | apply put1_right]).
  destruct (lines b) as [|l0 [|l1 [|l2 ls]]] eqn:El; [discriminate | | |].
  - oki H. pose proof (Forall_inv R) as W0. cbv beta in W0. apply rect_intro. constructor; [|constructor].
    rewrite Hp. destruct left; dwc; lia.
  - oki H. pose proof (Forall_inv R) as W0. pose proof (Forall_inv (Forall_inv_tail R)) as W1.
    cbv beta in W0, W1. apply rect_intro.
    constructor; [rewrite Hp; destruct left; dwc; lia|].
    constructor; [destruct left; rewrite dwidth_app, dwidth_spaces; dwc; lia|].
    constructor; [rewrite Hp; destruct left; dwc; lia | constructor].
  - destruct (rev (l1 :: l2 :: ls)) as [|last rmid] eqn:E; [discriminate|]. oki H.
    apply rev_cons_split in E. pose proof (Forall_inv R) as W0. pose proof (Forall_inv_tail R) as Rt.
    rewrite E in Rt. apply Forall_app in Rt. destruct Rt as [Rm Rl]. pose proof (Forall_inv Rl) as Wl.
    cbv beta in W0, Wl.
    apply rect_intro. constructor; [rewrite Hp; destruct left; dwc; lia|].
    apply Forall_app. split.
    + apply curly_mid_rect; [exact Hp | destruct left; reflexivity | exact Rm].
    + constructor; [rewrite Hp; destruct left; dwc; lia | constructor].
Qed.

Lemma enclose_curlies_rect : forall b b', rect b -> enclose_curlies b = Ok b' -> rect b'.
Proof. intros b b'. apply rthen_rect; apply curly_side_rect. Qed.

Lemma enclose_floor_rect : forall b b', rect b -> enclose_floor b = Ok b' -> rect b'.
Proof.
  intros b b' R H. unfold enclose_floor in H. unfold rect in R.
  destruct (rev (lines b)) as [|last rinit] eqn:E; [discriminate|]. oki H.
  apply rev_cons_split in E. rewrite E in R. apply Forall_app in R. destruct R as [R1 R2]. inv R2.
  apply rect_intro. apply Forall_app. split.
  - apply map_wrap_rect; [reflexivity | exact R1].
  - constructor; [|constructor]. rewrite !dwidth_app.
    change (dwidth g_lfloor) with 1. change (dwidth g_rfloor) with 1. lia.
Qed.

Lemma enclose_ceiling_rect : forall b b', rect b -> enclose_ceiling b = Ok b' -> rect b'.
Proof.
  intros b b' R H. unfold enclose_ceiling in H. unfold rect in R.
  destruct (lines b) as [|first rest] eqn:E; [discriminate|]. oki H. inv R.
  apply rect_intro. constructor.
  - rewrite !dwidth_app. change (dwidth g_lceil) with 1. change (dwidth g_rceil) with 1. lia.
  - apply map_wrap_rect; [reflexivity | assumption].
Qed.

Lemma sqrt_lines_rect : forall len ls i w,
  i = length ls -> (i <= len)%nat -> Forall (fun l => dwidth l = w) ls ->
  Forall (fun l => dwidth l = w + N.of_nat len + 1) (sqrt_lines len i ls).
Proof.
  induction ls as [|l ls IH]; intros i w Hi Hle H; [constructor|].
  pose proof (Forall_inv H) as W0. pose proof (Forall_inv_tail H) as Wt. cbv beta in W0.
  subst i. cbn [sqrt_lines length]. cbn [length] in Hle.
  constructor.
  - rewrite dwidth_app, W0.
    destruct (Nat.eqb (S (length ls)) 1) eqn:E.
    + apply Nat.eqb_eq in E. rewrite !dwidth_app, dwidth_repeat by reflexivity. dwc. lia.
    + rewrite !dwidth_app, !dwidth_repeat by reflexivity. dwc. lia.
  - apply IH; [reflexivity | lia | exact Wt].
Qed.

Lemma enclose_sqrt_rect : forall b, rect b -> rect (enclose_sqrt b).
Proof.
  intros b R. unfold enclose_sqrt. apply rect_intro. constructor.
  - rewrite dwidth_app, !dwidth_repeat by reflexivity. rewrite N2Nat.id. lia.
  - replace (width b + N.of_nat (length (lines b)) + 1) with (width b + N.of_nat (length (lines b)) + 1) by reflexivity.
    apply sqrt_lines_rect; [reflexivity | lia | exact R].
Qed.

(* ---------------------------------------------------------------- the stack machine of the BOX histories *)
Definition pushes_rect (ops : list boxop) : Prop :=
  Forall (fun o => match o with OPush b => rect b | _ => True end) ops.

Lemma un_op_rect : forall o a a', rect a -> un_op o a = Ok a' -> rect a'.
Proof.
  intros o a a' R H. destruct o; simpl in H; try discriminate.
  - oki H. apply enclose_abs_rect. exact R.
  - eapply enclose_parens_rect; eauto.
  - eapply enclose_sq_rect; eauto.
  - eapply enclose_curlies_rect; eauto.
  - eapply enclose_floor_rect; eauto.
  - eapply enclose_ceiling_rect; eauto.
  - oki H. apply enclose_sqrt_rect. exact R.
  - eapply add_left_parens_rect; eauto.
  - eapply add_right_parens_rect; eauto.
  - eapply add_left_sq_rect; eauto.
  - eapply add_right_sq_rect; eauto.
  - eapply curly_side_rect; eauto.
  - eapply curly_side_rect; eauto.
Qed.

Theorem stringbox_rect : forall ops st st',
  pushes_rect ops -> Forall rect st -> run_box ops st = Ok st' -> Forall rect st'.
Proof.
  induction ops as [|o ops IH]; intros st st' Hp Hs H.
  - simpl in H. oki H. exact Hs.
  - inv Hp.
    assert (Hbin : forall f : sbox -> sbox -> sbox,
              (forall a b, rect a -> rect b -> rect (f a b)) ->
              match st with
              | b :: a :: st0 => run_box ops (f a b :: st0)
              | _ => ErrExn EXN_STD
              end = Ok st' -> Forall rect st').
    { intros f Hf H'. destruct st as [|b [|a st0]]; try discriminate. inv Hs. inv H5.
      eapply IH; [assumption | | exact H']. constructor; [apply Hf; assumption | assumption]. }
    assert (Hun : forall u, (forall a a', rect a -> un_op u a = Ok a' -> rect a') ->
              match st with
              | a :: st0 => rthen (un_op u a) (fun a' => run_box ops (a' :: st0))
              | [] => ErrExn EXN_STD
              end = Ok st' -> Forall rect st').
    { intros u Hu H'. destruct st as [|a st0]; try discriminate. inv Hs.
      unfold rthen in H'. destruct (un_op u a) eqn:E; try discriminate.
      eapply IH; [assumption | | exact H']. constructor; [eapply Hu; eauto | assumption]. }
    destruct o; cbn [run_box] in H;
      try (eapply (Hun _ (un_op_rect _)); exact H).
    + eapply IH; [assumption | | exact H]. constructor; assumption.
    + apply (Hbin (fun a b => fst (add_below a b))); [|exact H]. intros; apply add_below_rect; assumption.
    + apply (Hbin (fun a b => fst (add_below_unicode_line a b))); [|exact H]. intros; apply add_below_line_rect; assumption.
    + apply (Hbin (fun a b => fst (add_right a b))); [|exact H]. intros; apply add_right_rect; assumption.
    + apply (Hbin add_power); [|exact H]. apply add_power_rect.
Qed.

(* outside the statement of C44 (rectangularity is preserved), recorded because the model has to
   transcribe it: add_power inserts the exponent's lines one by one at the front, i.e. in reverse *)
Definition add_power_in_order (a o : sbox) : Prop :=
  lines (add_power a o)
  = List.map (fun l => spaces (width a) ++ l) (lines o) ++ List.map (fun l => l ++ spaces (width o)) (lines a).
Theorem add_power_order_refuted :
  exists a o, rect a /\ rect o /\ ~ add_power_in_order a o.
Proof.
  exists (box_s [120]), (mkBox [[121]; [45]; [122]] 1).
  split; [apply rect_box_s; reflexivity|]. split; [repeat constructor|].
  unfold add_power_in_order. vm_compute. intro H. discriminate.
Qed.

Theorem stringbox_ops_rect :
  forall a o : sbox, rect a -> rect o ->
    (rect (fst (add_right a o)) /\ rect (snd (add_right a o))) /\
    (rect (fst (add_below a o)) /\ rect (snd (add_below a o))) /\
    (rect (fst (add_below_unicode_line a o)) /\ rect (snd (add_below_unicode_line a o))) /\
    rect (add_power a o) /\ rect (enclose_abs a) /\ rect (enclose_sqrt a).
Proof.
  intros a o Ra Ro.
  exact (conj (add_right_rect a o Ra Ro) (conj (add_below_rect a o Ra Ro) (conj (add_below_line_rect a o Ra Ro)
          (conj (add_power_rect a o Ra Ro) (conj (enclose_abs_rect a Ra) (enclose_sqrt_rect a Ra)))))).
Qed.
