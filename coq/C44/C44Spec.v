(* C44 -- specification side: what "well-formed" means for each printer's output, and the boolean
   guards (hypotheses) of the theorems.
     XML      : the schoolbook grammar  element ::= <n/> | <n attrs> content </n>,
                content ::= (chardata | element)*   with name / attribute / chardata side conditions
     LaTeX    : every \left / \right carries a delimiter, and brace groups and \left..\right pairs
                nest (NestSpec.wn over the two bracket kinds)
     StringBox: all lines have display width = the width_ field
   Guards are boolean so that P_nonvacuous can evaluate them and the check can count how many
   library-produced trees satisfy them. *)
From Coq Require Import String.
From SE Require Export C44.NestSpec C44.MathMLModel C44.StrModel C44.BoxModel.
Local Open Scope N_scope.

(* ---------------------------------------------------------------- subterm quantifier *)
Fixpoint all_nodes (p : expr -> bool) (e : expr) : bool :=
  p e &&
  match e with
  | ENum _ | ESym _ | EDummy _ _ | EConst _ | EBool _ | EAtom _ => true
  | EAdd _ d => forallb (fun q => all_nodes p (fst q)) d
  | EMul _ d => forallb (fun q => all_nodes p (fst q) && all_nodes p (snd q)) d
  | EPow b x => all_nodes p b && all_nodes p x
  | EF1 _ a => all_nodes p a
  | EF2 _ a b => all_nodes p a && all_nodes p b
  | EFN _ l => forallb (all_nodes p) l
  | EFunSym _ l => forallb (all_nodes p) l
  | ELex _ a b => all_nodes p a && all_nodes p b
  | EDeriv a l => all_nodes p a && forallb (all_nodes p) l
  | ESubs a d => all_nodes p a && forallb (fun q => all_nodes p (fst q) && all_nodes p (snd q)) d
  | EPw l => forallb (fun q => all_nodes p (fst q) && all_nodes p (snd q)) l
  | EInterval s x _ _ => all_nodes p s && all_nodes p x
  end.

(* the name carried by a node, if any *)
Definition node_name (e : expr) : option (list N) :=
  match e with
  | ESym nm | EDummy nm _ | EFunSym nm _ => Some nm
  | _ => None
  end.

(* ================================================================ XML *)
Definition xml_name_start (c : N) : bool := is_letter c || (c =? 95).
Definition xml_name_char (c : N) : bool :=
  is_letter c || (c =? 95) || ((48 <=? c) && (c <=? 57)) || (c =? 45) || (c =? 46).
Definition xml_name_ok (n : list N) : bool :=
  match n with
  | [] => false
  | c :: r => xml_name_start c && forallb xml_name_char r
  end.
(* character data: neither '<' nor '&' *)
Definition xml_text_ok (s : list N) : bool := forallb (fun c => negb ((c =? 60) || (c =? 38))) s.
(* the attribute strings the printer writes: blank name="value" *)
Definition xml_attrs : list (list N) :=
  [[]; a_integer; a_rational; a_real; a_nums1; a_open; a_open_closed; a_closed_open; a_closed].
Definition xml_attr_ok (a : list N) : bool := existsb (beq a) xml_attrs.

Inductive xforest : list xtok -> Prop :=
| xf_nil : xforest []
| xf_text : forall t r, xml_text_ok t = true -> xforest r -> xforest (XT t :: r)
| xf_ref : forall n r, xml_name_ok n = true -> xforest r -> xforest (XR n :: r)
| xf_empty : forall n r, xml_name_ok n = true -> xforest r -> xforest (XE n :: r)
| xf_elem : forall n a body r,
    xml_name_ok n = true -> xml_attr_ok a = true -> xforest body -> xforest r ->
    xforest (XO n a :: body ++ XC n :: r).

(* a document: exactly one element *)
Inductive xelement : list xtok -> Prop :=
| xe_empty : forall n, xml_name_ok n = true -> xelement [XE n]
| xe_elem : forall n a body,
    xml_name_ok n = true -> xml_attr_ok a = true -> xforest body -> xelement (XO n a :: body ++ [XC n]).

(* executable checker for the same language (used by P_checker_sound and by the examples) *)
Fixpoint xchk (st : list (list N)) (l : list xtok) : bool :=
  match l with
  | [] => match st with [] => true | _ => false end
  | XT t :: r => xml_text_ok t && xchk st r
  | XR n :: r => xml_name_ok n && xchk st r
  | XE n :: r => xml_name_ok n && xchk st r
  | XO n a :: r => xml_name_ok n && xml_attr_ok a && xchk (n :: st) r
  | XC n :: r => match st with
                 | m :: st' => beq n m && xchk st' r
                 | [] => false
                 end
  end.

(* guard of the MathML theorem: every function class that is printed through names_[code] has a
   table entry that is an XML name (symbol and function-symbol names are escaped by the printer and
   need no hypothesis) *)
Definition mm_function_node (e : expr) : option N :=
  match e with
  | EF1 code _ => if (code =? TC_Not) || (code =? TC_UnevaluatedExpr) then None else Some code
  | EF2 code _ _ => match rel_tag code with Some _ => None | None => Some code end
  | EFN code _ =>
      if (code =? TC_And) || (code =? TC_Or) || (code =? TC_Xor) || (code =? TC_Union)
         || (code =? TC_FiniteSet) || (code =? TC_Intersection) || (code =? TC_ConditionSet)
         || (code =? TC_ImageSet) then None else Some code
  | _ => None
  end.
Definition mm_node_ok (e : expr) : bool :=
  match mm_function_node e with Some code => xml_name_ok (mathml_name code) | None => true end.
Definition mm_guard (e : expr) : bool := all_nodes mm_node_ok e.

(* ================================================================ LaTeX *)
Inductive lkind := KBrace | KLeftRight.
Definition lkind_eqb (a b : lkind) : bool :=
  match a, b with KBrace, KBrace | KLeftRight, KLeftRight => true | _, _ => false end.
Definition lclass (t : ltok) : btok lkind :=
  match t with
  | LC 123 => BO KBrace
  | LC 125 => BC KBrace
  | LLeft _ => BO KLeftRight
  | LRight _ => BC KLeftRight
  | _ => BA
  end.
(* delimiters accepted after \left / \right *)
Definition delims : list (list N) := [[40]; [41]; [91]; [93]; [124]; [46]; [92; 123]; [92; 125]; [47]; [60]; [62]].
Definition ltok_ok (t : ltok) : bool :=
  match t with
  | LLeft d | LRight d => existsb (beq d) delims
  | _ => true
  end.
Definition latex_wf (l : list ltok) : Prop := Forall (fun t => ltok_ok t = true) l /\ wn (List.map lclass l).
Definition latex_wf_b (l : list ltok) : bool := forallb ltok_ok l && chk lkind_eqb [] (List.map lclass l).

(* guard of the LaTeX theorem: names contain none of \ { } ; no FiniteSet node (its rule writes
   "\left{" ... "\right}", see C44_latex_balanced_refuted); the end points of an Interval are numbers
   (the class stores RCP<const Number>; they are printed with operator<<, i.e. by StrPrinter) *)
Definition tex_name_ok (s : list N) : bool :=
  forallb (fun c => negb ((c =? 92) || (c =? 123) || (c =? 125))) s.
Definition latex_node_ok (e : expr) : bool :=
  match node_name e with Some nm => tex_name_ok nm | None => true end
  && match e with
     | EFN code _ => negb (code =? TC_FiniteSet)
     | EInterval (ENum _) (ENum _) _ _ => true
     | EInterval _ _ _ _ => false
     | _ => true
     end.
Definition latex_guard (e : expr) : bool := all_nodes latex_node_ok e.
(* the part of the guard that concerns names only (evidence: why a tree is outside the guard) *)
Definition latex_names_ok (e : expr) : bool :=
  all_nodes (fun x => match node_name x with Some nm => tex_name_ok nm | None => true end) e.

(* ================================================================ StringBox *)
Definition rect (b : sbox) : Prop := Forall (fun l => dwidth l = width b) (lines b).
Definition rect_b (b : sbox) : bool := forallb (fun l => dwidth l =? width b) (lines b).

(* guard of the Unicode theorem: names are ASCII (StringBox(std::string) takes the byte length as
   width, see C44_unicode_rect_refuted) *)
Definition ascii (s : list N) : bool := forallb (fun c => c <? 128) s.
Definition unicode_node_ok (e : expr) : bool :=
  match node_name e with Some nm => ascii nm | None => true end.
Definition unicode_guard (e : expr) : bool := all_nodes unicode_node_ok e.
