(* C44 -- shared base of the printer models: byte strings, the decimal text of the number
   classes (ostream << integer_class / rational_class, print_double of strprinter.cpp),
   the Number predicates the printers branch on (is_zero / is_one / is_negative, eq with the
   constants zero / one / minus_one), Precedence, PrinterBasicCmp and the std::map ordered by it,
   Add::get_args / Mul::get_args (add.cpp, mul.cpp: the trees MathMLPrinter walks).
   The double formatting ("%.15g") follows the transcription validated by the C16 slice
   (coq/Parse/PrintModel.v); it is repeated here so that this slice depends on the shared
   expression core only.  Model file: no proofs. *)
From Coq Require Import String Ascii.
From SE Require Export Expr.IO.
Local Open Scope N_scope.

(* byte list of a Coq string literal (constants of the model only) *)
Definition bs (s : string) : list N := List.map N_of_ascii (list_ascii_of_string s).

Fixpoint beq (x y : list N) : bool :=
  match x, y with
  | [], [] => true
  | c :: x', d :: y' => (c =? d) && beq x' y'
  | _, _ => false
  end.

Fixpoint join {A} (sep : list A) (l : list (list A)) : list A :=
  match l with
  | [] => []
  | [x] => x
  | x :: r => x ++ sep ++ join sep r
  end.

(* ---------------------------------------------------------------- integers, rationals *)
Definition dec_N (n : N) : list N := List.map (fun d => d + 48) (digits_of_N n).
Definition dec_Z (z : Z) : list N :=
  match z with
  | Z0 => [48]
  | Zpos p => dec_N (Npos p)
  | Zneg p => 45 :: dec_N (Npos p)
  end.

(* ---------------------------------------------------------------- doubles: "%.15g" *)
Definition ge_pow10 (num den : Z) (x : Z) : bool :=        (* 10^x <= num/den *)
  if (0 <=? x)%Z then (Z.pow 10 x * den <=? num)%Z else (den <=? num * Z.pow 10 (- x))%Z.
Fixpoint adjust_down (fuel : nat) (num den x : Z) : Z :=
  match fuel with
  | O => x
  | S f => if ge_pow10 num den x then x else adjust_down f num den (x - 1)%Z
  end.
Fixpoint adjust_up (fuel : nat) (num den x : Z) : Z :=
  match fuel with
  | O => x
  | S f => if ge_pow10 num den (x + 1)%Z then adjust_up f num den (x + 1)%Z else x
  end.
Definition dec_exponent (num den : Z) : Z :=
  let est := ((Z.log2 num - Z.log2 den) * 1233 / 4096)%Z in
  adjust_up 8 num den (adjust_down 8 num den (est + 1)%Z).

Definition round_half_even (a c : Z) : Z :=
  let q := (a / c)%Z in
  let r := (a mod c)%Z in
  if (2 * r <? c)%Z then q
  else if (c <? 2 * r)%Z then (q + 1)%Z
  else if Z.even q then q else (q + 1)%Z.

Definition sig15 (num den : Z) : Z * Z :=
  let x := dec_exponent num den in
  let sh := (14 - x)%Z in
  let d := if (0 <=? sh)%Z then round_half_even (num * Z.pow 10 sh) den
           else round_half_even num (den * Z.pow 10 (- sh)) in
  if (d =? Z.pow 10 15)%Z then (Z.pow 10 14, x + 1)%Z else (d, x).

Fixpoint strip_trailing_zeros_rev (l : list N) : list N :=
  match l with
  | 48 :: r => strip_trailing_zeros_rev r
  | _ => l
  end.
Definition strip_trailing_zeros (l : list N) : list N := rev (strip_trailing_zeros_rev (rev l)).

Definition two_digits (n : N) : list N :=
  if n <? 10 then [48; n + 48] else dec_N n.

Definition fmt_g15 (num den : Z) : list N :=
  let '(d, x) := sig15 num den in
  let ds := dec_N (Z.to_N d) in
  if (x <? -4)%Z || (15 <=? x)%Z then
    let frac := strip_trailing_zeros (tl ds) in
    firstn 1 ds ++ (match frac with [] => [] | _ => 46 :: frac end)
      ++ [101] ++ (if (x <? 0)%Z then [45] else [43]) ++ two_digits (Z.to_N (Z.abs x))
  else if (0 <=? x)%Z then
    let k := S (Z.to_nat x) in
    let frac := strip_trailing_zeros (skipn k ds) in
    firstn k ds ++ (match frac with [] => [] | _ => 46 :: frac end)
  else
    [48; 46] ++ repeat 48 (Z.to_nat (- x - 1)) ++ strip_trailing_zeros ds.

Definition dbl_sign (bits : N) : bool := 9223372036854775808 <=? bits.
Definition dbl_expfield (bits : N) : N := (bits / 4503599627370496) mod 2048.
Definition dbl_mant (bits : N) : N := bits mod 4503599627370496.

Definition s_inf : list N := Eval compute in bs "inf".
Definition s_nan : list N := Eval compute in bs "nan".
Definition fmt_double (bits : N) : list N :=
  let sgn := if dbl_sign bits then [45] else [] in
  let e := dbl_expfield bits in
  let m := dbl_mant bits in
  if e =? 2047 then sgn ++ (if m =? 0 then s_inf else s_nan)
  else if (e =? 0) && (m =? 0) then sgn ++ [48]
  else
    let mm := if e =? 0 then m else m + 4503599627370496 in
    let ee := if e =? 0 then (-1074)%Z else (Z.of_N e - 1075)%Z in
    let '(num, den) := if (0 <=? ee)%Z then (Z.of_N mm * Z.pow 2 ee, 1)%Z
                       else (Z.of_N mm, Z.pow 2 (- ee))%Z in
    sgn ++ fmt_g15 num den.

(* print_double (strprinter.cpp): ".0" is appended when the text has neither '.' nor 'e'; "." when
   it is exactly 15 characters long (digits10 - str_.size() > 0 is evaluated in size_t) *)
Definition print_double (bits : N) : list N :=
  let s := fmt_double bits in
  if existsb (fun c => (c =? 46) || (c =? 101)) s then s
  else if Nat.eqb (List.length s) 15 then s ++ [46] else s ++ [46; 48].

(* x < 0 on doubles (false for NaN and -0.0) *)
Definition dbl_negative (bits : N) : bool := dbl_lt bits 0.
Definition dbl_negate (bits : N) : N :=
  if dbl_sign bits then bits - 9223372036854775808 else bits + 9223372036854775808.
(* x == 0.0 *)
Definition dbl_is_zero (bits : N) : bool := (bits =? 0) || (bits =? 9223372036854775808).

(* ---------------------------------------------------------------- Number predicates *)
(* eq(n, Integer z) *)
Definition num_is (n : number) (z : Z) : bool :=
  match n with NInt x => (x =? z)%Z | _ => false end.
(* Number::is_zero() *)
Definition num_is_zero (n : number) : bool :=
  match n with
  | NInt z => (z =? 0)%Z
  | NRat p _ => (p =? 0)%Z
  | NDbl b => dbl_is_zero b
  | NCDbl re im => dbl_is_zero re && dbl_is_zero im
  | _ => false
  end.
(* Number::is_one(): false for every inexact class *)
Definition num_is_one (n : number) : bool :=
  match n with
  | NInt z => (z =? 1)%Z
  | NRat p q => (p =? Zpos q)%Z
  | _ => false
  end.
(* Number::is_negative() *)
Definition num_is_negative (n : number) : bool :=
  match n with
  | NInt z => (z <? 0)%Z
  | NRat p _ => (p <? 0)%Z
  | NDbl b => dbl_negative b
  | NInf d => (d <? 0)%Z
  | _ => false
  end.
(* the Number a rational_class value p/q becomes (Rational::from_mpq) *)
Definition num_of_q (p : Z) (q : positive) : number :=
  match q with xH => NInt p | _ => NRat p q end.
(* Number::real_part / imaginary_part of the two complex classes *)
Definition cplx_re (n : number) : number :=
  match n with
  | NCplx rn rd _ _ => num_of_q rn rd
  | NCDbl re _ => NDbl re
  | _ => n
  end.
Definition cplx_im (n : number) : number :=
  match n with
  | NCplx _ _ imn imd => num_of_q imn imd
  | NCDbl _ im => NDbl im
  | _ => NInt 0
  end.

Definition is_num_int (e : expr) (z : Z) : bool :=
  match e with ENum n => num_is n z | _ => false end.
Definition name_E : list N := [69].
Definition is_E (e : expr) : bool :=
  match e with EConst nm => beq nm name_E | _ => false end.
Definition is_half (e : expr) : bool :=
  match e with ENum (NRat 1 2) => true | _ => false end.
Definition is_true (e : expr) : bool :=
  match e with EBool true => true | _ => false end.
(* an Integer or Rational exponent that is negative: its negation *)
Definition neg_rational_exp (e : expr) : option number :=
  match e with
  | ENum (NInt z) => if (z <? 0)%Z then Some (NInt (- z)) else None
  | ENum (NRat p q) => if (p <? 0)%Z then Some (NRat (- p) q) else None
  | _ => None
  end.

(* ---------------------------------------------------------------- Precedence (strprinter.cpp) *)
Definition PREC_Relational : N := 0.
Definition PREC_Add : N := 1.
Definition PREC_Mul : N := 2.
Definition PREC_Pow : N := 3.
Definition PREC_Atom : N := 4.

Definition is_relational (c : N) : bool :=
  (c =? TC_Equality) || (c =? TC_Unequality) || (c =? TC_LessThan) || (c =? TC_StrictLessThan).

Definition num_precedence (n : number) : N :=
  match n with
  | NInt z => if (z <? 0)%Z then PREC_Mul else PREC_Atom
  | NRat _ _ => PREC_Add
  | NCplx rn _ imn imd =>
      if (rn =? 0)%Z then (if (imn =? 1)%Z && (Zpos imd =? 1)%Z then PREC_Atom else PREC_Mul)
      else PREC_Add
  | NDbl bits => if dbl_negative bits then PREC_Mul else PREC_Atom
  | NCDbl _ _ => PREC_Add
  | NInf d => if (d <? 0)%Z then PREC_Mul else PREC_Atom      (* "-oo" starts with a sign *)
  | NNaN => PREC_Atom
  end.

Definition precedence (e : expr) : N :=
  match e with
  | EAdd _ _ => PREC_Add
  | EMul _ _ => PREC_Mul
  | EPow _ _ => PREC_Pow
  | EF2 c _ _ => if is_relational c then PREC_Relational else PREC_Atom
  | ENum n => num_precedence n
  | _ => PREC_Atom
  end.

(* ---------------------------------------------------------------- PrinterBasicCmp *)
Definition printer_lt (x y : expr) : bool :=
  if expr_eqb x y then false else (expr_cmp x y =? -1)%Z.

(* std::map<RCP<const Basic>, RCP<const Number>, PrinterBasicCmp>(first, last): successive
   insertion; an equivalent key is not inserted again *)
Fixpoint pmap_insert (k : expr) (v : number) (m : list (expr * number)) : list (expr * number) :=
  match m with
  | [] => [(k, v)]
  | (k', v') :: r =>
      if printer_lt k' k then (k', v') :: pmap_insert k v r
      else if printer_lt k k' then (k, v) :: m
      else m
  end.
Definition pmap_of (d : list (expr * number)) : list (expr * number) :=
  fold_left (fun m p => pmap_insert (fst p) (snd p) m) d [].

(* ---------------------------------------------------------------- as_numer_denom of a coefficient *)
(* NumerDenomVisitor on a Number: Rational -> (num, den); Complex -> (integer-part Complex, lcm of
   the two denominators); every other class -> (x, 1) *)
Definition coef_numer_denom (c : number) : number * number :=
  match c with
  | NRat p q => (NInt p, NInt (Zpos q))
  | NCplx rn rd imn imd =>
      let den := Z.lcm (Zpos rd) (Zpos imd) in
      (NCplx (rn * (den / Zpos rd)) 1 (imn * (den / Zpos imd)) 1, NInt den)
  | _ => (c, NInt 1)
  end.

(* ---------------------------------------------------------------- get_args of Add and Mul *)
(* Add::from_dict(zero, {k: v}) for v != 1 (add.cpp) *)
Definition term_of (k : expr) (v : number) : expr :=
  if num_is v 0 then ENum v
  else
    match k with
    | EMul _ kd =>
        (* Mul::from_dict(v, dict of k) *)
        if num_is_zero v then ENum v
        else match kd with
             | [] => ENum v
             | _ => EMul v kd
             end
    | EPow b x => EMul v [(b, x)]
    | _ => EMul v [(k, ENum (NInt 1))]
    end.

Definition add_args (c : number) (d : list (expr * number)) : list expr :=
  (if num_is_zero c then [] else [ENum c])
    ++ List.map (fun p => if num_is (snd p) 1 then fst p else term_of (fst p) (snd p)) d.

Definition mul_args (c : number) (d : list (expr * expr)) : list expr :=
  (if num_is_one c then [] else [ENum c])
    ++ List.map (fun p => if is_num_int (snd p) 1 then fst p else EPow (fst p) (snd p)) d.

(* ---------------------------------------------------------------- sequencing over lists *)
Fixpoint mapM {A B} (f : A -> res B) (l : list A) : res (list B) :=
  match l with
  | [] => Ok []
  | x :: r =>
      match f x with
      | Ok y => match mapM f r with
                | Ok ys => Ok (y :: ys)
                | ErrOOB i n => ErrOOB i n
                | ErrFuel => ErrFuel
                | ErrExn c => ErrExn c
                end
      | ErrOOB i n => ErrOOB i n
      | ErrFuel => ErrFuel
      | ErrExn c => ErrExn c
      end
  end.

(* the five Constant objects of constants.h, by name *)
Definition nm_pi : list N := Eval compute in bs "pi".
Definition nm_EulerGamma : list N := Eval compute in bs "EulerGamma".
Definition nm_Catalan : list N := Eval compute in bs "Catalan".
Definition nm_GoldenRatio : list N := Eval compute in bs "GoldenRatio".

(* lower-casing of ASCII letters (std::transform(..., ::tolower) in the "C" locale) *)
Definition lower (c : N) : N := if (65 <=? c) && (c <=? 90) then c + 32 else c.
