From SE Require Import C44.C44Spec C44.BoxProofs.
(* outside the statement of C44: add_power stacks the lines of a multi-line exponent in reverse order *)
Theorem C44_add_power_order_refuted :
  exists a o : sbox, rect a /\ rect o /\ ~ add_power_in_order a o.
Proof. exact add_power_order_refuted. Qed.
Print Assumptions C44_add_power_order_refuted.
