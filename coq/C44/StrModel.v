(* C44 -- model of StrPrinter and of the printers derived from it by overriding virtual hooks and
   bvisit overloads:  JuliaStrPrinter (strprinter.cpp), SbmlPrinter (sbml.cpp), LatexPrinter
   (latex.cpp).  One function, parametrised by the flavour, transcribes the inherited code once;
   every override is a branch on the flavour.
   Output = a stream of LaTeX-level tokens whose rendering is the printed text byte for byte:
     LC c     the byte c            ('{' = 123 and '}' = 125 are TeX group characters)
     LE c     the two bytes '\' c   (a TeX control symbol: \{ \} \\ \; \: -- never a group character)
     LLeft d  the bytes "\left" d   LRight d  the bytes "\right" d     (d = the delimiter that follows)
   (for the three non-LaTeX flavours every token is an LC).  The string surgery of the C++ code is
   done on tokens: t[0] == '-' / t.substr(1) (Add, ComplexBase), s.substr(0, s.size() - 1) (Mul:
   the last token is the one-byte print_mul()), b_str.size() > 1 (LaTeX powers; in bytes).
   Model file: no proofs. *)
From Coq Require Import String.
From SE Require C39.QueryModel.
From SE Require Export C44.Names.
Local Open Scope N_scope.

Inductive ltok := LC (c : N) | LE (c : N) | LLeft (d : list N) | LRight (d : list N).

Definition s_left : list N := Eval compute in bs "\left".
Definition s_right : list N := Eval compute in bs "\right".
Definition lrender1 (t : ltok) : list N :=
  match t with
  | LC c => [c]
  | LE c => [92; c]
  | LLeft d => s_left ++ d
  | LRight d => s_right ++ d
  end.
Definition lrender (l : list ltok) : list N := flat_map lrender1 l.
Definition lbytes (l : list ltok) : nat := List.length (lrender l).

Definition is_letter (c : N) : bool := ((65 <=? c) && (c <=? 90)) || ((97 <=? c) && (c <=? 122)).
Definition starts_letter (s : list N) : bool :=
  match s with c :: _ => is_letter c | [] => false end.

(* TeX-level lexing of the string LITERALS of the printers: \left / \right take the delimiter that
   follows them (one character, or a control symbol such as \{) *)
Fixpoint lx (s : list N) : list ltok :=
  match s with
  | [] => []
  | 92 :: r =>
      match r with
      | 108 :: 101 :: 102 :: 116 :: r' =>
          if starts_letter r' then LC 92 :: lx r
          else match r' with
               | 92 :: c :: r'' => LLeft [92; c] :: lx r''
               | c :: r'' => LLeft [c] :: lx r''
               | [] => [LLeft []]
               end
      | 114 :: 105 :: 103 :: 104 :: 116 :: r' =>
          if starts_letter r' then LC 92 :: lx r
          else match r' with
               | 92 :: c :: r'' => LRight [92; c] :: lx r''
               | c :: r'' => LRight [c] :: lx r''
               | [] => [LRight []]
               end
      | c :: r' => if is_letter c then LC 92 :: lx r else LE c :: lx r'
      | [] => [LC 92]
      end
  | c :: r => LC c :: lx r
  end.
(* text that is not a literal of the printer (names, digits): bytes as they are *)
Definition raw (s : list N) : list ltok := List.map LC s.

Inductive flavour := FStr | FJulia | FSbml | FLatex.

(* ---------------------------------------------------------------- literals *)
Definition L (s : string) : list ltok := lx (bs s).
Definition t_comma : list ltok := Eval vm_compute in L ", ".
Definition t_plus : list ltok := Eval vm_compute in L " + ".
Definition t_minus : list ltok := Eval vm_compute in L " - ".
Definition t_lpar : list ltok := Eval vm_compute in L "(".
Definition t_rpar : list ltok := Eval vm_compute in L ")".
Definition t_llpar : list ltok := Eval vm_compute in L "\left(".
Definition t_lrpar : list ltok := Eval vm_compute in L "\right)".
Definition t_star : list ltok := Eval vm_compute in L "*".
Definition t_space : list ltok := Eval vm_compute in L " ".
Definition t_slash : list ltok := Eval vm_compute in L "/".
Definition t_dash : list ltok := Eval vm_compute in L "-".
Definition t_one : list ltok := Eval vm_compute in L "1".
Definition t_I : list ltok := Eval vm_compute in L "I".
Definition t_im : list ltok := Eval vm_compute in L "im".
Definition t_j : list ltok := Eval vm_compute in L "j".
Definition t_mj : list ltok := Eval vm_compute in L "-j".
Definition t_oo : list ltok := Eval vm_compute in L "oo".
Definition t_moo : list ltok := Eval vm_compute in L "-oo".
Definition t_zoo : list ltok := Eval vm_compute in L "zoo".
Definition t_nan : list ltok := Eval vm_compute in L "nan".
Definition t_NaN : list ltok := Eval vm_compute in L "NaN".
Definition t_Inf : list ltok := Eval vm_compute in L "Inf".
Definition t_mInf : list ltok := Eval vm_compute in L "-Inf".
Definition t_inf : list ltok := Eval vm_compute in L "inf".
Definition t_minf : list ltok := Eval vm_compute in L "-inf".
Definition t_linfty : list ltok := Eval vm_compute in L "\infty".
Definition t_lminfty : list ltok := Eval vm_compute in L "-\infty".
Definition t_lzoo : list ltok := Eval vm_compute in L "\tilde{\infty}".
Definition t_lnan : list ltok := Eval vm_compute in L "\mathrm{NaN}".
Definition t_frac : list ltok := Eval vm_compute in L "\frac{".
Definition t_brbr : list ltok := Eval vm_compute in L "}{".
Definition t_rbrace : list ltok := Eval vm_compute in L "}".
Definition t_lbrace : list ltok := Eval vm_compute in L "{".
Definition t_exp : list ltok := Eval vm_compute in L "exp(".
Definition t_sqrt : list ltok := Eval vm_compute in L "sqrt(".
Definition t_powpow : list ltok := Eval vm_compute in L "**".
Definition t_caret : list ltok := Eval vm_compute in L "^".
Definition t_caretbr : list ltok := Eval vm_compute in L "^{".
Definition t_e_caretbr : list ltok := Eval vm_compute in L "e^{".
Definition t_lsqrt : list ltok := Eval vm_compute in L "\sqrt{".
Definition t_lsqrtn : list ltok := Eval vm_compute in L "\sqrt[".
Definition t_sqbr : list ltok := Eval vm_compute in L "]{".
Definition t_eq : list ltok := Eval vm_compute in L " == ".
Definition t_ne : list ltok := Eval vm_compute in L " != ".
Definition t_le : list ltok := Eval vm_compute in L " <= ".
Definition t_lt : list ltok := Eval vm_compute in L " < ".
Definition t_leq : list ltok := Eval vm_compute in L " = ".
Definition t_lneq : list ltok := Eval vm_compute in L " \neq ".
Definition t_lleq : list ltok := Eval vm_compute in L " \leq ".
Definition t_True : list ltok := Eval vm_compute in L "True".
Definition t_False : list ltok := Eval vm_compute in L "False".
Definition t_true : list ltok := Eval vm_compute in L "true".
Definition t_false : list ltok := Eval vm_compute in L "false".
Definition t_lTrue : list ltok := Eval vm_compute in L "\mathrm{True}".
Definition t_lFalse : list ltok := Eval vm_compute in L "\mathrm{False}".
Definition t_And : list ltok := Eval vm_compute in L "And(".
Definition t_Or : list ltok := Eval vm_compute in L "Or(".
Definition t_Xor : list ltok := Eval vm_compute in L "Xor(".
Definition t_Not : list ltok := Eval vm_compute in L "Not(".
Definition t_and : list ltok := Eval vm_compute in L "and(".
Definition t_or : list ltok := Eval vm_compute in L "or(".
Definition t_xor : list ltok := Eval vm_compute in L "xor(".
Definition t_not : list ltok := Eval vm_compute in L "not(".
Definition t_wedge : list ltok := Eval vm_compute in L " \wedge ".
Definition t_vee : list ltok := Eval vm_compute in L " \vee ".
Definition t_veebar : list ltok := Eval vm_compute in L " \veebar ".
Definition t_neg : list ltok := Eval vm_compute in L "\neg ".
Definition t_Contains : list ltok := Eval vm_compute in L "Contains(".
Definition t_in : list ltok := Eval vm_compute in L " \in ".
Definition t_Piecewise : list ltok := Eval vm_compute in L "Piecewise(".
Definition t_piecewise : list ltok := Eval vm_compute in L "piecewise(".
Definition t_cases : list ltok := Eval vm_compute in L "\begin{cases} ".
Definition t_otherwise : list ltok := Eval vm_compute in L " & \text{otherwise} \end{cases}".
Definition t_for : list ltok := Eval vm_compute in L " & \text{for}\: ".
Definition t_endcases : list ltok := Eval vm_compute in L " \end{cases}".
Definition t_rowsep : list ltok := Eval vm_compute in L "\\".
Definition t_U : list ltok := Eval vm_compute in L " U ".
Definition t_cup : list ltok := Eval vm_compute in L " \cup ".
Definition t_cap : list ltok := Eval vm_compute in L " \cap ".
Definition t_fset_sep : list ltok := Eval vm_compute in L " , ".
Definition t_Intersection : list ltok := Eval vm_compute in L "Intersection".
Definition t_bslash : list ltok := [LC 32; LC 92; LC 32].            (* " \ " of StrPrinter *)
Definition t_setminus : list ltok := Eval vm_compute in L " \setminus ".
Definition t_bar : list ltok := Eval vm_compute in L " | ".
Definition t_sin : list ltok := Eval vm_compute in L " in ".
Definition t_lsetl : list ltok := Eval vm_compute in L "\left\{".
Definition t_lsetr : list ltok := Eval vm_compute in L "\right\}".
Definition t_lbar : list ltok := Eval vm_compute in L "\; |\; ".
Definition t_lfsetl : list ltok := Eval vm_compute in L "\left{".    (* LatexPrinter::bvisit(FiniteSet) *)
Definition t_lfsetr : list ltok := Eval vm_compute in L "\right}".
Definition t_Derivative : list ltok := Eval vm_compute in L "Derivative(".
Definition t_Subs : list ltok := Eval vm_compute in L "Subs(".
Definition t_subs_mid : list ltok := Eval vm_compute in L ", (".
Definition t_subs_mid2 : list ltok := Eval vm_compute in L "), (".
Definition t_subs_end : list ltok := Eval vm_compute in L "))".
Definition t_lsubs_l : list ltok := Eval vm_compute in L "\left. ".
Definition t_lsubs_m : list ltok := Eval vm_compute in L "\right|_{\substack{".
Definition t_lsubs_sep : list ltok := Eval vm_compute in L " \\ ".
Definition t_lsubs_r : list ltok := Eval vm_compute in L "}}".
Definition t_equals : list ltok := Eval vm_compute in L "=".
Definition t_dd : list ltok := Eval vm_compute in L "\frac{d}{d ".
Definition t_dpartial : list ltok := Eval vm_compute in L "\frac{\partial}{\partial ".
Definition t_dpartialn : list ltok := Eval vm_compute in L "\frac{\partial^".
Definition t_partial : list ltok := Eval vm_compute in L "\partial ".
Definition t_dend : list ltok := Eval vm_compute in L "} ".
Definition t_lbracket : list ltok := Eval vm_compute in L "[".
Definition t_rbracket : list ltok := Eval vm_compute in L "]".
Definition t_llbracket : list ltok := Eval vm_compute in L "\left[".
Definition t_lrbracket : list ltok := Eval vm_compute in L "\right]".
Definition t_labs_l : list ltok := Eval vm_compute in L "\left|".
Definition t_labs_r : list ltok := Eval vm_compute in L "\right|".
Definition t_lfloor_l : list ltok := Eval vm_compute in L "\lfloor{".
Definition t_lfloor_r : list ltok := Eval vm_compute in L "}\rfloor".
Definition t_lceil_l : list ltok := Eval vm_compute in L "\lceil{".
Definition t_lceil_r : list ltok := Eval vm_compute in L "}\rceil".
Definition t_factorial : list ltok := Eval vm_compute in L "factorial(".
Definition t_minus1 : list ltok := Eval vm_compute in L " - 1)".
Definition t_exp1 : list ltok := Eval vm_compute in L "exp(1)".
Definition t_exponentiale : list ltok := Eval vm_compute in L "exponentiale".
Definition t_lpi : list ltok := Eval vm_compute in L "\pi".
Definition t_le_ : list ltok := Eval vm_compute in L "e".
Definition t_lgamma : list ltok := Eval vm_compute in L "\gamma".
Definition t_lG : list ltok := Eval vm_compute in L "G".
Definition t_lphi : list ltok := Eval vm_compute in L "\phi".
Definition t_Complexes : list ltok := Eval vm_compute in L "Complexes".
Definition t_Reals : list ltok := Eval vm_compute in L "Reals".
Definition t_Rationals : list ltok := Eval vm_compute in L "Rationals".
Definition t_Integers : list ltok := Eval vm_compute in L "Integers".
Definition t_Naturals : list ltok := Eval vm_compute in L "Naturals".
Definition t_Naturals0 : list ltok := Eval vm_compute in L "Naturals0".
Definition t_EmptySet : list ltok := Eval vm_compute in L "EmptySet".
Definition t_UniversalSet : list ltok := Eval vm_compute in L "UniversalSet".
Definition t_lC : list ltok := Eval vm_compute in L "\mathbb{C}".
Definition t_lR : list ltok := Eval vm_compute in L "\mathbb{R}".
Definition t_lQ : list ltok := Eval vm_compute in L "\mathbb{Q}".
Definition t_lZ : list ltok := Eval vm_compute in L "\mathbb{Z}".
Definition t_lN : list ltok := Eval vm_compute in L "\mathbb{N}".
Definition t_lN0 : list ltok := Eval vm_compute in L "\mathbb{N}_0".
Definition t_lempty : list ltok := Eval vm_compute in L "\emptyset".

(* ---------------------------------------------------------------- virtual hooks *)
Definition print_mul (fl : flavour) : list ltok :=
  match fl with FLatex => t_space | _ => t_star end.
Definition imag_symbol (fl : flavour) : list ltok :=
  match fl with FJulia => t_im | _ => t_I end.
Definition parenthesize (fl : flavour) (s : list ltok) : list ltok :=
  match fl with
  | FLatex => t_llpar ++ s ++ t_lrpar
  | _ => t_lpar ++ s ++ t_rpar
  end.
Definition split_mul_coef (fl : flavour) : bool :=
  match fl with FLatex => true | _ => false end.
Definition print_div (fl : flavour) (num den : list ltok) (paren : bool) : list ltok :=
  match fl with
  | FLatex => t_frac ++ num ++ t_brbr ++ den ++ t_rbrace
  | _ => if paren then num ++ t_slash ++ parenthesize fl den else num ++ t_slash ++ den
  end.

(* ---------------------------------------------------------------- numbers *)
Definition p_q (p : Z) (q : positive) : list ltok :=          (* ostream << rational_class *)
  raw (dec_Z p) ++ t_slash ++ raw (dec_N (Npos q)).
Definition p_qi (p : Z) (q : positive) : list ltok :=         (* a rational_class with den 1 *)
  match q with xH => raw (dec_Z p) | _ => p_q p q end.
(* print_rational_class of latex.cpp *)
Definition l_q (p : Z) (q : positive) : list ltok :=
  match q with
  | xH => raw (dec_Z p)
  | _ => t_frac ++ raw (dec_Z p) ++ t_brbr ++ raw (dec_N (Npos q)) ++ t_rbrace
  end.

(* StrPrinter::bvisit(const Complex &) with the hooks of the flavour; note the literal "I" *)
Definition p_complex (fl : flavour) (rn : Z) (rd : positive) (imn : Z) (imd : positive) : list ltok :=
  let unit := (Zpos imd =? 1)%Z && ((imn =? 1)%Z || (imn =? -1)%Z) in
  if negb (rn =? 0)%Z then
    p_qi rn rd ++ (if (0 <? imn)%Z then t_plus else t_minus)
      ++ (if unit then t_I else p_qi (Z.abs imn) imd ++ print_mul fl ++ imag_symbol fl)
  else if unit then (if (0 <? imn)%Z then imag_symbol fl else t_dash ++ imag_symbol fl)
  else p_qi imn imd ++ print_mul fl ++ imag_symbol fl.

(* LatexPrinter::bvisit(const Complex &) *)
Definition l_complex (rn : Z) (rd : positive) (imn : Z) (imd : positive) : list ltok :=
  let unit := (Zpos imd =? 1)%Z && ((imn =? 1)%Z || (imn =? -1)%Z) in
  if negb (rn =? 0)%Z then
    l_q rn rd ++ (if (0 <? imn)%Z then t_plus else t_minus)
      ++ (if unit then t_j else l_q (Z.abs imn) imd ++ t_j)
  else if unit then (if (0 <? imn)%Z then t_j else t_mj)
  else l_q imn imd ++ t_j.

Definition p_infty (fl : flavour) (d : Z) : list ltok :=
  match fl with
  | FStr => if (d <? 0)%Z then t_moo else if (0 <? d)%Z then t_oo else t_zoo
  | FJulia => if (d <? 0)%Z then t_mInf else if (0 <? d)%Z then t_Inf else t_zoo
  | FSbml => if (d <? 0)%Z then t_minf else t_inf
  | FLatex => if (d <? 0)%Z then t_lminfty else if (0 <? d)%Z then t_linfty else t_lzoo
  end.

Definition pnum (fl : flavour) (n : number) : list ltok :=
  match n with
  | NInt z => raw (dec_Z z)
  | NRat p q => match fl with FLatex => l_q p q | _ => p_q p q end
  | NCplx rn rd imn imd =>
      match fl with FLatex => l_complex rn rd imn imd | _ => p_complex fl rn rd imn imd end
  | NDbl b => raw (print_double b)
  | NCDbl re im =>
      match fl with
      | FLatex =>
          (* bvisit(const ComplexBase &): is_negative(imag) ? real " - " str(imag).substr(1) "j" *)
          if dbl_negative im
          then raw (print_double re) ++ t_minus ++ tl (raw (print_double im)) ++ t_j
          else raw (print_double re) ++ t_plus ++ raw (print_double im) ++ t_j
      | _ =>
          if dbl_negative im
          then raw (print_double re) ++ t_minus ++ raw (print_double (dbl_negate im))
                 ++ print_mul fl ++ imag_symbol fl
          else raw (print_double re) ++ t_plus ++ raw (print_double im)
                 ++ print_mul fl ++ imag_symbol fl
      end
  | NInf d => p_infty fl d
  | NNaN => match fl with FJulia => t_NaN | FLatex => t_lnan | _ => t_nan end
  end.

(* ---------------------------------------------------------------- LatexPrinter::_print_symbol *)
Definition greeks : list (list N) := Eval compute in List.map bs
  ["alpha"; "beta"; "gamma"; "Gamma"; "delta"; "Delta"; "epsilon"; "zeta"; "eta"; "theta"; "Theta";
   "iota"; "kappa"; "lambda"; "Lambda"; "mu"; "nu"; "xi"; "omicron"; "pi"; "Pi"; "rho"; "sigma";
   "Sigma"; "tau"; "upsilon"; "Upsilon"; "phi"; "Phi"; "chi"; "psi"; "Psi"; "omega"; "Omega"]%string.

Fixpoint find_byte (c : N) (s : list N) : option nat :=
  match s with
  | [] => None
  | d :: r => if d =? c then Some O else match find_byte c r with Some k => Some (S k) | None => None end
  end.

Fixpoint print_symbol (fuel : nat) (name : list N) : list N :=
  match fuel with
  | O => name
  | S f =>
      if existsb (fun c => (c =? 92) || (c =? 123)) name then name
      else
        match name with
        | 95 :: rest => print_symbol f rest                       (* name[0] == '_' *)
        | _ =>
            if existsb (beq name) greeks then 92 :: name
            else
              match find_byte 95 name with
              | None => name
              | Some idx =>
                  let n := List.length name in
                  if Nat.eqb idx (n - 1) then name
                  else if Nat.ltb idx (n - 2) then
                    print_symbol f (firstn idx name) ++ [95; 123]
                      ++ print_symbol f (skipn (S idx) name) ++ [125]
                  else print_symbol f (firstn idx name) ++ [95] ++ skipn (S idx) name
              end
        end
  end.
Definition latex_symbol (name : list N) : list ltok :=
  raw (print_symbol (S (List.length name)) name).

(* ---------------------------------------------------------------- constants *)
Definition p_constant (fl : flavour) (nm : list N) : res (list ltok) :=
  match fl with
  | FStr => Ok (raw nm)
  | FJulia => if beq nm name_E then Ok t_exp1 else Ok (raw (List.map lower nm))
  | FSbml => if beq nm name_E then Ok t_exponentiale else Ok (raw (List.map lower nm))
  | FLatex =>
      if beq nm nm_pi then Ok t_lpi
      else if beq nm name_E then Ok t_le_
      else if beq nm nm_EulerGamma then Ok t_lgamma
      else if beq nm nm_Catalan then Ok t_lG
      else if beq nm nm_GoldenRatio then Ok t_lphi
      else ErrExn EXN_NOTIMPL
  end.

Definition p_atom (fl : flavour) (code : N) : res (list ltok) :=
  let latex := match fl with FLatex => true | _ => false end in
  if code =? TC_Complexes then Ok (if latex then t_lC else t_Complexes)
  else if code =? TC_Reals then Ok (if latex then t_lR else t_Reals)
  else if code =? TC_Rationals then Ok (if latex then t_lQ else t_Rationals)
  else if code =? TC_Integers then Ok (if latex then t_lZ else t_Integers)
  else if code =? TC_Naturals then Ok (if latex then t_lN else t_Naturals)
  else if code =? TC_Naturals0 then Ok (if latex then t_lN0 else t_Naturals0)
  else if code =? TC_EmptySet then Ok (if latex then t_lempty else t_EmptySet)
  else if code =? TC_UniversalSet then Ok t_UniversalSet
  else ErrExn EXN_STD.            (* no such field-less class *)

Definition fname (fl : flavour) (code : N) : list ltok :=
  match fl with
  | FLatex => lx (latex_name code)
  | FSbml => raw (sbml_name code)
  | _ => raw (str_name code)
  end.

Definition rel_op (fl : flavour) (code : N) : option (list ltok) :=
  let latex := match fl with FLatex => true | _ => false end in
  if code =? TC_Equality then Some (if latex then t_leq else t_eq)
  else if code =? TC_Unequality then Some (if latex then t_lneq else t_ne)
  else if code =? TC_LessThan then Some (if latex then t_lleq else t_le)
  else if code =? TC_StrictLessThan then Some t_lt
  else None.

Definition ecode (e : expr) : N := type_code e.

(* ---------------------------------------------------------------- the printer *)
Section WithRec.
  Variable rec : flavour -> expr -> res (list ltok).

  Definition rbind {A B} (r : res A) (f : A -> res B) : res B :=
    match r with
    | Ok a => f a
    | ErrOOB i n => ErrOOB i n
    | ErrFuel => ErrFuel
    | ErrExn c => ErrExn c
    end.

  (* apply(x): numbers (also those the printer constructs: numer, denom, neg(exp), get_den) never
     reach the recursion *)
  Definition app (fl : flavour) (x : expr) : res (list ltok) :=
    match x with
    | ENum n => Ok (pnum fl n)
    | _ => rec fl x
    end.

  Definition paren_lt (fl : flavour) (x : expr) (p : N) : res (list ltok) :=
    rbind (app fl x) (fun s => Ok (if precedence x <? p then parenthesize fl s else s)).
  Definition paren_le (fl : flavour) (x : expr) (p : N) : res (list ltok) :=
    rbind (app fl x) (fun s => Ok (if precedence x <=? p then parenthesize fl s else s)).

  (* apply(const vec_basic &): ", "-separated *)
  Definition app_vec (fl : flavour) (l : list expr) : res (list ltok) :=
    rbind (mapM (app fl) l) (fun ls => Ok (join t_comma ls)).

  (* _print_pow *)
  Definition print_pow (fl : flavour) (a c : expr) : res (list ltok) :=
    match fl with
    | FLatex =>
        if is_E a then rbind (app fl c) (fun s => Ok (t_e_caretbr ++ s ++ t_rbrace))
        else if is_half c then rbind (app fl a) (fun s => Ok (t_lsqrt ++ s ++ t_rbrace))
        else
          match c with
          | ENum (NRat 1 q) =>
              rbind (app fl a) (fun s =>
                Ok (t_lsqrtn ++ raw (dec_N (Npos q)) ++ t_sqbr ++ s ++ t_rbrace))
          | _ =>
              rbind (paren_le fl a PREC_Pow) (fun sa =>
              rbind (app fl c) (fun sc =>
                Ok (sa ++ (if Nat.ltb 1 (lbytes sc) then t_caretbr ++ sc ++ t_rbrace
                           else t_caret ++ sc))))
          end
    | _ =>
        if is_E a then rbind (app fl c) (fun s => Ok (t_exp ++ s ++ t_rpar))
        else if is_half c then rbind (app fl a) (fun s => Ok (t_sqrt ++ s ++ t_rpar))
        else
          rbind (paren_le fl a PREC_Pow) (fun sa =>
          rbind (paren_le fl c PREC_Pow) (fun sc =>
            Ok (sa ++ (match fl with FStr => t_powpow | _ => t_caret end) ++ sc)))
    end.

  (* one term of an Add *)
  Definition add_term (fl : flavour) (k : expr) (v : number) : res (list ltok) :=
    if num_is v 1 then paren_lt fl k PREC_Add
    else if num_is v (-1) then rbind (paren_lt fl k PREC_Mul) (fun s => Ok (t_dash ++ s))
    else
      rbind (paren_lt fl (ENum v) PREC_Mul) (fun sv =>
      rbind (paren_lt fl k PREC_Mul) (fun sk => Ok (sv ++ print_mul fl ++ sk))).

  Fixpoint add_terms (fl : flavour) (first : bool) (l : list (expr * number)) : res (list ltok) :=
    match l with
    | [] => Ok []
    | (k, v) :: r =>
        rbind (add_term fl k v) (fun t =>
        rbind (add_terms fl false r) (fun rest =>
          Ok ((if first then t
               else match t with
                    | LC 45 :: t' => t_minus ++ t'
                    | _ => t_plus ++ t
                    end) ++ rest)))
    end.

  Definition print_add (fl : flavour) (c : number) (d : list (expr * number)) : res (list ltok) :=
    let sorted := pmap_of d in
    if negb (num_is c 0) then rbind (add_terms fl false sorted) (fun s => Ok (pnum fl c ++ s))
    else add_terms fl true sorted.

  (* the dictionary loop of bvisit(const Mul &): (o, num, o2, den) *)
  Fixpoint mul_factors (fl : flavour) (l : list (expr * expr)) (o : list ltok) (num : bool)
           (o2 : list ltok) (den : nat) : res (list ltok * bool * list ltok * nat) :=
    match l with
    | [] => Ok (o, num, o2, den)
    | (b, x) :: r =>
        match (if is_E b then None else neg_rational_exp x) with
        | Some nx =>
            rbind (if num_is nx 1 then paren_lt fl b PREC_Mul else print_pow fl b (ENum nx)) (fun t =>
              mul_factors fl r o num (o2 ++ t ++ print_mul fl) (S den))
        | None =>
            rbind (if is_num_int x 1 then paren_lt fl b PREC_Mul else print_pow fl b x) (fun t =>
              mul_factors fl r (o ++ t ++ print_mul fl) true o2 den)
        end
    end.

  Definition print_mul_node (fl : flavour) (c : number) (d : list (expr * expr)) : res (list ltok) :=
    rbind
      (if num_is c (-1) then Ok (t_dash, false, [], O)
       else if negb (num_is c 1) then
         if negb (split_mul_coef fl) then
           rbind (paren_lt fl (ENum c) PREC_Mul) (fun s => Ok (s ++ print_mul fl, true, [], O))
         else
           let '(numer, denom) := coef_numer_denom c in
           rbind (if negb (num_is numer 1)
                  then rbind (paren_lt fl (ENum numer) PREC_Mul) (fun s => Ok (s ++ print_mul fl, true))
                  else Ok ([], false)) (fun on =>
           rbind (if negb (num_is denom 1)
                  then rbind (paren_lt fl (ENum denom) PREC_Mul) (fun s => Ok (s ++ print_mul fl, S O))
                  else Ok ([], O)) (fun od =>
             Ok (fst on, snd on, fst od, snd od)))
       else Ok ([], false, [], O))
      (fun st =>
         let '(o0, num0, o20, den0) := st in
         rbind (mul_factors fl d o0 num0 o20 den0) (fun st' =>
           let '(o, num, o2, den) := st' in
           let o' := if num then o else o ++ t_one ++ print_mul fl in
           let s := removelast o' in
           match den with
           | O => Ok s
           | S O => Ok (print_div fl s (removelast o2) false)
           | _ => Ok (print_div fl s (removelast o2) true)
           end)).

  (* bvisit(const Function &) *)
  Definition print_function (fl : flavour) (code : N) (args : list expr) : res (list ltok) :=
    rbind (app_vec fl args) (fun s =>
      match fl with
      | FLatex => Ok (fname fl code ++ t_lbrace ++ parenthesize fl s ++ t_rbrace)
      | FSbml =>
          if code =? TC_Gamma then Ok (t_factorial ++ s ++ t_minus1)
          else Ok (fname fl code ++ parenthesize fl s)
      | _ => Ok (fname fl code ++ parenthesize fl s)
      end).

  (* And / Or / Xor *)
  Definition logic_prefix (fl : flavour) (code : N) : list ltok :=
    match fl with
    | FSbml => if code =? TC_And then t_and else if code =? TC_Or then t_or else t_xor
    | _ => if code =? TC_And then t_And else if code =? TC_Or then t_Or else t_Xor
    end.
  Definition is_logic_other (code : N) (x : expr) : bool :=
    (* LaTeX: operands that are one of the two OTHER connectives are parenthesized *)
    let c := ecode x in
    ((c =? TC_And) || (c =? TC_Or) || (c =? TC_Xor)) && negb (c =? code).
  Definition latex_logic_op (code : N) : list ltok :=
    if code =? TC_And then t_wedge else if code =? TC_Or then t_vee else t_veebar.

  Definition print_logic (fl : flavour) (code : N) (l : list expr) : res (list ltok) :=
    match fl with
    | FLatex =>
        rbind (mapM (fun x => rbind (app fl x) (fun s =>
                 Ok (if is_logic_other code x then parenthesize fl s else s))) l) (fun ls =>
          Ok (join (latex_logic_op code) ls))
    | _ => rbind (app_vec fl l) (fun s => Ok (logic_prefix fl code ++ s ++ t_rpar))
    end.

  (* LatexPrinter::bvisit(const Derivative &): the "\partial x^k " groups of equal neighbours *)
  Fixpoint deriv_groups (prev : expr) (count : N) (rest : list expr) : res (list ltok) :=
    match rest with
    | [] =>
        rbind (app FLatex prev) (fun s =>
          Ok (t_partial ++ s ++ (if count =? 1 then [] else t_caret ++ raw (dec_N count)) ++ t_space))
    | x :: r =>
        if negb (expr_eqb prev x) then
          rbind (app FLatex prev) (fun s =>
          rbind (deriv_groups x 1 r) (fun tail_ =>
            Ok (t_partial ++ s ++ (if count =? 1 then [] else t_caret ++ raw (dec_N count))
                  ++ t_space ++ tail_)))
        else deriv_groups x (count + 1) r
    end.

  Definition print_node (fl : flavour) (e : expr) : res (list ltok) :=
    match e with
    | ENum n => Ok (pnum fl n)
    | ESym nm | EDummy nm _ =>
        match fl with FLatex => Ok (latex_symbol nm) | _ => Ok (raw nm) end
    | EConst nm => p_constant fl nm
    | EAdd c d => print_add fl c d
    | EMul c d => print_mul_node fl c d
    | EPow a c => print_pow fl a c
    | EF1 code a =>
        if code =? TC_Not then
          match fl with
          | FLatex => rbind (app fl a) (fun s => Ok (t_neg ++ s))
          | FSbml => rbind (app FStr a) (fun s => Ok (t_not ++ s ++ t_rpar))     (* << *x.get_arg() *)
          | _ => rbind (app FStr a) (fun s => Ok (t_Not ++ s ++ t_rpar))
          end
        else
          match fl with
          | FLatex =>
              if code =? TC_Abs then rbind (app fl a) (fun s => Ok (t_labs_l ++ s ++ t_labs_r))
              else if code =? TC_Floor then rbind (app fl a) (fun s => Ok (t_lfloor_l ++ s ++ t_lfloor_r))
              else if code =? TC_Ceiling then rbind (app fl a) (fun s => Ok (t_lceil_l ++ s ++ t_lceil_r))
              else print_function fl code [a]
          | _ => print_function fl code [a]
          end
    | EF2 code a c =>
        match rel_op fl code with
        | Some op =>
            match fl with
            | FLatex => rbind (app fl a) (fun sa => rbind (app fl c) (fun sc => Ok (sa ++ op ++ sc)))
            | _ =>
                rbind (paren_le fl a PREC_Relational) (fun sa =>
                rbind (paren_le fl c PREC_Relational) (fun sc => Ok (sa ++ op ++ sc)))
            end
        | None => print_function fl code [a; c]
        end
    | EFN code l =>
        if (code =? TC_And) || (code =? TC_Or) || (code =? TC_Xor) then print_logic fl code l
        else if code =? TC_FiniteSet then
          match fl with
          | FLatex =>
              (* "\left{" print_with_args(x, ",") "\right}" *)
              rbind (mapM (app fl) l) (fun ls => Ok (t_lfsetl ++ join t_fset_sep ls ++ t_lfsetr))
          | _ =>
              (* s << x.get_container(): every element through operator<< = plain str() *)
              rbind (mapM (app FStr) l) (fun ls => Ok (t_lbrace ++ join t_comma ls ++ t_rbrace))
          end
        else if code =? TC_Union then
          rbind (mapM (app fl) l) (fun ls =>
            Ok (join (match fl with FLatex => t_cup | _ => t_U end) ls))
        else if code =? TC_Intersection then
          match fl with
          | FLatex => rbind (mapM (app fl) l) (fun ls => Ok (join t_cap ls))
          | _ => rbind (app_vec fl l) (fun s => Ok (t_Intersection ++ parenthesize fl s))
          end
        else if code =? TC_ConditionSet then
          match l with
          | [sym; cond] =>
              rbind (app fl sym) (fun ss => rbind (app fl cond) (fun sc =>
                match fl with
                | FLatex => Ok (t_lsetl ++ ss ++ t_lbar ++ sc ++ t_lsetr)
                | _ => Ok (t_lbrace ++ ss ++ t_bar ++ sc ++ t_rbrace)
                end))
          | _ => ErrExn EXN_STD
          end
        else if code =? TC_ImageSet then
          match l with
          | [sym; ex; base] =>
              rbind (app fl ex) (fun sx => rbind (app fl sym) (fun ss => rbind (app fl base) (fun sb =>
                match fl with
                | FLatex => Ok (t_lsetl ++ sx ++ t_lbar ++ ss ++ t_in ++ sb ++ t_lsetr)
                | _ => Ok (t_lbrace ++ sx ++ t_bar ++ ss ++ t_sin ++ sb ++ t_rbrace)
                end)))
          | _ => ErrExn EXN_STD
          end
        else print_function fl code l
    | EFunSym nm l => rbind (app_vec fl l) (fun s => Ok (raw nm ++ parenthesize fl s))
    | ELex code a c =>
        if code =? TC_Contains then
          rbind (app fl a) (fun sa => rbind (app fl c) (fun sc =>
            match fl with
            | FLatex => Ok (sa ++ t_in ++ sc)
            | _ => Ok (t_Contains ++ sa ++ t_comma ++ sc ++ t_rpar)
            end))
        else if code =? TC_Complement then
          rbind (app fl a) (fun sa => rbind (app fl c) (fun sc =>
            Ok (sa ++ (match fl with FLatex => t_setminus | _ => t_bslash end) ++ sc)))
        else ErrExn EXN_STD
    | EDeriv a xs =>
        match fl with
        | FLatex =>
            rbind
              (match xs with
               | [x] =>
                   rbind (app fl x) (fun sx =>
                     Ok ((if Nat.eqb (List.length (QueryModel.free_symbols a)) 1 then t_dd else t_dpartial) ++ sx))
               | x :: r =>
                   rbind (deriv_groups x 1 r) (fun g =>
                     Ok (t_dpartialn ++ raw (dec_N (N.of_nat (List.length xs))) ++ t_brbr ++ g))
               | [] => ErrExn EXN_STD             (* *symbols.begin() of an empty multiset *)
               end)
              (fun head => rbind (app fl a) (fun sa => Ok (head ++ t_dend ++ sa)))
        | _ =>
            rbind (app fl a) (fun sa =>
            rbind (mapM (app fl) xs) (fun ls =>
              Ok (t_Derivative ++ sa ++ concat (List.map (fun s => t_comma ++ s) ls) ++ t_rpar)))
        end
    | ESubs a d =>
        match fl with
        | FLatex =>
            rbind (app fl a) (fun sa =>
            rbind (mapM (fun p => rbind (app fl (fst p)) (fun sk => rbind (app fl (snd p)) (fun sv =>
                     Ok (sk ++ t_equals ++ sv)))) d) (fun ls =>
              Ok (t_lsubs_l ++ sa ++ t_lsubs_m ++ join t_lsubs_sep ls ++ t_lsubs_r)))
        | _ =>
            (* vars and points are collected pairwise, then arg is printed *)
            rbind (mapM (fun p => rbind (app fl (fst p)) (fun sk => rbind (app fl (snd p)) (fun sv =>
                     Ok (sk, sv)))) d) (fun ps =>
            rbind (app fl a) (fun sa =>
              Ok (t_Subs ++ sa ++ t_subs_mid ++ join t_comma (List.map fst ps) ++ t_subs_mid2
                    ++ join t_comma (List.map snd ps) ++ t_subs_end)))
        end
    | EPw l =>
        match fl with
        | FLatex =>
            let fix rows (l : list (expr * expr)) : res (list ltok) :=
              match l with
              | [] => Ok []
              | [(x, c)] =>
                  rbind (app fl x) (fun sx =>
                    if is_true c then Ok (sx ++ t_otherwise)
                    else rbind (app fl c) (fun sc => Ok (sx ++ t_for ++ sc ++ t_endcases)))
              | (x, c) :: r =>
                  rbind (app fl x) (fun sx => rbind (app fl c) (fun sc => rbind (rows r) (fun rest =>
                    Ok (sx ++ t_for ++ sc ++ t_rowsep ++ rest))))
              end in
            rbind (rows l) (fun s => Ok (t_cases ++ s))
        | FSbml =>
            let fix items (l : list (expr * expr)) : res (list ltok) :=
              match l with
              | [] => Ok []
              | (x, c) :: r =>
                  rbind (app fl x) (fun sx =>
                  rbind (match r with
                         | [] => if is_true c then Ok [] else rbind (app fl c) (fun sc => Ok (t_comma ++ sc))
                         | _ => rbind (app fl c) (fun sc => Ok (t_comma ++ sc))
                         end) (fun sc =>
                  rbind (items r) (fun rest =>
                    Ok (sx ++ sc ++ (match r with [] => [] | _ => t_comma end) ++ rest))))
              end in
            rbind (items l) (fun s => Ok (t_piecewise ++ s ++ t_rpar))
        | _ =>
            rbind (mapM (fun p => rbind (app fl (fst p)) (fun sx => rbind (app fl (snd p)) (fun sc =>
                     Ok (t_lpar ++ sx ++ t_comma ++ sc ++ t_rpar)))) l) (fun ls =>
              Ok (t_Piecewise ++ join t_comma ls ++ t_rpar))
        end
    | EBool v =>
        match fl with
        | FLatex => Ok (if v then t_lTrue else t_lFalse)
        | FSbml => Ok (if v then t_true else t_false)
        | _ => Ok (if v then t_True else t_False)
        end
    | EInterval s x lo ro =>
        (* both printers write the end points with operator<< = plain str() *)
        rbind (app FStr s) (fun ss => rbind (app FStr x) (fun sx =>
          match fl with
          | FLatex =>
              Ok ((if lo then t_llpar else t_llbracket) ++ ss ++ t_comma ++ sx
                    ++ (if ro then t_lrpar else t_lrbracket))
          | _ =>
              Ok ((if lo then t_lpar else t_lbracket) ++ ss ++ t_comma ++ sx
                    ++ (if ro then t_rpar else t_rbracket))
          end))
    | EAtom code => p_atom fl code
    end.
End WithRec.

Fixpoint sp_fuel (fuel : nat) (fl : flavour) (e : expr) : res (list ltok) :=
  match fuel with
  | O => ErrFuel
  | S f => print_node (sp_fuel f) fl e
  end.

Definition sp_toks (fl : flavour) (e : expr) : res (list ltok) := sp_fuel (S (size e)) fl e.
Definition sp (fl : flavour) (e : expr) : res (list N) :=
  match sp_toks fl e with
  | Ok l => Ok (lrender l)
  | ErrOOB i n => ErrOOB i n
  | ErrFuel => ErrFuel
  | ErrExn c => ErrExn c
  end.

Definition str_of (e : expr) : res (list N) := sp FStr e.
Definition julia (e : expr) : res (list N) := sp FJulia e.
Definition sbml (e : expr) : res (list N) := sp FSbml e.
Definition latex_toks (e : expr) : res (list ltok) := sp_toks FLatex e.
Definition latex (e : expr) : res (list N) := sp FLatex e.
