From SE Require Import C44.C44Spec C44.UnicodeProofs.
Local Open Scope N_scope.
(* unicode(Symbol("α") / y): the bar is 2 columns wide, "α" one *)
Theorem C44_unicode_rect_refuted :
  exists b, unicode_box (EMul (NInt 1) [(ESym [121], ENum (NInt (-1))); (ESym [206; 177], ENum (NInt 1))]) = Ok b
            /\ ~ rect b
            /\ unicode_guard (EMul (NInt 1) [(ESym [121], ENum (NInt (-1))); (ESym [206; 177], ENum (NInt 1))]) = false.
Proof. exact unicode_rect_refuted. Qed.
Print Assumptions C44_unicode_rect_refuted.
