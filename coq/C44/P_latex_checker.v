From SE Require Import C44.C44Spec C44.LatexProofs.
(* the executable brace / \left-\right checker decides the specification *)
Theorem C44_latex_checker : forall l : list ltok, latex_wf_b l = true <-> latex_wf l.
Proof. exact latex_checker_iff. Qed.
Print Assumptions C44_latex_checker.
