From SE Require Import C44.C44Spec C44.BoxProofs.
(* every history of StringBox operations applied to rectangular boxes leaves rectangular boxes *)
Theorem C44_stringbox_rect :
  forall (ops : list boxop) (st st' : list sbox),
    pushes_rect ops -> Forall rect st -> run_box ops st = Ok st' -> Forall rect st'.
Proof. exact stringbox_rect. Qed.
Print Assumptions C44_stringbox_rect.
