(* C44 -- model of MathMLPrinter (symengine/printers/mathml.cpp), rule by rule.
   The printer appends to one std::ostringstream; the model emits the same text as a stream of
   XML tokens whose rendering is that text byte for byte (checked on every run against
   mathml(e) of the library).  Classes without a bvisit overload reach
   MathMLPrinter::bvisit(const Basic &) which throws SymEngineException: ErrExn EXN_SYMENGINE.
   Model file: no proofs. *)
From Coq Require Import String.
From SE Require Export C44.Names.
Local Open Scope N_scope.

Inductive xtok :=
| XO (name attrs : list N)     (* <name attrs>   ; attrs is empty or starts with a blank *)
| XC (name : list N)           (* </name>        *)
| XE (name : list N)           (* <name/>        *)
| XT (text : list N)           (* character data *)
| XR (name : list N).          (* &name;  (entity reference) *)

Definition xrender1 (t : xtok) : list N :=
  match t with
  | XO n a => [60] ++ n ++ a ++ [62]
  | XC n => [60; 47] ++ n ++ [62]
  | XE n => [60] ++ n ++ [47; 62]
  | XT s => s
  | XR n => [38] ++ n ++ [59]
  end.
Definition xrender (l : list xtok) : list N := flat_map xrender1 l.

(* literal names *)
Definition x_apply : list N := Eval compute in bs "apply".
Definition x_cn : list N := Eval compute in bs "cn".
Definition x_ci : list N := Eval compute in bs "ci".
Definition x_sep : list N := Eval compute in bs "sep".
Definition x_csymbol : list N := Eval compute in bs "csymbol".
Definition x_interval : list N := Eval compute in bs "interval".
Definition x_piecewise : list N := Eval compute in bs "piecewise".
Definition x_piece : list N := Eval compute in bs "piece".
Definition x_set : list N := Eval compute in bs "set".
Definition x_bvar : list N := Eval compute in bs "bvar".
Definition x_condition : list N := Eval compute in bs "condition".
Definition a_integer : list N := Eval compute in bs " type=""integer""".
Definition a_rational : list N := Eval compute in bs " type=""rational""".
Definition a_real : list N := Eval compute in bs " type=""real""".
Definition a_nums1 : list N := Eval compute in bs " cd=""nums1""".
Definition a_open : list N := Eval compute in bs " closure=""open""".
Definition a_open_closed : list N := Eval compute in bs " closure=""open-closed""".
Definition a_closed_open : list N := Eval compute in bs " closure=""closed-open""".
Definition a_closed : list N := Eval compute in bs " closure=""closed""".
Definition t_complex_cartesian : list N := Eval compute in bs "complex_cartesian".
Definition t_catalan : list N := Eval compute in bs "0.915966".       (* ostream << 0.915965594177219 *)
Definition t_goldenratio : list N := Eval compute in bs "1.61803".    (* ostream << 1.618033988749895 *)

Definition x_and : list N := Eval compute in bs "and".
Definition x_complexes : list N := Eval compute in bs "complexes".
Definition x_emptyset : list N := Eval compute in bs "emptyset".
Definition x_eq : list N := Eval compute in bs "eq".
Definition x_eulergamma : list N := Eval compute in bs "eulergamma".
Definition x_exponentiale : list N := Eval compute in bs "exponentiale".
Definition x_false : list N := Eval compute in bs "false".
Definition x_in : list N := Eval compute in bs "in".
Definition x_integers : list N := Eval compute in bs "integers".
Definition x_leq : list N := Eval compute in bs "leq".
Definition x_lt : list N := Eval compute in bs "lt".
Definition x_neq : list N := Eval compute in bs "neq".
Definition x_not : list N := Eval compute in bs "not".
Definition x_or : list N := Eval compute in bs "or".
Definition x_partialdiff : list N := Eval compute in bs "partialdiff".
Definition x_plus : list N := Eval compute in bs "plus".
Definition x_power : list N := Eval compute in bs "power".
Definition x_rationals : list N := Eval compute in bs "rationals".
Definition x_reals : list N := Eval compute in bs "reals".
Definition x_setdiff : list N := Eval compute in bs "setdiff".
Definition x_times : list N := Eval compute in bs "times".
Definition x_true : list N := Eval compute in bs "true".
Definition x_union : list N := Eval compute in bs "union".
Definition x_xor : list N := Eval compute in bs "xor".

(* xml_escape (mathml.cpp): & < > become entity references *)
Definition x_gt : list N := Eval compute in bs "gt".
Definition x_amp : list N := Eval compute in bs "amp".
Definition xml_escape (name : list N) : list xtok :=
  List.map (fun c => if c =? 38 then XR x_amp else if c =? 60 then XR x_lt else if c =? 62 then XR x_gt
                     else XT [c]) name.

(* <apply><op/> ... </apply> *)
Definition x_app (op : list N) (body : list xtok) : list xtok :=
  [XO x_apply []; XE op] ++ body ++ [XC x_apply].
Definition x_cn_of (attr text : list N) : list xtok := [XO x_cn attr; XT text; XC x_cn].

(* the real numbers: Integer, Rational, RealDouble; Infty / NaN have no overload *)
Definition mm_real (n : number) : res (list xtok) :=
  match n with
  | NInt z => Ok (x_cn_of a_integer (dec_Z z))
  | NRat p q => Ok [XO x_cn a_rational; XT (dec_Z p); XE x_sep; XT (dec_N (Npos q)); XC x_cn]
  | NDbl b => Ok (x_cn_of a_real (print_double b))
  | _ => ErrExn EXN_SYMENGINE
  end.

Definition mm_number (n : number) : res (list xtok) :=
  match n with
  | NCplx _ _ _ _ | NCDbl _ _ =>
      (* bvisit(const ComplexBase &) *)
      match mm_real (cplx_re n), mm_real (cplx_im n) with
      | Ok r, Ok i =>
          Ok ([XO x_apply []; XO x_csymbol a_nums1; XT t_complex_cartesian; XC x_csymbol]
                ++ r ++ i ++ [XC x_apply])
      | Ok _, e => e
      | e, _ => e
      end
  | _ => mm_real n
  end.

Definition mm_constant (nm : list N) : res (list xtok) :=
  if beq nm nm_pi then Ok [XE nm_pi]
  else if beq nm name_E then Ok [XE x_exponentiale]
  else if beq nm nm_EulerGamma then Ok [XE x_eulergamma]
  else if beq nm nm_Catalan then Ok (x_cn_of a_real t_catalan)
  else if beq nm nm_GoldenRatio then Ok (x_cn_of a_real t_goldenratio)
  else ErrExn EXN_NOTIMPL.      (* eval_double of a user-defined Constant *)

Definition mm_atom (code : N) : res (list xtok) :=
  if code =? TC_EmptySet then Ok [XE x_emptyset]
  else if code =? TC_Complexes then Ok [XE x_complexes]
  else if code =? TC_Reals then Ok [XE x_reals]
  else if code =? TC_Rationals then Ok [XE x_rationals]
  else if code =? TC_Integers then Ok [XE x_integers]
  else ErrExn EXN_SYMENGINE.     (* Naturals, Naturals0, UniversalSet: bvisit(Basic) *)

Definition rel_tag (code : N) : option (list N) :=
  if code =? TC_Equality then Some x_eq
  else if code =? TC_Unequality then Some x_neq
  else if code =? TC_LessThan then Some x_leq
  else if code =? TC_StrictLessThan then Some x_lt
  else None.

Section WithRec.
  Variable rec : expr -> res (list xtok).

  Definition mm_list (l : list expr) : res (list xtok) :=
    match mapM rec l with
    | Ok ls => Ok (concat ls)
    | ErrOOB i n => ErrOOB i n
    | ErrFuel => ErrFuel
    | ErrExn c => ErrExn c
    end.

  (* <apply><power/> b x </apply> *)
  Definition mm_pow (b x : expr) : res (list xtok) :=
    match mm_list [b; x] with Ok l => Ok (x_app x_power l) | e => e end.

  (* one entry of a Mul dictionary as Mul::get_args presents it *)
  Definition mm_factor (p : expr * expr) : res (list xtok) :=
    if is_num_int (snd p) 1 then rec (fst p) else mm_pow (fst p) (snd p).

  (* a Mul node with coefficient c and dictionary d: <apply><times/> get_args... </apply> *)
  Definition mm_mul (c : number) (d : list (expr * expr)) : res (list xtok) :=
    match (if num_is_one c then Ok [] else mm_number c) with
    | Ok cs =>
        match mapM mm_factor d with
        | Ok fs => Ok (x_app x_times (cs ++ concat fs))
        | ErrOOB i n => ErrOOB i n
        | ErrFuel => ErrFuel
        | ErrExn c => ErrExn c
        end
    | e => e
    end.

  (* one entry (k, v) of an Add dictionary as Add::get_args presents it: k itself when v = 1,
     otherwise the tree Add::from_dict(zero, {k: v}) builds (PrintBase.term_of) *)
  Definition mm_term (p : expr * number) : res (list xtok) :=
    let k := fst p in
    let v := snd p in
    if num_is v 1 then rec k
    else if num_is v 0 then mm_number v
    else
      match k with
      | EMul _ kd =>
          if num_is_zero v then mm_number v
          else match kd with [] => mm_number v | _ => mm_mul v kd end
      | EPow b x => mm_mul v [(b, x)]
      | _ => mm_mul v [(k, ENum (NInt 1))]
      end.

  Definition mm_add (c : number) (d : list (expr * number)) : res (list xtok) :=
    match (if num_is_zero c then Ok [] else mm_number c) with
    | Ok cs =>
        match mapM mm_term d with
        | Ok ts => Ok (x_app x_plus (cs ++ concat ts))
        | ErrOOB i n => ErrOOB i n
        | ErrFuel => ErrFuel
        | ErrExn c => ErrExn c
        end
    | e => e
    end.

  (* bvisit(const Function &): <apply><NAME/> args </apply> with NAME = names_[type code] *)
  Definition mm_function (code : N) (args : list expr) : res (list xtok) :=
    match mm_list args with Ok l => Ok (x_app (mathml_name code) l) | e => e end.

  Definition mm_node (e : expr) : res (list xtok) :=
    match e with
    | ENum n => mm_number n
    | ESym nm | EDummy nm _ => Ok ([XO x_ci []] ++ xml_escape nm ++ [XC x_ci])
    | EConst nm => mm_constant nm
    | EAdd c d => mm_add c d
    | EMul c d => mm_mul c d
    | EPow b x => mm_pow b x
    | EF1 code a =>
        if code =? TC_Not then
          match rec a with Ok l => Ok (x_app x_not l) | e => e end
        else if code =? TC_UnevaluatedExpr then rec a       (* apply( *x.get_arg()) *)
        else mm_function code [a]
    | EF2 code a c =>
        match rel_tag code with
        | Some t => match mm_list [a; c] with Ok l => Ok (x_app t l) | e => e end
        | None => mm_function code [a; c]
        end
    | EFN code l =>
        if code =? TC_And then match mm_list l with Ok b => Ok (x_app x_and b) | e => e end
        else if code =? TC_Or then match mm_list l with Ok b => Ok (x_app x_or b) | e => e end
        else if code =? TC_Xor then match mm_list l with Ok b => Ok (x_app x_xor b) | e => e end
        else if code =? TC_Union then match mm_list l with Ok b => Ok (x_app x_union b) | e => e end
        else if code =? TC_FiniteSet then
          match mm_list l with Ok b => Ok ([XO x_set []] ++ b ++ [XC x_set]) | e => e end
        else if code =? TC_Intersection then ErrExn EXN_SYMENGINE
        else if code =? TC_ConditionSet then
          match l with
          | [sym; cond] =>
              match rec sym, rec cond with
              | Ok s, Ok c =>
                  Ok ([XO x_set []; XO x_bvar []] ++ s ++ [XC x_bvar; XO x_condition []] ++ c
                        ++ [XC x_condition] ++ s ++ [XC x_set])
              | Ok _, e => e
              | e, _ => e
              end
          | _ => ErrExn EXN_STD
          end
        else if code =? TC_ImageSet then
          match l with
          | [sym; ex; base] =>
              match rec ex, rec sym, rec base with
              | Ok x, Ok s, Ok b =>
                  Ok ([XO x_set []; XO x_bvar []] ++ x
                        ++ [XC x_bvar; XO x_condition []; XO x_apply []; XE x_in] ++ s ++ b
                        ++ [XC x_apply; XC x_condition] ++ s ++ [XC x_set])
              | Ok _, Ok _, e => e
              | Ok _, e, _ => e
              | e, _, _ => e
              end
          | _ => ErrExn EXN_STD
          end
        else mm_function code l
    | EFunSym nm l =>
        match mm_list l with
        | Ok b => Ok ([XO x_apply []; XO x_ci []] ++ xml_escape nm ++ [XC x_ci] ++ b ++ [XC x_apply])
        | e => e
        end
    | ELex code a c =>
        if code =? TC_Contains then
          match mm_list [a; c] with Ok l => Ok (x_app x_in l) | e => e end
        else if code =? TC_Complement then
          match mm_list [a; c] with Ok l => Ok (x_app x_setdiff l) | e => e end
        else ErrExn EXN_SYMENGINE
    | EDeriv a xs =>
        match mm_list xs, rec a with
        | Ok vs, Ok b =>
            Ok ([XO x_apply []; XE x_partialdiff; XO x_bvar []] ++ vs ++ [XC x_bvar] ++ b
                  ++ [XC x_apply])
        | Ok _, e => e
        | e, _ => e
        end
    | ESubs _ _ => ErrExn EXN_SYMENGINE
    | EPw l =>
        match mapM (fun p => match mm_list [fst p; snd p] with
                             | Ok b => Ok ([XO x_piece []] ++ b ++ [XC x_piece])
                             | e => e
                             end) l with
        | Ok ps => Ok ([XO x_piecewise []] ++ concat ps ++ [XC x_piecewise])
        | ErrOOB i n => ErrOOB i n
        | ErrFuel => ErrFuel
        | ErrExn c => ErrExn c
        end
    | EBool v => Ok [XE (if v then x_true else x_false)]
    | EInterval s x lo ro =>
        let attr := if lo then (if ro then a_open else a_open_closed)
                    else (if ro then a_closed_open else a_closed) in
        match mm_list [s; x] with
        | Ok b => Ok ([XO x_interval attr] ++ b ++ [XC x_interval])
        | e => e
        end
    | EAtom code => mm_atom code
    end.
End WithRec.

Fixpoint mathml_fuel (fuel : nat) (e : expr) : res (list xtok) :=
  match fuel with
  | O => ErrFuel
  | S f => mm_node (mathml_fuel f) e
  end.

(* mathml(e): the token stream, and the text *)
Definition mathml_toks (e : expr) : res (list xtok) := mathml_fuel (S (size e)) e.
Definition mathml (e : expr) : res (list N) :=
  match mathml_toks e with
  | Ok l => Ok (xrender l)
  | ErrOOB i n => ErrOOB i n
  | ErrFuel => ErrFuel
  | ErrExn c => ErrExn c
  end.
