From SE Require Import C44.C44Spec C44.UnicodeProofs.
(* Full statement (refuted by P_unicode_rect_refuted: non-ASCII names):
     forall e b, unicode_box e = Ok b -> rect b.
   Guarded: Symbol / Dummy / FunctionSymbol names are ASCII. *)
Theorem C44_unicode_rect_guarded :
  forall (e : expr) (b : sbox), unicode_guard e = true -> unicode_box e = Ok b -> rect b.
Proof. exact unicode_rect. Qed.
Print Assumptions C44_unicode_rect_guarded.
