From SE Require Import C44.C44Spec C44.LatexProofs.
(* Full statement (refuted by P_latex_balanced_refuted: FiniteSet):
     forall e l, latex_toks e = Ok l -> latex_wf l.
   Guarded: names without \ { } , no FiniteSet node, Interval end points are numbers. *)
Theorem C44_latex_balanced_guarded :
  forall (e : expr) (l : list ltok), latex_guard e = true -> latex_toks e = Ok l -> latex_wf l.
Proof. exact latex_balanced. Qed.
Print Assumptions C44_latex_balanced_guarded.
