From SE Require Import C44.C44Spec C44.TotalFuel.
(* MathMLPrinter returns a text for every tree whose nodes all belong to classes with a rule
   (numbers other than Infty / NaN, the five Constants, sets other than Intersection / Naturals /
   Naturals0 / UniversalSet, no Subs); the fuel of the model never runs out.  The complement is
   C44_throws_by_design. *)
Theorem C44_mathml_total :
  forall e : expr, mm_supported e = true -> exists l, mathml_toks e = Ok l.
Proof. exact mathml_total. Qed.
Print Assumptions C44_mathml_total.
