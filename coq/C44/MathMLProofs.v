(* C44 -- MathML: the token stream of mathml(e) is one well-formed XML element. *)
From Coq Require Import List Bool NArith ZArith Lia.
Import ListNotations.
From SE Require Import C44.C44Spec C44.TextProofs.
Local Open Scope N_scope.

Ltac inv H := inversion H; subst; clear H.
Ltac dtest c := let E := fresh "E" in destruct c eqn:E; rewrite ?E in *.
(* present the list of the goal in another bracketing *)
Ltac reshape t :=
  match goal with
  | |- ?P ?l => replace l with t by (repeat (cbn [app]; rewrite <- ?app_assoc); cbn [app]; reflexivity)
  end.

(* ---------------------------------------------------------------- mapM *)
Lemma mapM_Forall2 : forall {A B} (f : A -> res B) l ls,
  mapM f l = Ok ls -> Forall2 (fun x y => f x = Ok y) l ls.
Proof.
  induction l as [|a l IH]; simpl; intros ls H.
  - inv H. constructor.
  - destruct (f a) eqn:E; try discriminate.
    destruct (mapM f l) eqn:E2; try discriminate. inv H. constructor; auto.
Qed.

(* ---------------------------------------------------------------- forests *)
Lemma xforest_app : forall a b, xforest a -> xforest b -> xforest (a ++ b).
Proof.
  intros a b Ha Hb. induction Ha; simpl.
  - exact Hb.
  - apply xf_text; assumption.
  - apply xf_ref; assumption.
  - apply xf_empty; assumption.
  - rewrite <- app_assoc. simpl. apply xf_elem; assumption.
Qed.

Lemma xelement_forest : forall l, xelement l -> xforest l.
Proof.
  intros l H. destruct H.
  - apply xf_empty; [assumption | constructor].
  - apply xf_elem; [assumption | assumption | assumption | constructor].
Qed.

Lemma xforest_concat : forall ls, Forall xforest ls -> xforest (concat ls).
Proof.
  induction 1; simpl.
  - constructor.
  - apply xforest_app; assumption.
Qed.

Lemma mapM_forest : forall {A} (f : A -> res (list xtok)) (P : A -> Prop) l ls,
  (forall x y, P x -> f x = Ok y -> xforest y) -> Forall P l -> mapM f l = Ok ls ->
  xforest (concat ls).
Proof.
  intros A f P l ls Hf HP HM. apply xforest_concat.
  apply mapM_Forall2 in HM. induction HM.
  - constructor.
  - inv HP. constructor; eauto.
Qed.

Lemma x_app_elem : forall op body,
  xml_name_ok op = true -> xforest body -> xelement (x_app op body).
Proof.
  intros op body Hop Hb. unfold x_app.
  change ([XO x_apply []; XE op] ++ body ++ [XC x_apply])
    with (XO x_apply [] :: (XE op :: body) ++ [XC x_apply]).
  apply xe_elem; [reflexivity | reflexivity | apply xf_empty; assumption].
Qed.

Lemma wrap_elem : forall n a body,
  xml_name_ok n = true -> xml_attr_ok a = true -> xforest body ->
  xelement ([XO n a] ++ body ++ [XC n]).
Proof. intros. simpl. apply xe_elem; assumption. Qed.
Lemma wrap_forest : forall n a body,
  xml_name_ok n = true -> xml_attr_ok a = true -> xforest body ->
  xforest ([XO n a] ++ body ++ [XC n]).
Proof. intros. apply xelement_forest, wrap_elem; assumption. Qed.

(* ---------------------------------------------------------------- character data *)
Definition xchar (c : N) : bool := negb ((c =? 60) || (c =? 38)).

Lemma xchar_digit : forall c, 48 <= c -> c <= 57 -> xchar c = true.
Proof.
  intros c H1 H2. unfold xchar.
  destruct (c =? 60) eqn:E1; [apply N.eqb_eq in E1; lia|].
  destruct (c =? 38) eqn:E2; [apply N.eqb_eq in E2; lia|]. reflexivity.
Qed.

Lemma text_dec_Z : forall z, xml_text_ok (dec_Z z) = true.
Proof. intro z. apply (chars_dec_Z xchar xchar_digit); reflexivity. Qed.
Lemma text_dec_N : forall n, xml_text_ok (dec_N n) = true.
Proof. intro n. apply (chars_dec_N xchar xchar_digit). Qed.
Lemma text_double : forall b, xml_text_ok (print_double b) = true.
Proof. intro b. apply (chars_print_double xchar xchar_digit); reflexivity. Qed.

Lemma xml_escape_forest : forall nm, xforest (xml_escape nm).
Proof.
  induction nm as [|c nm IH]; simpl.
  - constructor.
  - destruct (c =? 38) eqn:E1; [apply xf_ref; [reflexivity | exact IH]|].
    destruct (c =? 60) eqn:E2; [apply xf_ref; [reflexivity | exact IH]|].
    destruct (c =? 62) eqn:E3; [apply xf_ref; [reflexivity | exact IH]|].
    apply xf_text; [|exact IH]. unfold xml_text_ok. simpl. rewrite E2, E1. reflexivity.
Qed.

(* ---------------------------------------------------------------- numbers, constants, atoms *)
Lemma x_cn_elem : forall attr text,
  xml_attr_ok attr = true -> xml_text_ok text = true -> xelement (x_cn_of attr text).
Proof.
  intros attr text Ha Ht. unfold x_cn_of.
  apply (xe_elem x_cn attr [XT text]); [reflexivity | exact Ha | apply xf_text; [exact Ht | constructor]].
Qed.

Lemma mm_real_elem : forall n l, mm_real n = Ok l -> xelement l.
Proof.
  intros n l H. destruct n; simpl in H; try discriminate; inv H.
  - apply x_cn_elem; [reflexivity | apply text_dec_Z].
  - apply (xe_elem x_cn a_rational [XT (dec_Z n); XE x_sep; XT (dec_N (Npos d))]);
      [reflexivity | reflexivity |].
    apply xf_text; [apply text_dec_Z|]. apply xf_empty; [reflexivity|].
    apply xf_text; [apply text_dec_N | constructor].
  - apply x_cn_elem; [reflexivity | apply text_double].
Qed.

Lemma mm_number_elem : forall n l, mm_number n = Ok l -> xelement l.
Proof.
  intros n l H.
  assert (Hc : forall m, match mm_real (cplx_re m), mm_real (cplx_im m) with
                         | Ok r, Ok i =>
                             Ok ([XO x_apply []; XO x_csymbol a_nums1; XT t_complex_cartesian; XC x_csymbol]
                                   ++ r ++ i ++ [XC x_apply])
                         | Ok _, e => e
                         | e, _ => e
                         end = Ok l -> xelement l).
  { intros m Hm. destruct (mm_real (cplx_re m)) eqn:E1; try discriminate.
    destruct (mm_real (cplx_im m)) eqn:E2; try discriminate. inv Hm.
    apply mm_real_elem in E1. apply mm_real_elem in E2.
    reshape ([XO x_apply []] ++ (([XO x_csymbol a_nums1] ++ [XT t_complex_cartesian] ++ [XC x_csymbol]) ++ a ++ a0)
               ++ [XC x_apply]).
    apply wrap_elem; [reflexivity | reflexivity |].
    apply xforest_app; [apply wrap_forest; [reflexivity | reflexivity | apply xf_text; [reflexivity | constructor]]|].
    apply xforest_app; apply xelement_forest; assumption.
  }
  destruct n as [z|p q|rn rd imn imd|b|re im|d|].
  - exact (mm_real_elem _ _ H).
  - exact (mm_real_elem _ _ H).
  - exact (Hc (NCplx rn rd imn imd) H).
  - exact (mm_real_elem _ _ H).
  - exact (Hc (NCDbl re im) H).
  - exact (mm_real_elem _ _ H).
  - exact (mm_real_elem _ _ H).
Qed.

Lemma mm_constant_elem : forall nm l, mm_constant nm = Ok l -> xelement l.
Proof.
  intros nm l H. unfold mm_constant in H.
  destruct (beq nm nm_pi); [inv H; apply xe_empty; reflexivity|].
  destruct (beq nm name_E); [inv H; apply xe_empty; reflexivity|].
  destruct (beq nm nm_EulerGamma); [inv H; apply xe_empty; reflexivity|].
  destruct (beq nm nm_Catalan); [inv H; apply x_cn_elem; reflexivity|].
  destruct (beq nm nm_GoldenRatio); [inv H; apply x_cn_elem; reflexivity|].
  discriminate.
Qed.

Lemma mm_atom_elem : forall code l, mm_atom code = Ok l -> xelement l.
Proof.
  intros code l H. unfold mm_atom in H.
  repeat match type of H with
         | (if ?c then _ else _) = _ => destruct c; [inv H; apply xe_empty; reflexivity|]
         end.
  discriminate.
Qed.

(* ---------------------------------------------------------------- the recursion *)
Section Rec.
  Variable rec : expr -> res (list xtok).
  Hypothesis IH : forall e l, mm_guard e = true -> rec e = Ok l -> xelement l.

  Lemma IHf : forall e l, mm_guard e = true -> rec e = Ok l -> xforest l.
  Proof. intros. apply xelement_forest. eauto. Qed.

  Lemma mm_list_forest : forall args l,
    forallb mm_guard args = true -> mm_list rec args = Ok l -> xforest l.
  Proof.
    intros args l G H. unfold mm_list in H.
    destruct (mapM rec args) eqn:E; try discriminate. inv H.
    eapply (mapM_forest rec (fun x => mm_guard x = true)); [apply IHf | | exact E].
    apply Forall_forall. apply forallb_forall. exact G.
  Qed.

  Lemma mm_pow_elem : forall b x l,
    mm_guard b = true -> mm_guard x = true -> mm_pow rec b x = Ok l -> xelement l.
  Proof.
    intros b x l Gb Gx H. unfold mm_pow in H.
    destruct (mm_list rec [b; x]) eqn:E; try discriminate. inv H.
    apply x_app_elem; [reflexivity|].
    eapply mm_list_forest; [|exact E]. simpl. rewrite Gb, Gx. reflexivity.
  Qed.

  Lemma mm_factor_forest : forall p l,
    mm_guard (fst p) = true /\ mm_guard (snd p) = true -> mm_factor rec p = Ok l -> xforest l.
  Proof.
    intros p l [G1 G2] H. unfold mm_factor in H. apply xelement_forest.
    destruct (is_num_int (snd p) 1).
    - exact (IH _ _ G1 H).
    - exact (mm_pow_elem _ _ _ G1 G2 H).
  Qed.

  Lemma mm_mul_elem : forall c d l,
    forallb (fun q => mm_guard (fst q) && mm_guard (snd q)) d = true ->
    mm_mul rec c d = Ok l -> xelement l.
  Proof.
    intros c d l G H. unfold mm_mul in H.
    destruct (if num_is_one c then Ok [] else mm_number c) eqn:Ec; try discriminate.
    destruct (mapM (mm_factor rec) d) eqn:Ed; try discriminate. inv H.
    apply x_app_elem; [reflexivity|]. apply xforest_app.
    - destruct (num_is_one c); [inv Ec; constructor | apply xelement_forest, (mm_number_elem c); exact Ec].
    - eapply (mapM_forest (mm_factor rec)); [apply mm_factor_forest | | exact Ed].
      apply Forall_forall. intros q Hq. rewrite forallb_forall in G. specialize (G q Hq).
      apply andb_prop in G. exact G.
  Qed.

  Lemma mm_term_forest : forall p l,
    mm_guard (fst p) = true -> mm_term rec p = Ok l -> xforest l.
  Proof.
    intros [k v] l G H. unfold mm_term in H. simpl fst in *. simpl snd in *. apply xelement_forest.
    destruct (num_is v 1); [eapply IH; eauto|].
    destruct (num_is v 0); [eapply mm_number_elem; eauto|].
    destruct k as [n|nm|nm idx|nm|c0 d0|c0 d|b x|code a|code a b|code args|nm args|code a b|a xs|a d0|pl|bv|s0 e0 lo ro|code];
      try (eapply mm_mul_elem; [|exact H]; cbn [forallb fst snd]; rewrite G; reflexivity).
    - (* EMul *)
      destruct (num_is_zero v); [eapply mm_number_elem; eauto|].
      destruct d; [eapply mm_number_elem; eauto|].
      eapply mm_mul_elem; [|exact H].
      unfold mm_guard in G. cbn [all_nodes] in G. apply andb_prop in G. apply G.
    - (* EPow *)
      eapply mm_mul_elem; [|exact H].
      unfold mm_guard in G. cbn [all_nodes] in G. apply andb_prop in G. destruct G as [_ G].
      simpl. unfold mm_guard. rewrite G. reflexivity.
  Qed.

  Lemma mm_add_elem : forall c d l,
    forallb (fun q => mm_guard (fst q)) d = true -> mm_add rec c d = Ok l -> xelement l.
  Proof.
    intros c d l G H. unfold mm_add in H.
    destruct (if num_is_zero c then Ok [] else mm_number c) eqn:Ec; try discriminate.
    destruct (mapM (mm_term rec) d) eqn:Ed; try discriminate. inv H.
    apply x_app_elem; [reflexivity|]. apply xforest_app.
    - destruct (num_is_zero c); [inv Ec; constructor | apply xelement_forest, (mm_number_elem c); exact Ec].
    - eapply (mapM_forest (mm_term rec)); [apply mm_term_forest | | exact Ed].
      apply Forall_forall. apply forallb_forall. exact G.
  Qed.

  Lemma mm_function_elem : forall code args l,
    xml_name_ok (mathml_name code) = true -> forallb mm_guard args = true ->
    mm_function rec code args = Ok l -> xelement l.
  Proof.
    intros code args l Hn G H. unfold mm_function in H.
    destruct (mm_list rec args) eqn:E; try discriminate. inv H.
    apply x_app_elem; [exact Hn | eapply mm_list_forest; eauto].
  Qed.

  Lemma app_list_elem : forall op args l,
    xml_name_ok op = true -> forallb mm_guard args = true ->
    match mm_list rec args with Ok b => Ok (x_app op b) | e => e end = Ok l -> xelement l.
  Proof.
    intros op args l Hn G H. destruct (mm_list rec args) eqn:E; try discriminate. inv H.
    apply x_app_elem; [exact Hn | eapply mm_list_forest; eauto].
  Qed.

  Lemma mm_node_elem : forall e l, mm_guard e = true -> mm_node rec e = Ok l -> xelement l.
  Proof.
    intros e l G H. unfold mm_guard in G.
    destruct e as [n|nm|nm idx|nm|c d|c d|b x|code a|code a c|code args|nm args|code a c|a xs|a d|pl|bv|s x lo ro|code];
      cbn [all_nodes] in G; apply andb_prop in G; destruct G as [Gn Gk]; cbn [mm_node] in H.
    - (* ENum *) eapply mm_number_elem; eauto.
    - (* ESym *) inv H. apply wrap_elem; [reflexivity | reflexivity | apply xml_escape_forest].
    - (* EDummy *) inv H. apply wrap_elem; [reflexivity | reflexivity | apply xml_escape_forest].
    - (* EConst *) eapply mm_constant_elem; eauto.
    - (* EAdd *) eapply mm_add_elem; eauto.
    - (* EMul *) eapply mm_mul_elem; eauto.
    - (* EPow *) apply andb_prop in Gk. destruct Gk as [G1 G2]. exact (mm_pow_elem b x l G1 G2 H).
    - (* EF1 *)
      unfold mm_node_ok, mm_function_node in Gn.
      dtest (code =? TC_Not).
      + destruct (rec a) eqn:E1; try discriminate. inv H.
        apply x_app_elem; [reflexivity | eapply IHf; eauto].
      + dtest (code =? TC_UnevaluatedExpr); [eapply IH; eauto|].
        simpl in Gn. eapply mm_function_elem; eauto. simpl. unfold mm_guard. rewrite Gk. reflexivity.
    - (* EF2 *)
      apply andb_prop in Gk. destruct Gk as [G1 G2].
      unfold mm_node_ok, mm_function_node in Gn.
      destruct (rel_tag code) as [tag|] eqn:ER.
      + eapply (app_list_elem tag); [| |exact H].
        * unfold rel_tag in ER.
          repeat match type of ER with
                 | (if ?c then _ else _) = _ => destruct c; [inv ER; reflexivity|]
                 end. discriminate.
        * simpl. unfold mm_guard. rewrite G1, G2. reflexivity.
      + eapply mm_function_elem; eauto. simpl. unfold mm_guard. rewrite G1, G2. reflexivity.
    - (* EFN *)
      unfold mm_node_ok, mm_function_node in Gn.
      dtest (code =? TC_And); [eapply (app_list_elem x_and); [reflexivity | exact Gk | exact H]|].
      dtest (code =? TC_Or); [eapply (app_list_elem x_or); [reflexivity | exact Gk | exact H]|].
      dtest (code =? TC_Xor); [eapply (app_list_elem x_xor); [reflexivity | exact Gk | exact H]|].
      dtest (code =? TC_Union); [eapply (app_list_elem x_union); [reflexivity | exact Gk | exact H]|].
      dtest (code =? TC_FiniteSet).
      { destruct (mm_list rec args) eqn:E5; try discriminate. inv H.
        apply wrap_elem; [reflexivity | reflexivity | eapply mm_list_forest; eauto]. }
      dtest (code =? TC_Intersection); [discriminate|].
      dtest (code =? TC_ConditionSet).
      { destruct args as [|sym [|cond [|? ?]]]; try discriminate.
        simpl in Gk. apply andb_prop in Gk. destruct Gk as [Gs Gc]. apply andb_prop in Gc. destruct Gc as [Gc _].
        destruct (rec sym) eqn:Es; try discriminate. destruct (rec cond) eqn:Ecd; try discriminate. inv H.
        pose proof (IHf _ _ Gs Es) as Fs. pose proof (IHf _ _ Gc Ecd) as Fc.
        reshape ([XO x_set []] ++ (([XO x_bvar []] ++ a ++ [XC x_bvar]) ++ ([XO x_condition []] ++ a0 ++ [XC x_condition]) ++ a)
                   ++ [XC x_set]).
        apply wrap_elem; [reflexivity | reflexivity |].
        apply xforest_app; [apply wrap_forest; [reflexivity | reflexivity | exact Fs]|].
        apply xforest_app; [apply wrap_forest; [reflexivity | reflexivity | exact Fc] | exact Fs]. }
      dtest (code =? TC_ImageSet).
      { destruct args as [|sym [|ex [|base [|? ?]]]]; try discriminate.
        simpl in Gk. apply andb_prop in Gk. destruct Gk as [Gs Gk]. apply andb_prop in Gk. destruct Gk as [Gx Gk].
        apply andb_prop in Gk. destruct Gk as [Gb _].
        destruct (rec ex) eqn:Ex; try discriminate. destruct (rec sym) eqn:Es; try discriminate.
        destruct (rec base) eqn:Eb; try discriminate. inv H.
        pose proof (IHf _ _ Gs Es) as Fs. pose proof (IHf _ _ Gx Ex) as Fx. pose proof (IHf _ _ Gb Eb) as Fb.
        reshape ([XO x_set []] ++ (([XO x_bvar []] ++ a ++ [XC x_bvar])
                   ++ ([XO x_condition []] ++ ([XO x_apply []] ++ ([XE x_in] ++ a0 ++ a1) ++ [XC x_apply]) ++ [XC x_condition]) ++ a0)
                   ++ [XC x_set]).
        apply wrap_elem; [reflexivity | reflexivity |].
        apply xforest_app; [apply wrap_forest; [reflexivity | reflexivity | exact Fx]|].
        apply xforest_app; [|exact Fs].
        apply wrap_forest; [reflexivity | reflexivity |].
        apply wrap_forest; [reflexivity | reflexivity |].
        apply xf_empty; [reflexivity | apply xforest_app; assumption]. }
      simpl in Gn. eapply mm_function_elem; eauto.
    - (* EFunSym *)
      destruct (mm_list rec args) eqn:E; try discriminate. inv H.
      pose proof (mm_list_forest _ _ Gk E) as Fa.
      reshape ([XO x_apply []] ++ (([XO x_ci []] ++ xml_escape nm ++ [XC x_ci]) ++ a) ++ [XC x_apply]).
      apply wrap_elem; [reflexivity | reflexivity |].
      apply xforest_app; [apply wrap_forest; [reflexivity | reflexivity | apply xml_escape_forest] | exact Fa].
    - (* ELex *)
      apply andb_prop in Gk. destruct Gk as [G1 G2].
      assert (GL : forallb mm_guard [a; c] = true) by (simpl; unfold mm_guard; rewrite G1, G2; reflexivity).
      dtest (code =? TC_Contains); [eapply (app_list_elem x_in); [reflexivity | exact GL | exact H]|].
      dtest (code =? TC_Complement); [eapply (app_list_elem x_setdiff); [reflexivity | exact GL | exact H]|].
      discriminate.
    - (* EDeriv *)
      apply andb_prop in Gk. destruct Gk as [Ga Gx].
      destruct (mm_list rec xs) eqn:Ex; try discriminate. destruct (rec a) eqn:Ea; try discriminate. inv H.
      pose proof (mm_list_forest _ _ Gx Ex) as Fx. pose proof (IHf _ _ Ga Ea) as Fa.
      reshape ([XO x_apply []] ++ ([XE x_partialdiff] ++ ([XO x_bvar []] ++ a0 ++ [XC x_bvar]) ++ a1) ++ [XC x_apply]).
      apply wrap_elem; [reflexivity | reflexivity |].
      apply xf_empty; [reflexivity|].
      apply xforest_app; [apply wrap_forest; [reflexivity | reflexivity | exact Fx] | exact Fa].
    - (* ESubs *) discriminate.
    - (* EPw *)
      match type of H with
      | match mapM ?f pl with _ => _ end = _ => destruct (mapM f pl) eqn:E; try discriminate
      end.
      inv H. apply wrap_elem; [reflexivity | reflexivity |].
      eapply (mapM_forest _ (fun p => mm_guard (fst p) = true /\ mm_guard (snd p) = true)); [| | exact E].
      + intros p y [G1 G2] Hp. simpl in Hp.
        destruct (mm_list rec [fst p; snd p]) eqn:Ep; try discriminate. inv Hp.
        apply xelement_forest. apply wrap_elem; [reflexivity | reflexivity |].
        eapply mm_list_forest; [|exact Ep]. simpl. rewrite G1, G2. reflexivity.
      + apply Forall_forall. intros q Hq. rewrite forallb_forall in Gk. specialize (Gk q Hq).
        apply andb_prop in Gk. exact Gk.
    - (* EBool *) inv H. apply xe_empty. destruct bv; reflexivity.
    - (* EInterval *)
      apply andb_prop in Gk. destruct Gk as [G1 G2].
      destruct (mm_list rec [s; x]) eqn:E; try discriminate. inv H.
      apply wrap_elem; [reflexivity | destruct lo, ro; reflexivity |].
      eapply mm_list_forest; [|exact E]. simpl. unfold mm_guard. rewrite G1, G2. reflexivity.
    - (* EAtom *) eapply mm_atom_elem; eauto.
  Qed.
End Rec.

Lemma mathml_fuel_elem : forall f e l, mm_guard e = true -> mathml_fuel f e = Ok l -> xelement l.
Proof.
  induction f as [|f IHfuel]; intros e l G H; [discriminate|].
  simpl in H. eapply mm_node_elem; [|exact G|exact H]. exact IHfuel.
Qed.

Theorem mathml_wellformed : forall e l, mm_guard e = true -> mathml_toks e = Ok l -> xelement l.
Proof. intros e l G H. eapply mathml_fuel_elem; eauto. Qed.

(* every function class of the library's name table has a name that is an XML name: on the trees
   the library can build the guard is true *)
Lemma mm_names_ok : forallb (fun q => xml_name_ok (mathml_name (fst q))) str_names = true.
Proof. vm_compute. reflexivity. Qed.
