From SE Require Import C44.C44Spec C44.Coverage C44.TotalProofs.
(* the classes the table marks "throws" / "fallback" do so for EVERY node of the class *)
Theorem C44_throws_by_design :
  (forall rec e, class_ok e = true -> rule_of PMathML (type_code e) = RThrows ->
                 mm_node rec e = ErrExn EXN_SYMENGINE) /\
  (forall rec e, class_ok e = true -> rule_of PUnicode (type_code e) = RFallback ->
                 u_node rec e = ErrExn EXN_FALLBACK).
Proof. split; [exact mathml_throws_by_design | exact unicode_fallback_by_design]. Qed.
Print Assumptions C44_throws_by_design.
