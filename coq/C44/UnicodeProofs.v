(* C44 -- UnicodePrinter: when every Symbol / FunctionSymbol name is ASCII, the StringBox of
   unicode(e) is rectangular (all lines have display width width_). *)
From Coq Require Import List Bool NArith ZArith Lia.
Import ListNotations.
From SE Require Import C44.C44Spec C44.TextProofs C44.BoxProofs.
Local Open Scope N_scope.

Ltac rt H :=
  unfold rthen in H;
  repeat match type of H with
         | match ?r with _ => _ end = Ok _ =>
             lazymatch type of r with
             | res _ => let E := fresh "E" in destruct r eqn:E; try discriminate
             end
         end.

(* ---------------------------------------------------------------- ASCII texts *)
Definition asc (c : N) : bool := c <? 128.
Lemma asc_digit : forall c, 48 <= c -> c <= 57 -> asc c = true.
Proof. intros c H1 H2. unfold asc. apply N.ltb_lt. lia. Qed.
Lemma ascii_dec_Z : forall z, ascii (dec_Z z) = true.
Proof. intro z. apply (chars_dec_Z asc asc_digit); reflexivity. Qed.
Lemma ascii_dec_N : forall n, ascii (dec_N n) = true.
Proof. intro n. apply (chars_dec_N asc asc_digit). Qed.
Lemma ascii_double : forall b, ascii (print_double b) = true.
Proof. intro b. apply (chars_print_double asc asc_digit); reflexivity. Qed.
Lemma ascii_app : forall a b, ascii a = true -> ascii b = true -> ascii (a ++ b) = true.
Proof. intros a b Ha Hb. unfold ascii in *. rewrite forallb_app, Ha, Hb. reflexivity. Qed.

Lemma blen_app : forall a b, blen (a ++ b) = blen a + blen b.
Proof. intros. unfold blen. rewrite app_length. apply Nat2N.inj_add. Qed.

Lemma ascii_u_qi : forall p q, ascii (u_qi p q) = true.
Proof.
  intros p q. unfold u_qi, u_q. destruct q; try apply ascii_dec_Z;
    (apply ascii_app; [apply ascii_dec_Z | apply ascii_app; [reflexivity | apply ascii_dec_N]]).
Qed.

(* an ASCII text followed by the imaginary unit / by the product sign and the imaginary unit *)
Lemma rect_ascii_imag : forall A, ascii A = true -> rect (box_w (A ++ g_imag) (blen (A ++ g_imag) - 3)).
Proof.
  intros A H. apply rect_box_w. rewrite dwidth_app, blen_app, (dwidth_ascii A H).
  change (dwidth g_imag) with 1. change (blen g_imag) with 4. lia.
Qed.
Lemma rect_ascii_dot_imag : forall A, ascii A = true ->
  rect (box_w (A ++ g_dot ++ g_imag) (blen (A ++ g_dot ++ g_imag) - 3 - 2)).
Proof.
  intros A H. apply rect_box_w. rewrite !dwidth_app, !blen_app, (dwidth_ascii A H).
  change (dwidth g_imag) with 1. change (blen g_imag) with 4.
  change (dwidth g_dot) with 1. change (blen g_dot) with 3. lia.
Qed.

Lemma u_complex_rect : forall rn rd imn imd, rect (u_complex rn rd imn imd).
Proof.
  intros. unfold u_complex.
  assert (Hs : forall b : bool, ascii (if b then s_plus else s_minus) = true) by (destruct b; reflexivity).
  destruct (negb (rn =? 0)%Z).
  - destruct (_ && _).
    + rewrite N.sub_0_r. rewrite app_assoc. apply rect_ascii_imag.
      apply ascii_app; [apply ascii_u_qi | apply Hs].
    + rewrite !app_assoc. rewrite <- (app_assoc _ g_dot g_imag). apply rect_ascii_dot_imag.
      apply ascii_app; [apply ascii_app; [apply ascii_u_qi | apply Hs] | apply ascii_u_qi].
  - destruct (_ && _).
    + rewrite N.sub_0_r. destruct (0 <? imn)%Z.
      * apply (rect_ascii_imag []). reflexivity.
      * apply (rect_ascii_imag [45]). reflexivity.
    + apply rect_ascii_dot_imag. apply ascii_u_qi.
Qed.

Lemma unum_rect : forall n, rect (unum n).
Proof.
  destruct n; cbn [unum].
  - apply rect_box_s, ascii_dec_Z.
  - apply add_below_line_rect; apply rect_box_s; [apply ascii_dec_Z | apply ascii_dec_N].
  - apply u_complex_rect.
  - apply rect_box_s, ascii_double.
  - apply rect_box_w. rewrite !dwidth_app.
    assert (Ha : ascii (print_double re ++ (if dbl_negative im then s_minus ++ print_double (dbl_negate im)
                                            else s_plus ++ print_double im)) = true).
    { apply ascii_app; [apply ascii_double|].
      destruct (dbl_negative im); (apply ascii_app; [reflexivity | apply ascii_double]). }
    rewrite <- dwidth_app. rewrite (dwidth_ascii _ Ha).
    change (dwidth g_dot) with 1. change (dwidth g_imag) with 1. lia.
  - destruct (dir <? 0)%Z; [apply rect_box_w; reflexivity|].
    destruct (0 <? dir)%Z; apply rect_box_w; reflexivity.
  - apply rect_box_s. reflexivity.
Qed.

Lemma u_constant_rect : forall nm b, u_constant nm = Ok b -> rect b.
Proof.
  intros nm b H. unfold u_constant in H.
  repeat match type of H with
         | (if ?c then _ else _) = _ => destruct c; [oki H; apply rect_box_w; reflexivity|]
         end.
  discriminate.
Qed.
Lemma u_atom_rect : forall code b, u_atom code = Ok b -> rect b.
Proof.
  intros code b H. unfold u_atom in H.
  repeat match type of H with
         | (if ?c then _ else _) = _ => destruct c; [oki H; apply rect_box_w; reflexivity|]
         end.
  discriminate.
Qed.

Lemma ar1 : forall a o, rect a -> rect o -> rect (fst (add_right a o)).
Proof. intros. apply add_right_rect; assumption. Qed.
Lemma ar2 : forall a o, rect a -> rect o -> rect (snd (add_right a o)).
Proof. intros. apply add_right_rect; assumption. Qed.
Lemma ab1 : forall a o, rect a -> rect o -> rect (fst (add_below a o)).
Proof. intros. apply add_below_rect; assumption. Qed.
Lemma abl1 : forall a o, rect a -> rect o -> rect (fst (add_below_unicode_line a o)).
Proof. intros. apply add_below_line_rect; assumption. Qed.

#[local] Hint Resolve ar1 ar2 ab1 abl1 unum_rect rect_box_e add_power_rect enclose_abs_rect enclose_sqrt_rect : rect.

Lemma tbl_find_prop : forall {A} (P : A -> bool) code (l : list (N * A)) v,
  forallb (fun q => P (snd q)) l = true -> tbl_find code l = Some v -> P v = true.
Proof.
  induction l as [|[c w] l IHl]; intros v F H; cbn [tbl_find] in H; [discriminate|].
  cbn [forallb snd] in F. apply andb_prop in F. destruct F as [F1 F2].
  destruct (c =? code); [inversion H; subst; exact F1 | apply IHl; assumption].
Qed.

Lemma unicode_name_width : forall code, dwidth (fst (unicode_name code)) = snd (unicode_name code).
Proof.
  intro code. unfold unicode_name.
  destruct (tbl_find code unicode_over) as [[nm len]|] eqn:E.
  - apply N.eqb_eq.
    apply (tbl_find_prop (fun w : list N * N => dwidth (fst w) =? snd w) code unicode_over (nm, len));
      [vm_compute; reflexivity | exact E].
  - cbn [fst snd]. apply dwidth_ascii. unfold str_name, name_in. cbn [tbl_find].
    destruct (tbl_find code str_names) as [v|] eqn:E2; [|reflexivity].
    apply (tbl_find_prop ascii code str_names v); [vm_compute; reflexivity | exact E2].
Qed.

Section Rec.
  Variable rec : expr -> res sbox.
  Hypothesis IH : forall e b, unicode_guard e = true -> rec e = Ok b -> rect b.

  Lemma uapp_rect : forall e b, unicode_guard e = true -> uapp rec e = Ok b -> rect b.
  Proof.
    intros e b G H. destruct e; simpl in H; try (eapply IH; eassumption).
    oki H. apply unum_rect.
  Qed.

  Lemma uparen_lt_rect : forall e p b, unicode_guard e = true -> uparen_lt rec e p = Ok b -> rect b.
  Proof.
    intros e p b G H. unfold uparen_lt in H. rt H. pose proof (uapp_rect _ _ G E) as R.
    destruct (precedence e <? p); [eapply enclose_parens_rect; eauto | oki H; exact R].
  Qed.
  Lemma uparen_le_rect : forall e p b, unicode_guard e = true -> uparen_le rec e p = Ok b -> rect b.
  Proof.
    intros e p b G H. unfold uparen_le in H. rt H. pose proof (uapp_rect _ _ G E) as R.
    destruct (precedence e <=? p); [eapply enclose_parens_rect; eauto | oki H; exact R].
  Qed.

  Lemma guard_num : forall n, unicode_guard (ENum n) = true.
  Proof. reflexivity. Qed.

  Lemma u_pow_rect : forall a c b,
    unicode_guard a = true -> unicode_guard c = true -> u_pow rec a c = Ok b -> rect b.
  Proof.
    intros a c b Ga Gc H. unfold u_pow in H. destruct (is_half c).
    - rt H. oki H. apply enclose_sqrt_rect. exact (uapp_rect _ _ Ga E).
    - rt H. oki H. apply add_power_rect; [exact (uparen_le_rect _ _ _ Ga E) | exact (uparen_le_rect _ _ _ Gc E0)].
  Qed.

  Lemma u_join_rect : forall l box sep first r,
    forallb unicode_guard l = true -> rect box -> rect sep ->
    u_join rec box sep first l = Ok r -> rect (fst r) /\ rect (snd r).
  Proof.
    induction l as [|x l IHl]; intros box sep first r G Rb Rs H; simpl in H.
    - oki H. split; assumption.
    - simpl in G. apply andb_prop in G. destruct G as [Gx Gl].
      destruct (if first then (box, sep) else add_right box sep) as [box1 sep1] eqn:Ep.
      assert (R1 : rect box1 /\ rect sep1).
      { destruct first; [inversion Ep; subst; split; assumption|].
        pose proof (add_right_rect box sep Rb Rs) as [? ?]. rewrite Ep in *. split; assumption. }
      destruct R1 as [Rb1 Rs1]. rt H.
      eapply IHl; [exact Gl | | exact Rs1 | exact H].
      apply ar1; [exact Rb1 | exact (uapp_rect _ _ Gx E)].
  Qed.

  Lemma uapp_vec_rect : forall l b, forallb unicode_guard l = true -> uapp_vec rec l = Ok b -> rect b.
  Proof.
    intros l b G H. unfold uapp_vec in H. rt H. oki H.
    eapply (u_join_rect l (box_s []) (box_s s_comma)); [exact G | | | exact E];
      apply rect_box_s; reflexivity.
  Qed.

  Lemma u_infix_rect : forall op l b,
    rect op -> forallb unicode_guard l = true -> u_infix rec op l = Ok b -> rect b.
  Proof.
    intros op l b Ro G H. unfold u_infix in H. destruct l as [|x l]; [discriminate|].
    simpl in G. apply andb_prop in G. destruct G as [Gx Gl]. rt H. oki H.
    eapply (u_join_rect l); [exact Gl | exact (uapp_rect _ _ Gx E) | exact Ro | exact E0].
  Qed.

  Lemma u_bin_rect : forall op a c b,
    rect op -> unicode_guard a = true -> unicode_guard c = true -> u_bin rec op a c = Ok b -> rect b.
  Proof.
    intros op a c b Ro Ga Gc H. unfold u_bin in H. rt H. oki H.
    apply ar1; [apply ar1; [exact (uapp_rect _ _ Ga E) | exact Ro] | exact (uapp_rect _ _ Gc E0)].
  Qed.

  Lemma u_add_term_rect : forall k v (minus : bool) r,
    unicode_guard k = true ->
    (if num_is v 1 then rthen (uparen_lt rec k PREC_Add) (fun t => Ok (t, minus))
     else if num_is v (-1) then rthen (uparen_lt rec k PREC_Mul) (fun t => Ok (t, true))
     else
       rthen (uparen_lt rec (ENum v) PREC_Mul) (fun t0 =>
       rthen (uparen_lt rec k PREC_Mul) (fun rhs =>
         Ok (fst (add_right (fst (add_right t0 mulbox0)) rhs),
             if num_is_negative v then true else minus)))) = Ok r -> rect (fst r).
  Proof.
    intros k v minus r Gk H.
    destruct (num_is v 1).
    - rt H. apply Ok_inj' in H. rewrite <- H. cbn [fst]. exact (uparen_lt_rect _ _ _ Gk E).
    - destruct (num_is v (-1)).
      + rt H. apply Ok_inj' in H. rewrite <- H. cbn [fst]. exact (uparen_lt_rect _ _ _ Gk E).
      + rt H. apply Ok_inj' in H. rewrite <- H. cbn [fst].
        apply ar1; [apply ar1; [exact (uparen_lt_rect _ _ _ (guard_num v) E) | apply rect_box_w; reflexivity]
                   | exact (uparen_lt_rect _ _ _ Gk E0)].
  Qed.

  Lemma u_add_terms_rect : forall d box first minus b,
    forallb (fun p => unicode_guard (fst p)) d = true -> rect box ->
    u_add_terms rec box first minus d = Ok b -> rect b.
  Proof.
    induction d as [|[k v] d IHd]; intros box first minus b G Rb H; cbn [u_add_terms] in H.
    - oki H. exact Rb.
    - cbn [forallb fst] in G. apply andb_prop in G. destruct G as [Gk Gd].
      unfold rthen in H at 1.
      match type of H with
      | match ?r with _ => _ end = _ => destruct r as [[t minus1]| | |] eqn:Et; try discriminate
      end.
      pose proof (u_add_term_rect _ _ _ _ Gk Et) as Rt. cbn [fst] in Rt.
      assert (Rm : rect (box_s s_minus)) by (apply rect_box_s; reflexivity).
      assert (Rp : rect (box_s s_plus)) by (apply rect_box_s; reflexivity).
      destruct (negb first); [destruct minus1|]; (eapply IHd; [exact Gd | | exact H]); auto with rect.
  Qed.

  Lemma pmap_insert_uguard : forall k v m,
    unicode_guard k = true -> forallb (fun p => unicode_guard (fst p)) m = true ->
    forallb (fun p => unicode_guard (fst p)) (pmap_insert k v m) = true.
  Proof.
    induction m as [|[k' v'] m IHm]; intros Gk Gm; simpl.
    - rewrite Gk. reflexivity.
    - simpl in Gm. apply andb_prop in Gm. destruct Gm as [G1 G2].
      destruct (printer_lt k' k); simpl.
      + rewrite G1. simpl. apply IHm; assumption.
      + destruct (printer_lt k k'); simpl; rewrite ?Gk, ?G1, ?G2; reflexivity.
  Qed.
  Lemma pmap_of_uguard : forall d,
    forallb (fun p => unicode_guard (fst p)) d = true ->
    forallb (fun p => unicode_guard (fst p)) (pmap_of d) = true.
  Proof.
    intros d G. unfold pmap_of.
    assert (forall m, forallb (fun p => unicode_guard (fst p)) m = true ->
                      forallb (fun p => unicode_guard (fst p))
                        (fold_left (fun m p => pmap_insert (fst p) (snd p) m) d m) = true) as Hgen.
    { induction d as [|[k v] d IHd]; intros m Gm; simpl; [exact Gm|].
      simpl in G. apply andb_prop in G. destruct G as [Gk Gd].
      apply IHd; [exact Gd|]. apply pmap_insert_uguard; assumption. }
    apply Hgen. reflexivity.
  Qed.

  Lemma u_add_rect : forall c d b,
    forallb (fun p => unicode_guard (fst p)) d = true -> u_add rec c d = Ok b -> rect b.
  Proof.
    intros c d b G H. unfold u_add in H. pose proof (pmap_of_uguard _ G) as Gs.
    destruct (negb (num_is c 0)); (eapply u_add_terms_rect; [exact Gs | | exact H]); auto with rect.
  Qed.

  Lemma u_mul_factors_rect : forall d box1 box2 mb f1 f2 num den box1' box2' mb' num' den',
    forallb (fun q => unicode_guard (fst q) && unicode_guard (snd q)) d = true ->
    rect box1 -> rect box2 -> rect mb ->
    u_mul_factors rec d box1 box2 mb f1 f2 num den = Ok (box1', box2', mb', num', den') ->
    rect box1' /\ rect box2' /\ rect mb'.
  Proof.
    induction d as [|[b x] d IHd]; intros box1 box2 mb f1 f2 num den box1' box2' mb' num' den' G R1 R2 Rm H;
      cbn [u_mul_factors] in H.
    - inv H. auto.
    - cbn [forallb fst snd] in G. apply andb_prop in G. destruct G as [Gbx Gd]. apply andb_prop in Gbx. destruct Gbx as [Gb Gx].
      destruct (neg_rational_exp x) as [nx|].
      + destruct (if negb f2 then add_right box2 mb else (box2, mb)) as [box2a mb1] eqn:Ep.
        assert (Ra : rect box2a /\ rect mb1).
        { destruct (negb f2); [|inversion Ep; subst; split; assumption].
          pose proof (add_right_rect box2 mb R2 Rm) as [? ?]. rewrite Ep in *. split; assumption. }
        destruct Ra as [Ra Rm1]. rt H.
        assert (rect a).
        { destruct (num_is nx 1); [exact (uparen_lt_rect _ _ _ Gb E) | exact (u_pow_rect _ _ _ Gb (guard_num nx) E)]. }
        eapply IHd; [exact Gd | exact R1 | | exact Rm1 | exact H]. auto with rect.
      + destruct (if negb f1 then add_right box1 mb else (box1, mb)) as [box1a mb1] eqn:Ep.
        assert (Ra : rect box1a /\ rect mb1).
        { destruct (negb f1); [|inversion Ep; subst; split; assumption].
          pose proof (add_right_rect box1 mb R1 Rm) as [? ?]. rewrite Ep in *. split; assumption. }
        destruct Ra as [Ra Rm1]. rt H.
        assert (rect a).
        { destruct (is_num_int x 1); [exact (uparen_lt_rect _ _ _ Gb E) | exact (u_pow_rect _ _ _ Gb Gx E)]. }
        eapply IHd; [exact Gd | | exact R2 | exact Rm1 | exact H]. auto with rect.
  Qed.

  Lemma u_mul_rect : forall c d b,
    forallb (fun q => unicode_guard (fst q) && unicode_guard (snd q)) d = true ->
    u_mul rec c d = Ok b -> rect b.
  Proof.
    intros c d b G H. unfold u_mul in H.
    match type of H with
    | rthen ?init _ = _ =>
        assert (Hinit : forall b1 b2 f1 f2 num0 den0, init = Ok (b1, b2, f1, f2, num0, den0) -> rect b1 /\ rect b2)
    end.
    { intros b1 b2 f1 f2 num0 den0 Hi.
      destruct (num_is c (-1)).
      { inv Hi. split; [apply rect_box_s; reflexivity | apply rect_box_e]. }
      destruct (negb (num_is c 1)); [|inv Hi; split; apply rect_box_e].
      destruct (coef_numer_denom c) as [numer denom].
      match type of Hi with rthen ?x _ = _ => destruct x as [[[bb1 ff1] nn]| | |] eqn:E1; try discriminate end.
      cbn [rthen] in Hi.
      match type of Hi with rthen ?x _ = _ => destruct x as [[[bb2 ff2] dd]| | |] eqn:E2; try discriminate end.
      cbn [rthen] in Hi. inversion Hi; subst.
      split.
      - destruct (negb (num_is numer 1)).
        + rt E1. inversion E1; subst. exact (uparen_lt_rect _ _ _ (guard_num numer) E).
        + inversion E1; subst. apply rect_box_e.
      - destruct (negb (num_is denom 1)).
        + rt E2. inversion E2; subst. exact (uparen_lt_rect _ _ _ (guard_num denom) E).
        + inversion E2; subst. apply rect_box_e. }
    match type of H with
    | rthen ?init _ = _ => destruct init as [[[[[[b1 b2] f1] f2] num0] den0]| | |] eqn:Ei; try discriminate
    end.
    destruct (Hinit _ _ _ _ _ _ eq_refl) as [R1 R2]. clear Hinit. cbn [rthen] in H.
    destruct (u_mul_factors rec d b1 b2 mulbox0 f1 f2 num0 den0) as [[[[[box1 box2] mb] num] den]| | |] eqn:Em;
      try discriminate.
    cbn [rthen] in H.
    assert (Rm0 : rect mulbox0) by (apply rect_box_w; reflexivity).
    destruct (u_mul_factors_rect _ _ _ _ _ _ _ _ _ _ _ _ _ G R1 R2 Rm0 Em) as (Rb1 & Rb2 & Rmb).
    assert (Rb1' : rect (if num then box1 else fst (add_right (fst (add_right box1 (box_s [49]))) mb))).
    { destruct num; [exact Rb1|]. apply ar1; [apply ar1; [exact Rb1 | apply rect_box_s; reflexivity] | exact Rmb]. }
    destruct den as [|[|den]].
    - oki H. exact Rb1'.
    - oki H. apply abl1; assumption.
    - rt H. oki H. apply abl1; [exact Rb1' | exact (enclose_parens_rect _ _ Rb2 E)].
  Qed.

  Lemma u_function_rect : forall code args b,
    forallb unicode_guard args = true -> u_function rec code args = Ok b -> rect b.
  Proof.
    intros code args b G H. unfold u_function in H.
    assert (Rn : rect (box_w (fst (unicode_name code)) (snd (unicode_name code)))).
    { apply rect_box_w. apply unicode_name_width. }
    destruct (unicode_name code) as [nm len]. rt H. oki H.
    apply ar1; [exact Rn | eapply enclose_parens_rect; [eapply uapp_vec_rect; eauto | eauto]].
  Qed.

  Lemma u_node_rect : forall e b, unicode_guard e = true -> u_node rec e = Ok b -> rect b.
  Proof.
    intros e b G H. unfold unicode_guard in G.
    destruct e as [n|nm|nm idx|nm|c d|c d|bs x|code a|code a c|code args|nm args|code a c|a xs|a d|pl|bv|s x lo ro|code];
      cbn [all_nodes] in G; apply andb_prop in G; destruct G as [Gn Gk]; cbn [u_node] in H.
    - oki H. apply unum_rect.
    - oki H. apply rect_box_s. exact Gn.
    - oki H. apply rect_box_s. exact Gn.
    - eapply u_constant_rect; eauto.
    - eapply u_add_rect; eauto.
    - eapply u_mul_rect; eauto.
    - apply andb_prop in Gk. destruct Gk as [G1 G2]. exact (u_pow_rect _ _ _ G1 G2 H).
    - (* EF1 *)
      destruct (code =? TC_Not).
      { rt H. oki H. apply ar1; [apply rect_box_w; reflexivity|].
        eapply enclose_parens_rect; [eapply uapp_rect; eauto | eauto]. }
      destruct (code =? TC_Abs); [rt H; oki H; apply enclose_abs_rect; eapply uapp_rect; eauto|].
      destruct (code =? TC_Floor); [rt H; eapply enclose_floor_rect; [eapply uapp_rect; eauto | eauto]|].
      destruct (code =? TC_Ceiling); [rt H; eapply enclose_ceiling_rect; [eapply uapp_rect; eauto | eauto]|].
      eapply u_function_rect; [|exact H]. simpl. unfold unicode_guard. rewrite Gk. reflexivity.
    - (* EF2 *)
      apply andb_prop in Gk. destruct Gk as [G1 G2].
      destruct (code =? TC_Equality); [eapply (u_bin_rect _ a c); [ | exact G1 | exact G2 | exact H]; first [apply rect_box_s; reflexivity | apply rect_box_w; reflexivity]|].
      destruct (code =? TC_Unequality); [eapply (u_bin_rect _ a c); [ | exact G1 | exact G2 | exact H]; first [apply rect_box_s; reflexivity | apply rect_box_w; reflexivity]|].
      destruct (code =? TC_LessThan); [eapply (u_bin_rect _ a c); [ | exact G1 | exact G2 | exact H]; first [apply rect_box_s; reflexivity | apply rect_box_w; reflexivity]|].
      destruct (code =? TC_StrictLessThan); [eapply (u_bin_rect _ a c); [ | exact G1 | exact G2 | exact H]; first [apply rect_box_s; reflexivity | apply rect_box_w; reflexivity]|].
      eapply u_function_rect; [|exact H]. simpl. unfold unicode_guard. rewrite G1, G2. reflexivity.
    - (* EFN *)
      destruct (code =? TC_And); [eapply u_infix_rect; [ | exact Gk | exact H]; apply rect_box_w; reflexivity|].
      destruct (code =? TC_Or); [eapply u_infix_rect; [ | exact Gk | exact H]; apply rect_box_w; reflexivity|].
      destruct (code =? TC_Xor); [eapply u_infix_rect; [ | exact Gk | exact H]; apply rect_box_w; reflexivity|].
      destruct (code =? TC_Union); [eapply u_infix_rect; [ | exact Gk | exact H]; apply rect_box_w; reflexivity|].
      destruct (code =? TC_Intersection); [eapply u_infix_rect; [ | exact Gk | exact H]; apply rect_box_w; reflexivity|].
      destruct (code =? TC_FiniteSet).
      { rt H. eapply enclose_curlies_rect; [|exact H].
        eapply (u_join_rect args box_e (box_s s_comma)); [exact Gk | apply rect_box_e | apply rect_box_s; reflexivity | exact E]. }
      destruct (code =? TC_ConditionSet).
      { destruct args as [|sym [|cond [|? ?]]]; try discriminate.
        simpl in Gk. apply andb_prop in Gk. destruct Gk as [Gs Gc]. apply andb_prop in Gc. destruct Gc as [Gc _].
        rt H. eapply enclose_curlies_rect; [|exact H].
        eapply (u_bin_rect _ sym cond); [ | exact Gs | exact Gc | exact E]; first [apply rect_box_s; reflexivity | apply rect_box_w; reflexivity]. }
      destruct (code =? TC_ImageSet).
      { destruct args as [|sym [|ex [|base [|? ?]]]]; try discriminate.
        simpl in Gk. apply andb_prop in Gk. destruct Gk as [Gs Gk]. apply andb_prop in Gk. destruct Gk as [Gx Gk].
        apply andb_prop in Gk. destruct Gk as [Gb _].
        rt H. eapply enclose_curlies_rect; [|exact H].
        apply ar1; [apply ar1; [|apply rect_box_w; reflexivity] | eapply uapp_rect; eauto].
        eapply (u_bin_rect _ ex sym); [ | exact Gx | exact Gs | exact E]; first [apply rect_box_s; reflexivity | apply rect_box_w; reflexivity]. }
      eapply u_function_rect; eauto.
    - (* EFunSym *)
      rt H. oki H. apply ar1; [apply rect_box_s; exact Gn|].
      eapply enclose_parens_rect; [|exact E0].
      eapply (u_join_rect args (box_s []) (box_s s_comma)); [exact Gk | | | exact E]; apply rect_box_s; reflexivity.
    - (* ELex *)
      apply andb_prop in Gk. destruct Gk as [G1 G2].
      destruct (code =? TC_Contains); [eapply (u_bin_rect _ a c); [ | exact G1 | exact G2 | exact H]; first [apply rect_box_s; reflexivity | apply rect_box_w; reflexivity]|].
      destruct (code =? TC_Complement); [|discriminate].
      eapply (u_bin_rect _ a c); [ | exact G1 | exact G2 | exact H]; first [apply rect_box_s; reflexivity | apply rect_box_w; reflexivity].
    - discriminate.
    - discriminate.
    - (* EPw *)
      destruct pl as [|p0 pl0]; [discriminate|]. rt H.
      eapply curly_side_rect; [|exact H]. clear H Gn.
      assert (Hp : forall l box r,
                forallb (fun q => all_nodes unicode_node_ok (fst q) && all_nodes unicode_node_ok (snd q)) l = true ->
                rect box ->
                (fix pieces (box : sbox) (l : list (expr * expr)) {struct l} : res sbox :=
                   match l with
                   | [] => Ok box
                   | (x, c) :: r => rthen (u_bin rec (box_s s_if) x c) (fun piece => pieces (fst (add_below box piece)) r)
                   end) box l = Ok r -> rect r).
      { induction l as [|[x0 c0] l IHl]; intros box r G Rb Hr; simpl in Hr.
        - oki Hr. exact Rb.
        - simpl in G. apply andb_prop in G. destruct G as [Gxc Gl]. apply andb_prop in Gxc. destruct Gxc as [Gx0 Gc0].
          unfold rthen in Hr at 1. destruct (u_bin rec (box_s s_if) x0 c0) eqn:Eb; try discriminate.
          eapply IHl; [exact Gl | | exact Hr]. apply ab1; [exact Rb|].
          eapply (u_bin_rect _ x0 c0); [ | exact Gx0 | exact Gc0 | exact Eb]; first [apply rect_box_s; reflexivity | apply rect_box_w; reflexivity]. }
      eapply Hp; [exact Gk | apply rect_box_e | exact E].
    - oki H. apply rect_box_s. destruct bv; reflexivity.
    - (* EInterval *)
      apply andb_prop in Gk. destruct Gk as [G1 G2]. rt H.
      assert (R0 : rect a) by (eapply (u_bin_rect _ s x); [ | exact G1 | exact G2 | exact E]; first [apply rect_box_s; reflexivity | apply rect_box_w; reflexivity]).
      assert (R1 : rect a0) by (destruct lo; [exact (add_left_parens_rect _ _ R0 E0) | exact (add_left_sq_rect _ _ R0 E0)]).
      destruct ro; [exact (add_right_parens_rect _ _ R1 H) | exact (add_right_sq_rect _ _ R1 H)].
    - eapply u_atom_rect; eauto.
  Qed.
End Rec.

Lemma ubox_fuel_rect : forall f e b, unicode_guard e = true -> ubox_fuel f e = Ok b -> rect b.
Proof.
  induction f as [|f IHfuel]; intros e b G H; [discriminate|].
  simpl in H. eapply u_node_rect; [|exact G|exact H]. exact IHfuel.
Qed.

Theorem unicode_rect : forall e b, unicode_guard e = true -> unicode_box e = Ok b -> rect b.
Proof. intros e b G H. eapply ubox_fuel_rect; eauto. Qed.

Lemma rect_b_iff : forall b, rect_b b = true <-> rect b.
Proof.
  intro b. unfold rect_b, rect. rewrite forallb_forall, Forall_forall.
  split; intros H l Hl; specialize (H l Hl); [apply N.eqb_eq | apply N.eqb_eq]; exact H.
Qed.

(* a Symbol with a non-ASCII name: StringBox(std::string) takes the byte length as width *)
Definition alpha_over_y : expr :=
  EMul (NInt 1) [(ESym [121], ENum (NInt (-1))); (ESym [206; 177], ENum (NInt 1))].
Theorem unicode_rect_refuted :
  exists b, unicode_box alpha_over_y = Ok b /\ ~ rect b /\ unicode_guard alpha_over_y = false.
Proof.
  eexists. split; [vm_compute; reflexivity|]. split; [|reflexivity].
  intro H. apply rect_b_iff in H. vm_compute in H. discriminate.
Qed.
