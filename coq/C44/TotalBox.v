(* C44 -- totality of the UnicodePrinter model: on every tree of the classes with a rule the printer
   returns a box with at least one line -- in particular no StringBox operation indexes an empty
   line vector (ErrOOB, the abort that FunctionSymbol without arguments used to hit) and the fuel
   suffices. *)
From Coq Require Import List Bool NArith ZArith Lia.
Import ListNotations.
From SE Require Import C44.C44Spec C44.TotalFuel C44.TotalStr.
Local Open Scope N_scope.

Definition pos (b : sbox) : Prop := lines b <> [].

Definition u_node_sup (e : expr) : bool :=
  match e with
  | EConst nm => known_constant nm
  | EAdd c d => negb (num_is c 0) || negb (Nat.eqb (length d) 0)
  | EFN code l =>
      (if (code =? TC_And) || (code =? TC_Or) || (code =? TC_Xor) || (code =? TC_Union)
          || (code =? TC_Intersection) || (code =? TC_FiniteSet)
       then negb (Nat.eqb (length l) 0) else true)
      && (if code =? TC_ConditionSet then Nat.eqb (length l) 2 else true)
      && (if code =? TC_ImageSet then Nat.eqb (length l) 3 else true)
  | ELex code _ _ => (code =? TC_Contains) || (code =? TC_Complement)
  | EDeriv _ _ | ESubs _ _ => false
  | EPw l => negb (Nat.eqb (length l) 0)
  | EAtom code =>
      (code =? TC_Complexes) || (code =? TC_Reals) || (code =? TC_Rationals) || (code =? TC_Integers)
      || (code =? TC_Naturals) || (code =? TC_Naturals0) || (code =? TC_EmptySet) || (code =? TC_UniversalSet)
  | _ => true
  end.
Definition u_supported (e : expr) : bool := all_nodes u_node_sup e.

Lemma u_sup_node : forall e, u_supported e = true -> u_node_sup e = true.
Proof. intros e H. unfold u_supported in H. destruct e; cbn [all_nodes] in H; apply andb_prop in H; apply H. Qed.

(* ---------------------------------------------------------------- line counts *)
Lemma zip_app_length : forall x y, length (zip_app x y) = Nat.min (length x) (length y).
Proof. induction x as [|l x IH]; destruct y as [|m y]; simpl; auto. Qed.

Lemma pos_length : forall b, pos b <-> (0 < length (lines b))%nat.
Proof. intro b. unfold pos. destruct (lines b); simpl; split; intro H; try lia; try congruence; try discriminate. Qed.

Lemma add_right_lines : forall a o,
  length (lines (fst (add_right a o))) = Nat.max (length (lines a)) (length (lines o)).
Proof.
  intros a o. unfold add_right.
  set (ts := length (lines a)). set (os := length (lines o)).
  set (diff := (Nat.max os ts - Nat.min os ts)%nat).
  assert (Hd : (Nat.div diff 2 + Nat.modulo diff 2 + Nat.div diff 2 = diff)%nat).
  { pose proof (Nat.div_mod diff 2). lia. }
  destruct (Nat.ltb ts os) eqn:E; cbn [fst lines]; rewrite zip_app_length; cbn [lines];
    rewrite ?app_length, ?repeat_length; fold ts os.
  - apply Nat.ltb_lt in E. unfold diff in *. lia.
  - apply Nat.ltb_ge in E. unfold diff in *. lia.
Qed.

Lemma pos_add_right : forall a o, pos a \/ pos o -> pos (fst (add_right a o)).
Proof. intros a o H. rewrite pos_length in *. rewrite add_right_lines. rewrite !pos_length in H. lia. Qed.

Lemma pos_add_below : forall a o, pos a \/ pos o -> pos (fst (add_below a o)).
Proof.
  intros a o H. rewrite pos_length. rewrite !pos_length in H. unfold add_below, pad_lines.
  destruct (width a <? width o); [|destruct (width o <? width a)]; cbn [fst lines];
    rewrite app_length, ?map_length; lia.
Qed.
Lemma pos_add_below_line : forall a o, pos (fst (add_below_unicode_line a o)).
Proof.
  intros a o. unfold add_below_unicode_line. apply pos_add_below. left. apply pos_add_below. right.
  unfold pos, box_w. simpl. discriminate.
Qed.
Lemma pos_add_power : forall a o, pos a \/ pos o -> pos (add_power a o).
Proof.
  intros a o H. rewrite pos_length. rewrite !pos_length in H. unfold add_power. cbn [lines].
  rewrite app_length, rev_length, !map_length. lia.
Qed.
Lemma pos_enclose_abs : forall b, pos b -> pos (enclose_abs b).
Proof. intros b H. rewrite pos_length in *. unfold enclose_abs. cbn [lines]. rewrite map_length. exact H. Qed.
Lemma pos_enclose_sqrt : forall b, pos (enclose_sqrt b).
Proof. intro b. unfold pos, enclose_sqrt. cbn [lines]. discriminate. Qed.
Lemma pos_box_s : forall s, pos (box_s s).
Proof. intro. unfold pos, box_s. simpl. discriminate. Qed.
Lemma pos_box_w : forall s w, pos (box_w s w).
Proof. intros. unfold pos, box_w. simpl. discriminate. Qed.

Lemma bracket_side_total : forall put one top mid bot b, pos b ->
  exists b', bracket_side put one top mid bot b = Ok b' /\ pos b'.
Proof.
  intros put one top mid bot b H. unfold bracket_side, pos in *.
  destruct (lines b) as [|l [|l2 ls]]; [congruence | |]; eexists; (split; [reflexivity|]); cbn [lines]; try discriminate.
  unfold deco3. destruct (rev (l2 :: ls)); discriminate.
Qed.
Lemma enclose_parens_total : forall b, pos b -> exists b', enclose_parens b = Ok b' /\ pos b'.
Proof.
  intros b H. unfold enclose_parens.
  destruct (bracket_side_total put_left [40] g_lp_top g_lp_mid g_lp_bot b H) as (b1 & E1 & P1).
  unfold add_left_parens. rewrite E1. cbn [rthen]. apply bracket_side_total. exact P1.
Qed.
Lemma curly_side_total : forall left b, pos b -> exists b', curly_side left b = Ok b' /\ pos b'.
Proof.
  intros left b H. unfold curly_side, pos in *.
  destruct (lines b) as [|l0 [|l1 [|l2 ls]]]; [congruence | | |].
  - eexists; split; [reflexivity | cbn [lines]; discriminate].
  - eexists; split; [reflexivity | cbn [lines]; discriminate].
  - destruct (rev (l1 :: l2 :: ls)) as [|last rmid] eqn:E.
    + apply (f_equal (@length _)) in E. rewrite rev_length in E. simpl in E. discriminate.
    + eexists; split; [reflexivity | cbn [lines]; discriminate].
Qed.
Lemma enclose_curlies_total : forall b, pos b -> exists b', enclose_curlies b = Ok b' /\ pos b'.
Proof.
  intros b H. unfold enclose_curlies. destruct (curly_side_total true b H) as (b1 & E1 & P1).
  unfold add_left_curly. rewrite E1. cbn [rthen]. apply curly_side_total. exact P1.
Qed.
Lemma enclose_floor_total : forall b, pos b -> exists b', enclose_floor b = Ok b' /\ pos b'.
Proof.
  intros b H. unfold enclose_floor, pos in *. destruct (rev (lines b)) as [|last rinit] eqn:E.
  - apply (f_equal (@length _)) in E. rewrite rev_length in E. destruct (lines b); [congruence | discriminate].
  - eexists; split; [reflexivity|]. cbn [lines]. destruct (List.map _ (rev rinit)); discriminate.
Qed.
Lemma enclose_ceiling_total : forall b, pos b -> exists b', enclose_ceiling b = Ok b' /\ pos b'.
Proof.
  intros b H. unfold enclose_ceiling, pos in *. destruct (lines b); [congruence|].
  eexists; split; [reflexivity | cbn [lines]; discriminate].
Qed.

Lemma pos_unum : forall n, pos (unum n).
Proof.
  destruct n; cbn [unum]; try apply pos_box_s; try apply pos_box_w.
  - apply pos_add_below_line.
  - unfold u_complex. destruct (if negb (rn =? 0)%Z then _ else _) as [s m]. apply pos_box_w.
  - destruct (dir <? 0)%Z; [apply pos_box_w|]. destruct (0 <? dir)%Z; apply pos_box_w.
Qed.

Ltac ustep H := let s := fresh "b" in let Hs := fresh "Hb" in let Hp := fresh "Pb" in
  destruct H as (s & Hs & Hp); rewrite Hs; cbn [rthen].

Section Rec.
  Variable rec : expr -> res sbox.
  Variable bound : nat.
  Hypothesis Hrec : forall x, (size x < bound)%nat -> u_supported x = true -> exists b, rec x = Ok b /\ pos b.

  Definition usmall (x : expr) : Prop := (exists n, x = ENum n) \/ ((size x < bound)%nat /\ u_supported x = true).
  Lemma usmall_num : forall n, usmall (ENum n).
  Proof. intro n. left. exists n. reflexivity. Qed.

  Lemma uapp_total : forall x, usmall x -> exists b, uapp rec x = Ok b /\ pos b.
  Proof.
    intros x [[n ->]|[S G]]; [simpl; eexists; split; [reflexivity | apply pos_unum]|].
    destruct x; simpl; try (apply Hrec; assumption). eexists; split; [reflexivity | apply pos_unum].
  Qed.

  Lemma uparen_lt_total : forall x p, usmall x -> exists b, uparen_lt rec x p = Ok b /\ pos b.
  Proof.
    intros x p H. unfold uparen_lt. ustep (uapp_total x H).
    destruct (precedence x <? p); [apply enclose_parens_total; exact Pb | eexists; split; [reflexivity | exact Pb]].
  Qed.
  Lemma uparen_le_total : forall x p, usmall x -> exists b, uparen_le rec x p = Ok b /\ pos b.
  Proof.
    intros x p H. unfold uparen_le. ustep (uapp_total x H).
    destruct (precedence x <=? p); [apply enclose_parens_total; exact Pb | eexists; split; [reflexivity | exact Pb]].
  Qed.

  Lemma u_pow_total : forall a c, usmall a -> usmall c -> exists b, u_pow rec a c = Ok b /\ pos b.
  Proof.
    intros a c Ha Hc. unfold u_pow. destruct (is_half c).
    - ustep (uapp_total a Ha). eexists; split; [reflexivity | apply pos_enclose_sqrt].
    - ustep (uparen_le_total a PREC_Pow Ha). ustep (uparen_le_total c PREC_Pow Hc).
      eexists; split; [reflexivity | apply pos_add_power; left; assumption].
  Qed.

  Lemma u_join_total : forall l box sep first,
    (forall x, In x l -> usmall x) ->
    exists r, u_join rec box sep first l = Ok r /\ (pos box \/ l <> [] -> pos (fst r)).
  Proof.
    induction l as [|x l IH]; intros box sep first H; cbn [u_join].
    - eexists; split; [reflexivity|]. cbn [fst]. intros [P|P]; [exact P | congruence].
    - destruct (if first then (box, sep) else add_right box sep) as [box1 sep1] eqn:Ep.
      ustep (uapp_total x (H x (or_introl eq_refl))).
      destruct (IH (fst (add_right box1 b)) sep1 false (fun y Hy => H y (or_intror Hy))) as (r & Hr & Pr).
      exists r. split; [exact Hr|]. intros _. apply Pr. left. apply pos_add_right. right. exact Pb.
  Qed.

  Lemma uapp_vec_total : forall l, (forall x, In x l -> usmall x) -> exists b, uapp_vec rec l = Ok b /\ pos b.
  Proof.
    intros l H. unfold uapp_vec.
    destruct (u_join_total l (box_s []) (box_s s_comma) true H) as (r & Hr & Pr).
    rewrite Hr. cbn [rthen]. eexists; split; [reflexivity|]. apply Pr. left. apply pos_box_s.
  Qed.

  Lemma u_infix_total : forall op l, l <> [] -> (forall x, In x l -> usmall x) ->
    exists b, u_infix rec op l = Ok b /\ pos b.
  Proof.
    intros op l Hne H. unfold u_infix. destruct l as [|x l]; [congruence|].
    ustep (uapp_total x (H x (or_introl eq_refl))).
    destruct (u_join_total l b op false (fun y Hy => H y (or_intror Hy))) as (r & Hr & Pr).
    rewrite Hr. cbn [rthen]. eexists; split; [reflexivity|]. apply Pr. left. exact Pb.
  Qed.

  Lemma u_bin_total : forall op a c, usmall a -> usmall c -> exists b, u_bin rec op a c = Ok b /\ pos b.
  Proof.
    intros op a c Ha Hc. unfold u_bin. ustep (uapp_total a Ha). ustep (uapp_total c Hc).
    eexists; split; [reflexivity|]. apply pos_add_right. right. assumption.
  Qed.

  Lemma u_add_terms_total : forall d box first minus,
    (forall p, In p d -> usmall (fst p)) ->
    exists b, u_add_terms rec box first minus d = Ok b /\ (pos box \/ d <> [] -> pos b).
  Proof.
    induction d as [|[k v] d IH]; intros box first minus H; cbn [u_add_terms].
    - eexists; split; [reflexivity|]. intros [P|P]; [exact P | congruence].
    - pose proof (H (k, v) (or_introl eq_refl)) as Hk. cbn [fst] in Hk.
      assert (Ht : exists tm, (if num_is v 1 then rthen (uparen_lt rec k PREC_Add) (fun t => Ok (t, minus))
                 else if num_is v (-1) then rthen (uparen_lt rec k PREC_Mul) (fun t => Ok (t, true))
                 else rthen (uparen_lt rec (ENum v) PREC_Mul) (fun t0 =>
                      rthen (uparen_lt rec k PREC_Mul) (fun rhs =>
                        Ok (fst (add_right (fst (add_right t0 mulbox0)) rhs),
                            if num_is_negative v then true else minus)))) = Ok tm /\ pos (fst tm)).
      { destruct (num_is v 1); [ustep (uparen_lt_total k PREC_Add Hk); eexists; split; [reflexivity | exact Pb]|].
        destruct (num_is v (-1)); [ustep (uparen_lt_total k PREC_Mul Hk); eexists; split; [reflexivity | exact Pb]|].
        ustep (uparen_lt_total (ENum v) PREC_Mul (usmall_num v)). ustep (uparen_lt_total k PREC_Mul Hk).
        eexists; split; [reflexivity|]. cbn [fst]. apply pos_add_right. right. assumption. }
      destruct Ht as ([t minus1] & Ht & Pt). rewrite Ht. cbn [rthen fst] in *.
      assert (Hd : forall p, In p d -> usmall (fst p)) by (intros p Hp; apply H; right; exact Hp).
      destruct (negb first); [destruct minus1|];
        match goal with
        | |- exists b, u_add_terms rec ?bx ?f ?m d = Ok b /\ _ =>
            destruct (IH bx f m Hd) as (r & Hr & Pr); exists r; split; [exact Hr|];
            intros _; apply Pr; left; apply pos_add_right; right; exact Pt
        end.
  Qed.

  Lemma u_mul_factors_total : forall d box1 box2 mb f1 f2 num den,
    (forall p, In p d -> usmall (fst p) /\ usmall (snd p)) ->
    (num = true -> pos box1) -> ((0 < den)%nat -> pos box2) ->
    exists box1' box2' mb' num' den',
      u_mul_factors rec d box1 box2 mb f1 f2 num den = Ok (box1', box2', mb', num', den') /\
      (num' = true -> pos box1') /\ ((0 < den')%nat -> pos box2').
  Proof.
    induction d as [|[b x] d IH]; intros box1 box2 mb f1 f2 num den H I1 I2; cbn [u_mul_factors].
    - do 5 eexists. split; [reflexivity|]. split; assumption.
    - destruct (H (b, x) (or_introl eq_refl)) as [Hb Hx]. cbn [fst snd] in Hb, Hx.
      assert (Hd : forall p, In p d -> usmall (fst p) /\ usmall (snd p)) by (intros p Hp; apply H; right; exact Hp).
      destruct (neg_rational_exp x) as [nx|].
      + destruct (if negb f2 then add_right box2 mb else (box2, mb)) as [box2a mb1] eqn:Ep.
        assert (Ht : exists t, (if num_is nx 1 then uparen_lt rec b PREC_Mul else u_pow rec b (ENum nx)) = Ok t /\ pos t)
          by (destruct (num_is nx 1); [apply uparen_lt_total | apply u_pow_total]; auto using usmall_num).
        ustep Ht. apply IH; [exact Hd | exact I1 |]. intros _. apply pos_add_right. right. exact Pb.
      + destruct (if negb f1 then add_right box1 mb else (box1, mb)) as [box1a mb1] eqn:Ep.
        assert (Ht : exists t, (if is_num_int x 1 then uparen_lt rec b PREC_Mul else u_pow rec b x) = Ok t /\ pos t)
          by (destruct (is_num_int x 1); [apply uparen_lt_total | apply u_pow_total]; auto).
        ustep Ht. apply IH; [exact Hd | | exact I2]. intros _. apply pos_add_right. right. exact Pb.
  Qed.

  Lemma u_mul_total : forall c d,
    (forall p, In p d -> usmall (fst p) /\ usmall (snd p)) -> exists b, u_mul rec c d = Ok b /\ pos b.
  Proof.
    intros c d H. unfold u_mul.
    match goal with
    | |- exists b, rthen ?init _ = Ok b /\ _ =>
        assert (Hinit : exists b1 b2 f1 f2 num0 den0, init = Ok (b1, b2, f1, f2, num0, den0)
                          /\ (num0 = true -> pos b1) /\ ((0 < den0)%nat -> pos b2))
    end.
    { destruct (num_is c (-1)); [do 6 eexists; split; [reflexivity|]; split; [discriminate | lia]|].
      destruct (negb (num_is c 1)); [|do 6 eexists; split; [reflexivity|]; split; [discriminate | lia]].
      destruct (coef_numer_denom c) as [numer denom].
      assert (H1 : exists b1 f1 n1, (if negb (num_is numer 1)
                  then rthen (uparen_lt rec (ENum numer) PREC_Mul) (fun b => Ok (b, false, true))
                  else Ok (box_e, true, false)) = Ok (b1, f1, n1) /\ (n1 = true -> pos b1)).
      { destruct (negb (num_is numer 1)).
        - ustep (uparen_lt_total (ENum numer) PREC_Mul (usmall_num numer)). do 3 eexists. split; [reflexivity | intros _; exact Pb].
        - do 3 eexists. split; [reflexivity | discriminate]. }
      destruct H1 as (b1 & f1 & n1 & E1 & P1). rewrite E1. cbn [rthen].
      assert (H2 : exists b2 f2 d2, (if negb (num_is denom 1)
                  then rthen (uparen_lt rec (ENum denom) PREC_Mul) (fun b => Ok (b, false, 1%nat))
                  else Ok (box_e, true, 0%nat)) = Ok (b2, f2, d2) /\ ((0 < d2)%nat -> pos b2)).
      { destruct (negb (num_is denom 1)).
        - ustep (uparen_lt_total (ENum denom) PREC_Mul (usmall_num denom)). do 3 eexists. split; [reflexivity | intros _; exact Pb].
        - do 3 eexists. split; [reflexivity | lia]. }
      destruct H2 as (b2 & f2 & d2 & E2 & P2). rewrite E2. cbn [rthen].
      do 6 eexists. split; [reflexivity|]. split; assumption. }
    destruct Hinit as (b1 & b2 & f1 & f2 & num0 & den0 & Ei & I1 & I2). rewrite Ei. cbn [rthen].
    destruct (u_mul_factors_total d b1 b2 mulbox0 f1 f2 num0 den0 H I1 I2) as (box1 & box2 & mb & num & den & Em & J1 & J2).
    rewrite Em. cbn [rthen].
    assert (P1 : pos (if num then box1 else fst (add_right (fst (add_right box1 (box_s [49]))) mb))).
    { destruct num; [apply J1; reflexivity|]. apply pos_add_right. left. apply pos_add_right. right. apply pos_box_s. }
    destruct den as [|[|den]].
    - eexists; split; [reflexivity | exact P1].
    - eexists; split; [reflexivity | apply pos_add_below_line].
    - destruct (enclose_parens_total box2) as (b2' & E2 & _); [apply J2; lia|]. rewrite E2. cbn [rthen].
      eexists; split; [reflexivity | apply pos_add_below_line].
  Qed.

  Lemma u_function_total : forall code args, (forall x, In x args -> usmall x) ->
    exists b, u_function rec code args = Ok b /\ pos b.
  Proof.
    intros code args H. unfold u_function. destruct (unicode_name code) as [nm len].
    ustep (uapp_vec_total args H). ustep (enclose_parens_total b Pb).
    eexists; split; [reflexivity|]. apply pos_add_right. left. apply pos_box_w.
  Qed.
End Rec.

Lemma pmap_insert_ne : forall k v m, pmap_insert k v m <> [].
Proof.
  intros k v m. destruct m as [|[k' v'] m]; simpl; [discriminate|].
  destruct (printer_lt k' k); [discriminate|]. destruct (printer_lt k k'); discriminate.
Qed.
Lemma pmap_of_ne : forall d, d <> [] -> pmap_of d <> [].
Proof.
  intros d H. unfold pmap_of.
  assert (forall d m, m <> [] -> fold_left (fun m p => pmap_insert (fst p) (snd p) m) d m <> []) as Hgen.
  { induction d0 as [|q d0 IH]; intros m Hm; simpl; [exact Hm|]. apply IH. apply pmap_insert_ne. }
  destruct d as [|q d]; [congruence|]. cbn [fold_left]. apply Hgen. apply pmap_insert_ne.
Qed.

Lemma u_constant_total : forall nm, known_constant nm = true -> exists b, u_constant nm = Ok b /\ pos b.
Proof.
  intros nm H. unfold u_constant, known_constant in *.
  destruct (beq nm nm_pi); [eexists; split; [reflexivity | apply pos_box_w]|].
  destruct (beq nm name_E); [eexists; split; [reflexivity | apply pos_box_w]|].
  destruct (beq nm nm_EulerGamma); [eexists; split; [reflexivity | apply pos_box_w]|].
  destruct (beq nm nm_Catalan); [eexists; split; [reflexivity | apply pos_box_w]|].
  destruct (beq nm nm_GoldenRatio); [eexists; split; [reflexivity | apply pos_box_w] | discriminate].
Qed.
Lemma u_atom_total : forall code, u_node_sup (EAtom code) = true -> exists b, u_atom code = Ok b /\ pos b.
Proof.
  intros code H. unfold u_atom. cbn [u_node_sup] in H.
  repeat match goal with
         | |- exists b, (if ?c then _ else _) = Ok b /\ _ => destruct c; [eexists; split; [reflexivity | apply pos_box_w]|]
         end.
  discriminate.
Qed.

Lemma length_ne : forall {A} (l : list A), negb (Nat.eqb (length l) 0) = true -> l <> [].
Proof. intros A l H. destruct l; [discriminate | discriminate]. Qed.

Lemma u_node_total : forall rec e,
  u_supported e = true ->
  (forall x, (size x < size e)%nat -> u_supported x = true -> exists b, rec x = Ok b /\ pos b) ->
  exists b, u_node rec e = Ok b /\ pos b.
Proof.
  intros rec e G Hrec. pose proof (u_sup_node e G) as Gn. unfold u_supported in G.
  set (B := size e) in *.
  assert (Hsm : forall x, (size x < B)%nat -> all_nodes u_node_sup x = true -> usmall B x)
    by (intros; right; split; assumption).
  destruct e as [n|nm|nm idx|nm|c d|c d|bs x|code a|code a c|code args|nm args|code a c|a xs|a d|pl|bv|s x lo ro|code];
    cbn [all_nodes] in G; apply andb_prop in G; destruct G as [_ Gk]; cbn [u_node]; cbn [size] in B; cbn [u_node_sup] in Gn.
  - eexists; split; [reflexivity | apply pos_unum].
  - eexists; split; [reflexivity | apply pos_box_s].
  - eexists; split; [reflexivity | apply pos_box_s].
  - apply u_constant_total. exact Gn.
  - (* EAdd *)
    unfold u_add.
    assert (Hs : forall p, In p (pmap_of d) -> usmall B (fst p)).
    { intros p Hp. apply pmap_of_in in Hp. rewrite forallb_forall in Gk. apply Hsm; [|apply Gk; exact Hp].
      pose proof (in_size_add d p Hp). subst B. lia. }
    destruct (negb (num_is c 0)) eqn:Ec.
    + destruct (u_add_terms_total rec B Hrec (pmap_of d) (unum c) false false Hs) as (r & Hr & Pr).
      exists r. split; [exact Hr | apply Pr; left; apply pos_unum].
    + destruct (u_add_terms_total rec B Hrec (pmap_of d) box_e true false Hs) as (r & Hr & Pr).
      exists r. split; [exact Hr|]. apply Pr. right. apply pmap_of_ne. apply length_ne.
      simpl in Gn. exact Gn.
  - (* EMul *)
    apply (u_mul_total rec B Hrec). intros p Hp. rewrite forallb_forall in Gk.
    specialize (Gk p Hp). apply andb_prop in Gk. destruct Gk as [G1 G2].
    pose proof (in_size_mul d p Hp). pose proof (size_pos (fst p)). pose proof (size_pos (snd p)).
    split; apply Hsm; try assumption; subst B; lia.
  - (* EPow *)
    apply andb_prop in Gk. destruct Gk as [G1 G2].
    apply (u_pow_total rec B Hrec); apply Hsm; try assumption; subst B; lia.
  - (* EF1 *)
    assert (Sa : usmall B a) by (apply Hsm; [subst B; lia | exact Gk]).
    destruct (code =? TC_Not).
    { ustep (uapp_total rec B Hrec a Sa). ustep (enclose_parens_total b Pb).
      eexists; split; [reflexivity | apply pos_add_right; left; apply pos_box_w]. }
    destruct (code =? TC_Abs); [ustep (uapp_total rec B Hrec a Sa); eexists; split; [reflexivity | apply pos_enclose_abs; exact Pb]|].
    destruct (code =? TC_Floor); [ustep (uapp_total rec B Hrec a Sa); apply enclose_floor_total; exact Pb|].
    destruct (code =? TC_Ceiling); [ustep (uapp_total rec B Hrec a Sa); apply enclose_ceiling_total; exact Pb|].
    apply (u_function_total rec B Hrec). intros y [<-|[]]. exact Sa.
  - (* EF2 *)
    apply andb_prop in Gk. destruct Gk as [G1 G2].
    assert (Sa : usmall B a) by (apply Hsm; [subst B; lia | exact G1]).
    assert (Sc : usmall B c) by (apply Hsm; [subst B; lia | exact G2]).
    destruct (code =? TC_Equality); [apply (u_bin_total rec B Hrec); assumption|].
    destruct (code =? TC_Unequality); [apply (u_bin_total rec B Hrec); assumption|].
    destruct (code =? TC_LessThan); [apply (u_bin_total rec B Hrec); assumption|].
    destruct (code =? TC_StrictLessThan); [apply (u_bin_total rec B Hrec); assumption|].
    apply (u_function_total rec B Hrec). intros y [<-|[<-|[]]]; assumption.
  - (* EFN *)
    assert (Hall : forall y, In y args -> usmall B y).
    { intros y Hy. rewrite forallb_forall in Gk. apply Hsm; [|apply Gk; exact Hy].
      pose proof (in_size_list args y Hy). subst B. lia. }
    apply andb_prop in Gn. destruct Gn as [Gn A3]. apply andb_prop in Gn. destruct Gn as [A1 A2].
    destruct (code =? TC_And); [apply (u_infix_total rec B Hrec); [apply length_ne; exact A1 | exact Hall]|].
    destruct (code =? TC_Or); [apply (u_infix_total rec B Hrec); [apply length_ne; exact A1 | exact Hall]|].
    destruct (code =? TC_Xor); [apply (u_infix_total rec B Hrec); [apply length_ne; exact A1 | exact Hall]|].
    destruct (code =? TC_Union); [apply (u_infix_total rec B Hrec); [apply length_ne; exact A1 | exact Hall]|].
    destruct (code =? TC_Intersection); [apply (u_infix_total rec B Hrec); [apply length_ne; exact A1 | exact Hall]|].
    destruct (code =? TC_FiniteSet).
    { destruct (u_join_total rec B Hrec args box_e (box_s s_comma) true Hall) as (r & Hr & Pr).
      rewrite Hr. cbn [rthen]. apply enclose_curlies_total. apply Pr. right. apply length_ne. exact A1. }
    destruct (code =? TC_ConditionSet).
    { destruct args as [|sym [|cond [|? ?]]]; try discriminate.
      ustep (u_bin_total rec B Hrec (box_s s_bar) sym cond (Hall sym (or_introl eq_refl)) (Hall cond (or_intror (or_introl eq_refl)))).
      apply enclose_curlies_total. exact Pb. }
    destruct (code =? TC_ImageSet).
    { destruct args as [|sym [|ex [|base [|? ?]]]]; try discriminate.
      ustep (u_bin_total rec B Hrec (box_s s_bar) ex sym (Hall ex (or_intror (or_introl eq_refl))) (Hall sym (or_introl eq_refl))).
      ustep (uapp_total rec B Hrec base (Hall base (or_intror (or_intror (or_introl eq_refl))))).
      apply enclose_curlies_total. apply pos_add_right. right. exact Pb0. }
    apply (u_function_total rec B Hrec). exact Hall.
  - (* EFunSym *)
    assert (Hall : forall y, In y args -> usmall B y).
    { intros y Hy. rewrite forallb_forall in Gk. apply Hsm; [|apply Gk; exact Hy].
      pose proof (in_size_list args y Hy). subst B. lia. }
    destruct (u_join_total rec B Hrec args (box_s []) (box_s s_comma) true Hall) as (r & Hr & Pr).
    rewrite Hr. cbn [rthen]. ustep (enclose_parens_total (fst r) (Pr (or_introl (pos_box_s [])))).
    eexists; split; [reflexivity | apply pos_add_right; left; apply pos_box_s].
  - (* ELex *)
    apply andb_prop in Gk. destruct Gk as [G1 G2].
    assert (Sa : usmall B a) by (apply Hsm; [subst B; lia | exact G1]).
    assert (Sc : usmall B c) by (apply Hsm; [subst B; lia | exact G2]).
    destruct (code =? TC_Contains); [apply (u_bin_total rec B Hrec); assumption|].
    destruct (code =? TC_Complement); [apply (u_bin_total rec B Hrec); assumption | discriminate].
  - discriminate.
  - discriminate.
  - (* EPw *)
    assert (Hall : forall p, In p pl -> usmall B (fst p) /\ usmall B (snd p)).
    { intros p Hp. rewrite forallb_forall in Gk. specialize (Gk p Hp). apply andb_prop in Gk. destruct Gk as [G1 G2].
      pose proof (in_size_mul pl p Hp). pose proof (size_pos (fst p)). pose proof (size_pos (snd p)).
      split; apply Hsm; try assumption; subst B; lia. }
    match goal with
    | |- context [rthen (?pieces box_e pl) add_left_curly] =>
        assert (Hp : forall l box, (forall p, In p l -> usmall B (fst p) /\ usmall B (snd p)) ->
                       exists r, pieces box l = Ok r /\ (pos box \/ l <> [] -> pos r))
    end.
    { induction l as [|[x0 c0] l IHl]; intros box Hl.
      - eexists; split; [reflexivity|]. intros [P|P]; [exact P | congruence].
      - destruct (Hl (x0, c0) (or_introl eq_refl)) as [H1 H2]. cbn [fst snd] in H1, H2.
        destruct (u_bin_total rec B Hrec (box_s s_if) x0 c0 H1 H2) as (piece & Hpc & Ppc).
        destruct (IHl (fst (add_below box piece)) (fun p Hp => Hl p (or_intror Hp))) as (r & Hr & Pr).
        exists r. split.
        + simpl. rewrite Hpc. simpl. exact Hr.
        + intros _. apply Pr. left. apply pos_add_below. right. exact Ppc. }
    destruct pl as [|p0 pl0]; [discriminate|].
    destruct (Hp (p0 :: pl0) box_e Hall) as (r & Hr & Pr). rewrite Hr. cbn [rthen].
    apply curly_side_total. apply Pr. right. discriminate.
  - eexists; split; [reflexivity | apply pos_box_s].
  - (* EInterval *)
    apply andb_prop in Gk. destruct Gk as [G1 G2].
    assert (Ss : usmall B s) by (apply Hsm; [subst B; lia | exact G1]).
    assert (Sx : usmall B x) by (apply Hsm; [subst B; lia | exact G2]).
    ustep (u_bin_total rec B Hrec (box_s s_comma) s x Ss Sx).
    assert (exists b1, (if lo then add_left_parens b else add_left_sqbracket b) = Ok b1 /\ pos b1) as H1
      by (destruct lo; apply bracket_side_total; exact Pb).
    ustep H1. destruct ro; apply bracket_side_total; exact Pb0.
  - apply u_atom_total. exact Gn.
Qed.

Lemma ubox_fuel_total : forall f e,
  (size e <= f)%nat -> u_supported e = true -> exists b, ubox_fuel (S f) e = Ok b /\ pos b.
Proof.
  induction f as [|f IH]; intros e Hs G.
  - pose proof (size_pos e). lia.
  - change (ubox_fuel (S (S f)) e) with (u_node (ubox_fuel (S f)) e).
    apply u_node_total; [exact G|]. intros x Hx Gx. apply IH; [lia | exact Gx].
Qed.

Theorem unicode_total : forall e, u_supported e = true -> exists b, unicode_box e = Ok b /\ lines b <> [].
Proof. intros e G. unfold unicode_box. apply ubox_fuel_total; [lia | exact G]. Qed.
