(* C44 -- coverage of the class table (Coverage.v): every class of type_codes.inc is either modelled
   or listed as outside the AST; on every modelled class each printer model behaves as the rule
   table says (swept over one node per class); and "throws by design" / "fallback" hold for EVERY
   node of such a class, whatever its children. *)
From Coq Require Import List Bool NArith ZArith Lia.
Import ListNotations.
From SE Require Import C44.C44Spec C44.Coverage.
Local Open Scope N_scope.

Definition cov_partition_b : bool :=
  forallb (fun c => xorb (modelled c) (memN c outside_codes)) all_codes.

Definition cov_agrees_b : bool :=
  forallb (fun c =>
             if modelled c then
               (type_code (sample_of c) =? c) && class_ok (sample_of c)
               && forallb (fun p => rule_eqb (run_printer p (sample_of c)) (rule_of p c)) all_printers
             else forallb (fun p => rule_eqb (rule_of p c) ROutside) all_printers)
          all_codes.

Lemma cov_partition : cov_partition_b = true.
Proof. vm_compute. reflexivity. Qed.
Lemma cov_agrees : cov_agrees_b = true.
Proof. vm_compute. reflexivity. Qed.

Lemma in_all_codes : forall c, c < TC_Count -> In c all_codes.
Proof.
  intros c H. unfold all_codes. apply in_map_iff. exists (N.to_nat c). split.
  - apply N2Nat.id.
  - apply in_seq. change TC_Count with 122 in *. lia.
Qed.

Lemma rule_eqb_eq : forall a b, rule_eqb a b = true -> a = b.
Proof. destruct a, b; simpl; intro H; try reflexivity; discriminate. Qed.

Theorem coverage : forall c, c < TC_Count ->
  (modelled c = true /\ memN c outside_codes = false /\
   type_code (sample_of c) = c /\ class_ok (sample_of c) = true /\
   forall p, run_printer p (sample_of c) = rule_of p c)
  \/ (modelled c = false /\ memN c outside_codes = true /\ forall p, rule_of p c = ROutside).
Proof.
  intros c Hc. pose proof (in_all_codes c Hc) as Hin.
  pose proof cov_partition as P. pose proof cov_agrees as A.
  unfold cov_partition_b in P. unfold cov_agrees_b in A.
  rewrite forallb_forall in P, A. specialize (P c Hin). specialize (A c Hin).
  destruct (modelled c) eqn:M.
  - left. destruct (memN c outside_codes); [discriminate|].
    apply andb_prop in A. destruct A as [A1 A3]. apply andb_prop in A1. destruct A1 as [A1 A2].
    repeat split; try reflexivity.
    + apply N.eqb_eq. exact A1.
    + exact A2.
    + intro p. rewrite forallb_forall in A3. apply rule_eqb_eq. apply A3. destruct p; simpl; auto 6.
  - right. destruct (memN c outside_codes); [|discriminate]. repeat split; try reflexivity.
    intro p. rewrite forallb_forall in A. apply rule_eqb_eq. apply A. destruct p; simpl; auto 6.
Qed.

(* ---------------------------------------------------------------- by design, for every node of the class *)
Lemma memN_In : forall c l, memN c l = true -> In c l.
Proof.
  intros c l H. unfold memN in H. apply existsb_exists in H. destruct H as (x & Hx & E).
  apply N.eqb_eq in E. subst. exact Hx.
Qed.

Theorem mathml_throws_by_design : forall rec e,
  class_ok e = true -> rule_of PMathML (type_code e) = RThrows ->
  mm_node rec e = ErrExn EXN_SYMENGINE.
Proof.
  intros rec e Hc Hr. unfold rule_of in Hr.
  destruct (negb (modelled (type_code e))); [discriminate|].
  destruct (memN (type_code e) mathml_throws) eqn:M; [|discriminate].
  apply memN_In in M. unfold class_ok in Hc.
  destruct e; cbn [type_code] in *;
    try (simpl in M; repeat (destruct M as [M|M]; [try discriminate M|]); try contradiction; fail).
  - (* ENum *) destruct n; simpl in M;
      repeat (destruct M as [M|M]; [try discriminate M|]); try contradiction; reflexivity.
  - (* EF1 *) simpl in M. repeat (destruct M as [M|M]; [subst code; try discriminate Hc|]); contradiction.
  - (* EF2 *) simpl in M. repeat (destruct M as [M|M]; [subst code; try discriminate Hc|]); contradiction.
  - (* EFN *) simpl in M. repeat (destruct M as [M|M]; [subst code; try discriminate Hc; try reflexivity|]); contradiction.
  - (* ELex *) simpl in M. repeat (destruct M as [M|M]; [subst code; try discriminate Hc|]); contradiction.
  - (* ESubs *) reflexivity.
  - (* EAtom *) simpl in M. repeat (destruct M as [M|M]; [subst code; try discriminate Hc; try reflexivity|]); contradiction.
Qed.

Theorem unicode_fallback_by_design : forall rec e,
  class_ok e = true -> rule_of PUnicode (type_code e) = RFallback ->
  u_node rec e = ErrExn EXN_FALLBACK.
Proof.
  intros rec e Hc Hr. unfold rule_of in Hr.
  destruct (negb (modelled (type_code e))); [discriminate|].
  destruct (memN (type_code e) unicode_fallback) eqn:M; [|discriminate].
  apply memN_In in M. unfold class_ok in Hc.
  destruct e; cbn [type_code] in *;
    try reflexivity;
    try (simpl in M; repeat (destruct M as [M|M]; [try discriminate M|]); try contradiction; fail).
  - destruct n; simpl in M; repeat (destruct M as [M|M]; [try discriminate M|]); contradiction.
  - simpl in M. repeat (destruct M as [M|M]; [subst code; try discriminate Hc|]); contradiction.
  - simpl in M. repeat (destruct M as [M|M]; [subst code; try discriminate Hc|]); contradiction.
  - simpl in M. repeat (destruct M as [M|M]; [subst code; try discriminate Hc|]); contradiction.
  - simpl in M. repeat (destruct M as [M|M]; [subst code; try discriminate Hc|]); contradiction.
  - simpl in M. repeat (destruct M as [M|M]; [subst code; try discriminate Hc|]); contradiction.
Qed.
