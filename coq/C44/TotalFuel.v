(* C44 -- totality of the MathML printer model: on every tree all of whose nodes belong to a class
   with a rule (and whose numbers / constants / arities are the ones the rules accept) the printer
   returns a text; the fuel S (size e) of the definition always suffices. *)
From Coq Require Import List Bool NArith ZArith Lia.
Import ListNotations.
From SE Require Import C44.C44Spec C44.Coverage C44.MathMLProofs.
Local Open Scope N_scope.

(* numbers MathMLPrinter prints: everything but Infty and NaN *)
Definition mm_num_sup (n : number) : bool :=
  match n with NInf _ | NNaN => false | _ => true end.

Definition known_constant (nm : list N) : bool :=
  beq nm nm_pi || beq nm name_E || beq nm nm_EulerGamma || beq nm nm_Catalan || beq nm nm_GoldenRatio.

Definition mm_node_sup (e : expr) : bool :=
  match e with
  | ENum n => mm_num_sup n
  | EConst nm => known_constant nm
  | EAdd c d => (num_is_zero c || mm_num_sup c) && forallb (fun p => mm_num_sup (snd p)) d
  | EMul c _ => num_is_one c || mm_num_sup c
  | EFN code l =>
      negb (code =? TC_Intersection)
      && (if code =? TC_ConditionSet then Nat.eqb (length l) 2 else true)
      && (if code =? TC_ImageSet then Nat.eqb (length l) 3 else true)
  | ELex code _ _ => (code =? TC_Contains) || (code =? TC_Complement)
  | ESubs _ _ => false
  | EAtom code =>
      (code =? TC_EmptySet) || (code =? TC_Complexes) || (code =? TC_Reals) || (code =? TC_Rationals)
      || (code =? TC_Integers)
  | _ => true
  end.
Definition mm_supported (e : expr) : bool := all_nodes mm_node_sup e.

(* ---------------------------------------------------------------- sizes *)
Lemma size_pos : forall e, (1 <= size e)%nat.
Proof. destruct e; simpl; lia. Qed.

Lemma in_size_add : forall (d : list (expr * number)) p, In p d ->
  (size (fst p) + 1 <= fold_right (fun p acc => size (fst p) + 1 + acc) 0 d)%nat.
Proof. induction d as [|q d IH]; simpl; intros p H; [contradiction|]. destruct H as [->|H]; [lia|]. specialize (IH p H). lia. Qed.
Lemma in_size_mul : forall (d : list (expr * expr)) p, In p d ->
  (size (fst p) + size (snd p) <= fold_right (fun p acc => size (fst p) + size (snd p) + acc) 0 d)%nat.
Proof. induction d as [|q d IH]; simpl; intros p H; [contradiction|]. destruct H as [->|H]; [lia|]. specialize (IH p H). lia. Qed.
Lemma in_size_list : forall (l : list expr) x, In x l ->
  (size x <= fold_right (fun x acc => size x + acc) 0 l)%nat.
Proof. induction l as [|q l IH]; simpl; intros x H; [contradiction|]. destruct H as [->|H]; [lia|]. specialize (IH x H). lia. Qed.

(* ---------------------------------------------------------------- mapM *)
Lemma mapM_total : forall {A B} (f : A -> res B) l,
  (forall x, In x l -> exists y, f x = Ok y) -> exists ys, mapM f l = Ok ys.
Proof.
  induction l as [|a l IH]; intros H; simpl; [eexists; reflexivity|].
  destruct (H a (or_introl eq_refl)) as [y Hy]. rewrite Hy.
  destruct IH as [ys Hys]; [intros x Hx; apply H; right; exact Hx|]. rewrite Hys. eexists; reflexivity.
Qed.

Lemma mm_number_total : forall n, mm_num_sup n = true -> exists l, mm_number n = Ok l.
Proof.
  destruct n; simpl; intro H; try discriminate; try (eexists; reflexivity).
  - unfold num_of_q. destruct rd, imd; eexists; reflexivity.
Qed.

Section Rec.
  Variable rec : expr -> res (list xtok).
  Variable bound : nat.
  Hypothesis Hrec : forall x, (size x < bound)%nat -> mm_supported x = true -> exists l, rec x = Ok l.

  Lemma mm_list_total : forall l,
    (forall x, In x l -> (size x < bound)%nat /\ mm_supported x = true) -> exists r, mm_list rec l = Ok r.
  Proof.
    intros l H. unfold mm_list.
    destruct (mapM_total rec l) as [ys Hys]; [intros x Hx; destruct (H x Hx); apply Hrec; assumption|].
    rewrite Hys. eexists; reflexivity.
  Qed.

  Lemma mm_pow_total : forall b x,
    (size b < bound)%nat -> (size x < bound)%nat -> mm_supported b = true -> mm_supported x = true ->
    exists r, mm_pow rec b x = Ok r.
  Proof.
    intros b x Sb Sx Gb Gx. unfold mm_pow.
    destruct (mm_list_total [b; x]) as [r Hr].
    { intros y [<-|[<-|[]]]; split; assumption. }
    rewrite Hr. eexists; reflexivity.
  Qed.

  Lemma mm_mul_total : forall c d,
    (num_is_one c || mm_num_sup c = true) ->
    (forall p, In p d -> (size (fst p) < bound)%nat /\ (size (snd p) < bound)%nat /\
                         mm_supported (fst p) = true /\ mm_supported (snd p) = true) ->
    exists r, mm_mul rec c d = Ok r.
  Proof.
    intros c d Hc Hd. unfold mm_mul.
    assert (exists cs, (if num_is_one c then Ok [] else mm_number c) = Ok cs) as [cs Hcs].
    { destruct (num_is_one c); [eexists; reflexivity | apply mm_number_total; exact Hc]. }
    rewrite Hcs.
    destruct (mapM_total (mm_factor rec) d) as [fs Hfs].
    { intros p Hp. destruct (Hd p Hp) as (S1 & S2 & G1 & G2). unfold mm_factor.
      destruct (is_num_int (snd p) 1); [apply Hrec; assumption | apply mm_pow_total; assumption]. }
    rewrite Hfs. eexists; reflexivity.
  Qed.
End Rec.

Lemma sup_node : forall e, mm_supported e = true -> mm_node_sup e = true.
Proof. intros e H. unfold mm_supported in H. destruct e; cbn [all_nodes] in H; apply andb_prop in H; apply H. Qed.

Lemma mm_node_total : forall rec e,
  mm_supported e = true ->
  (forall x, (size x < size e)%nat -> mm_supported x = true -> exists l, rec x = Ok l) ->
  exists l, mm_node rec e = Ok l.
Proof.
  intros rec e G Hrec. pose proof (sup_node e G) as Gn. unfold mm_supported in G.
  destruct e as [n|nm|nm idx|nm|c d|c d|b x|code a|code a c|code args|nm args|code a c|a xs|a d|pl|bv|s x lo ro|code];
    cbn [all_nodes] in G; apply andb_prop in G; destruct G as [_ Gk]; cbn [mm_node mm_node_sup] in *.
  - apply mm_number_total. exact Gn.
  - eexists; reflexivity.
  - eexists; reflexivity.
  - unfold mm_constant, known_constant in *.
    destruct (beq nm nm_pi); [eexists; reflexivity|].
    destruct (beq nm name_E); [eexists; reflexivity|].
    destruct (beq nm nm_EulerGamma); [eexists; reflexivity|].
    destruct (beq nm nm_Catalan); [eexists; reflexivity|].
    destruct (beq nm nm_GoldenRatio); [eexists; reflexivity | discriminate].
  - (* EAdd *)
    apply andb_prop in Gn. destruct Gn as [Gc Gv]. unfold mm_add.
    assert (exists cs, (if num_is_zero c then Ok [] else mm_number c) = Ok cs) as [cs Hcs].
    { destruct (num_is_zero c); [eexists; reflexivity | apply mm_number_total; exact Gc]. }
    rewrite Hcs.
    destruct (mapM_total (mm_term rec) d) as [ts Hts].
    { intros [k v] Hp. rewrite forallb_forall in Gk, Gv.
      pose proof (Gk _ Hp) as Gkk. pose proof (Gv _ Hp) as Gvv. cbn [fst snd] in *.
      pose proof (in_size_add d _ Hp) as Sz. cbn [fst] in Sz.
      assert (Sk : (size k < size (EAdd c d))%nat) by (cbn [size]; lia).
      unfold mm_term. cbn [fst snd].
      destruct (num_is v 1); [apply Hrec; assumption|].
      destruct (num_is v 0); [apply mm_number_total; exact Gvv|].
      assert (Hv : num_is_one v || mm_num_sup v = true) by (rewrite Gvv; apply orb_true_r).
      destruct k as [n|nm|nm idx|nm|c0 d0|c0 kd|b x|code a|code a b|code args|nm args|code a b|a xs|a d0|pl|bv|s0 e0 lo ro|code];
        try (apply (mm_mul_total rec (size (EAdd c d)) Hrec); [exact Hv|];
             intros p [<-|[]]; cbn [fst snd]; repeat split; try assumption; try reflexivity;
             pose proof (size_pos (ENum (NInt 1))); cbn [size] in *; lia).
      + (* EMul *)
        destruct (num_is_zero v); [apply mm_number_total; exact Gvv|].
        destruct kd as [|q kd]; [apply mm_number_total; exact Gvv|].
        apply (mm_mul_total rec (size (EAdd c d)) Hrec); [exact Hv|].
        intros p Hp2. unfold mm_supported in Gkk. cbn [all_nodes] in Gkk. apply andb_prop in Gkk.
        destruct Gkk as [_ Gkd]. rewrite forallb_forall in Gkd. specialize (Gkd p Hp2).
        apply andb_prop in Gkd. destruct Gkd as [G1 G2].
        pose proof (in_size_mul (q :: kd) p Hp2) as Sp.
        change (size (EMul c0 (q :: kd))) with (S (fold_right (fun p acc => size (fst p) + size (snd p) + acc) 0 (q :: kd)))%nat in Sk.
        repeat split; try assumption;
          pose proof (size_pos (fst p)); pose proof (size_pos (snd p)); lia.
      + (* EPow *)
        apply (mm_mul_total rec (size (EAdd c d)) Hrec); [exact Hv|].
        intros p [<-|[]]. cbn [fst snd]. unfold mm_supported in Gkk. cbn [all_nodes] in Gkk.
        apply andb_prop in Gkk. destruct Gkk as [_ Gbx]. apply andb_prop in Gbx. destruct Gbx as [G1 G2].
        change (size (EPow b x)) with (S (size b + size x)) in Sk. repeat split; try assumption; lia. }
    rewrite Hts. eexists; reflexivity.
  - (* EMul *)
    apply (mm_mul_total rec (size (EMul c d)) Hrec); [exact Gn|].
    intros p Hp. rewrite forallb_forall in Gk. specialize (Gk p Hp). apply andb_prop in Gk. destruct Gk as [G1 G2].
    pose proof (in_size_mul d p Hp). pose proof (size_pos (fst p)). pose proof (size_pos (snd p)).
    cbn [size]. repeat split; try assumption; lia.
  - (* EPow *)
    apply andb_prop in Gk. destruct Gk as [G1 G2].
    apply (mm_pow_total rec (size (EPow b x)) Hrec); try assumption; cbn [size]; lia.
  - (* EF1 *)
    assert (Ha : exists l, rec a = Ok l) by (apply Hrec; [cbn [size]; lia | exact Gk]).
    destruct Ha as [la Hla].
    destruct (code =? TC_Not); [rewrite Hla; eexists; reflexivity|].
    destruct (code =? TC_UnevaluatedExpr); [eexists; exact Hla|].
    unfold mm_function, mm_list. cbn [mapM]. rewrite Hla. eexists; reflexivity.
  - (* EF2 *)
    apply andb_prop in Gk. destruct Gk as [G1 G2].
    destruct (mm_list_total rec (size (EF2 code a c)) Hrec [a; c]) as [r Hr].
    { intros y [<-|[<-|[]]]; split; try assumption; cbn [size]; lia. }
    unfold mm_function. rewrite Hr. destruct (rel_tag code); eexists; reflexivity.
  - (* EFN *)
    assert (Hall : forall y, In y args -> (size y < size (EFN code args))%nat /\ mm_supported y = true).
    { intros y Hy. rewrite forallb_forall in Gk. split; [|apply Gk; exact Hy].
      pose proof (in_size_list args y Hy). cbn [size]. lia. }
    destruct (mm_list_total rec (size (EFN code args)) Hrec args Hall) as [r Hr].
    unfold mm_function. rewrite Hr.
    apply andb_prop in Gn. destruct Gn as [Gn G3]. apply andb_prop in Gn. destruct Gn as [G1 G2].
    destruct (code =? TC_And); [eexists; reflexivity|].
    destruct (code =? TC_Or); [eexists; reflexivity|].
    destruct (code =? TC_Xor); [eexists; reflexivity|].
    destruct (code =? TC_Union); [eexists; reflexivity|].
    destruct (code =? TC_FiniteSet); [eexists; reflexivity|].
    destruct (code =? TC_Intersection); [discriminate|].
    destruct (code =? TC_ConditionSet).
    { destruct args as [|sym [|cond [|? ?]]]; try discriminate.
      destruct (Hall sym (or_introl eq_refl)) as [S1 Gs]. destruct (Hall cond (or_intror (or_introl eq_refl))) as [S2 Gc].
      destruct (Hrec sym S1 Gs) as [ls Hls]. destruct (Hrec cond S2 Gc) as [lc Hlc].
      rewrite Hls, Hlc. eexists; reflexivity. }
    destruct (code =? TC_ImageSet).
    { destruct args as [|sym [|ex [|base [|? ?]]]]; try discriminate.
      destruct (Hall sym (or_introl eq_refl)) as [S1 Gs].
      destruct (Hall ex (or_intror (or_introl eq_refl))) as [S2 Gx].
      destruct (Hall base (or_intror (or_intror (or_introl eq_refl)))) as [S3 Gb].
      destruct (Hrec sym S1 Gs) as [ls Hls]. destruct (Hrec ex S2 Gx) as [lx Hlx]. destruct (Hrec base S3 Gb) as [lb Hlb].
      rewrite Hls, Hlx, Hlb. eexists; reflexivity. }
    eexists; reflexivity.
  - (* EFunSym *)
    destruct (mm_list_total rec (size (EFunSym nm args)) Hrec args) as [r Hr].
    { intros y Hy. rewrite forallb_forall in Gk. split; [|apply Gk; exact Hy].
      pose proof (in_size_list args y Hy). cbn [size]. lia. }
    rewrite Hr. eexists; reflexivity.
  - (* ELex *)
    apply andb_prop in Gk. destruct Gk as [G1 G2].
    destruct (mm_list_total rec (size (ELex code a c)) Hrec [a; c]) as [r Hr].
    { intros y [<-|[<-|[]]]; split; try assumption; cbn [size]; lia. }
    rewrite Hr. destruct (code =? TC_Contains); [eexists; reflexivity|].
    destruct (code =? TC_Complement); [eexists; reflexivity | discriminate].
  - (* EDeriv *)
    apply andb_prop in Gk. destruct Gk as [Ga Gx].
    destruct (mm_list_total rec (size (EDeriv a xs)) Hrec xs) as [r Hr].
    { intros y Hy. rewrite forallb_forall in Gx. split; [|apply Gx; exact Hy].
      pose proof (in_size_list xs y Hy). cbn [size]. lia. }
    destruct (Hrec a) as [la Hla]; [cbn [size]; lia | exact Ga|].
    rewrite Hr, Hla. eexists; reflexivity.
  - discriminate.
  - (* EPw *)
    match goal with
    | |- exists l, match mapM ?f pl with _ => _ end = Ok l => destruct (mapM_total f pl) as [ps Hps]
    end.
    { intros p Hp. rewrite forallb_forall in Gk. specialize (Gk p Hp). apply andb_prop in Gk. destruct Gk as [G1 G2].
      pose proof (in_size_mul pl p Hp). pose proof (size_pos (fst p)). pose proof (size_pos (snd p)).
      destruct (mm_list_total rec (size (EPw pl)) Hrec [fst p; snd p]) as [r Hr].
      { intros y [<-|[<-|[]]]; split; try assumption; cbn [size]; lia. }
      rewrite Hr. eexists; reflexivity. }
    rewrite Hps. eexists; reflexivity.
  - eexists; reflexivity.
  - (* EInterval *)
    apply andb_prop in Gk. destruct Gk as [G1 G2].
    destruct (mm_list_total rec (size (EInterval s x lo ro)) Hrec [s; x]) as [r Hr].
    { intros y [<-|[<-|[]]]; split; try assumption; cbn [size]; lia. }
    rewrite Hr. eexists; reflexivity.
  - (* EAtom *)
    unfold mm_atom.
    destruct (code =? TC_EmptySet); [eexists; reflexivity|].
    destruct (code =? TC_Complexes); [eexists; reflexivity|].
    destruct (code =? TC_Reals); [eexists; reflexivity|].
    destruct (code =? TC_Rationals); [eexists; reflexivity|].
    destruct (code =? TC_Integers); [eexists; reflexivity | discriminate].
Qed.

Lemma mathml_fuel_total : forall f e,
  (size e <= f)%nat -> mm_supported e = true -> exists l, mathml_fuel (S f) e = Ok l.
Proof.
  induction f as [|f IH]; intros e Hs G.
  - pose proof (size_pos e). lia.
  - change (mathml_fuel (S (S f)) e) with (mm_node (mathml_fuel (S f)) e).
    apply mm_node_total; [exact G|]. intros x Hx Gx. apply IH; [lia | exact Gx].
Qed.

Theorem mathml_total : forall e, mm_supported e = true -> exists l, mathml_toks e = Ok l.
Proof. intros e G. unfold mathml_toks. apply mathml_fuel_total; [lia | exact G]. Qed.

(* and then the text is well formed (the function classes of a supported tree need not be in the
   name table for totality, but they do for well-formedness) *)
Corollary mathml_total_wellformed : forall e,
  mm_supported e = true -> mm_guard e = true -> exists l, mathml_toks e = Ok l /\ xelement l.
Proof.
  intros e G1 G2. destruct (mathml_total e G1) as [l Hl]. exists l. split; [exact Hl|].
  eapply mathml_wellformed; eauto.
Qed.
