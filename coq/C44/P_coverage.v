From SE Require Import C44.C44Spec C44.Coverage C44.TotalProofs.
(* every class of type_codes.inc is modelled or listed as outside the AST, and on a node of every
   modelled class each printer model does what the rule table says (rule / throws / fallback) *)
Theorem C44_coverage : forall c : N, (c < TC_Count)%N ->
  (modelled c = true /\ memN c outside_codes = false /\
   type_code (sample_of c) = c /\ class_ok (sample_of c) = true /\
   forall p, run_printer p (sample_of c) = rule_of p c)
  \/ (modelled c = false /\ memN c outside_codes = true /\ forall p, rule_of p c = ROutside).
Proof. exact coverage. Qed.
Print Assumptions C44_coverage.
