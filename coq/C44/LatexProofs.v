(* C44 -- LaTeX: under the guard, every \left / \right of latex(e) carries a delimiter and brace
   groups and \left..\right pairs nest. *)
From Coq Require Import List Bool NArith ZArith Lia.
Import ListNotations.
From SE Require Import C44.C44Spec C44.NestProofs C44.TextProofs C44.MathMLProofs.
Local Open Scope N_scope.

Lemma lkind_eqb_eq : forall a b, lkind_eqb a b = true <-> a = b.
Proof. destruct a, b; simpl; split; intro H; try reflexivity; discriminate. Qed.

Definition good (l : list ltok) : Prop := forallb ltok_ok l = true /\ wn (List.map lclass l).

Lemma good_iff_b : forall l, latex_wf_b l = true <-> good l.
Proof.
  intro l. unfold latex_wf_b, good. rewrite andb_true_iff.
  rewrite (chk_iff_wn lkind lkind_eqb lkind_eqb_eq). reflexivity.
Qed.
Lemma good_latex_wf : forall l, good l <-> latex_wf l.
Proof.
  intro l. unfold good, latex_wf. rewrite forallb_forall, Forall_forall. reflexivity.
Qed.

Lemma good_nil : good [].
Proof. split; [reflexivity | constructor]. Qed.
Lemma good_app : forall a b, good a -> good b -> good (a ++ b).
Proof.
  intros a b [Ha1 Ha2] [Hb1 Hb2]. split.
  - rewrite forallb_app, Ha1, Hb1. reflexivity.
  - rewrite map_app. apply wn_app; assumption.
Qed.

(* ---------------------------------------------------------------- templates over ltok *)
Inductive lpiece := PLit (l : list ltok) | PHole (l : list ltok).
Definition lbody (p : lpiece) : list ltok := match p with PLit l | PHole l => l end.
Definition llit (p : lpiece) : list ltok := match p with PLit l => l | PHole _ => [] end.
Definition lflat (ps : list lpiece) : list ltok := concat (List.map lbody ps).
Definition lskel (ps : list lpiece) : list ltok := concat (List.map llit ps).
Definition lholes (ps : list lpiece) : Prop :=
  Forall (fun p => match p with PHole h => good h | PLit _ => True end) ps.

Definition conv (p : lpiece) : piece lkind :=
  match p with PLit l => Lit lkind (List.map lclass l) | PHole l => Hole lkind (List.map lclass l) end.

Lemma map_lflat : forall ps, List.map lclass (lflat ps) = flat lkind (List.map conv ps).
Proof.
  induction ps as [|p ps IH]; unfold lflat, flat in *; simpl; [reflexivity|].
  rewrite map_app, IH. destruct p; reflexivity.
Qed.
Lemma map_lskel : forall ps, List.map lclass (lskel ps) = skel lkind (List.map conv ps).
Proof.
  induction ps as [|p ps IH]; unfold lskel, skel in *; simpl; [reflexivity|].
  rewrite map_app, IH. destruct p; reflexivity.
Qed.

Theorem good_template : forall ps, lholes ps -> latex_wf_b (lskel ps) = true -> good (lflat ps).
Proof.
  intros ps Hh Hs. apply good_iff_b in Hs. destruct Hs as [Hs1 Hs2]. split.
  - clear Hs2. induction Hh as [|p ps Hp Hps IH]; [reflexivity|].
    unfold lflat, lskel in *. simpl in *. rewrite forallb_app in *.
    apply andb_prop in Hs1. destruct Hs1 as [H1 H2]. rewrite (IH H2).
    destruct p as [l|h]; simpl in *; [rewrite H1 | destruct Hp as [Hp _]; rewrite Hp]; reflexivity.
  - rewrite map_lflat. apply (wn_template lkind lkind_eqb lkind_eqb_eq).
    + clear Hs1 Hs2. induction Hh as [|p ps Hp Hps IH]; [constructor|].
      simpl. constructor; [|exact IH]. destruct p; simpl; [exact I | apply Hp].
    + rewrite <- map_lskel. exact Hs2.
Qed.

(* reification: constants are literal pieces, everything else is a hole *)
Ltac reify_pieces l :=
  lazymatch l with
  | ?a ++ ?b => let ra := reify_pieces a in let rb := reify_pieces b in constr:(ra ++ rb)
  | @nil _ => constr:(@nil lpiece)
  | ?x =>
      match x with
      | _ => let _ := match goal with _ => is_const x end in constr:([PLit x])
      | _ => constr:([PHole x])
      end
  end.
Ltac norm_app := repeat (cbn [app]; rewrite <- ?app_assoc); rewrite ?app_nil_r; cbn [app].
Ltac by_template :=
  lazymatch goal with
  | |- good ?l =>
      let ps := reify_pieces l in
      let ps' := eval cbn [app] in ps in
      replace l with (lflat ps')
        by (unfold lflat; cbn [List.map lbody concat]; norm_app; reflexivity);
      apply good_template;
      [ unfold lholes; repeat (apply Forall_cons; [try exact I | ]); try apply Forall_nil
      | vm_compute; reflexivity ]
  end.

(* ---------------------------------------------------------------- atoms *)
Definition tex_plain (c : N) : bool := negb ((c =? 92) || (c =? 123) || (c =? 125)).

Lemma good_raw : forall s, tex_name_ok s = true -> good (raw s).
Proof.
  intros s H. unfold raw. split.
  - apply forallb_map_const. reflexivity.
  - apply wn_atoms. apply Forall_forall. intros t Ht.
    apply in_map_iff in Ht. destruct Ht as (u & <- & Hu).
    apply in_map_iff in Hu. destruct Hu as (c & <- & Hc).
    unfold tex_name_ok in H. rewrite forallb_forall in H. specialize (H c Hc).
    simpl. destruct (N.eq_dec c 123) as [->|N1]; [discriminate|].
    destruct (N.eq_dec c 125) as [->|N2]; [discriminate|].
    destruct c as [|q]; [reflexivity|].
    do 7 (try destruct q as [q|q|]); try reflexivity; exfalso; (apply N1 + apply N2); reflexivity.
Qed.

Lemma tex_plain_digit : forall c, 48 <= c -> c <= 57 -> tex_plain c = true.
Proof.
  intros c H1 H2. unfold tex_plain.
  destruct (c =? 92) eqn:E1; [apply N.eqb_eq in E1; lia|].
  destruct (c =? 123) eqn:E2; [apply N.eqb_eq in E2; lia|].
  destruct (c =? 125) eqn:E3; [apply N.eqb_eq in E3; lia|]. reflexivity.
Qed.
Lemma plain_dec_Z : forall z, tex_name_ok (dec_Z z) = true.
Proof. intro z. apply (chars_dec_Z tex_plain tex_plain_digit); reflexivity. Qed.
Lemma plain_dec_N : forall n, tex_name_ok (dec_N n) = true.
Proof. intro n. apply (chars_dec_N tex_plain tex_plain_digit). Qed.
Lemma plain_double : forall b, tex_name_ok (print_double b) = true.
Proof. intro b. apply (chars_print_double tex_plain tex_plain_digit); reflexivity. Qed.

Lemma good_dec_Z : forall z, good (raw (dec_Z z)).
Proof. intro. apply good_raw, plain_dec_Z. Qed.
Lemma good_dec_N : forall n, good (raw (dec_N n)).
Proof. intro. apply good_raw, plain_dec_N. Qed.
Lemma good_double : forall b, good (raw (print_double b)).
Proof. intro. apply good_raw, plain_double. Qed.
Lemma good_tl_raw : forall s, tex_name_ok s = true -> good (tl (raw s)).
Proof.
  intros s H. destruct s as [|c s]; simpl; [apply good_nil|].
  apply good_raw. unfold tex_name_ok in *. simpl in H. apply andb_prop in H. apply H.
Qed.

#[local] Hint Resolve good_dec_Z good_dec_N good_double good_nil : good.

Lemma good_l_q : forall p q, good (l_q p q).
Proof.
  intros p q. unfold l_q. destruct q; try apply good_dec_Z;
    by_template; auto with good.
Qed.
#[local] Hint Resolve good_l_q : good.

Lemma good_l_complex : forall rn rd imn imd, good (l_complex rn rd imn imd).
Proof.
  intros. unfold l_complex.
  destruct (negb (rn =? 0)%Z); [|destruct (_ && _)].
  - destruct (0 <? imn)%Z; destruct (_ && _); by_template; auto with good.
  - destruct (0 <? imn)%Z; by_template.
  - by_template; auto with good.
Qed.

Lemma good_pnum : forall n, good (pnum FLatex n).
Proof.
  destruct n; cbn [pnum].
  - apply good_dec_Z.
  - apply good_l_q.
  - apply good_l_complex.
  - apply good_double.
  - destruct (dbl_negative im); by_template; auto with good. apply good_tl_raw, plain_double.
  - unfold p_infty. destruct (dir <? 0)%Z; [by_template|]. destruct (0 <? dir)%Z; by_template.
  - by_template.
Qed.
#[local] Hint Resolve good_pnum : good.

(* plain StrPrinter text of a number (Interval end points) *)
Lemma good_pnum_str : forall n, good (pnum FStr n).
Proof.
  assert (Hq : forall p q, good (p_q p q)) by (intros; unfold p_q; by_template; auto with good).
  assert (Hqi : forall p q, good (p_qi p q)) by (intros p q; unfold p_qi; destruct q; auto with good).
  destruct n; cbn [pnum print_mul imag_symbol].
  - apply good_dec_Z.
  - apply Hq.
  - unfold p_complex. cbn [print_mul imag_symbol].
    destruct (negb (rn =? 0)%Z); [|destruct (_ && _)].
    + destruct (0 <? imn)%Z; destruct (_ && _); by_template; auto with good.
    + destruct (0 <? imn)%Z; by_template.
    + by_template; auto with good.
  - apply good_double.
  - destruct (dbl_negative im); by_template; auto with good.
  - unfold p_infty. destruct (dir <? 0)%Z; [by_template|]. destruct (0 <? dir)%Z; by_template.
  - by_template.
Qed.

(* ---------------------------------------------------------------- symbols *)
Lemma plain_firstn : forall k s, tex_name_ok s = true -> tex_name_ok (firstn k s) = true.
Proof. intros. apply forallb_firstn. assumption. Qed.
Lemma plain_skipn : forall k s, tex_name_ok s = true -> tex_name_ok (skipn k s) = true.
Proof. intros. apply forallb_skipn. assumption. Qed.

Lemma good_raw_app : forall a b, good (raw a) -> good (raw b) -> good (raw (a ++ b)).
Proof. intros. unfold raw in *. rewrite map_app. apply good_app; assumption. Qed.

Lemma good_print_symbol : forall f name, tex_name_ok name = true -> good (raw (print_symbol f name)).
Proof.
  induction f as [|f IH]; intros name H; simpl; [apply good_raw; exact H|].
  destruct (existsb _ name); [apply good_raw; exact H|].
  assert (Hrest : forall c rest, name = c :: rest -> tex_name_ok rest = true).
  { intros c rest ->. unfold tex_name_ok in *. simpl in H. apply andb_prop in H. apply H. }
  assert (Hmain : good (raw (if existsb (beq name) greeks then 92 :: name
            else match find_byte 95 name with
                 | None => name
                 | Some idx =>
                     if Nat.eqb idx (List.length name - 1) then name
                     else if Nat.ltb idx (List.length name - 2) then
                       print_symbol f (firstn idx name) ++ [95; 123]
                         ++ print_symbol f (skipn (S idx) name) ++ [125]
                     else print_symbol f (firstn idx name) ++ [95] ++ skipn (S idx) name
                 end))).
  { destruct (existsb (beq name) greeks).
    - change (raw (92 :: name)) with ([LC 92] ++ raw name). apply good_app; [|apply good_raw; exact H].
      apply good_iff_b. reflexivity.
    - destruct (find_byte 95 name) as [idx|]; [|apply good_raw; exact H].
      destruct (Nat.eqb idx _); [apply good_raw; exact H|].
      pose proof (IH _ (plain_firstn idx _ H)) as G1.
      destruct (Nat.ltb idx _).
      + pose proof (IH _ (plain_skipn (S idx) _ H)) as G2.
        unfold raw in *. rewrite !map_app. simpl List.map.
        set (A := List.map LC (print_symbol f (firstn idx name))) in *.
        set (B := List.map LC (print_symbol f (skipn (S idx) name))) in *.
        change (good (lflat [PHole A; PLit [LC 95; LC 123]; PHole B; PLit [LC 125]])).
        apply good_template; [|vm_compute; reflexivity].
        unfold lholes. repeat (apply Forall_cons; [first [exact I | assumption]|]). apply Forall_nil.
      + unfold raw in *. rewrite !map_app. apply good_app; [exact G1|]. apply good_app.
        * apply good_iff_b. reflexivity.
        * apply (good_raw _ (plain_skipn (S idx) _ H)). }
  destruct name as [|c rest]; [exact Hmain|].
  destruct (N.eq_dec c 95) as [->|Hne].
  - apply IH. eapply Hrest. reflexivity.
  - destruct c as [|q]; [exact Hmain|].
    do 7 (try destruct q as [q|q|]); try exact Hmain; exfalso; apply Hne; reflexivity.
Qed.

Lemma good_latex_symbol : forall nm, tex_name_ok nm = true -> good (latex_symbol nm).
Proof. intros. unfold latex_symbol. apply good_print_symbol. assumption. Qed.

(* ---------------------------------------------------------------- function names *)
Lemma tbl_find_In : forall {A} code (l : list (N * A)) v, tbl_find code l = Some v -> In v (List.map snd l).
Proof.
  induction l as [|[c w] l IH]; simpl; intros v H; [discriminate|].
  destruct (c =? code); [inv H; left; reflexivity | right; apply IH; exact H].
Qed.

Lemma good_fname : forall code, good (fname FLatex code).
Proof.
  intro code. apply good_iff_b. unfold fname, latex_name.
  destruct (tbl_find code latex_over) as [v|] eqn:E1.
  - apply tbl_find_In in E1.
    assert (F : forallb (fun v => latex_wf_b (lx v)) (List.map snd latex_over) = true) by (vm_compute; reflexivity).
    rewrite forallb_forall in F. apply F. exact E1.
  - destruct (tbl_find code str_names) as [v|] eqn:E2; [|reflexivity].
    apply tbl_find_In in E2.
    assert (F : forallb (fun v => latex_wf_b (lx (s_operatorname ++ v ++ [125]))) (List.map snd str_names) = true)
      by (vm_compute; reflexivity).
    rewrite forallb_forall in F. apply F. exact E2.
Qed.
#[local] Hint Resolve good_fname : good.

(* ---------------------------------------------------------------- joins *)
Lemma good_join : forall sep ls, good sep -> Forall good ls -> good (join sep ls).
Proof.
  intros sep ls Hs H. induction H as [|x ls Hx Hls IH]; simpl; [apply good_nil|].
  destruct ls; [exact Hx|]. apply good_app; [exact Hx|]. apply good_app; [exact Hs | exact IH].
Qed.

Lemma good_concat : forall ls, Forall good ls -> good (concat ls).
Proof. induction 1; simpl; [apply good_nil | apply good_app; assumption]. Qed.

Lemma lit_good : forall l, latex_wf_b l = true -> good l.
Proof. intros. apply good_iff_b. assumption. Qed.
