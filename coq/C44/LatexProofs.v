(* C44 -- LaTeX: under the guard, every \left / \right of latex(e) carries a delimiter and brace
   groups and \left..\right pairs nest. *)
From Coq Require Import List Bool NArith ZArith Lia.
Import ListNotations.
From SE Require Import C44.C44Spec C44.NestProofs C44.TextProofs C44.MathMLProofs.
Local Open Scope N_scope.

Lemma lkind_eqb_eq : forall a b, lkind_eqb a b = true <-> a = b.
Proof. destruct a, b; simpl; split; intro H; try reflexivity; discriminate. Qed.

Definition good (l : list ltok) : Prop := forallb ltok_ok l = true /\ wn (List.map lclass l).

Lemma good_iff_b : forall l, latex_wf_b l = true <-> good l.
Proof.
  intro l. unfold latex_wf_b, good. rewrite andb_true_iff.
  rewrite (chk_iff_wn lkind lkind_eqb lkind_eqb_eq). reflexivity.
Qed.
Lemma good_latex_wf : forall l, good l <-> latex_wf l.
Proof.
  intro l. unfold good, latex_wf. rewrite forallb_forall, Forall_forall. reflexivity.
Qed.

Lemma good_nil : good [].
Proof. split; [reflexivity | constructor]. Qed.
Lemma good_app : forall a b, good a -> good b -> good (a ++ b).
Proof.
  intros a b [Ha1 Ha2] [Hb1 Hb2]. split.
  - rewrite forallb_app, Ha1, Hb1. reflexivity.
  - rewrite map_app. apply wn_app; assumption.
Qed.

(* ---------------------------------------------------------------- templates over ltok *)
Inductive lpiece := PLit (l : list ltok) | PHole (l : list ltok).
Definition lbody (p : lpiece) : list ltok := match p with PLit l | PHole l => l end.
Definition llit (p : lpiece) : list ltok := match p with PLit l => l | PHole _ => [] end.
Definition lflat (ps : list lpiece) : list ltok := concat (List.map lbody ps).
Definition lskel (ps : list lpiece) : list ltok := concat (List.map llit ps).
Definition lholes (ps : list lpiece) : Prop :=
  Forall (fun p => match p with PHole h => good h | PLit _ => True end) ps.

Definition conv (p : lpiece) : piece lkind :=
  match p with PLit l => Lit lkind (List.map lclass l) | PHole l => Hole lkind (List.map lclass l) end.

Lemma map_lflat : forall ps, List.map lclass (lflat ps) = flat lkind (List.map conv ps).
Proof.
  induction ps as [|p ps IH]; unfold lflat, flat in *; simpl; [reflexivity|].
  rewrite map_app, IH. destruct p; reflexivity.
Qed.
Lemma map_lskel : forall ps, List.map lclass (lskel ps) = skel lkind (List.map conv ps).
Proof.
  induction ps as [|p ps IH]; unfold lskel, skel in *; simpl; [reflexivity|].
  rewrite map_app, IH. destruct p; reflexivity.
Qed.

Theorem good_template : forall ps, lholes ps -> latex_wf_b (lskel ps) = true -> good (lflat ps).
Proof.
  intros ps Hh Hs. apply good_iff_b in Hs. destruct Hs as [Hs1 Hs2]. split.
  - clear Hs2. induction Hh as [|p ps Hp Hps IH]; [reflexivity|].
    unfold lflat, lskel in *. simpl in *. rewrite forallb_app in *.
    apply andb_prop in Hs1. destruct Hs1 as [H1 H2]. rewrite (IH H2).
    destruct p as [l|h]; simpl in *; [rewrite H1 | destruct Hp as [Hp _]; rewrite Hp]; reflexivity.
  - rewrite map_lflat. apply (wn_template lkind lkind_eqb lkind_eqb_eq).
    + clear Hs1 Hs2. induction Hh as [|p ps Hp Hps IH]; [constructor|].
      simpl. constructor; [|exact IH]. destruct p; simpl; [exact I | apply Hp].
    + rewrite <- map_lskel. exact Hs2.
Qed.

(* reification: constants are literal pieces, everything else is a hole *)
Ltac reify_pieces l :=
  lazymatch l with
  | ?a ++ ?b => let ra := reify_pieces a in let rb := reify_pieces b in constr:(ra ++ rb)
  | @nil _ => constr:(@nil lpiece)
  | ?x :: ?r => let rr := reify_pieces r in constr:(PLit [x] :: rr)
  | ?x =>
      match x with
      | _ => let _ := match goal with _ => is_const x end in constr:([PLit x])
      | _ => constr:([PHole x])
      end
  end.
Ltac norm_app := repeat (cbn [app]; rewrite <- ?app_assoc); rewrite ?app_nil_r; cbn [app].
Ltac by_template :=
  lazymatch goal with
  | |- good ?l =>
      let ps := reify_pieces l in
      let ps' := eval cbn [app] in ps in
      replace l with (lflat ps')
        by (unfold lflat; cbn [List.map lbody concat]; norm_app; reflexivity);
      apply good_template;
      [ unfold lholes; repeat (apply Forall_cons; [try exact I | ]); try apply Forall_nil
      | vm_compute; reflexivity ]
  end.

(* ---------------------------------------------------------------- atoms *)
Definition tex_plain (c : N) : bool := negb ((c =? 92) || (c =? 123) || (c =? 125)).

Lemma good_raw : forall s, tex_name_ok s = true -> good (raw s).
Proof.
  intros s H. unfold raw. split.
  - apply forallb_map_const. reflexivity.
  - apply wn_atoms. apply Forall_forall. intros t Ht.
    apply in_map_iff in Ht. destruct Ht as (u & <- & Hu).
    apply in_map_iff in Hu. destruct Hu as (c & <- & Hc).
    unfold tex_name_ok in H. rewrite forallb_forall in H. specialize (H c Hc).
    simpl. destruct (N.eq_dec c 123) as [->|N1]; [discriminate|].
    destruct (N.eq_dec c 125) as [->|N2]; [discriminate|].
    destruct c as [|q]; [reflexivity|].
    do 7 (try destruct q as [q|q|]); try reflexivity; exfalso; (apply N1 + apply N2); reflexivity.
Qed.

Lemma tex_plain_digit : forall c, 48 <= c -> c <= 57 -> tex_plain c = true.
Proof.
  intros c H1 H2. unfold tex_plain.
  destruct (c =? 92) eqn:E1; [apply N.eqb_eq in E1; lia|].
  destruct (c =? 123) eqn:E2; [apply N.eqb_eq in E2; lia|].
  destruct (c =? 125) eqn:E3; [apply N.eqb_eq in E3; lia|]. reflexivity.
Qed.
Lemma plain_dec_Z : forall z, tex_name_ok (dec_Z z) = true.
Proof. intro z. apply (chars_dec_Z tex_plain tex_plain_digit); reflexivity. Qed.
Lemma plain_dec_N : forall n, tex_name_ok (dec_N n) = true.
Proof. intro n. apply (chars_dec_N tex_plain tex_plain_digit). Qed.
Lemma plain_double : forall b, tex_name_ok (print_double b) = true.
Proof. intro b. apply (chars_print_double tex_plain tex_plain_digit); reflexivity. Qed.

Lemma good_dec_Z : forall z, good (raw (dec_Z z)).
Proof. intro. apply good_raw, plain_dec_Z. Qed.
Lemma good_dec_N : forall n, good (raw (dec_N n)).
Proof. intro. apply good_raw, plain_dec_N. Qed.
Lemma good_double : forall b, good (raw (print_double b)).
Proof. intro. apply good_raw, plain_double. Qed.
Lemma good_tl_raw : forall s, tex_name_ok s = true -> good (tl (raw s)).
Proof.
  intros s H. destruct s as [|c s]; simpl; [apply good_nil|].
  apply good_raw. unfold tex_name_ok in *. simpl in H. apply andb_prop in H. apply H.
Qed.

#[local] Hint Resolve good_dec_Z good_dec_N good_double good_nil : good.

Lemma good_l_q : forall p q, good (l_q p q).
Proof.
  intros p q. unfold l_q. destruct q; try apply good_dec_Z;
    by_template; auto with good.
Qed.
#[local] Hint Resolve good_l_q : good.

Lemma good_l_complex : forall rn rd imn imd, good (l_complex rn rd imn imd).
Proof.
  intros. unfold l_complex.
  destruct (negb (rn =? 0)%Z); [|destruct (_ && _)].
  - destruct (0 <? imn)%Z; destruct (_ && _); by_template; auto with good.
  - destruct (0 <? imn)%Z; by_template.
  - by_template; auto with good.
Qed.

Lemma good_pnum : forall n, good (pnum FLatex n).
Proof.
  destruct n; cbn [pnum].
  - apply good_dec_Z.
  - apply good_l_q.
  - apply good_l_complex.
  - apply good_double.
  - destruct (dbl_negative im); by_template; auto with good. apply good_tl_raw, plain_double.
  - unfold p_infty. destruct (dir <? 0)%Z; [by_template|]. destruct (0 <? dir)%Z; by_template.
  - by_template.
Qed.
#[local] Hint Resolve good_pnum : good.

(* plain StrPrinter text of a number (Interval end points) *)
Lemma good_pnum_str : forall n, good (pnum FStr n).
Proof.
  assert (Hq : forall p q, good (p_q p q)) by (intros; unfold p_q; by_template; auto with good).
  assert (Hqi : forall p q, good (p_qi p q)) by (intros p q; unfold p_qi; destruct q; auto with good).
  destruct n; cbn [pnum print_mul imag_symbol].
  - apply good_dec_Z.
  - apply Hq.
  - unfold p_complex. cbn [print_mul imag_symbol].
    destruct (negb (rn =? 0)%Z); [|destruct (_ && _)].
    + destruct (0 <? imn)%Z; destruct (_ && _); by_template; auto with good.
    + destruct (0 <? imn)%Z; by_template.
    + by_template; auto with good.
  - apply good_double.
  - destruct (dbl_negative im); by_template; auto with good.
  - unfold p_infty. destruct (dir <? 0)%Z; [by_template|]. destruct (0 <? dir)%Z; by_template.
  - by_template.
Qed.

(* ---------------------------------------------------------------- symbols *)
Lemma plain_firstn : forall k s, tex_name_ok s = true -> tex_name_ok (firstn k s) = true.
Proof. intros. apply forallb_firstn. assumption. Qed.
Lemma plain_skipn : forall k s, tex_name_ok s = true -> tex_name_ok (skipn k s) = true.
Proof. intros. apply forallb_skipn. assumption. Qed.

Lemma good_raw_app : forall a b, good (raw a) -> good (raw b) -> good (raw (a ++ b)).
Proof. intros. unfold raw in *. rewrite map_app. apply good_app; assumption. Qed.

Lemma good_print_symbol : forall f name, tex_name_ok name = true -> good (raw (print_symbol f name)).
Proof.
  induction f as [|f IH]; intros name H; simpl; [apply good_raw; exact H|].
  destruct (existsb _ name); [apply good_raw; exact H|].
  assert (Hrest : forall c rest, name = c :: rest -> tex_name_ok rest = true).
  { intros c rest ->. unfold tex_name_ok in *. simpl in H. apply andb_prop in H. apply H. }
  assert (Hmain : good (raw (if existsb (beq name) greeks then 92 :: name
            else match find_byte 95 name with
                 | None => name
                 | Some idx =>
                     if Nat.eqb idx (List.length name - 1) then name
                     else if Nat.ltb idx (List.length name - 2) then
                       print_symbol f (firstn idx name) ++ [95; 123]
                         ++ print_symbol f (skipn (S idx) name) ++ [125]
                     else print_symbol f (firstn idx name) ++ [95] ++ skipn (S idx) name
                 end))).
  { destruct (existsb (beq name) greeks).
    - change (raw (92 :: name)) with ([LC 92] ++ raw name). apply good_app; [|apply good_raw; exact H].
      apply good_iff_b. reflexivity.
    - destruct (find_byte 95 name) as [idx|]; [|apply good_raw; exact H].
      destruct (Nat.eqb idx _); [apply good_raw; exact H|].
      pose proof (IH _ (plain_firstn idx _ H)) as G1.
      destruct (Nat.ltb idx _).
      + pose proof (IH _ (plain_skipn (S idx) _ H)) as G2.
        unfold raw in *. rewrite !map_app. simpl List.map.
        set (A := List.map LC (print_symbol f (firstn idx name))) in *.
        set (B := List.map LC (print_symbol f (skipn (S idx) name))) in *.
        change (good (lflat [PHole A; PLit [LC 95; LC 123]; PHole B; PLit [LC 125]])).
        apply good_template; [|vm_compute; reflexivity].
        unfold lholes. repeat (apply Forall_cons; [first [exact I | assumption]|]). apply Forall_nil.
      + unfold raw in *. rewrite !map_app. apply good_app; [exact G1|]. apply good_app.
        * apply good_iff_b. reflexivity.
        * apply (good_raw _ (plain_skipn (S idx) _ H)). }
  destruct name as [|c rest]; [exact Hmain|].
  destruct (N.eq_dec c 95) as [->|Hne].
  - apply IH. eapply Hrest. reflexivity.
  - destruct c as [|q]; [exact Hmain|].
    do 7 (try destruct q as [q|q|]); try exact Hmain; exfalso; apply Hne; reflexivity.
Qed.

Lemma good_latex_symbol : forall nm, tex_name_ok nm = true -> good (latex_symbol nm).
Proof. intros. unfold latex_symbol. apply good_print_symbol. assumption. Qed.

(* ---------------------------------------------------------------- function names *)
Lemma tbl_find_In : forall {A} code (l : list (N * A)) v, tbl_find code l = Some v -> In v (List.map snd l).
Proof.
  induction l as [|[c w] l IH]; simpl; intros v H; [discriminate|].
  destruct (c =? code); [inv H; left; reflexivity | right; apply IH; exact H].
Qed.

Lemma good_fname : forall code, good (fname FLatex code).
Proof.
  intro code. apply good_iff_b. unfold fname, latex_name.
  destruct (tbl_find code latex_over) as [v|] eqn:E1.
  - apply tbl_find_In in E1.
    assert (F : forallb (fun v => latex_wf_b (lx v)) (List.map snd latex_over) = true) by (vm_compute; reflexivity).
    rewrite forallb_forall in F. apply F. exact E1.
  - destruct (tbl_find code str_names) as [v|] eqn:E2; [|reflexivity].
    apply tbl_find_In in E2.
    assert (F : forallb (fun v => latex_wf_b (lx (s_operatorname ++ v ++ [125]))) (List.map snd str_names) = true)
      by (vm_compute; reflexivity).
    rewrite forallb_forall in F. apply F. exact E2.
Qed.
#[local] Hint Resolve good_fname : good.

(* ---------------------------------------------------------------- joins *)
Lemma good_join : forall sep ls, good sep -> Forall good ls -> good (join sep ls).
Proof.
  intros sep ls Hs H. induction H as [|x ls Hx Hls IH]; simpl; [apply good_nil|].
  destruct ls; [exact Hx|]. apply good_app; [exact Hx|]. apply good_app; [exact Hs | exact IH].
Qed.

Lemma good_concat : forall ls, Forall good ls -> good (concat ls).
Proof. induction 1; simpl; [apply good_nil | apply good_app; assumption]. Qed.

Lemma lit_good : forall l, latex_wf_b l = true -> good l.
Proof. intros. apply good_iff_b. assumption. Qed.

(* ---------------------------------------------------------------- the recursion (flavour FLatex) *)
Lemma mapM_good : forall {A} (f : A -> res (list ltok)) (P : A -> Prop) l ls,
  (forall x y, P x -> f x = Ok y -> good y) -> Forall P l -> mapM f l = Ok ls -> Forall good ls.
Proof.
  intros A f P l ls Hf HP HM. apply mapM_Forall2 in HM. induction HM.
  - constructor.
  - inv HP. constructor; eauto.
Qed.

(* a stream that is empty or ends with an atom (the one-byte print_mul(), or the sign) *)
Definition tail_atom (o : list ltok) : Prop :=
  o = [] \/ exists X t, o = X ++ [t] /\ lclass t = BA.

Lemma good_removelast : forall o, good o -> tail_atom o -> good (removelast o).
Proof.
  intros o G [->|(X & t & -> & Ht)]; [apply good_nil|].
  rewrite removelast_last. destruct G as [G1 G2]. split.
  - rewrite forallb_app in G1. apply andb_prop in G1. apply G1.
  - rewrite map_app in G2. simpl in G2. rewrite Ht in G2.
    apply (wn_snoc_atom_inv lkind lkind_eqb lkind_eqb_eq). exact G2.
Qed.

Lemma tail_atom_snoc : forall o t, lclass t = BA -> tail_atom (o ++ [t]).
Proof. intros. right. exists o, t. split; [reflexivity | assumption]. Qed.

Lemma Ok_inj : forall {A} (a b : A), Ok a = Ok b -> a = b.
Proof. intros A a b H. injection H. auto. Qed.
Ltac oki H := apply Ok_inj in H; subst.

Ltac rb H :=
  unfold rbind in H;
  repeat match type of H with
         | match ?r with _ => _ end = Ok _ =>
             let E := fresh "E" in destruct r eqn:E; try discriminate
         end.

Lemma rel_op_good : forall code op, rel_op FLatex code = Some op -> good op.
Proof.
  intros code op H. unfold rel_op in H.
  repeat match type of H with
         | (if ?c then _ else _) = _ => destruct c; [inv H; apply lit_good; reflexivity|]
         end.
  discriminate.
Qed.

Section Rec.
  Variable rec : flavour -> expr -> res (list ltok).
  Hypothesis IH : forall e l, latex_guard e = true -> rec FLatex e = Ok l -> good l.

  Lemma app_good : forall e l, latex_guard e = true -> StrModel.app rec FLatex e = Ok l -> good l.
  Proof.
    intros e l G H. destruct e; simpl in H; try (eapply IH; eassumption).
    oki H. apply good_pnum.
  Qed.

  Lemma paren_good : forall s, good s -> good (parenthesize FLatex s).
  Proof. intros s Hs. unfold parenthesize. by_template. exact Hs. Qed.

  Lemma paren_lt_good : forall e p l, latex_guard e = true -> paren_lt rec FLatex e p = Ok l -> good l.
  Proof.
    intros e p l G H. unfold paren_lt in H. rb H. oki H.
    pose proof (app_good _ _ G E) as Ga. destruct (precedence e <? p); [apply paren_good|]; exact Ga.
  Qed.
  Lemma paren_le_good : forall e p l, latex_guard e = true -> paren_le rec FLatex e p = Ok l -> good l.
  Proof.
    intros e p l G H. unfold paren_le in H. rb H. oki H.
    pose proof (app_good _ _ G E) as Ga. destruct (precedence e <=? p); [apply paren_good|]; exact Ga.
  Qed.

  Lemma mapM_app_good : forall l ls,
    forallb latex_guard l = true -> mapM (StrModel.app rec FLatex) l = Ok ls -> Forall good ls.
  Proof.
    intros l ls G H. eapply (mapM_good _ (fun x => latex_guard x = true)); [apply app_good | | exact H].
    apply Forall_forall. apply forallb_forall. exact G.
  Qed.

  Lemma app_vec_good : forall l s, forallb latex_guard l = true -> app_vec rec FLatex l = Ok s -> good s.
  Proof.
    intros l s G H. unfold app_vec in H. rb H. oki H.
    apply good_join; [apply lit_good; reflexivity | eapply mapM_app_good; eauto].
  Qed.

  Lemma latex_guard_num : forall n, latex_guard (ENum n) = true.
  Proof. reflexivity. Qed.

  Lemma print_pow_good : forall a c l,
    latex_guard a = true -> latex_guard c = true -> print_pow rec FLatex a c = Ok l -> good l.
  Proof.
    intros a c l Ga Gc H. unfold print_pow in H.
    destruct (is_E a).
    { rb H. oki H. pose proof (app_good _ _ Gc E). by_template. assumption. }
    destruct (is_half c).
    { rb H. oki H. pose proof (app_good _ _ Ga E). by_template. assumption. }
    assert (Hdef : rbind (paren_le rec FLatex a PREC_Pow) (fun sa =>
                   rbind (StrModel.app rec FLatex c) (fun sc =>
                     Ok (sa ++ (if Nat.ltb 1 (lbytes sc) then t_caretbr ++ sc ++ t_rbrace
                                else t_caret ++ sc)))) = Ok l -> good l).
    { intro H'. rb H'. oki H'. pose proof (paren_le_good _ _ _ Ga E) as G1.
      pose proof (app_good _ _ Gc E0) as G2.
      match goal with |- good (_ ++ (if ?cnd then _ else _)) => destruct cnd end; by_template; assumption. }
    destruct c as [n|nm|nm idx|nm|c0 d0|c0 d|b x|code a0|code a0 b0|code args|nm args|code a0 b0|a0 xs|a0 d0|pl|bv|s0 e0 lo ro|code];
      try exact (Hdef H).
    destruct n as [z|p q|rn rd imn imd|bb|re im|dd|]; try exact (Hdef H).
    destruct p as [|pp|pp]; try exact (Hdef H).
    destruct pp; try exact (Hdef H).
    rb H. oki H. pose proof (app_good _ _ Ga E). by_template; auto with good.
  Qed.

  Lemma add_term_good : forall k v l, latex_guard k = true -> add_term rec FLatex k v = Ok l -> good l.
  Proof.
    intros k v l G H. unfold add_term in H.
    destruct (num_is v 1); [eapply paren_lt_good; eauto|].
    destruct (num_is v (-1)).
    { rb H. oki H. pose proof (paren_lt_good _ _ _ G E). by_template. assumption. }
    rb H. oki H. pose proof (paren_lt_good _ _ _ (latex_guard_num v) E).
    pose proof (paren_lt_good _ _ _ G E0). unfold print_mul. by_template; assumption.
  Qed.

  Lemma good_cons_atom_inv : forall t l, lclass t = BA -> good (t :: l) -> good l.
  Proof.
    intros t l Ht [G1 G2]. split.
    - simpl in G1. apply andb_prop in G1. apply G1.
    - simpl in G2. rewrite Ht in G2. apply (wn_atom_inv lkind). exact G2.
  Qed.

  Lemma add_terms_good : forall d first l,
    forallb (fun p => latex_guard (fst p)) d = true -> add_terms rec FLatex first d = Ok l -> good l.
  Proof.
    induction d as [|[k v] d IHd]; intros first l G H; simpl in H.
    - oki H. apply good_nil.
    - simpl in G. apply andb_prop in G. destruct G as [Gk Gd].
      rb H. oki H. pose proof (add_term_good _ _ _ Gk E) as Gt. pose proof (IHd _ _ Gd E0) as Gr.
      apply good_app; [|exact Gr].
      destruct first; [exact Gt|].
      assert (Hplus : good (t_plus ++ a)) by (by_template; exact Gt).
      destruct a as [|t tl0]; [exact Hplus|].
      destruct t as [c|c|dl|dl]; try exact Hplus.
      destruct (N.eq_dec c 45) as [->|Hne].
      + assert (good tl0) by (eapply good_cons_atom_inv; [|exact Gt]; reflexivity).
        change (good (t_minus ++ tl0)). by_template. assumption.
      + destruct c as [|q]; [exact Hplus|].
        do 6 (try destruct q as [q|q|]); try exact Hplus; exfalso; apply Hne; reflexivity.
  Qed.

  Lemma pmap_insert_guard : forall k v m,
    latex_guard k = true -> forallb (fun p => latex_guard (fst p)) m = true ->
    forallb (fun p => latex_guard (fst p)) (pmap_insert k v m) = true.
  Proof.
    induction m as [|[k' v'] m IHm]; intros Gk Gm; simpl.
    - rewrite Gk. reflexivity.
    - simpl in Gm. apply andb_prop in Gm. destruct Gm as [G1 G2].
      destruct (printer_lt k' k); simpl.
      + rewrite G1. simpl. apply IHm; assumption.
      + destruct (printer_lt k k'); simpl; rewrite ?Gk, ?G1, ?G2; reflexivity.
  Qed.
  Lemma pmap_of_guard : forall d,
    forallb (fun p => latex_guard (fst p)) d = true ->
    forallb (fun p => latex_guard (fst p)) (pmap_of d) = true.
  Proof.
    intros d G. unfold pmap_of.
    assert (forall m, forallb (fun p => latex_guard (fst p)) m = true ->
                      forallb (fun p => latex_guard (fst p))
                        (fold_left (fun m p => pmap_insert (fst p) (snd p) m) d m) = true) as Hgen.
    { induction d as [|[k v] d IHd]; intros m Gm; simpl; [exact Gm|].
      simpl in G. apply andb_prop in G. destruct G as [Gk Gd].
      apply IHd; [exact Gd|]. apply pmap_insert_guard; assumption. }
    apply Hgen. reflexivity.
  Qed.

  Lemma print_add_good : forall c d l,
    forallb (fun p => latex_guard (fst p)) d = true -> print_add rec FLatex c d = Ok l -> good l.
  Proof.
    intros c d l G H. unfold print_add in H. pose proof (pmap_of_guard _ G) as Gs.
    destruct (negb (num_is c 0)).
    - rb H. oki H. apply good_app; [apply good_pnum | eapply add_terms_good; eauto].
    - eapply add_terms_good; eauto.
  Qed.

  (* the dictionary loop of Mul *)
  Lemma mul_factors_good : forall d o num o2 den o' num' o2' den',
    forallb (fun q => latex_guard (fst q) && latex_guard (snd q)) d = true ->
    good o -> tail_atom o -> good o2 -> tail_atom o2 ->
    mul_factors rec FLatex d o num o2 den = Ok (o', num', o2', den') ->
    good o' /\ tail_atom o' /\ good o2' /\ tail_atom o2'.
  Proof.
    induction d as [|[b x] d IHd]; intros o num o2 den o' num' o2' den' G Go To Go2 To2 H; simpl in H.
    - inv H. auto.
    - simpl in G. apply andb_prop in G. destruct G as [Gbx Gd]. apply andb_prop in Gbx. destruct Gbx as [Gb Gx].
      assert (Hfac : True) by exact I. clear Hfac.
      destruct (if is_E b then None else neg_rational_exp x) as [nx|].
      + rb H.
        assert (good a).
        { destruct (num_is nx 1); [exact (paren_lt_good _ _ _ Gb E) | exact (print_pow_good _ _ _ Gb (latex_guard_num nx) E)]. }
        eapply IHd; [exact Gd | exact Go | exact To | | | exact H].
        * unfold print_mul. by_template; assumption.
        * unfold print_mul. rewrite app_assoc. apply tail_atom_snoc. reflexivity.
      + rb H.
        assert (good a).
        { destruct (is_num_int x 1); [exact (paren_lt_good _ _ _ Gb E) | exact (print_pow_good _ _ _ Gb Gx E)]. }
        eapply IHd; [exact Gd | | | exact Go2 | exact To2 | exact H].
        * unfold print_mul. by_template; assumption.
        * unfold print_mul. rewrite app_assoc. apply tail_atom_snoc. reflexivity.
  Qed.

  Lemma print_mul_node_good : forall c d l,
    forallb (fun q => latex_guard (fst q) && latex_guard (snd q)) d = true ->
    print_mul_node rec FLatex c d = Ok l -> good l.
  Proof.
    intros c d l G H. unfold print_mul_node in H.
    (* the state before the dictionary loop *)
    match type of H with
    | rbind ?init ?k = _ =>
        assert (Hinit : forall o0 num0 o20 den0, init = Ok (o0, num0, o20, den0) ->
                  good o0 /\ tail_atom o0 /\ good o20 /\ tail_atom o20)
    end.
    { intros o0 num0 o20 den0 Hi.
      destruct (num_is c (-1)).
      { inv Hi. repeat split; try apply good_nil; try (left; reflexivity).
        - apply lit_good. reflexivity.
        - apply (tail_atom_snoc [] (LC 45)). reflexivity. }
      destruct (negb (num_is c 1)); [|inv Hi; repeat split; try apply good_nil; left; reflexivity].
      cbn [split_mul_coef negb] in Hi. destruct (coef_numer_denom c) as [numer denom].
      rb Hi. inv Hi. cbn [fst snd].
      assert (Hpart : forall (m : number) (b : bool) (r : list ltok * bool),
                (if b then rbind (paren_lt rec FLatex (ENum m) PREC_Mul) (fun s => Ok (s ++ print_mul FLatex, true))
                 else Ok ([], false)) = Ok r -> good (fst r) /\ tail_atom (fst r)).
      { intros m b0 r Hr. destruct b0.
        - rb Hr. oki Hr. cbn [fst]. pose proof (paren_lt_good _ _ _ (latex_guard_num m) E1).
          split; [unfold print_mul; by_template; assumption | apply tail_atom_snoc; reflexivity].
        - oki Hr. split; [apply good_nil | left; reflexivity]. }
      assert (Hpart2 : forall (m : number) (b : bool) (r : list ltok * nat),
                (if b then rbind (paren_lt rec FLatex (ENum m) PREC_Mul) (fun s => Ok (s ++ print_mul FLatex, S O))
                 else Ok ([], O)) = Ok r -> good (fst r) /\ tail_atom (fst r)).
      { intros m b0 r Hr. destruct b0.
        - rb Hr. oki Hr. cbn [fst]. pose proof (paren_lt_good _ _ _ (latex_guard_num m) E1).
          split; [unfold print_mul; by_template; assumption | apply tail_atom_snoc; reflexivity].
        - oki Hr. split; [apply good_nil | left; reflexivity]. }
      destruct (Hpart _ _ _ E) as [? ?]. destruct (Hpart2 _ _ _ E0) as [? ?]. auto. }
    match type of H with
    | rbind ?init _ = _ => destruct init as [[[[o0 num0] o20] den0]| | |] eqn:Ei; try discriminate
    end.
    destruct (Hinit _ _ _ _ eq_refl) as (Go0 & To0 & Go20 & To20). clear Hinit.
    cbn [rbind] in H.
    destruct (mul_factors rec FLatex d o0 num0 o20 den0) as [[[[o num] o2] den]| | |] eqn:Em; try discriminate.
    cbn [rbind] in H.
    destruct (mul_factors_good _ _ _ _ _ _ _ _ _ G Go0 To0 Go20 To20 Em) as (Go & To & Go2 & To2).
    assert (Gs : good (removelast (if num then o else o ++ t_one ++ print_mul FLatex))).
    { apply good_removelast.
      - destruct num; [exact Go|]. unfold print_mul. by_template. exact Go.
      - destruct num; [exact To|]. unfold print_mul. rewrite app_assoc. apply tail_atom_snoc. reflexivity. }
    pose proof (good_removelast _ Go2 To2) as Gs2.
    destruct den as [|[|den]]; oki H; [exact Gs | |]; unfold print_div; by_template; assumption.
  Qed.

  Lemma print_function_good : forall code args l,
    forallb latex_guard args = true -> print_function rec FLatex code args = Ok l -> good l.
  Proof.
    intros code args l G H. unfold print_function in H. rb H. oki H.
    pose proof (app_vec_good _ _ G E). unfold parenthesize. by_template; auto with good.
  Qed.

  Lemma print_logic_good : forall code args l,
    forallb latex_guard args = true -> print_logic rec FLatex code args = Ok l -> good l.
  Proof.
    intros code args l G H. unfold print_logic in H. rb H. oki H.
    apply good_join.
    - unfold latex_logic_op. destruct (code =? TC_And); [apply lit_good; reflexivity|].
      destruct (code =? TC_Or); apply lit_good; reflexivity.
    - eapply (mapM_good _ (fun x => latex_guard x = true)); [| |exact E].
      + intros x y Gx Hx. rb Hx. oki Hx. pose proof (app_good _ _ Gx E0).
        destruct (is_logic_other code x); [apply paren_good|]; assumption.
      + apply Forall_forall. apply forallb_forall. exact G.
  Qed.

  Lemma deriv_groups_good : forall rest prev count l,
    latex_guard prev = true -> forallb latex_guard rest = true ->
    deriv_groups rec prev count rest = Ok l -> good l.
  Proof.
    induction rest as [|x rest IHr]; intros prev count l Gp Gr H; simpl in H.
    - rb H. oki H. pose proof (app_good _ _ Gp E).
      destruct (count =? 1); by_template; auto with good.
    - simpl in Gr. apply andb_prop in Gr. destruct Gr as [Gx Gr].
      destruct (negb (expr_eqb prev x)).
      + rb H. oki H. pose proof (app_good _ _ Gp E). pose proof (IHr _ _ _ Gx Gr E0).
        destruct (count =? 1); by_template; auto with good.
      + eapply IHr; eauto.
  Qed.

  Lemma p_constant_good : forall nm l, p_constant FLatex nm = Ok l -> good l.
  Proof.
    intros nm l H. unfold p_constant in H.
    repeat match type of H with
           | (if ?c then _ else _) = _ => destruct c; [oki H; apply lit_good; reflexivity|]
           end.
    discriminate.
  Qed.
  Lemma p_atom_good : forall code l, p_atom FLatex code = Ok l -> good l.
  Proof.
    intros code l H. unfold p_atom in H.
    repeat match type of H with
           | (if ?c then _ else _) = _ => destruct c; [oki H; apply lit_good; reflexivity|]
           end.
    discriminate.
  Qed.

  Lemma print_node_good : forall e l, latex_guard e = true -> print_node rec FLatex e = Ok l -> good l.
  Proof.
    intros e l G H. unfold latex_guard in G.
    destruct e as [n|nm|nm idx|nm|c d|c d|b x|code a|code a c|code args|nm args|code a c|a xs|a d|pl|bv|s x lo ro|code];
      cbn [all_nodes] in G; apply andb_prop in G; destruct G as [Gn Gk]; cbn [print_node] in H.
    - (* ENum *) oki H. apply good_pnum.
    - (* ESym *) oki H. apply good_latex_symbol. unfold latex_node_ok in Gn. simpl in Gn.
      apply andb_prop in Gn. apply Gn.
    - (* EDummy *) oki H. apply good_latex_symbol. unfold latex_node_ok in Gn. simpl in Gn.
      apply andb_prop in Gn. apply Gn.
    - (* EConst *) eapply p_constant_good; eauto.
    - (* EAdd *) eapply print_add_good; eauto.
    - (* EMul *) eapply print_mul_node_good; eauto.
    - (* EPow *) apply andb_prop in Gk. destruct Gk as [G1 G2]. exact (print_pow_good _ _ _ G1 G2 H).
    - (* EF1 *)
      destruct (code =? TC_Not).
      { rb H. oki H. pose proof (app_good _ _ Gk E). by_template. assumption. }
      destruct (code =? TC_Abs).
      { rb H. oki H. pose proof (app_good _ _ Gk E). by_template. assumption. }
      destruct (code =? TC_Floor).
      { rb H. oki H. pose proof (app_good _ _ Gk E). by_template. assumption. }
      destruct (code =? TC_Ceiling).
      { rb H. oki H. pose proof (app_good _ _ Gk E). by_template. assumption. }
      eapply print_function_good; [|exact H]. simpl. unfold latex_guard. rewrite Gk. reflexivity.
    - (* EF2 *)
      apply andb_prop in Gk. destruct Gk as [G1 G2].
      destruct (rel_op FLatex code) as [op|] eqn:ER.
      + rb H. oki H. pose proof (app_good _ _ G1 E). pose proof (app_good _ _ G2 E0).
        pose proof (rel_op_good _ _ ER). by_template; assumption.
      + eapply print_function_good; [|exact H]. simpl. unfold latex_guard. rewrite G1, G2. reflexivity.
    - (* EFN *)
      destruct ((code =? TC_And) || (code =? TC_Or) || (code =? TC_Xor)); [eapply print_logic_good; eauto|].
      unfold latex_node_ok in Gn. simpl in Gn.
      destruct (code =? TC_FiniteSet); [simpl in Gn; discriminate|].
      destruct (code =? TC_Union).
      { rb H. oki H. apply good_join; [apply lit_good; reflexivity | eapply mapM_app_good; eauto]. }
      destruct (code =? TC_Intersection).
      { rb H. oki H. apply good_join; [apply lit_good; reflexivity | eapply mapM_app_good; eauto]. }
      destruct (code =? TC_ConditionSet).
      { destruct args as [|sym [|cond [|? ?]]]; try discriminate.
        simpl in Gk. apply andb_prop in Gk. destruct Gk as [Gs Gc]. apply andb_prop in Gc. destruct Gc as [Gc _].
        rb H. oki H. pose proof (app_good _ _ Gs E). pose proof (app_good _ _ Gc E0). by_template; assumption. }
      destruct (code =? TC_ImageSet).
      { destruct args as [|sym [|ex [|base [|? ?]]]]; try discriminate.
        simpl in Gk. apply andb_prop in Gk. destruct Gk as [Gs Gk]. apply andb_prop in Gk. destruct Gk as [Gx Gk].
        apply andb_prop in Gk. destruct Gk as [Gb _].
        rb H. oki H. pose proof (app_good _ _ Gx E). pose proof (app_good _ _ Gs E0). pose proof (app_good _ _ Gb E1).
        by_template; assumption. }
      eapply print_function_good; eauto.
    - (* EFunSym *)
      rb H. oki H. pose proof (app_vec_good _ _ Gk E).
      assert (good (raw nm)).
      { apply good_raw. unfold latex_node_ok in Gn. simpl in Gn. apply andb_prop in Gn. apply Gn. }
      unfold parenthesize. by_template; assumption.
    - (* ELex *)
      apply andb_prop in Gk. destruct Gk as [G1 G2].
      destruct (code =? TC_Contains).
      { rb H. oki H. pose proof (app_good _ _ G1 E). pose proof (app_good _ _ G2 E0). by_template; assumption. }
      destruct (code =? TC_Complement); [|discriminate].
      rb H. oki H. pose proof (app_good _ _ G1 E). pose proof (app_good _ _ G2 E0). by_template; assumption.
    - (* EDeriv *)
      apply andb_prop in Gk. destruct Gk as [Ga Gx].
      rb H. oki H. pose proof (app_good _ _ Ga E0) as Garg.
      destruct xs as [|x0 [|x1 xr]].
      + discriminate.
      + simpl in Gx. apply andb_prop in Gx. destruct Gx as [Gx0 _].
        rb E. oki E. pose proof (app_good _ _ Gx0 E1).
        match goal with |- good (((if ?cnd then _ else _) ++ _) ++ _) => destruct cnd end; by_template; assumption.
      + simpl in Gx. apply andb_prop in Gx. destruct Gx as [Gx0 Gxr].
        rb E. oki E. pose proof (deriv_groups_good (x1 :: xr) x0 1 _ Gx0 Gxr E1). by_template; auto with good.
    - (* ESubs *)
      apply andb_prop in Gk. destruct Gk as [Ga Gd].
      rb H. oki H. pose proof (app_good _ _ Ga E).
      assert (good (join t_lsubs_sep a1)).
      { apply good_join; [apply lit_good; reflexivity|].
        eapply (mapM_good _ (fun p => latex_guard (fst p) = true /\ latex_guard (snd p) = true)); [| |exact E0].
        - intros p y [Gp1 Gp2] Hp. rb Hp. oki Hp.
          pose proof (app_good _ _ Gp1 E1). pose proof (app_good _ _ Gp2 E2). by_template; assumption.
        - apply Forall_forall. intros q Hq. rewrite forallb_forall in Gd. specialize (Gd q Hq).
          apply andb_prop in Gd. exact Gd. }
      by_template; assumption.
    - (* EPw *)
      rb H. oki H. apply good_app; [apply lit_good; reflexivity|].
      clear Gn. revert a E. induction pl as [|[x0 c0] pl IHp]; intros a E; simpl in E.
      + oki E. apply good_nil.
      + simpl in Gk. apply andb_prop in Gk. destruct Gk as [Gxc Gk]. apply andb_prop in Gxc. destruct Gxc as [Gx0 Gc0].
        destruct pl as [|p1 pl'].
        * rb E; oki E; by_template;
            match goal with
            | Hg : all_nodes latex_node_ok ?x = true, He : StrModel.app rec FLatex ?x = Ok ?r |- good ?r =>
                exact (app_good x r Hg He)
            end.
        * rb E. oki E. pose proof (app_good _ _ Gx0 E0). pose proof (app_good _ _ Gc0 E1).
          pose proof (IHp Gk _ E2). by_template; assumption.
    - (* EBool *) oki H. destruct bv; apply lit_good; reflexivity.
    - (* EInterval *)
      unfold latex_node_ok in Gn. simpl in Gn.
      destruct s as [ns| | | | | | | | | | | | | | | | |]; try discriminate.
      destruct x as [nx| | | | | | | | | | | | | | | | |]; try discriminate.
      simpl in H. oki H. pose proof (good_pnum_str ns). pose proof (good_pnum_str nx).
      destruct lo, ro; by_template; assumption.
    - (* EAtom *) eapply p_atom_good; eauto.
  Qed.
End Rec.

Lemma sp_fuel_good : forall f e l, latex_guard e = true -> sp_fuel f FLatex e = Ok l -> good l.
Proof.
  induction f as [|f IHfuel]; intros e l G H; [discriminate|].
  simpl in H. eapply print_node_good; [|exact G|exact H]. exact IHfuel.
Qed.

Theorem latex_balanced : forall e l, latex_guard e = true -> latex_toks e = Ok l -> latex_wf l.
Proof. intros e l G H. apply good_latex_wf. eapply sp_fuel_good; eauto. Qed.

(* the checker decides the specification *)
Theorem latex_checker_iff : forall l, latex_wf_b l = true <-> latex_wf l.
Proof. intro l. rewrite good_iff_b. apply good_latex_wf. Qed.

(* the FiniteSet rule ("\left{" ... "\right}") violates the property: the guard is necessary *)
Definition finiteset_witness : expr := EFN TC_FiniteSet [ENum (NInt 1); ENum (NInt 2)].
Theorem latex_balanced_refuted :
  exists l, latex_toks finiteset_witness = Ok l /\ ~ latex_wf l
            /\ lrender l = [92; 108; 101; 102; 116; 123; 49; 32; 44; 32; 50; 92; 114; 105; 103; 104; 116; 125].
Proof.
  eexists. split; [vm_compute; reflexivity|]. split; [|vm_compute; reflexivity].
  intro H. apply latex_checker_iff in H. vm_compute in H. discriminate.
Qed.
