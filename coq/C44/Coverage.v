(* C44 -- the per-class rule table: for every class of type_codes.inc and every printer, whether
   the printer has a rule (an own or inherited bvisit that prints the node), throws by design
   (MathMLPrinter::bvisit(const Basic &)), prints the fallback text with an address
   (UnicodePrinter::bvisit(const Basic &)) or is outside the modelled AST (polynomial, series,
   matrix classes, wrappers, MPFR/MPC numbers, Tuple).  P_coverage proves that the table covers
   every code below TypeID_Count and that the models behave as the table says on every class.
   Model file: no proofs. *)
From Coq Require Import String.
From SE Require Export C44.MathMLModel C44.StrModel C44.BoxModel C44.Sbml.
Local Open Scope N_scope.

Inductive printer := PMathML | PLatex | PUnicode | PJulia | PSbml.
Inductive rule := RRule | RThrows | RFallback | ROutside.

Definition outside_codes : list N :=
  [TC_RealMPFR; TC_ComplexMPC; TC_URatPSeriesPiranha; TC_UPSeriesPiranha; TC_URatPSeriesFlint;
   TC_NumberWrapper; TC_UIntPoly; TC_MIntPoly; TC_URatPoly; TC_UExprPoly; TC_MExprPoly;
   TC_UIntPolyPiranha; TC_URatPolyPiranha; TC_UIntPolyFlint; TC_URatPolyFlint; TC_GaloisField;
   TC_UnivariateSeries; TC_FunctionWrapper; TC_Tuple; TC_IdentityMatrix; TC_ZeroMatrix;
   TC_MatrixSymbol; TC_DiagonalMatrix; TC_ImmutableDenseMatrix; TC_MatrixAdd; TC_MatrixMul;
   TC_HadamardProduct; TC_Trace; TC_ConjugateMatrix; TC_Transpose].

Definition fn_codes44 : list N := fn_codes ++ [TC_ConditionSet; TC_ImageSet].

(* the constructor (index as in Guards.ctor_kind) that models the class with type code c *)
Definition kind44 (c : N) : N :=
  if memN c fn_codes44 then 9 else kind_of_code c.
Definition class_ok (e : expr) : bool := kind44 (type_code e) =? ctor_kind e.

Definition modelled (c : N) : bool := negb (kind44 c =? 99).

Definition mathml_throws : list N :=
  [TC_Infty; TC_NaN; TC_Subs; TC_Intersection; TC_Naturals; TC_Naturals0; TC_UniversalSet].
Definition unicode_fallback : list N := [TC_Derivative; TC_Subs].

Definition rule_of (p : printer) (c : N) : rule :=
  if negb (modelled c) then ROutside
  else match p with
       | PMathML => if memN c mathml_throws then RThrows else RRule
       | PUnicode => if memN c unicode_fallback then RFallback else RRule
       | _ => RRule
       end.

(* one node of every modelled class (children are symbols) *)
Definition sx : expr := ESym [120].
Definition sy : expr := ESym [121].
Definition sample_of (c : N) : expr :=
  let k := kind44 c in
  if c =? TC_Integer then ENum (NInt 2)
  else if c =? TC_Rational then ENum (NRat 1 2)
  else if c =? TC_Complex then ENum (NCplx 1 1 1 1)
  else if c =? TC_ComplexDouble then ENum (NCDbl 4607182418800017408 4611686018427387904)
  else if c =? TC_RealDouble then ENum (NDbl 4607182418800017408)
  else if c =? TC_Infty then ENum (NInf 1)
  else if c =? TC_NaN then ENum NNaN
  else if k =? 1 then sx
  else if k =? 2 then EDummy [120] 3
  else if k =? 3 then EConst nm_pi
  else if k =? 4 then EAdd (NInt 1) [(sx, NInt 1); (sy, NInt 2)]
  else if k =? 5 then EMul (NInt 2) [(sx, ENum (NInt 1)); (sy, ENum (NInt (-1)))]
  else if k =? 6 then EPow sx sy
  else if k =? 7 then EF1 c (if c =? TC_Not then ELex TC_Contains sx (EAtom TC_Reals) else sx)
  else if k =? 8 then EF2 c sx sy
  else if c =? TC_ConditionSet then EFN c [sx; EF2 TC_StrictLessThan sx sy]
  else if c =? TC_ImageSet then EFN c [sx; EPow sx sy; EAtom TC_Reals]
  else if k =? 9 then EFN c [sx; sy]
  else if k =? 10 then EFunSym [102] [sx; sy]
  else if k =? 11 then ELex c sx (EAtom TC_Reals)
  else if k =? 12 then EDeriv (EFunSym [102] [sx; sy]) [sx; sx; sy]
  else if k =? 13 then ESubs (EDeriv (EFunSym [102] [sx]) [sx]) [(sx, sy)]
  else if k =? 14 then EPw [(sx, EF2 TC_StrictLessThan sx sy); (sy, EBool true)]
  else if k =? 15 then EBool true
  else if k =? 16 then EInterval (ENum (NInt 0)) (ENum (NInt 1)) false true
  else EAtom c.

Definition res_class {A} (r : res A) : rule :=
  match r with
  | Ok _ => RRule
  | ErrExn c => if c =? EXN_FALLBACK then RFallback else RThrows
  | _ => ROutside
  end.

Definition run_printer (p : printer) (e : expr) : rule :=
  match p with
  | PMathML => res_class (mathml_toks e)
  | PLatex => res_class (latex_toks e)
  | PUnicode => res_class (unicode_box e)
  | PJulia => res_class (sp_toks FJulia e)
  | PSbml => res_class (sp_toks FSbml e)
  end.

Definition all_printers : list printer := [PMathML; PLatex; PUnicode; PJulia; PSbml].
Definition rule_eqb (a b : rule) : bool :=
  match a, b with
  | RRule, RRule | RThrows, RThrows | RFallback, RFallback | ROutside, ROutside => true
  | _, _ => false
  end.

(* the codes 0 .. TypeID_Count - 1 *)
Definition all_codes : list N := List.map N.of_nat (seq 0 (N.to_nat TC_Count)).

(* class name tables for the evidence: the modelled codes *)
Definition modelled_codes : list N := filter modelled all_codes.
