(* C44 -- the function-name tables of the printers, transcribed from
     init_str_printer_names      (symengine/printers/strprinter.cpp)
     init_mathml_printer_names   (mathml.cpp)       init_sbml_printer_names (sbml.cpp)
     init_latex_printer_names    (latex.cpp)        init_unicode_printer_names / _lengths (unicode.cpp)
   Each derived table is "the str table, then these assignments".  checks/C44.py re-reads the
   assignments from the C++ sources on every run and compares them with the tables below
   (printed by the extracted model), so a changed source table is noticed even where no test
   expression reaches the entry.  Model file: no proofs. *)
From Coq Require Import String.
From SE Require Export C44.PrintBase.
Local Open Scope N_scope.

Definition str_names : list (N * list N) := Eval compute in [
  (TC_Sin, bs "sin"); (TC_Cos, bs "cos"); (TC_Tan, bs "tan"); (TC_Cot, bs "cot");
  (TC_Csc, bs "csc"); (TC_Sec, bs "sec"); (TC_ASin, bs "asin"); (TC_ACos, bs "acos");
  (TC_ASec, bs "asec"); (TC_ACsc, bs "acsc"); (TC_ATan, bs "atan"); (TC_ACot, bs "acot");
  (TC_ATan2, bs "atan2"); (TC_Sinh, bs "sinh"); (TC_Csch, bs "csch"); (TC_Cosh, bs "cosh");
  (TC_Sech, bs "sech"); (TC_Tanh, bs "tanh"); (TC_Coth, bs "coth"); (TC_ASinh, bs "asinh");
  (TC_ACsch, bs "acsch"); (TC_ACosh, bs "acosh"); (TC_ATanh, bs "atanh"); (TC_ACoth, bs "acoth");
  (TC_ASech, bs "asech"); (TC_Log, bs "log"); (TC_LambertW, bs "lambertw"); (TC_Zeta, bs "zeta");
  (TC_Dirichlet_eta, bs "dirichlet_eta"); (TC_KroneckerDelta, bs "kroneckerdelta");
  (TC_LeviCivita, bs "levicivita"); (TC_Floor, bs "floor"); (TC_Ceiling, bs "ceiling");
  (TC_Truncate, bs "truncate"); (TC_Erf, bs "erf"); (TC_Erfc, bs "erfc");
  (TC_LowerGamma, bs "lowergamma"); (TC_UpperGamma, bs "uppergamma"); (TC_Beta, bs "beta");
  (TC_LogGamma, bs "loggamma"); (TC_PolyGamma, bs "polygamma"); (TC_Gamma, bs "gamma");
  (TC_Abs, bs "abs"); (TC_Max, bs "max"); (TC_Min, bs "min"); (TC_Sign, bs "sign");
  (TC_Conjugate, bs "conjugate"); (TC_PrimePi, bs "primepi"); (TC_Primorial, bs "primorial")
].

Fixpoint tbl_find {A} (code : N) (l : list (N * A)) : option A :=
  match l with
  | [] => None
  | (c, v) :: r => if c =? code then Some v else tbl_find code r
  end.

(* names_[code] of a table given as (overrides, base): the override if there is one *)
Definition name_in (over : list (N * list N)) (code : N) : list N :=
  match tbl_find code over with
  | Some v => v
  | None => match tbl_find code str_names with Some v => v | None => [] end
  end.

Definition str_name (code : N) : list N := name_in [] code.

(* ---- MathML *)
Definition mathml_over : list (N * list N) := Eval compute in [
  (TC_ASin, bs "arcsin"); (TC_ACos, bs "arccos"); (TC_ASec, bs "arcsec"); (TC_ACsc, bs "arccsc");
  (TC_ATan, bs "arctan"); (TC_ACot, bs "arccot"); (TC_ASinh, bs "arcsinh"); (TC_ACsch, bs "arccsch");
  (TC_ACosh, bs "arccosh"); (TC_ATanh, bs "arctanh"); (TC_ACoth, bs "arccoth"); (TC_ASech, bs "arcsech")
].
Definition mathml_name (code : N) : list N := name_in mathml_over code.

(* ---- SBML *)
Definition sbml_over : list (N * list N) := Eval compute in [
  (TC_Log, bs "ln");
  (TC_ASin, bs "arcsin"); (TC_ACos, bs "arccos"); (TC_ASec, bs "arcsec"); (TC_ACsc, bs "arccsc");
  (TC_ATan, bs "arctan"); (TC_ACot, bs "arccot"); (TC_ASinh, bs "arcsinh"); (TC_ACsch, bs "arccsch");
  (TC_ACosh, bs "arccosh"); (TC_ATanh, bs "arctanh"); (TC_ACoth, bs "arccoth"); (TC_ASech, bs "arcsech")
].
Definition sbml_name (code : N) : list N := name_in sbml_over code.

(* ---- LaTeX: every non-empty str name is wrapped in \operatorname{...}, then these assignments *)
Definition latex_over : list (N * list N) := Eval compute in [
  (TC_Sin, bs "\sin"); (TC_Cos, bs "\cos"); (TC_Tan, bs "\tan"); (TC_Cot, bs "\cot");
  (TC_Csc, bs "\csc"); (TC_Sec, bs "\sec"); (TC_ATan2, bs "\operatorname{atan_2}");
  (TC_Sinh, bs "\sinh"); (TC_Cosh, bs "\cosh"); (TC_Tanh, bs "\tanh"); (TC_Coth, bs "\coth");
  (TC_Log, bs "\log"); (TC_Zeta, bs "\zeta"); (TC_LambertW, bs "\operatorname{W}");
  (TC_Dirichlet_eta, bs "\eta"); (TC_KroneckerDelta, bs "\delta_"); (TC_LeviCivita, bs "\varepsilon_");
  (TC_LowerGamma, bs "\gamma"); (TC_UpperGamma, bs "\Gamma"); (TC_Beta, bs "\operatorname{B}");
  (TC_Gamma, bs "\Gamma"); (TC_Truncate, bs "\operatorname{truncate}"); (TC_PrimePi, bs "\pi")
].
Definition s_operatorname : list N := Eval compute in bs "\operatorname{".
Definition latex_name (code : N) : list N :=
  match tbl_find code latex_over with
  | Some v => v
  | None => match tbl_find code str_names with
            | Some v => s_operatorname ++ v ++ [125]
            | None => []
            end
  end.

(* ---- Unicode: names are UTF-8 byte strings; lengths_ = byte length unless overridden *)
Definition unicode_over : list (N * (list N * N)) := [
  (TC_LambertW, ([87], 1));                               (* "W" *)
  (TC_Zeta, ([240; 157; 156; 129], 1));                   (* U+1D701 *)
  (TC_Dirichlet_eta, ([240; 157; 156; 130], 1));          (* U+1D702 *)
  (TC_LowerGamma, ([240; 157; 155; 190], 1));             (* U+1D6FE *)
  (TC_UpperGamma, ([206; 147], 1));                       (* U+0393 *)
  (TC_Beta, ([66], 1));                                   (* "B" *)
  (TC_LogGamma, ([108; 111; 103; 32; 206; 147], 5));      (* "log " U+0393 *)
  (TC_Gamma, ([206; 147], 1));
  (TC_PrimePi, ([240; 157; 156; 139], 1))                 (* U+1D70B *)
].
Definition unicode_name (code : N) : list N * N :=
  match tbl_find code unicode_over with
  | Some v => v
  | None => let s := str_name code in (s, N.of_nat (List.length s))
  end.

(* the type codes of the Function subclasses that can occur in an [expr] with a table entry *)
Definition has_str_name (code : N) : bool :=
  match tbl_find code str_names with Some _ => true | None => false end.
