(* C44: the hypotheses of the theorems are satisfiable by non-trivial inputs (evaluated). *)
From Coq Require Import List NArith ZArith.
Import ListNotations.
From SE Require Import C44.C44Spec C44.Coverage C44.Sbml.
Local Open Scope N_scope.

Definition x : expr := ESym [120].
Definition y : expr := ESym [121].
(* (-2/3)*x**(y/2) + sin(x)/y + f(x, y)  with a Piecewise and a relational around it *)
Definition ex1 : expr :=
  EPw [(EAdd (NInt 0)
          [(EMul (NInt 1) [(x, EMul (NRat 1 2) [(y, ENum (NInt 1))])], NRat (-2) 3);
           (EMul (NInt 1) [(EF1 TC_Sin x, ENum (NInt 1)); (y, ENum (NInt (-1)))], NInt 1);
           (EFunSym [102] [x; y], NInt 1)],
        EF2 TC_StrictLessThan x (ENum (NInt 0)));
       (EF1 TC_Abs (EPow x (ENum (NRat 1 3))), EBool true)].

Example mathml_hyp : mm_guard ex1 = true.
Proof. vm_compute. reflexivity. Qed.
Example mathml_runs : match mathml_toks ex1 with Ok l => xchk [] l && Nat.ltb 40 (length l) | _ => false end = true.
Proof. vm_compute. reflexivity. Qed.

Example latex_hyp : latex_guard ex1 = true.
Proof. vm_compute. reflexivity. Qed.
Example latex_runs : match latex_toks ex1 with Ok l => latex_wf_b l && Nat.ltb 60 (length l) | _ => false end = true.
Proof. vm_compute. reflexivity. Qed.

Example unicode_hyp : unicode_guard ex1 = true.
Proof. vm_compute. reflexivity. Qed.
Example unicode_runs :
  match unicode_box ex1 with Ok b => rect_b b && Nat.ltb 3 (length (lines b)) && (20 <? width b) | _ => false end = true.
Proof. vm_compute. reflexivity. Qed.

(* a history with multi-line boxes on both sides of every binary operation *)
Definition hist : list boxop :=
  [OPush (box_s [120]); OPush (box_s [49; 50; 51]); OLine; OPush (box_s [121]); OPush (box_s [122]); OLine;
   ORight; OSqrt; OPush (box_w [226; 136; 158] 1); OPower; OCurly; OPush (box_s [97]); OBelow; OSq; OFloor].
Example hist_hyp : forallb (fun o => match o with OPush b => rect_b b | _ => true end) hist = true.
Proof. vm_compute. reflexivity. Qed.
Example hist_runs :
  match run_box hist [] with Ok [b] => rect_b b && Nat.ltb 4 (length (lines b)) | _ => false end = true.
Proof. vm_compute. reflexivity. Qed.

Example coverage_hyp : (TC_Sin <? TC_Count) && (TC_Subs <? TC_Count) && (TC_Tuple <? TC_Count) = true.
Proof. vm_compute. reflexivity. Qed.
Example throws_hyp :
  class_ok (EFN TC_Intersection [EAtom TC_Reals; EAtom TC_Integers]) = true /\
  rule_of PMathML TC_Intersection = RThrows /\ rule_of PUnicode TC_Derivative = RFallback.
Proof. vm_compute. repeat split; reflexivity. Qed.

Example sbml_fragment_example :
  sbml_fragment (EAdd (NInt 0) [(EMul (NInt 1) [(x, ENum (NInt 2)); (EF1 TC_Sin y, ENum (NInt (-1)))], NRat 1 2);
                                (EPow (EConst [69]) x, NInt 1)]) = true
  /\ sbml_fragment (ENum (NInf 0)) = false /\ sbml_fragment (ESym [112; 105]) = false.
Proof. vm_compute. repeat split; reflexivity. Qed.
