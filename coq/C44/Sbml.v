(* C44 -- the SBML-supported fragment: the expressions for which parse_sbml(sbml(e)) is expected to
   give back e.  The definition follows the two tables of symengine/parser/sbml/sbml_parser.cpp
   (identifiers the parser resolves to constants, names it resolves to functions) and the
   tokenizer's identifier syntax.  The check evaluates the round trip on the library for every
   generated expression that this predicate accepts.  Model file: no proofs. *)
From Coq Require Import String.
From SE Require Export C44.StrModel.
Local Open Scope N_scope.

(* sbml_tokenizer.re:  char = [\x80-\xff] | [a-zA-Z_];  ident = char (char | dig)*  *)
Definition id_char (c : N) : bool := is_letter c || (c =? 95) || ((128 <=? c) && (c <=? 255)).
Definition id_ok (s : list N) : bool :=
  match s with
  | [] => false
  | c :: r => id_char c && forallb (fun d => id_char d || ((48 <=? d) && (d <=? 57))) r
  end.

(* SbmlParser::parse_identifier: names (compared in lower case) that are not symbols *)
Definition reserved_ids : list (list N) := Eval compute in List.map bs
  ["pi"; "exponentiale"; "avogadro"; "time"; "inf"; "infinity"; "nan"; "notanumber"; "true"; "false"]%string.
(* SbmlParser::functionify: names (compared in lower case) that are not function symbols *)
Definition reserved_funs : list (list N) := Eval compute in List.map bs
  ["sin"; "cos"; "tan"; "cot"; "csc"; "sec"; "asin"; "arcsin"; "acos"; "arccos"; "atan"; "arctan";
   "asec"; "arcsec"; "acsc"; "arccsc"; "acot"; "arccot"; "sinh"; "cosh"; "tanh"; "coth"; "sech";
   "csch"; "asinh"; "arcsinh"; "acosh"; "arccosh"; "atanh"; "arctanh"; "asech"; "arcsech"; "acoth";
   "arccoth"; "acsch"; "arccsch"; "sqrt"; "abs"; "exp"; "floor"; "ceil"; "ceiling"; "ln"; "log";
   "log10"; "factorial"; "root"; "sqr"; "not"; "minus"; "divide"; "pow"; "power"; "eq"; "neq";
   "max"; "min"; "plus"; "times"; "piecewise"; "xor"; "and"; "or"; "geq"; "gt"; "leq"; "lt"]%string.

Definition sym_ok (nm : list N) : bool :=
  id_ok nm && negb (existsb (beq (List.map lower nm)) reserved_ids).
Definition funsym_ok (nm : list N) : bool :=
  id_ok nm && negb (existsb (beq (List.map lower nm)) reserved_funs).

(* function classes the SBML parser maps back to the same class *)
Definition sbml_f1 : list N :=
  [TC_Sin; TC_Cos; TC_Tan; TC_Cot; TC_Csc; TC_Sec; TC_ASin; TC_ACos; TC_ATan; TC_ASec; TC_ACsc; TC_ACot;
   TC_Sinh; TC_Cosh; TC_Tanh; TC_Coth; TC_Sech; TC_Csch; TC_ASinh; TC_ACosh; TC_ATanh; TC_ASech;
   TC_ACoth; TC_ACsch; TC_Log; TC_Abs; TC_Floor; TC_Ceiling; TC_Gamma].

(* exact numbers that survive the trip *)
Definition sbml_num (n : number) : bool :=
  match n with
  | NInt _ | NRat _ _ | NNaN => true
  | NInf d => negb (d =? 0)%Z
  | _ => false
  end.

(* Some false = arithmetic expression of the fragment, Some true = boolean expression, None = outside *)
Definition all_kind (k : bool) (l : list (option bool)) : bool :=
  forallb (fun x => match x with Some b => Bool.eqb b k | None => false end) l.

(* a power with a numeric exponent as the base of another numeric power, (a^p)^q: the arithmetic
   core does not give these a unique form (pow(pow(a, -1), -2/3) built by the parser's div / pow
   calls may come back as a^(2/3)), so the round trip is not claimed for them *)
Definition is_num_expr (e : expr) : bool := match e with ENum _ => true | _ => false end.
Definition num_power (e : expr) : bool := match e with EPow _ x => is_num_expr x | _ => false end.
Definition tower (b x : expr) : bool := num_power b && is_num_expr x.
(* a sum kept as a term of a sum / a product kept as a factor of a product: states the arithmetic
   core can produce (2*(x+y) + z - (x+y)) but does not reproduce when the text is parsed back *)
Definition is_add (e : expr) : bool := match e with EAdd _ _ => true | _ => false end.
Definition is_mul (e : expr) : bool := match e with EMul _ _ => true | _ => false end.

Fixpoint sbml_kind (e : expr) : option bool :=
  match e with
  | ENum n => if sbml_num n then Some false else None
  | ESym nm => if sym_ok nm then Some false else None
  | EConst nm => if beq nm nm_pi || beq nm name_E then Some false else None
  | EAdd c d =>
      if sbml_num c && forallb (fun p => sbml_num (snd p)) d
         && all_kind false (List.map (fun p => sbml_kind (fst p)) d)
         && forallb (fun p => negb (is_add (fst p))) d then Some false else None
  | EMul c d =>
      if sbml_num c && all_kind false (List.map (fun p => sbml_kind (fst p)) d)
         && all_kind false (List.map (fun p => sbml_kind (snd p)) d)
         && forallb (fun p => negb (tower (fst p) (snd p)) && negb (is_mul (fst p) && is_num_expr (snd p))) d
      then Some false else None
  | EPow a c => if all_kind false [sbml_kind a; sbml_kind c] && negb (tower a c) then Some false else None
  | EF1 code a =>
      if existsb (N.eqb code) sbml_f1 && all_kind false [sbml_kind a] then Some false else None
  | EF2 code a c =>
      if is_relational code && all_kind false [sbml_kind a; sbml_kind c] then Some true else None
  | EFN code l =>
      if (code =? TC_Max) || (code =? TC_Min) then
        (if all_kind false (List.map sbml_kind l) then Some false else None)
      else if (code =? TC_And) || (code =? TC_Or) || (code =? TC_Xor) then
        (if all_kind true (List.map sbml_kind l) then Some true else None)
      else None
  | EFunSym nm l =>
      if funsym_ok nm && all_kind false (List.map sbml_kind l) then Some false else None
  | EPw l =>
      if all_kind false (List.map (fun p => sbml_kind (fst p)) l)
         && all_kind true (List.map (fun p => sbml_kind (snd p)) l) then Some false else None
  | EBool _ => Some true
  | _ => None
  end.

Definition sbml_fragment (e : expr) : bool :=
  match sbml_kind e with Some _ => true | None => false end.
