(* C40 -- held expressions are immutable: no step changes what a handle variable that the step
   does not assign lets its holder observe.  Instance: the dictionary stealing of Add::from_dict
   (use_count() == 1) is unobservable; with the threshold 2 it is observable (refutation). *)
From Coq Require Import List Arith Bool Lia.
From SE Require Import Rcp.RcpModel Rcp.RcpSpec Rcp.RcpLemmas Rcp.RcpInv Rcp.RcpProofs Rcp.RcpLeak.
Import ListNotations.

Lemma view_stable : forall h h' f id,
  (forall x, reach_from h id x -> kids_of h' x = kids_of h x) -> view f h' id = view f h id.
Proof.
  induction f as [|f IH]; intros id H; simpl; auto.
  rewrite (H id (rf_refl h id)).
  destruct (kids_of h id) as [k|] eqn:Ek; auto.
  f_equal. apply map_ext_in. intros c Hc. apply IH. intros x Hx. apply H. eapply rf_step; eauto.
Qed.

Lemma two_slots : forall s i j m, i <> j ->
  nth_error s i = Some (Some m) -> nth_error s j = Some (Some m) -> 2 <= slot_refs s m.
Proof.
  intros s i j m N Hi Hj.
  pose proof (slot_refs_upd s i (Some m) None m Hi) as H. simpl in H.
  destruct (Nat.eq_dec m m); [|congruence].
  assert (Hj' : nth_error (upd s i None) j = Some (Some m)) by (rewrite nth_upd_neq; auto).
  pose proof (slot_refs_ge _ _ _ Hj'). lia.
Qed.

Section Held.
  Variables (st st' : state) (o : op).
  Hypothesis W : wf st.
  Hypothesis E : step st o = ROk st'.

  Let POST : step_post st o st'.
  Proof. pose proof (step_sound st o W) as H. rewrite E in H. exact H. Qed.

  Definition good (x : nat) : Prop :=
    live_at (heap st) x /\ live_at (heap st') x /\
    kids_of (heap st') x = kids_of (heap st) x /\ Some x <> stolen st o.

  Lemma good_of_live : forall x, live_at (heap st) x -> live_at (heap st') x ->
    Some x <> stolen st o -> good x.
  Proof.
    intros x H1 H2 H3. repeat split; auto.
    destruct (sp_ev _ _ _ POST) as (A & B & C & D & F).
    apply C; auto. apply live_at_lt. auto.
  Qed.

  Lemma good_kid : forall a k c, good a -> kids_of (heap st) a = Some k -> In c k -> good c.
  Proof.
    intros a k c (L1 & L2 & K & NS) Hk Hc.
    destruct W as [I P]. destruct (sp_wf _ _ _ POST) as [I' P'].
    pose proof Hk as Hk0. apply kids_of_live in Hk0. destruct Hk0 as (rc & e & Ha).
    destruct (inv_kids _ _ _ I _ _ _ _ Ha c Hc) as [_ Lc].
    rewrite <- K in Hk. apply kids_of_live in Hk. destruct Hk as (rc' & e' & Ha').
    destruct (inv_kids _ _ _ I' _ _ _ _ Ha' c Hc) as [_ Lc'].
    apply good_of_live; auto.
    intro Hs. symmetry in Hs.
    destruct (stolen_unshared st o c (conj I P) Hs) as (i & dest & r0 & k0 & _ & _ & _ & _ & Hz).
    pose proof (kid_refs_ge _ _ _ _ _ _ Ha Hc). lia.
  Qed.

  Lemma good_reach : forall a x, reach_from (heap st) a x -> good a -> good x.
  Proof.
    intros a x R. induction R; intros G; auto.
    apply IHR. eapply good_kid; eauto.
  Qed.

  Lemma good_slot : forall j id, ~ In j (writes o) ->
    nth_error (slots st) j = Some (Some id) -> good id.
  Proof.
    intros j id Hj Hs. destruct W as [I P]. destruct (sp_wf _ _ _ POST) as [I' P'].
    apply good_of_live.
    - eapply inv_slots; eauto.
    - eapply inv_slots; eauto. rewrite (sp_slots _ _ _ POST j Hj). eauto.
    - intro Hst. symmetry in Hst.
      destruct (stolen_unshared st o id (conj I P) Hst) as (i & dest & r0 & k0 & Eo & Hi & _ & H1 & _).
      subst o. simpl in Hj.
      assert (i <> j) by (intro; subst; apply Hj; auto).
      pose proof (two_slots _ _ _ _ H Hi Hs). lia.
  Qed.

  (* C40: expressions are immutable while held *)
  Theorem held_immutable_sec : forall j, ~ In j (writes o) -> view_slot st' j = view_slot st j.
  Proof.
    intros j Hj. unfold view_slot. rewrite (sp_slots _ _ _ POST j Hj).
    destruct (nth_error (slots st) j) as [[id|]|] eqn:Hs; auto.
    f_equal. apply view_stable. intros x Hx.
    destruct (good_reach id x Hx (good_slot j id Hj Hs)) as (_ & _ & K & _). exact K.
  Qed.
End Held.

Theorem held_immutable : forall st o st' j, wf st -> step st o = ROk st' ->
  ~ In j (writes o) -> view_slot st' j = view_slot st j.
Proof. intros. eapply held_immutable_sec; eauto. Qed.

(* C40 steal_safe: moving the dictionary out of a Mul whose use_count() is 1 changes nothing that
   any other handle can observe *)
Theorem steal_safe : forall st i dest st' j, wf st -> step st (OSteal i dest) = ROk st' ->
  j <> i -> j <> dest -> view_slot st' j = view_slot st j.
Proof.
  intros. eapply held_immutable; eauto. simpl. intros [Hc|[Hc|[]]]; congruence.
Qed.

(* ... because the temporary dictionary v[i] is then the only handle to it *)
Theorem steal_exclusive : forall st i dest m, wf st -> stolen st (OSteal i dest) = Some m ->
  nth_error (slots st) i = Some (Some m) /\ slot_refs (slots st) m = 1 /\ kid_refs (heap st) m = 0 /\
  ext_of (heap st) m = Some 0.
Proof.
  intros st i dest m W H.
  destruct (stolen_unshared st _ m W H) as (i0 & d0 & rc & k & Eo & Hi & Hn & H1 & H2).
  inversion Eo; subst. repeat split; auto. unfold ext_of. rewrite Hn. auto.
Qed.

(* the same code with `use_count() <= 2`: another holder sees its expression change *)
Definition prog2 : list op := [OMake 0 []; OMake 1 [0]; OCopy 2 1].
Definition st2 : state :=
  match run (init_state [] 4) prog2 with ROk st => st | _ => init_state [] 4 end.

Theorem steal_threshold_2_refuted :
  wf st2 /\ exists st', step_gen 2 st2 (OSteal 1 3) = ROk st' /\
    view_slot st2 2 = Some (T [T []]) /\ view_slot st' 2 = Some (T []).
Proof.
  assert (E : run (init_state [] 4) prog2 = ROk st2) by (vm_compute; reflexivity).
  split.
  - pose proof (rcp_no_uaf [] 4 prog2 (Forall_nil _)) as H. rewrite E in H. exact H.
  - eexists. split; [vm_compute; reflexivity|]. split; vm_compute; reflexivity.
Qed.

(* the no-leak theorem needs acyclic graphs: two objects holding each other keep exact counters
   and stay alive without any handle *)
Definition cyc : list cell := [Live 1 0 [1]; Live 1 0 [0]].
Theorem cycle_leaks :
  (forall id rc e k, nth_error cyc id = Some (Live rc e k) ->
     rc = e + slot_refs [] id + kid_refs cyc id) /\ live_at cyc 0 /\ live_at cyc 1.
Proof.
  split; [|split].
  - intros id rc e k H. destruct id as [|[|id]]; simpl in H.
    + inversion H; subst. vm_compute. reflexivity.
    + inversion H; subst. vm_compute. reflexivity.
    + destruct id; discriminate.
  - exists 1, 0, [1]. reflexivity.
  - exists 1, 0, [0]. reflexivity.
Qed.
