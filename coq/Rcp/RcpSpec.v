(* C40 -- specification side of the reference-counting model: what a counter must equal, what
   "reachable" means, well-formed states. *)
From Coq Require Import List Arith Bool Lia.
From SE Require Import Rcp.RcpModel.
Import ListNotations.

Notation occ := (count_occ Nat.eq_dec).

(* references to [id] held as data members of a cell *)
Definition cocc (id : nat) (c : cell) : nat :=
  match c with Live _ _ k => occ k id | Freed => 0 end.
Definition kid_refs (h : list cell) (id : nat) : nat := list_sum (map (cocc id) h).

(* references to [id] held by handle variables *)
Definition socc (id : nat) (o : option nat) : nat :=
  match o with Some j => if Nat.eq_dec j id then 1 else 0 | None => 0 end.
Definition slot_refs (s : list (option nat)) (id : nat) : nat := list_sum (map (socc id) s).

Definition live_at (h : list cell) (id : nat) : Prop :=
  exists rc e k, nth_error h id = Some (Live rc e k).

(* [w]: handles held by temporaries (pending decrements inside a step) *)
Record inv (h : list cell) (s : list (option nat)) (w : list nat) : Prop := mkInv {
  inv_slots : forall i id, nth_error s i = Some (Some id) -> live_at h id;
  inv_kids : forall id rc e k, nth_error h id = Some (Live rc e k) ->
             forall c, In c k -> c < id /\ live_at h c;
  inv_work : forall id, In id w -> live_at h id;
  inv_count : forall id rc e k, nth_error h id = Some (Live rc e k) ->
              rc = e + slot_refs s id + kid_refs h id + occ w id
}.

(* objects whose counter is zero are deleted at once *)
Definition posb (n : nat) (h : list cell) : Prop :=
  forall id rc e k, id < n -> nth_error h id = Some (Live rc e k) -> 1 <= rc.

(* Between two steps: every counter equals the number of handles that point to the object
   (outside references + handle variables + member handles of live objects), handles only
   point to live objects, members are older than their owner (the graph is acyclic), no live
   object has a zero counter. *)
Definition wf (st : state) : Prop :=
  inv (heap st) (slots st) [] /\ posb (length (heap st)) (heap st).

(* reachability from the roots: handle variables and objects referenced from outside *)
Inductive reach (st : state) : nat -> Prop :=
| reach_slot : forall i id, nth_error (slots st) i = Some (Some id) -> reach st id
| reach_ext : forall id rc e k, nth_error (heap st) id = Some (Live rc (S e) k) -> reach st id
| reach_kid : forall p k c, reach st p -> kids_of (heap st) p = Some k -> In c k -> reach st c.

(* objects reachable from an object through member handles *)
Inductive reach_from (h : list cell) : nat -> nat -> Prop :=
| rf_refl : forall a, reach_from h a a
| rf_step : forall a k c x, kids_of h a = Some k -> In c k -> reach_from h c x -> reach_from h a x.

Definition all_null (s : list (option nat)) : Prop := forall i o, nth_error s i = Some o -> o = None.

(* the handle variables an operation assigns to *)
Definition writes (o : op) : list nat :=
  match o with
  | OMake i _ => [i]
  | OCopy i _ => [i]
  | OMove i j => [i; j]
  | OMoveCtor i j => [i; j]
  | OReset i => [i]
  | ODrop i => [i]
  | OFromThis i _ => [i]
  | OTemp _ => []
  | OSteal i dest => [i; dest]     (* v[i] is the temporary dictionary of from_dict itself *)
  | OApi i _ _ => [i]
  end.
