(* C40 -- list and counting lemmas for the reference-counting proofs. *)
From Coq Require Import List Arith Bool Lia.
From SE Require Import Rcp.RcpModel Rcp.RcpSpec.
Import ListNotations.

Lemma upd_length : forall A (l : list A) n x, length (upd l n x) = length l.
Proof. induction l; destruct n; simpl; intros; auto. Qed.

Lemma nth_upd_eq : forall A (l : list A) n x, n < length l -> nth_error (upd l n x) n = Some x.
Proof. induction l; destruct n; simpl; intros; try lia; auto. apply IHl. lia. Qed.

Lemma nth_upd_neq : forall A (l : list A) n m x, n <> m -> nth_error (upd l n x) m = nth_error l m.
Proof.
  induction l; destruct n; destruct m; simpl; intros; try congruence; auto.
Qed.

Lemma nth_some_lt : forall A (l : list A) n a, nth_error l n = Some a -> n < length l.
Proof. intros. apply nth_error_Some. congruence. Qed.

Lemma sum_upd : forall A (f : A -> nat) l n a b, nth_error l n = Some a ->
  list_sum (map f (upd l n b)) + f a = list_sum (map f l) + f b.
Proof.
  induction l; destruct n; simpl; intros; try discriminate.
  - inversion H; subst. lia.
  - specialize (IHl _ _ b H). lia.
Qed.

Lemma map_upd_same : forall A B (f : A -> B) l n a b, nth_error l n = Some a -> f b = f a ->
  map f (upd l n b) = map f l.
Proof.
  induction l; destruct n; simpl; intros; try discriminate; auto.
  - inversion H; subst. congruence.
  - f_equal. eauto.
Qed.

Lemma sum_app1 : forall A (f : A -> nat) l a, list_sum (map f (l ++ [a])) = list_sum (map f l) + f a.
Proof. intros. rewrite map_app, list_sum_app. simpl. lia. Qed.

Lemma nth_app_new : forall A (l : list A) a, nth_error (l ++ [a]) (length l) = Some a.
Proof. intros. rewrite nth_error_app2 by lia. rewrite Nat.sub_diag. reflexivity. Qed.

Lemma nth_app_old : forall A (l : list A) a n, n < length l -> nth_error (l ++ [a]) n = nth_error l n.
Proof. intros. apply nth_error_app1. auto. Qed.

Lemma nth_app_cases : forall A (l : list A) a n x, nth_error (l ++ [a]) n = Some x ->
  (n < length l /\ nth_error l n = Some x) \/ (n = length l /\ x = a).
Proof.
  intros. destruct (lt_dec n (length l)).
  - left. rewrite nth_error_app1 in H by auto. auto.
  - right. rewrite nth_error_app2 in H by lia.
    destruct (n - length l) eqn:E; simpl in H.
    + inversion H. split; [lia | auto].
    + destruct n1; discriminate.
Qed.

Lemma sum_zero : forall A (f : A -> nat) l, (forall a, In a l -> f a = 0) -> list_sum (map f l) = 0.
Proof.
  induction l; simpl; intros; auto.
  assert (E1 : f a = 0) by (apply H; auto).
  assert (E2 : list_sum (map f l) = 0) by (apply IHl; intros; apply H; auto).
  lia.
Qed.

Lemma sum_ge : forall A (f : A -> nat) l n a, nth_error l n = Some a -> f a <= list_sum (map f l).
Proof.
  induction l; destruct n; simpl; intros; try discriminate.
  - inversion H; subst. lia.
  - specialize (IHl _ _ H). lia.
Qed.

(* ------------------------------------------------------------------ counting *)

Lemma occ_cons : forall id w x, occ (id :: w) x = socc x (Some id) + occ w x.
Proof. intros. simpl. destruct (Nat.eq_dec id x); lia. Qed.

Definition olist (o : option nat) : list nat := match o with Some x => [x] | None => [] end.

Lemma occ_olist : forall o w x, occ (olist o ++ w) x = socc x o + occ w x.
Proof. intros. destruct o; simpl; auto. destruct (Nat.eq_dec n x); lia. Qed.

Lemma slot_refs_ge : forall s i id, nth_error s i = Some (Some id) -> 1 <= slot_refs s id.
Proof.
  intros. unfold slot_refs. pose proof (sum_ge _ (socc id) _ _ _ H).
  simpl in H0. destruct (Nat.eq_dec id id); try congruence; try lia.
Qed.

Lemma slot_refs_zero : forall s id, (forall i, nth_error s i <> Some (Some id)) -> slot_refs s id = 0.
Proof.
  intros. unfold slot_refs. apply sum_zero. intros a Ha.
  destruct a as [j|]; simpl; auto. destruct (Nat.eq_dec j id); auto. subst.
  apply In_nth_error in Ha. destruct Ha as [i Hi]. exfalso. eapply H; eauto.
Qed.

Lemma kid_refs_ge : forall h p rc e k c, nth_error h p = Some (Live rc e k) -> In c k -> 1 <= kid_refs h c.
Proof.
  intros. unfold kid_refs. pose proof (sum_ge _ (cocc c) _ _ _ H). simpl in H1.
  assert (occ k c > 0) by (apply count_occ_In; auto). lia.
Qed.

Lemma kid_refs_zero : forall h id,
  (forall p rc e k, nth_error h p = Some (Live rc e k) -> ~ In id k) -> kid_refs h id = 0.
Proof.
  intros. unfold kid_refs. apply sum_zero. intros a Ha.
  destruct a as [rc e k|]; simpl; auto.
  apply In_nth_error in Ha. destruct Ha as [p Hp].
  apply count_occ_not_In. eapply H; eauto.
Qed.

Lemma kid_refs_upd : forall h n a b id, nth_error h n = Some a ->
  kid_refs (upd h n b) id + cocc id a = kid_refs h id + cocc id b.
Proof. intros. unfold kid_refs. apply sum_upd. auto. Qed.

Lemma kid_refs_upd_rc : forall h n rc rc' e k id, nth_error h n = Some (Live rc e k) ->
  kid_refs (upd h n (Live rc' e k)) id = kid_refs h id.
Proof. intros. pose proof (kid_refs_upd h n _ (Live rc' e k) id H). simpl in *. lia. Qed.

Lemma kid_refs_app : forall h c id, kid_refs (h ++ [c]) id = kid_refs h id + cocc id c.
Proof. intros. unfold kid_refs. apply sum_app1. Qed.

Lemma slot_refs_upd : forall s i a b id, nth_error s i = Some a ->
  slot_refs (upd s i b) id + socc id a = slot_refs s id + socc id b.
Proof. intros. unfold slot_refs. apply sum_upd. auto. Qed.

Lemma total_rc_upd : forall h n a b, nth_error h n = Some a ->
  total_rc (upd h n b) + cell_rc a = total_rc h + cell_rc b.
Proof. intros. unfold total_rc. apply sum_upd. auto. Qed.

Lemma live_at_upd_neq : forall h n c x, n <> x -> (live_at (upd h n c) x <-> live_at h x).
Proof. intros. unfold live_at. rewrite nth_upd_neq by auto. tauto. Qed.

Lemma live_at_lt : forall h x, live_at h x -> x < length h.
Proof. intros h x (rc & e & k & H). eapply nth_some_lt; eauto. Qed.

Lemma kids_of_live : forall h x k, kids_of h x = Some k <-> exists rc e, nth_error h x = Some (Live rc e k).
Proof.
  intros. unfold kids_of. destruct (nth_error h x) as [[rc e k'|]|]; split; intros H;
    try discriminate; try (destruct H as (? & ? & H); discriminate).
  - inversion H; subst. eauto.
  - destruct H as (? & ? & H). inversion H; subst. auto.
Qed.
