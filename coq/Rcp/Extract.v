(* Extraction of the C40/C41 models (run from the output directory; not part of `make`). *)
From SE Require Import Rcp.RcpModel Rcp.ThreadModel.
Require Import ExtrOcamlBasic.
Extraction "rcp_model.ml" init_state step live_count view_slot
  tinit plan trun thread_safe total_held all_idle.
