(* C41 -- proofs about the interleaving model: with the atomic fields of the thread-safe build
   every schedule returns the right hash, never touches a deleted object and deletes exactly
   once; with plain fields (or a hash written in two halves) there are failing schedules. *)
From Coq Require Import List Arith Bool NArith Lia.
From SE Require Import Rcp.RcpModel Rcp.RcpLemmas Rcp.ThreadModel.
Import ListNotations.

Arguments is_mf !t /.
Arguments is_idle !t /.

Definition thread_ok (H c : N) (t : tstate) : Prop :=
  Forall (fun r => r = H) (rets t) /\
  match tpc t with
  | Idle => True
  | HashChecked v => 1 <= held t /\ (v <> 0%N -> c = H)
  | HashStored => 1 <= held t /\ c = H
  | MustFree => True
  | HashStoring => False
  | NaInc _ => False
  | NaDec _ => False
  end.

Record tinv (H : N) (s : sstate) : Prop := mkTinv {
  ti_cache : cache s = 0%N \/ cache s = H;
  ti_threads : Forall (thread_ok H (cache s)) (threads s);
  ti_rc : rc s = total_held s;
  ti_uaf : uaf s = false;
  ti_live : 1 <= total_held s -> freed s = 0 /\ must_free s = 0;
  ti_dead : total_held s = 0 -> freed s + must_free s = 1
}.

Lemma Forall_upd : forall A (P : A -> Prop) l i x, Forall P l -> P x -> Forall P (upd l i x).
Proof.
  induction l; destruct i; simpl; intros; auto.
  - inversion H; subst. constructor; auto.
  - inversion H; subst. constructor; auto.
Qed.

Lemma thread_ok_store : forall H c t, thread_ok H c t -> thread_ok H H t.
Proof.
  intros H c [p h rs] [R K]. split; auto. simpl in *. destruct p; auto.
  - destruct K. split; auto.
  - destruct K. split; auto.
Qed.

Lemma held_upd : forall ts i t t', nth_error ts i = Some t ->
  list_sum (map held (upd ts i t')) + held t = list_sum (map held ts) + held t'.
Proof. intros. apply sum_upd. auto. Qed.

Lemma mf_upd : forall ts i t t', nth_error ts i = Some t ->
  list_sum (map is_mf (upd ts i t')) + is_mf t = list_sum (map is_mf ts) + is_mf t'.
Proof. intros. apply sum_upd. auto. Qed.

Lemma tstep_inv : forall H s i r, tinv H s -> tinv H (tstep thread_safe H s i r).
Proof.
  intros H s i r I. unfold tstep.
  destruct (nth_error (threads s) i) as [t|] eqn:Ht; auto.
  destruct I as [IC IT IR IU IL ID].
  assert (OK : thread_ok H (cache s) t).
  { rewrite Forall_forall in IT. apply IT. eapply nth_error_In; eauto. }
  pose proof (sum_ge _ held _ _ _ Ht) as Hle. fold (total_held s) in Hle.
  pose proof (sum_ge _ is_mf _ _ _ Ht) as Hmf. fold (must_free s) in Hmf.
  destruct t as [p h rs]. destruct OK as [RS K]. simpl in *.
  unfold total_held, must_free in *.
  destruct p; simpl in *.
  - (* Idle *)
    destruct h as [|h']; [constructor; auto|].
    assert (TL : 1 <= list_sum (map held (threads s))) by lia.
    destruct (IL TL) as [F0 M0].
    assert (T : touch s = false) by (unfold touch; rewrite IU, F0; reflexivity).
    destruct r; simpl.
    + (* hash: load *)
      pose proof (held_upd _ _ _ (mkT (HashChecked (cache s)) (S h') rs) Ht) as E1.
      pose proof (mf_upd _ _ _ (mkT (HashChecked (cache s)) (S h') rs) Ht) as E2.
      simpl in *. constructor; simpl; auto; unfold total_held, must_free; simpl.
      * apply Forall_upd; auto. split; auto. simpl. split; [lia|].
        intros. destruct IC; congruence.
      * lia.
      * intros. split; auto. lia.
      * intros. lia.
    + (* copy: fetch_add *)
      pose proof (held_upd _ _ _ (mkT Idle (S (S h')) rs) Ht) as E1.
      pose proof (mf_upd _ _ _ (mkT Idle (S (S h')) rs) Ht) as E2.
      simpl in *. constructor; simpl; auto; unfold total_held, must_free; simpl.
      * apply Forall_upd; auto. split; simpl; auto.
      * lia.
      * intros. split; auto. lia.
      * intros. lia.
    + (* drop: fetch_sub *)
      pose proof (held_upd _ _ _ (mkT (after_dec (rc s)) h' rs) Ht) as E1.
      pose proof (mf_upd _ _ _ (mkT (after_dec (rc s)) h' rs) Ht) as E2.
      simpl in *.
      assert (AD : (rc s = 1 /\ after_dec (rc s) = MustFree) \/ (2 <= rc s /\ after_dec (rc s) = Idle)).
      { destruct (rc s) as [|[|n]] eqn:Erc; simpl; [lia | left; auto | right; split; [lia|auto]]. }
      constructor; simpl; auto; unfold total_held, must_free; simpl.
      * apply Forall_upd; auto. split; [exact RS|]. simpl.
        destruct AD as [[_ ->]|[_ ->]]; auto.
      * lia.
      * intros. split; auto. destruct AD as [[A1 A2]|[A1 A2]]; rewrite A2 in *; simpl in *; lia.
      * intros. destruct AD as [[A1 A2]|[A1 A2]]; rewrite A2 in *; simpl in *; lia.
  - (* HashChecked *)
    destruct K as [K1 K2].
    assert (TL : 1 <= list_sum (map held (threads s))) by lia.
    destruct (IL TL) as [F0 M0].
    assert (T : touch s = false) by (unfold touch; rewrite IU, F0; reflexivity).
    destruct (saw =? 0)%N eqn:Ez; simpl.
    + (* store of the idempotent value *)
      pose proof (held_upd _ _ _ (mkT HashStored h rs) Ht) as E1.
      pose proof (mf_upd _ _ _ (mkT HashStored h rs) Ht) as E2.
      simpl in *. constructor; simpl; auto; unfold total_held, must_free; simpl.
      * apply Forall_upd.
        -- rewrite Forall_forall in *. intros x Hx. eapply thread_ok_store; eauto.
        -- split; simpl; auto.
      * lia.
      * intros. split; auto. lia.
      * intros. lia.
    + (* the cache was set: return it *)
      apply N.eqb_neq in Ez. specialize (K2 Ez).
      pose proof (held_upd _ _ _ (mkT Idle h (cache s :: rs)) Ht) as E1.
      pose proof (mf_upd _ _ _ (mkT Idle h (cache s :: rs)) Ht) as E2.
      simpl in *. constructor; simpl; auto; unfold total_held, must_free; simpl.
      * apply Forall_upd; auto. split; simpl; auto.
      * lia.
      * intros. split; auto. lia.
      * intros. lia.
  - destruct K.
  - (* HashStored: return the cache *)
    destruct K as [K1 K2].
    assert (TL : 1 <= list_sum (map held (threads s))) by lia.
    destruct (IL TL) as [F0 M0].
    assert (T : touch s = false) by (unfold touch; rewrite IU, F0; reflexivity).
    pose proof (held_upd _ _ _ (mkT Idle h (cache s :: rs)) Ht) as E1.
    pose proof (mf_upd _ _ _ (mkT Idle h (cache s :: rs)) Ht) as E2.
    simpl in *. constructor; simpl; auto; unfold total_held, must_free; simpl.
    + apply Forall_upd; auto. split; simpl; auto.
    + lia.
    + intros. split; auto. lia.
    + intros. lia.
  - (* MustFree: delete *)
    assert (TH : list_sum (map held (threads s)) = 0).
    { destruct (list_sum (map held (threads s))) eqn:E; auto. destruct IL; lia. }
    specialize (ID TH).
    assert (F0 : freed s = 0) by lia.
    assert (T : touch s = false) by (unfold touch; rewrite IU, F0; reflexivity).
    pose proof (held_upd _ _ _ (mkT Idle h rs) Ht) as E1.
    pose proof (mf_upd _ _ _ (mkT Idle h rs) Ht) as E2.
    simpl in *. constructor; simpl; auto; unfold total_held, must_free; simpl.
    + apply Forall_upd; auto. split; simpl; auto.
    + lia.
    + intros. lia.
    + intros. lia.
  - destruct K.
  - destruct K.
Qed.

Lemma trun_inv : forall H sched s, tinv H s -> tinv H (trun thread_safe H s sched).
Proof.
  induction sched as [|[i r] q IH]; simpl; intros; auto. apply IH. apply tstep_inv. auto.
Qed.

Lemma tinit_inv : forall H c0 helds, (c0 = 0%N \/ c0 = H) -> 1 <= list_sum helds ->
  tinv H (tinit c0 helds).
Proof.
  intros H c0 helds Hc Hs. unfold tinit.
  assert (E : map held (map (fun h => mkT Idle h []) helds) = helds).
  { rewrite map_map. simpl. apply map_id. }
  assert (M : list_sum (map is_mf (map (fun h => mkT Idle h []) helds)) = 0).
  { apply sum_zero. intros a Ha. apply in_map_iff in Ha. destruct Ha as (h & <- & _). reflexivity. }
  constructor; simpl; auto; unfold total_held, must_free; simpl; try rewrite E; auto.
  - rewrite Forall_forall. intros t Ht. apply in_map_iff in Ht. destruct Ht as (h & <- & _).
    split; simpl; auto.
  - intros. lia.
Qed.

(* C41 hash_cache_linearizable: in every interleaving of any number of threads every hash() call
   returns __hash__() (what the sequential run returns), and the cache ends as 0 or __hash__() *)
Theorem hash_cache_linearizable : forall H c0 helds sched,
  (c0 = 0%N \/ c0 = H) -> 1 <= list_sum helds ->
  let s := trun thread_safe H (tinit c0 helds) sched in
  (forall t, In t (threads s) -> forall r, In r (rets t) -> r = H) /\
  (cache s = 0%N \/ cache s = H).
Proof.
  intros H c0 helds sched Hc Hs s.
  pose proof (trun_inv H sched _ (tinit_inv H c0 helds Hc Hs)) as I. fold s in I.
  split; [|apply (ti_cache _ _ I)].
  intros t Ht r Hr. pose proof (ti_threads _ _ I) as F. rewrite Forall_forall in F.
  destruct (F t Ht) as [R _]. rewrite Forall_forall in R. auto.
Qed.

(* C41 refcount_safe: with atomic read-modify-write no interleaving touches the object after its
   deletion, nobody deletes it while a thread still holds a handle, and once the last handle is
   dropped (and the dropping thread has run its delete) it has been deleted exactly once *)
Theorem refcount_safe : forall H c0 helds sched,
  (c0 = 0%N \/ c0 = H) -> 1 <= list_sum helds ->
  let s := trun thread_safe H (tinit c0 helds) sched in
  uaf s = false /\ rc s = total_held s /\ freed s <= 1 /\
  (1 <= total_held s -> freed s = 0) /\
  (total_held s = 0 -> all_idle s = true -> freed s = 1).
Proof.
  intros H c0 helds sched Hc Hs s.
  pose proof (trun_inv H sched _ (tinit_inv H c0 helds Hc Hs)) as I. fold s in I.
  destruct I as [IC IT IR IU IL ID].
  split; auto. split; auto. split; [|split].
  - destruct (total_held s) eqn:E; [specialize (ID eq_refl); lia | destruct IL; lia].
  - intros. destruct IL; auto.
  - intros Hz Hi. specialize (ID Hz).
    assert (M : must_free s = 0).
    { unfold must_free. apply sum_zero. intros t Ht. unfold all_idle in Hi.
      rewrite forallb_forall in Hi. specialize (Hi t Ht). unfold is_idle in Hi. unfold is_mf.
      destruct (tpc t); auto; discriminate. }
    lia.
Qed.

(* C41 nonatomic_refuted: the same protocol with the plain counter of the default build loses an
   update: two threads copy concurrently, the count is one short, the object is deleted while a
   thread still holds a handle, and that thread's next access touches freed memory *)
Definition na_sched : list (nat * req) :=
  [(0, RCopy); (1, RCopy); (0, RCopy); (1, RCopy);
   (0, RDrop); (0, RDrop); (0, RDrop); (0, RDrop);
   (1, RDrop); (1, RDrop); (1, RDrop); (1, RHash)].

Theorem nonatomic_refuted :
  let s := trun (mkMode false true) 5 (tinit 0 [1; 1]) na_sched in
  uaf s = true /\ freed s = 1 /\ total_held s = 1.
Proof. vm_compute. auto. Qed.

(* and the candidate breaking change of DESIGN section 13: a hash_ written in two halves lets a
   concurrent reader return a torn value *)
Definition torn_sched : list (nat * req) := [(0, RHash); (0, RHash); (1, RHash); (1, RHash)].

Theorem torn_hash_refuted :
  let s := trun (mkMode true false) 4294967297 (tinit 0 [1; 1]) torn_sched in
  exists t, nth_error (threads s) 1 = Some t /\ rets t = [1%N].
Proof. vm_compute. eexists. split; reflexivity. Qed.
