(* C41 -- interleaving small-step model of the two lazily written fields of a shared expression
   under WITH_SYMENGINE_THREAD_SAFE (executable; extracted; no proofs imported).

     std::atomic<hash_t> hash_            Basic::hash():   if (hash_ == 0) hash_ = __hash__();
                                                           return hash_;
                                          = atomic load; [atomic store of the idempotent value]; atomic load
     std::atomic<unsigned> refcount_      RCP copy:        refcount_++            (one atomic RMW)
                                          RCP destructor:  if (--refcount_ == 0) delete ptr_;
                                                           (one atomic RMW, then the delete)

   Any number of threads; each thread owns [held] handles to the object and performs one
   operation at a time; a schedule is a list of (thread, request): an idle thread starts the
   requested operation with its first atomic step, a thread inside an operation performs its next
   atomic step.  The [mode] selects the atomic fields of the thread-safe build or the plain
   fields of the default build (refcount_++ is then a load and a store) and, for the candidate
   breaking change of DESIGN section 13, a hash_ written in two halves. *)
From Coq Require Import List Arith Bool NArith.
From SE Require Import Rcp.RcpModel.
Import ListNotations.

Inductive pc : Type :=
| Idle
| HashChecked (saw : N)     (* after the load of `hash_ == 0` *)
| HashStoring               (* non-atomic store: low half written *)
| HashStored                (* after `hash_ = __hash__()` *)
| MustFree                  (* `--refcount_ == 0` held: this thread runs `delete ptr_` *)
| NaInc (seen : nat)        (* plain refcount_++ : value loaded, not yet stored *)
| NaDec (seen : nat).

Record tstate : Type := mkT { tpc : pc; held : nat; rets : list N }.

Record sstate : Type := mkS {
  cache : N;        (* hash_ *)
  rc : nat;         (* refcount_ *)
  freed : nat;      (* how many times the object was deleted *)
  uaf : bool;       (* some step touched the object after it was deleted *)
  threads : list tstate
}.

Inductive req : Type := RHash | RCopy | RDrop.

Record mode : Type := mkMode { atomic_rc : bool; atomic_hash : bool }.
Definition thread_safe : mode := mkMode true true.

(* every access to a field of the object after its deletion is a use after free *)
Definition touch (s : sstate) : bool := uaf s || (0 <? freed s).

Definition after_dec (v : nat) : pc := match v with 1 => MustFree | _ => Idle end.

Definition low_half (h : N) : N := (h mod 4294967296)%N.

Definition tstep (m : mode) (H : N) (s : sstate) (i : nat) (r : req) : sstate :=
  match nth_error (threads s) i with
  | None => s
  | Some t =>
      let set (t' : tstate) (c' : N) (rc' : nat) (fr' : nat) : sstate :=
        mkS c' rc' fr' (touch s) (upd (threads s) i t') in
      match tpc t with
      | Idle =>
          match held t with
          | O => s    (* a thread that holds no handle cannot reach the object *)
          | S h' =>
              match r with
              | RHash => set (mkT (HashChecked (cache s)) (held t) (rets t)) (cache s) (rc s) (freed s)
              | RCopy =>
                  if atomic_rc m
                  then set (mkT Idle (S (held t)) (rets t)) (cache s) (S (rc s)) (freed s)
                  else set (mkT (NaInc (rc s)) (held t) (rets t)) (cache s) (rc s) (freed s)
              | RDrop =>
                  if atomic_rc m
                  then set (mkT (after_dec (rc s)) h' (rets t)) (cache s) (rc s - 1) (freed s)
                  else set (mkT (NaDec (rc s)) (held t) (rets t)) (cache s) (rc s) (freed s)
              end
          end
      | HashChecked v =>
          if (v =? 0)%N then
            if atomic_hash m
            then set (mkT HashStored (held t) (rets t)) H (rc s) (freed s)
            else set (mkT HashStoring (held t) (rets t)) (low_half H) (rc s) (freed s)
          else set (mkT Idle (held t) (cache s :: rets t)) (cache s) (rc s) (freed s)
      | HashStoring => set (mkT HashStored (held t) (rets t)) H (rc s) (freed s)
      | HashStored => set (mkT Idle (held t) (cache s :: rets t)) (cache s) (rc s) (freed s)
      | MustFree => set (mkT Idle (held t) (rets t)) (cache s) (rc s) (S (freed s))
      | NaInc v => set (mkT Idle (S (held t)) (rets t)) (cache s) (S v) (freed s)
      | NaDec v => set (mkT (after_dec v) (held t - 1) (rets t)) (cache s) (v - 1) (freed s)
      end
  end.

Fixpoint trun (m : mode) (H : N) (s : sstate) (sched : list (nat * req)) : sstate :=
  match sched with
  | [] => s
  | (i, r) :: q => trun m H (tstep m H s i r) q
  end.

(* the object exists, its cache holds [c0], thread t owns [nth t helds] handles *)
Definition tinit (c0 : N) (helds : list nat) : sstate :=
  mkS c0 (list_sum helds) 0 false (map (fun h => mkT Idle h []) helds).

Definition total_held (s : sstate) : nat := list_sum (map held (threads s)).
Definition is_mf (t : tstate) : nat := match tpc t with MustFree => 1 | _ => 0 end.
Definition must_free (s : sstate) : nat := list_sum (map is_mf (threads s)).
Definition is_idle (t : tstate) : bool := match tpc t with Idle => true | _ => false end.
Definition all_idle (s : sstate) : bool := forallb is_idle (threads s).

Definition thread_idle (s : sstate) (i : nat) : bool :=
  match nth_error (threads s) i with Some t => is_idle t | None => true end.

(* From per-thread operation lists and an order of thread activations to a schedule: an idle
   thread starts its next operation, a busy thread continues.  (The sequential run is the order
   0,0,...,1,1,...; an operation takes at most three atomic steps.) *)
Fixpoint plan (m : mode) (H : N) (s : sstate) (progs : list (list req)) (order : list nat)
  : list (nat * req) :=
  match order with
  | [] => []
  | i :: q =>
      if thread_idle s i then
        match nth_error progs i with
        | Some (r :: rest) => (i, r) :: plan m H (tstep m H s i r) (upd progs i rest) q
        | _ => plan m H s progs q
        end
      else (i, RHash) :: plan m H (tstep m H s i RHash) progs q
  end.
