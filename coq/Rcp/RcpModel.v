(* C40 -- the intrusive reference-counting protocol of symengine/symengine_rcp.h as a heap state
   machine over handle programs (executable; extracted; no proofs imported).

   An object is a heap cell: its reference counter [refcount_], the number of references held
   from outside the program (static constants of the library: never dropped), and the handles it
   owns as data members (its children: the dictionary of a Mul, the argument vector of a
   FunctionSymbol, ...).  A program works on numbered handle variables [RCP<const Basic> v[i]].
   Touching the counter of a freed object is the observable [RUaf].

   Transcribed (WITH_SYMENGINE_RCP branch, branch by branch):
     RCP(T* p)                 : p->refcount_++                                (rcp, make_rcp, rcp_from_this)
     RCP(const RCP&)           : ptr_ = rp.ptr_; if not null: refcount_++
     RCP(RCP&&)                : ptr_ = rp.ptr_; rp.ptr_ = nullptr
     ~RCP()                    : if ptr_ != nullptr and --refcount_ == 0: delete ptr_
     operator=(const RCP&)     : r = rhs.ptr_; if r not null: r->refcount_++;
                                 if this not null and --refcount_ == 0: delete ptr_;  ptr_ = r
     operator=(RCP&&)          : swap(ptr_, rhs.ptr_)
     reset()                   : if not null and --refcount_ == 0: delete ptr_;  ptr_ = nullptr
   [delete ptr_] runs the destructor of the object, which destroys its member handles: the cascade
   is the worklist loop [release]. *)
From Coq Require Import List Arith Bool.
Import ListNotations.

Inductive cell : Type :=
| Live (rc : nat) (ext : nat) (kids : list nat)
| Freed.

Record state : Type := mkState { heap : list cell; slots : list (option nat) }.

Inductive rres (A : Type) : Type :=
| ROk (a : A)
| RUaf (id : nat)        (* the counter of a freed object was read or written *)
| RBad (code : nat)      (* guard of the step not met: see the codes below *)
| RFuel.
Arguments ROk {A} a.
Arguments RUaf {A} id.
Arguments RBad {A} code.
Arguments RFuel {A}.

Definition BAD_SLOT : nat := 1.      (* no such handle variable *)
Definition BAD_NULL : nat := 2.      (* null handle dereferenced (-> on a null RCP) *)
Definition BAD_ID : nat := 3.        (* no such object *)
Definition BAD_UNDERFLOW : nat := 4. (* decrement of a zero counter *)
Definition BAD_OBS : nat := 5.       (* malformed observation of an API result *)

Definition rbind {A B} (r : rres A) (f : A -> rres B) : rres B :=
  match r with
  | ROk a => f a
  | RUaf i => RUaf i
  | RBad c => RBad c
  | RFuel => RFuel
  end.

Fixpoint upd {A} (l : list A) (n : nat) (x : A) : list A :=
  match l, n with
  | [], _ => []
  | _ :: t, O => x :: t
  | a :: t, S n' => a :: upd t n' x
  end.

(* p->refcount_++ *)
Definition incref (h : list cell) (id : nat) : rres (list cell) :=
  match nth_error h id with
  | Some (Live rc e k) => ROk (upd h id (Live (S rc) e k))
  | Some Freed => RUaf id
  | None => RBad BAD_ID
  end.

Fixpoint incref_all (h : list cell) (ids : list nat) : rres (list cell) :=
  match ids with
  | [] => ROk h
  | id :: r => rbind (incref h id) (fun h' => incref_all h' r)
  end.

(* pending [--refcount_ == 0 ? delete] operations; a delete pushes the member handles *)
Fixpoint release (fuel : nat) (h : list cell) (work : list nat) : rres (list cell) :=
  match work with
  | [] => ROk h
  | id :: w =>
      match fuel with
      | O => RFuel
      | S f =>
          match nth_error h id with
          | Some (Live rc e k) =>
              match rc with
              | O => RBad BAD_UNDERFLOW
              | S O => release f (upd h id Freed) (k ++ w)
              | S rc' => release f (upd h id (Live rc' e k)) w
              end
          | Some Freed => RUaf id
          | None => RBad BAD_ID
          end
      end
  end.

Definition cell_rc (c : cell) : nat := match c with Live rc _ _ => rc | Freed => 0 end.
Definition total_rc (h : list cell) : nat := list_sum (map cell_rc h).

(* every release step lowers the sum of the counters by one *)
Definition decref (h : list cell) (id : nat) : rres (list cell) :=
  release (S (total_rc h)) h [id].

Definition decref_opt (h : list cell) (o : option nat) : rres (list cell) :=
  match o with None => ROk h | Some id => decref h id end.

Definition get_slot (s : list (option nat)) (i : nat) : rres (option nat) :=
  match nth_error s i with Some o => ROk o | None => RBad BAD_SLOT end.

Definition get_obj (s : list (option nat)) (i : nat) : rres nat :=
  match nth_error s i with
  | Some (Some id) => ROk id
  | Some None => RBad BAD_NULL
  | None => RBad BAD_SLOT
  end.

Fixpoint get_objs (s : list (option nat)) (is : list nat) : rres (list nat) :=
  match is with
  | [] => ROk []
  | i :: r => rbind (get_obj s i) (fun id => rbind (get_objs s r) (fun ids => ROk (id :: ids)))
  end.

(* a reference of an observed API result: an object that existed before the call, or the
   n-th object created by the call *)
Inductive oref : Type := Old (id : nat) | New (n : nat).

Definition resolve (base : nat) (r : oref) : nat :=
  match r with Old id => id | New n => base + n end.

Inductive op : Type :=
| OMake (i : nat) (ks : list nat)    (* v[i] = make_rcp<Node>(v[k]...) *)
| OCopy (i j : nat)                  (* v[i] = v[j] *)
| OMove (i j : nat)                  (* v[i] = std::move(v[j]) *)
| OMoveCtor (i j : nat)              (* { RCP t(std::move(v[j])); v[i] = std::move(t); } *)
| OReset (i : nat)                   (* v[i].reset() *)
| ODrop (i : nat)                    (* v[i].~RCP(); new (&v[i]) RCP() *)
| OFromThis (i j : nat)              (* v[i] = v[j]->rcp_from_this() *)
| OTemp (j : nat)                    (* { RCP t(v[j]); } *)
| OSteal (i dest : nat)              (* v[dest] = Add::from_dict-style move of the members of *v[i] *)
| OApi (i : nat) (news : list (list oref)) (root : oref).
                                     (* v[i] = f(...): the call created [news] and returned [root] *)

Definition live_b (h : list cell) (id : nat) : bool :=
  match nth_error h id with Some (Live _ _ _) => true | _ => false end.

(* allocate the objects created by an API call, in creation order (members first); an observed
   member that is not a live object is a malformed observation (guard) *)
Fixpoint alloc_news (base : nat) (h : list cell) (news : list (list oref)) : rres (list cell) :=
  match news with
  | [] => ROk h
  | ks :: r =>
      let ids := map (resolve base) ks in
      if forallb (live_b h) ids then
        rbind (incref_all h ids) (fun h1 => alloc_news base (h1 ++ [Live 0 0 ids]) r)
      else RBad BAD_OBS
  end.

Definition all_referenced (h : list cell) (base : nat) : bool :=
  forallb (fun c => match c with Live O _ _ => false | _ => true end) (skipn base h).

(* the dictionary stealing of Add::from_dict: [thr] is 1 in the code *)
Definition steal_members (thr : nat) (h : list cell) (m : nat) : rres (list cell) :=
  match nth_error h m with
  | Some (Live rc e k) =>
      if rc <=? thr then
        (* const_cast and std::move: the members change owner, no counter moves *)
        ROk (upd h m (Live rc e []) ++ [Live 0 0 k])
      else
        (* copy of the dictionary: every member handle is copied *)
        rbind (incref_all h k) (fun h1 => ROk (h1 ++ [Live 0 0 k]))
  | Some Freed => RUaf m
  | None => RBad BAD_ID
  end.

(* v[i] = std::move(temporary holding id): swap, then the temporary dies with the old pointer *)
Definition assign_temp (st : state) (h : list cell) (i : nat) (id : nat) : rres state :=
  rbind (get_slot (slots st) i) (fun old =>
  rbind (decref_opt h old) (fun h' =>
  ROk (mkState h' (upd (slots st) i (Some id))))).

Definition step_gen (thr : nat) (st : state) (o : op) : rres state :=
  let h := heap st in
  let s := slots st in
  match o with
  | OMake i ks =>
      rbind (get_objs s ks) (fun ids =>
      rbind (incref_all h ids) (fun h1 =>
      assign_temp st (h1 ++ [Live 1 0 ids]) i (length h)))
  | OCopy i j =>
      rbind (get_slot s j) (fun r =>
      rbind (get_slot s i) (fun old =>
      rbind (match r with Some id => incref h id | None => ROk h end) (fun h1 =>
      rbind (decref_opt h1 old) (fun h2 =>
      ROk (mkState h2 (upd s i r))))))
  | OMove i j =>
      rbind (get_slot s j) (fun r =>
      rbind (get_slot s i) (fun old =>
      ROk (mkState h (upd (upd s i r) j old))))
  | OMoveCtor i j =>
      rbind (get_slot s j) (fun r =>
      rbind (get_slot s i) (fun old0 =>
      let s1 := upd s j None in
      rbind (get_slot s1 i) (fun old =>
      rbind (decref_opt h old) (fun h' =>
      ROk (mkState h' (upd s1 i r))))))
  | OReset i =>
      rbind (get_slot s i) (fun old =>
      rbind (decref_opt h old) (fun h' =>
      ROk (mkState h' (upd s i None))))
  | ODrop i =>
      rbind (get_slot s i) (fun old =>
      rbind (decref_opt h old) (fun h' =>
      ROk (mkState h' (upd s i None))))
  | OFromThis i j =>
      rbind (get_obj s j) (fun id =>
      rbind (incref h id) (fun h1 =>
      assign_temp st h1 i id))
  | OTemp j =>
      rbind (get_slot s j) (fun r =>
      match r with
      | None => ROk st
      | Some id => rbind (incref h id) (fun h1 => rbind (decref h1 id) (fun h2 => ROk (mkState h2 s)))
      end)
  | OSteal i dest =>
      rbind (get_obj s i) (fun m =>
      rbind (steal_members thr h m) (fun h1 =>
      rbind (incref h1 (length h)) (fun h2 =>
      assign_temp st h2 dest (length h))))
  | OApi i news root =>
      let base := length h in
      rbind (alloc_news base h news) (fun h1 =>
      let rid := resolve base root in
      if live_b h1 rid then
        rbind (incref h1 rid) (fun h2 =>
        if all_referenced h2 base then assign_temp st h2 i rid else RBad BAD_OBS)
      else RBad BAD_OBS)
  end.

Definition steal_threshold : nat := 1.
Definition step : state -> op -> rres state := step_gen steal_threshold.

Fixpoint run_gen (thr : nat) (st : state) (p : list op) : rres state :=
  match p with
  | [] => ROk st
  | o :: r => rbind (step_gen thr st o) (fun st' => run_gen thr st' r)
  end.
Definition run : state -> list op -> rres state := run_gen steal_threshold.

(* the states after every step (what the driver prints); stops at the first failing step *)
Fixpoint trace (st : state) (p : list op) : list (rres state) :=
  match p with
  | [] => []
  | o :: r => match step st o with
              | ROk st' => ROk st' :: trace st' r
              | e => [e]
              end
  end.

(* [nslots] null handles; the objects that exist before the program are the library's static
   constants: leaves held from outside [ext] times *)
Definition init_state (exts : list nat) (nslots : nat) : state :=
  mkState (map (fun e => Live e e []) exts) (repeat None nslots).

Definition is_live (c : cell) : bool := match c with Live _ _ _ => true | Freed => false end.
Definition live_count (st : state) : nat := length (filter is_live (heap st)).

(* what a handle lets its holder observe: the tree below it (children have smaller ids, so
   [fuel = S id] suffices) *)
Inductive tree : Type := T (kids : list tree) | TFreed | TCut.

Definition kids_of (h : list cell) (id : nat) : option (list nat) :=
  match nth_error h id with
  | Some (Live _ _ k) => Some k
  | _ => None
  end.

Fixpoint view (fuel : nat) (h : list cell) (id : nat) : tree :=
  match fuel with
  | O => TCut
  | S f => match kids_of h id with
           | Some k => T (map (view f h) k)
           | None => TFreed
           end
  end.

Definition view_slot (st : state) (i : nat) : option tree :=
  match nth_error (slots st) i with
  | Some (Some id) => Some (view (S id) (heap st) id)
  | _ => None
  end.
