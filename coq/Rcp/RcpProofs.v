(* C40 -- every step of a handle program keeps the counting invariant, never touches a freed
   object and never runs out of fuel. *)
From Coq Require Import List Arith Bool Lia.
From SE Require Import Rcp.RcpModel Rcp.RcpSpec Rcp.RcpLemmas Rcp.RcpInv.
Import ListNotations.

(* the object whose members a step moves out (Add::from_dict stealing), if any *)
Definition stolen (st : state) (o : op) : option nat :=
  match o with
  | OSteal i _ =>
      match nth_error (slots st) i with
      | Some (Some m) =>
          match nth_error (heap st) m with
          | Some (Live rc _ _) => if rc <=? steal_threshold then Some m else None
          | _ => None
          end
      | _ => None
      end
  | _ => None
  end.

Record step_post (st : state) (o : op) (st' : state) : Prop := mkPost {
  sp_wf : wf st';
  sp_ev : evolves (stolen st o) (heap st) (heap st');
  sp_slots : forall j, ~ In j (writes o) -> nth_error (slots st') j = nth_error (slots st) j;
  sp_len : length (slots st') = length (slots st)
}.

Definition post (st : state) (o : op) (r : rres state) : Prop :=
  match r with
  | ROk st' => step_post st o st'
  | RBad _ => True
  | RUaf _ => False
  | RFuel => False
  end.

Lemma occ_olist0 : forall o x, occ (olist o) x = socc x o.
Proof. intros. destruct o; simpl; auto. Qed.

Lemma slot_set : forall s i old new x, nth_error s i = Some old ->
  slot_refs (upd s i new) x + occ (olist old) x = slot_refs s x + occ (olist new) x.
Proof. intros. rewrite !occ_olist0. apply slot_refs_upd. auto. Qed.

Lemma upd_cases : forall A (l : list A) n a m b,
  nth_error (upd l n a) m = Some b -> b = a \/ nth_error l m = Some b.
Proof.
  intros. destruct (Nat.eq_dec n m).
  - subst. left. assert (m < length l).
    { apply nth_some_lt in H. rewrite upd_length in H. auto. }
    rewrite nth_upd_eq in H by auto. congruence.
  - right. rewrite nth_upd_neq in H by auto. auto.
Qed.

Lemma decref_opt_ok : forall h s old, inv h s (olist old) ->
  exists h', decref_opt h old = ROk h' /\ inv h' s [] /\ evolves None h h'
     /\ length h' = length h /\ (forall n, posb n h -> posb n h').
Proof.
  intros h s [o|] I; simpl in *.
  - unfold decref. apply release_ok; [exact I | lia].
  - exists h. split; [reflexivity|]. split; [exact I|]. split; [apply evolves_refl|]. split; auto.
Qed.

Lemma finish : forall st o h1 s' old,
  inv h1 s' (olist old) -> posb (length h1) h1 ->
  evolves (stolen st o) (heap st) h1 ->
  (forall j, ~ In j (writes o) -> nth_error s' j = nth_error (slots st) j) ->
  length s' = length (slots st) ->
  post st o (rbind (decref_opt h1 old) (fun h' => ROk (mkState h' s'))).
Proof.
  intros st o h1 s' old I P V W L.
  destruct (decref_opt_ok h1 s' old I) as (h' & E & I' & V' & L' & P').
  rewrite E. simpl. constructor; simpl; auto.
  - split; simpl; auto. rewrite L'. apply P'. auto.
  - eapply evolves_trans; eauto. apply evolves_weaken. auto.
Qed.

(* v[i] := r, where the reference in r is already counted (held by a temporary) *)
Lemma tail_ok : forall st o h1 s1 i r old,
  nth_error s1 i = Some old ->
  inv h1 s1 (olist r) -> posb (length h1) h1 ->
  evolves (stolen st o) (heap st) h1 ->
  (forall j, ~ In j (writes o) -> j <> i /\ nth_error s1 j = nth_error (slots st) j) ->
  length s1 = length (slots st) ->
  post st o (rbind (decref_opt h1 old) (fun h2 => ROk (mkState h2 (upd s1 i r)))).
Proof.
  intros st o h1 s1 i r old Ho I P V W L.
  apply finish; auto.
  - apply (inv_slots_change h1 s1 _ (olist r) _ I).
    + intros x. apply (slot_set s1 i old r x Ho).
    + intros i0 y Hx. apply upd_cases in Hx. destruct Hx as [Hx|Hx].
      * subst r. eapply inv_work; eauto. simpl. auto.
      * eapply inv_slots; eauto.
    + destruct old as [y0|]; simpl.
      * intros y [Hy|[]]. subst. eapply inv_slots; eauto.
      * intros y [].
  - intros j Hj. destruct (W j Hj) as [Hne Hs]. rewrite nth_upd_neq by auto. auto.
  - rewrite upd_length. auto.
Qed.

Lemma assign_ok : forall st o h1 i id,
  inv h1 (slots st) [id] -> posb (length h1) h1 ->
  evolves (stolen st o) (heap st) h1 ->
  (forall j, ~ In j (writes o) -> j <> i) ->
  post st o (assign_temp st h1 i id).
Proof.
  intros st o h1 i id I P V W. unfold assign_temp, get_slot.
  destruct (nth_error (slots st) i) as [old|] eqn:Ho; simpl; auto.
  apply (tail_ok st o h1 (slots st) i (Some id) old); auto.
Qed.

Lemma get_objs_res : forall s ks,
  match get_objs s ks with ROk _ => True | RBad _ => True | _ => False end.
Proof.
  induction ks as [|k r IH]; simpl; auto.
  unfold get_obj. destruct (nth_error s k) as [[id|]|]; simpl; auto.
  destruct (get_objs s r); simpl; auto.
Qed.

Lemma get_objs_live : forall h s w ks ids, inv h s w -> get_objs s ks = ROk ids ->
  forall c, In c ids -> live_at h c.
Proof.
  induction ks as [|k r IH]; simpl; intros ids I E c Hc.
  - inversion E; subst. destruct Hc.
  - unfold get_obj in E. destruct (nth_error s k) as [[id|]|] eqn:Hk; simpl in E; try discriminate.
    destruct (get_objs s r) as [ids'| | |] eqn:Er; simpl in E; try discriminate.
    inversion E; subst. destruct Hc as [Hc|Hc].
    + subst. eapply inv_slots; eauto.
    + eapply IH; eauto.
Qed.

Lemma posb_app_new : forall h n e k, posb (length h) h -> 1 <= n ->
  posb (length (h ++ [Live n e k])) (h ++ [Live n e k]).
Proof.
  intros h n e k P Hn x rc0 e0 k0 Hlt Hx. apply nth_app_cases in Hx.
  destruct Hx as [[Hl Hx]|[_ E]].
  - eapply P; eauto.
  - inversion E. lia.
Qed.

Lemma posb_extend : forall h n, posb n h ->
  (forall rc e k, nth_error h n = Some (Live rc e k) -> 1 <= rc) -> posb (S n) h.
Proof.
  intros h n P H x rc e k Hlt Hx. destruct (Nat.eq_dec x n).
  - subst. eapply H; eauto.
  - eapply P; eauto. lia.
Qed.

Lemma live_b_live : forall h c, live_b h c = true -> live_at h c.
Proof.
  unfold live_b, live_at. intros h c H.
  destruct (nth_error h c) as [[rc e k|]|]; try discriminate. eauto.
Qed.

(* ------------------------------------------------------------------ the operations *)

Lemma step_move : forall st i j, wf st -> post st (OMove i j) (step st (OMove i j)).
Proof.
  intros [h s] i j [I P]. simpl in *. unfold step, step_gen. simpl. unfold get_slot.
  destruct (nth_error s j) as [r|] eqn:Hr; simpl; auto.
  destruct (nth_error s i) as [old|] eqn:Ho; simpl; auto.
  assert (Hi : i < length s) by (eapply nth_some_lt; eauto).
  assert (Hj : nth_error (upd s i r) j = Some r).
  { destruct (Nat.eq_dec i j). subst. apply nth_upd_eq; auto. rewrite nth_upd_neq; auto. }
  constructor; simpl.
  - split; simpl; auto.
    apply (inv_slots_change h s _ [] [] I).
    + intros x. pose proof (slot_refs_upd s i old r x Ho).
      pose proof (slot_refs_upd (upd s i r) j r old x Hj). lia.
    + intros i0 id Hx. apply upd_cases in Hx. destruct Hx as [Hx|Hx].
      * subst old. eapply inv_slots; eauto.
      * apply upd_cases in Hx. destruct Hx as [Hx|Hx].
        -- subst r. eapply inv_slots; eauto.
        -- eapply inv_slots; eauto.
    + intros id [].
  - apply evolves_refl.
  - intros j0 Hn.
    assert (i <> j0 /\ j <> j0) as [N1 N2] by (split; intro; apply Hn; simpl; auto).
    rewrite !nth_upd_neq; auto.
  - rewrite !upd_length. auto.
Qed.

Lemma step_reset_gen : forall st o i, wf st -> writes o = [i] ->
  post st o (rbind (get_slot (slots st) i) (fun old =>
             rbind (decref_opt (heap st) old) (fun h' =>
             ROk (mkState h' (upd (slots st) i None))))).
Proof.
  intros [h s] o i [I P] W. simpl in *. unfold get_slot.
  destruct (nth_error s i) as [old|] eqn:Ho; simpl; auto.
  apply (tail_ok (mkState h s) o h s i None old); simpl; auto.
  - apply evolves_refl.
  - intros j Hj. rewrite W in Hj. split; auto. intro; subst; apply Hj; left; auto.
Qed.

Lemma step_copy : forall st i j, wf st -> post st (OCopy i j) (step st (OCopy i j)).
Proof.
  intros [h s] i j [I P]. simpl in *. unfold step, step_gen. simpl. unfold get_slot.
  destruct (nth_error s j) as [r|] eqn:Hr; simpl; auto.
  destruct (nth_error s i) as [old|] eqn:Ho; simpl; auto.
  assert (W : forall j0, ~ In j0 (writes (OCopy i j)) -> j0 <> i /\ nth_error s j0 = nth_error s j0).
  { intros j0 Hj. split; auto. intro; subst; apply Hj; left; auto. }
  destruct r as [id|].
  - destruct (incref_ok h s [] id I) as (h1 & E & I1 & V1 & L1 & P1 & K1).
    { eapply inv_slots; eauto. }
    rewrite E. simpl.
    apply (tail_ok (mkState h s) (OCopy i j) h1 s i (Some id) old); simpl; auto.
    rewrite L1. apply P1. auto.
  - simpl.
    apply (tail_ok (mkState h s) (OCopy i j) h s i None old); simpl; auto.
    apply evolves_refl.
Qed.

Lemma step_movector : forall st i j, wf st -> post st (OMoveCtor i j) (step st (OMoveCtor i j)).
Proof.
  intros [h s] i j [I P]. simpl in *. unfold step, step_gen. simpl. unfold get_slot.
  destruct (nth_error s j) as [r|] eqn:Hr; simpl; auto.
  destruct (nth_error s i) as [old0|] eqn:Ho0; simpl; auto.
  destruct (nth_error (upd s j None) i) as [old|] eqn:Ho; simpl; auto.
  apply (tail_ok (mkState h s) (OMoveCtor i j) h (upd s j None) i r old); simpl; auto.
  - apply (inv_slots_change h s _ [] _ I).
    + intros x. apply (slot_set s j r None x Hr).
    + intros i0 y Hx. apply upd_cases in Hx. destruct Hx as [Hx|Hx]; [discriminate|].
      eapply inv_slots; eauto.
    + destruct r as [y0|]; simpl.
      * intros y [Hy|[]]. subst. eapply inv_slots; eauto.
      * intros y [].
  - apply evolves_refl.
  - intros j0 Hj.
    assert (i <> j0 /\ j <> j0) as [N1 N2] by (split; intro; apply Hj; simpl; auto).
    split; auto. apply nth_upd_neq. auto.
  - apply upd_length.
Qed.

Lemma step_fromthis : forall st i j, wf st -> post st (OFromThis i j) (step st (OFromThis i j)).
Proof.
  intros [h s] i j [I P]. simpl in *. unfold step, step_gen. simpl. unfold get_obj.
  destruct (nth_error s j) as [[id|]|] eqn:Hr; simpl; auto.
  destruct (incref_ok h s [] id I) as (h1 & E & I1 & V1 & L1 & P1 & K1).
  { eapply inv_slots; eauto. }
  rewrite E. simpl.
  apply (assign_ok (mkState h s) (OFromThis i j) h1 i id); simpl; auto;
    try (rewrite L1; apply P1; auto); try (intros j0 Hj Hc; apply Hj; left; auto).
Qed.

Lemma step_temp : forall st j, wf st -> post st (OTemp j) (step st (OTemp j)).
Proof.
  intros [h s] j [I P]. simpl in *. unfold step, step_gen. simpl. unfold get_slot.
  destruct (nth_error s j) as [r|] eqn:Hr; simpl; auto.
  destruct r as [id|].
  - destruct (incref_ok h s [] id I) as (h1 & E & I1 & V1 & L1 & P1 & K1).
    { eapply inv_slots; eauto. }
    rewrite E. simpl.
    apply (finish (mkState h s) (OTemp j) h1 s (Some id)); simpl; auto;
      try (rewrite L1; apply P1; auto).
  - constructor; simpl; auto.
    + split; auto.
    + apply evolves_refl.
Qed.

Lemma step_make : forall st i ks, wf st -> post st (OMake i ks) (step st (OMake i ks)).
Proof.
  intros [h s] i ks [I P]. simpl in *. unfold step, step_gen. simpl.
  pose proof (get_objs_res s ks) as Hres.
  destruct (get_objs s ks) as [ids| | |] eqn:Eg; simpl; auto.
  destruct (incref_all_ok ids h s [] I (get_objs_live _ _ _ _ _ I Eg))
    as (h1 & E1 & I1 & V1 & L1 & P1 & K1).
  rewrite E1. simpl.
  assert (I2 : inv (h1 ++ [Live 1 0 ids]) s [length h1]).
  { apply (inv_alloc h1 s [] [length h1] ids 1 I1).
    - intros c Hc. rewrite L1. apply live_at_lt. eapply get_objs_live; eauto.
    - intros x Hx. simpl. destruct (Nat.eq_dec (length h1) x); congruence.
    - simpl. destruct (Nat.eq_dec (length h1) (length h1)); congruence.
    - intros x [Hx|[]]. auto. }
  rewrite L1 in I2.
  apply (assign_ok (mkState h s) (OMake i ks) (h1 ++ [Live 1 0 ids]) i (length h)); simpl; auto;
    try (apply posb_app_new; auto; rewrite L1; apply P1; auto);
    try (eapply evolves_trans; [exact V1 | apply evolves_app]);
    try (intros j0 Hj Hc; apply Hj; left; auto).
Qed.

Lemma evolves_steal : forall h m rc e k, nth_error h m = Some (Live rc e k) ->
  evolves (Some m) h (upd h m (Live rc e []) ++ [Live 0 0 k]).
Proof.
  intros h m rc e k Hn.
  assert (Hlt : m < length h) by (eapply nth_some_lt; eauto).
  eapply evolves_trans; [|apply evolves_weaken; apply evolves_app].
  repeat split.
  - rewrite upd_length. lia.
  - intros x _ _. unfold ext_of. destruct (Nat.eq_dec m x).
    + subst. rewrite nth_upd_eq by auto. rewrite Hn. auto.
    + rewrite nth_upd_neq by auto. auto.
  - intros x _ _ Hne. unfold kids_of. destruct (Nat.eq_dec m x).
    + subst. congruence.
    + rewrite nth_upd_neq by auto. auto.
  - intros x (rc0 & e0 & k0 & Hx). destruct (Nat.eq_dec m x).
    + subst. rewrite Hn in Hx. inversion Hx; subst.
      exists rc0, (S e0), []. apply nth_upd_eq; auto.
    + exists rc0, (S e0), k0. rewrite nth_upd_neq by auto. auto.
  - intros x rc0 e0 k0 Hx Hn0. apply nth_some_lt in Hn0. rewrite upd_length in Hn0. lia.
Qed.

(* a new object with zero counter was appended; its first handle is assigned to v[dest] *)
Lemma new_cell_tail : forall st o hb k dest,
  inv (hb ++ [Live 0 0 k]) (slots st) [] -> length hb = length (heap st) -> posb (length hb) hb ->
  evolves (stolen st o) (heap st) hb ->
  (forall j, ~ In j (writes o) -> j <> dest) ->
  post st o (rbind (incref (hb ++ [Live 0 0 k]) (length (heap st)))
                   (fun h2 => assign_temp st h2 dest (length (heap st)))).
Proof.
  intros st o hb k dest I L P V W.
  assert (Hl : live_at (hb ++ [Live 0 0 k]) (length (heap st))).
  { exists 0, 0, k. rewrite <- L. apply nth_app_new. }
  destruct (incref_ok _ _ [] _ I Hl) as (h2 & E2 & I2 & V2 & L2 & P2 & K2).
  rewrite E2. simpl.
  apply assign_ok; auto.
  - rewrite L2, app_length. simpl. replace (length hb + 1) with (S (length hb)) by lia.
    apply posb_extend.
    + apply P2. apply posb_app; auto.
    + intros rc e k0 Hx. pose proof (inv_count _ _ _ I2 _ _ _ _ Hx) as Hc.
      rewrite L in Hc. rewrite count_occ_cons_eq in Hc by auto. lia.
  - eapply evolves_trans; [exact V|]. apply evolves_weaken.
    eapply evolves_trans; [apply evolves_app | exact V2].
Qed.

Lemma step_steal : forall st i dest, wf st -> post st (OSteal i dest) (step st (OSteal i dest)).
Proof.
  intros [h s] i dest [I P]. simpl in *. unfold step, step_gen. simpl. unfold get_obj.
  destruct (nth_error s i) as [[m|]|] eqn:Hs; simpl; auto.
  destruct (inv_slots _ _ _ I _ _ Hs) as (rc & e & k & Hn).
  assert (Hlt : m < length h) by (eapply nth_some_lt; eauto).
  assert (W : forall j, ~ In j (writes (OSteal i dest)) -> j <> dest).
  { intros j Hj Hc. apply Hj. simpl. auto. }
  unfold steal_members. rewrite Hn.
  destruct (rc <=? steal_threshold) eqn:Ht; simpl.
  - (* the members are stolen *)
    assert (I1 : inv (upd h m (Live rc e []) ++ [Live 0 0 k]) s []).
    { apply (inv_alloc (upd h m (Live rc e [])) s [] [] k 0).
      - apply inv_take_members; auto.
      - intros c Hc. rewrite upd_length. destruct (inv_kids _ _ _ I _ _ _ _ Hn c Hc). lia.
      - auto.
      - reflexivity.
      - intros x []. }
    apply (new_cell_tail (mkState h s) (OSteal i dest) (upd h m (Live rc e [])) k dest); simpl; auto.
    + apply upd_length.
    + rewrite upd_length. apply posb_set_rc; auto. eapply P; eauto.
    + rewrite Hs, Hn, Ht.
      assert (E : upd h m (Live rc e []) = upd h m (Live rc e [])) by reflexivity.
      pose proof (evolves_steal h m rc e k Hn) as V.
      destruct V as (A & B & C & D & F). repeat split.
      * rewrite upd_length. lia.
      * intros x Hx Hl. rewrite <- B; auto.
        -- unfold ext_of. rewrite nth_app_old by (rewrite upd_length; auto). auto.
        -- destruct Hl as (r0 & e0 & k0 & Hl). exists r0, e0, k0.
           rewrite nth_app_old by (rewrite upd_length; auto). auto.
      * intros x Hx Hl Hne. rewrite <- C; auto.
        -- unfold kids_of. rewrite nth_app_old by (rewrite upd_length; auto). auto.
        -- destruct Hl as (r0 & e0 & k0 & Hl). exists r0, e0, k0.
           rewrite nth_app_old by (rewrite upd_length; auto). auto.
      * intros x Hx. destruct (D x Hx) as (r0 & e0 & k0 & Hl).
        pose proof Hx as Hx'. destruct Hx' as (r1 & e1 & k1 & Hx').
        apply nth_some_lt in Hx'.
        exists r0, e0, k0. rewrite nth_app_old in Hl by (rewrite upd_length; auto). auto.
      * intros x r0 e0 k0 Hx Hl. apply nth_some_lt in Hl. rewrite upd_length in Hl. lia.
  - (* the members are copied *)
    assert (Hk : forall c, In c k -> live_at h c).
    { intros c Hc. destruct (inv_kids _ _ _ I _ _ _ _ Hn c Hc). auto. }
    destruct (incref_all_ok k h s [] I Hk) as (h1 & E1 & I1 & V1 & L1 & P1 & K1).
    rewrite E1. simpl.
    assert (I2 : inv (h1 ++ [Live 0 0 k]) s []).
    { apply (inv_alloc h1 s [] [] k 0 I1).
      - intros c Hc. rewrite L1. apply live_at_lt. auto.
      - auto.
      - reflexivity.
      - intros x []. }
    apply (new_cell_tail (mkState h s) (OSteal i dest) h1 k dest); simpl; auto.
    + rewrite L1. apply P1. auto.
    + rewrite Hs, Hn, Ht. exact V1.
Qed.

Lemma nth_error_skipn' : forall A n (l : list A) i, nth_error (skipn n l) i = nth_error l (n + i).
Proof. induction n; destruct l; simpl; intros; auto; destruct i; auto. Qed.

Lemma all_referenced_posb : forall h base, posb base h -> all_referenced h base = true ->
  posb (length h) h.
Proof.
  intros h base P A x rc e k Hlt Hx. destruct (lt_dec x base).
  - eapply P; eauto.
  - unfold all_referenced in A. rewrite forallb_forall in A.
    assert (Hin : In (Live rc e k) (skipn base h)).
    { apply nth_error_In with (n := x - base). rewrite nth_error_skipn'.
      replace (base + (x - base)) with x by lia. auto. }
    specialize (A _ Hin). destruct rc; [discriminate | lia].
Qed.

Lemma alloc_news_ok : forall news base h s, inv h s [] -> base <= length h -> posb base h ->
  match alloc_news base h news with
  | ROk h' => inv h' s [] /\ evolves None h h' /\ base <= length h' /\ posb base h'
  | RBad _ => True
  | _ => False
  end.
Proof.
  induction news as [|ks r IH]; intros base h s I Hb P; simpl.
  - split; [exact I|]. split; [apply evolves_refl|]. split; auto.
  - remember (map (resolve base) ks) as ids.
    destruct (forallb (live_b h) ids) eqn:Ef; auto.
    assert (Hl : forall c, In c ids -> live_at h c).
    { intros c Hc. rewrite forallb_forall in Ef. apply live_b_live. auto. }
    destruct (incref_all_ok ids h s [] I Hl) as (h1 & E1 & I1 & V1 & L1 & P1 & K1).
    rewrite E1. simpl.
    assert (I2 : inv (h1 ++ [Live 0 0 ids]) s []).
    { apply (inv_alloc h1 s [] [] ids 0 I1).
      - intros c Hc. rewrite L1. apply live_at_lt. auto.
      - auto.
      - reflexivity.
      - intros x []. }
    assert (Hb2 : base <= length (h1 ++ [Live 0 0 ids])) by (rewrite app_length; lia).
    assert (P2 : posb base (h1 ++ [Live 0 0 ids])) by (apply posb_app; [apply P1; auto | lia]).
    specialize (IH base _ s I2 Hb2 P2).
    destruct (alloc_news base (h1 ++ [Live 0 0 ids]) r) as [h'| | |]; auto.
    destruct IH as (I' & V' & B' & P'). split; auto. split; [|split; auto].
    eapply evolves_trans; [exact V1|]. eapply evolves_trans; [apply evolves_app | exact V'].
Qed.

Lemma step_api : forall st i news root, wf st ->
  post st (OApi i news root) (step st (OApi i news root)).
Proof.
  intros [h s] i news root [I P]. simpl in *. unfold step, step_gen. simpl.
  pose proof (alloc_news_ok news (length h) h s I (le_n _) P) as HA.
  destruct (alloc_news (length h) h news) as [h1| | |]; simpl; auto; try contradiction.
  destruct HA as (I1 & V1 & B1 & P1).
  destruct (live_b h1 (resolve (length h) root)) eqn:El; simpl; auto.
  apply live_b_live in El.
  destruct (incref_ok h1 s [] _ I1 El) as (h2 & E2 & I2 & V2 & L2 & P2 & K2).
  rewrite E2. simpl.
  destruct (all_referenced h2 (length h)) eqn:Ea; simpl; auto.
  apply (assign_ok (mkState h s) (OApi i news root) h2 i); simpl; auto;
    try (apply all_referenced_posb with (base := length h); auto);
    try (eapply evolves_trans; eauto);
    try (intros j Hj Hc; apply Hj; left; auto).
Qed.

(* C40 rcp_no_uaf, one step: in a well-formed state no operation touches a freed object (or
   needs more fuel than the model provides), and the state stays well-formed *)
Theorem step_sound : forall st o, wf st -> post st o (step st o).
Proof.
  intros st o W. destruct o.
  - apply step_make; auto.
  - apply step_copy; auto.
  - apply step_move; auto.
  - apply step_movector; auto.
  - apply (step_reset_gen st (OReset i) i); auto.
  - apply (step_reset_gen st (ODrop i) i); auto.
  - apply step_fromthis; auto.
  - apply step_temp; auto.
  - apply step_steal; auto.
  - apply step_api; auto.
Qed.

Theorem run_sound : forall p st, wf st ->
  match run st p with ROk st' => wf st' | RBad _ => True | _ => False end.
Proof.
  induction p as [|o r IH]; intros st W.
  - simpl. auto.
  - unfold run in *. simpl. pose proof (step_sound st o W) as H. unfold step in H.
    destruct (step_gen steal_threshold st o) as [st'| | |]; simpl in *; auto.
    apply IH. apply (sp_wf _ _ _ H).
Qed.

Lemma nth_repeat_none : forall n i (x : nat), nth_error (repeat (@None nat) n) i <> Some (Some x).
Proof.
  intros n i x H. apply nth_error_In in H. apply repeat_spec in H. discriminate.
Qed.

Lemma init_wf : forall exts n, Forall (fun e => 1 <= e) exts -> wf (init_state exts n).
Proof.
  intros exts n F. unfold init_state.
  assert (C : forall id c, nth_error (map (fun e => Live e e []) exts) id = Some c ->
              exists e, In e exts /\ c = Live e e []).
  { intros id c H. apply nth_error_In in H. apply in_map_iff in H.
    destruct H as (e & E & Hin). eauto. }
  split; simpl.
  - constructor.
    + intros i id H. exfalso. eapply nth_repeat_none; eauto.
    + intros id rc e k H c Hc. destruct (C _ _ H) as (e0 & _ & E). inversion E; subst. destruct Hc.
    + intros id [].
    + intros id rc e k H. destruct (C _ _ H) as (e0 & _ & E). inversion E; subst.
      rewrite slot_refs_zero by (intros i Hi; eapply nth_repeat_none; eauto).
      rewrite kid_refs_zero. simpl. lia.
      intros p rc1 e1 k1 Hp Hin. destruct (C _ _ Hp) as (e2 & _ & E2). inversion E2; subst.
      destruct Hin.
  - intros id rc e k _ H. destruct (C _ _ H) as (e0 & Hin & E). inversion E; subst.
    rewrite Forall_forall in F. apply F. auto.
Qed.

(* C40 rcp_no_uaf: no handle program, however long, ever touches a freed object *)
Theorem rcp_no_uaf : forall exts n p, Forall (fun e => 1 <= e) exts ->
  match run (init_state exts n) p with
  | ROk st' => wf st'
  | RBad _ => True
  | RUaf _ => False
  | RFuel => False
  end.
Proof. intros. apply run_sound. apply init_wf. auto. Qed.
