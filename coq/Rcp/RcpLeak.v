(* C40 -- an object is alive exactly while it is reachable from a handle; programs that drop all
   their handles return the heap to its baseline (no leak), for acyclic object graphs. *)
From Coq Require Import List Arith Bool Lia.
From SE Require Import Rcp.RcpModel Rcp.RcpSpec Rcp.RcpLemmas Rcp.RcpInv Rcp.RcpProofs.
Import ListNotations.

Lemma slot_refs_pos : forall s id, 1 <= slot_refs s id -> exists i, nth_error s i = Some (Some id).
Proof.
  induction s as [|o s IH]; intros id H; unfold slot_refs in H; simpl in H.
  - lia.
  - destruct o as [j|]; simpl in H.
    + destruct (Nat.eq_dec j id).
      * subst. exists 0. reflexivity.
      * destruct (IH id) as [i Hi]. { unfold slot_refs. lia. } exists (S i). auto.
    + destruct (IH id) as [i Hi]. { unfold slot_refs. lia. } exists (S i). auto.
Qed.

Lemma kid_refs_pos : forall h id, 1 <= kid_refs h id ->
  exists p rc e k, nth_error h p = Some (Live rc e k) /\ In id k.
Proof.
  induction h as [|c h IH]; intros id H; unfold kid_refs in H; simpl in H.
  - lia.
  - destruct (Nat.eq_dec (cocc id c) 0) as [Hz|Hz].
    + destruct (IH id) as (p & rc & e & k & Hp & Hin). { unfold kid_refs. lia. }
      exists (S p), rc, e, k. auto.
    + destruct c as [rc e k|]; simpl in Hz; [|congruence].
      exists 0, rc, e, k. split; auto. apply (count_occ_In Nat.eq_dec). lia.
Qed.

Lemma live_reach_n : forall st, wf st -> forall n id,
  length (heap st) - id <= n -> live_at (heap st) id -> reach st id.
Proof.
  intros st [I P]. induction n as [|n IH]; intros id Hn Hl.
  - apply live_at_lt in Hl. lia.
  - pose proof (live_at_lt _ _ Hl) as Hlt. destruct Hl as (rc & e & k & Hx).
    pose proof (inv_count _ _ _ I _ _ _ _ Hx) as Hc. simpl in Hc.
    pose proof (P _ _ _ _ Hlt Hx) as Hp.
    destruct e as [|e].
    + destruct (le_lt_dec 1 (slot_refs (slots st) id)) as [Hs|Hs].
      * destruct (slot_refs_pos _ _ Hs) as [i Hi]. eapply reach_slot; eauto.
      * destruct (kid_refs_pos (heap st) id) as (p & rc1 & e1 & k1 & Hp1 & Hin). { lia. }
        destruct (inv_kids _ _ _ I _ _ _ _ Hp1 id Hin) as [Hlt1 _].
        apply (reach_kid st p k1 id); auto.
        -- apply IH. { pose proof (nth_some_lt _ _ _ _ Hp1). lia. } exists rc1, e1, k1. auto.
        -- apply kids_of_live. eauto.
    + eapply reach_ext; eauto.
Qed.

Theorem reach_live : forall st, wf st -> forall id, reach st id -> live_at (heap st) id.
Proof.
  intros st [I P] id R. induction R.
  - eapply inv_slots; eauto.
  - exists rc, (S e), k. auto.
  - apply kids_of_live in H. destruct H as (rc & e & Hp).
    destruct (inv_kids _ _ _ I _ _ _ _ Hp c H0). auto.
Qed.

(* C40: "every expression is freed once its last reference is dropped" and no earlier: in every
   state between two steps an object is alive iff a chain of handles leads to it *)
Theorem live_iff_reach : forall st, wf st -> forall id, live_at (heap st) id <-> reach st id.
Proof.
  intros st W id. split.
  - apply (live_reach_n st W (length (heap st) - id)). lia.
  - apply reach_live. auto.
Qed.

(* C40 rcp_no_leak (state form): all handles dropped, nothing referenced from outside: nothing is
   alive *)
Theorem no_leak : forall st, wf st -> all_null (slots st) ->
  (forall id rc e k, nth_error (heap st) id = Some (Live rc e k) -> e = 0) ->
  forall id, ~ live_at (heap st) id.
Proof.
  intros st W N E id Hl. apply (live_iff_reach st W) in Hl. induction Hl.
  - apply N in H. discriminate.
  - apply E in H. discriminate.
  - auto.
Qed.

(* ------------------------------------------------------------------ programs *)

Lemma stolen_unshared : forall st o m, wf st -> stolen st o = Some m ->
  exists i dest rc k, o = OSteal i dest /\ nth_error (slots st) i = Some (Some m) /\
    nth_error (heap st) m = Some (Live rc 0 k) /\ slot_refs (slots st) m = 1 /\
    kid_refs (heap st) m = 0.
Proof.
  intros st o m [I P] H. destruct o; simpl in H; try discriminate.
  destruct (nth_error (slots st) i) as [[m0|]|] eqn:Hs; try discriminate.
  destruct (nth_error (heap st) m0) as [[rc e k|]|] eqn:Hn; try discriminate.
  destruct (rc <=? steal_threshold) eqn:Ht; try discriminate. inversion H; subst m0.
  apply Nat.leb_le in Ht. unfold steal_threshold in Ht.
  pose proof (inv_count _ _ _ I _ _ _ _ Hn) as Hc. simpl in Hc.
  pose proof (slot_refs_ge _ _ _ Hs).
  assert (e = 0) by lia. subst e.
  exists i, dest, rc, k. repeat split; auto; lia.
Qed.

(* the objects referenced from outside the program are the same objects, with the same members,
   for ever *)
Definition pinned (h h' : list cell) : Prop :=
  (forall x, ext_pos h x -> ext_pos h' x /\ kids_of h' x = kids_of h x) /\
  (forall x, ext_pos h' x -> ext_pos h x).

Lemma pinned_refl : forall h, pinned h h.
Proof. intros. split; auto. Qed.

Lemma pinned_trans : forall h h1 h2, pinned h h1 -> pinned h1 h2 -> pinned h h2.
Proof.
  intros h h1 h2 [A B] [A' B']. split.
  - intros x Hx. destruct (A x Hx) as [H1 K1]. destruct (A' x H1) as [H2 K2].
    split; auto. congruence.
  - auto.
Qed.

Lemma step_pinned : forall st o st', wf st -> step st o = ROk st' -> pinned (heap st) (heap st').
Proof.
  intros st o st' W E. pose proof (step_sound st o W) as H. rewrite E in H. simpl in H.
  destruct (sp_ev _ _ _ H) as (A & B & C & D & F). split.
  - intros x Hx. pose proof (D x Hx) as Hl.
    assert (Hlt : x < length (heap st)).
    { destruct Hx as (? & ? & ? & Hx). eapply nth_some_lt; eauto. }
    split.
    + apply ext_pos_ext_of. apply ext_pos_ext_of in Hx. destruct Hx as (e & Hx).
      exists e. rewrite B; auto.
    + apply C; auto. intro Hs. symmetry in Hs.
      destruct (stolen_unshared st o x W Hs) as (i & dest & rc & k & _ & _ & Hn & _).
      destruct Hx as (rc' & e' & k' & Hx). congruence.
  - intros x Hx. destruct (lt_dec x (length (heap st))).
    + assert (Hl : live_at (heap st') x).
      { destruct Hx as (rc & e & k & Hx). exists rc, (S e), k. auto. }
      apply ext_pos_ext_of. apply ext_pos_ext_of in Hx. destruct Hx as (e & Hx).
      exists e. rewrite <- B; auto.
    + destruct Hx as (rc & e & k & Hx). apply F in Hx; [discriminate | lia].
Qed.

Lemma run_pinned : forall p st st', wf st -> run st p = ROk st' ->
  pinned (heap st) (heap st') /\ wf st'.
Proof.
  induction p as [|o r IH]; intros st st' W E.
  - unfold run in E. simpl in E. inversion E; subst. split; auto. apply pinned_refl.
  - unfold run in E. simpl in E.
    destruct (step_gen steal_threshold st o) as [st1| | |] eqn:E1; simpl in E; try discriminate.
    pose proof (step_sound st o W) as H. unfold step in H. rewrite E1 in H. simpl in H.
    pose proof (step_pinned st o st1 W E1) as P1.
    destruct (IH st1 st' (sp_wf _ _ _ H) E) as [P2 W2].
    split; auto. eapply pinned_trans; eauto.
Qed.

Lemma init_ext_pos : forall exts n x, Forall (fun e => 1 <= e) exts ->
  (ext_pos (heap (init_state exts n)) x <-> x < length exts).
Proof.
  intros exts n x F. unfold init_state, ext_pos. simpl. split.
  - intros (rc & e & k & H). apply nth_some_lt in H. rewrite map_length in H. auto.
  - intros H. destruct (nth_error exts x) as [e|] eqn:E.
    + assert (1 <= e) by (rewrite Forall_forall in F; apply F; eapply nth_error_In; eauto).
      destruct e as [|e]; [lia|].
      exists (S e), e, []. erewrite map_nth_error; eauto.
    + apply nth_error_None in E. lia.
Qed.

Lemma init_kids : forall exts n x k, kids_of (heap (init_state exts n)) x = Some k -> k = [].
Proof.
  intros exts n x k H. unfold init_state, kids_of in H. simpl in H.
  destruct (nth_error (map (fun e => Live e e []) exts) x) as [c|] eqn:E; try discriminate.
  apply nth_error_In in E. apply in_map_iff in E. destruct E as (e & E & _). subst c.
  inversion H. auto.
Qed.

(* C40 rcp_no_leak (program form): whatever a program did, once all its handle variables are
   null again the live objects are exactly the objects that existed before it started *)
Theorem rcp_no_leak : forall exts n p st', Forall (fun e => 1 <= e) exts ->
  run (init_state exts n) p = ROk st' -> all_null (slots st') ->
  forall x, live_at (heap st') x <-> x < length exts.
Proof.
  intros exts n p st' F E N x.
  destruct (run_pinned p _ _ (init_wf exts n F) E) as [[A B] W].
  split.
  - intros Hl. apply (live_iff_reach st' W) in Hl.
    assert (Hx : ext_pos (heap st') x).
    { induction Hl.
      - apply N in H. discriminate.
      - exists rc, e, k. auto.
      - pose proof (B _ IHHl) as H0'. destruct (A _ H0') as [_ K]. rewrite K in H.
        apply init_kids in H. subst k. destruct H0. }
    apply B in Hx. apply (init_ext_pos exts n x F). auto.
  - intros Hlt. apply (init_ext_pos exts n x F) in Hlt. destruct (A x Hlt) as [(rc & e & k & H) _].
    exists rc, (S e), k. auto.
Qed.

Lemma live_count_prefix : forall h n, (forall x, live_at h x <-> x < n) ->
  length (filter is_live h) = n.
Proof.
  induction h as [|c h IH]; intros n H.
  - simpl. destruct n; auto. assert (Hl : live_at [] 0) by (apply H; lia).
    destruct Hl as (? & ? & ? & Hl). discriminate.
  - assert (H0 : live_at (c :: h) 0 <-> is_live c = true).
    { unfold live_at. simpl. split.
      - intros (rc & e & k & Hc). inversion Hc. auto.
      - destruct c; simpl; intros; try discriminate. eauto. }
    assert (HS : forall x, live_at (c :: h) (S x) <-> live_at h x) by (intros; unfold live_at; simpl; tauto).
    destruct n as [|n].
    + simpl. destruct (is_live c) eqn:Ec.
      * assert (0 < 0) by (apply H; apply H0; auto). lia.
      * apply IH. intros x. rewrite <- HS. rewrite H. lia.
    + simpl. destruct (is_live c) eqn:Ec.
      * simpl. f_equal. apply IH. intros x. rewrite <- HS. rewrite H. lia.
      * assert (Hl : live_at (c :: h) 0) by (apply H; lia). apply H0 in Hl. congruence.
Qed.

(* what the driver observes: the live-object count is back at its baseline *)
Theorem rcp_baseline : forall exts n p st', Forall (fun e => 1 <= e) exts ->
  run (init_state exts n) p = ROk st' -> all_null (slots st') ->
  live_count st' = length exts.
Proof.
  intros. unfold live_count. apply live_count_prefix. eapply rcp_no_leak; eauto.
Qed.
