(* C40 -- how the primitive heap updates of the model act on the counting invariant. *)
From Coq Require Import List Arith Bool Lia.
From SE Require Import Rcp.RcpModel Rcp.RcpSpec Rcp.RcpLemmas.
Import ListNotations.

Definition ext_of (h : list cell) (id : nat) : option nat :=
  match nth_error h id with Some (Live _ e _) => Some e | _ => None end.

Definition ext_pos (h : list cell) (x : nat) : Prop :=
  exists rc e k, nth_error h x = Some (Live rc (S e) k).

(* what a sequence of heap updates keeps: surviving old objects keep their outside count and
   (except the object whose members were stolen) their members; objects referenced from outside
   survive; new objects are not referenced from outside *)
Definition evolves (ex : option nat) (h h' : list cell) : Prop :=
  length h <= length h' /\
  (forall x, x < length h -> live_at h' x -> ext_of h' x = ext_of h x) /\
  (forall x, x < length h -> live_at h' x -> Some x <> ex -> kids_of h' x = kids_of h x) /\
  (forall x, ext_pos h x -> live_at h' x) /\
  (forall x rc e k, length h <= x -> nth_error h' x = Some (Live rc e k) -> e = 0).

Lemma live_ext_of : forall h x, live_at h x <-> exists e, ext_of h x = Some e.
Proof.
  intros. unfold live_at, ext_of. destruct (nth_error h x) as [[rc e k|]|]; split; intros H.
  - eauto.
  - eauto.
  - destruct H as (? & ? & ? & H). discriminate.
  - destruct H as (? & H). discriminate.
  - destruct H as (? & ? & ? & H). discriminate.
  - destruct H as (? & H). discriminate.
Qed.

Lemma ext_pos_ext_of : forall h x, ext_pos h x <-> exists e, ext_of h x = Some (S e).
Proof.
  intros. unfold ext_pos, ext_of. destruct (nth_error h x) as [[rc e k|]|]; split; intros H.
  - destruct H as (? & e' & ? & H). inversion H. eauto.
  - destruct H as (e' & H). inversion H. eauto.
  - destruct H as (? & ? & ? & H). discriminate.
  - destruct H as (? & H). discriminate.
  - destruct H as (? & ? & ? & H). discriminate.
  - destruct H as (? & H). discriminate.
Qed.

Lemma evolves_refl : forall ex h, evolves ex h h.
Proof.
  intros. repeat split; auto. intros x (rc & e & k & H). exists rc, (S e), k. auto.
  intros. apply nth_some_lt in H0. lia.
Qed.

Lemma evolves_weaken : forall ex h h', evolves None h h' -> evolves ex h h'.
Proof.
  intros ex h h' (A & B & C & D & E). repeat split; auto.
  intros. apply C; auto. discriminate.
Qed.

Lemma evolves_trans : forall ex h h' h'', evolves ex h h' -> evolves ex h' h'' -> evolves ex h h''.
Proof.
  intros ex h h1 h2 (A & B & C & D & E) (A' & B' & C' & D' & E').
  assert (L : forall x, x < length h -> live_at h2 x -> live_at h1 x).
  { intros x Hx Hl. apply live_ext_of. rewrite <- B' by (auto; lia). apply live_ext_of. auto. }
  repeat split.
  - lia.
  - intros. rewrite B' by (auto; lia). apply B; auto.
  - intros. rewrite C' by (auto; lia). apply C; auto.
  - intros x Hx. apply D'. pose proof (D x Hx) as Hl.
    assert (Hlt : x < length h) by (destruct Hx as (? & ? & ? & Hx); eapply nth_some_lt; eauto).
    apply ext_pos_ext_of. apply ext_pos_ext_of in Hx. destruct Hx as (e & Hx).
    exists e. rewrite B; auto.
  - intros x rc e k Hx Hn. destruct (le_dec (length h1) x).
    + eapply E'; eauto.
    + assert (Hl : live_at h2 x) by (exists rc, e, k; auto).
      assert (He : ext_of h2 x = Some e) by (unfold ext_of; rewrite Hn; auto).
      rewrite B' in He by (auto; lia).
      unfold ext_of in He. destruct (nth_error h1 x) as [[rc1 e1 k1|]|] eqn:E1; try discriminate.
      inversion He; subst. eapply E; eauto.
Qed.

Lemma live_at_upd_live : forall h id rc e k x,
  id < length h -> live_at h x -> live_at (upd h id (Live rc e k)) x.
Proof.
  intros. destruct (Nat.eq_dec id x).
  - subst. exists rc, e, k. apply nth_upd_eq; auto.
  - apply live_at_upd_neq; auto.
Qed.

(* an update that changes only the counter *)
Lemma evolves_set_rc : forall h id rc rc' e k, nth_error h id = Some (Live rc e k) ->
  evolves None h (upd h id (Live rc' e k)).
Proof.
  intros h id rc rc' e k Hn.
  assert (Hlt : id < length h) by (eapply nth_some_lt; eauto).
  assert (X : forall x, nth_error (upd h id (Live rc' e k)) x = nth_error h x \/
                        (x = id /\ nth_error (upd h id (Live rc' e k)) x = Some (Live rc' e k))).
  { intros x. destruct (Nat.eq_dec id x). right. subst. split; auto. apply nth_upd_eq; auto.
    left. apply nth_upd_neq; auto. }
  repeat split.
  - rewrite upd_length. lia.
  - intros x _ _. unfold ext_of. destruct (X x) as [-> | [-> ->]]; auto. rewrite Hn. auto.
  - intros x _ _ _. unfold kids_of. destruct (X x) as [-> | [-> ->]]; auto. rewrite Hn. auto.
  - intros x (rc0 & e0 & k0 & Hx). destruct (X x) as [E | [-> E]].
    + exists rc0, (S e0), k0. congruence.
    + exists rc', e, k. auto.
  - intros x rc0 e0 k0 Hx Hn0. rewrite <- (upd_length _ h id (Live rc' e k)) in Hx.
    apply nth_some_lt in Hn0. lia.
Qed.

Lemma posb_set_rc : forall h id rc' e k n, 1 <= rc' -> posb n h -> posb n (upd h id (Live rc' e k)).
Proof.
  intros h id rc' e k n Hr P x rc0 e0 k0 Hlt Hx. destruct (Nat.eq_dec id x).
  - subst. assert (x < length h).
    { apply nth_some_lt in Hx. rewrite upd_length in Hx. auto. }
    rewrite nth_upd_eq in Hx by auto. inversion Hx; subst. auto.
  - rewrite nth_upd_neq in Hx by auto. eapply P; eauto.
Qed.

Lemma inv_set_rc : forall h s w w' id rc rc' e k,
  inv h s w -> nth_error h id = Some (Live rc e k) ->
  rc' = e + slot_refs s id + kid_refs h id + occ w' id ->
  (forall x, x <> id -> occ w' x = occ w x) ->
  (forall x, In x w' -> x = id \/ In x w) ->
  inv (upd h id (Live rc' e k)) s w'.
Proof.
  intros h s w w' id rc rc' e k I Hn Hrc Hocc Hin.
  assert (Hlt : id < length h) by (eapply nth_some_lt; eauto).
  assert (HL : forall x, live_at h x -> live_at (upd h id (Live rc' e k)) x)
    by (intros; apply live_at_upd_live; auto).
  constructor.
  - intros i x Hs. apply HL. eapply inv_slots; eauto.
  - intros x rc0 e0 k0 Hx c Hc. destruct (Nat.eq_dec id x).
    + subst x. rewrite nth_upd_eq in Hx by auto. inversion Hx. subst rc0 e0 k0.
      destruct (inv_kids _ _ _ I _ _ _ _ Hn c Hc). split; auto.
    + rewrite nth_upd_neq in Hx by auto.
      destruct (inv_kids _ _ _ I _ _ _ _ Hx c Hc). split; auto.
  - intros x Hx. destruct (Hin x Hx).
    + subst x. exists rc', e, k. apply nth_upd_eq; auto.
    + apply HL. eapply inv_work; eauto.
  - intros x rc0 e0 k0 Hx. rewrite (kid_refs_upd_rc h id rc rc' e k x Hn).
    destruct (Nat.eq_dec id x).
    + subst x. rewrite nth_upd_eq in Hx by auto. inversion Hx. subst rc0 e0 k0. exact Hrc.
    + rewrite nth_upd_neq in Hx by auto. rewrite (Hocc x) by auto. eapply inv_count; eauto.
Qed.

Lemma inv_perm : forall h s w w', inv h s w -> (forall x, occ w' x = occ w x) -> inv h s w'.
Proof.
  intros h s w w' I H. constructor.
  - eapply inv_slots; eauto.
  - eapply inv_kids; eauto.
  - intros x Hx. eapply inv_work; eauto.
    apply (count_occ_In Nat.eq_dec). rewrite <- H. apply (count_occ_In Nat.eq_dec). auto.
  - intros. rewrite H. eapply inv_count; eauto.
Qed.

(* p->refcount_++ on a live object; the new reference is held by a temporary *)
Lemma incref_ok : forall h s w id, inv h s w -> live_at h id ->
  exists h', incref h id = ROk h' /\ inv h' s (id :: w) /\ evolves None h h'
    /\ length h' = length h /\ (forall n, posb n h -> posb n h')
    /\ (forall x, live_at h x -> live_at h' x).
Proof.
  intros h s w id I (rc & e & k & Hn).
  assert (Hlt : id < length h) by (eapply nth_some_lt; eauto).
  unfold incref. rewrite Hn. eexists. split; [reflexivity|].
  split; [|split; [|split; [|split]]].
  - eapply inv_set_rc; eauto.
    + rewrite count_occ_cons_eq by auto. pose proof (inv_count _ _ _ I _ _ _ _ Hn). lia.
    + intros. rewrite count_occ_cons_neq; auto.
    + intros x [Hx|Hx]; auto.
  - eapply evolves_set_rc; eauto.
  - apply upd_length.
  - intros. apply posb_set_rc; auto. lia.
  - intros. apply live_at_upd_live; auto.
Qed.

Lemma incref_all_ok : forall ids h s w, inv h s w -> (forall c, In c ids -> live_at h c) ->
  exists h', incref_all h ids = ROk h' /\ inv h' s (ids ++ w) /\ evolves None h h'
    /\ length h' = length h /\ (forall n, posb n h -> posb n h')
    /\ (forall x, live_at h x -> live_at h' x).
Proof.
  induction ids as [|id r IH]; intros h s w I Hl.
  - exists h. simpl. split; [reflexivity|]. split; [exact I|]. split; [apply evolves_refl|].
    repeat split; auto.
  - destruct (incref_ok h s w id I (Hl id (or_introl eq_refl))) as (h1 & E1 & I1 & V1 & L1 & P1 & K1).
    destruct (IH h1 s (id :: w) I1) as (h2 & E2 & I2 & V2 & L2 & P2 & K2).
    { intros. apply K1. apply Hl. right. auto. }
    exists h2. simpl. rewrite E1. simpl. rewrite E2.
    split; [reflexivity|]. split; [|split; [|split; [|split]]].
    + eapply inv_perm; eauto. intros x. simpl. rewrite !count_occ_app. simpl.
      destruct (Nat.eq_dec id x); lia.
    + eapply evolves_trans; eauto.
    + lia.
    + auto.
    + auto.
Qed.

(* delete: the object dies, its member handles become pending decrements *)
Lemma inv_free : forall h s w id e k,
  inv h s (id :: w) -> nth_error h id = Some (Live 1 e k) ->
  inv (upd h id Freed) s (k ++ w) /\ e = 0.
Proof.
  intros h s w id e k I Hn.
  assert (Hlt : id < length h) by (eapply nth_some_lt; eauto).
  pose proof (inv_count _ _ _ I _ _ _ _ Hn) as Hc. rewrite count_occ_cons_eq in Hc by auto.
  assert (He : e = 0) by lia. assert (Hs : slot_refs s id = 0) by lia.
  assert (Hk : kid_refs h id = 0) by lia. assert (Hw : occ w id = 0) by lia.
  split; auto.
  assert (HL : forall x, x <> id -> live_at h x -> live_at (upd h id Freed) x).
  { intros. apply live_at_upd_neq; auto. }
  constructor.
  - intros i x Hx. apply HL.
    + intro; subst. pose proof (slot_refs_ge _ _ _ Hx). lia.
    + eapply inv_slots; eauto.
  - intros x rc0 e0 k0 Hx c Hcin. destruct (Nat.eq_dec id x).
    + subst. rewrite nth_upd_eq in Hx by auto. discriminate.
    + rewrite nth_upd_neq in Hx by auto.
      destruct (inv_kids _ _ _ I _ _ _ _ Hx c Hcin). split; auto.
      apply HL; auto. intro; subst. pose proof (kid_refs_ge _ _ _ _ _ _ Hx Hcin). lia.
  - intros x Hx. apply in_app_or in Hx. destruct Hx as [Hx|Hx].
    + destruct (inv_kids _ _ _ I _ _ _ _ Hn x Hx). apply HL; auto. lia.
    + apply HL.
      * intro; subst. apply (count_occ_not_In Nat.eq_dec) in Hw. auto.
      * eapply inv_work; eauto. right. auto.
  - intros x rc0 e0 k0 Hx. destruct (Nat.eq_dec id x).
    + subst. rewrite nth_upd_eq in Hx by auto. discriminate.
    + rewrite nth_upd_neq in Hx by auto.
      pose proof (inv_count _ _ _ I _ _ _ _ Hx) as Hc'.
      rewrite count_occ_cons_neq in Hc' by auto.
      pose proof (kid_refs_upd h id _ Freed x Hn) as Hu. simpl in Hu.
      rewrite count_occ_app. lia.
Qed.

Lemma evolves_free : forall h id rc k, nth_error h id = Some (Live rc 0 k) ->
  evolves None h (upd h id Freed).
Proof.
  intros h id rc k Hn.
  assert (Hlt : id < length h) by (eapply nth_some_lt; eauto).
  assert (Hf : nth_error (upd h id Freed) id = Some Freed) by (apply nth_upd_eq; auto).
  repeat split.
  - rewrite upd_length. lia.
  - intros x _ (rc0 & e0 & k0 & Hx). destruct (Nat.eq_dec id x). subst. congruence.
    unfold ext_of. rewrite nth_upd_neq by auto. auto.
  - intros x _ (rc0 & e0 & k0 & Hx) _. destruct (Nat.eq_dec id x). subst. congruence.
    unfold kids_of. rewrite nth_upd_neq by auto. auto.
  - intros x (rc0 & e0 & k0 & Hx). destruct (Nat.eq_dec id x). subst. congruence.
    exists rc0, (S e0), k0. rewrite nth_upd_neq by auto. auto.
  - intros x rc0 e0 k0 Hx Hn0. apply nth_some_lt in Hn0. rewrite upd_length in Hn0. lia.
Qed.

Lemma posb_free : forall h id n, posb n h -> posb n (upd h id Freed).
Proof.
  intros h id n P x rc0 e0 k0 Hlt Hx. destruct (Nat.eq_dec id x).
  - subst. assert (x < length h).
    { apply nth_some_lt in Hx. rewrite upd_length in Hx. auto. }
    rewrite nth_upd_eq in Hx by auto. discriminate.
  - rewrite nth_upd_neq in Hx by auto. eapply P; eauto.
Qed.

(* the cascade of a destructor: never touches a freed object, never runs out of fuel *)
Lemma release_ok : forall fuel h s w, inv h s w -> total_rc h < fuel ->
  exists h', release fuel h w = ROk h' /\ inv h' s [] /\ evolves None h h'
    /\ length h' = length h /\ (forall n, posb n h -> posb n h').
Proof.
  induction fuel as [|f IH]; intros h s w I Hf; [lia|].
  destruct w as [|id w'].
  - exists h. simpl. split; [reflexivity|]. split; [exact I|]. split; [apply evolves_refl|].
    repeat split; auto.
  - destruct (inv_work _ _ _ I id (or_introl eq_refl)) as (rc & e & k & Hn).
    pose proof (inv_count _ _ _ I _ _ _ _ Hn) as Hc. rewrite count_occ_cons_eq in Hc by auto.
    simpl. rewrite Hn. destruct rc as [|[|rc']].
    + lia.
    + destruct (inv_free _ _ _ _ _ _ I Hn) as [I1 He]. subst e.
      pose proof (total_rc_upd h id _ Freed Hn) as Ht. simpl in Ht.
      destruct (IH (upd h id Freed) s (k ++ w') I1) as (h' & E & I' & V & L & P); [lia|].
      exists h'. split; auto. split; auto. split; [|split].
      * eapply evolves_trans; [eapply evolves_free; eauto | auto].
      * rewrite L. apply upd_length.
      * intros. apply P. apply posb_free. auto.
    + assert (I1 : inv (upd h id (Live (S rc') e k)) s w').
      { apply (inv_set_rc h s (id :: w') w' id (S (S rc')) (S rc') e k I Hn).
        - lia.
        - intros. rewrite count_occ_cons_neq; auto.
        - intros. right. right. assumption. }
      pose proof (total_rc_upd h id _ (Live (S rc') e k) Hn) as Ht. simpl in Ht.
      destruct (IH _ s w' I1) as (h' & E & I' & V & L & P); [lia|].
      exists h'. split; auto. split; auto. split; [|split].
      * apply (evolves_trans None h (upd h id (Live (S rc') e k)) h');
          [eapply evolves_set_rc; eauto | exact V].
      * rewrite L. apply upd_length.
      * intros. apply P. apply posb_set_rc; auto. lia.
Qed.

(* a new object: the handles copied into its members stop being temporaries *)
Lemma inv_alloc : forall h s w w' ids n,
  inv h s (ids ++ w) ->
  (forall c, In c ids -> c < length h) ->
  (forall x, x <> length h -> occ w' x = occ w x) ->
  occ w' (length h) = n ->
  (forall x, In x w' -> x = length h \/ In x w) ->
  inv (h ++ [Live n 0 ids]) s w'.
Proof.
  intros h s w w' ids n I Hids Hocc Hn Hin.
  assert (HL : forall x, live_at h x -> live_at (h ++ [Live n 0 ids]) x).
  { intros x Hx. pose proof (live_at_lt _ _ Hx). destruct Hx as (rc & e & k & Hx).
    exists rc, e, k. rewrite nth_app_old; auto. }
  assert (Hnl : ~ live_at h (length h)) by (intro Hx; apply live_at_lt in Hx; lia).
  constructor.
  - intros i x Hs. apply HL. eapply inv_slots; eauto.
  - intros x rc0 e0 k0 Hx c Hc. apply nth_app_cases in Hx. destruct Hx as [[Hlt Hx]|[Hx E]].
    + destruct (inv_kids _ _ _ I _ _ _ _ Hx c Hc). split; auto.
    + inversion E; subst. split; auto. apply HL. eapply inv_work; eauto. apply in_or_app. auto.
  - intros x Hx. destruct (Hin x Hx).
    + subst x. exists n, 0, ids. apply nth_app_new.
    + apply HL. eapply inv_work; eauto. apply in_or_app. auto.
  - intros x rc0 e0 k0 Hx. rewrite kid_refs_app. simpl.
    apply nth_app_cases in Hx. destruct Hx as [[Hlt Hx]|[Hx E]].
    + pose proof (inv_count _ _ _ I _ _ _ _ Hx) as Hc. rewrite count_occ_app in Hc.
      rewrite Hocc by lia. lia.
    + inversion E; subst.
      assert (slot_refs s (length h) = 0).
      { apply slot_refs_zero. intros i Hi. apply Hnl. eapply inv_slots; eauto. }
      assert (kid_refs h (length h) = 0).
      { apply kid_refs_zero. intros p rc e k Hp Hc. apply Hnl.
        destruct (inv_kids _ _ _ I _ _ _ _ Hp _ Hc). auto. }
      assert (occ ids (length h) = 0).
      { apply (count_occ_not_In Nat.eq_dec). intro Hc. apply Hids in Hc. lia. }
      lia.
Qed.

Lemma evolves_app : forall h n ids, evolves None h (h ++ [Live n 0 ids]).
Proof.
  intros. repeat split.
  - rewrite app_length. lia.
  - intros. unfold ext_of. rewrite nth_app_old; auto.
  - intros. unfold kids_of. rewrite nth_app_old; auto.
  - intros x (rc & e & k & Hx). exists rc, (S e), k. rewrite nth_app_old; auto.
    eapply nth_some_lt; eauto.
  - intros x rc e k Hx Hn. apply nth_app_cases in Hn. destruct Hn as [[Hlt _]|[_ E]].
    + lia.
    + inversion E. auto.
Qed.

Lemma posb_app : forall h c n, posb n h -> n <= length h -> posb n (h ++ [c]).
Proof.
  intros h c n P Hn x rc e k Hlt Hx. rewrite nth_app_old in Hx by lia. eapply P; eauto.
Qed.

(* the handle variables change, the temporaries absorb the difference *)
Lemma inv_slots_change : forall h s s' w w',
  inv h s w ->
  (forall x, slot_refs s' x + occ w' x = slot_refs s x + occ w x) ->
  (forall i id, nth_error s' i = Some (Some id) -> live_at h id) ->
  (forall id, In id w' -> live_at h id) ->
  inv h s' w'.
Proof.
  intros h s s' w w' I Hc Hs Hw. constructor; auto.
  - eapply inv_kids; eauto.
  - intros. pose proof (inv_count _ _ _ I _ _ _ _ H). specialize (Hc id). lia.
Qed.

(* the members of an object are moved out of it *)
Lemma inv_take_members : forall h s w m rc e k,
  inv h s w -> nth_error h m = Some (Live rc e k) ->
  inv (upd h m (Live rc e [])) s (k ++ w).
Proof.
  intros h s w m rc e k I Hn.
  assert (Hlt : m < length h) by (eapply nth_some_lt; eauto).
  assert (HL : forall x, live_at h x -> live_at (upd h m (Live rc e [])) x)
    by (intros; apply live_at_upd_live; auto).
  constructor.
  - intros i x Hs. apply HL. eapply inv_slots; eauto.
  - intros x rc0 e0 k0 Hx c Hc. destruct (Nat.eq_dec m x).
    + subst x. rewrite nth_upd_eq in Hx by auto. inversion Hx. subst k0. destruct Hc.
    + rewrite nth_upd_neq in Hx by auto.
      destruct (inv_kids _ _ _ I _ _ _ _ Hx c Hc). split; auto.
  - intros x Hx. apply HL. apply in_app_or in Hx. destruct Hx as [Hx|Hx].
    + destruct (inv_kids _ _ _ I _ _ _ _ Hn x Hx). auto.
    + eapply inv_work; eauto.
  - intros x rc0 e0 k0 Hx.
    pose proof (kid_refs_upd h m _ (Live rc e []) x Hn) as Hu. simpl in Hu.
    rewrite count_occ_app.
    destruct (Nat.eq_dec m x).
    + subst x. rewrite nth_upd_eq in Hx by auto. inversion Hx. subst rc0 e0 k0.
      pose proof (inv_count _ _ _ I _ _ _ _ Hn). lia.
    + rewrite nth_upd_neq in Hx by auto. pose proof (inv_count _ _ _ I _ _ _ _ Hx). lia.
Qed.
