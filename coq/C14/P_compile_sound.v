From Coq Require Import List NArith.
From SE Require Import C14.LlvmModel C14.LlvmProofs.
(* LLVMVisitor::init followed by call: for every float algebra, rule tables, inputs, outputs, CSE outcome and input
   vector, running the straight-line SSA program the model of init emits gives the values of the operation trees of the
   outputs (with symbolic CSE: of the reduced outputs over the replacement values, each computed once) *)
Theorem C14_compile_sound :
  forall (F : Type) (A : lalg F) vtbl tbl rw inputs outputs c p reps outs (inp : list F),
    lower_init A vtbl tbl rw inputs outputs c = Ok (reps, outs) ->
    compile_prog A vtbl tbl rw inputs outputs c = Ok p ->
    run_ssa A p inp = trees_value A inp reps outs.
Proof. exact compile_sound. Qed.
Print Assumptions C14_compile_sound.
