From Coq Require Import List NArith Bool.
From SE Require Import Gen.TypeCodes C14.LlvmTerm C14.Gen_LlvmRules C14.LlvmTable.
Import ListNotations.
(* non-vacuity of the agreement: the 60 classes LLVMDoubleVisitor accepts *)
Theorem C14_llvm_accepts :
  filter (fun c => negb (is_lthrow (lrule_at c))) lall_codes
  = [TC_Integer; TC_Rational; TC_RealDouble; TC_Infty; TC_NaN; TC_Symbol; TC_Dummy; TC_Mul; TC_Add; TC_Pow; TC_Log; TC_Constant;
     TC_Sign; TC_Floor; TC_Ceiling] ++
    [TC_Sin; TC_Cos; TC_Tan; TC_Cot; TC_Csc; TC_Sec; TC_ASin; TC_ACos; TC_ASec; TC_ACsc; TC_ATan; TC_ACot; TC_ATan2;
     TC_Sinh; TC_Csch; TC_Cosh; TC_Sech; TC_Tanh; TC_Coth; TC_ASinh; TC_ACsch; TC_ACosh; TC_ATanh; TC_ACoth; TC_ASech] ++
    [TC_Erf; TC_Erfc; TC_Gamma; TC_LogGamma; TC_Abs; TC_Max; TC_Min; TC_Piecewise; TC_Contains; TC_BooleanAtom; TC_Not; TC_And; TC_Or;
     TC_Xor; TC_Equality; TC_Unequality; TC_LessThan; TC_StrictLessThan; TC_Truncate; TC_UnevaluatedExpr].
Proof. exact llvm_accepts. Qed.
Print Assumptions C14_llvm_accepts.
