From Coq Require Import List NArith.
From SE Require Import Gen.TypeCodes C14.LlvmTerm C14.Gen_LlvmRules.
(* bvisit(const Symbol &) looks a symbol up among the CSE replacement symbols BEFORE the inputs (generated from its
   text): cse() names its replacements x0, x1, ... avoiding only the symbols of the outputs, so an unused input of the
   same name must not capture the replacement (the same obligation as for LambdaDoubleVisitor, C13) *)
Theorem C14_cse_symbols_first :
  lookup_lrule llvm_rules TC_Symbol = Some (LRSymbol true) /\ lookup_lrule llvm_rules TC_Dummy = Some (LRSymbol true).
Proof. split; reflexivity. Qed.
Print Assumptions C14_cse_symbols_first.
