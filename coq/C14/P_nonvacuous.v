From Coq Require Import ZArith NArith List Bool.
From SE Require Import Gen.TypeCodes Expr.ExprDefs Eval.EvalModel Eval.EvalFloat Eval.LambdaModel Eval.Gen_EvalRules
  C14.LlvmTerm C14.LlvmModel C14.Gen_LlvmRules C14.LlvmRun.
Import ListNotations.
Open Scope N_scope.
Definition X : expr := ESym [120].
Definition Y : expr := ESym [121].
Definition no_exp2 (_ : N) : option N := None.
(* 2*x + y at (10, 1) = 21; x^3 = 1000 by the powi multiplication chain; Max(1, x); a Piecewise *)
Example C14_nv_run :
  llvm_run no_un exact_bin no_exp2 [] [X; Y]
    [EAdd (NInt 0) [(Y, NInt 1); (X, NInt 2)]; EPow X (ENum (NInt 3)); EFN TC_Max [ENum (NInt 1); X];
     EPw [(X, EF2 TC_StrictLessThan X (ENum (NInt 0))); (EPow X (ENum (NInt 2)), EBool true)]] NoCse
    [[4621819117588971520; 4607182418800017408]]
  = Ok [[Some 4626604192193052672; Some 4652007308841189376; Some 4621819117588971520; Some 4636737291354636288]].
Proof. vm_compute. reflexivity. Qed.
(* the compiled program is not empty and the hypotheses of C14_compile_sound hold for it; with symbolic CSE
   the replacement x0 = x*y is computed once and referred to twice *)
Example C14_nv_compile :
  llvm_size no_un exact_bin no_exp2 [] [X; Y] [EAdd (NInt 0) [(Y, NInt 1); (X, NInt 2)]; EPow X (ENum (NInt 3))] NoCse = 3 /\
  llvm_size no_un exact_bin no_exp2 [] [X; Y] [ESym [120; 48]; EPow (ESym [120; 48]) (ENum (NInt 2))]
            (CseOk [(ESym [120; 48], EMul (NInt 1) [(X, ENum (NInt 1)); (Y, ENum (NInt 1))])]
                   [ESym [120; 48]; EPow (ESym [120; 48]) (ENum (NInt 2))]) = 2 /\
  llvm_run no_un exact_bin no_exp2 [] [X; Y] [ESym [122]] NoCse [] = ErrExn EXN_SYMENGINE.
Proof. vm_compute. repeat split. Qed.
