(* C14 -- theorems about the GENERATED table llvm_rules (LLVMDoubleVisitor):
   llvm_rules_agree_eval : class by class the rule is the rule of the double evaluators (the table of
       eval_double, visitor_rules, or of LambdaRealDoubleVisitor, lambda_rules -- C12/C13 relate those
       two), after reading the emitted instructions as the formula language of the EVAL slice
       (fadd = +, fcmp oeq = ==, llvm.maxnum = max, uitofp = identity on 0/1, ...);
   llvm_pow_ideal        : the case split of Pow (exp, exp2, x*x, powi, pow) computes the real power. *)
From Coq Require Import Reals Lra Lia ZArith NArith List Bool.
From SE Require Import Gen.TypeCodes Eval.EvalModel Eval.EvalIdeal Eval.EvalSpec Eval.Gen_EvalRules Eval.Gen_LambdaRules
  Eval.TableProofs C14.LlvmTerm C14.Gen_LlvmRules.
Import ListNotations.

Definition bits_two : N := 4611686018427387904.          (* 0x4000000000000000 *)

Definition cmp_bfun (p : pred) : bfun := match p with OEQ => BEq | ONE => BNe | OLE => BLe | OLT => BLt | UNE => BNe end.
Definition bit_bfun (o : lbit) : bfun := match o with BitAnd => BAndB | BitOr => BOrB | BitXor => BXorB end.

(* the formula a term denotes; expo = the position of the exponent among the arguments (TPowi);
   `fcmp one a, 0.0` under not / and / or / xor is the truth value bool(a) those operators take *)
Fixpoint tlower (t : lterm) (expo : nat) : fterm :=
  let truth (a : lterm) : fterm :=
    match a with
    | TCmp ONE x (TLit L0) => tlower x expo
    | _ => tlower a expo
    end in
  match t with
  | TArg i => FArg i
  | TLit l => FLit l
  | TFAdd a b => FBin BAdd (tlower a expo) (tlower b expo)
  | TFMul a b => FBin BMul (tlower a expo) (tlower b expo)
  | TSquare a => FBin BMul (tlower a expo) (tlower a expo)
  | TCall1 (LF _ u) a => FUn u (tlower a expo)
  | TCall1 LFExp2 a => FBin BPow (FLit (LBits bits_two)) (tlower a expo)
  | TCall2 (LF2 _ b) x y => FBin b (tlower x expo) (tlower y expo)
  | TCall2 LMaxNum x y => FBin BMax (tlower x expo) (tlower y expo)
  | TCall2 LMinNum x y => FBin BMin (tlower x expo) (tlower y expo)
  | TPowi a => FBin BPow (tlower a expo) (FArg expo)
  | TCmp p a b => FBin (cmp_bfun p) (tlower a expo) (tlower b expo)
  | TBit o a b => FBin (bit_bfun o) (truth a) (truth b)
  | TNot a => FUn UNotB (truth a)
  | TU2F a => tlower a expo
  end.

(* exchange FArg 0 and FArg 1 (Pow: the E case of the double tables is written over [exponent]) *)
Fixpoint arg1_to_0 (t : fterm) : fterm :=
  match t with
  | FArg 1 => FArg 0
  | FArg i => FArg i
  | FLit l => FLit l
  | FUn f a => FUn f (arg1_to_0 a)
  | FBin f a b => FBin f (arg1_to_0 a) (arg1_to_0 b)
  | FIf c a b => FIf (arg1_to_0 c) (arg1_to_0 a) (arg1_to_0 b)
  end.

Definition sign_formula : fterm :=
  FIf (FBin BEq (FArg 0) (FLit L0)) (FLit L0) (FIf (FBin BLt (FArg 0) (FLit L0)) (FLit LM1) (FLit L1)).

Definition llower_rule (r : lrule) : rule :=
  match r with
  | LRLeafInt => RLeafInt
  | LRLeafRat => RLeafRat
  | LRLeafDbl => RLeafDbl
  | LRFormula sel t => RFormula sel (tlower t 1)
  | LRAdd _ _ _ => RFoldDict BAdd BMul false None
  | LRFoldArgs None _ => RFoldArgs L1 BMul
  | LRFoldArgs (Some LMaxNum) _ => RFoldFirst BMax 1
  | LRFoldArgs (Some LMinNum) _ => RFoldFirst BMin 1
  | LRFoldArgs (Some (LF2 _ b)) _ => RFoldFirst b 1
  | LRLogic o => RBoolFold (bit_bfun o) 1
  | LRPow ecase _ _ _ gen _ => RPow true (arg1_to_0 (tlower ecase 1)) (tlower gen 1)
  | LRPiecewise => RPiecewise true
  | LRSign => RFormula [0%nat] sign_formula
  | LRContains => RContains
  | LRInfty => RInfty
  | LRNaN => RNaN
  | LRBoolAtom => RBoolAtom
  | LRSymbol mf => RSymbol mf
  | LRConstant => RConstViaEval
  | LRPass => RPass
  | LRRewrite t => RFormula [0%nat] t
  | LRThrow c => RThrow c
  end.

(* equal rules up to: which argument a fold starts from, the order in which the symbol tables are
   searched, a constant evaluated at compile time instead of by its closed formula *)
Definition lrule_agree (a b : rule) : bool :=
  rule_eqb a b ||
  match a, b with
  | RFoldFirst o1 _, RFoldFirst o2 _ => bfun_eqb o1 o2
  | RBoolFold o1 _, RBoolFold o2 _ => bfun_eqb o1 o2
  | RSymbol _, RSymbol _ => true
  | RConstants _, RConstViaEval => true
  | _, _ => false
  end.

Definition lrule_at (c : N) : lrule :=
  match lookup_lrule llvm_rules c with Some r => r | None => LRThrow EXN_NOTIMPL end.
Definition is_lthrow (r : lrule) : bool := match r with LRThrow _ => true | _ => false end.
Definition lall_codes : list N := map fst llvm_rules.

Definition agree_visitor (c : N) : bool := lrule_agree (rule_at visitor_rules c) (llower_rule (lrule_at c)).
Definition agree_lambda (c : N) : bool := lrule_agree (rule_at lambda_rules c) (llower_rule (lrule_at c)).

(* every class LLVMDoubleVisitor accepts is evaluated by the rule of eval_double or of the lambda visitor *)
Theorem llvm_agree :
  forallb (fun c => is_lthrow (lrule_at c) || agree_visitor c || agree_lambda c) lall_codes = true.
Proof. vm_compute. reflexivity. Qed.

Theorem llvm_accepts :
  filter (fun c => negb (is_lthrow (lrule_at c))) lall_codes
  = [TC_Integer; TC_Rational; TC_RealDouble; TC_Infty; TC_NaN; TC_Symbol; TC_Dummy; TC_Mul; TC_Add; TC_Pow; TC_Log; TC_Constant;
     TC_Sign; TC_Floor; TC_Ceiling] ++
    [TC_Sin; TC_Cos; TC_Tan; TC_Cot; TC_Csc; TC_Sec; TC_ASin; TC_ACos; TC_ASec; TC_ACsc; TC_ATan; TC_ACot; TC_ATan2;
     TC_Sinh; TC_Csch; TC_Cosh; TC_Sech; TC_Tanh; TC_Coth; TC_ASinh; TC_ACsch; TC_ACosh; TC_ATanh; TC_ACoth; TC_ASech] ++
    [TC_Erf; TC_Erfc; TC_Gamma; TC_LogGamma; TC_Abs; TC_Max; TC_Min; TC_Piecewise; TC_Contains; TC_BooleanAtom; TC_Not; TC_And; TC_Or;
     TC_Xor; TC_Equality; TC_Unequality; TC_LessThan; TC_StrictLessThan; TC_Truncate; TC_UnevaluatedExpr].
Proof. vm_compute. reflexivity. Qed.

(* the classes that agree with the lambda table only (Add: dictionary fold; Symbol, Sign, ...: eval_double has no rule) and
   with the eval_double table only (Mul: fold over get_args) *)
Theorem llvm_agree_lambda_only :
  filter (fun c => negb (is_lthrow (lrule_at c)) && negb (agree_visitor c)) lall_codes
  = [TC_Infty; TC_NaN; TC_Symbol; TC_Dummy; TC_Add; TC_Sign; TC_Floor; TC_Ceiling; TC_Contains; TC_Not; TC_And; TC_Or; TC_Xor; TC_Truncate].
Proof. vm_compute. reflexivity. Qed.

Theorem llvm_agree_visitor_only :
  filter (fun c => negb (is_lthrow (lrule_at c)) && negb (agree_lambda c)) lall_codes = [TC_Mul].
Proof. vm_compute. reflexivity. Qed.

(* classes the lambda visitor accepts and LLVMDoubleVisitor does not / the converse *)
Theorem llvm_lacks :
  filter (fun c => is_lthrow (lrule_at c) && negb (is_throw (rule_at lambda_rules c))) lall_codes = [].
Proof. vm_compute. reflexivity. Qed.
Theorem llvm_extra :
  filter (fun c => negb (is_lthrow (lrule_at c)) && is_throw (rule_at lambda_rules c)) lall_codes = [].
Proof. vm_compute. reflexivity. Qed.

(* ---- Pow ---- *)
Local Open Scope R_scope.

Lemma square_Rpower : forall b, 0 < b -> b * b = Rpower b 2.
Proof.
  intros b Hb. replace 2 with (INR 2) by (simpl; lra). rewrite Rpower_pow by auto. simpl. lra.
Qed.

Lemma powerRZ_Rpower' : forall b k, 0 < b -> powerRZ b k = Rpower b (IZR k).
Proof. intros b k Hb. apply powerRZ_Rpower. exact Hb. Qed.

(* the five cases of bvisit(const Pow &) and what each computes over the reals (exp2 x := 2^x, powi x k := x^k,
   square x := x * x): all are the real power base^exponent *)
Theorem llvm_pow_ideal :
  (match lookup_lrule llvm_rules TC_Pow with
   | Some (LRPow ecase twocase sqcase icase gen _) =>
       ecase = TCall1 (LF true UExp) (TArg 1) /\ twocase = TCall1 LFExp2 (TArg 1) /\ sqcase = TSquare (TArg 0) /\
       icase = TPowi (TArg 0) /\ gen = TCall2 (LF2 true BPow) (TArg 0) (TArg 1)
   | _ => False
   end) /\
  (forall x, Rpower (exp 1) x = exp x) /\
  (forall b, 0 < b -> b * b = Rpower b 2) /\
  (forall b k, 0 < b -> powerRZ b k = Rpower b (IZR k)).
Proof.
  split; [ vm_compute; repeat split | ].
  split; [ exact Rpower_exp1 | ].
  split; [ exact square_Rpower | exact powerRZ_Rpower' ].
Qed.
