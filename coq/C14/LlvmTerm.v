(* C14 -- the language into which translators/tr_llvmrules.py translates the IRBuilder call
   sequences of LLVMVisitor::bvisit / LLVMDoubleVisitor::visit / RewriteTrigVisitor::visit
   (llvm_double.cpp, visitor.h): per node class a term over the values of the children, whose
   operations are the LLVM instructions and calls the code emits.  Function symbols reuse the
   abstract libm symbols of the EVAL slice (Eval/EvalTerm.v).  No proofs here. *)
From Coq Require Import List NArith ZArith Bool.
From SE Require Export Eval.EvalTerm.
Import ListNotations.

(* a called function of one argument: an llvm.* intrinsic or an external C library function *)
Inductive lfun :=
| LF (intrinsic : bool) (f : ufun)
| LFExp2.                                (* llvm.exp2 *)
(* two arguments *)
Inductive lfun2 :=
| LF2 (intrinsic : bool) (f : bfun)      (* llvm.pow, external atan2 *)
| LMaxNum | LMinNum.                     (* llvm.maxnum / llvm.minnum *)
Inductive pred := OEQ | ONE | OLE | OLT | UNE. (* fcmp: ordered ==, !=, <=, <; unordered-or-not-equal (C's !=) *)
Inductive lbit := BitAnd | BitOr | BitXor.

Inductive lterm :=
| TArg (i : nat)                         (* the value of the i-th evaluated child *)
| TLit (l : lit)                         (* ConstantFP *)
| TFAdd (a b : lterm)
| TFMul (a b : lterm)
| TSquare (a : lterm)                    (* tmp = a; fmul tmp, tmp *)
| TCall1 (f : lfun) (a : lterm)
| TCall2 (f : lfun2) (a b : lterm)
| TPowi (a : lterm)                      (* llvm.powi(a, d), d = the Integer exponent of the node (i32) *)
| TCmp (p : pred) (a b : lterm)          (* i1 *)
| TBit (o : lbit) (a b : lterm)          (* i1 *)
| TNot (a : lterm)                       (* i1 *)
| TU2F (a : lterm).                      (* uitofp i1 -> double *)

Inductive lrule :=
| LRLeafInt                              (* ConstantFP(mp_get_d(integer)) *)
| LRLeafRat                              (* set_double(mp_get_d(rational)) *)
| LRLeafDbl                              (* set_double(x.i) *)
| LRFormula (sel : list nat) (t : lterm) (* children get_args()[i], i in sel, in this order *)
| LRAdd (coef_skipped one_skipped key_first : bool)
    (* coef == 0: start from the first dictionary term, else from apply(coef); a term is apply(key)
       when its coefficient is 1, else apply(key) * apply(coefficient) (key_first: key evaluated
       first); tmp = fadd tmp, term *)
| LRFoldArgs (f : option lfun2) (acc_left : bool)
    (* tmp = apply(first of get_args()); for the others: tmp = op(tmp, apply(p));
       f = None: fmul; Some g: call g *)
| LRLogic (o : lbit)                     (* fold of (fcmp one apply(p), 0.0) over get_container(), uitofp *)
| LRPow (ecase twocase sqcase icase gen : lterm) (gen_base_first : bool)
    (* terms over [TArg 0 = base; TArg 1 = exponent]: base == E, base == 2, Integer exponent 2,
       other Integer exponent (TPowi), general *)
| LRPiecewise                            (* nested if / phi; last condition must be True *)
| LRSign                                 (* Piecewise((0.0, x == 0.0), (-1.0, x < 0.0), (1.0, True)) *)
| LRContains                             (* Interval only: (start </<= x) and (x </<= end), uitofp *)
| LRInfty
| LRNaN
| LRBoolAtom
| LRSymbol (map_first : bool)            (* map_first: the CSE replacement symbols are searched before the inputs *)
| LRConstant                             (* set_double(eval_double(x)) *)
| LRPass                                 (* UnevaluatedExpr *)
| LRRewrite (t : fterm)
    (* RewriteTrigVisitor: the node is replaced by an expression built with the public
       constructors; t = that expression as a formula over [FArg 0 = the argument] *)
| LRThrow (cls : N).

Fixpoint lookup_lrule (tbl : list (N * lrule)) (c : N) : option lrule :=
  match tbl with
  | [] => None
  | (k, r) :: rest => if N.eqb k c then Some r else lookup_lrule rest c
  end.

Definition pred_code (p : pred) : N := match p with OEQ => 0 | ONE => 1 | OLE => 2 | OLT => 3 | UNE => 4 end%N.
Definition lbit_code (o : lbit) : N := match o with BitAnd => 0 | BitOr => 1 | BitXor => 2 end%N.
