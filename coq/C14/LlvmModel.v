(* C14 -- executable model of LLVMDoubleVisitor (llvm_double.cpp).
   [lower]    : what LLVMVisitor::apply emits for a tree, as a closed operation tree [lexp] (the
                IRBuilder calls of each bvisit, driven by the generated table Gen_LlvmRules.llvm_rules);
   [flatten]  : the emission order: operands first, then the instruction; the n-th emitted
                instruction defines register n (straight-line SSA);
   [exec]     : the SSA interpreter over an abstract float algebra;
   [compile_prog] / [run_ssa] : LLVMVisitor::init (inputs, outputs, symbolic CSE) and call.
   Piecewise is emitted by the library as cond-br / phi; all instructions are total and free of
   side effects, so the model uses a select whose arms are both computed (if-conversion).
   The result of SymEngine::cse and the expressions RewriteTrigVisitor builds with the public
   constructors are INPUTS (the driver dumps them).  No proofs here. *)
From Coq Require Import ZArith NArith List Bool.
From SE Require Export Eval.EvalModel Eval.LambdaModel C14.LlvmTerm.
Import ListNotations.
Local Open Scope N_scope.
Local Open Scope res_scope.

(* ---------------------------------------------------------------- the float algebra *)
Record lalg (F : Type) := mk_lalg {
  la_base : falg F;                       (* constants, fadd = BAdd, fmul = BMul, fdiv = BDiv, libm *)
  la_exp2 : F -> option F;
  la_maxnum : F -> F -> option F;
  la_minnum : F -> F -> option F;
  la_cmp : F -> F -> option comparison    (* None: unordered (a NaN operand) *)
}.
Arguments la_base {F}. Arguments la_exp2 {F}. Arguments la_maxnum {F}. Arguments la_minnum {F}. Arguments la_cmp {F}.

Section MODEL.
Context {F : Type}.
Variable A : lalg F.
Notation B := (la_base A).

Inductive val := VF (x : F) | VB (b : bool).

(* ---------------------------------------------------------------- operation trees *)
Inductive lexp :=
| XConst (v : F)
| XIn (i : nat)                          (* load of input i *)
| XRef (k : nat)                         (* the value of the k-th CSE replacement *)
| XFAdd (a b : lexp)
| XFMul (a b : lexp)
| XSquare (a : lexp)
| XCall1 (f : lfun) (a : lexp)
| XCall2 (f : lfun2) (a b : lexp)
| XPowi (a : lexp) (k : Z)
| XCmp (p : pred) (a b : lexp)
| XBit (o : lbit) (a b : lexp)
| XNot (a : lexp)
| XU2F (a : lexp)
| XSelect (c a b : lexp).

(* ---- the operations ---- *)
Definition op_fadd (x y : F) : option F := f_bin B BAdd x y.
Definition op_fmul (x y : F) : option F := f_bin B BMul x y.
Definition op_fdiv (x y : F) : option F := f_bin B BDiv x y.
Definition f_one : F := f_lit B L1.
Definition f_zero : F := f_lit B L0.

Definition op_call1 (f : lfun) (x : F) : option F :=
  match f with
  | LF _ u => f_un B u x
  | LFExp2 => la_exp2 A x
  end.
Definition op_call2 (f : lfun2) (x y : F) : option F :=
  match f with
  | LF2 _ b => f_bin B b x y
  | LMaxNum => la_maxnum A x y
  | LMinNum => la_minnum A x y
  end.

(* llvm.powi with a constant exponent (compiler-rt __powidf2 / the SelectionDAG expansion):
   r = 1; for the bits of |k| from the lowest: if set r = r * a; a = a * a; k < 0: 1 / r *)
Fixpoint powi_loop (k : positive) (a r : F) : option F :=
  match k with
  | xH => op_fmul r a
  | xO p => match op_fmul a a with Some a2 => powi_loop p a2 r | None => None end
  | xI p =>
      match op_fmul r a with
      | Some r' => match op_fmul a a with Some a2 => powi_loop p a2 r' | None => None end
      | None => None
      end
  end.
Definition op_powi (x : F) (k : Z) : option F :=
  match k with
  | Z0 => Some f_one
  | Zpos p => powi_loop p x f_one
  | Zneg p => match powi_loop p x f_one with Some r => op_fdiv f_one r | None => None end
  end.

Definition op_cmp (p : pred) (x y : F) : bool :=
  match la_cmp A x y, p with
  | Some Eq, OEQ => true
  | Some Lt, ONE | Some Gt, ONE => true
  | Some Lt, OLE | Some Eq, OLE => true
  | Some Lt, OLT => true
  | Some Lt, UNE | Some Gt, UNE | None, UNE => true
  | _, _ => false
  end.
Definition op_bit (o : lbit) (a b : bool) : bool :=
  match o with BitAnd => a && b | BitOr => a || b | BitXor => xorb a b end.
Definition u2f (b : bool) : F := if b then f_one else f_zero.

Definition vF (o : option val) : option F := match o with Some (VF x) => Some x | _ => None end.
Definition vB (o : option val) : option bool := match o with Some (VB b) => Some b | _ => None end.
Definition liftF (o : option F) : option val := match o with Some x => Some (VF x) | None => None end.

Definition ap1 (f : F -> option F) (a : option val) : option val :=
  match vF a with Some x => liftF (f x) | None => None end.
Definition ap2 (f : F -> F -> option F) (a b : option val) : option val :=
  match vF a, vF b with Some x, Some y => liftF (f x y) | _, _ => None end.
Definition apcmp (p : pred) (a b : option val) : option val :=
  match vF a, vF b with Some x, Some y => Some (VB (op_cmp p x y)) | _, _ => None end.
Definition apbit (o : lbit) (a b : option val) : option val :=
  match vB a, vB b with Some x, Some y => Some (VB (op_bit o x y)) | _, _ => None end.
Definition apnot (a : option val) : option val :=
  match vB a with Some x => Some (VB (negb x)) | None => None end.
Definition apu2f (a : option val) : option val :=
  match vB a with Some x => Some (VF (u2f x)) | None => None end.
(* both arms are computed; the result is the chosen arm's value (None if THAT arm is not modelled) *)
Definition apsel (c a b : option val) : option val :=
  match vB c with Some true => a | Some false => b | None => None end.

(* ---- the value of an operation tree at an input vector ---- *)
Fixpoint xeval (inp : list F) (refs : list (option val)) (e : lexp) : option val :=
  match e with
  | XConst v => Some (VF v)
  | XIn i => match nth_error inp i with Some x => Some (VF x) | None => None end
  | XRef k => match nth_error refs k with Some v => v | None => None end
  | XFAdd a b => ap2 op_fadd (xeval inp refs a) (xeval inp refs b)
  | XFMul a b => ap2 op_fmul (xeval inp refs a) (xeval inp refs b)
  | XSquare a => let v := xeval inp refs a in ap2 op_fmul v v
  | XCall1 f a => ap1 (op_call1 f) (xeval inp refs a)
  | XCall2 f a b => ap2 (op_call2 f) (xeval inp refs a) (xeval inp refs b)
  | XPowi a k => ap1 (fun x => op_powi x k) (xeval inp refs a)
  | XCmp p a b => apcmp p (xeval inp refs a) (xeval inp refs b)
  | XBit o a b => apbit o (xeval inp refs a) (xeval inp refs b)
  | XNot a => apnot (xeval inp refs a)
  | XU2F a => apu2f (xeval inp refs a)
  | XSelect c a b => apsel (xeval inp refs c) (xeval inp refs a) (xeval inp refs b)
  end.

(* ---------------------------------------------------------------- SSA *)
Inductive opnd := OC (v : F) | OI (i : nat) | OR (r : nat) | OU.   (* OU: no value (an unbound reference) *)

Inductive instr :=
| IFAdd (a b : opnd)
| IFMul (a b : opnd)
| ICall1 (f : lfun) (a : opnd)
| ICall2 (f : lfun2) (a b : opnd)
| IPowi (a : opnd) (k : Z)
| ICmp (p : pred) (a b : opnd)
| IBit (o : lbit) (a b : opnd)
| INot (a : opnd)
| IU2F (a : opnd)
| ISelect (c a b : opnd).

(* operands first (left to right), then the instruction; n = number of instructions emitted so far *)
Fixpoint flatten (refs : list opnd) (e : lexp) (n : nat) : list instr * opnd :=
  let bin (mk : opnd -> opnd -> instr) (a b : lexp) :=
    let (ca, oa) := flatten refs a n in
    let (cb, ob) := flatten refs b (n + length ca) in
    (ca ++ cb ++ [mk oa ob], OR (n + length ca + length cb)) in
  let un (mk : opnd -> instr) (a : lexp) :=
    let (ca, oa) := flatten refs a n in
    (ca ++ [mk oa], OR (n + length ca)) in
  match e with
  | XConst v => ([], OC v)
  | XIn i => ([], OI i)
  | XRef k => ([], nth k refs OU)
  | XFAdd a b => bin IFAdd a b
  | XFMul a b => bin IFMul a b
  | XSquare a => un (fun o => IFMul o o) a
  | XCall1 f a => un (ICall1 f) a
  | XCall2 f a b => bin (ICall2 f) a b
  | XPowi a k => un (fun o => IPowi o k) a
  | XCmp p a b => bin (ICmp p) a b
  | XBit o a b => bin (IBit o) a b
  | XNot a => un INot a
  | XU2F a => un IU2F a
  | XSelect c a b =>
      let (cc, oc) := flatten refs c n in
      let (ca, oa) := flatten refs a (n + length cc) in
      let (cb, ob) := flatten refs b (n + length cc + length ca) in
      (cc ++ ca ++ cb ++ [ISelect oc oa ob], OR (n + length cc + length ca + length cb))
  end.

Definition opval (inp : list F) (regs : list (option val)) (o : opnd) : option val :=
  match o with
  | OC v => Some (VF v)
  | OI i => match nth_error inp i with Some x => Some (VF x) | None => None end
  | OR r => match nth_error regs r with Some v => v | None => None end
  | OU => None
  end.

Definition step (inp : list F) (regs : list (option val)) (i : instr) : option val :=
  let ov := opval inp regs in
  match i with
  | IFAdd a b => ap2 op_fadd (ov a) (ov b)
  | IFMul a b => ap2 op_fmul (ov a) (ov b)
  | ICall1 f a => ap1 (op_call1 f) (ov a)
  | ICall2 f a b => ap2 (op_call2 f) (ov a) (ov b)
  | IPowi a k => ap1 (fun x => op_powi x k) (ov a)
  | ICmp p a b => apcmp p (ov a) (ov b)
  | IBit o a b => apbit o (ov a) (ov b)
  | INot a => apnot (ov a)
  | IU2F a => apu2f (ov a)
  | ISelect c a b => apsel (ov c) (ov a) (ov b)
  end.

(* the interpreter: every instruction appends the value of its register *)
Fixpoint exec (inp : list F) (code : list instr) (regs : list (option val)) : list (option val) :=
  match code with
  | [] => regs
  | i :: r => exec inp r (regs ++ [step inp regs i])
  end.

(* ---------------------------------------------------------------- bvisit: expression -> operation tree *)
Fixpoint subst (t : lterm) (args : list lexp) (expo : Z) : option lexp :=
  match t with
  | TArg i => nth_error args i
  | TLit l => Some (XConst (f_lit B l))
  | TFAdd a b => match subst a args expo, subst b args expo with Some x, Some y => Some (XFAdd x y) | _, _ => None end
  | TFMul a b => match subst a args expo, subst b args expo with Some x, Some y => Some (XFMul x y) | _, _ => None end
  | TSquare a => match subst a args expo with Some x => Some (XSquare x) | None => None end
  | TCall1 f a => match subst a args expo with Some x => Some (XCall1 f x) | None => None end
  | TCall2 f a b => match subst a args expo, subst b args expo with Some x, Some y => Some (XCall2 f x y) | _, _ => None end
  | TPowi a => match subst a args expo with Some x => Some (XPowi x expo) | None => None end
  | TCmp p a b => match subst a args expo, subst b args expo with Some x, Some y => Some (XCmp p x y) | _, _ => None end
  | TBit o a b => match subst a args expo, subst b args expo with Some x, Some y => Some (XBit o x y) | _, _ => None end
  | TNot a => match subst a args expo with Some x => Some (XNot x) | None => None end
  | TU2F a => match subst a args expo with Some x => Some (XU2F x) | None => None end
  end.

Definition lrule_of (tbl : list (N * lrule)) (e : expr) : lrule :=
  match lookup_lrule tbl (type_code e) with Some r => r | None => LRThrow EXN_NOTIMPL end.

Definition is_int_zero (n : number) : bool := match n with NInt 0 => true | _ => false end.
Definition is_int_two (e : expr) : bool := match e with ENum (NInt 2) => true | _ => false end.
Definition in_int_range (k : Z) : bool := ((- 2147483648 <=? k) && (k <=? 2147483647))%Z.
Definition is_true (e : expr) : bool := match e with EBool true => true | _ => false end.

Definition lres (o : option lexp) : res lexp :=
  match o with Some x => Ok x | None => ErrExn EXN_STD end.

Fixpoint rw_find (rw : list (expr * expr)) (e : expr) : option expr :=
  match rw with
  | [] => None
  | (k, v) :: r => if expr_eqb k e then Some v else rw_find r e
  end.

(* tmp = first; for the others: tmp = op(tmp, x) / op(x, tmp) *)
Definition mk_fold (f : option lfun2) (acc_left : bool) (acc x : lexp) : lexp :=
  match f with
  | None => if acc_left then XFMul acc x else XFMul x acc
  | Some g => if acc_left then XCall2 g acc x else XCall2 g x acc
  end.

(* vtbl : the table of eval_double (Constant); tbl : llvm_rules;
   syms : the input symbols; cmap : replacement symbol -> index of its value;
   rw   : the expressions RewriteTrigVisitor builds, by node *)
Fixpoint lower (fuel : nat) (vtbl : list (N * rule)) (tbl : list (N * lrule)) (syms : list expr)
         (cmap : list (expr * nat)) (rw : list (expr * expr)) (e : expr) {struct fuel} : res lexp :=
  match fuel with
  | O => ErrFuel
  | S fu =>
    let lw := lower fu vtbl tbl syms cmap rw in
    match lrule_of tbl e with
    | LRLeafInt => match e with ENum (NInt z) => Ok (XConst (f_of_Z B z)) | _ => ErrExn EXN_STD end
    | LRLeafRat => match e with ENum (NRat n d) => Ok (XConst (f_of_Q B n d)) | _ => ErrExn EXN_STD end
    | LRLeafDbl => match e with ENum (NDbl b) => Ok (XConst (f_of_bits B b)) | _ => ErrExn EXN_STD end
    | LRFormula sel t =>
        do vs <- mapM (fun i => do c <- nth_child e i; lw c) sel; lres (subst t vs 0%Z)
    | LRAdd cskip oskip key_first =>
        match e with
        | EAdd c d =>
            let term (p : expr * number) : res lexp :=
              let (k, v) := p in
              if oskip && num_is_one v then lw k
              else if key_first then (do a <- lw k; do b <- lw (ENum v); Ok (XFMul a b))
                   else (do b <- lw (ENum v); do a <- lw k; Ok (XFMul b a)) in
            let fix go (acc : lexp) (l : list (expr * number)) : res lexp :=
              match l with
              | [] => Ok acc
              | p :: r => do t <- term p; go (XFAdd acc t) r
              end in
            if cskip && is_int_zero c then
              match d with
              | [] => ErrOOB 0 0
              | p :: r => do t <- term p; go t r
              end
            else (do a0 <- lw (ENum c); go a0 d)
        | _ => ErrExn EXN_STD
        end
    | LRFoldArgs f acc_left =>
        match children e with
        | [] => ErrOOB 0 0
        | c0 :: rest =>
            let fix go (acc : lexp) (l : list expr) : res lexp :=
              match l with
              | [] => Ok acc
              | x :: r => do v <- lw x; go (mk_fold f acc_left acc v) r
              end in
            do a0 <- lw c0; go a0 rest
        end
    | LRLogic o =>
        let z := XConst (f_lit B L0) in
        match children e with
        | [] => ErrOOB 0 0
        | c0 :: rest =>
            let fix go (acc : lexp) (l : list expr) : res lexp :=
              match l with
              | [] => Ok acc
              | x :: r => do v <- lw x; go (XBit o acc (XCmp ONE v z)) r
              end in
            do a0 <- lw c0; do r <- go (XCmp ONE a0 z) rest; Ok (XU2F r)
        end
    | LRPow ecase twocase sqcase icase gen gen_base_first =>
        match e with
        | EPow b x =>
            if is_E b then (do xv <- lw x; do bv <- lw b; lres (subst ecase [bv; xv] 0%Z))
            else if is_int_two b then (do xv <- lw x; do bv <- lw b; lres (subst twocase [bv; xv] 0%Z))
            else
              match x with
              | ENum (NInt k) =>
                  do bv <- lw b; do xv <- lw x;
                  if (k =? 2)%Z then lres (subst sqcase [bv; xv] k)
                  else if in_int_range k then lres (subst icase [bv; xv] k)
                  else ErrExn EXN_STD
              | _ =>
                  if gen_base_first then (do bv <- lw b; do xv <- lw x; lres (subst gen [bv; xv] 0%Z))
                  else (do xv <- lw x; do bv <- lw b; lres (subst gen [bv; xv] 0%Z))
              end
        | _ => ErrExn EXN_STD
        end
    | LRPiecewise =>
        match e with
        | EPw l =>
            match last l (e, EBool false) with
            | (_, EBool true) =>
                match l with
                | (x1, c1) :: ((_ :: _) as rest) =>
                    do cv <- lw c1; do tv <- lw x1;
                    do ev <- (match rest with
                              | [(x2, _)] => lw x2
                              | _ => lw (EPw rest)
                              end);
                    Ok (XSelect (XCmp ONE cv (XConst (f_lit B L0))) tv ev)
                | _ => ErrExn EXN_SYMENGINE
                end
            | _ => ErrExn EXN_SYMENGINE
            end
        | _ => ErrExn EXN_STD
        end
    | LRSign =>
        (* Piecewise((0.0, Eq(x, 0.0)), (-1.0, Lt(x, 0.0)), (1.0, True)): x is emitted twice *)
        do c <- nth_child e 0;
        do a1 <- lw c; do a2 <- lw c;
        let z := XConst (f_lit B L0) in
        Ok (XSelect (XCmp ONE (XU2F (XCmp OEQ a1 z)) z) z
                    (XSelect (XCmp ONE (XU2F (XCmp OLT a2 z)) z) (XConst (f_lit B LM1)) (XConst (f_lit B L1))))
    | LRContains =>
        match e with
        | ELex _ x (EInterval s t lo ro) =>
            do xv <- lw x; do sv <- lw s; do tv <- lw t;
            Ok (XU2F (XBit BitAnd (XCmp (if lo then OLT else OLE) sv xv) (XCmp (if ro then OLT else OLE) xv tv)))
        | ELex _ x _ => do xv <- lw x; ErrExn EXN_SYMENGINE
        | _ => ErrExn EXN_SYMENGINE
        end
    | LRInfty =>
        match e with
        | ENum (NInf d) =>
            if (d <? 0)%Z then Ok (XConst (f_lit B LNegInf)) else if (0 <? d)%Z then Ok (XConst (f_lit B LInf)) else ErrExn EXN_SYMENGINE
        | _ => ErrExn EXN_STD
        end
    | LRNaN => Ok (XConst (f_lit B LSNaN))
    | LRBoolAtom => match e with EBool b => Ok (XConst (f_lit B (if b then L1 else L0))) | _ => ErrExn EXN_STD end
    | LRSymbol map_first =>
        let from_inputs (k : res lexp) := match index_of syms e 0 with Some i => Ok (XIn i) | None => k end in
        let from_map (k : res lexp) := match assoc cmap e with Some i => Ok (XRef i) | None => k end in
        if map_first then from_map (from_inputs (ErrExn EXN_SYMENGINE))
        else from_inputs (from_map (ErrExn EXN_SYMENGINE))
    | LRConstant => do v <- eval_const_via B vtbl e; Ok (XConst v)
    | LRPass => do c <- nth_child e 0; lw c
    | LRRewrite _ =>
        match rw_find rw e with
        | Some e' => lw e'
        | None => ErrExn EXN_NOMODEL
        end
    | LRThrow c => ErrExn c
    end
  end.

(* rewritten nodes nest at most once per node of the original tree *)
Definition lower_fuel (rw : list (expr * expr)) (e : expr) : nat :=
  2 * size e + 2 + fold_right (fun p acc => (2 * size (snd p) + 2 + acc)%nat) 0%nat rw.

(* ---------------------------------------------------------------- init / call *)
Record program := mk_prog {
  p_code : list instr;
  p_outs : list opnd
}.

Definition is_symbol (e : expr) : bool := match e with ESym _ => true | EDummy _ _ => true | _ => false end.

(* flatten a list of trees one after the other; returns the code and the operand of each tree *)
Fixpoint flatten_list (refs : list opnd) (es : list lexp) (n : nat) : list instr * list opnd :=
  match es with
  | [] => ([], [])
  | e :: r =>
      let (c, o) := flatten refs e n in
      let (cr, os) := flatten_list refs r (n + length c) in
      (c ++ cr, o :: os)
  end.
(* the replacements: each may refer to the earlier ones *)
Fixpoint flatten_reps (refs : list opnd) (es : list lexp) (n : nat) : list instr * list opnd :=
  match es with
  | [] => ([], refs)
  | e :: r =>
      let (c, o) := flatten refs e n in
      let (cr, refs') := flatten_reps (refs ++ [o]) r (n + length c) in
      (c ++ cr, refs')
  end.

Fixpoint lower_list (vtbl : list (N * rule)) (tbl : list (N * lrule)) (syms : list expr) (cmap : list (expr * nat))
         (rw : list (expr * expr)) (es : list expr) : res (list lexp) :=
  match es with
  | [] => Ok []
  | e :: r => do x <- lower (lower_fuel rw e) vtbl tbl syms cmap rw e; do xs <- lower_list vtbl tbl syms cmap rw r; Ok (x :: xs)
  end.

(* replacement_symbol_ptrs[rep.first] = apply(rep.second): the k-th replacement value is XRef k *)
Fixpoint lower_reps (vtbl : list (N * rule)) (tbl : list (N * lrule)) (syms : list expr) (cmap : list (expr * nat))
         (rw : list (expr * expr)) (k : nat) (reps : list (expr * expr)) : res (list lexp * list (expr * nat)) :=
  match reps with
  | [] => Ok ([], cmap)
  | (s, ex) :: r =>
      do x <- lower (lower_fuel rw ex) vtbl tbl syms cmap rw ex;
      do rest <- lower_reps vtbl tbl syms (map_set cmap s k) rw (S k) r;
      Ok (x :: fst rest, snd rest)
  end.

(* the operation trees of one init: (replacement trees, output trees) *)
Definition lower_init (vtbl : list (N * rule)) (tbl : list (N * lrule)) (rw : list (expr * expr))
           (inputs outputs : list expr) (c : cse_outcome) : res (list lexp * list lexp) :=
  if negb (forallb is_symbol inputs) then ErrExn EXN_SYMENGINE
  else
    match c with
    | NoCse => do os <- lower_list vtbl tbl inputs [] rw outputs; Ok ([], os)
    | CseThrows cls => ErrExn cls
    | CseOk reps reduced =>
        do rr <- lower_reps vtbl tbl inputs [] rw 0 reps;
        do os <- lower_list vtbl tbl inputs (snd rr) rw (firstn (length outputs) reduced);
        if (length reduced <? length outputs)%nat then ErrOOB (N.of_nat (length reduced)) (N.of_nat (length outputs))
        else Ok (fst rr, os)
    end.

Definition compile_trees (reps outs : list lexp) : program :=
  let (c1, refs) := flatten_reps [] reps 0 in
  let (c2, os) := flatten_list refs outs (length c1) in
  mk_prog (c1 ++ c2) os.

(* LLVMVisitor::init *)
Definition compile_prog (vtbl : list (N * rule)) (tbl : list (N * lrule)) (rw : list (expr * expr))
           (inputs outputs : list expr) (c : cse_outcome) : res program :=
  do t <- lower_init vtbl tbl rw inputs outputs c; Ok (compile_trees (fst t) (snd t)).

(* LLVMDoubleVisitor::call *)
Definition run_ssa (p : program) (inp : list F) : list (option val) :=
  let regs := exec inp (p_code p) [] in map (opval inp regs) (p_outs p).

(* the values of the operation trees themselves (the specification of run_ssa) *)
Fixpoint reps_values (inp : list F) (refs : list (option val)) (reps : list lexp) : list (option val) :=
  match reps with
  | [] => refs
  | e :: r => reps_values inp (refs ++ [xeval inp refs e]) r
  end.
Definition trees_value (inp : list F) (reps outs : list lexp) : list (option val) :=
  let refs := reps_values inp [] reps in map (xeval inp refs) outs.

End MODEL.

Arguments XConst {F}. Arguments XIn {F}. Arguments XRef {F}. Arguments XFAdd {F}. Arguments XFMul {F}. Arguments XSquare {F}.
Arguments XCall1 {F}. Arguments XCall2 {F}. Arguments XPowi {F}. Arguments XCmp {F}. Arguments XBit {F}. Arguments XNot {F}.
Arguments XU2F {F}. Arguments XSelect {F}.
Arguments VF {F}. Arguments VB {F}.
Arguments OC {F}. Arguments OI {F}. Arguments OR {F}. Arguments OU {F}.
