(* C14 -- the executable instance (Flocq binary64; the C library is a parameter, on bit patterns) and
   the entry points of the extracted model.  No proofs here. *)
From Coq Require Import ZArith NArith List Bool.
From Flocq Require Import IEEE754.BinarySingleNaN IEEE754.Binary IEEE754.Bits Core.
From SE Require Import Expr.IO Eval.EvalModel Eval.EvalFloat Eval.LambdaModel Eval.Gen_EvalRules
  C14.LlvmTerm C14.LlvmModel C14.Gen_LlvmRules.
Import ListNotations.
Local Open Scope N_scope.

Definition b64_isnan (x : binary64) : bool := is_nan 53 1024 x.
Definition b64_ge (x y : binary64) : bool :=
  match b64_compare x y with Some Gt | Some Eq => true | _ => false end.

(* llvm.maxnum / llvm.minnum are lowered to fmax / fmin (glibc):
   fmax(x, y) = (isgreaterequal(x, y) || isnan(y)) ? x : y;  fmin(x, y) = (islessequal(x, y) || isnan(y)) ? x : y *)
Definition b64_fmax (x y : binary64) : binary64 := if b64_ge x y || b64_isnan y then x else y.
Definition b64_fmin (x y : binary64) : binary64 := if b64_le x y || b64_isnan y then x else y.

Section RUN.
Variable un : ufun -> N -> option N.
Variable bin : bfun -> N -> N -> option N.
Variable exp2 : N -> option N.

Definition b64_lalg : lalg binary64 :=
  mk_lalg binary64 (b64_alg un bin)
          (fun x => match exp2 (b64_bits x) with Some b => Some (b64_ofbits b) | None => None end)
          (fun x y => Some (b64_fmax x y)) (fun x y => Some (b64_fmin x y))
          b64_compare.

Definition show_val (v : option (@val binary64)) : option N :=
  match v with
  | Some (VF x) => Some (b64_bits x)
  | Some (VB b) => Some (b64_bits (b64_of_bool b))
  | None => None
  end.

(* LLVMDoubleVisitor v; v.init(inputs, outputs, cse, opt_level); v.call(outs, inp) for each input vector *)
Definition llvm_run (rw : list (expr * expr)) (inputs outputs : list expr) (c : cse_outcome) (inps : list (list N))
  : res (list (list (option N))) :=
  match compile_prog b64_lalg visitor_rules llvm_rules rw inputs outputs c with
  | Ok p => Ok (map (fun inp => map show_val (run_ssa b64_lalg p (map b64_ofbits inp))) inps)
  | ErrOOB i n => ErrOOB i n
  | ErrFuel => ErrFuel
  | ErrExn c => ErrExn c
  end.

(* the same values computed on the operation trees (compile_sound says they are equal) *)
Definition llvm_spec (rw : list (expr * expr)) (inputs outputs : list expr) (c : cse_outcome) (inps : list (list N))
  : res (list (list (option N))) :=
  match lower_init b64_lalg visitor_rules llvm_rules rw inputs outputs c with
  | Ok t => Ok (map (fun inp => map show_val (trees_value b64_lalg (map b64_ofbits inp) (fst t) (snd t))) inps)
  | ErrOOB i n => ErrOOB i n
  | ErrFuel => ErrFuel
  | ErrExn c => ErrExn c
  end.

(* number of instructions of the compiled program *)
Definition llvm_size (rw : list (expr * expr)) (inputs outputs : list expr) (c : cse_outcome) : N :=
  match compile_prog b64_lalg visitor_rules llvm_rules rw inputs outputs c with
  | Ok p => N.of_nat (length (p_code p))
  | _ => 0
  end.
End RUN.
