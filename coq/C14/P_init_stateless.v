From SE Require Import C14.Gen_LlvmRules.
(* LLVMVisitor::init resets symbol_ptrs / replacement_symbol_ptrs before it fills them (generated from the text of init):
   the model of init (LlvmModel.compile_prog) is a function of its arguments only, so a reused visitor behaves like a fresh one *)
Theorem C14_init_stateless : llvm_init_clears_first = true.
Proof. reflexivity. Qed.
Print Assumptions C14_init_stateless.
