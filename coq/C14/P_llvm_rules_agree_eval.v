From Coq Require Import List NArith Bool.
From SE Require Import Gen.TypeCodes Eval.EvalTerm Eval.Gen_EvalRules Eval.Gen_LambdaRules Eval.TableProofs
  C14.LlvmTerm C14.Gen_LlvmRules C14.LlvmTable.
Import ListNotations.
(* class by class: LLVMDoubleVisitor throws, or its rule (instructions read as formulas) is the rule of eval_double or of
   LambdaRealDoubleVisitor; LLVMDoubleVisitor and the lambda visitor accept exactly the same classes *)
Theorem C14_llvm_rules_agree_eval :
  forallb (fun c => is_lthrow (lrule_at c) || agree_visitor c || agree_lambda c) lall_codes = true
  /\ filter (fun c => is_lthrow (lrule_at c) && negb (is_throw (rule_at lambda_rules c))) lall_codes = []
  /\ filter (fun c => negb (is_lthrow (lrule_at c)) && is_throw (rule_at lambda_rules c)) lall_codes = []
  /\ filter (fun c => negb (is_lthrow (lrule_at c)) && negb (agree_lambda c)) lall_codes = [TC_Mul]
  /\ filter (fun c => negb (is_lthrow (lrule_at c)) && negb (agree_visitor c)) lall_codes
     = [TC_Infty; TC_NaN; TC_Symbol; TC_Dummy; TC_Add; TC_Sign; TC_Floor; TC_Ceiling; TC_Contains; TC_Not; TC_And; TC_Or; TC_Xor; TC_Truncate].
Proof.
  split; [ exact llvm_agree | ]. split; [ exact llvm_lacks | ]. split; [ exact llvm_extra | ].
  split; [ exact llvm_agree_visitor_only | exact llvm_agree_lambda_only ].
Qed.
Print Assumptions C14_llvm_rules_agree_eval.
