(* Extraction of the C14 model (run from the output directory; not part of `make`). *)
From SE Require Import Expr.IO C14.LlvmRun.
Require Import ExtrOcamlBasic.
Extraction "semodel.ml" N_of_digits Z_of_digits digits_of_N tc_lookup llvm_run llvm_spec llvm_size.
