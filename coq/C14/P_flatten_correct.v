From Coq Require Import List NArith.
From SE Require Import C14.LlvmModel C14.LlvmProofs.
(* the emission order (operands first, then the instruction defining the next register) preserves values:
   after executing the code of a tree on any register file its operand holds the value of the tree *)
Theorem C14_flatten_correct :
  forall (F : Type) (A : lalg F) (inp : list F) (refs : list (@opnd F)) (e : @lexp F) (regs : list (option (@val F))),
    Forall (ok_opnd regs) refs ->
    let (c, o) := flatten refs e (length regs) in
    exists ext, exec A inp c regs = regs ++ ext /\ length ext = length c /\
                ok_opnd (regs ++ ext) o /\
                opval inp (regs ++ ext) o = xeval A inp (map (opval inp regs) refs) e.
Proof. intros F A inp refs e. exact (flatten_correct A inp refs e). Qed.
Print Assumptions C14_flatten_correct.
