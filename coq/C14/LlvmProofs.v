(* C14 -- compile_sound: running the straight-line SSA program that [flatten] emits for the operation
   trees of an init gives, for every input vector, the values of those trees ([xeval]); with the
   symbolic-CSE pre-pass the replacement values are computed once and shared. *)
From Coq Require Import ZArith NArith List Bool Lia.
From SE Require Import C14.LlvmModel.
Import ListNotations.

Arguments LlvmModel.opval {F} inp regs o : simpl never.
Arguments LlvmModel.step {F} A inp regs i : simpl never.

Section PROOFS.
Context {F : Type}.
Variable A : lalg F.
Variable inp : list F.

Notation exec := (exec A inp).
Notation opval := (@opval F inp).
Notation xeval := (xeval A inp).
Notation flatten := (@flatten F).
Notation step := (step A inp).

Definition ok_opnd (regs : list (option (@val F))) (o : @opnd F) : Prop :=
  match o with OR r => (r < length regs)%nat | _ => True end.

Lemma exec_app : forall c1 c2 regs, exec (c1 ++ c2) regs = exec c2 (exec c1 regs).
Proof. induction c1; intros; simpl; auto. Qed.

Lemma exec_ext : forall c regs, exists ext, exec c regs = regs ++ ext /\ length ext = length c.
Proof.
  induction c as [ | i c IH ]; intro regs; simpl.
  - exists []. rewrite app_nil_r. auto.
  - destruct (IH (regs ++ [step regs i])) as [ext [H1 H2]].
    exists (step regs i :: ext). rewrite H1, <- app_assoc. simpl. auto.
Qed.

Lemma opval_app : forall regs ext o, ok_opnd regs o -> opval (regs ++ ext) o = opval regs o.
Proof.
  intros regs ext [v | i | r | ] H; unfold LlvmModel.opval, ok_opnd in *; auto.
  rewrite nth_error_app1 by auto. reflexivity.
Qed.

Lemma ok_opnd_app : forall regs ext o, ok_opnd regs o -> ok_opnd (regs ++ ext) o.
Proof. intros regs ext [v | i | r | ] H; simpl in *; auto. rewrite app_length. lia. Qed.

Lemma map_opval_app : forall regs ext refs, Forall (ok_opnd regs) refs ->
  map (opval (regs ++ ext)) refs = map (opval regs) refs.
Proof.
  intros regs ext refs H. induction H; simpl; auto. rewrite IHForall, opval_app by auto. reflexivity.
Qed.

Lemma Forall_ok_app : forall regs ext refs, Forall (ok_opnd regs) refs -> Forall (ok_opnd (regs ++ ext)) refs.
Proof. intros regs ext refs H. induction H; constructor; auto using ok_opnd_app. Qed.

Lemma opval_last : forall regs v, opval (regs ++ [v]) (OR (length regs)) = v.
Proof. intros. unfold LlvmModel.opval. rewrite nth_error_app2 by lia. rewrite Nat.sub_diag. reflexivity. Qed.

Lemma nth_refs : forall (refs : list (@opnd F)) regs k,
  opval regs (nth k refs OU) = match nth_error (map (opval regs) refs) k with Some v => v | None => None end.
Proof.
  induction refs as [ | o refs IH ]; intros regs k; destruct k; cbn [nth map nth_error]; auto.
Qed.

Lemma ok_nth_refs : forall (refs : list (@opnd F)) regs k, Forall (ok_opnd regs) refs -> ok_opnd regs (nth k refs OU).
Proof.
  induction refs as [ | o refs IH ]; intros regs k H; destruct k; simpl; auto; inversion H; subst; auto.
Qed.

(* the invariant of one flatten call *)
Definition flat_ok (refs : list (@opnd F)) (e : @lexp F) : Prop :=
  forall regs, Forall (ok_opnd regs) refs ->
    let (c, o) := flatten refs e (length regs) in
    exists ext, exec c regs = regs ++ ext /\ length ext = length c /\
                ok_opnd (regs ++ ext) o /\
                opval (regs ++ ext) o = xeval (map (opval regs) refs) e.

(* one operand, then an instruction *)
Lemma flat_un : forall refs a (mk : @opnd F -> @instr F) (g : option (@val F) -> option (@val F)),
  flat_ok refs a ->
  (forall regs o, step regs (mk o) = g (opval regs o)) ->
  forall regs, Forall (ok_opnd regs) refs ->
    let (ca, oa) := flatten refs a (length regs) in
    exists ext, exec (ca ++ [mk oa]) regs = regs ++ ext /\ length ext = length (ca ++ [mk oa]) /\
                ok_opnd (regs ++ ext) (OR (length regs + length ca)) /\
                opval (regs ++ ext) (OR (length regs + length ca)) = g (xeval (map (opval regs) refs) a).
Proof.
  intros refs a mk g Ha Hstep regs Hrefs.
  specialize (Ha regs Hrefs). destruct (flatten refs a (length regs)) as [ca oa].
  destruct Ha as [ext [He [Hl [Hok Hv]]]].
  exists (ext ++ [step (regs ++ ext) (mk oa)]).
  rewrite exec_app, He. simpl. rewrite !app_length, <- app_assoc. simpl.
  split; [ reflexivity | ]. split; [ lia | ]. split.
  - cbn [ok_opnd]. rewrite ?app_length. simpl. lia.
  - rewrite app_assoc. rewrite <- Hl.
    replace (length regs + length ext)%nat with (length (regs ++ ext)) by (rewrite app_length; reflexivity).
    rewrite opval_last, Hstep, Hv. reflexivity.
Qed.

(* two operands *)
Lemma flat_bin : forall refs a b (mk : @opnd F -> @opnd F -> @instr F) (g : option (@val F) -> option (@val F) -> option (@val F)),
  flat_ok refs a -> flat_ok refs b ->
  (forall regs oa ob, step regs (mk oa ob) = g (opval regs oa) (opval regs ob)) ->
  forall regs, Forall (ok_opnd regs) refs ->
    let (ca, oa) := flatten refs a (length regs) in
    let (cb, ob) := flatten refs b (length regs + length ca) in
    exists ext, exec (ca ++ cb ++ [mk oa ob]) regs = regs ++ ext /\ length ext = length (ca ++ cb ++ [mk oa ob]) /\
                ok_opnd (regs ++ ext) (OR (length regs + length ca + length cb)) /\
                opval (regs ++ ext) (OR (length regs + length ca + length cb))
                = g (xeval (map (opval regs) refs) a) (xeval (map (opval regs) refs) b).
Proof.
  intros refs a b mk g Ha Hb Hstep regs Hrefs.
  specialize (Ha regs Hrefs). destruct (flatten refs a (length regs)) as [ca oa].
  destruct Ha as [e1 [He1 [Hl1 [Hok1 Hv1]]]].
  specialize (Hb (regs ++ e1) (Forall_ok_app _ _ _ Hrefs)).
  rewrite app_length, Hl1 in Hb.
  destruct (flatten refs b (length regs + length ca)) as [cb ob].
  destruct Hb as [e2 [He2 [Hl2 [Hok2 Hv2]]]].
  rewrite (map_opval_app regs e1 refs Hrefs) in Hv2.
  exists (e1 ++ e2 ++ [step ((regs ++ e1) ++ e2) (mk oa ob)]).
  rewrite exec_app, He1, exec_app, He2. simpl.
  split; [ rewrite <- !app_assoc; reflexivity | ].
  split; [ rewrite !app_length; simpl; lia | ].
  split; [ cbn [ok_opnd]; rewrite ?app_length; simpl; lia | ].
  replace (regs ++ e1 ++ e2 ++ [step ((regs ++ e1) ++ e2) (mk oa ob)])
    with (((regs ++ e1) ++ e2) ++ [step ((regs ++ e1) ++ e2) (mk oa ob)]) by (rewrite <- !app_assoc; reflexivity).
  replace (length regs + length ca + length cb)%nat with (length ((regs ++ e1) ++ e2)) by (rewrite !app_length; lia).
  rewrite opval_last, Hstep, Hv2.
  rewrite (opval_app (regs ++ e1) e2 oa Hok1), Hv1. reflexivity.
Qed.

Ltac use_un H e :=
  cbn [LlvmModel.flatten LlvmModel.xeval]; generalize H;
  match goal with |- context [LlvmModel.flatten ?r e ?n] => destruct (LlvmModel.flatten r e n) as [ca oa] end;
  let HH := fresh "HH" in intro HH; exact HH.
Ltac use_bin H e1 e2 :=
  cbn [LlvmModel.flatten LlvmModel.xeval]; generalize H;
  match goal with |- context [LlvmModel.flatten ?r e1 ?n] => destruct (LlvmModel.flatten r e1 n) as [ca oa] end;
  match goal with |- context [LlvmModel.flatten ?r e2 ?n] => destruct (LlvmModel.flatten r e2 n) as [cb ob] end;
  let HH := fresh "HH" in intro HH; exact HH.

Theorem flatten_correct : forall refs e, flat_ok refs e.
Proof.
  intros refs e. induction e; unfold flat_ok; intros regs Hrefs.
  - (* XConst *) simpl. exists []. rewrite app_nil_r. repeat split; auto.
  - (* XIn *) simpl. exists []. rewrite app_nil_r. repeat split; auto.
  - (* XRef *) simpl. exists []. rewrite app_nil_r. split; [ reflexivity | ]. split; [ reflexivity | ].
    split; [ apply ok_nth_refs; auto | apply nth_refs ].
  - (* XFAdd *) use_bin (flat_bin refs e1 e2 IFAdd (ap2 (op_fadd A)) IHe1 IHe2 (fun _ _ _ => eq_refl) regs Hrefs) e1 e2.
  - (* XFMul *) use_bin (flat_bin refs e1 e2 IFMul (ap2 (op_fmul A)) IHe1 IHe2 (fun _ _ _ => eq_refl) regs Hrefs) e1 e2.
  - (* XSquare *) use_un (flat_un refs e (fun o => IFMul o o) (fun v => ap2 (op_fmul A) v v) IHe (fun _ _ => eq_refl) regs Hrefs) e.
  - (* XCall1 *) use_un (flat_un refs e (ICall1 f) (ap1 (op_call1 A f)) IHe (fun _ _ => eq_refl) regs Hrefs) e.
  - (* XCall2 *) use_bin (flat_bin refs e1 e2 (ICall2 f) (ap2 (op_call2 A f)) IHe1 IHe2 (fun _ _ _ => eq_refl) regs Hrefs) e1 e2.
  - (* XPowi *) use_un (flat_un refs e (fun o => IPowi o k) (ap1 (fun x => op_powi A x k)) IHe (fun _ _ => eq_refl) regs Hrefs) e.
  - (* XCmp *) use_bin (flat_bin refs e1 e2 (ICmp p) (apcmp A p) IHe1 IHe2 (fun _ _ _ => eq_refl) regs Hrefs) e1 e2.
  - (* XBit *) use_bin (flat_bin refs e1 e2 (IBit o) (apbit o) IHe1 IHe2 (fun _ _ _ => eq_refl) regs Hrefs) e1 e2.
  - (* XNot *) use_un (flat_un refs e INot apnot IHe (fun _ _ => eq_refl) regs Hrefs) e.
  - (* XU2F *) use_un (flat_un refs e IU2F (apu2f A) IHe (fun _ _ => eq_refl) regs Hrefs) e.
  - (* XSelect *)
    cbn [LlvmModel.flatten].
    specialize (IHe1 regs Hrefs). destruct (flatten refs e1 (length regs)) as [cc oc].
    destruct IHe1 as [x1 [He1 [Hl1 [Hok1 Hv1]]]].
    specialize (IHe2 (regs ++ x1) (Forall_ok_app _ _ _ Hrefs)). rewrite app_length, Hl1 in IHe2.
    destruct (flatten refs e2 (length regs + length cc)) as [ca oa].
    destruct IHe2 as [x2 [He2 [Hl2 [Hok2 Hv2]]]].
    rewrite (map_opval_app regs x1 refs Hrefs) in Hv2.
    specialize (IHe3 ((regs ++ x1) ++ x2) (Forall_ok_app _ _ _ (Forall_ok_app _ _ _ Hrefs))).
    rewrite !app_length, Hl1, Hl2 in IHe3.
    destruct (flatten refs e3 (length regs + length cc + length ca)) as [cb ob].
    destruct IHe3 as [x3 [He3 [Hl3 [Hok3 Hv3]]]].
    rewrite (map_opval_app (regs ++ x1) x2 refs (Forall_ok_app _ _ _ Hrefs)) in Hv3.
    rewrite (map_opval_app regs x1 refs Hrefs) in Hv3.
    set (R := ((regs ++ x1) ++ x2) ++ x3) in *.
    exists (x1 ++ x2 ++ x3 ++ [step R (ISelect oc oa ob)]).
    rewrite exec_app, He1, exec_app, He2, exec_app, He3. simpl.
    split; [ unfold R; rewrite <- !app_assoc; reflexivity | ].
    split; [ rewrite !app_length; simpl; lia | ].
    split; [ cbn [ok_opnd]; rewrite ?app_length; simpl; lia | ].
    replace (regs ++ x1 ++ x2 ++ x3 ++ [step R (ISelect oc oa ob)]) with (R ++ [step R (ISelect oc oa ob)])
      by (unfold R; rewrite <- !app_assoc; reflexivity).
    replace (length regs + length cc + length ca + length cb)%nat with (length R) by (unfold R; rewrite !app_length; lia).
    rewrite opval_last. unfold LlvmModel.step. cbn [LlvmModel.xeval]. rewrite Hv3.
    unfold R.
    rewrite (opval_app ((regs ++ x1) ++ x2) x3 oa Hok2), Hv2.
    rewrite (opval_app ((regs ++ x1) ++ x2) x3 oc (ok_opnd_app _ _ _ Hok1)).
    rewrite (opval_app (regs ++ x1) x2 oc Hok1), Hv1.
    reflexivity.
Qed.

(* ---- lists of trees ---- *)
Lemma flatten_list_correct : forall refs es regs, Forall (ok_opnd regs) refs ->
  let (c, os) := flatten_list refs es (length regs) in
  exists ext, exec c regs = regs ++ ext /\ length ext = length c /\
              map (opval (regs ++ ext)) os = map (xeval (map (opval regs) refs)) es.
Proof.
  intros refs es. induction es as [ | e es IH ]; intros regs Hrefs.
  - simpl. exists []. rewrite app_nil_r. auto.
  - cbn [flatten_list].
    pose proof (flatten_correct refs e regs Hrefs) as He.
    destruct (flatten refs e (length regs)) as [c o].
    destruct He as [x1 [He1 [Hl1 [Hok1 Hv1]]]].
    specialize (IH (regs ++ x1) (Forall_ok_app _ _ _ Hrefs)). rewrite app_length, Hl1 in IH.
    destruct (flatten_list refs es (length regs + length c)) as [cr os].
    destruct IH as [x2 [He2 [Hl2 Hv2]]].
    rewrite (map_opval_app regs x1 refs Hrefs) in Hv2.
    exists (x1 ++ x2). rewrite exec_app, He1, He2, <- app_assoc.
    split; [ reflexivity | ]. split; [ rewrite !app_length; lia | ].
    cbn [map]. rewrite app_assoc, (opval_app (regs ++ x1) x2 o Hok1), Hv1, Hv2. reflexivity.
Qed.

Lemma flatten_reps_correct : forall es refs regs, Forall (ok_opnd regs) refs ->
  let (c, refs') := flatten_reps refs es (length regs) in
  exists ext, exec c regs = regs ++ ext /\ length ext = length c /\
              Forall (ok_opnd (regs ++ ext)) refs' /\
              map (opval (regs ++ ext)) refs' = reps_values A inp (map (opval regs) refs) es.
Proof.
  induction es as [ | e es IH ]; intros refs regs Hrefs.
  - simpl. exists []. rewrite app_nil_r. auto.
  - cbn [flatten_reps reps_values].
    pose proof (flatten_correct refs e regs Hrefs) as He.
    destruct (flatten refs e (length regs)) as [c o].
    destruct He as [x1 [He1 [Hl1 [Hok1 Hv1]]]].
    assert (Hrefs' : Forall (ok_opnd (regs ++ x1)) (refs ++ [o])).
    { apply Forall_app. split; [ apply Forall_ok_app; auto | constructor; auto ]. }
    specialize (IH (refs ++ [o]) (regs ++ x1) Hrefs'). rewrite app_length, Hl1 in IH.
    destruct (flatten_reps (refs ++ [o]) es (length regs + length c)) as [cr refs''].
    destruct IH as [x2 [He2 [Hl2 [Hok2 Hv2]]]].
    exists (x1 ++ x2). rewrite exec_app, He1, He2, <- app_assoc.
    split; [ reflexivity | ]. split; [ rewrite !app_length; lia | ].
    rewrite app_assoc. split; [ exact Hok2 | ].
    rewrite Hv2. rewrite map_app. cbn [map]. rewrite Hv1.
    rewrite (map_opval_app regs x1 refs Hrefs). reflexivity.
Qed.

(* ---- the program of an init ---- *)
Theorem compile_trees_sound : forall reps outs,
  run_ssa A (compile_trees reps outs) inp = trees_value A inp reps outs.
Proof.
  intros reps outs. unfold compile_trees, run_ssa, trees_value.
  pose proof (flatten_reps_correct reps [] [] (Forall_nil _)) as H1. simpl length in H1.
  destruct (flatten_reps [] reps 0) as [c1 refs].
  destruct H1 as [x1 [He1 [Hl1 [Hok1 Hv1]]]]. simpl in He1, Hv1.
  pose proof (flatten_list_correct refs outs x1) as H2. rewrite Hl1 in H2.
  simpl in Hok1. specialize (H2 Hok1).
  destruct (flatten_list refs outs (length c1)) as [c2 os].
  destruct H2 as [x2 [He2 [Hl2 Hv2]]].
  cbn [p_code p_outs]. rewrite exec_app, He1, He2, Hv2. simpl in Hv1. rewrite Hv1. reflexivity.
Qed.

End PROOFS.

(* the statement used by the obligation file: LLVMVisitor::init followed by call computes, for every
   input vector, the values of the operation trees of the outputs (with symbolic CSE: of the reduced
   outputs over the shared replacement values) *)
Theorem compile_sound :
  forall (F : Type) (A : lalg F) vtbl tbl rw inputs outputs c p reps outs (inp : list F),
    lower_init A vtbl tbl rw inputs outputs c = Ok (reps, outs) ->
    compile_prog A vtbl tbl rw inputs outputs c = Ok p ->
    run_ssa A p inp = trees_value A inp reps outs.
Proof.
  intros F A vtbl tbl rw inputs outputs c p reps outs inp Hl Hc.
  unfold compile_prog in Hc. rewrite Hl in Hc. simpl in Hc. inversion Hc; subst.
  apply compile_trees_sound.
Qed.
