From Coq Require Import Reals List NArith ZArith.
From SE Require Import Gen.TypeCodes Eval.EvalTerm C14.LlvmTerm C14.Gen_LlvmRules C14.LlvmTable.
(* the case split of bvisit(const Pow &): base E -> exp(exponent), base 2 -> exp2(exponent), Integer exponent 2 -> base*base,
   other Integer exponent -> powi(base, d), else pow(base, exponent) -- with the operands in this order -- and over the
   reals each case is the power base^exponent *)
Theorem C14_llvm_pow_ideal :
  (match lookup_lrule llvm_rules TC_Pow with
   | Some (LRPow ecase twocase sqcase icase gen _) =>
       ecase = TCall1 (LF true UExp) (TArg 1) /\ twocase = TCall1 LFExp2 (TArg 1) /\ sqcase = TSquare (TArg 0) /\
       icase = TPowi (TArg 0) /\ gen = TCall2 (LF2 true BPow) (TArg 0) (TArg 1)
   | _ => False
   end) /\
  (forall x, Rpower (exp 1) x = exp x) /\
  (forall b, 0 < b -> b * b = Rpower b 2)%R /\
  (forall b k, (0 < b)%R -> powerRZ b k = Rpower b (IZR k)).
Proof. exact llvm_pow_ideal. Qed.
Print Assumptions C14_llvm_pow_ideal.
